import GoLevel.Proofs.IterSim
/-!
# `IndexedIter` is a cursor over the concatenation of its children (C02)

`IndexedIter.sim`: under `IdxOK` (what the index promises about the children) every reachable state of
the model of `leveldb/iterator/indexed_iter.go` behaves like the specification cursor over
`chs.flatMap (·.es)`.  Core Lean only.
-/
namespace GoLevel

/-- what the index promises: the concatenation of the children is strictly sorted; every entry of child `i`
is `≤ sep i`; `sep i ≤` every entry of every later child; index keys are non-decreasing.  Children may be
empty. -/
structure IdxOK (c : UCmp) (chs : List IdxChild) : Prop where
  sorted  : SortedEntries c (chs.flatMap (·.es))
  lo      : ∀ (i : Nat) (ch : IdxChild) (e : Entry), chs[i]? = some ch → e ∈ ch.es → icmp c e.key ch.sep ≠ .gt
  hi      : ∀ (i j : Nat) (chi chj : IdxChild) (e : Entry), i < j → chs[i]? = some chi → chs[j]? = some chj → e ∈ chj.es →
              icmp c chi.sep e.key ≠ .gt
  sepMono : ∀ (i j : Nat) (chi chj : IdxChild), i < j → chs[i]? = some chi → chs[j]? = some chj →
              icmp c chi.sep chj.sep ≠ .gt

namespace IndexedIter

/-- the concatenation of the children -/
abbrev flat (chs : List IdxChild) : List Entry := chs.flatMap (·.es)

/-- offset of child `i` in `flat chs` -/
def off (chs : List IdxChild) (i : Nat) : Nat := ((chs.take i).map (·.es.length)).sum

/-- the cursor position on offset `k` of a list of length `n` (`eoi` when past the end) -/
def atOr (n k : Nat) : Pos := if k < n then .at k else .eoi

/-- the cursor position just before offset `k` -/
def before (k : Nat) : Pos := if k = 0 then .soi else .at (k - 1)

/-- the simulation relation between an `IndexedIter` state and a cursor position over the concatenation:
either the iterator is invalid with the index at the same end as the cursor, or the index is on child `i`,
the data iterator is on entry `j` of that child and the cursor is on `off i + j`. -/
def Rel (_c : UCmp) (chs : List IdxChild) (x : IndexedIter) (p : Pos) : Prop :=
  x.children = chs ∧
  ((x.data = none ∧ x.ipos = .soi ∧ p = .soi) ∨
   (x.data = none ∧ x.ipos = .eoi ∧ p = .eoi) ∨
   (∃ i ch j, x.ipos = .at i ∧ chs[i]? = some ch ∧ x.data = some ⟨ch.es, .at j⟩ ∧ j < ch.es.length ∧
      p = .at (off chs i + j)))

theorem rel_new (c : UCmp) (chs : List IdxChild) : Rel c chs (IndexedIter.new chs) .soi :=
  ⟨rfl, .inl ⟨rfl, rfl, rfl⟩⟩

/-! ## offsets -/

theorem off_eq_length (chs : List IdxChild) (i : Nat) : off chs i = (flat (chs.take i)).length := by
  simp only [off, flat, List.length_flatMap]

@[simp] theorem off_zero (chs : List IdxChild) : off chs 0 = 0 := by simp [off]

theorem off_succ {chs : List IdxChild} {i : Nat} {ch : IdxChild} (h : chs[i]? = some ch) :
    off chs (i + 1) = off chs i + ch.es.length := by
  simp [off, List.take_add_one, h]

theorem off_of_le {chs : List IdxChild} {i : Nat} (h : chs.length ≤ i) : off chs i = (flat chs).length := by
  rw [off_eq_length, List.take_of_length_le h]

/-- `flat` split around child `i` -/
theorem flat_split {chs : List IdxChild} {i : Nat} {ch : IdxChild} (h : chs[i]? = some ch) :
    flat chs = flat (chs.take i) ++ (ch.es ++ flat (chs.drop (i + 1))) := by
  have hi : i < chs.length := (List.getElem?_eq_some_iff.1 h).1
  have he : chs[i] = ch := (List.getElem?_eq_some_iff.1 h).2
  conv => lhs; rw [← List.take_append_drop i chs, List.drop_eq_getElem_cons hi, he]
  simp [flat, List.flatMap_append, List.flatMap_cons]

theorem flat_length {chs : List IdxChild} {i : Nat} {ch : IdxChild} (h : chs[i]? = some ch) :
    (flat chs).length = off chs i + ch.es.length + (flat (chs.drop (i + 1))).length := by
  rw [flat_split h, off_eq_length]; simp only [List.length_append]; omega

theorem flat_length_succ {chs : List IdxChild} {i : Nat} {ch : IdxChild} (h : chs[i]? = some ch) :
    (flat chs).length = off chs (i + 1) + (flat (chs.drop (i + 1))).length := by
  rw [flat_length h, off_succ h]

theorem flat_get {chs : List IdxChild} {i : Nat} {ch : IdxChild} (h : chs[i]? = some ch) (j : Nat)
    (hj : j < ch.es.length) : (flat chs)[off chs i + j]? = ch.es[j]? := by
  rw [flat_split h, off_eq_length, List.getElem?_append_right (by omega)]
  rw [List.getElem?_append_left (by omega)]
  congr 1; omega

/-! ## cursor positions as offsets -/

theorem cursor_next_at {α : Type} (xs : List α) (k : Nat) : Cursor.next xs (.at k) = atOr xs.length (k + 1) := rfl

theorem cursor_prev_at {α : Type} (xs : List α) (k : Nat) : Cursor.prev xs (.at k) = before k := rfl

theorem cursor_first_eq {α : Type} (xs : List α) : Cursor.first xs = atOr xs.length 0 := by
  cases xs <;> simp [Cursor.first, atOr]

theorem cursor_last_eq {α : Type} (xs : List α) : Cursor.last xs = before xs.length := by
  cases xs <;> simp [Cursor.last, before]

theorem get_atOr {α : Type} (xs : List α) (k : Nat) : Cursor.get xs (atOr xs.length k) = xs[k]? := by
  unfold atOr; split
  · rfl
  · simp only [Cursor.get]; rw [List.getElem?_eq_none (by omega)]

/-! ## one step of `nextF` / `prevF` -/

theorem nextF_none_stop (c : UCmp) (n : Nat) (chs : List IdxChild) (p : Pos)
    (h : Cursor.get chs (Cursor.next chs p) = none) :
    nextF c (n + 1) ⟨chs, p, none⟩ = ⟨chs, Cursor.next chs p, none⟩ := by
  simp [nextF, indexOk, h]

theorem nextF_none_go (c : UCmp) (n : Nat) (chs : List IdxChild) (p : Pos) (ch : IdxChild)
    (h : Cursor.get chs (Cursor.next chs p) = some ch) :
    nextF c (n + 1) ⟨chs, p, none⟩ = nextF c n ⟨chs, Cursor.next chs p, some ⟨ch.es, .soi⟩⟩ := by
  simp [nextF, indexOk, setData, h]

theorem nextF_some_fail (c : UCmp) (n : Nat) (chs : List IdxChild) (p : Pos) (a : ArrIter)
    (h : Cursor.get a.xs (Cursor.next a.xs a.pos) = none) :
    nextF c (n + 1) ⟨chs, p, some a⟩ = nextF c (n + 1) ⟨chs, p, none⟩ := by
  simp [nextF, ArrIter.ops, IterOps.ok, h, clearData]

theorem nextF_some_ok (c : UCmp) (n : Nat) (chs : List IdxChild) (p : Pos) (a : ArrIter) (e : Entry)
    (h : Cursor.get a.xs (Cursor.next a.xs a.pos) = some e) :
    nextF c (n + 1) ⟨chs, p, some a⟩ = ⟨chs, p, some ⟨a.xs, Cursor.next a.xs a.pos⟩⟩ := by
  simp [nextF, ArrIter.ops, IterOps.ok, h]

theorem prevF_none_stop (c : UCmp) (n : Nat) (chs : List IdxChild) (p : Pos)
    (h : Cursor.get chs (Cursor.prev chs p) = none) :
    prevF c (n + 1) ⟨chs, p, none⟩ = ⟨chs, Cursor.prev chs p, none⟩ := by
  simp [prevF, indexOk, h]

theorem prevF_none_skip (c : UCmp) (n : Nat) (chs : List IdxChild) (p : Pos) (ch : IdxChild)
    (h : Cursor.get chs (Cursor.prev chs p) = some ch) (he : ch.es = []) :
    prevF c (n + 1) ⟨chs, p, none⟩ = prevF c n ⟨chs, Cursor.prev chs p, none⟩ := by
  simp only [prevF, indexOk, setData, h]
  simp [he, ArrIter.ops, IterOps.ok, Cursor.last, Cursor.get, clearData]

theorem prevF_none_hit (c : UCmp) (n : Nat) (chs : List IdxChild) (p : Pos) (ch : IdxChild)
    (h : Cursor.get chs (Cursor.prev chs p) = some ch) (he : ch.es ≠ []) :
    prevF c (n + 1) ⟨chs, p, none⟩ = ⟨chs, Cursor.prev chs p, some ⟨ch.es, .at (ch.es.length - 1)⟩⟩ := by
  have hlen : ch.es.length - 1 < ch.es.length := by
    cases hh : ch.es with
    | nil => exact absurd hh he
    | cons _ _ => simp
  simp only [prevF, indexOk, setData, h]
  simp [he, ArrIter.ops, IterOps.ok, Cursor.last, Cursor.get, hlen]

theorem prevF_some_fail (c : UCmp) (n : Nat) (chs : List IdxChild) (p : Pos) (a : ArrIter)
    (h : Cursor.get a.xs (Cursor.prev a.xs a.pos) = none) :
    prevF c (n + 1) ⟨chs, p, some a⟩ = prevF c (n + 1) ⟨chs, p, none⟩ := by
  simp [prevF, ArrIter.ops, IterOps.ok, h, clearData]

theorem prevF_some_ok (c : UCmp) (n : Nat) (chs : List IdxChild) (p : Pos) (a : ArrIter) (e : Entry)
    (h : Cursor.get a.xs (Cursor.prev a.xs a.pos) = some e) :
    prevF c (n + 1) ⟨chs, p, some a⟩ = ⟨chs, p, some ⟨a.xs, Cursor.prev a.xs a.pos⟩⟩ := by
  simp [prevF, ArrIter.ops, IterOps.ok, h]

/-! ## the forward and backward scans over empty children -/

theorem atOr_lt {n k : Nat} (h : k < n) : atOr n k = .at k := by simp [atOr, h]
theorem atOr_ge {n k : Nat} (h : n ≤ k) : atOr n k = .eoi := by simp [atOr]; omega

theorem rel_hit (c : UCmp) {chs : List IdxChild} {i : Nat} {ch : IdxChild} (h : chs[i]? = some ch) (j : Nat)
    (hj : j < ch.es.length) : Rel c chs ⟨chs, .at i, some ⟨ch.es, .at j⟩⟩ (.at (off chs i + j)) :=
  ⟨rfl, .inr (.inr ⟨i, ch, j, rfl, h, rfl, hj, rfl⟩)⟩

/-- `Next` with no data iterator: the first entry at or after the start of the index's next child -/
theorem nextF_scan (c : UCmp) (chs : List IdxChild) :
    ∀ (n i : Nat) (p : Pos), Cursor.next chs p = atOr chs.length i → 0 < n → chs.length < i + n →
      Rel c chs (nextF c n ⟨chs, p, none⟩) (atOr (flat chs).length (off chs i)) := by
  intro n
  induction n with
  | zero => intro i p _ h; omega
  | succ n ih =>
    intro i p hnext _ hfuel
    by_cases hi : i < chs.length
    · obtain ⟨ch, hch⟩ : ∃ ch, chs[i]? = some ch := ⟨chs[i], List.getElem?_eq_getElem hi⟩
      have hat : Cursor.next chs p = .at i := by rw [hnext, atOr_lt hi]
      have hget : Cursor.get chs (Cursor.next chs p) = some ch := by rw [hat]; exact hch
      rw [nextF_none_go c n chs p ch hget, hat]
      obtain ⟨m, rfl⟩ : ∃ m, n = m + 1 := ⟨n - 1, by omega⟩
      cases hes : ch.es with
      | nil =>
        rw [nextF_some_fail c m chs (.at i) ⟨[], .soi⟩ (by simp [Cursor.next, Cursor.first, Cursor.get])]
        have h1 := ih (i + 1) (.at i) (cursor_next_at chs i) (by omega) (by omega)
        rw [off_succ hch, hes] at h1
        simpa using h1
      | cons e es =>
        rw [nextF_some_ok c m chs (.at i) ⟨e :: es, .soi⟩ e (by simp [Cursor.next, Cursor.first, Cursor.get])]
        have hlen := flat_length hch
        rw [hes] at hlen
        have h1 := rel_hit c hch 0 (by rw [hes]; simp)
        rw [hes] at h1
        rw [atOr_lt (by simp only [List.length_cons] at hlen; omega)]
        simpa [Cursor.next, Cursor.first] using h1
    · have hat : Cursor.next chs p = .eoi := by rw [hnext, atOr_ge (by omega)]
      rw [nextF_none_stop c n chs p (by rw [hat]; rfl), hat, off_of_le (by omega), atOr_ge (Nat.le_refl _)]
      exact ⟨rfl, .inr (.inl ⟨rfl, rfl, rfl⟩)⟩

theorem before_pos {k : Nat} (h : 0 < k) : before k = .at (k - 1) := by simp [before]; omega

/-- `Prev` with no data iterator: the last entry before the start of child `i`, where the index's
previous position is child `i - 1` -/
theorem prevF_scan (c : UCmp) (chs : List IdxChild) :
    ∀ (n i : Nat) (p : Pos), Cursor.prev chs p = before i → i ≤ chs.length → i < n →
      Rel c chs (prevF c n ⟨chs, p, none⟩) (before (off chs i)) := by
  intro n
  induction n with
  | zero => intro i p _ _ h; omega
  | succ n ih =>
    intro i p hprev hi hfuel
    cases i with
    | zero =>
      have hat : Cursor.prev chs p = .soi := hprev
      rw [prevF_none_stop c n chs p (by rw [hat]; rfl), hat]
      exact ⟨rfl, .inl ⟨rfl, rfl, by simp [before]⟩⟩
    | succ i =>
      obtain ⟨ch, hch⟩ : ∃ ch, chs[i]? = some ch := ⟨chs[i], List.getElem?_eq_getElem (by omega)⟩
      have hat : Cursor.prev chs p = .at i := by rw [hprev]; simp [before]
      have hget : Cursor.get chs (Cursor.prev chs p) = some ch := by rw [hat]; exact hch
      by_cases hes : ch.es = []
      · rw [prevF_none_skip c n chs p ch hget hes, hat]
        have h1 := ih i (.at i) (cursor_prev_at chs i) (by omega) (by omega)
        rw [off_succ hch, hes]
        simpa using h1
      · rw [prevF_none_hit c n chs p ch hget hes, hat, off_succ hch]
        have hpos : 0 < ch.es.length := List.length_pos_iff.2 hes
        rw [before_pos (by omega)]
        have h1 := rel_hit c hch (ch.es.length - 1) (by omega)
        have : off chs i + ch.es.length - 1 = off chs i + (ch.es.length - 1) := by omega
        rw [this]; exact h1

/-! ## the moves that do not look at keys -/

theorem rel_wf (c : UCmp) (chs : List IdxChild) (x : IndexedIter) (p : Pos) (h : Rel c chs x p) :
    Cursor.wf (flat chs) p := by
  obtain ⟨_, h⟩ := h
  rcases h with ⟨_, _, rfl⟩ | ⟨_, _, rfl⟩ | ⟨i, ch, j, _, hch, _, hj, rfl⟩
  · trivial
  · trivial
  · have := flat_length hch
    simp only [Cursor.wf]; omega

theorem rel_cur (c : UCmp) (chs : List IdxChild) (x : IndexedIter) (p : Pos) (h : Rel c chs x p) :
    x.cur = Cursor.get (flat chs) p := by
  obtain ⟨_, h⟩ := h
  rcases h with ⟨hd, _, rfl⟩ | ⟨hd, _, rfl⟩ | ⟨i, ch, j, _, hch, hd, hj, rfl⟩
  · simp [cur, hd, Cursor.get]
  · simp [cur, hd, Cursor.get]
  · simp only [cur, hd, Cursor.get, Option.bind_some]
    exact (flat_get hch j hj).symm

theorem rel_next (c : UCmp) (chs : List IdxChild) (x : IndexedIter) (p : Pos) (h : Rel c chs x p) :
    Rel c chs (next c x) (Cursor.next (flat chs) p) := by
  obtain ⟨children, ipos, data⟩ := x
  obtain ⟨hc, h⟩ := h
  simp only at hc h
  subst hc
  rcases h with ⟨rfl, rfl, rfl⟩ | ⟨rfl, rfl, rfl⟩ | ⟨i, ch, j, rfl, hch, rfl, hj, rfl⟩
  · have := nextF_scan c children (children.length + 2) 0 .soi (cursor_first_eq children) (by omega) (by omega)
    rw [off_zero, ← cursor_first_eq] at this
    exact this
  · have := nextF_scan c children (children.length + 2) children.length .eoi
      (by rw [atOr_ge (Nat.le_refl _)]; rfl) (by omega) (by omega)
    rw [off_of_le (Nat.le_refl _), atOr_ge (Nat.le_refl _)] at this
    exact this
  · rw [cursor_next_at]
    show Rel c children (nextF c (children.length + 1 + 1) _) _
    by_cases hj1 : j + 1 < ch.es.length
    · rw [nextF_some_ok c _ children (.at i) ⟨ch.es, .at j⟩ (ch.es[j + 1])
        (by simp [Cursor.next, Cursor.get, hj1])]
      have hlen := flat_length hch
      rw [atOr_lt (by omega)]
      have := rel_hit c hch (j + 1) hj1
      simpa [Cursor.next, hj1, Nat.add_assoc] using this
    · rw [nextF_some_fail c _ children (.at i) ⟨ch.es, .at j⟩ (by simp [Cursor.next, Cursor.get, hj1])]
      have := nextF_scan c children (children.length + 2) (i + 1) (.at i) (cursor_next_at children i)
        (by omega) (by omega)
      rw [off_succ hch] at this
      have he : off children i + ch.es.length = off children i + j + 1 := by omega
      rw [he] at this
      exact this

theorem rel_prev (c : UCmp) (chs : List IdxChild) (x : IndexedIter) (p : Pos) (h : Rel c chs x p) :
    Rel c chs (prev c x) (Cursor.prev (flat chs) p) := by
  obtain ⟨children, ipos, data⟩ := x
  obtain ⟨hc, h⟩ := h
  simp only at hc h
  subst hc
  rcases h with ⟨rfl, rfl, rfl⟩ | ⟨rfl, rfl, rfl⟩ | ⟨i, ch, j, rfl, hch, rfl, hj, rfl⟩
  · have := prevF_scan c children (children.length + 2) 0 .soi rfl (by omega) (by omega)
    rw [off_zero] at this
    exact this
  · have := prevF_scan c children (children.length + 2) children.length .eoi (cursor_last_eq children)
      (Nat.le_refl _) (by omega)
    rw [off_of_le (Nat.le_refl _), ← cursor_last_eq] at this
    exact this
  · rw [cursor_prev_at]
    have hi : i < children.length := (List.getElem?_eq_some_iff.1 hch).1
    show Rel c children (prevF c (children.length + 1 + 1) _) _
    cases j with
    | zero =>
      rw [prevF_some_fail c _ children (.at i) ⟨ch.es, .at 0⟩ (by simp [Cursor.prev, Cursor.get])]
      exact prevF_scan c children (children.length + 2) i (.at i) (cursor_prev_at children i)
        (by omega) (by omega)
    | succ j =>
      rw [prevF_some_ok c _ children (.at i) ⟨ch.es, .at (j + 1)⟩ (ch.es[j])
        (by simp [Cursor.prev, Cursor.get])]
      rw [before_pos (by omega)]
      have := rel_hit c hch j (by omega)
      simpa [Cursor.prev, ← Nat.add_assoc] using this

/-- `Next` right after `setData` (the data iterator is fresh) -/
theorem nextF_fresh (c : UCmp) {chs : List IdxChild} {i : Nat} {ch : IdxChild} (hch : chs[i]? = some ch)
    (n : Nat) (hfuel : chs.length ≤ i + n) :
    Rel c chs (nextF c n ⟨chs, .at i, some ⟨ch.es, .soi⟩⟩) (atOr (flat chs).length (off chs i)) := by
  have hi : i < chs.length := (List.getElem?_eq_some_iff.1 hch).1
  obtain ⟨m, rfl⟩ : ∃ m, n = m + 1 := ⟨n - 1, by omega⟩
  cases hes : ch.es with
  | nil =>
    rw [nextF_some_fail c m chs (.at i) ⟨[], .soi⟩ (by simp [Cursor.next, Cursor.first, Cursor.get])]
    have h1 := nextF_scan c chs (m + 1) (i + 1) (.at i) (cursor_next_at chs i) (by omega) (by omega)
    rw [off_succ hch, hes] at h1
    simpa using h1
  | cons e es =>
    rw [nextF_some_ok c m chs (.at i) ⟨e :: es, .soi⟩ e (by simp [Cursor.next, Cursor.first, Cursor.get])]
    have hlen := flat_length hch
    rw [hes] at hlen
    have h1 := rel_hit c hch 0 (by rw [hes]; simp)
    rw [hes] at h1
    rw [atOr_lt (by simp only [List.length_cons] at hlen; omega)]
    simpa [Cursor.next, Cursor.first] using h1

theorem rel_first (c : UCmp) (chs : List IdxChild) (x : IndexedIter) (p : Pos) (h : Rel c chs x p) :
    Rel c chs (first c x) (Cursor.first (flat chs)) := by
  obtain ⟨children, ipos, data⟩ := x
  obtain ⟨hc, -⟩ := h
  simp only at hc
  subst hc
  rw [cursor_first_eq]
  cases children with
  | nil =>
    simp only [first, Cursor.first, indexOk, Cursor.get, clearData]
    exact ⟨rfl, .inr (.inl ⟨rfl, rfl, rfl⟩)⟩
  | cons ch rest =>
    have hch : (ch :: rest)[0]? = some ch := rfl
    have hfirst : first c ⟨ch :: rest, ipos, data⟩ =
        nextF c ((ch :: rest).length + 2) ⟨ch :: rest, .at 0, some ⟨ch.es, .soi⟩⟩ := by
      simp [first, Cursor.first, indexOk, Cursor.get, setData, next, fuel]
    rw [hfirst]
    have := nextF_fresh c hch ((ch :: rest).length + 2) (by omega)
    rw [off_zero] at this
    exact this

theorem rel_last (c : UCmp) (chs : List IdxChild) (x : IndexedIter) (p : Pos) (h : Rel c chs x p) :
    Rel c chs (last c x) (Cursor.last (flat chs)) := by
  obtain ⟨children, ipos, data⟩ := x
  obtain ⟨hc, -⟩ := h
  simp only at hc
  subst hc
  rw [cursor_last_eq]
  by_cases hn : children = []
  · subst hn
    simp only [last, Cursor.last, indexOk, Cursor.get, clearData]
    exact ⟨rfl, .inl ⟨rfl, rfl, rfl⟩⟩
  · have hpos : 0 < children.length := List.length_pos_iff.2 hn
    obtain ⟨ch, hch⟩ : ∃ ch, children[children.length - 1]? = some ch :=
      ⟨children[children.length - 1], List.getElem?_eq_getElem (by omega)⟩
    have hlast : Cursor.last children = .at (children.length - 1) := by
      rw [cursor_last_eq, before_pos hpos]
    have hget : Cursor.get children (.at (children.length - 1)) = some ch := hch
    have hoff : (flat children).length = off children (children.length - 1) + ch.es.length := by
      have h1 := off_succ hch
      have h2 := off_of_le (chs := children) (i := children.length - 1 + 1) (by omega)
      omega
    by_cases hes : ch.es = []
    · have hl : last c ⟨children, ipos, data⟩ =
          prevF c (children.length + 2) ⟨children, .at (children.length - 1), none⟩ := by
        simp only [last, hlast, indexOk, hget, setData]
        simp [hes, ArrIter.ops, IterOps.ok, Cursor.last, Cursor.get, clearData, prev, fuel]
      rw [hl, hoff, hes]
      exact prevF_scan c children (children.length + 2) (children.length - 1) _ (cursor_prev_at _ _)
        (by omega) (by omega)
    · have hlen : 0 < ch.es.length := List.length_pos_iff.2 hes
      have hl : last c ⟨children, ipos, data⟩ =
          ⟨children, .at (children.length - 1), some ⟨ch.es, .at (ch.es.length - 1)⟩⟩ := by
        simp only [last, hlast, indexOk, hget, setData]
        have : ch.es.length - 1 < ch.es.length := by omega
        simp [hes, ArrIter.ops, IterOps.ok, Cursor.last, Cursor.get, this]
      rw [hl, hoff, before_pos (by omega)]
      have := rel_hit c hch (ch.es.length - 1) (by omega)
      have he : off children (children.length - 1) + ch.es.length - 1 =
          off children (children.length - 1) + (ch.es.length - 1) := by omega
      rw [he]; exact this

/-! ## `Seek` -/

theorem mem_flat_take {chs : List IdxChild} {i : Nat} {e : Entry} (h : e ∈ flat (chs.take i)) :
    ∃ j ch, j < i ∧ chs[j]? = some ch ∧ e ∈ ch.es := by
  obtain ⟨ch, hmem, he⟩ := List.mem_flatMap.1 h
  obtain ⟨j, hj⟩ := List.mem_iff_getElem?.1 hmem
  rw [List.getElem?_take] at hj
  split at hj
  · exact ⟨j, ch, by assumption, hj, he⟩
  · exact absurd hj (by simp)

theorem mem_flat_drop {chs : List IdxChild} {i : Nat} {e : Entry} (h : e ∈ flat (chs.drop i)) :
    ∃ j ch, i ≤ j ∧ chs[j]? = some ch ∧ e ∈ ch.es := by
  obtain ⟨ch, hmem, he⟩ := List.mem_flatMap.1 h
  obtain ⟨j, hj⟩ := List.mem_iff_getElem?.1 hmem
  rw [List.getElem?_drop] at hj
  exact ⟨i + j, ch, by omega, hj, he⟩

theorem findIdx?_all_true {α : Type} (p : α → Bool) (ys : List α) (h : ∀ x ∈ ys, p x = true) :
    ys.findIdx? p = if ys = [] then none else some 0 := by
  cases ys with
  | nil => rfl
  | cons y ys => simp [List.findIdx?_cons, h y (by simp)]

theorem seek_flat_none (chs : List IdxChild) (p : Entry → Bool) (h : ∀ e ∈ flat chs, p e = false) :
    Cursor.seek (flat chs) p = .eoi := by
  simp only [Cursor.seek, List.findIdx?_eq_none_iff.2 h]

theorem seek_flat_hit {chs : List IdxChild} {i : Nat} {ch : IdxChild} (hch : chs[i]? = some ch)
    (p : Entry → Bool) (hpre : ∀ e ∈ flat (chs.take i), p e = false) (j : Nat)
    (hj : ch.es.findIdx? p = some j) : Cursor.seek (flat chs) p = .at (off chs i + j) := by
  have h1 : (flat chs).findIdx? p = some (off chs i + j) := by
    rw [flat_split hch, List.findIdx?_append, List.findIdx?_eq_none_iff.2 hpre, List.findIdx?_append, hj,
      off_eq_length]
    simp [Nat.add_comm]
  simp only [Cursor.seek, h1]

theorem seek_flat_miss {chs : List IdxChild} {i : Nat} {ch : IdxChild} (hch : chs[i]? = some ch)
    (p : Entry → Bool) (hpre : ∀ e ∈ flat (chs.take (i + 1)), p e = false)
    (hpost : ∀ e ∈ flat (chs.drop (i + 1)), p e = true) :
    Cursor.seek (flat chs) p = atOr (flat chs).length (off chs (i + 1)) := by
  have hlen := flat_length_succ hch
  have hsplit : flat chs = flat (chs.take (i + 1)) ++ flat (chs.drop (i + 1)) := by
    simp only [flat, ← List.flatMap_append, List.take_append_drop]
  have h1 : (flat chs).findIdx? p =
      if flat (chs.drop (i + 1)) = [] then none else some (off chs (i + 1)) := by
    rw [hsplit, List.findIdx?_append, List.findIdx?_eq_none_iff.2 hpre, findIdx?_all_true p _ hpost,
      off_eq_length]
    split <;> simp
  simp only [Cursor.seek, h1]
  by_cases hr : flat (chs.drop (i + 1)) = []
  · rw [if_pos hr, atOr_ge]
    rw [hr] at hlen; simp only [List.length_nil] at hlen; omega
  · rw [if_neg hr, atOr_lt]
    have := List.length_pos_iff.2 hr; omega

section order
variable {c : UCmp} (hl : LawfulUCmp c)
include hl

theorem geKey_false_of_lo (k sep : IKey) (e : Entry) (h1 : icmp c e.key sep ≠ .gt)
    (h2 : icmp c sep k = .lt) : geKey c k e = false := by
  simp [geKey, icmp_lt_of_le_of_lt hl _ _ _ h1 h2]

theorem geKey_true_of_hi (k sep : IKey) (e : Entry) (h1 : icmp c sep k ≠ .lt)
    (h2 : icmp c sep e.key ≠ .gt) : geKey c k e = true := by
  have h3 : icmp c k sep ≠ .gt := (icmp_not_lt_iff hl sep k).1 h1
  have h4 : icmp c k e.key ≠ .gt := icmp_le_trans hl _ _ _ h3 h2
  have h5 : icmp c e.key k ≠ .lt := (icmp_not_lt_iff hl e.key k).2 h4
  simpa [geKey] using h5

end order

theorem seek_stop (c : UCmp) (k : IKey) (chs : List IdxChild) (ipos : Pos) (data : Option ArrIter)
    (h : Cursor.seek chs (fun ch => icmp c ch.sep k != Ordering.lt) = .eoi) :
    seek c k ⟨chs, ipos, data⟩ = ⟨chs, .eoi, none⟩ := by
  simp [seek, h, indexOk, Cursor.get, clearData]

theorem seek_hit (c : UCmp) (k : IKey) (chs : List IdxChild) (ipos : Pos) (data : Option ArrIter)
    (i : Nat) (ch : IdxChild) (j : Nat)
    (h : Cursor.seek chs (fun ch => icmp c ch.sep k != Ordering.lt) = .at i) (hch : chs[i]? = some ch)
    (hj : ch.es.findIdx? (geKey c k) = some j) :
    seek c k ⟨chs, ipos, data⟩ = ⟨chs, .at i, some ⟨ch.es, .at j⟩⟩ := by
  have hlt : j < ch.es.length := (List.findIdx?_eq_some_iff_getElem.1 hj).1
  have hget : Cursor.get chs (.at i) = some ch := hch
  simp only [seek, h, indexOk, hget, setData]
  simp [ArrIter.ops, IterOps.ok, Cursor.seek, Cursor.get, hj, hlt]

theorem seek_miss (c : UCmp) (k : IKey) (chs : List IdxChild) (ipos : Pos) (data : Option ArrIter)
    (i : Nat) (ch : IdxChild)
    (h : Cursor.seek chs (fun ch => icmp c ch.sep k != Ordering.lt) = .at i) (hch : chs[i]? = some ch)
    (hj : ch.es.findIdx? (geKey c k) = none) :
    seek c k ⟨chs, ipos, data⟩ = nextF c (chs.length + 2) ⟨chs, .at i, none⟩ := by
  have hget : Cursor.get chs (.at i) = some ch := hch
  simp only [seek, h, indexOk, hget, setData]
  simp [ArrIter.ops, IterOps.ok, Cursor.seek, Cursor.get, hj, clearData, next, fuel]

theorem rel_seek {c : UCmp} (hl : LawfulUCmp c) (chs : List IdxChild) (hok : IdxOK c chs) (x : IndexedIter)
    (p : Pos) (k : IKey) (h : Rel c chs x p) :
    Rel c chs (seek c k x) (Cursor.seek (flat chs) (geKey c k)) := by
  obtain ⟨children, ipos, data⟩ := x
  obtain ⟨hc, -⟩ := h
  simp only at hc
  subst hc
  cases hs : children.findIdx? (fun ch => icmp c ch.sep k != Ordering.lt) with
  | none =>
    have hseek : Cursor.seek children (fun ch => icmp c ch.sep k != Ordering.lt) = .eoi := by
      simp only [Cursor.seek, hs]
    rw [seek_stop c k children ipos data hseek]
    have hall := List.findIdx?_eq_none_iff.1 hs
    have hflat : ∀ e ∈ flat children, geKey c k e = false := by
      intro e he
      obtain ⟨ch, hmem, hech⟩ := List.mem_flatMap.1 he
      obtain ⟨j, hj⟩ := List.mem_iff_getElem?.1 hmem
      have h2 : icmp c ch.sep k = .lt := by simpa using hall ch hmem
      exact geKey_false_of_lo hl k ch.sep e (hok.lo j ch e hj hech) h2
    rw [seek_flat_none children _ hflat]
    exact ⟨rfl, .inr (.inl ⟨rfl, rfl, rfl⟩)⟩
  | some i =>
    have hseek : Cursor.seek children (fun ch => icmp c ch.sep k != Ordering.lt) = .at i := by
      simp only [Cursor.seek, hs]
    obtain ⟨hi, hge, hbefore⟩ := List.findIdx?_eq_some_iff_getElem.1 hs
    have hch : children[i]? = some children[i] := List.getElem?_eq_getElem hi
    have hsep : icmp c children[i].sep k ≠ .lt := by simpa using hge
    have hpre : ∀ e ∈ flat (children.take i), geKey c k e = false := by
      intro e he
      obtain ⟨j, ch, hji, hj, hech⟩ := mem_flat_take he
      have hjl : j < children.length := by omega
      have hb := hbefore j hji
      have hcj : children[j] = ch := by
        rw [List.getElem?_eq_getElem hjl] at hj; exact Option.some.inj hj
      rw [hcj] at hb
      have h2 : icmp c ch.sep k = .lt := by simpa using hb
      exact geKey_false_of_lo hl k ch.sep e (hok.lo j ch e hj hech) h2
    cases hj : children[i].es.findIdx? (geKey c k) with
    | some j =>
      rw [seek_hit c k children ipos data i _ j hseek hch hj, seek_flat_hit hch _ hpre j hj]
      exact rel_hit c hch j (List.findIdx?_eq_some_iff_getElem.1 hj).1
    | none =>
      rw [seek_miss c k children ipos data i _ hseek hch hj]
      have hpre' : ∀ e ∈ flat (children.take (i + 1)), geKey c k e = false := by
        intro e he
        rw [List.take_add_one, hch] at he
        simp only [flat, Option.toList_some, List.flatMap_append, List.flatMap_cons, List.flatMap_nil,
          List.append_nil, List.mem_append] at he
        rcases he with he | he
        · exact hpre e he
        · exact List.findIdx?_eq_none_iff.1 hj e he
      have hpost : ∀ e ∈ flat (children.drop (i + 1)), geKey c k e = true := by
        intro e he
        obtain ⟨j, ch, hij, hj, hech⟩ := mem_flat_drop he
        exact geKey_true_of_hi hl k children[i].sep e hsep (hok.hi i j _ ch e (by omega) hch hj hech)
      rw [seek_flat_miss hch _ hpre' hpost]
      exact nextF_scan c children (children.length + 2) (i + 1) (.at i) (cursor_next_at children i)
        (by omega) (by omega)

end IndexedIter

theorem IndexedIter.sim {c : UCmp} (hl : LawfulUCmp c) (chs : List IdxChild) (hok : IdxOK c chs) :
    Sim (IndexedIter.ops c) c (chs.flatMap (·.es)) (IndexedIter.Rel c chs) where
  wf := IndexedIter.rel_wf c chs
  first := IndexedIter.rel_first c chs
  last := IndexedIter.rel_last c chs
  seek := fun s p k h => IndexedIter.rel_seek hl chs hok s p k h
  next := IndexedIter.rel_next c chs
  prev := IndexedIter.rel_prev c chs
  cur := IndexedIter.rel_cur c chs

/-- `IdxOK` from bounded (decidable) quantifiers -/
theorem IdxOK.of_fin {c : UCmp} {chs : List IdxChild} (sorted : SortedEntries c (chs.flatMap (·.es)))
    (lo : ∀ i : Fin chs.length, ∀ e ∈ chs[i].es, icmp c e.key chs[i].sep ≠ .gt)
    (hi : ∀ i j : Fin chs.length, i < j → ∀ e ∈ chs[j].es, icmp c chs[i].sep e.key ≠ .gt)
    (sepMono : ∀ i j : Fin chs.length, i < j → icmp c chs[i].sep chs[j].sep ≠ .gt) : IdxOK c chs where
  sorted := sorted
  lo := by
    intro i ch e h he
    obtain ⟨hi', rfl⟩ := List.getElem?_eq_some_iff.1 h
    exact lo ⟨i, hi'⟩ e he
  hi := by
    intro i j chi chj e hij h1 h2 he
    obtain ⟨hi', rfl⟩ := List.getElem?_eq_some_iff.1 h1
    obtain ⟨hj', rfl⟩ := List.getElem?_eq_some_iff.1 h2
    exact hi ⟨i, hi'⟩ ⟨j, hj'⟩ hij e he
  sepMono := by
    intro i j chi chj hij h1 h2
    obtain ⟨hi', rfl⟩ := List.getElem?_eq_some_iff.1 h1
    obtain ⟨hj', rfl⟩ := List.getElem?_eq_some_iff.1 h2
    exact sepMono ⟨i, hi'⟩ ⟨j, hj'⟩ hij

/-! ## non-vacuity: four children, the second one empty -/

/-- `[1 2] [] [4] [6 7]` with index keys `2 3 5 7` -/
def IndexedIter.demo : List IdxChild :=
  let e (a : UInt8) : Entry := ⟨⟨[a], 256⟩, [a, a]⟩
  [⟨⟨[2], 256⟩, [e 1, e 2]⟩, ⟨⟨[3], 256⟩, []⟩, ⟨⟨[5], 256⟩, [e 4]⟩, ⟨⟨[7], 256⟩, [e 6, e 7]⟩]

theorem IndexedIter.demo_ok : IdxOK bytewise IndexedIter.demo :=
  IdxOK.of_fin (by decide) (by decide) (by decide) (by decide)

example : Sim (IndexedIter.ops bytewise) bytewise (IndexedIter.demo.flatMap (·.es))
    (IndexedIter.Rel bytewise IndexedIter.demo) :=
  IndexedIter.sim bytewise_lawful _ IndexedIter.demo_ok

/-- the iterator walks the five entries in both directions and seeks across the empty child -/
example :
    (IndexedIter.ops bytewise).run (IndexedIter.new IndexedIter.demo)
        [.next, .next, .next, .next, .next, .next, .prev, .prev, .seek ⟨[3], 256⟩, .prev, .last, .first, .prev]
      = Cursor.run (IndexedIter.demo.flatMap (·.es)) (geKey bytewise) .soi
        [.next, .next, .next, .next, .next, .next, .prev, .prev, .seek ⟨[3], 256⟩, .prev, .last, .first, .prev] :=
  (IndexedIter.sim bytewise_lawful _ IndexedIter.demo_ok).run _ _ _ (IndexedIter.rel_new bytewise _)

#print axioms IndexedIter.sim
#print axioms IndexedIter.rel_new
#print axioms IndexedIter.demo_ok

end GoLevel
