import GoLevel.Model.WriteProto
/-! Counting invariants of the write-merge protocol (`#token holders = token`, `#waitAck = acks owed`,
`#waitMerged = replies owed`) and the termination measure.  All by `tot_set`: replacing one list element
changes a sum by the difference of the two summands. -/
namespace GoLevel.WP

theorem tot_cons (f : Pc → Nat) (x : Thread) (xs : List Thread) : tot f (x :: xs) = f x.pc + tot f xs := by
  simp [tot]

theorem tot_set (f : Pc → Nat) (ws : List Thread) (i : Nat) (old new : Thread) (h : ws[i]? = some old) :
    tot f (ws.set i new) + f old.pc = tot f ws + f new.pc := by
  induction ws generalizing i with
  | nil => simp at h
  | cons x xs ih =>
    cases i with
    | zero =>
      simp at h; subst h
      rw [List.set_cons_zero, tot_cons, tot_cons]; omega
    | succ n =>
      simp at h
      have := ih n h
      rw [List.set_cons_succ, tot_cons, tot_cons]; omega

theorem get_set_ne (ws : List Thread) (i j : Nat) (a wi wj : Thread) (hi : ws[i]? = some wi)
    (hj : ws[j]? = some wj) (hne : wi.pc ≠ wj.pc) : (ws.set j a)[i]? = some wi := by
  have hij : j ≠ i := by
    intro h; subst h; rw [hi] at hj; exact hne (by rw [Option.some.inj hj])
  rw [List.getElem?_set_ne hij]; exact hi

theorem le_tot_of_mem (f : Pc → Nat) (ws : List Thread) (i : Nat) (w : Thread) (h : ws[i]? = some w) :
    f w.pc ≤ tot f ws := by
  induction ws generalizing i with
  | nil => simp at h
  | cons x xs ih =>
    cases i with
    | zero => simp at h; subst h; rw [tot_cons]; omega
    | succ n =>
      simp at h
      have := ih n h
      rw [tot_cons]; omega

theorem exists_of_tot_pos (f : Pc → Nat) (ws : List Thread) (h : 0 < tot f ws) :
    ∃ (i : Nat) (w : Thread), ws[i]? = some w ∧ 0 < f w.pc := by
  induction ws with
  | nil => simp [tot] at h
  | cons x xs ih =>
    rw [tot_cons] at h
    by_cases hx : 0 < f x.pc
    · exact ⟨0, x, by simp, hx⟩
    · obtain ⟨i, w, hi, hw⟩ := ih (by omega)
      exact ⟨i + 1, w, by simpa using hi, hw⟩

theorem tot_eq_zero (f : Pc → Nat) (ws : List Thread) (h : ∀ (i : Nat) (w : Thread), ws[i]? = some w → f w.pc = 0) :
    tot f ws = 0 := by
  cases hz : tot f ws with
  | zero => rfl
  | succ n =>
    obtain ⟨i, w, hi, hw⟩ := exists_of_tot_pos f ws (by omega)
    have := h i w hi; omega

/-- two list positions with positive weight under a sum of at most one coincide -/
theorem unique_of_tot_le_one (f : Pc → Nat) (ws : List Thread) (h : tot f ws ≤ 1) (i j : Nat) (a b : Thread)
    (hi : ws[i]? = some a) (hj : ws[j]? = some b) (ha : 0 < f a.pc) (hb : 0 < f b.pc) : i = j := by
  induction ws generalizing i j with
  | nil => simp at hi
  | cons x xs ih =>
    rw [tot_cons] at h
    cases i with
    | zero =>
      cases j with
      | zero => rfl
      | succ n =>
        simp at hi hj; subst hi
        have := le_tot_of_mem f xs n b hj; omega
    | succ m =>
      cases j with
      | zero =>
        simp at hi hj; subst hj
        have := le_tot_of_mem f xs m a hi; omega
      | succ n =>
        simp at hi hj
        have := ih (by omega) m n hi hj
        omega

/-! `Thread.accept` changes none of the fields the protocol invariants look at -/

@[simp] theorem accept_pc (c : Cfg) (l : Thread) (i : Nat) (w : Thread) (st : List Rec) :
    (l.accept c i w st).pc = l.pc := rfl
@[simp] theorem accept_acc (c : Cfg) (l : Thread) (i : Nat) (w : Thread) (st : List Rec) :
    (l.accept c i w st).acc = l.acc := rfl
@[simp] theorem accept_kind (c : Cfg) (l : Thread) (i : Nat) (w : Thread) (st : List Rec) :
    (l.accept c i w st).kind = l.kind := rfl
@[simp] theorem accept_gres (c : Cfg) (l : Thread) (i : Nat) (w : Thread) (st : List Rec) :
    (l.accept c i w st).gres = l.gres := rfl
@[simp] theorem accept_jout (c : Cfg) (l : Thread) (i : Nat) (w : Thread) (st : List Rec) :
    (l.accept c i w st).jout = l.jout := rfl
@[simp] theorem accept_pub (c : Cfg) (l : Thread) (i : Nat) (w : Thread) (st : List Rec) :
    (l.accept c i w st).pub = l.pub := rfl

/-- the counting invariant -/
structure CInv (s : St) : Prop where
  holders : tot holds s.ws = (if s.token then 1 else 0)
  acks : tot isWA s.ws = tot owed s.ws
  replies : tot isWM s.ws = tot pendReply s.ws
  /-- `unlockWrite` answers the overflowed writer whatever the result (constant along a run) -/
  cfgH : s.cfg.handoffOnErr = true

/-- all six sums for one replaced element -/
theorem tot_set6 (ws : List Thread) (i : Nat) (old new : Thread) (h : ws[i]? = some old) :
    (tot holds (ws.set i new) + holds old.pc = tot holds ws + holds new.pc) ∧
    (tot isWA (ws.set i new) + isWA old.pc = tot isWA ws + isWA new.pc) ∧
    (tot isWM (ws.set i new) + isWM old.pc = tot isWM ws + isWM new.pc) ∧
    (tot owed (ws.set i new) + owed old.pc = tot owed ws + owed new.pc) ∧
    (tot pendReply (ws.set i new) + pendReply old.pc = tot pendReply ws + pendReply new.pc) ∧
    (tot wt (ws.set i new) + wt old.pc = tot wt ws + wt new.pc) :=
  ⟨tot_set _ _ _ _ _ h, tot_set _ _ _ _ _ h, tot_set _ _ _ _ _ h, tot_set _ _ _ _ _ h, tot_set _ _ _ _ _ h,
   tot_set _ _ _ _ _ h⟩

theorem tot_set2_6 (ws : List Thread) (i j : Nat) (wi wj ni nj : Thread) (hi : ws[i]? = some wi)
    (hj : ws[j]? = some wj) (hne : wi.pc ≠ wj.pc) :
    (tot holds (set2 ws j nj i ni) + holds wi.pc + holds wj.pc = tot holds ws + holds ni.pc + holds nj.pc) ∧
    (tot isWA (set2 ws j nj i ni) + isWA wi.pc + isWA wj.pc = tot isWA ws + isWA ni.pc + isWA nj.pc) ∧
    (tot isWM (set2 ws j nj i ni) + isWM wi.pc + isWM wj.pc = tot isWM ws + isWM ni.pc + isWM nj.pc) ∧
    (tot owed (set2 ws j nj i ni) + owed wi.pc + owed wj.pc = tot owed ws + owed ni.pc + owed nj.pc) ∧
    (tot pendReply (set2 ws j nj i ni) + pendReply wi.pc + pendReply wj.pc
      = tot pendReply ws + pendReply ni.pc + pendReply nj.pc) ∧
    (tot wt (set2 ws j nj i ni) + wt wi.pc + wt wj.pc = tot wt ws + wt ni.pc + wt nj.pc) := by
  have hi' := get_set_ne ws i j nj wi wj hi hj hne
  obtain ⟨a1, a2, a3, a4, a5, a6⟩ := tot_set6 ws j wj nj hj
  obtain ⟨b1, b2, b3, b4, b5, b6⟩ := tot_set6 (ws.set j nj) i wi ni hi'
  unfold set2
  refine ⟨?_, ?_, ?_, ?_, ?_, ?_⟩ <;> omega

end GoLevel.WP
