import GoLevel.Proofs.DurableView
import GoLevel.Proofs.ConcView
import GoLevel.Model.RecoverOps
/-!
`Recover` at the level of storage operations, part 4: the semantic core of crash-atomicity during `openDB`.

While `recoverJournal` flushes journal after journal, the groups `S` of the journals are split three ways:
`S = P ++ Q ++ R` — `P` sits in tables only (its journals are gone), `Q` sits in a table *and* still in its
journal, `R` sits in journals only.  A `Recover` started on such a storage finds the table entries `T ∪ P ∪ Q` and
the journal stream `Q ++ R`; its replay skips a prefix of `Q` (sequence numbers below the largest one in the
tables) and applies the rest, so it ends with the same *set* of entries — and reads the same — as the `Recover` that
was interrupted (`rebuild_mid`).
-/
namespace GoLevel.Dur
open GoLevel GoLevel.Conc

theorem maxSeqOf_ge' (es : List Entry) : ∀ e ∈ es, e.seq ≤ maxSeqOf es := by
  unfold maxSeqOf
  have : ∀ (l : List Entry) (a : Nat), a ≤ l.foldl (fun m e => max m e.seq) a ∧
      ∀ e ∈ l, e.seq ≤ l.foldl (fun m e => max m e.seq) a := by
    intro l
    induction l with
    | nil => intro a; exact ⟨Nat.le_refl _, fun e he => by cases he⟩
    | cons y ys ih =>
      intro a
      simp only [List.foldl_cons]
      obtain ⟨i1, i2⟩ := ih (max a y.seq)
      refine ⟨Nat.le_trans (Nat.le_max_left _ _) i1, fun e he => ?_⟩
      rcases List.mem_cons.1 he with rfl | he'
      · exact Nat.le_trans (Nat.le_max_right _ _) i1
      · exact i2 e he'
  exact (this es 0).2

theorem maxSeqOf_le' {es : List Entry} {b : Nat} (h : ∀ e ∈ es, e.seq ≤ b) : maxSeqOf es ≤ b := by
  unfold maxSeqOf
  have : ∀ (l : List Entry) (a : Nat), a ≤ b → (∀ e ∈ l, e.seq ≤ b) → l.foldl (fun m e => max m e.seq) a ≤ b := by
    intro l
    induction l with
    | nil => intro a ha _; exact ha
    | cons y ys ih =>
      intro a ha hl
      simp only [List.foldl_cons]
      exact ih _ (Nat.max_le.2 ⟨ha, hl y List.mem_cons_self⟩) (fun e he => hl e (List.mem_cons_of_mem _ he))
  exact this es 0 (Nat.zero_le _) h

/-- reading at any two positions above everything a collection holds gives the same answer -/
theorem view_above' {c : UCmp} {L : List Entry} (hU : Uniq L) {a b : Nat} (ha : ∀ e ∈ L, e.seq ≤ a)
    (hb : ∀ e ∈ L, e.seq ≤ b) (k : Bytes) : view c L k a = view c L k b := by
  rcases Nat.le_total a b with h | h
  · exact (Conc.view_clip hU ha h).symm
  · exact Conc.view_clip hU hb h

/-! ## ascending streams -/

theorem AscFrom.rebase {s s' : Nat} {l : List Grp} (h : AscFrom s l) (h' : ∀ g ∈ l, s' ≤ g.seq) : AscFrom s' l := by
  cases l with
  | nil => trivial
  | cons g gs => exact ⟨h' g List.mem_cons_self, h.2⟩

theorem AscFrom.of_append_right {s : Nat} {l l' : List Grp} (h : AscFrom s (l ++ l')) : ∃ s', AscFrom s' l' := by
  induction l generalizing s with
  | nil => exact ⟨s, h⟩
  | cons g gs ih => exact ih h.2.2

/-- in an ascending stream a later group starts where an earlier one ended, or above -/
theorem AscFrom.before {s : Nat} {l l' : List Grp} (h : AscFrom s (l ++ l')) {g g' : Grp} (hg : g ∈ l)
    (hg' : g' ∈ l') : g.fin ≤ g'.seq := by
  have hp := h.pairwise
  rw [List.pairwise_append] at hp
  exact hp.2.2 g hg g' hg'

/-- the replay loop on an ascending stream `Q ++ R` whose part `R` starts at or above `m`: a prefix of `Q` is
    skipped, everything else is applied -/
theorem replayJ_split {s m : Nat} (Q R : List Grp) (h : AscFrom s (Q ++ R)) (hR : ∀ g ∈ R, m ≤ g.seq) :
    ∃ Q1 Q2, Q = Q1 ++ Q2 ∧ (replayJ m (Q ++ R)).1 = Q2 ++ R ∧ m ≤ (replayJ m (Q ++ R)).2 ∧
      ∀ g ∈ Q2 ++ R, g.fin ≤ (replayJ m (Q ++ R)).2 := by
  induction Q generalizing s with
  | nil =>
    have hR' : AscFrom m R := h.rebase hR
    obtain ⟨a1, a2, a3⟩ := replayJ_asc hR'
    exact ⟨[], [], rfl, by simpa using a1, by simpa using a2, by simpa using a3⟩
  | cons g Q ih =>
    by_cases hg : g.seq < m
    · obtain ⟨Q1, Q2, e, b1, b2, b3⟩ := ih h.2.2
      refine ⟨g :: Q1, Q2, by rw [e]; rfl, ?_, ?_, ?_⟩
      · simp only [List.cons_append, replayJ, if_pos hg]; exact b1
      · simp only [List.cons_append, replayJ, if_pos hg]; exact b2
      · simp only [List.cons_append, replayJ, if_pos hg]; exact b3
    · have hall : AscFrom m (g :: Q ++ R) := ⟨Nat.le_of_not_lt hg, h.2⟩
      obtain ⟨a1, a2, a3⟩ := replayJ_asc hall
      exact ⟨[], g :: Q, rfl, a1, a2, a3⟩

/-! ## the interrupted `Recover`, seen by the next one -/

/-- the input of a `Recover` that follows an interrupted `openDB`, relative to the input `inp` of the
    interrupted one -/
structure MidIn (inp inp' : RebuildIn) (P Q R : List Grp) : Prop where
  split : inp.journals.flatMap (·.2) = P ++ Q ++ R
  tabs : ∀ e, e ∈ inp'.tables.flatMap (·.2) ↔ e ∈ inp.tables.flatMap (·.2) ∨ e ∈ (P ++ Q).flatMap Grp.ents
  js : inp'.journals.flatMap (·.2) = Q ++ R

/-- **the second `Recover` reads what the first would have read** -/
theorem rebuild_mid {c : UCmp} {inp inp' : RebuildIn} {P Q R : List Grp}
    (hU : Uniq (inp.tables.flatMap (·.2) ++ (inp.journals.flatMap (·.2)).flatMap Grp.ents))
    (hasc : AscFrom (maxSeqOf (inp.tables.flatMap (·.2))) (inp.journals.flatMap (·.2)))
    (hwf : ∀ g ∈ inp.journals.flatMap (·.2), g.wf)
    (h : MidIn inp inp' P Q R) (k : Bytes) :
    (rebuild inp').get c k = (rebuild inp).get c k ∧
    (∀ e, e ∈ (rebuild inp').entries ↔ e ∈ (rebuild inp).entries) := by
  -- the uninterrupted run applies the whole stream
  obtain ⟨a1, a2, a3⟩ := replayJ_asc hasc
  have hent : (rebuild inp).entries =
      inp.tables.flatMap (·.2) ++ (inp.journals.flatMap (·.2)).flatMap Grp.ents := by
    simp only [rebuild, Rebuilt.entries, a1]
  have hvis : ∀ e ∈ (rebuild inp).entries, e.seq ≤ (rebuild inp).seq := by
    intro e he
    rw [hent] at he
    show e.seq ≤ (replayJ _ _).2
    rcases List.mem_append.1 he with h1 | h1
    · exact Nat.le_trans (maxSeqOf_ge' _ e h1) a2
    · obtain ⟨g, hg, heg⟩ := List.mem_flatMap.1 h1
      obtain ⟨_, h2, h3⟩ := ents_seq_range (hwf g hg) heg
      have := a3 g hg
      rw [h3]; omega
  -- `R` starts above everything the tables of the second run hold
  have hsplit := h.split
  have hQR : AscFrom (maxSeqOf (inp.tables.flatMap (·.2))) (P ++ (Q ++ R)) := by
    rw [← List.append_assoc, ← hsplit]; exact hasc
  obtain ⟨s1, hQR'⟩ := hQR.of_append_right
  have hRlow : ∀ g ∈ R, maxSeqOf (inp'.tables.flatMap (·.2)) ≤ g.seq := by
    intro g hg
    apply maxSeqOf_le'
    intro e he
    rcases (h.tabs e).1 he with h1 | h1
    · have hg' : g ∈ inp.journals.flatMap (·.2) := by rw [hsplit]; exact List.mem_append_right _ hg
      exact Nat.le_trans (maxSeqOf_ge' _ e h1) (hasc.le_of_mem hg')
    · obtain ⟨g0, hg0, heg⟩ := List.mem_flatMap.1 h1
      have hg0' : g0 ∈ inp.journals.flatMap (·.2) := by rw [hsplit]; exact List.mem_append_left _ hg0
      obtain ⟨_, h2, h3⟩ := ents_seq_range (hwf g0 hg0') heg
      have : g0.fin ≤ g.seq := by
        have hh : AscFrom (maxSeqOf (inp.tables.flatMap (·.2))) ((P ++ Q) ++ R) := by rw [← hsplit]; exact hasc
        exact hh.before hg0 hg
      rw [h3]; omega
  obtain ⟨Q1, Q2, eQ, b1, b2, b3⟩ := replayJ_split Q R hQR' hRlow
  have hent' : (rebuild inp').entries = inp'.tables.flatMap (·.2) ++ (Q2 ++ R).flatMap Grp.ents := by
    simp only [rebuild, Rebuilt.entries, h.js, b1]
  have hset : ∀ e, e ∈ (rebuild inp').entries ↔ e ∈ (rebuild inp).entries := by
    intro e
    rw [hent', hent, hsplit]
    simp only [List.mem_append, List.flatMap_append, h.tabs e, eQ]
    constructor
    · rintro ((h1 | h1 | h1 | h1) | h1 | h1)
      · exact Or.inl h1
      · exact Or.inr (Or.inl (Or.inl h1))
      · exact Or.inr (Or.inl (Or.inr (Or.inl h1)))
      · exact Or.inr (Or.inl (Or.inr (Or.inr h1)))
      · exact Or.inr (Or.inl (Or.inr (Or.inr h1)))
      · exact Or.inr (Or.inr h1)
    · rintro (h1 | (h1 | h1 | h1) | h1)
      · exact Or.inl (Or.inl h1)
      · exact Or.inl (Or.inr (Or.inl h1))
      · exact Or.inl (Or.inr (Or.inr (Or.inl h1)))
      · exact Or.inl (Or.inr (Or.inr (Or.inr h1)))
      · exact Or.inr (Or.inr h1)
  have hvis' : ∀ e ∈ (rebuild inp').entries, e.seq ≤ (rebuild inp').seq := by
    intro e he
    rw [hent'] at he
    show e.seq ≤ (replayJ _ _).2
    rw [h.js]
    rcases List.mem_append.1 he with h1 | h1
    · exact Nat.le_trans (maxSeqOf_ge' _ e h1) b2
    · obtain ⟨g, hg, heg⟩ := List.mem_flatMap.1 h1
      have hg' : g ∈ inp.journals.flatMap (·.2) := by
        rw [hsplit, eQ]
        rcases List.mem_append.1 hg with x | x
        · exact List.mem_append_left _ (List.mem_append_right _ (List.mem_append_right _ x))
        · exact List.mem_append_right _ x
      obtain ⟨_, h2, h3⟩ := ents_seq_range (hwf g hg') heg
      have := b3 g hg
      rw [h3]; omega
  refine ⟨?_, hset⟩
  have hU0 : Uniq (rebuild inp).entries := by rw [hent]; exact hU
  unfold Rebuilt.get
  -- same set of entries at the second run's position, then move the position
  rw [Conc.view_congr (c := c) (k := k) (s := (rebuild inp').seq) hU0 (fun e he => (hset e).1 he) (fun e he => he)
    (fun e _ => hset e)]
  exact view_above' hU0 (fun e he => hvis' e ((hset e).2 he)) hvis k

end GoLevel.Dur
