import GoLevel.Proofs.LocksCount
/-! Runs without corruption errors: if no storage action reports a corruption (`St.corr = false`), no compaction is
ever at `compactionTransact`'s `select` with a corruption in hand (any configuration). -/
namespace GoLevel.Locks
set_option linter.unusedSimpArgs false

def corrB : BPh → Nat
  | .setErrC _ => 1
  | _ => 0
def corrPh : Bg → Nat
  | .run _ ph => corrB ph
  | _ => 0
@[simp] theorem corrPh_run (w : Option Nat) (ph : BPh) : corrPh (.run w ph) = corrB ph := rfl
@[simp] theorem corrPh_idle : corrPh .idle = 0 := rfl
@[simp] theorem corrPh_exited : corrPh .exited = 0 := rfl
@[simp] theorem corrPh_parked : corrPh .parked = 0 := rfl

@[simp] theorem corrPh_clearW (x : Bg) (i : Nat) : corrPh (clearW x i) = corrPh x := by
  unfold clearW; split
  · split <;> rfl
  · rfl
@[simp] theorem corrPh_afterCmd (cfg : Cfg) (s : St) (b : Bool) : corrPh (afterCmd cfg s b) = 0 := by
  rcases afterCmd_cases cfg s b with h | h <;> rw [h] <;> rfl

/-- no corruption error has been or will be reported -/
def NoCorr (s : St) : Prop := s.corr = false ∧ corrPh s.mc = 0 ∧ corrPh s.tc = 0

theorem step_noCorr (cfg : Cfg) (s t : St) (f : Bool) (h : Step cfg f s t) (inv : NoCorr s) : NoCorr t := by
  unfold NoCorr at *
  obtain ⟨h1, h2, h3⟩ := inv
  cases h with
  | startPut _ i hi =>
    (try simp only [St.setDone, St.setBg, ↓reduceIte, Bool.false_eq_true, Bool.and_false, Bool.and_true, Bool.false_and, Bool.true_and]) <;> (repeat' split) <;> simp_all [corrB, corrPh_run, corrPh_idle, corrPh_exited, corrPh_parked, corrPh_clearW, corrPh_afterCmd, St.bg, afterSetErr]
  | startWrite _ i hi =>
    (try simp only [St.setDone, St.setBg, ↓reduceIte, Bool.false_eq_true, Bool.and_false, Bool.and_true, Bool.false_and, Bool.true_and]) <;> (repeat' split) <;> simp_all [corrB, corrPh_run, corrPh_idle, corrPh_exited, corrPh_parked, corrPh_clearW, corrPh_afterCmd, St.bg, afterSetErr]
  | startOtx _ i hi =>
    (try simp only [St.setDone, St.setBg, ↓reduceIte, Bool.false_eq_true, Bool.and_false, Bool.and_true, Bool.false_and, Bool.true_and]) <;> (repeat' split) <;> simp_all [corrB, corrPh_run, corrPh_idle, corrPh_exited, corrPh_parked, corrPh_clearW, corrPh_afterCmd, St.bg, afterSetErr]
  | startCommit _ i hi hu =>
    (try simp only [St.setDone, St.setBg, ↓reduceIte, Bool.false_eq_true, Bool.and_false, Bool.and_true, Bool.false_and, Bool.true_and]) <;> (repeat' split) <;> simp_all [corrB, corrPh_run, corrPh_idle, corrPh_exited, corrPh_parked, corrPh_clearW, corrPh_afterCmd, St.bg, afterSetErr]
  | startDiscard _ i hi hu =>
    (try simp only [St.setDone, St.setBg, ↓reduceIte, Bool.false_eq_true, Bool.and_false, Bool.and_true, Bool.false_and, Bool.true_and]) <;> (repeat' split) <;> simp_all [corrB, corrPh_run, corrPh_idle, corrPh_exited, corrPh_parked, corrPh_clearW, corrPh_afterCmd, St.bg, afterSetErr]
  | startCR _ i hi =>
    (try simp only [St.setDone, St.setBg, ↓reduceIte, Bool.false_eq_true, Bool.and_false, Bool.and_true, Bool.false_and, Bool.true_and]) <;> (repeat' split) <;> simp_all [corrB, corrPh_run, corrPh_idle, corrPh_exited, corrPh_parked, corrPh_clearW, corrPh_afterCmd, St.bg, afterSetErr]
  | startSR _ i hi ha =>
    (try simp only [St.setDone, St.setBg, ↓reduceIte, Bool.false_eq_true, Bool.and_false, Bool.and_true, Bool.false_and, Bool.true_and]) <;> (repeat' split) <;> simp_all [corrB, corrPh_run, corrPh_idle, corrPh_exited, corrPh_parked, corrPh_clearW, corrPh_afterCmd, St.bg, afterSetErr]
  | startClose _ i hi =>
    (try simp only [St.setDone, St.setBg, ↓reduceIte, Bool.false_eq_true, Bool.and_false, Bool.and_true, Bool.false_and, Bool.true_and]) <;> (repeat' split) <;> simp_all [corrB, corrPh_run, corrPh_idle, corrPh_exited, corrPh_parked, corrPh_clearW, corrPh_afterCmd, St.bg, afterSetErr]
  | selTok _ i p q hi hq ht =>
    simp_all [corrB, corrPh_run, corrPh_idle, corrPh_exited, corrPh_parked, corrPh_clearW, corrPh_afterCmd, St.bg, afterSetErr]
  | selPerErr _ i p q hi hq he =>
    simp_all [corrB, corrPh_run, corrPh_idle, corrPh_exited, corrPh_parked, corrPh_clearW, corrPh_afterCmd, St.bg, afterSetErr]
  | selClosed _ i p q hi hq hc =>
    simp_all [corrB, corrPh_run, corrPh_idle, corrPh_exited, corrPh_parked, corrPh_clearW, corrPh_afterCmd, St.bg, afterSetErr]
  | putNoWait _ i hi =>
    (try simp only [St.setDone, St.setBg, ↓reduceIte, Bool.false_eq_true, Bool.and_false, Bool.and_true, Bool.false_and, Bool.true_and]) <;> (repeat' split) <;> simp_all [corrB, corrPh_run, corrPh_idle, corrPh_exited, corrPh_parked, corrPh_clearW, corrPh_afterCmd, St.bg, afterSetErr]
  | putWait _ i b hi =>
    cases b <;> (try simp only [St.setDone, St.setBg, ↓reduceIte, Bool.false_eq_true, Bool.and_false, Bool.and_true, Bool.false_and, Bool.true_and]) <;> (repeat' split) <;> simp_all [corrB, corrPh_run, corrPh_idle, corrPh_exited, corrPh_parked, corrPh_clearW, corrPh_afterCmd, St.bg, afterSetErr]
  | putJournalOk _ i hi =>
    (try simp only [St.setDone, St.setBg, ↓reduceIte, Bool.false_eq_true, Bool.and_false, Bool.and_true, Bool.false_and, Bool.true_and]) <;> (repeat' split) <;> simp_all [corrB, corrPh_run, corrPh_idle, corrPh_exited, corrPh_parked, corrPh_clearW, corrPh_afterCmd, St.bg, afterSetErr]
  | putJournalFail _ i hi =>
    (try simp only [St.setDone, St.setBg, ↓reduceIte, Bool.false_eq_true, Bool.and_false, Bool.and_true, Bool.false_and, Bool.true_and]) <;> (repeat' split) <;> simp_all [corrB, corrPh_run, corrPh_idle, corrPh_exited, corrPh_parked, corrPh_clearW, corrPh_afterCmd, St.bg, afterSetErr]
  | putUnlock _ i r hi =>
    cases r <;> (try simp only [St.setDone, St.setBg, ↓reduceIte, Bool.false_eq_true, Bool.and_false, Bool.and_true, Bool.false_and, Bool.true_and]) <;> (repeat' split) <;> simp_all [corrB, corrPh_run, corrPh_idle, corrPh_exited, corrPh_parked, corrPh_clearW, corrPh_afterCmd, St.bg, afterSetErr]
  | cwSendGo _ i b site lg hi hb hro =>
    cases b <;> cases lg <;> (try simp only [St.setDone, St.setBg, ↓reduceIte, Bool.false_eq_true, Bool.and_false, Bool.and_true, Bool.false_and, Bool.true_and]) <;> (repeat' split) <;> simp_all [corrB, corrPh_run, corrPh_idle, corrPh_exited, corrPh_parked, corrPh_clearW, corrPh_afterCmd, St.bg, afterSetErr]
  | cwSendRO _ i site lg hi hb hp hro =>
    cases lg <;> (try simp only [St.setDone, St.setBg, ↓reduceIte, Bool.false_eq_true, Bool.and_false, Bool.and_true, Bool.false_and, Bool.true_and]) <;> (repeat' split) <;> simp_all [corrB, corrPh_run, corrPh_idle, corrPh_exited, corrPh_parked, corrPh_clearW, corrPh_afterCmd, St.bg, afterSetErr]
  | cwSendErr _ i b site lg hi he =>
    cases b <;> cases lg <;> (try simp only [St.setDone, St.setBg, ↓reduceIte, Bool.false_eq_true, Bool.and_false, Bool.and_true, Bool.false_and, Bool.true_and]) <;> (repeat' split) <;> simp_all [corrB, corrPh_run, corrPh_idle, corrPh_exited, corrPh_parked, corrPh_clearW, corrPh_afterCmd, St.bg, afterSetErr]
  | cwAckErr _ i b site lg hi he =>
    cases b <;> cases lg <;> (try simp only [St.setDone, St.setBg, ↓reduceIte, Bool.false_eq_true, Bool.and_false, Bool.and_true, Bool.false_and, Bool.true_and]) <;> (repeat' split) <;> simp_all [corrB, corrPh_run, corrPh_idle, corrPh_exited, corrPh_parked, corrPh_clearW, corrPh_afterCmd, St.bg, afterSetErr]
  | otxRotate _ i lg hi =>
    cases lg <;> (try simp only [St.setDone, St.setBg, ↓reduceIte, Bool.false_eq_true, Bool.and_false, Bool.and_true, Bool.false_and, Bool.true_and]) <;> (repeat' split) <;> simp_all [corrB, corrPh_run, corrPh_idle, corrPh_exited, corrPh_parked, corrPh_clearW, corrPh_afterCmd, St.bg, afterSetErr]
  | otxNoRotate _ i lg hi =>
    cases lg <;> (try simp only [St.setDone, St.setBg, ↓reduceIte, Bool.false_eq_true, Bool.and_false, Bool.and_true, Bool.false_and, Bool.true_and]) <;> (repeat' split) <;> simp_all [corrB, corrPh_run, corrPh_idle, corrPh_exited, corrPh_parked, corrPh_clearW, corrPh_afterCmd, St.bg, afterSetErr]
  | otxNewMemOk _ i lg hi =>
    cases lg <;> (try simp only [St.setDone, St.setBg, ↓reduceIte, Bool.false_eq_true, Bool.and_false, Bool.and_true, Bool.false_and, Bool.true_and]) <;> (repeat' split) <;> simp_all [corrB, corrPh_run, corrPh_idle, corrPh_exited, corrPh_parked, corrPh_clearW, corrPh_afterCmd, St.bg, afterSetErr]
  | otxNewMemFail _ i lg hi =>
    cases lg <;> (try simp only [St.setDone, St.setBg, ↓reduceIte, Bool.false_eq_true, Bool.and_false, Bool.and_true, Bool.false_and, Bool.true_and]) <;> (repeat' split) <;> simp_all [corrB, corrPh_run, corrPh_idle, corrPh_exited, corrPh_parked, corrPh_clearW, corrPh_afterCmd, St.bg, afterSetErr]
  | otxNoWaitComp _ i lg hi =>
    cases lg <;> (try simp only [St.setDone, St.setBg, ↓reduceIte, Bool.false_eq_true, Bool.and_false, Bool.and_true, Bool.false_and, Bool.true_and]) <;> (repeat' split) <;> simp_all [corrB, corrPh_run, corrPh_idle, corrPh_exited, corrPh_parked, corrPh_clearW, corrPh_afterCmd, St.bg, afterSetErr]
  | otxWaitComp _ i lg hi =>
    cases lg <;> (try simp only [St.setDone, St.setBg, ↓reduceIte, Bool.false_eq_true, Bool.and_false, Bool.and_true, Bool.false_and, Bool.true_and]) <;> (repeat' split) <;> simp_all [corrB, corrPh_run, corrPh_idle, corrPh_exited, corrPh_parked, corrPh_clearW, corrPh_afterCmd, St.bg, afterSetErr]
  | otxFail _ i lg hi =>
    cases lg <;> (try simp only [St.setDone, St.setBg, ↓reduceIte, Bool.false_eq_true, Bool.and_false, Bool.and_true, Bool.false_and, Bool.true_and]) <;> (repeat' split) <;> simp_all [corrB, corrPh_run, corrPh_idle, corrPh_exited, corrPh_parked, corrPh_clearW, corrPh_afterCmd, St.bg, afterSetErr]
  | otxRel _ i lg hi =>
    cases lg <;> (try simp only [St.setDone, St.setBg, ↓reduceIte, Bool.false_eq_true, Bool.and_false, Bool.and_true, Bool.false_and, Bool.true_and]) <;> (repeat' split) <;> simp_all [corrB, corrPh_run, corrPh_idle, corrPh_exited, corrPh_parked, corrPh_clearW, corrPh_afterCmd, St.bg, afterSetErr]
  | otxDone _ i lg hi =>
    cases lg <;> (try simp only [St.setDone, St.setBg, ↓reduceIte, Bool.false_eq_true, Bool.and_false, Bool.and_true, Bool.false_and, Bool.true_and]) <;> (repeat' split) <;> simp_all [corrB, corrPh_run, corrPh_idle, corrPh_exited, corrPh_parked, corrPh_clearW, corrPh_afterCmd, St.bg, afterSetErr]
  | lgWriteOk _ i hi =>
    (try simp only [St.setDone, St.setBg, ↓reduceIte, Bool.false_eq_true, Bool.and_false, Bool.and_true, Bool.false_and, Bool.true_and]) <;> (repeat' split) <;> simp_all [corrB, corrPh_run, corrPh_idle, corrPh_exited, corrPh_parked, corrPh_clearW, corrPh_afterCmd, St.bg, afterSetErr]
  | lgWriteFail _ i hi =>
    (try simp only [St.setDone, St.setBg, ↓reduceIte, Bool.false_eq_true, Bool.and_false, Bool.and_true, Bool.false_and, Bool.true_and]) <;> (repeat' split) <;> simp_all [corrB, corrPh_run, corrPh_idle, corrPh_exited, corrPh_parked, corrPh_clearW, corrPh_afterCmd, St.bg, afterSetErr]
  | cmLockTr _ i lg hi hl =>
    cases lg <;> (try simp only [St.setDone, St.setBg, ↓reduceIte, Bool.false_eq_true, Bool.and_false, Bool.and_true, Bool.false_and, Bool.true_and]) <;> (repeat' split) <;> simp_all [corrB, corrPh_run, corrPh_idle, corrPh_exited, corrPh_parked, corrPh_clearW, corrPh_afterCmd, St.bg, afterSetErr]
  | cmFlushOk _ i lg hi =>
    cases lg <;> (try simp only [St.setDone, St.setBg, ↓reduceIte, Bool.false_eq_true, Bool.and_false, Bool.and_true, Bool.false_and, Bool.true_and]) <;> (repeat' split) <;> simp_all [corrB, corrPh_run, corrPh_idle, corrPh_exited, corrPh_parked, corrPh_clearW, corrPh_afterCmd, St.bg, afterSetErr]
  | cmFlushEmpty _ i lg hi =>
    cases lg <;> (try simp only [St.setDone, St.setBg, ↓reduceIte, Bool.false_eq_true, Bool.and_false, Bool.and_true, Bool.false_and, Bool.true_and]) <;> (repeat' split) <;> simp_all [corrB, corrPh_run, corrPh_idle, corrPh_exited, corrPh_parked, corrPh_clearW, corrPh_afterCmd, St.bg, afterSetErr]
  | cmFlushFail _ i lg hi =>
    cases lg <;> (try simp only [St.setDone, St.setBg, ↓reduceIte, Bool.false_eq_true, Bool.and_false, Bool.and_true, Bool.false_and, Bool.true_and]) <;> (repeat' split) <;> simp_all [corrB, corrPh_run, corrPh_idle, corrPh_exited, corrPh_parked, corrPh_clearW, corrPh_afterCmd, St.bg, afterSetErr]
  | cmLockClk _ i lg hi hl =>
    cases lg <;> (try simp only [St.setDone, St.setBg, ↓reduceIte, Bool.false_eq_true, Bool.and_false, Bool.and_true, Bool.false_and, Bool.true_and]) <;> (repeat' split) <;> simp_all [corrB, corrPh_run, corrPh_idle, corrPh_exited, corrPh_parked, corrPh_clearW, corrPh_afterCmd, St.bg, afterSetErr]
  | cmTryOk _ i k lg hi =>
    cases lg <;> (try simp only [St.setDone, St.setBg, ↓reduceIte, Bool.false_eq_true, Bool.and_false, Bool.and_true, Bool.false_and, Bool.true_and]) <;> (repeat' split) <;> simp_all [corrB, corrPh_run, corrPh_idle, corrPh_exited, corrPh_parked, corrPh_clearW, corrPh_afterCmd, St.bg, afterSetErr]
  | cmTryFail _ i k lg hi =>
    cases lg <;> (try simp only [St.setDone, St.setBg, ↓reduceIte, Bool.false_eq_true, Bool.and_false, Bool.and_true, Bool.false_and, Bool.true_and]) <;> (repeat' split) <;> simp_all [corrB, corrPh_run, corrPh_idle, corrPh_exited, corrPh_parked, corrPh_clearW, corrPh_afterCmd, St.bg, afterSetErr]
  | cmSleepTimer _ i k lg hi =>
    cases lg <;> (try simp only [St.setDone, St.setBg, ↓reduceIte, Bool.false_eq_true, Bool.and_false, Bool.and_true, Bool.false_and, Bool.true_and]) <;> (repeat' split) <;> simp_all [corrB, corrPh_run, corrPh_idle, corrPh_exited, corrPh_parked, corrPh_clearW, corrPh_afterCmd, St.bg, afterSetErr]
  | cmSleepClosed _ i k lg hi hc =>
    cases lg <;> (try simp only [St.setDone, St.setBg, ↓reduceIte, Bool.false_eq_true, Bool.and_false, Bool.and_true, Bool.false_and, Bool.true_and]) <;> (repeat' split) <;> simp_all [corrB, corrPh_run, corrPh_idle, corrPh_exited, corrPh_parked, corrPh_clearW, corrPh_afterCmd, St.bg, afterSetErr]
  | cmFail3 _ i lg hi =>
    cases lg <;> (try simp only [St.setDone, St.setBg, ↓reduceIte, Bool.false_eq_true, Bool.and_false, Bool.and_true, Bool.false_and, Bool.true_and]) <;> (repeat' split) <;> simp_all [corrB, corrPh_run, corrPh_idle, corrPh_exited, corrPh_parked, corrPh_clearW, corrPh_afterCmd, St.bg, afterSetErr]
  | cmAfterOk _ i lg hi =>
    cases lg <;> (try simp only [St.setDone, St.setBg, ↓reduceIte, Bool.false_eq_true, Bool.and_false, Bool.and_true, Bool.false_and, Bool.true_and]) <;> (repeat' split) <;> simp_all [corrB, corrPh_run, corrPh_idle, corrPh_exited, corrPh_parked, corrPh_clearW, corrPh_afterCmd, St.bg, afterSetErr]
  | cmNoWaitComp _ i lg hi =>
    cases lg <;> (try simp only [St.setDone, St.setBg, ↓reduceIte, Bool.false_eq_true, Bool.and_false, Bool.and_true, Bool.false_and, Bool.true_and]) <;> (repeat' split) <;> simp_all [corrB, corrPh_run, corrPh_idle, corrPh_exited, corrPh_parked, corrPh_clearW, corrPh_afterCmd, St.bg, afterSetErr]
  | cmWaitComp _ i lg hi =>
    cases lg <;> (try simp only [St.setDone, St.setBg, ↓reduceIte, Bool.false_eq_true, Bool.and_false, Bool.and_true, Bool.false_and, Bool.true_and]) <;> (repeat' split) <;> simp_all [corrB, corrPh_run, corrPh_idle, corrPh_exited, corrPh_parked, corrPh_clearW, corrPh_afterCmd, St.bg, afterSetErr]
  | cmDone _ i lg hi =>
    cases lg <;> (try simp only [St.setDone, St.setBg, ↓reduceIte, Bool.false_eq_true, Bool.and_false, Bool.and_true, Bool.false_and, Bool.true_and]) <;> (repeat' split) <;> simp_all [corrB, corrPh_run, corrPh_idle, corrPh_exited, corrPh_parked, corrPh_clearW, corrPh_afterCmd, St.bg, afterSetErr]
  | cmRet _ i ok lg hi =>
    cases ok <;> cases lg <;> (try simp only [St.setDone, St.setBg, ↓reduceIte, Bool.false_eq_true, Bool.and_false, Bool.and_true, Bool.false_and, Bool.true_and]) <;> (repeat' split) <;> simp_all [corrB, corrPh_run, corrPh_idle, corrPh_exited, corrPh_parked, corrPh_clearW, corrPh_afterCmd, St.bg, afterSetErr]
  | dcLockTr _ i lg hi hl =>
    cases lg <;> (try simp only [St.setDone, St.setBg, ↓reduceIte, Bool.false_eq_true, Bool.and_false, Bool.and_true, Bool.false_and, Bool.true_and]) <;> (repeat' split) <;> simp_all [corrB, corrPh_run, corrPh_idle, corrPh_exited, corrPh_parked, corrPh_clearW, corrPh_afterCmd, St.bg, afterSetErr]
  | dcBody _ i lg hi =>
    cases lg <;> (try simp only [St.setDone, St.setBg, ↓reduceIte, Bool.false_eq_true, Bool.and_false, Bool.and_true, Bool.false_and, Bool.true_and]) <;> (repeat' split) <;> simp_all [corrB, corrPh_run, corrPh_idle, corrPh_exited, corrPh_parked, corrPh_clearW, corrPh_afterCmd, St.bg, afterSetErr]
  | crNoOverlap _ i hi =>
    (try simp only [St.setDone, St.setBg, ↓reduceIte, Bool.false_eq_true, Bool.and_false, Bool.and_true, Bool.false_and, Bool.true_and]) <;> (repeat' split) <;> simp_all [corrB, corrPh_run, corrPh_idle, corrPh_exited, corrPh_parked, corrPh_clearW, corrPh_afterCmd, St.bg, afterSetErr]
  | crOverlap _ i hi =>
    (try simp only [St.setDone, St.setBg, ↓reduceIte, Bool.false_eq_true, Bool.and_false, Bool.and_true, Bool.false_and, Bool.true_and]) <;> (repeat' split) <;> simp_all [corrB, corrPh_run, corrPh_idle, corrPh_exited, corrPh_parked, corrPh_clearW, corrPh_afterCmd, St.bg, afterSetErr]
  | crNewMemOk _ i hi =>
    (try simp only [St.setDone, St.setBg, ↓reduceIte, Bool.false_eq_true, Bool.and_false, Bool.and_true, Bool.false_and, Bool.true_and]) <;> (repeat' split) <;> simp_all [corrB, corrPh_run, corrPh_idle, corrPh_exited, corrPh_parked, corrPh_clearW, corrPh_afterCmd, St.bg, afterSetErr]
  | crNewMemFail _ i hi =>
    (try simp only [St.setDone, St.setBg, ↓reduceIte, Bool.false_eq_true, Bool.and_false, Bool.and_true, Bool.false_and, Bool.true_and]) <;> (repeat' split) <;> simp_all [corrB, corrPh_run, corrPh_idle, corrPh_exited, corrPh_parked, corrPh_clearW, corrPh_afterCmd, St.bg, afterSetErr]
  | crRelM _ i hi =>
    (try simp only [St.setDone, St.setBg, ↓reduceIte, Bool.false_eq_true, Bool.and_false, Bool.and_true, Bool.false_and, Bool.true_and]) <;> (repeat' split) <;> simp_all [corrB, corrPh_run, corrPh_idle, corrPh_exited, corrPh_parked, corrPh_clearW, corrPh_afterCmd, St.bg, afterSetErr]
  | crRelOk _ i hi =>
    (try simp only [St.setDone, St.setBg, ↓reduceIte, Bool.false_eq_true, Bool.and_false, Bool.and_true, Bool.false_and, Bool.true_and]) <;> (repeat' split) <;> simp_all [corrB, corrPh_run, corrPh_idle, corrPh_exited, corrPh_parked, corrPh_clearW, corrPh_afterCmd, St.bg, afterSetErr]
  | crRelFail _ i hi =>
    (try simp only [St.setDone, St.setBg, ↓reduceIte, Bool.false_eq_true, Bool.and_false, Bool.and_true, Bool.false_and, Bool.true_and]) <;> (repeat' split) <;> simp_all [corrB, corrPh_run, corrPh_idle, corrPh_exited, corrPh_parked, corrPh_clearW, corrPh_afterCmd, St.bg, afterSetErr]
  | srSend _ i hi he =>
    (try simp only [St.setDone, St.setBg, ↓reduceIte, Bool.false_eq_true, Bool.and_false, Bool.and_true, Bool.false_and, Bool.true_and]) <;> (repeat' split) <;> simp_all [corrB, corrPh_run, corrPh_idle, corrPh_exited, corrPh_parked, corrPh_clearW, corrPh_afterCmd, St.bg, afterSetErr]
  | srPerErr _ i hi he =>
    (try simp only [St.setDone, St.setBg, ↓reduceIte, Bool.false_eq_true, Bool.and_false, Bool.and_true, Bool.false_and, Bool.true_and]) <;> (repeat' split) <;> simp_all [corrB, corrPh_run, corrPh_idle, corrPh_exited, corrPh_parked, corrPh_clearW, corrPh_afterCmd, St.bg, afterSetErr]
  | srClosed _ i hi hc =>
    (try simp only [St.setDone, St.setBg, ↓reduceIte, Bool.false_eq_true, Bool.and_false, Bool.and_true, Bool.false_and, Bool.true_and]) <;> (repeat' split) <;> simp_all [corrB, corrPh_run, corrPh_idle, corrPh_exited, corrPh_parked, corrPh_clearW, corrPh_afterCmd, St.bg, afterSetErr]
  | clCheckTr _ i hi =>
    (try simp only [St.setDone, St.setBg, ↓reduceIte, Bool.false_eq_true, Bool.and_false, Bool.and_true, Bool.false_and, Bool.true_and]) <;> (repeat' split) <;> simp_all [corrB, corrPh_run, corrPh_idle, corrPh_exited, corrPh_parked, corrPh_clearW, corrPh_afterCmd, St.bg, afterSetErr]
  | clLockTr _ i hi hl =>
    (try simp only [St.setDone, St.setBg, ↓reduceIte, Bool.false_eq_true, Bool.and_false, Bool.and_true, Bool.false_and, Bool.true_and]) <;> (repeat' split) <;> simp_all [corrB, corrPh_run, corrPh_idle, corrPh_exited, corrPh_parked, corrPh_clearW, corrPh_afterCmd, St.bg, afterSetErr]
  | clBody _ i hi =>
    (try simp only [St.setDone, St.setBg, ↓reduceIte, Bool.false_eq_true, Bool.and_false, Bool.and_true, Bool.false_and, Bool.true_and]) <;> (repeat' split) <;> simp_all [corrB, corrPh_run, corrPh_idle, corrPh_exited, corrPh_parked, corrPh_clearW, corrPh_afterCmd, St.bg, afterSetErr]
  | clAcq _ i hi ht =>
    (try simp only [St.setDone, St.setBg, ↓reduceIte, Bool.false_eq_true, Bool.and_false, Bool.and_true, Bool.false_and, Bool.true_and]) <;> (repeat' split) <;> simp_all [corrB, corrPh_run, corrPh_idle, corrPh_exited, corrPh_parked, corrPh_clearW, corrPh_afterCmd, St.bg, afterSetErr]
  | clAcqKept _ i hi he hk hs =>
    (try simp only [St.setDone, St.setBg, ↓reduceIte, Bool.false_eq_true, Bool.and_false, Bool.and_true, Bool.false_and, Bool.true_and]) <;> (repeat' split) <;> simp_all [corrB, corrPh_run, corrPh_idle, corrPh_exited, corrPh_parked, corrPh_clearW, corrPh_afterCmd, St.bg, afterSetErr]
  | clWait _ i hi hm ht =>
    (try simp only [St.setDone, St.setBg, ↓reduceIte, Bool.false_eq_true, Bool.and_false, Bool.and_true, Bool.false_and, Bool.true_and]) <;> (repeat' split) <;> simp_all [corrB, corrPh_run, corrPh_idle, corrPh_exited, corrPh_parked, corrPh_clearW, corrPh_afterCmd, St.bg, afterSetErr]
  | ehAcquire _ he ht =>
    (try simp only [St.setDone, St.setBg, ↓reduceIte, Bool.false_eq_true, Bool.and_false, Bool.and_true, Bool.false_and, Bool.true_and]) <;> (repeat' split) <;> simp_all [corrB, corrPh_run, corrPh_idle, corrPh_exited, corrPh_parked, corrPh_clearW, corrPh_afterCmd, St.bg, afterSetErr]
  | ehClose _ he hc =>
    (try simp only [St.setDone, St.setBg, ↓reduceIte, Bool.false_eq_true, Bool.and_false, Bool.and_true, Bool.false_and, Bool.true_and]) <;> (repeat' split) <;> simp_all [corrB, corrPh_run, corrPh_idle, corrPh_exited, corrPh_parked, corrPh_clearW, corrPh_afterCmd, St.bg, afterSetErr]
  | ehTake _ he ht =>
    (try simp only [St.setDone, St.setBg, ↓reduceIte, Bool.false_eq_true, Bool.and_false, Bool.and_true, Bool.false_and, Bool.true_and]) <;> (repeat' split) <;> simp_all [corrB, corrPh_run, corrPh_idle, corrPh_exited, corrPh_parked, corrPh_clearW, corrPh_afterCmd, St.bg, afterSetErr]
  | bgExitIdle _ b hb hc =>
    cases b <;> (try simp only [St.setDone, St.setBg, ↓reduceIte, Bool.false_eq_true, Bool.and_false, Bool.and_true, Bool.false_and, Bool.true_and]) <;> (repeat' split) <;> simp_all [corrB, corrPh_run, corrPh_idle, corrPh_exited, corrPh_parked, corrPh_clearW, corrPh_afterCmd, St.bg, afterSetErr]
  | bgExitParked _ hb hc =>
    (try simp only [St.setDone, St.setBg, ↓reduceIte, Bool.false_eq_true, Bool.and_false, Bool.and_true, Bool.false_and, Bool.true_and]) <;> (repeat' split) <;> simp_all [corrB, corrPh_run, corrPh_idle, corrPh_exited, corrPh_parked, corrPh_clearW, corrPh_afterCmd, St.bg, afterSetErr]
  | bgWorkCorrupt _ b w hb hk =>
    cases b <;> (try simp only [St.setDone, St.setBg, ↓reduceIte, Bool.false_eq_true, Bool.and_false, Bool.and_true, Bool.false_and, Bool.true_and]) <;> (repeat' split) <;> simp_all [corrB, corrPh_run, corrPh_idle, corrPh_exited, corrPh_parked, corrPh_clearW, corrPh_afterCmd, St.bg, afterSetErr]
  | bgCommitCorrupt _ b w hb hk =>
    cases b <;> (try simp only [St.setDone, St.setBg, ↓reduceIte, Bool.false_eq_true, Bool.and_false, Bool.and_true, Bool.false_and, Bool.true_and]) <;> (repeat' split) <;> simp_all [corrB, corrPh_run, corrPh_idle, corrPh_exited, corrPh_parked, corrPh_clearW, corrPh_afterCmd, St.bg, afterSetErr]
  | bgSetErrCorrupt _ b w c hb he =>
    cases b <;> cases c <;> (try simp only [St.setDone, St.setBg, ↓reduceIte, Bool.false_eq_true, Bool.and_false, Bool.and_true, Bool.false_and, Bool.true_and]) <;> (repeat' split) <;> simp_all [corrB, corrPh_run, corrPh_idle, corrPh_exited, corrPh_parked, corrPh_clearW, corrPh_afterCmd, St.bg, afterSetErr]
  | bgWorkOk _ b w hb =>
    cases b <;> (try simp only [St.setDone, St.setBg, ↓reduceIte, Bool.false_eq_true, Bool.and_false, Bool.and_true, Bool.false_and, Bool.true_and]) <;> (repeat' split) <;> simp_all [corrB, corrPh_run, corrPh_idle, corrPh_exited, corrPh_parked, corrPh_clearW, corrPh_afterCmd, St.bg, afterSetErr]
  | bgWorkFail _ b w hb =>
    cases b <;> (try simp only [St.setDone, St.setBg, ↓reduceIte, Bool.false_eq_true, Bool.and_false, Bool.and_true, Bool.false_and, Bool.true_and]) <;> (repeat' split) <;> simp_all [corrB, corrPh_run, corrPh_idle, corrPh_exited, corrPh_parked, corrPh_clearW, corrPh_afterCmd, St.bg, afterSetErr]
  | bgCommitOk _ b w hb =>
    cases b <;> (try simp only [St.setDone, St.setBg, ↓reduceIte, Bool.false_eq_true, Bool.and_false, Bool.and_true, Bool.false_and, Bool.true_and]) <;> (repeat' split) <;> simp_all [corrB, corrPh_run, corrPh_idle, corrPh_exited, corrPh_parked, corrPh_clearW, corrPh_afterCmd, St.bg, afterSetErr]
  | bgCommitFail _ b w hb =>
    cases b <;> (try simp only [St.setDone, St.setBg, ↓reduceIte, Bool.false_eq_true, Bool.and_false, Bool.and_true, Bool.false_and, Bool.true_and]) <;> (repeat' split) <;> simp_all [corrB, corrPh_run, corrPh_idle, corrPh_exited, corrPh_parked, corrPh_clearW, corrPh_afterCmd, St.bg, afterSetErr]
  | bgSetErr _ b w ok c hb he =>
    cases b <;> cases ok <;> cases c <;> (try simp only [St.setDone, St.setBg, ↓reduceIte, Bool.false_eq_true, Bool.and_false, Bool.and_true, Bool.false_and, Bool.true_and]) <;> (repeat' split) <;> simp_all [corrB, corrPh_run, corrPh_idle, corrPh_exited, corrPh_parked, corrPh_clearW, corrPh_afterCmd, St.bg, afterSetErr]
  | bgSetErrPer _ b w c hb he =>
    cases b <;> cases c <;> (try simp only [St.setDone, St.setBg, ↓reduceIte, Bool.false_eq_true, Bool.and_false, Bool.and_true, Bool.false_and, Bool.true_and]) <;> (repeat' split) <;> simp_all [corrB, corrPh_run, corrPh_idle, corrPh_exited, corrPh_parked, corrPh_clearW, corrPh_afterCmd, St.bg, afterSetErr]
  | bgBackoff _ b w c hb =>
    cases b <;> cases c <;> (try simp only [St.setDone, St.setBg, ↓reduceIte, Bool.false_eq_true, Bool.and_false, Bool.and_true, Bool.false_and, Bool.true_and]) <;> (repeat' split) <;> simp_all [corrB, corrPh_run, corrPh_idle, corrPh_exited, corrPh_parked, corrPh_clearW, corrPh_afterCmd, St.bg, afterSetErr]
  | bgLockClk _ b w hb hl =>
    cases b <;> (try simp only [St.setDone, St.setBg, ↓reduceIte, Bool.false_eq_true, Bool.and_false, Bool.and_true, Bool.false_and, Bool.true_and]) <;> (repeat' split) <;> simp_all [corrB, corrPh_run, corrPh_idle, corrPh_exited, corrPh_parked, corrPh_clearW, corrPh_afterCmd, St.bg, afterSetErr]
  | bgAck _ b w hb =>
    cases b <;> (try simp only [St.setDone, St.setBg, ↓reduceIte, Bool.false_eq_true, Bool.and_false, Bool.and_true, Bool.false_and, Bool.true_and]) <;> (repeat' split) <;> simp_all [corrB, corrPh_run, corrPh_idle, corrPh_exited, corrPh_parked, corrPh_clearW, corrPh_afterCmd, St.bg, afterSetErr]
  | bgExit _ b w ph hb hx =>
    cases b <;> (try simp only [St.setDone, St.setBg, ↓reduceIte, Bool.false_eq_true, Bool.and_false, Bool.and_true, Bool.false_and, Bool.true_and]) <;> (repeat' split) <;> simp_all [corrB, corrPh_run, corrPh_idle, corrPh_exited, corrPh_parked, corrPh_clearW, corrPh_afterCmd, St.bg, afterSetErr]

theorem initNC_noCorr (n : Nat) : NoCorr (initNC n) := ⟨rfl, rfl, rfl⟩

end GoLevel.Locks
