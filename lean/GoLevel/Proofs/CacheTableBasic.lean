import GoLevel.Model.CacheTable
/-! Hash table of the cache (C17), part 1: the order on `mNodes`, `sort.Search`, insertion, `sort.Sort`. -/
namespace GoLevel.CacheT

/-- Same (ns,key). -/
def keyEq (ns key : Nat) (x : TNode) : Bool := x.ns == ns && x.key == key

/-- `mNodes` sorted strictly by (ns,key): the order invariant of a bucket. -/
def Sorted (l : List TNode) : Prop := l.Pairwise fun a b => less a b = true

theorem less_iff {a b : TNode} : less a b = true ↔ a.ns < b.ns ∨ (a.ns = b.ns ∧ a.key < b.key) := by
  unfold less; split <;> simp_all <;> omega

theorem less_trans {a b c : TNode} (h1 : less a b = true) (h2 : less b c = true) : less a c = true := by
  rw [less_iff] at *; omega

theorem less_irrefl (a : TNode) : less a a = false := by
  cases h : less a a with
  | false => rfl
  | true => rw [less_iff] at h; omega

theorem searchPred_iff {ns key : Nat} {x : TNode} :
    searchPred ns key x = true ↔ ns < x.ns ∨ (x.ns = ns ∧ key ≤ x.key) := by
  unfold searchPred; split <;> simp_all <;> omega

theorem searchPred_false_iff {ns key : Nat} {x : TNode} :
    searchPred ns key x = false ↔ x.ns < ns ∨ (x.ns = ns ∧ x.key < key) := by
  cases h : searchPred ns key x with
  | true => rw [searchPred_iff] at h; simp; omega
  | false =>
    simp only [true_iff]
    have : ¬ (ns < x.ns ∨ (x.ns = ns ∧ key ≤ x.key)) := by rw [← searchPred_iff, h]; simp
    omega

/-- `sort.Search` on a monotone predicate returns the first index at which it holds. -/
theorem bsearch_spec (f : Nat → Bool) (hmono : ∀ a b, a ≤ b → f a = true → f b = true) :
    ∀ fuel i j, i ≤ j → j - i < fuel → (∀ k, k < i → f k = false) → (∀ k, j ≤ k → f k = true) →
      i ≤ bsearch f fuel i j ∧ bsearch f fuel i j ≤ j ∧ (∀ k, k < bsearch f fuel i j → f k = false) ∧
        (∀ k, bsearch f fuel i j ≤ k → f k = true) := by
  intro fuel
  induction fuel with
  | zero => intro i j _ h; omega
  | succ fuel ih =>
    intro i j hij hfuel hlo hhi
    unfold bsearch
    by_cases hlt : i < j
    · simp only [hlt, if_true]
      have hh1 : i ≤ (i + j) / 2 := by omega
      have hh2 : (i + j) / 2 < j := by omega
      cases hf : f ((i + j) / 2) with
      | false =>
        simp only [Bool.not_false, if_true]
        have := ih ((i + j) / 2 + 1) j (by omega) (by omega) (fun k hk => by
          cases hfk : f k with
          | false => rfl
          | true => have := hmono k ((i + j) / 2) (by omega) hfk; rw [hf] at this; cases this) hhi
        exact ⟨by omega, this.2.1, this.2.2.1, this.2.2.2⟩
      | true =>
        simp only [Bool.not_true, Bool.false_eq_true, if_false]
        have := ih i ((i + j) / 2) hh1 (by omega) hlo (fun k hk => hmono _ k hk hf)
        exact ⟨this.1, by omega, this.2.2.1, this.2.2.2⟩
    · simp only [hlt, if_false]
      have : i = j := by omega
      subst this
      exact ⟨Nat.le_refl _, Nat.le_refl _, hlo, hhi⟩

/-- `mNodes.search` on a sorted bucket: everything before the result is smaller than (ns,key), everything from
it on is not. -/
theorem search_spec {x : List TNode} (hs : Sorted x) (ns key : Nat) :
    search x ns key ≤ x.length ∧
    (∀ k n, k < search x ns key → x[k]? = some n → searchPred ns key n = false) ∧
    (∀ k n, search x ns key ≤ k → x[k]? = some n → searchPred ns key n = true) := by
  have hmono : ∀ a b : Nat, a ≤ b →
      (match x[a]? with | some n => searchPred ns key n | none => true) = true →
      (match x[b]? with | some n => searchPred ns key n | none => true) = true := by
    intro a b hab ha
    cases hb : x[b]? with
    | none => rfl
    | some nb =>
      have hbl : b < x.length := by
        rcases Nat.lt_or_ge b x.length with h | h
        · exact h
        · rw [List.getElem?_eq_none h] at hb; cases hb
      have hal : a < x.length := by omega
      rw [List.getElem?_eq_getElem hal] at ha
      rw [List.getElem?_eq_getElem hbl] at hb
      simp only [Option.some.injEq] at hb
      simp only [] at ha ⊢
      rcases Nat.lt_or_ge a b with hlt | hge
      · have := (List.pairwise_iff_getElem.mp hs) a b hal hbl hlt
        rw [hb] at this
        rw [less_iff] at this
        rw [searchPred_iff] at ha ⊢
        omega
      · have : a = b := by omega
        subst this; rw [← hb]; exact ha
  have := bsearch_spec _ hmono (x.length + 1) 0 x.length (Nat.zero_le _) (by omega)
    (fun k hk => by omega) (fun k hk => by rw [List.getElem?_eq_none hk])
  refine ⟨this.2.1, fun k n hk hn => ?_, fun k n hk hn => ?_⟩
  · have := this.2.2.1 k hk; rw [hn] at this; exact this
  · have := this.2.2.2 k hk; rw [hn] at this; exact this

theorem sorted_nodup_key {x : List TNode} (hs : Sorted x) {a b : TNode} (ha : a ∈ x) (hb : b ∈ x)
    (hk : a.ns = b.ns ∧ a.key = b.key) : a = b := by
  induction x with
  | nil => cases ha
  | cons c x ih =>
    have hp := List.pairwise_cons.mp hs
    rcases List.mem_cons.mp ha with ha1 | ha1 <;> rcases List.mem_cons.mp hb with hb1 | hb1
    · rw [ha1, hb1]
    · subst ha1; have := hp.1 b hb1; rw [less_iff] at this; omega
    · subst hb1; have := hp.1 a ha1; rw [less_iff] at this; omega
    · exact ih hp.2 ha1 hb1

/-- A hit of the search is the (unique) node of the bucket with that key; a miss means there is none. -/
theorem search_hit_iff {x : List TNode} (hs : Sorted x) (ns key : Nat) (n : TNode) :
    (x[search x ns key]? = some n ∧ keyEq ns key n = true) ↔ (n ∈ x ∧ keyEq ns key n = true) := by
  have hsp := search_spec hs ns key
  constructor
  · rintro ⟨h1, h2⟩
    exact ⟨List.mem_iff_getElem?.mpr ⟨_, h1⟩, h2⟩
  · rintro ⟨h1, h2⟩
    refine ⟨?_, h2⟩
    obtain ⟨k, hk⟩ := List.mem_iff_getElem?.mp h1
    have hkl : k < x.length := by
      rcases Nat.lt_or_ge k x.length with h | h
      · exact h
      · rw [List.getElem?_eq_none h] at hk; cases hk
    simp only [keyEq, Bool.and_eq_true, beq_iff_eq] at h2
    -- k is not before the result
    have hge : search x ns key ≤ k := by
      rcases Nat.lt_or_ge k (search x ns key) with h | h
      · have := hsp.2.1 k n h hk; rw [searchPred_false_iff] at this; omega
      · exact h
    rcases Nat.lt_or_ge (search x ns key) k with hlt | hge2
    · exfalso
      have hrl : search x ns key < x.length := by omega
      have h3 := hsp.2.2 _ _ (Nat.le_refl _) (List.getElem?_eq_getElem hrl)
      have h4 := (List.pairwise_iff_getElem.mp hs) _ k hrl hkl hlt
      rw [List.getElem?_eq_getElem hkl] at hk
      simp only [Option.some.injEq] at hk
      rw [hk, less_iff] at h4
      rw [searchPred_iff] at h3
      omega
    · have : search x ns key = k := by omega
      rw [this]; exact hk

/-- `insertAt` is insertion at position `i`. -/
theorem insertAt_eq (x : List TNode) (i : Nat) (n : TNode) (hi : i ≤ x.length) :
    insertAt x i n = x.take i ++ n :: x.drop i := by
  unfold insertAt
  induction x generalizing i with
  | nil => simp at hi; subst hi; simp
  | cons a x ih =>
    cases i with
    | zero => simp
    | succ i =>
      have hi' : i ≤ x.length := by simpa using hi
      have := ih i hi'
      by_cases hl : i = x.length
      · subst hl; simp
      · have hne : ¬ (i + 1 = (a :: x).length) := by simp; exact hl
        rw [if_neg hl] at this
        rw [if_neg hne]
        simp only [List.take_succ_cons, List.drop_succ_cons, List.cons_append, List.set_cons_succ, this]

theorem getElem?_lt_of_some {α : Type} {x : List α} {k : Nat} {n : α} (h : x[k]? = some n) : k < x.length := by
  rcases Nat.lt_or_ge k x.length with h1 | h1
  · exact h1
  · rw [List.getElem?_eq_none h1] at h; cases h

/-- Inserting a node with a new key at the position `mNodes.search` returns keeps the bucket sorted. -/
theorem sorted_insert {x : List TNode} (hs : Sorted x) (n : TNode)
    (hnew : ∀ y ∈ x, ¬ (y.ns = n.ns ∧ y.key = n.key)) :
    Sorted (x.take (search x n.ns n.key) ++ n :: x.drop (search x n.ns n.key)) := by
  have hsp := search_spec hs n.ns n.key
  unfold Sorted
  rw [List.pairwise_append]
  refine ⟨List.Pairwise.sublist (List.take_sublist _ _) hs, ?_, ?_⟩
  · rw [List.pairwise_cons]
    refine ⟨fun b hb => ?_, List.Pairwise.sublist (List.drop_sublist _ _) hs⟩
    obtain ⟨k, hk⟩ := List.mem_iff_getElem?.mp hb
    rw [List.getElem?_drop] at hk
    have := hsp.2.2 _ b (Nat.le_add_right _ _) hk
    rw [searchPred_iff] at this
    have hne := hnew b (List.mem_iff_getElem?.mpr ⟨_, hk⟩)
    rw [less_iff]; omega
  · intro a ha b hb
    obtain ⟨k, hk⟩ := List.mem_iff_getElem?.mp ha
    have hkl := getElem?_lt_of_some hk
    rw [List.length_take] at hkl
    rw [List.getElem?_take_of_lt (by omega)] at hk
    have h1 := hsp.2.1 k a (by omega) hk
    rw [searchPred_false_iff] at h1
    rcases List.mem_cons.mp hb with rfl | hb
    · rw [less_iff]; omega
    · obtain ⟨k2, hk2⟩ := List.mem_iff_getElem?.mp hb
      rw [List.getElem?_drop] at hk2
      have h2 := hsp.2.2 _ b (Nat.le_add_right _ _) hk2
      rw [searchPred_iff] at h2
      rw [less_iff]; omega

theorem mem_insert {x : List TNode} {i : Nat} {n y : TNode} :
    y ∈ x.take i ++ n :: x.drop i ↔ y = n ∨ y ∈ x := by
  constructor
  · intro h
    rcases List.mem_append.mp h with h | h
    · exact Or.inr (List.mem_of_mem_take h)
    · rcases List.mem_cons.mp h with h | h
      · exact Or.inl h
      · exact Or.inr (List.mem_of_mem_drop h)
  · rintro (h | h)
    · exact List.mem_append_right _ (h ▸ List.mem_cons_self)
    · rw [← List.take_append_drop i x] at h
      rcases List.mem_append.mp h with h | h
      · exact List.mem_append_left _ h
      · exact List.mem_append_right _ (List.mem_cons_of_mem _ h)

theorem sorted_nodup {x : List TNode} (hs : Sorted x) : x.Nodup := by
  unfold Sorted at hs
  exact List.Pairwise.imp (fun {a b} h heq => by subst heq; rw [less_irrefl] at h; cases h) hs

/-- Removing the node at position `j`. -/
theorem mem_remove {x : List TNode} (hs : Sorted x) {j : Nat} {n y : TNode} (hj : x[j]? = some n) :
    y ∈ x.take j ++ x.drop (j + 1) ↔ y ∈ x ∧ y ≠ n := by
  rw [← List.eraseIdx_eq_take_drop_succ]
  have hjl := getElem?_lt_of_some hj
  have hn : n = x[j] := by rw [List.getElem?_eq_getElem hjl] at hj; exact (Option.some.inj hj).symm
  have hne : ∀ i (hi : i < x.length), i ≠ j → x[i] ≠ x[j] := by
    intro i hi hij heq
    rcases Nat.lt_or_ge i j with h | h
    · have := (List.pairwise_iff_getElem.mp hs) i j hi hjl h
      rw [heq, less_irrefl] at this; cases this
    · have := (List.pairwise_iff_getElem.mp hs) j i hjl hi (by omega)
      rw [heq, less_irrefl] at this; cases this
  rw [List.mem_eraseIdx_iff_getElem]
  constructor
  · rintro ⟨i, hi, hij, rfl⟩
    exact ⟨List.getElem_mem hi, by rw [hn]; exact hne i hi hij⟩
  · rintro ⟨hy, hyn⟩
    obtain ⟨i, hi, rfl⟩ := List.getElem_of_mem hy
    refine ⟨i, hi, ?_, rfl⟩
    intro hij; subst hij; exact hyn hn.symm

theorem sorted_remove {x : List TNode} (hs : Sorted x) (j : Nat) : Sorted (x.take j ++ x.drop (j + 1)) := by
  rw [← List.eraseIdx_eq_take_drop_succ]
  exact List.Pairwise.sublist (List.eraseIdx_sublist _ _) hs

/-! ### `sort.Sort` -/

theorem orderedInsert_perm (n : TNode) (l : List TNode) : (orderedInsert n l).Perm (n :: l) := by
  induction l with
  | nil => exact List.Perm.refl _
  | cons a l ih =>
    unfold orderedInsert
    split
    · exact (List.Perm.cons a ih).trans (List.Perm.swap n a l)
    · exact List.Perm.refl _

theorem sortNodes_perm (x : List TNode) : (sortNodes x).Perm x := by
  induction x with
  | nil => exact List.Perm.refl _
  | cons a x ih =>
    show (orderedInsert a (sortNodes x)).Perm (a :: x)
    exact (orderedInsert_perm a _).trans (List.Perm.cons a ih)

theorem mem_sortNodes {x : List TNode} {y : TNode} : y ∈ sortNodes x ↔ y ∈ x :=
  (sortNodes_perm x).mem_iff

theorem length_sortNodes (x : List TNode) : (sortNodes x).length = x.length :=
  (sortNodes_perm x).length_eq

theorem sorted_orderedInsert {n : TNode} {l : List TNode} (hs : Sorted l)
    (hne : ∀ y ∈ l, ¬ (n.ns = y.ns ∧ n.key = y.key)) : Sorted (orderedInsert n l) := by
  induction l with
  | nil => exact List.pairwise_singleton _ _
  | cons a l ih =>
    have hp := List.pairwise_cons.mp hs
    unfold orderedInsert
    by_cases hl : less a n = true
    · rw [if_pos hl]
      refine List.pairwise_cons.mpr ⟨fun b hb => ?_, ih hp.2 (fun y hy => hne y (List.mem_cons_of_mem _ hy))⟩
      rcases List.mem_cons.mp ((orderedInsert_perm n l).mem_iff.mp hb) with rfl | hb
      · exact hl
      · exact hp.1 b hb
    · rw [if_neg hl]
      have hna : less n a = true := by
        have h1 := hne a List.mem_cons_self
        rw [less_iff] at hl ⊢
        omega
      refine List.pairwise_cons.mpr ⟨fun b hb => ?_, hs⟩
      rcases List.mem_cons.mp hb with rfl | hb
      · exact hna
      · exact less_trans hna (hp.1 b hb)

/-- Sorting a list of nodes with pairwise different keys gives a strictly sorted list. -/
theorem sorted_sortNodes {x : List TNode}
    (hd : x.Pairwise fun a b => ¬ (a.ns = b.ns ∧ a.key = b.key)) : Sorted (sortNodes x) := by
  induction x with
  | nil => exact List.Pairwise.nil
  | cons a x ih =>
    have hp := List.pairwise_cons.mp hd
    show Sorted (orderedInsert a (sortNodes x))
    exact sorted_orderedInsert (ih hp.2) (fun y hy => hp.1 y (mem_sortNodes.mp hy))

end GoLevel.CacheT
