import GoLevel.Model.Session
import GoLevel.Proofs.RefLoopFStep
/-! Basic facts about the producer model (`Model/Session.lean`): the `seen` map of `setVersion`, the record
filled by `newManifest` (C07). -/
namespace GoLevel.Session
open GoLevel GoLevel.RefLoop

theorem mem_dedup {l : List Nat} {f : Nat} : f ∈ dedup l ↔ f ∈ l := by
  induction l with
  | nil => simp [dedup]
  | cons a l ih =>
    simp only [dedup, List.mem_cons, List.mem_filter, ih, bne_iff_ne, ne_eq]
    constructor
    · rintro (h | ⟨h, _⟩)
      · exact Or.inl h
      · exact Or.inr h
    · rintro (h | h)
      · exact Or.inl h
      · by_cases hfa : f = a
        · exact Or.inl hfa
        · exact Or.inr ⟨h, hfa⟩

/-- the D13 repair: each table is listed once in `added` -/
theorem nodup_dedup (l : List Nat) : (dedup l).Nodup := by
  induction l with
  | nil => simp [dedup]
  | cons a l ih =>
    simp only [dedup]
    refine List.nodup_cons.mpr ⟨?_, ih.filter _⟩
    simp [List.mem_filter]

theorem levelTables_nums (v : Version) : (levelTables v).map (·.2.num) = v.nums := by
  unfold levelTables Version.nums
  rw [List.map_flatMap]
  have : ∀ (ls : List Level) (n : Nat),
      (ls.zipIdx n).flatMap (fun a => List.map (fun x => x.2.num) (match a with | (l, i) => l.map fun t => (i, t))) =
      ls.flatMap fun l => l.map (·.num) := by
    intro ls
    induction ls with
    | nil => intro n; rfl
    | cons l ls ih =>
      intro n
      simp only [List.zipIdx_cons, List.flatMap_cons]
      rw [ih (n + 1)]
      congr 1
      simp [List.map_map, Function.comp_def]
  exact this v.levels 0

end GoLevel.Session
