import GoLevel.Proofs.DurableStepJ0
/-!
Job steps, part 1: transport lemmas for the clauses of `JobOK`, and the table phase
(`tCreate`, `tWrite`, `tSync`).
-/
namespace GoLevel.Dur

theorem JobKindOK.transport {s s' : St} {j j' : Job} (h : JobKindOK s j)
    (h1 : s'.phase = s.phase) (h2 : s'.frozen = s.frozen) (h3 : s'.jfrozen = s.jfrozen) (h4 : s'.jcur = s.jcur)
    (h5 : s'.frozenSeq = s.frozenSeq) (h6 : s'.recov = s.recov) (h7 : s'.seq = s.seq)
    (k1 : j'.kind = j.kind) (k2 : j'.edit = j.edit) (k3 : j'.outs = j.outs) (k4 : j'.rmJournals = j.rmJournals)
    (k5 : j'.mkJournal = j.mkJournal) (k6 : j'.pc.beforeCommit = true → j.pc.beforeCommit = true)
    (h8 : s'.tr = s.tr) (h9 : s'.issued = s.issued) (k7 : j.kind = .tr → j'.rmTables = j.rmTables) :
    JobKindOK s' j' := by
  have h9' : issuedGrps s' = issuedGrps s := by unfold issuedGrps; rw [h9]
  unfold JobKindOK at h ⊢
  rw [k1, h1, h2, h3, h4, h5, h6, h7, k2, k3, k4, k5, h8, h9']
  cases hk : j.kind <;> rw [hk] at h <;> simp only at h ⊢
  · exact h
  · exact h
  · exact h
  · exact h
  · rw [k7 hk]; exact h

theorem MkJournalOK.transport {s s' : St} {d d' : Disk} {j j' : Job} (h : MkJournalOK s d j)
    (h1 : s.nextFile ≤ s'.nextFile) (h2 : s'.jcur = s.jcur) (h3 : d'.journals = d.journals)
    (k1 : j'.mkJournal = j.mkJournal)
    (k2 : (j'.pc = .mkJournal ∨ j'.pc.tablesDone = false) ↔ (j.pc = .mkJournal ∨ j.pc.tablesDone = false)) :
    MkJournalOK s' d' j' := by
  unfold MkJournalOK at h ⊢
  rw [k1, h2, h3]
  split
  · trivial
  · rename_i n hn
    rw [hn] at h
    simp only at h
    refine ⟨Nat.lt_of_lt_of_le h.1 h1, ?_⟩
    have h' := h.2
    by_cases hc : j.pc = .mkJournal ∨ j.pc.tablesDone = false
    · rw [if_pos hc] at h'; rw [if_pos (k2.2 hc)]; exact h'
    · rw [if_neg hc] at h'; rw [if_neg (fun x => hc (k2.1 x))]; exact h'

/-- the clause about a compaction's inputs under a step that leaves the input tables and the session's
    version alone and does not go back behind the commit -/
theorem InputsOK.transport {s s' : St} {d d' : Disk} {j j' : Job} {e : MRec} (h : InputsOK s d j e)
    (hk : j'.kind = j.kind) (ho : j'.outs = j.outs) (hrm : j.kind = .compaction → j'.rmTables = j.rmTables)
    (hbc : j'.pc.beforeCommit = true → j.pc.beforeCommit = true) (hl : j'.pc.beforeCommit = true → s'.live = s.live)
    (hT : j'.pc.beforeCommit = true → ∀ t, (∀ o ∈ j.outs, t ≠ o.1) → lookup d'.tables t = lookup d.tables t) :
    InputsOK s' d' j' e := by
  unfold InputsOK at h ⊢
  rw [hk]
  split
  · rename_i hc
    rw [if_pos hc] at h
    obtain ⟨a, b, c, dlt, f⟩ := h
    refine ⟨a, b, by rw [hrm hc]; exact c, by rw [ho]; exact dlt, fun hb => ?_⟩
    obtain ⟨f1, f2⟩ := f (hbc hb)
    refine ⟨by rw [hl hb]; exact f1, ?_⟩
    have : outsGrps j' = outsGrps j := by unfold outsGrps; rw [ho]
    rw [this, f2]
    exact (liveGrps_congr (d := d) (d' := d') (v := ⟨e.deleted, 0, 0, 0⟩)
      (fun t ht => hT hb t (fun o ho' hc' => by have := dlt t ht o ho'; omega))).symm
  · rename_i hc
    rw [if_neg hc] at h
    exact h

/-- the state after a job step that only moves the pc -/
theorem goto_eq (s : St) (j : Job) (pc : JPc) :
    ({ s with job := some { j with pc := pc } } : St) =
      s.upd { j with pc := pc } s.nextFile s.live s.stJn s.stSq s.manifestFd s.manifestOpen := rfl

/-- a job exists only outside the crashed phase -/
theorem Inv.not_crashed {cfg : Cfg} {s : St} {d : Disk} (h : Inv cfg s d) {j : Job} (hj : s.job = some j) :
    s.phase ≠ .crashed := by
  intro hc
  have := (h.crashed hc).1
  rw [hj] at this
  cases this

/-- `db.seq` lies below what the job's edit may carry -/
theorem Inv.seq_le_sqCap {cfg : Cfg} {s : St} {d : Disk} (h : Inv cfg s d) {j : Job} (hj : s.job = some j) :
    s.seq ≤ sqCap s j := by
  unfold sqCap
  split
  · rename_i hk
    have hok := h.job
    rw [hj] at hok
    have hkind := (hok : JobOK cfg s d j).kind
    unfold JobKindOK at hkind
    rw [hk] at hkind
    simp only at hkind
    obtain ⟨hph, _, _, _, hkind⟩ := hkind
    have htr := (h.run hph).norecov.2
    unfold TrOK at htr
    cases ht : s.tr with
    | none => exact Nat.le_refl _
    | some g =>
      rw [ht] at htr hkind
      have hkind : Holds j.edit _ := hkind
      rw [holds_iff] at hkind
      obtain ⟨e, _, _, _, _, hne, _⟩ := hkind
      have h1 : g.seq = s.seq + 1 := htr.2.2.2.1
      have h3 := Grp.seq_lt_fin hne
      simp only
      omega
  · exact Nat.le_refl _

/-- the bound of `ViewBounds` does not decrease under a step of the job that keeps its kind, `tr`, `db.seq` and
    does not go back behind the commit -/
theorem Inv.seqHi_step {cfg : Cfg} {s s' : St} {d : Disk} (h : Inv cfg s d) {j j' : Job} (hj : s.job = some j)
    (hj' : s'.job = some j') (htr : s'.tr = s.tr) (hseq : s'.seq = s.seq) (hk : j'.kind = j.kind)
    (hpc : j'.pc.beforeCommit = true → j.pc.beforeCommit = true) : seqHi s ≤ seqHi s' :=
  seqHi_le_of_job hj hj' htr hseq hk hpc (h.seq_le_sqCap hj)

/-- the invariant does not look at `session.manifestFailed` -/
theorem Inv.set_manifestFailed {cfg : Cfg} {s : St} {d : Disk} (h : Inv cfg s d) (b : Bool) :
    Inv cfg { s with manifestFailed := b } d := by
  obtain ⟨h1, h2, h3, h4, h5, h6, h7⟩ := h
  refine ⟨h1, h2, h3, fun hr => ?_, fun hr => ?_, h6, ?_⟩
  · obtain ⟨r1, r2, r3, r4, r5, r6, r7, r8, r9⟩ := h4 hr
    exact ⟨r1, r2, r3, r4, r5, r6, r7, r8, r9⟩
  · have := h5 hr
    show Holds s.recov _
    refine this.imp (fun r hr' => ?_)
    obtain ⟨r1, r2, r3, r4, r5, r6, r7, r8, r9, r10⟩ := hr'
    exact ⟨r1, r2, r3, r4, r5, r6, r7, r8, r9, r10⟩
  · show Holds' s.job _
    refine Holds'.imp (o := s.job) h7 (fun j hj => ?_)
    obtain ⟨j1, j2, j3, j4, j5, j6, j7, j8, j9, j10, j11, j12⟩ := hj
    exact ⟨j1, j2, j3, j4, j5, j6, j7, j8, j9, j10, j11, j12⟩

/-- everything but the `job` clause, for a step inside the table phase: only table `n`, which no admissible
    view lists, changes -/
theorem Inv.table_step {cfg : Cfg} {s : St} {d : Disk} (h : Inv cfg s d) {j : Job} (hj : s.job = some j)
    (hbc : j.pc.beforeCommit = true) (hnr : ∀ m, j.pc ≠ .rotRemove m) {n : Nat} {gs : List Grp}
    (hn : (n, gs) ∈ j.outs) (T' : Files TableFile) (hT : ∀ t, t ≠ n → lookup T' t = lookup d.tables t)
    (hTn : T'.Pairwise (fun p q => p.1 ≠ q.1)) (pc' : JPc) (hpc : ∀ m, pc' ≠ .rotRemove m) (j' : Job)
    (hj' : j' = { j with pc := pc' })
    (hjob : JobOK cfg { s with job := some j' } { d with tables := T' } j') :
    Inv cfg { s with job := some j' } { d with tables := T' } := by
  have hok := h.job
  rw [hj] at hok
  have hfresh := hok.fresh.2 hbc
  have hph := h.not_crashed hj
  have hb := h.bounds hph
  have hnc : NoCommitYet s := by unfold NoCommitYet; rw [hj]; exact hbc
  have hpf := phase_frame (d' := { d with tables := T' }) h j' s.nextFile (Nat.le_refl _) rfl rfl rfl
    (by subst hj'; exact hpc) ⟨j, hj, hnr⟩ (fun _ => hnc)
    (fun j0 h0 => by
      rw [hj] at h0; cases h0; subst hj'
      exact ⟨rfl, fun _ hb => by rw [hbc] at hb; cases hb⟩)
  constructor
  · apply h.disk.frame (d' := { d with tables := T' }) rfl rfl _ hTn h.disk.mnodup (fun _ hx => hx) (fun _ hx => hx)
    intro mf hc k hk v hv t ht
    apply hT
    have hfr := (holds_some (holds_some hfresh hc k hk) hv).1 (n, gs) hn
    have := ((h.disk.allViews mf hc k hk v hv).tables t ht).1
    simp only at hfr
    omega
  · exact h.mm.of_same rfl rfl
  · intro _
    exact hb.of_same rfl (h.seqHi_step hj rfl rfl rfl (by subst hj'; rfl) (fun _ => hbc)) (Nat.le_refl _)
      (fun hr => ⟨hr, Nat.le_refl _⟩)
  · exact hpf.1
  · exact hpf.2
  · intro hc; exact absurd hc hph
  · exact hjob

end GoLevel.Dur
