import GoLevel.Proofs.DurableStepJ0
/-!
Job steps, part 1: transport lemmas for the clauses of `JobOK`, and the table phase
(`tCreate`, `tWrite`, `tSync`).
-/
namespace GoLevel.Dur

theorem JobKindOK.transport {s s' : St} {j j' : Job} (h : JobKindOK s j)
    (h1 : s'.phase = s.phase) (h2 : s'.frozen = s.frozen) (h3 : s'.jfrozen = s.jfrozen) (h4 : s'.jcur = s.jcur)
    (h5 : s'.frozenSeq = s.frozenSeq) (h6 : s'.recov = s.recov) (h7 : s'.seq = s.seq)
    (k1 : j'.kind = j.kind) (k2 : j'.edit = j.edit) (k3 : j'.outs = j.outs) (k4 : j'.rmJournals = j.rmJournals)
    (k5 : j'.mkJournal = j.mkJournal) (k6 : j'.pc.beforeCommit = true → j.pc.beforeCommit = true)
    (h8 : s'.tr = s.tr) (h9 : s'.issued = s.issued) (k7 : j.kind = .tr → j'.rmTables = j.rmTables) :
    JobKindOK s' j' := by
  have h9' : issuedGrps s' = issuedGrps s := by unfold issuedGrps; rw [h9]
  unfold JobKindOK at h ⊢
  rw [k1, h1, h2, h3, h4, h5, h6, h7, k2, k3, k4, k5, h8, h9']
  cases hk : j.kind <;> rw [hk] at h <;> simp only at h ⊢
  · exact h
  · exact h
  · exact h
  · exact h
  · rw [k7 hk]; exact h

theorem MkJournalOK.transport {s s' : St} {d d' : Disk} {j j' : Job} (h : MkJournalOK s d j)
    (h1 : s.nextFile ≤ s'.nextFile) (h2 : s'.jcur = s.jcur) (h3 : d'.journals = d.journals)
    (k1 : j'.mkJournal = j.mkJournal)
    (k2 : (j'.pc = .mkJournal ∨ j'.pc.tablesDone = false) ↔ (j.pc = .mkJournal ∨ j.pc.tablesDone = false)) :
    MkJournalOK s' d' j' := by
  unfold MkJournalOK at h ⊢
  rw [k1, h2, h3]
  split
  · trivial
  · rename_i n hn
    rw [hn] at h
    simp only at h
    refine ⟨Nat.lt_of_lt_of_le h.1 h1, ?_⟩
    have h' := h.2
    by_cases hc : j.pc = .mkJournal ∨ j.pc.tablesDone = false
    · rw [if_pos hc] at h'; rw [if_pos (k2.2 hc)]; exact h'
    · rw [if_neg hc] at h'; rw [if_neg (fun x => hc (k2.1 x))]; exact h'

/-- the clause about a compaction's inputs under a step that leaves the input tables and the session's
    version alone and does not go back behind the commit -/
theorem InputsOK.transport {s s' : St} {d d' : Disk} {j j' : Job} {e : MRec} (h : InputsOK s d j e)
    (hk : j'.kind = j.kind) (ho : j'.outs = j.outs) (hrm : j.kind = .compaction → j'.rmTables = j.rmTables)
    (hbc : j'.pc.beforeCommit = true → j.pc.beforeCommit = true) (hl : j'.pc.beforeCommit = true → s'.live = s.live)
    (hT : j'.pc.beforeCommit = true → ∀ t, (∀ o ∈ j.outs, t ≠ o.1) → lookup d'.tables t = lookup d.tables t) :
    InputsOK s' d' j' e := by
  unfold InputsOK at h ⊢
  rw [hk]
  split
  · rename_i hc
    rw [if_pos hc] at h
    obtain ⟨a, b, c, dlt, f⟩ := h
    refine ⟨a, b, by rw [hrm hc]; exact c, by rw [ho]; exact dlt, fun hb => ?_⟩
    obtain ⟨f1, f2⟩ := f (hbc hb)
    refine ⟨by rw [hl hb]; exact f1, ?_⟩
    have : outsGrps j' = outsGrps j := by unfold outsGrps; rw [ho]
    rw [this, f2]
    exact (liveGrps_congr (d := d) (d' := d') (v := ⟨e.deleted, 0, 0, 0⟩)
      (fun t ht => hT hb t (fun o ho' hc' => by have := dlt t ht o ho'; omega))).symm
  · rename_i hc
    rw [if_neg hc] at h
    exact h

/-- the state after a job step that only moves the pc -/
theorem goto_eq (s : St) (j : Job) (pc : JPc) :
    ({ s with job := some { j with pc := pc } } : St) =
      s.upd { j with pc := pc } s.nextFile s.live s.stJn s.stSq s.manifestFd s.manifestOpen := rfl

/-- a job exists only outside the crashed phase -/
theorem Inv.not_crashed {cfg : Cfg} {s : St} {d : Disk} (h : Inv cfg s d) {j : Job} (hj : s.job = some j) :
    s.phase ≠ .crashed := by
  intro hc
  have := (h.crashed hc).1
  rw [hj] at this
  cases this

/-- `db.seq` lies below what the job's edit may carry -/
theorem Inv.seq_le_sqCap {cfg : Cfg} {s : St} {d : Disk} (h : Inv cfg s d) {j : Job} (hj : s.job = some j) :
    s.seq ≤ sqCap s j := by
  unfold sqCap
  split
  · rename_i hk
    have hok := h.job
    rw [hj] at hok
    have hkind := (hok : JobOK cfg s d j).kind
    unfold JobKindOK at hkind
    rw [hk] at hkind
    simp only at hkind
    obtain ⟨hph, _, _, _, hkind⟩ := hkind
    have htr := (h.run hph).norecov.2
    unfold TrOK at htr
    cases ht : s.tr with
    | none => exact Nat.le_refl _
    | some g =>
      rw [ht] at htr hkind
      have hkind : Holds j.edit _ := hkind
      rw [holds_iff] at hkind
      obtain ⟨e, _, _, _, _, hne, _⟩ := hkind
      have h1 : g.seq = s.seq + 1 := htr.2.2.2.1
      have h3 := Grp.seq_lt_fin hne
      simp only
      omega
  · exact Nat.le_refl _

/-- the bound of `ViewBounds` does not decrease under a step of the job that keeps its kind, `tr`, `db.seq` and
    does not go back behind the commit -/
theorem Inv.seqHi_step {cfg : Cfg} {s s' : St} {d : Disk} (h : Inv cfg s d) {j j' : Job} (hj : s.job = some j)
    (hj' : s'.job = some j') (htr : s'.tr = s.tr) (hseq : s'.seq = s.seq) (hk : j'.kind = j.kind)
    (hpc : j'.pc.beforeCommit = true → j.pc.beforeCommit = true) (hl : s'.limbo = s.limbo := by rfl) :
    seqHi s ≤ seqHi s' :=
  seqHi_le_of_job hj hj' htr hseq hk hpc (h.seq_le_sqCap hj) hl

/-- the invariant looks at `session.manifestFailed` only through the ghost edit: it is set while the storage is
    ahead of the session -/
theorem Inv.set_manifestFailed {cfg : Cfg} {s : St} {d : Disk} (h : Inv cfg s d) (b : Bool)
    (hb : s.limbo.isSome = true → b = true := by intro hx; first | rfl | cases hx) :
    Inv cfg { s with manifestFailed := b } d := by
  obtain ⟨h1, h2, h3, h4, h5, h6, h7⟩ := h
  refine ⟨h1, h2, h3, fun hr => ?_, fun hr => ?_, h6, ?_⟩
  · obtain ⟨r1, r2, r3, r4, r5, r6, r7, r8, r9, r10⟩ := h4 hr
    refine ⟨r1, r2, r3, r4, r5, r6, r7, r8, r9, ?_⟩
    unfold LimboOK at r10 ⊢
    cases hu : s.limbo with
    | none => trivial
    | some u =>
      rw [hu] at r10
      obtain ⟨_, k⟩ : LimboFacts s d u := r10
      exact ⟨hb (by rw [hu]; rfl), k⟩
  · have := h5 hr
    show Holds s.recov _
    refine this.imp (fun r hr' => ?_)
    obtain ⟨r1, r2, r3, r4, r5, r6, r7, r8, r9, r10⟩ := hr'
    exact ⟨r1, r2, r3, r4, r5, r6, r7, r8, r9, r10⟩
  · show Holds' s.job _
    refine Holds'.imp (o := s.job) h7 (fun j hj => ?_)
    obtain ⟨j1, j2, j3, j4, j5, j6, j7, j8, j9, j10, j11, j12⟩ := hj
    exact ⟨j1, j2, j3, j4, j5, j6, j7, j8, j9, j10, j11, j12⟩

/-- the session mirrors the last view, or lags it by the ghost edit, while the job's edit is neither in the manifest
    nor in a manifest that `CURRENT` names -/
theorem JobOK.mirror_before' {cfg : Cfg} {s : St} {d : Disk} {j : Job} (h : JobOK cfg s d j)
    (hbc : j.pc.beforeCommit = true) : Settled cfg s d (MirrorL s) := by
  have hm := h.manifest
  unfold JobManifestOK at hm
  cases he : j.edit with
  | none => rw [he] at hm; exact hm
  | some e =>
    rw [he] at hm
    simp only at hm
    cases hpc : j.pc <;> rw [hpc] at hm hbc <;> simp only [JobManifest, JPc.beforeCommit] at hm hbc
    all_goals first
      | exact hm
      | exact hm.1
      | cases hbc
      | exact absurd hm id

/-- the limbo facts under a step of the table phase of a job (its pc is not one of the retry of a commit, so the
    ghost edit, if any, is a discarded transaction's): table `n`, an output of the job, changes -/
theorem LimboOK.table_step {s : St} {d : Disk} (h : LimboOK s d) {j : Job} (hj : s.job = some j)
    (hnret : j.pc.retry = false) {n : Nat} (hn : ∃ gs, (n, gs) ∈ j.outs) (hlive : ∀ t ∈ s.live, t ≠ n)
    (T' : Files TableFile) (hT : ∀ t, t ≠ n → lookup T' t = lookup d.tables t) (pc' : JPc)
    (hbc' : j.edit = none ∨ pc'.beforeCommit = true) :
    LimboOK { s with job := some { j with pc := pc' } } { d with tables := T' } := by
  unfold LimboOK at h ⊢
  show Holds' s.limbo _
  refine Holds'.imp (o := s.limbo) h (fun u hu => ?_)
  obtain ⟨a, b, c, e, f, g, k0, k⟩ := hu
  refine ⟨a, b, c, e, f, fun t ht => ⟨(g t ht).1, ?_⟩, hbc', ?_⟩
  · have : tableGrpsOf { d with tables := T' } t = tableGrpsOf d t := by
      unfold tableGrpsOf
      show ((lookup T' t).map _).getD [] = _
      rw [hT t (hlive t ht)]
    rw [this]
    exact (g t ht).2
  · rcases k with k | k
    · rw [hj] at k
      have : j.pc.retry = true := k.2
      rw [hnret] at this; cases this
    · right
      obtain ⟨k1, k2, k3⟩ := k
      refine ⟨k1, k2, k3.imp (fun t ht => ⟨ht.1, ht.2.1, ?_⟩)⟩
      have htn : t ≠ n := by
        have h7 := ht.2.2
        rw [holds_iff] at h7
        obtain ⟨tf, _, _, _, h8⟩ := h7
        rw [holds_iff] at h8
        obtain ⟨g0, _, _, _, _, _, _, h9⟩ := h8
        rw [hj] at h9
        obtain ⟨gs, hgs⟩ := hn
        have := h9 (n, gs) hgs
        simp only at this
        omega
      show Holds (lookup T' t) _
      rw [hT t htn]
      refine ht.2.2.imp (fun tf htf => ⟨htf.1, htf.2.1, htf.2.2.imp (fun g0 hg0 => ?_)⟩)
      obtain ⟨m1, m2, m4, m5, m6, m7⟩ := hg0
      refine ⟨m1, m2, m4, m5, m6, ?_⟩
      rw [hj] at m7
      exact m7

/-- everything but the `job` clause, for a step inside the table phase: only table `n`, which no admissible
    view lists, changes -/
theorem Inv.table_step {cfg : Cfg} {s : St} {d : Disk} (h : Inv cfg s d) {j : Job} (hj : s.job = some j)
    (hbc : j.pc.beforeCommit = true) (hnr : ∀ m, j.pc ≠ .rotRemove m) {n : Nat} {gs : List Grp}
    (hn : (n, gs) ∈ j.outs) (T' : Files TableFile) (hT : ∀ t, t ≠ n → lookup T' t = lookup d.tables t)
    (hTn : T'.Pairwise (fun p q => p.1 ≠ q.1)) (pc' : JPc) (hpc : ∀ m, pc' ≠ .rotRemove m) (j' : Job)
    (hj' : j' = { j with pc := pc' })
    (hjob : JobOK cfg { s with job := some j' } { d with tables := T' } j')
    (hnret : j.pc.retry = false) (hbc' : j.edit = none ∨ pc'.beforeCommit = true) :
    Inv cfg { s with job := some j' } { d with tables := T' } := by
  have hok := h.job
  rw [hj] at hok
  have hfresh := hok.fresh.2 hbc
  have hph := h.not_crashed hj
  have hb := h.bounds hph
  have hnc : NoCommitYet s := by unfold NoCommitYet; rw [hj]; exact hbc
  -- no admissible view lists table `n`
  have hnv : ∀ mf, curManifest d = some mf → ∀ k ≤ mf.unsynced.length, ∀ v, viewAt cfg mf k = some v →
      ∀ t ∈ v.live, t ≠ n := by
    intro mf hc k hk v hv t ht
    have hfr := (holds_some (holds_some hfresh hc k hk) hv).1 (n, gs) hn
    have := ((h.disk.allViews mf hc k hk v hv).tables t ht).1
    simp only at hfr
    rcases hfr with hfr | hfr
    · omega
    · rw [hnret] at hfr; exact absurd hfr.1 (by simp)
  have hpf := phase_frame (d' := { d with tables := T' }) h j' s.nextFile (Nat.le_refl _) rfl rfl rfl
    (by subst hj'; exact hpc) ⟨j, hj, hnr⟩ (fun _ => hnc)
    (fun j0 h0 => by
      rw [hj] at h0; cases h0; subst hj'
      exact ⟨rfl, fun _ hb => by rw [JPc.uninstalled_of_bc hbc] at hb; cases hb⟩)
    (fun hr => by
      subst hj'
      have hrun := h.run hr
      refine hrun.limbo.table_step hj hnret ⟨gs, hn⟩ ?_ T' hT pc' hbc'
      -- the session's tables are live in the last view of the manifest
      intro t ht
      obtain ⟨mf, v0, hparts⟩ := h.disk.parts
      obtain ⟨vl, hvl, _, _⟩ := hparts.views mf.unsynced.length (Nat.le_refl _)
      refine hnv mf hparts.cur _ (Nat.le_refl _) vl hvl t ?_
      have hsett := hok.mirror_before' hbc
      unfold Settled at hsett
      have hm := (holds_some hsett hparts.cur).2
      have hlv : lastView cfg d = some vl := by unfold lastView; rw [hparts.cur]; exact hvl
      rw [hlv] at hm
      cases hu : s.limbo with
      | none => rw [((MirrorL.of_none hu).1 hm).1]; exact ht
      | some u =>
          obtain ⟨m1, _, _⟩ : MirrorE s u vl := (MirrorL.of_some hu).1 hm
          have hl := hrun.limbo
          unfold LimboOK at hl
          rw [hu] at hl
          obtain ⟨_, _, _, _, _, g6, _, k⟩ : LimboFacts s d u := hl
          rcases k with k | k
          · rw [hj] at k
            have : j.pc.retry = true := k.2
            rw [hnret] at this; cases this
          · rw [m1, mem_applyEdit]
            refine Or.inl ⟨ht, by rw [k.1]; exact List.not_mem_nil, fun ha => ?_⟩
            have := (g6 t ht).1 t ha
            omega)
  constructor
  · apply h.disk.frame (d' := { d with tables := T' }) rfl rfl _ hTn h.disk.mnodup (fun _ hx => hx) (fun _ hx => hx)
    intro mf hc k hk v hv t ht
    exact hT t (hnv mf hc k hk v hv t ht)
  · exact h.mm.of_same rfl rfl
  · intro _
    exact hb.of_same rfl (h.seqHi_step hj rfl rfl rfl (by subst hj'; rfl) (fun _ => hbc)) (Nat.le_refl _)
      (fun hr => ⟨hr, Nat.le_refl _⟩)
  · exact hpf.1
  · exact hpf.2
  · intro hc; exact absurd hc hph
  · exact hjob

end GoLevel.Dur
