import GoLevel.Proofs.DurableStepJ0
/-!
Job steps, part 1: transport lemmas for the clauses of `JobOK`, and the table phase
(`tCreate`, `tWrite`, `tSync`).
-/
namespace GoLevel.Dur

theorem JobKindOK.transport {s s' : St} {j j' : Job} (h : JobKindOK s j)
    (h1 : s'.phase = s.phase) (h2 : s'.frozen = s.frozen) (h3 : s'.jfrozen = s.jfrozen) (h4 : s'.jcur = s.jcur)
    (h5 : s'.frozenSeq = s.frozenSeq) (h6 : s'.recov = s.recov) (h7 : s'.seq = s.seq)
    (k1 : j'.kind = j.kind) (k2 : j'.edit = j.edit) (k3 : j'.outs = j.outs) (k4 : j'.rmJournals = j.rmJournals)
    (k5 : j'.mkJournal = j.mkJournal) (k6 : j'.pc.beforeCommit = true → j.pc.beforeCommit = true) :
    JobKindOK s' j' := by
  unfold JobKindOK at h ⊢
  rw [k1, h1, h2, h3, h4, h5, h6, h7, k2, k3, k4, k5]
  cases hk : j.kind <;> rw [hk] at h <;> simp only at h ⊢
  · exact h
  · exact h
  · exact h

theorem MkJournalOK.transport {s s' : St} {d d' : Disk} {j j' : Job} (h : MkJournalOK s d j)
    (h1 : s.nextFile ≤ s'.nextFile) (h2 : s'.jcur = s.jcur) (h3 : d'.journals = d.journals)
    (k1 : j'.mkJournal = j.mkJournal)
    (k2 : (j'.pc = .mkJournal ∨ j'.pc.tablesDone = false) ↔ (j.pc = .mkJournal ∨ j.pc.tablesDone = false)) :
    MkJournalOK s' d' j' := by
  unfold MkJournalOK at h ⊢
  rw [k1, h2, h3]
  split
  · trivial
  · rename_i n hn
    rw [hn] at h
    simp only at h
    refine ⟨Nat.lt_of_lt_of_le h.1 h1, ?_⟩
    have h' := h.2
    by_cases hc : j.pc = .mkJournal ∨ j.pc.tablesDone = false
    · rw [if_pos hc] at h'; rw [if_pos (k2.2 hc)]; exact h'
    · rw [if_neg hc] at h'; rw [if_neg (fun x => hc (k2.1 x))]; exact h'

/-- the state after a job step that only moves the pc -/
theorem goto_eq (s : St) (j : Job) (pc : JPc) :
    ({ s with job := some { j with pc := pc } } : St) =
      s.upd { j with pc := pc } s.nextFile s.live s.stJn s.stSq s.manifestFd s.manifestOpen := rfl

/-- a job exists only outside the crashed phase -/
theorem Inv.not_crashed {cfg : Cfg} {s : St} {d : Disk} (h : Inv cfg s d) {j : Job} (hj : s.job = some j) :
    s.phase ≠ .crashed := by
  intro hc
  have := (h.crashed hc).1
  rw [hj] at this
  cases this

/-- everything but the `job` clause, for a step inside the table phase: only table `n`, which no admissible
    view lists, changes -/
theorem Inv.table_step {cfg : Cfg} {s : St} {d : Disk} (h : Inv cfg s d) {j : Job} (hj : s.job = some j)
    (hbc : j.pc.beforeCommit = true) (hnr : ∀ m, j.pc ≠ .rotRemove m) {n : Nat} {gs : List Grp}
    (hn : (n, gs) ∈ j.outs) (T' : Files TableFile) (hT : ∀ t, t ≠ n → lookup T' t = lookup d.tables t)
    (hTn : T'.Pairwise (fun p q => p.1 ≠ q.1)) (pc' : JPc) (hpc : ∀ m, pc' ≠ .rotRemove m) (j' : Job)
    (hj' : j' = { j with pc := pc' })
    (hjob : JobOK cfg { s with job := some j' } { d with tables := T' } j') :
    Inv cfg { s with job := some j' } { d with tables := T' } := by
  have hok := h.job
  rw [hj] at hok
  have hfresh := hok.fresh.2 hbc
  have hph := h.not_crashed hj
  have hb := h.bounds hph
  have hnc : NoCommitYet s := by unfold NoCommitYet; rw [hj]; exact hbc
  have hpf := phase_frame (d' := { d with tables := T' }) h j' s.nextFile (Nat.le_refl _) rfl rfl rfl
    (by subst hj'; exact hpc) ⟨j, hj, hnr⟩ (fun _ => hnc)
  constructor
  · apply h.disk.frame (d' := { d with tables := T' }) rfl rfl _ hTn h.disk.mnodup (fun _ hx => hx) (fun _ hx => hx)
    intro mf hc k hk v hv t ht
    apply hT
    have hfr := (holds_some (holds_some hfresh hc k hk) hv).1 (n, gs) hn
    have := ((h.disk.allViews mf hc k hk v hv).tables t ht).1
    simp only at hfr
    omega
  · exact h.mm.of_same rfl rfl
  · intro _
    exact hb.of_same rfl (Nat.le_refl _) (Nat.le_refl _) (fun hr => ⟨hr, Nat.le_refl _⟩)
  · exact hpf.1
  · exact hpf.2
  · intro hc; exact absurd hc hph
  · exact hjob

end GoLevel.Dur
