import GoLevel.Proofs.IterErrIndexed
/-!
# `EIndexed.failSim`: the five methods, and "a method that sets `i.err` returns `false`" (C02 / C08)

`indexedIterator.Valid()` does not consult `i.err`; that the model may read the Boolean of every method off
`cur` also on the error paths is `dead_*`: whenever a method leaves `i.err` set, the data iterator it leaves
is invalid (`dataErr` is only asked after a data movement that returned `false`).  Core Lean only.
-/
namespace GoLevel
namespace EIndexed

/-- if `i.err` is set there is nothing under the cursor -/
def Dead (c : UCmp) (y : EIndexed) : Prop := y.err ≠ none → cur c y = none

theorem dead_of_ok (c : UCmp) (y : EIndexed) (h : y.err = none) : Dead c y := fun h' => absurd h h'

theorem dataErr_cases (X : EIndexed) :
    (dataErr X).1.data = X.data ∧ ((dataErr X).2 = false → (dataErr X).1.err = X.err) := by
  unfold dataErr
  split
  · exact ⟨rfl, fun _ => rfl⟩
  · split
    · exact ⟨rfl, fun h => by cases h⟩
    · exact ⟨rfl, fun _ => rfl⟩

/-- the common shape "move the data iterator; on `false` consult `dataErr`; clear and go on with `k`" -/
theorem data_step_dead (c : UCmp) (x : EIndexed) (a' : FailChild ArrIter) (hx : x.err = none)
    (k : EIndexed → EIndexed) (hk : ∀ y : EIndexed, y.err = none → Dead c (k y)) :
    Dead c (if (dops c).ok a' then ({ x with data := some a' } : EIndexed)
      else if (dataErr { x with data := some a' }).2 then (dataErr { x with data := some a' }).1
      else k (dataErr { x with data := some a' }).1.clearData) := by
  obtain ⟨h1, h2⟩ := dataErr_cases { x with data := some a' }
  cases hok : (dops c).ok a' with
  | true => simp only [if_true]; exact dead_of_ok c _ hx
  | false =>
    simp only [Bool.false_eq_true, if_false]
    cases hd : (dataErr { x with data := some a' }).2 with
    | true =>
      simp only [if_true]
      intro _
      have hc : (dops c).cur a' = none := by
        simp only [IterOps.ok, Option.isSome_eq_false_iff, Option.isNone_iff_eq_none] at hok
        exact hok
      simp only [cur, h1, Option.bind_some, hc]
    | false =>
      simp only [Bool.false_eq_true, if_false]
      exact hk _ (by rw [show ((dataErr { x with data := some a' }).1.clearData).err =
        (dataErr { x with data := some a' }).1.err from rfl, h2 hd]; exact hx)

theorem nextF_dead (c : UCmp) (n : Nat) : ∀ x : EIndexed, x.err = none → Dead c (nextF c n x) := by
  induction n with
  | zero => intro x hx; exact dead_of_ok c _ hx
  | succ n ih =>
    intro x hx
    have adv : ∀ y : EIndexed, y.err = none → Dead c (advN c n y) := by
      intro y hy
      unfold advN
      simp only
      split
      · exact dead_of_ok c _ hy
      · exact ih _ hy
    rw [nextF_succ]
    cases hd : x.data with
    | none => exact adv x hx
    | some a => exact data_step_dead c x _ hx (advN c n) adv

theorem prevF_dead (c : UCmp) (n : Nat) : ∀ x : EIndexed, x.err = none → Dead c (prevF c n x) := by
  induction n with
  | zero => intro x hx; exact dead_of_ok c _ hx
  | succ n ih =>
    intro x hx
    have hlast : ∀ y : EIndexed, y.err = none → Dead c (lastN c n y) := by
      intro y hy
      unfold lastN
      cases hd : y.data with
      | none => exact dead_of_ok c _ hy
      | some a => exact data_step_dead c y _ hy (prevF c n) ih
    have ret : ∀ y : EIndexed, y.err = none → Dead c (retN c n y) := by
      intro y hy
      unfold retN
      simp only
      split
      · exact dead_of_ok c _ hy
      · exact hlast _ hy
    rw [prevF_succ]
    cases hd : x.data with
    | none => exact ret x hx
    | some a => exact data_step_dead c x _ hx (retN c n) ret

theorem lastN_dead (c : UCmp) (n : Nat) (y : EIndexed) (hy : y.err = none) : Dead c (lastN c n y) := by
  unfold lastN
  cases hd : y.data with
  | none => exact dead_of_ok c _ hy
  | some a => exact data_step_dead c y _ hy (prevF c n) (prevF_dead c n)

/-! ### the five methods as compositions of the pieces above -/

theorem next_eq (c : UCmp) (x : EIndexed) (h : x.err = none) : next c x = nextF c x.fuel x := by
  simp [next, guard, h]

theorem prev_eq (c : UCmp) (x : EIndexed) (h : x.err = none) : prev c x = prevF c x.fuel x := by
  simp [prev, guard, h]

theorem first_eq (c : UCmp) (x : EIndexed) (h : x.err = none) :
    first c x = (if !({ x with ipos := Cursor.first x.children } : EIndexed).indexOk then
        ({ x with ipos := Cursor.first x.children } : EIndexed).clearData
      else nextF c x.fuel ({ x with ipos := Cursor.first x.children } : EIndexed).setData) := by
  simp [first, guard, h]; rfl

theorem last_eq (c : UCmp) (x : EIndexed) (h : x.err = none) :
    last c x = (if !({ x with ipos := Cursor.last x.children } : EIndexed).indexOk then
        ({ x with ipos := Cursor.last x.children } : EIndexed).clearData
      else lastN c x.fuel ({ x with ipos := Cursor.last x.children } : EIndexed).setData) := by
  simp only [last, guard, h, Option.isSome_none, Bool.false_eq_true, if_false]
  rfl

/-- the tail of `Seek` after `setData` -/
def seekN (c : UCmp) (k : IKey) (n : Nat) (y : EIndexed) : EIndexed :=
  match y.data with
  | some a =>
    if (dops c).ok ((dops c).seek k a) then { y with data := some ((dops c).seek k a) }
    else if (dataErr { y with data := some ((dops c).seek k a) }).2 then
      (dataErr { y with data := some ((dops c).seek k a) }).1
    else nextF c n (dataErr { y with data := some ((dops c).seek k a) }).1.clearData
  | none => y

def seekN' (c : UCmp) (k : IKey) (n : Nat) (z : IndexedIter) : IndexedIter :=
  match z.data with
  | some a =>
    if (ArrIter.ops c).ok ((ArrIter.ops c).seek k a) then { z with data := some ((ArrIter.ops c).seek k a) }
    else IndexedIter.nextF c n z.clearData
  | none => z

theorem seekN_dead (c : UCmp) (k : IKey) (n : Nat) (y : EIndexed) (hy : y.err = none) :
    Dead c (seekN c k n y) := by
  unfold seekN
  cases hd : y.data with
  | none => exact dead_of_ok c _ hy
  | some a => exact data_step_dead c y _ hy (nextF c n) (nextF_dead c n)

theorem seek_eq (c : UCmp) (k : IKey) (x : EIndexed) (h : x.err = none) :
    seek c k x =
      (if !({ x with ipos := Cursor.seek x.children (fun ch => icmp c ch.sep k != Ordering.lt) } : EIndexed).indexOk
        then ({ x with ipos := Cursor.seek x.children (fun ch => icmp c ch.sep k != Ordering.lt) } : EIndexed).clearData
      else seekN c k x.fuel
        ({ x with ipos := Cursor.seek x.children (fun ch => icmp c ch.sep k != Ordering.lt) } : EIndexed).setData) := by
  simp only [seek, guard, h, Option.isSome_none, Bool.false_eq_true, if_false]
  rfl

theorem first_eq' (c : UCmp) (z : IndexedIter) :
    IndexedIter.first c z = (if !({ z with ipos := Cursor.first z.children } : IndexedIter).indexOk then
        ({ z with ipos := Cursor.first z.children } : IndexedIter).clearData
      else IndexedIter.nextF c z.fuel ({ z with ipos := Cursor.first z.children } : IndexedIter).setData) := rfl

theorem last_eq' (c : UCmp) (z : IndexedIter) :
    IndexedIter.last c z = (if !({ z with ipos := Cursor.last z.children } : IndexedIter).indexOk then
        ({ z with ipos := Cursor.last z.children } : IndexedIter).clearData
      else lastN' c z.fuel ({ z with ipos := Cursor.last z.children } : IndexedIter).setData) := rfl

theorem seek_eq' (c : UCmp) (k : IKey) (z : IndexedIter) :
    IndexedIter.seek c k z =
      (if !({ z with ipos := Cursor.seek z.children (fun ch => icmp c ch.sep k != Ordering.lt) } : IndexedIter).indexOk
        then ({ z with ipos := Cursor.seek z.children (fun ch => icmp c ch.sep k != Ordering.lt) } : IndexedIter).clearData
      else seekN' c k z.fuel
        ({ z with ipos := Cursor.seek z.children (fun ch => icmp c ch.sep k != Ordering.lt) } : IndexedIter).setData) :=
  rfl

theorem proj_fuel (x : EIndexed) : (proj x).fuel = x.fuel := by
  simp [proj, IndexedIter.fuel, fuel]

theorem lastN_couple (c : UCmp) (n : Nat) (y : EIndexed) (hy : Healthy y) (hey : (lastN c n y).err = none) :
    Healthy (lastN c n y) ∧ proj (lastN c n y) = lastN' c n (proj y) := by
  unfold lastN at hey ⊢
  unfold lastN'
  cases hd : y.data with
  | none =>
    have hpd : (proj y).data = none := by simp [proj, hd]
    simp only [hpd]
    exact ⟨hy, by first | rfl | trivial⟩
  | some a =>
    have hpd : (proj y).data = some a.inner := by simp [proj, hd]
    simp only [hd] at hey
    simp only [hpd]
    exact data_step c .last y a hy hd (prevF c n) (IndexedIter.prevF c n) (prevF_couple c n) hey

theorem seekN_couple (c : UCmp) (k : IKey) (n : Nat) (y : EIndexed) (hy : Healthy y)
    (hey : (seekN c k n y).err = none) :
    Healthy (seekN c k n y) ∧ proj (seekN c k n y) = seekN' c k n (proj y) := by
  unfold seekN at hey ⊢
  unfold seekN'
  cases hd : y.data with
  | none =>
    have hpd : (proj y).data = none := by simp [proj, hd]
    simp only [hpd]
    exact ⟨hy, by first | rfl | trivial⟩
  | some a =>
    have hpd : (proj y).data = some a.inner := by simp [proj, hd]
    simp only [hd] at hey
    simp only [hpd]
    exact data_step c (.seek k) y a hy hd (nextF c n) (IndexedIter.nextF c n) (nextF_couple c n) hey

/-- moving the index and then running `body` on the fresh data iterator -/
theorem index_move_couple (x : EIndexed) (hx : Healthy x) (p : Pos) (p' : Pos) (hp : p' = p)
    (body : EIndexed → EIndexed) (body' : IndexedIter → IndexedIter)
    (hb : ∀ y : EIndexed, Healthy y → (body y).err = none → Healthy (body y) ∧ proj (body y) = body' (proj y))
    (he : (if !({ x with ipos := p } : EIndexed).indexOk then ({ x with ipos := p } : EIndexed).clearData
      else body ({ x with ipos := p } : EIndexed).setData).err = none) :
    Healthy (if !({ x with ipos := p } : EIndexed).indexOk then ({ x with ipos := p } : EIndexed).clearData
      else body ({ x with ipos := p } : EIndexed).setData) ∧
    proj (if !({ x with ipos := p } : EIndexed).indexOk then ({ x with ipos := p } : EIndexed).clearData
      else body ({ x with ipos := p } : EIndexed).setData) =
      (if !({ proj x with ipos := p' } : IndexedIter).indexOk then ({ proj x with ipos := p' } : IndexedIter).clearData
      else body' ({ proj x with ipos := p' } : IndexedIter).setData) := by
  subst hp
  have h1 : ({ proj x with ipos := p' } : IndexedIter) = proj { x with ipos := p' } := rfl
  rw [h1, proj_indexOk]
  cases hk : ({ x with ipos := p' } : EIndexed).indexOk with
  | false =>
    simp only [Bool.not_false, if_true]
    exact ⟨healthy_clearData _ hx, rfl⟩
  | true =>
    simp only [hk, Bool.not_true, Bool.false_eq_true, if_false] at he ⊢
    rw [← proj_setData]
    exact hb _ (healthy_setData _ hx) he

theorem cur_healthy (c : UCmp) (x : EIndexed) (hx : Healthy x) : cur c x = IndexedIter.cur (proj x) := by
  simp only [cur, IndexedIter.cur, proj]
  cases hd : x.data with
  | none => rfl
  | some a =>
    have := hx.2.2 a hd
    simp [FailChild.ops, this, ArrIter.ops]

theorem step_failed (c : UCmp) (cl : Call IKey) (x : EIndexed) (e : Err) (h : x.err = some e) :
    (ops c).toIterOps.step cl x = x := by
  cases cl <;> simp [IterOps.step, ops, first, last, seek, next, prev, guard, h]

/-- **The strict indexed iterator over failing blocks** is a `FailSim`; its twin is the error-free
`IndexedIter` over the same blocks. -/
theorem failSim (c : UCmp) :
    FailSim (ops c) (IndexedIter.ops c) proj Healthy (fun x e => x.err = some e ∧ cur c x = none) where
  herr := fun _ h => h.1
  hcur := fun x h => cur_healthy c x h
  hstep := by
    intro x cl hx he
    cases cl with
    | first =>
      change (first c x).err = none at he
      change Healthy (first c x) ∧ proj (first c x) = IndexedIter.first c (proj x)
      rw [first_eq c x hx.1] at he ⊢
      rw [first_eq', proj_fuel]
      exact index_move_couple x hx _ _ (by simp [proj, Cursor.first_map]) _ _ (nextF_couple c x.fuel) he
    | last =>
      change (last c x).err = none at he
      change Healthy (last c x) ∧ proj (last c x) = IndexedIter.last c (proj x)
      rw [last_eq c x hx.1] at he ⊢
      rw [last_eq', proj_fuel]
      exact index_move_couple x hx _ _ (by simp [proj, Cursor.last_map]) _ _ (lastN_couple c x.fuel) he
    | seek k =>
      change (seek c k x).err = none at he
      change Healthy (seek c k x) ∧ proj (seek c k x) = IndexedIter.seek c k (proj x)
      rw [seek_eq c k x hx.1] at he ⊢
      rw [seek_eq', proj_fuel]
      refine index_move_couple x hx _ _ ?_ _ _ (seekN_couple c k x.fuel) he
      simp only [proj, Cursor.seek_map]
      rfl
    | next =>
      change (next c x).err = none at he
      change Healthy (next c x) ∧ proj (next c x) = IndexedIter.next c (proj x)
      rw [next_eq c x hx.1] at he ⊢
      have := nextF_couple c x.fuel x hx he
      rw [IndexedIter.next, proj_fuel]; exact this
    | prev =>
      change (prev c x).err = none at he
      change Healthy (prev c x) ∧ proj (prev c x) = IndexedIter.prev c (proj x)
      rw [prev_eq c x hx.1] at he ⊢
      have := prevF_couple c x.fuel x hx he
      rw [IndexedIter.prev, proj_fuel]; exact this
  hfail := by
    intro x cl e hx he
    refine ⟨he, ?_⟩
    have hne : (ops c).err ((ops c).toIterOps.step cl x) ≠ none := by rw [he]; simp
    have hd : ∀ y : EIndexed, y.err = none → Dead c (if !y.indexOk then y.clearData else y) := by
      intro y hy; split <;> exact dead_of_ok c _ hy
    cases cl with
    | first =>
      change (first c x).err ≠ none at hne
      change cur c (first c x) = none
      rw [first_eq c x hx.1] at hne ⊢
      revert hne
      split
      · exact dead_of_ok c _ hx.1
      · exact nextF_dead c _ _ hx.1
    | last =>
      change (last c x).err ≠ none at hne
      change cur c (last c x) = none
      rw [last_eq c x hx.1] at hne ⊢
      revert hne
      split
      · exact dead_of_ok c _ hx.1
      · exact lastN_dead c _ _ hx.1
    | seek k =>
      change (seek c k x).err ≠ none at hne
      change cur c (seek c k x) = none
      rw [seek_eq c k x hx.1] at hne ⊢
      revert hne
      split
      · exact dead_of_ok c _ hx.1
      · exact seekN_dead c k _ _ hx.1
    | next =>
      change (next c x).err ≠ none at hne
      change cur c (next c x) = none
      rw [next_eq c x hx.1] at hne ⊢
      exact nextF_dead c _ x hx.1 hne
    | prev =>
      change (prev c x).err ≠ none at hne
      change cur c (prev c x) = none
      rw [prev_eq c x hx.1] at hne ⊢
      exact prevF_dead c _ x hx.1 hne
  ferr := fun _ _ h => h.1
  masked := fun _ _ h => h.2
  sticky := fun x e cl h => by rw [step_failed c cl x e h.1]; exact h

end EIndexed
end GoLevel
