import GoLevel.Model.LSM
import GoLevel.Proofs.Key
/-!
# Order lemmas for the LSM model (`Model/LSM.lean`)

* the user comparer as a linear order (`UCmp.lt`, `UCmp.le`),
* `ecmp` on entries, `ESorted` (= `List.Pairwise (ecmp c · · = .lt)`) and its equivalence with `sortedB`,
* the probe against an entry, `seekEntry` on sorted lists,
* `newest`: recursion equations, characterisation, behaviour under `++`, set-invariance.
Core Lean only.
-/
namespace GoLevel

/-! ## the user comparer as a linear order -/

/-- `a < b` under the user comparer -/
def UCmp.lt (c : UCmp) (a b : Bytes) : Prop := c.cmp a b = .lt
/-- `a ≤ b` under the user comparer -/
def UCmp.le (c : UCmp) (a b : Bytes) : Prop := c.cmp a b ≠ .gt

instance (c : UCmp) (a b : Bytes) : Decidable (c.lt a b) := by unfold UCmp.lt; infer_instance
instance (c : UCmp) (a b : Bytes) : Decidable (c.le a b) := by unfold UCmp.le; infer_instance

theorem bne_gt_iff {c : UCmp} (a b : Bytes) : (c.cmp a b != .gt) = true ↔ c.le a b := by
  simp [UCmp.le]

section ucmp
variable {c : UCmp} (hl : LawfulUCmp c)
include hl

theorem ucmp_eq_iff (a b : Bytes) : c.cmp a b = .eq ↔ a = b :=
  ⟨hl.eq_of a b, fun h => h ▸ hl.refl a⟩

theorem ule_refl (a : Bytes) : c.le a a := by
  simp [UCmp.le, hl.refl]

theorem ult_irrefl (a : Bytes) : ¬ c.lt a a := by
  simp [UCmp.lt, hl.refl]

theorem ult_trans {a b d : Bytes} (h1 : c.lt a b) (h2 : c.lt b d) : c.lt a d := hl.trans a b d h1 h2

theorem ule_iff (a b : Bytes) : c.le a b ↔ c.lt a b ∨ a = b := by
  unfold UCmp.le UCmp.lt
  rw [← ucmp_eq_iff hl a b]
  cases c.cmp a b <;> simp

theorem ule_of_ult {a b : Bytes} (h : c.lt a b) : c.le a b := (ule_iff hl a b).2 (.inl h)

theorem not_ult_iff (a b : Bytes) : ¬ c.lt a b ↔ c.le b a := by
  unfold UCmp.le UCmp.lt
  rw [Ne, hl.gt_iff b a]

theorem not_ule_iff (a b : Bytes) : ¬ c.le a b ↔ c.lt b a := by
  unfold UCmp.le UCmp.lt
  rw [Ne, Classical.not_not, hl.gt_iff a b]

theorem ult_asymm {a b : Bytes} (h : c.lt a b) : ¬ c.lt b a :=
  fun h' => ult_irrefl hl a (ult_trans hl h h')

theorem ult_of_ult_of_ule {a b d : Bytes} (h1 : c.lt a b) (h2 : c.le b d) : c.lt a d := by
  rcases (ule_iff hl b d).1 h2 with h | rfl
  · exact ult_trans hl h1 h
  · exact h1

theorem ult_of_ule_of_ult {a b d : Bytes} (h1 : c.le a b) (h2 : c.lt b d) : c.lt a d := by
  rcases (ule_iff hl a b).1 h1 with h | rfl
  · exact ult_trans hl h h2
  · exact h2

theorem ule_trans {a b d : Bytes} (h1 : c.le a b) (h2 : c.le b d) : c.le a d := by
  rcases (ule_iff hl a b).1 h1 with h | rfl
  · exact ule_of_ult hl (ult_of_ult_of_ule hl h h2)
  · exact h2

theorem ule_antisymm {a b : Bytes} (h1 : c.le a b) (h2 : c.le b a) : a = b := by
  rcases (ule_iff hl a b).1 h1 with h | rfl
  · exact absurd h ((not_ult_iff hl a b).2 h2)
  · rfl

theorem ule_total (a b : Bytes) : c.le a b ∨ c.le b a := by
  by_cases h : c.lt a b
  · exact .inl (ule_of_ult hl h)
  · exact .inr ((not_ult_iff hl a b).1 h)

theorem ult_or_eq_or_gt (a b : Bytes) : c.lt a b ∨ a = b ∨ c.lt b a := by
  by_cases h : c.lt a b
  · exact .inl h
  · exact .inr (((ule_iff hl b a).1 ((not_ult_iff hl a b).1 h)).symm.imp Eq.symm id)

/-- the Boolean tests the Go code performs -/
theorem bne_lt_iff (a b : Bytes) : (c.cmp a b != .lt) = true ↔ c.le b a := by
  rw [← not_ult_iff hl a b]; simp [UCmp.lt]

theorem cmp_gt_iff (a b : Bytes) : c.cmp a b = .gt ↔ c.lt b a := hl.gt_iff a b

theorem cmp_eq_comm (a b : Bytes) : c.cmp a b = .eq ↔ c.cmp b a = .eq := by
  rw [ucmp_eq_iff hl, ucmp_eq_iff hl]; exact eq_comm

end ucmp

/-! ## `ecmp` and sorted entry lists -/

/-- strictly ascending under `ecmp c` -/
abbrev ESorted (c : UCmp) (es : List Entry) : Prop := es.Pairwise (fun a b => ecmp c a b = .lt)

/-- all kinds are `keyTypeDel` or `keyTypeVal` -/
abbrev KindsOK (es : List Entry) : Prop := ∀ e ∈ es, e.kind ≤ Gen.keyTypeVal

theorem Entry.seq_le_of_num_le {a b : Entry} (h : a.key.num ≤ b.key.num) : a.seq ≤ b.seq := by
  simp only [Entry.seq, IKey.seq]; omega

theorem Entry.num_lt_of_seq_lt {a b : Entry} (h : a.seq < b.seq) : a.key.num < b.key.num := by
  simp only [Entry.seq, IKey.seq] at h; omega

section eorder
variable {c : UCmp} (hl : LawfulUCmp c)
include hl

theorem ecmp_lt_iff (a b : Entry) :
    ecmp c a b = .lt ↔ (c.lt a.ukey b.ukey ∨ (a.ukey = b.ukey ∧ b.key.num < a.key.num)) :=
  icmp_order hl a.key b.key

theorem ecmp_trans {a b d : Entry} (h1 : ecmp c a b = .lt) (h2 : ecmp c b d = .lt) : ecmp c a d = .lt :=
  icmp_trans hl _ _ _ h1 h2

theorem ecmp_irrefl (a : Entry) : ecmp c a a ≠ .lt := icmp_irrefl hl a.key

theorem ecmp_ule {a b : Entry} (h : ecmp c a b = .lt) : c.le a.ukey b.ukey := by
  rcases (ecmp_lt_iff hl a b).1 h with h | ⟨h, _⟩
  · exact ule_of_ult hl h
  · rw [h]; exact ule_refl hl _

theorem ecmp_total (a b : Entry) : ecmp c a b = .lt ∨ a.key = b.key ∨ ecmp c b a = .lt :=
  icmp_total hl a.key b.key

theorem sortedB_iff (es : List Entry) : sortedB c es = true ↔ ESorted c es := by
  induction es with
  | nil => simp [sortedB]
  | cons a rest ih =>
    cases rest with
    | nil => simp [sortedB]
    | cons b rest =>
      simp only [sortedB, Bool.and_eq_true, decide_eq_true_eq, ih]
      constructor
      · rintro ⟨hab, hbr⟩
        refine List.pairwise_cons.2 ⟨?_, hbr⟩
        intro x hx
        rcases List.mem_cons.1 hx with rfl | hx
        · exact hab
        · exact ecmp_trans hl hab ((List.pairwise_cons.1 hbr).1 x hx)
      · intro h
        obtain ⟨ha, hbr⟩ := List.pairwise_cons.1 h
        exact ⟨ha b (by simp), hbr⟩

/-- in a sorted list two members with the same internal key are the same entry -/
theorem ESorted.key_inj {es : List Entry} (hs : ESorted c es) {a b : Entry} (ha : a ∈ es) (hb : b ∈ es)
    (h : a.key = b.key) : a = b := by
  induction es with
  | nil => cases ha
  | cons x xs ih =>
    obtain ⟨hx, hxs⟩ := List.pairwise_cons.1 hs
    rcases List.mem_cons.1 ha with rfl | ha' <;> rcases List.mem_cons.1 hb with rfl | hb'
    · rfl
    · have := hx b hb'
      rw [ecmp, h] at this; exact absurd this (icmp_irrefl hl _)
    · have := hx a ha'
      rw [ecmp, ← h] at this; exact absurd this (icmp_irrefl hl _)
    · exact ih hxs ha' hb'

/-- the user keys of a sorted list lie between those of its first and last entry -/
theorem ESorted.head_ule {x : Entry} {xs : List Entry} (hs : ESorted c (x :: xs)) :
    ∀ e ∈ x :: xs, c.le x.ukey e.ukey := by
  intro e he
  rcases List.mem_cons.1 he with rfl | he
  · exact ule_refl hl _
  · exact ecmp_ule hl ((List.pairwise_cons.1 hs).1 e he)

theorem ESorted.ule_getLast {es : List Entry} (hs : ESorted c es) {l : Entry} (hlast : es.getLast? = some l) :
    ∀ e ∈ es, c.le e.ukey l.ukey := by
  obtain ⟨ys, rfl⟩ := List.getLast?_eq_some_iff.1 hlast
  intro e he
  rcases List.mem_append.1 he with h | h
  · exact ecmp_ule hl ((List.pairwise_append.1 hs).2.2 e h l (by simp))
  · have : e = l := by simpa using h
    subst this; exact ule_refl hl _

omit hl in
theorem ESorted.sublist {es es' : List Entry} (h : es'.Sublist es) (hs : ESorted c es) : ESorted c es' :=
  List.Pairwise.sublist h hs

end eorder

/-! ## the probe -/

/-- `e` is an entry of user key `k` visible at sequence `s` -/
def Matches (c : UCmp) (k : Bytes) (s : Nat) (e : Entry) : Prop := c.cmp e.ukey k = .eq ∧ e.seq ≤ s

instance (c : UCmp) (k : Bytes) (s : Nat) (e : Entry) : Decidable (Matches c k s e) := by
  unfold Matches; infer_instance

section probe
variable {c : UCmp} (hl : LawfulUCmp c)
include hl

theorem matches_iff (k : Bytes) (s : Nat) (e : Entry) : Matches c k s e ↔ e.ukey = k ∧ e.seq ≤ s := by
  rw [Matches, ucmp_eq_iff hl]

/-- an entry is below the probe iff its user key is smaller, or equal with a sequence number above `s` -/
theorem lt_probe_iff (e : Entry) (hk : e.kind ≤ Gen.keyTypeVal) (k : Bytes) (s : Nat) :
    icmp c e.key (probe k s) = .lt ↔ (c.lt e.ukey k ∨ (e.ukey = k ∧ s < e.seq)) := by
  rw [icmp_order hl]
  have h1 := keyTypeVal_le_seek
  have h2 := keyTypeSeek_lt
  have hnum : (probe k s).num < e.key.num ↔ s < e.seq := by
    simp only [probe, mkIKey_num, Entry.seq, Entry.kind, IKey.seq, IKey.kind] at *
    omega
  simp only [probe, mkIKey_ukey, Entry.ukey] at *
  rw [← hnum]; rfl

theorem not_lt_probe_iff (e : Entry) (hk : e.kind ≤ Gen.keyTypeVal) (k : Bytes) (s : Nat) :
    (icmp c e.key (probe k s) != .lt) = true ↔ (c.lt k e.ukey ∨ (e.ukey = k ∧ e.seq ≤ s)) := by
  rw [bne_iff_ne, Ne, lt_probe_iff hl e hk]
  constructor
  · intro h
    rcases ult_or_eq_or_gt hl e.ukey k with h1 | h1 | h1
    · exact absurd (.inl h1) h
    · refine .inr ⟨h1, ?_⟩
      exact Nat.le_of_not_lt (fun h2 => h (.inr ⟨h1, h2⟩))
    · exact .inl h1
  · rintro (h | ⟨h1, h2⟩) (h' | ⟨h3, h4⟩)
    · exact ult_asymm hl h h'
    · rw [h3] at h; exact ult_irrefl hl _ h
    · rw [h1] at h'; exact ult_irrefl hl _ h'
    · omega

end probe

/-! ## `newest` -/

/-- the candidate an entry contributes -/
def cand (c : UCmp) (k : Bytes) (s : Nat) (e : Entry) : Option Entry :=
  if c.cmp e.ukey k = .eq ∧ e.seq ≤ s then some e else none

/-- the larger packed number wins, the earlier one on a tie -/
def pickNewer : Option Entry → Option Entry → Option Entry
  | some a, some b => if b.key.num > a.key.num then some b else some a
  | some a, none => some a
  | none, b => b

@[simp] theorem pickNewer_none_left (b : Option Entry) : pickNewer none b = b := rfl
@[simp] theorem pickNewer_none_right (a : Option Entry) : pickNewer a none = a := by cases a <;> rfl

theorem pickNewer_assoc (a b d : Option Entry) :
    pickNewer (pickNewer a b) d = pickNewer a (pickNewer b d) := by
  cases a <;> cases b <;> cases d <;> simp only [pickNewer] <;> grind

/-- the folding function of `newest` -/
def newestStep (c : UCmp) (k : Bytes) (s : Nat) (best : Option Entry) (e : Entry) : Option Entry :=
  if c.cmp e.ukey k = .eq ∧ e.seq ≤ s then
    match best with
    | some b => if e.key.num > b.key.num then some e else best
    | none => some e
  else best

theorem newest_eq_foldl (c : UCmp) (k : Bytes) (s : Nat) (es : List Entry) :
    newest c es k s = es.foldl (newestStep c k s) none := rfl

theorem newestStep_eq (c : UCmp) (k : Bytes) (s : Nat) (best : Option Entry) (e : Entry) :
    newestStep c k s best e = pickNewer best (cand c k s e) := by
  unfold newestStep cand
  by_cases h : c.cmp e.ukey k = .eq ∧ e.seq ≤ s
  · cases best <;> simp [h, pickNewer]
  · cases best <;> simp [h, pickNewer]

theorem newest_foldl (c : UCmp) (k : Bytes) (s : Nat) (es : List Entry) (best : Option Entry) :
    es.foldl (newestStep c k s) best = pickNewer best (newest c es k s) := by
  induction es generalizing best with
  | nil => simp [newest]
  | cons x xs ih =>
    rw [List.foldl_cons, ih, newest_eq_foldl c k s (x :: xs), List.foldl_cons, ih, ← pickNewer_assoc,
      newestStep_eq, newestStep_eq, pickNewer_none_left]

theorem newest_nil (c : UCmp) (k : Bytes) (s : Nat) : newest c [] k s = none := rfl

theorem newest_cons (c : UCmp) (k : Bytes) (s : Nat) (x : Entry) (xs : List Entry) :
    newest c (x :: xs) k s = pickNewer (cand c k s x) (newest c xs k s) := by
  rw [newest_eq_foldl, List.foldl_cons, newest_foldl, newestStep_eq, pickNewer_none_left]

theorem newest_append (c : UCmp) (k : Bytes) (s : Nat) (xs ys : List Entry) :
    newest c (xs ++ ys) k s = pickNewer (newest c xs k s) (newest c ys k s) := by
  induction xs with
  | nil => simp [newest_nil]
  | cons x xs ih => rw [List.cons_append, newest_cons, ih, newest_cons, pickNewer_assoc]

theorem cand_some {c : UCmp} {k : Bytes} {s : Nat} {x e : Entry} (h : cand c k s x = some e) :
    e = x ∧ Matches c k s x := by
  unfold cand at h
  split at h
  · exact ⟨(Option.some.inj h).symm, by assumption⟩
  · exact absurd h (by simp)

theorem cand_of_matches {c : UCmp} {k : Bytes} {s : Nat} {x : Entry} (h : Matches c k s x) :
    cand c k s x = some x := by
  unfold cand; exact if_pos h

theorem cand_of_not_matches {c : UCmp} {k : Bytes} {s : Nat} {x : Entry} (h : ¬ Matches c k s x) :
    cand c k s x = none := by
  unfold cand; exact if_neg h

theorem pickNewer_some {a b : Option Entry} {e : Entry} (h : pickNewer a b = some e) :
    (a = some e ∧ ∀ y, b = some y → y.key.num ≤ e.key.num) ∨
    (b = some e ∧ ∀ x, a = some x → x.key.num < e.key.num) := by
  cases a with
  | none => exact .inr ⟨h, by simp⟩
  | some x =>
    cases b with
    | none => exact .inl ⟨by simpa [pickNewer] using h, by simp⟩
    | some y =>
      simp only [pickNewer] at h
      split at h
      · have := Option.some.inj h; subst this
        exact .inr ⟨rfl, fun x' hx' => by cases hx'; assumption⟩
      · have := Option.some.inj h; subst this
        exact .inl ⟨rfl, fun y' hy' => by cases hy'; omega⟩

theorem pickNewer_eq_none {a b : Option Entry} : pickNewer a b = none ↔ a = none ∧ b = none := by
  cases a <;> cases b <;> simp [pickNewer]
  split <;> simp

theorem newest_eq_none_iff (c : UCmp) (k : Bytes) (s : Nat) (es : List Entry) :
    newest c es k s = none ↔ ∀ e ∈ es, ¬ Matches c k s e := by
  induction es with
  | nil => simp [newest_nil]
  | cons x xs ih =>
    rw [newest_cons, pickNewer_eq_none, ih]
    constructor
    · rintro ⟨h1, h2⟩ e he
      rcases List.mem_cons.1 he with rfl | he
      · intro hm; rw [cand_of_matches hm] at h1; exact absurd h1 (by simp)
      · exact h2 e he
    · intro h
      exact ⟨cand_of_not_matches (h x (by simp)), fun e he => h e (List.mem_cons_of_mem _ he)⟩

/-- `e` is a newest matching entry -/
def IsNewestE (c : UCmp) (es : List Entry) (k : Bytes) (s : Nat) (e : Entry) : Prop :=
  e ∈ es ∧ Matches c k s e ∧ ∀ e' ∈ es, Matches c k s e' → e'.key.num ≤ e.key.num

theorem newest_isNewest (c : UCmp) (k : Bytes) (s : Nat) (es : List Entry) (e : Entry)
    (h : newest c es k s = some e) : IsNewestE c es k s e := by
  induction es generalizing e with
  | nil => simp [newest_nil] at h
  | cons x xs ih =>
    rw [newest_cons] at h
    rcases pickNewer_some h with ⟨h1, h2⟩ | ⟨h1, h2⟩
    · obtain ⟨rfl, hm⟩ := cand_some h1
      refine ⟨by simp, hm, ?_⟩
      intro e' he' hm'
      rcases List.mem_cons.1 he' with rfl | he'
      · exact Nat.le_refl _
      · cases hn : newest c xs k s with
        | none => exact absurd hm' ((newest_eq_none_iff c k s xs).1 hn e' he')
        | some y =>
          have := (ih y hn).2.2 e' he' hm'
          have := h2 y hn
          omega
    · obtain ⟨hm1, hm2, hm3⟩ := ih e h1
      refine ⟨List.mem_cons_of_mem _ hm1, hm2, ?_⟩
      intro e' he' hm'
      rcases List.mem_cons.1 he' with rfl | he'
      · have := h2 e' (cand_of_matches hm'); omega
      · exact hm3 e' he' hm'

theorem newest_mem {c : UCmp} {k : Bytes} {s : Nat} {es : List Entry} {e : Entry}
    (h : newest c es k s = some e) : e ∈ es := (newest_isNewest c k s es e h).1

theorem newest_matches {c : UCmp} {k : Bytes} {s : Nat} {es : List Entry} {e : Entry}
    (h : newest c es k s = some e) : Matches c k s e := (newest_isNewest c k s es e h).2.1

/-- no two different members share user key and packed number -/
def UniqNum (es : List Entry) : Prop :=
  ∀ a ∈ es, ∀ b ∈ es, a.ukey = b.ukey → a.key.num = b.key.num → a = b

/-- no two different members share user key and sequence number (what the write path guarantees) -/
def UniqSeq (es : List Entry) : Prop :=
  ∀ a ∈ es, ∀ b ∈ es, a.ukey = b.ukey → a.seq = b.seq → a = b

instance (es : List Entry) : Decidable (UniqSeq es) := by unfold UniqSeq; infer_instance
instance (es : List Entry) : Decidable (UniqNum es) := by unfold UniqNum; infer_instance

theorem UniqSeq.uniqNum {es : List Entry} (h : UniqSeq es) : UniqNum es := by
  intro a ha b hb hu hn
  exact h a ha b hb hu (by simp only [Entry.seq, IKey.seq, hn])

theorem UniqNum.of_subset {es es' : List Entry} (h : UniqNum es) (hsub : ∀ e ∈ es', e ∈ es) : UniqNum es' :=
  fun a ha b hb => h a (hsub a ha) b (hsub b hb)

theorem UniqSeq.of_subset {es es' : List Entry} (h : UniqSeq es) (hsub : ∀ e ∈ es', e ∈ es) : UniqSeq es' :=
  fun a ha b hb => h a (hsub a ha) b (hsub b hb)

section newestUniq
variable {c : UCmp} (hl : LawfulUCmp c)
include hl

theorem ESorted.uniqNum {es : List Entry} (hs : ESorted c es) : UniqNum es := by
  intro a ha b hb hu hn
  apply ESorted.key_inj hl hs ha hb
  cases ha' : a.key; cases hb' : b.key
  simp only [Entry.ukey, ha', hb'] at hu hn
  simp [hu, hn]

/-- with unique packed numbers, `newest` is determined by the *set* of entries -/
theorem newest_eq_of_isNewest {es : List Entry} (hu : UniqNum es) {k : Bytes} {s : Nat} {e : Entry}
    (h : IsNewestE c es k s e) : newest c es k s = some e := by
  cases hn : newest c es k s with
  | none => exact absurd h.2.1 ((newest_eq_none_iff c k s es).1 hn e h.1)
  | some e' =>
    obtain ⟨h1, h2, h3⟩ := newest_isNewest c k s es e' hn
    have := h3 e h.1 h.2.1
    have := h.2.2 e' h1 h2
    have hk : e'.ukey = e.ukey := by
      rw [((matches_iff hl k s e').1 h2).1, ((matches_iff hl k s e).1 h.2.1).1]
    rw [hu e' h1 e h.1 hk (by omega)]

theorem newest_congr {es es' : List Entry} (hu : UniqNum es) (hmem : ∀ e, e ∈ es ↔ e ∈ es')
    (k : Bytes) (s : Nat) : newest c es k s = newest c es' k s := by
  have hu' : UniqNum es' := hu.of_subset (fun e he => (hmem e).2 he)
  cases hn : newest c es' k s with
  | none =>
    rw [newest_eq_none_iff] at hn ⊢
    exact fun e he => hn e ((hmem e).1 he)
  | some e =>
    obtain ⟨h1, h2, h3⟩ := newest_isNewest c k s es' e hn
    exact newest_eq_of_isNewest hl hu ⟨(hmem e).2 h1, h2, fun e' he' => h3 e' ((hmem e').1 he')⟩

theorem view_congr {es es' : List Entry} (hu : UniqNum es) (hmem : ∀ e, e ∈ es ↔ e ∈ es')
    (k : Bytes) (s : Nat) : view c es k s = view c es' k s := by
  simp only [view, newest_congr hl hu hmem]

end newestUniq

/-! ## sources searched in order -/

/-- Prop form of `newerThanB`: per user key, everything in `newer` has a larger sequence number than
everything in `older` -/
def NewerThan (newer older : List Entry) : Prop :=
  ∀ a ∈ newer, ∀ b ∈ older, a.ukey = b.ukey → b.seq < a.seq

instance (A B : List Entry) : Decidable (NewerThan A B) := by unfold NewerThan; infer_instance

theorem newerThanB_iff {c : UCmp} (hl : LawfulUCmp c) (newer older : List Entry) :
    newerThanB c newer older = true ↔ NewerThan newer older := by
  simp only [newerThanB, List.all_eq_true, Bool.or_eq_true, bne_iff_ne, ne_eq, decide_eq_true_eq,
    NewerThan, ucmp_eq_iff hl]
  constructor
  · intro h a ha b hb hk
    rcases h a ha b hb with h | h
    · exact absurd hk h
    · exact h
  · intro h a ha b hb
    by_cases hk : a.ukey = b.ukey
    · exact .inr (h a ha b hb hk)
    · exact .inl hk

theorem NewerThan.mono {A A' B B' : List Entry} (h : NewerThan A B) (hA : ∀ e ∈ A', e ∈ A)
    (hB : ∀ e ∈ B', e ∈ B) : NewerThan A' B' :=
  fun a ha b hb => h a (hA a ha) b (hB b hb)

theorem NewerThan.append_right {A B C : List Entry} (h1 : NewerThan A B) (h2 : NewerThan A C) :
    NewerThan A (B ++ C) := by
  intro a ha b hb
  rcases List.mem_append.1 hb with hb | hb
  · exact h1 a ha b hb
  · exact h2 a ha b hb

theorem NewerThan.append_left {A B C : List Entry} (h1 : NewerThan A C) (h2 : NewerThan B C) :
    NewerThan (A ++ B) C := by
  intro a ha b hb
  rcases List.mem_append.1 ha with ha | ha
  · exact h1 a ha b hb
  · exact h2 a ha b hb

theorem NewerThan.nil_left (B : List Entry) : NewerThan [] B := fun _ h => by cases h
theorem NewerThan.nil_right (A : List Entry) : NewerThan A [] := fun _ _ _ h => by cases h

/-- a source whose entries are newer shadows the later ones -/
theorem newest_append_of_newer {c : UCmp} (hl : LawfulUCmp c) (A B : List Entry) (h : NewerThan A B)
    (k : Bytes) (s : Nat) : newest c (A ++ B) k s = (newest c A k s).or (newest c B k s) := by
  rw [newest_append]
  cases ha : newest c A k s with
  | none => simp
  | some a =>
    cases hb : newest c B k s with
    | none => simp
    | some b =>
      have hka := ((matches_iff hl k s a).1 (newest_matches ha)).1
      have hkb := ((matches_iff hl k s b).1 (newest_matches hb)).1
      have := h a (newest_mem ha) b (newest_mem hb) (hka.trans hkb.symm)
      have := Entry.num_lt_of_seq_lt this
      show (if _ then _ else _) = some a
      rw [if_neg (by omega)]

/-- searching a list of sources front to back and stopping at the first hit -/
theorem newest_flatten_of_newer {c : UCmp} (hl : LawfulUCmp c) (srcs : List (List Entry))
    (h : srcs.Pairwise NewerThan) (k : Bytes) (s : Nat) :
    newest c srcs.flatten k s = srcs.findSome? (fun S => newest c S k s) := by
  induction srcs with
  | nil => rfl
  | cons S rest ih =>
    obtain ⟨h1, h2⟩ := List.pairwise_cons.1 h
    have hn : NewerThan S rest.flatten := by
      intro a ha b hb
      obtain ⟨T, hT, hbT⟩ := List.mem_flatten.1 hb
      exact h1 T hT a ha b hbT
    rw [List.flatten_cons, newest_append_of_newer hl S _ hn, ih h2, List.findSome?_cons]
    cases newest c S k s <;> rfl

end GoLevel
