import GoLevel.Proofs.JournalWriter
/-! Truncated streams: the reader returns exactly the records that are wholly present. -/
namespace GoLevel.Journal
open GoLevel.Gen (journalBlockSize journalHeaderSize fullChunkType firstChunkType middleChunkType lastChunkType)

local notation "blockSize" => journalBlockSize
local notation "headerSize" => journalHeaderSize

/-- fewer than `headerSize` bytes are left (possibly after the padding at the end of a block): the stream ends -/
theorem nextChunk_short (s c first : Bool) (st : RState)
    (h : st.rest.length < headerSize ∨
      (st.pos + headerSize > blockSize ∧ st.pos ≤ blockSize ∧ st.rest.length < blockSize - st.pos + headerSize)) :
    ∃ st', st'.rest.length < headerSize ∧ nextChunk s c first st = endOfStream s first st' := by
  have h7 := headerSize_eq
  have hlt := headerSize_lt_blockSize
  unfold nextChunk nextChunkLoop
  simp only
  split
  · omega
  · split
    · exact ⟨st, by omega, rfl⟩
    · split
      · exact ⟨st, by simp only [List.length_drop] at *; omega, rfl⟩
      · unfold nextChunkLoop
        simp only [List.length_drop] at *
        split
        · omega
        · split
          · exact ⟨⟨0, _⟩, by simp only [List.length_drop]; omega, rfl⟩
          · omega

theorem decodeLoop_short_none (s c : Bool) (st : RState) (h : st.rest.length < headerSize) :
    decodeLoop s c st none = ⟨[], .eof⟩ := by
  obtain ⟨st', _, e⟩ := nextChunk_short s c true st (Or.inl h)
  exact decodeLoop_eof (cur := none) (by simpa [endOfStream] using e)

/-- header fields as the reader extracts them, whatever follows the header -/
theorem header_fields (ty : Nat) (p t : Bytes) (hty : ty < 256) (hp : p.length < 65536) :
    rd32 (chunkHeader ty p ++ t) = (CRC.crcValue (ty.toUInt8 :: p)).toNat ∧
    rd16 ((chunkHeader ty p ++ t).drop 4) = p.length ∧
    (chunkHeader ty p ++ t).getD 6 0 = ty.toUInt8 ∧
    (ty.toUInt8).toNat = ty := by
  have h := chunk_fields ty p t hty hp
  have e : chunk ty p ++ t = chunkHeader ty p ++ (p ++ t) := by simp [chunk]
  -- the first three fields only look at the header
  have h4 : (le32 (CRC.crcValue (ty.toUInt8 :: p)).toNat).length = 4 := leN_length _ _
  have h2 : (le16 p.length).length = 2 := leN_length _ _
  refine ⟨?_, ?_, ?_, h.2.2.2.1⟩
  · simp only [chunkHeader, List.append_assoc]
    exact rd32_le32 _ _ (UInt32.toNat_lt _)
  · simp only [chunkHeader, List.append_assoc]
    rw [List.drop_left' h4]
    exact rd16_le16 _ _ hp
  · simp only [chunkHeader, List.append_assoc]
    rw [List.getD_eq_getElem?_getD, List.getElem?_append_right (by omega), h4,
      List.getElem?_append_right (by omega), h2]
    simp

theorem chunk_take (ty : Nat) (p : Bytes) (k : Nat) (hk : headerSize ≤ k) :
    (chunk ty p).take k = chunkHeader ty p ++ p.take (k - headerSize) := by
  unfold chunk
  rw [List.take_append, chunkHeader_length, List.take_of_length_le (by rw [chunkHeader_length]; exact hk)]

/-- a chunk whose header is present but whose payload is cut: "chunk length overflows block" -/
theorem parseChunk_partial (s c first : Bool) (pos : Nat) (f l : Bool) (p : Bytes) (k : Nat)
    (hp : p.length < 65536) (hk7 : headerSize ≤ k) (hk : k < headerSize + p.length) :
    parseChunk s c first pos ((chunk (chunkType f l) p).take k) (pos + k) =
      corrupt s k .lengthOverflow false ⟨pos + k, []⟩ := by
  obtain ⟨r1, r2, r3, r4⟩ := chunkType_range f l
  rw [chunk_take _ _ _ hk7]
  obtain ⟨e1, e2, e3, e4⟩ := header_fields (chunkType f l) p (p.take (k - headerSize)) r3 hp
  unfold parseChunk
  simp only [e1, e2, e3, e4]
  rw [if_neg (by omega), if_neg (by omega), if_pos (by omega)]
  have hd : List.drop (pos + k - pos) (chunkHeader (chunkType f l) p ++ List.take (k - headerSize) p) = [] := by
    apply List.drop_eq_nil_of_le
    simp only [List.length_append, chunkHeader_length, List.length_take]; omega
  rw [hd, Nat.add_sub_cancel_left]

theorem nextChunk_pad_partial (s c first : Bool) (pos : Nat) (f l : Bool) (p : Bytes) (k : Nat)
    (hpos : pos ≤ blockSize) (hfit : (pad pos).2 + headerSize + p.length ≤ blockSize)
    (hk7 : headerSize ≤ k) (hk : k < headerSize + p.length) :
    nextChunk s c first ⟨pos, (pad pos).1 ++ (chunk (chunkType f l) p).take k⟩ =
      corrupt s k .lengthOverflow false ⟨(pad pos).2 + k, []⟩ := by
  have h7 := headerSize_eq
  have hlt := headerSize_lt_blockSize
  have h16 := blockSize_lt_u16
  have hp : p.length < 65536 := by omega
  have hlen : ((chunk (chunkType f l) p).take k).length = k := by
    simp only [List.length_take, chunk_length]; omega
  unfold pad at hfit ⊢
  by_cases hpad : pos + headerSize > blockSize
  · simp only [if_pos hpad] at hfit ⊢
    unfold nextChunk nextChunkLoop
    simp only [List.length_append, List.length_replicate, hlen]
    rw [if_neg (by omega), if_neg (by omega)]
    have hdrop : List.drop (pos + min (blockSize - pos) (blockSize - pos + k) - pos)
        (List.replicate (blockSize - pos) (0 : UInt8) ++ (chunk (chunkType f l) p).take k) =
        (chunk (chunkType f l) p).take k := by
      apply List.drop_left'
      simp only [List.length_replicate]; omega
    rw [hdrop, hlen, if_neg (by omega)]
    unfold nextChunkLoop
    simp only [hlen]
    rw [if_pos (by omega)]
    have := parseChunk_partial s c first 0 f l p k hp hk7 hk
    simp only [Nat.zero_add] at this ⊢
    rw [show min (blockSize - 0) k = k by omega, this]
  · simp only [if_neg hpad] at hfit ⊢
    unfold nextChunk nextChunkLoop
    simp only [List.nil_append, hlen]
    rw [if_pos (by omega), show pos + min (blockSize - pos) k = pos + k by omega]
    exact parseChunk_partial s c first pos f l p k hp hk7 hk

/-- what reading a torn record can produce: no record; nothing at all, or one drop
    ("chunk length overflows block" or "missing chunk part" with size 0) which in strict mode is the error -/
def Torn (s : Bool) (r : DecodeResult) : Prop :=
  r = ⟨[], .eof⟩ ∨
  ∃ x w, r = ⟨[.drop x w], if s then .corrupt else .eof⟩ ∧ (w = .lengthOverflow ∨ (w = .missingPart ∧ x = 0))

/-- a cut-off chunk (possibly after complete padding) at the end of the stream -/
theorem torn_chunk (s c : Bool) (cur : Option Bytes) (pos : Nat) (f l : Bool) (p : Bytes) (k : Nat)
    (hpos : pos ≤ blockSize) (hfit : (pad pos).2 + headerSize + p.length ≤ blockSize)
    (hk : k < headerSize + p.length) :
    Torn s (decodeLoop s c ⟨pos, (pad pos).1 ++ (chunk (chunkType f l) p).take k⟩ cur) := by
  have h7 := headerSize_eq
  have hlt := headerSize_lt_blockSize
  by_cases hk7 : headerSize ≤ k
  · have hn := nextChunk_pad_partial s c cur.isNone pos f l p k hpos hfit hk7 hk
    unfold corrupt at hn
    cases s
    · simp only [Bool.false_and, Bool.false_eq_true, if_false] at hn
      rw [decodeLoop_skip hn, decodeLoop_short_none _ _ _ (by simp; omega)]
      exact Or.inr ⟨_, _, rfl, Or.inl rfl⟩
    · simp only [Bool.not_false, Bool.and_self, if_true] at hn
      rw [decodeLoop_corrupt hn]
      exact Or.inr ⟨_, _, rfl, Or.inl rfl⟩
  · have hlen : ((chunk (chunkType f l) p).take k).length = k := by
      simp only [List.length_take, chunk_length]; omega
    have hpadlen : (pad pos).1.length = if pos + headerSize > blockSize then blockSize - pos else 0 := by
      unfold pad; split <;> simp
    obtain ⟨st', hs', e⟩ := nextChunk_short s c cur.isNone
      ⟨pos, (pad pos).1 ++ (chunk (chunkType f l) p).take k⟩ (by
        simp only [List.length_append, hlen, hpadlen]
        by_cases hp : pos + headerSize > blockSize
        · right; simp only [if_pos hp]; omega
        · left; simp only [if_neg hp]; omega)
    unfold endOfStream corrupt at e
    cases cur with
    | none =>
      simp only [Option.isNone_none, Bool.not_true, Bool.false_eq_true, if_false] at e
      rw [decodeLoop_eof (cur := none) e]; exact Or.inl rfl
    | some acc =>
      simp only [Option.isNone_some, Bool.not_false, if_true] at e
      cases s
      · simp only [Bool.false_and, Bool.false_eq_true, if_false] at e
        rw [decodeLoop_skip (cur := some acc) e, decodeLoop_short_none _ _ _ hs']
        exact Or.inr ⟨_, _, rfl, Or.inr ⟨rfl, rfl⟩⟩
      · simp only [Bool.and_self, if_true] at e
        rw [decodeLoop_corrupt (cur := some acc) e]
        exact Or.inr ⟨_, _, rfl, Or.inr ⟨rfl, rfl⟩⟩

theorem restChunks_length_pos (x : Bytes) : headerSize ≤ (restChunks x).1.length := by
  fun_induction restChunks x with
  | case1 x h => simp [chunk_length]
  | case2 x h r ih => simp only [List.length_append, chunk_length]; omega

/-- the stream is cut inside the chunks that follow the first chunk of a record -/
theorem torn_rest (s c : Bool) (x acc : Bytes) (k : Nat) (hk : k < (restChunks x).1.length) :
    Torn s (decodeLoop s c ⟨blockSize, (restChunks x).1.take k⟩ (some acc)) := by
  have h7 := headerSize_eq
  have hlt := headerSize_lt_blockSize
  fun_induction restChunks x generalizing acc k with
  | case1 x h =>
    simp only [chunk_length] at hk
    have := torn_chunk s c (some acc) blockSize false true x k (Nat.le_refl _)
      (by rw [pad_blockSize]; simp only; omega) hk
    simpa [pad_blockSize] using this
  | case2 x h r ih =>
    have hlen : (x.take (blockSize - headerSize)).length = blockSize - headerSize := by
      simp only [List.length_take]; omega
    simp only [List.length_append, chunk_length, hlen] at hk
    rw [List.take_append, chunk_length, hlen]
    by_cases hk1 : k < headerSize + (blockSize - headerSize)
    · have := torn_chunk s c (some acc) blockSize false false (x.take (blockSize - headerSize)) k (Nat.le_refl _)
        (by rw [pad_blockSize]; simp only; omega) (by omega)
      rw [show k - (headerSize + (blockSize - headerSize)) = 0 by omega, List.take_zero, List.append_nil]
      simpa [pad_blockSize] using this
    · rw [List.take_of_length_le (by simp only [chunk_length, hlen]; omega)]
      have hn := nextChunk_boundary_chunk s c false false false (x.take (blockSize - headerSize))
        (r.1.take (k - (headerSize + (blockSize - headerSize)))) (by omega)
      rw [decodeLoop_ok (cur := some acc) (by simpa using hn)]
      simp only [Bool.false_eq_true, if_false, Option.getD_some]
      rw [show headerSize + min (blockSize - headerSize) x.length = blockSize by omega]
      have hk' : k - (headerSize + (blockSize - headerSize)) < r.1.length := by omega
      exact ih _ _ hk'

theorem pad_length (pos : Nat) (hpos : pos ≤ blockSize) : (pad pos).1.length < headerSize := by
  have h7 := headerSize_eq
  unfold pad; split <;> simp <;> omega

theorem emitChunks_length_pos (pos : Nat) (r : Bytes) : headerSize ≤ (emitChunks pos r).1.length := by
  unfold emitChunks; simp only; split
  · simp [chunk_length]
  · simp only [List.length_append, chunk_length]; omega

/-- the stream is cut inside a record -/
theorem torn_record (s c : Bool) (pos : Nat) (r : Bytes) (k : Nat) (hpos : pos ≤ blockSize)
    (hk : k < (emitRecord pos r).1.length) :
    Torn s (decodeLoop s c ⟨pos, (emitRecord pos r).1.take k⟩ none) := by
  have h7 := headerSize_eq
  have hlt := headerSize_lt_blockSize
  have hpl := pad_length pos hpos
  have hpad := pad_pos_le pos hpos
  unfold emitRecord at hk ⊢
  simp only [List.length_append] at hk
  simp only
  rw [List.take_append]
  by_cases hk0 : k ≤ (pad pos).1.length
  · rw [show k - (pad pos).1.length = 0 by omega, List.take_zero, List.append_nil,
      decodeLoop_short_none _ _ _ (by simp only [List.length_take]; omega)]
    exact Or.inl rfl
  · rw [List.take_of_length_le (by omega)]
    unfold emitChunks at hk ⊢
    simp only at hk ⊢
    split
    · rename_i h
      rw [if_pos h] at hk
      simp only [chunk_length] at hk
      exact torn_chunk s c none pos true true r _ hpos (by omega) (by omega)
    · rename_i h
      rw [if_neg h] at hk
      have hlen : (r.take (blockSize - ((pad pos).2 + headerSize))).length = blockSize - ((pad pos).2 + headerSize) := by
        simp only [List.length_take]; omega
      simp only [List.length_append, chunk_length, hlen] at hk
      rw [List.take_append, chunk_length, hlen]
      by_cases hk1 : k - (pad pos).1.length < headerSize + (blockSize - ((pad pos).2 + headerSize))
      · rw [show k - (pad pos).1.length - (headerSize + (blockSize - ((pad pos).2 + headerSize))) = 0 by omega,
          List.take_zero, List.append_nil]
        exact torn_chunk s c none pos true false _ _ hpos (by omega) (by omega)
      · rw [List.take_of_length_le (by simp only [chunk_length, hlen]; omega)]
        have hn := nextChunk_pad_chunk s c true pos true false (r.take (blockSize - ((pad pos).2 + headerSize)))
          ((restChunks (r.drop (blockSize - ((pad pos).2 + headerSize)))).1.take
            (k - (pad pos).1.length - (headerSize + (blockSize - ((pad pos).2 + headerSize))))) hpos (by omega)
        simp only [List.append_assoc] at hn ⊢
        rw [decodeLoop_ok (cur := none) (by simpa using hn)]
        simp only [Bool.false_eq_true, if_false, Option.getD_none, List.nil_append]
        rw [show (pad pos).2 + headerSize + min (blockSize - ((pad pos).2 + headerSize)) r.length = blockSize by omega]
        exact torn_rest s c _ _ _ (by omega)

/-- number of leading records of `rs` (written from offset `pos`) that lie wholly within the first `n` bytes -/
def fits : Nat → List Bytes → Nat → Nat
  | _, [], _ => 0
  | pos, r :: rs, n =>
    if (emitRecord pos r).1.length ≤ n then 1 + fits (emitRecord pos r).2 rs (n - (emitRecord pos r).1.length)
    else 0

theorem fits_le (pos : Nat) (rs : List Bytes) (n : Nat) : fits pos rs n ≤ rs.length := by
  induction rs generalizing pos n with
  | nil => simp [fits]
  | cons r rs ih =>
    simp only [fits, List.length_cons]; split
    · have := ih (emitRecord pos r).2 (n - (emitRecord pos r).1.length); omega
    · omega

theorem fits_spec (pos : Nat) (rs : List Bytes) (n k : Nat) (hk : k ≤ rs.length) :
    k ≤ fits pos rs n ↔ (encodeFrom pos (rs.take k)).length ≤ n := by
  induction rs generalizing pos n k with
  | nil =>
    have : k = 0 := by simpa using hk
    subst this; simp [fits, encodeFrom]
  | cons r rs ih =>
    cases k with
    | zero => simp [encodeFrom]
    | succ k =>
      simp only [List.length_cons] at hk
      simp only [fits, List.take_succ_cons, encodeFrom, List.length_append]
      split
      · rename_i h
        have := ih (emitRecord pos r).2 (n - (emitRecord pos r).1.length) k (by omega)
        omega
      · omega

/-- **Truncation.**  Reading the first `n` bytes of a stream delivers exactly the records that lie wholly
    within these bytes, followed by what the torn record (if any) produces. -/
theorem decodeLoop_truncate (s c : Bool) (pos : Nat) (rs : List Bytes) (n : Nat) (hpos : pos ≤ blockSize) :
    ∃ t, Torn s t ∧ decodeLoop s c ⟨pos, (encodeFrom pos rs).take n⟩ none =
      ⟨(rs.take (fits pos rs n)).map .record ++ t.events, t.final⟩ := by
  have h7 := headerSize_eq
  induction rs generalizing pos n with
  | nil =>
    refine ⟨⟨[], .eof⟩, Or.inl rfl, ?_⟩
    simp only [encodeFrom, List.take_nil, fits, List.map_nil, List.append_nil]
    exact decodeLoop_short_none _ _ _ (by simp; omega)
  | cons r rs ih =>
    simp only [encodeFrom, fits]
    rw [List.take_append]
    split
    · rename_i h
      rw [List.take_of_length_le h, decodeLoop_emitRecord s c pos r _ hpos]
      obtain ⟨t, ht, e⟩ := ih (emitRecord pos r).2 (n - (emitRecord pos r).1.length) (emitRecord_pos pos r hpos).2
      refine ⟨t, ht, ?_⟩
      rw [e]
      simp [DecodeResult.cons, List.take_succ_cons, Nat.add_comm 1]
    · rename_i h
      rw [show n - (emitRecord pos r).1.length = 0 by omega, List.take_zero, List.append_nil]
      have ht := torn_record s c pos r n hpos (by omega)
      exact ⟨_, ht, by simp⟩

end GoLevel.Journal
