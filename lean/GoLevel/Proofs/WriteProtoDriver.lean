import GoLevel.Driver.WriteProto
import GoLevel.Proofs.WriteProtoAppend
/-! Soundness of the trace validator: every candidate model state after an accepted event is reached from a
candidate before it by steps of the transition system (for `call`: from that candidate extended by the
idle thread the call uses). -/
namespace GoLevel.Driver.Wp
open GoLevel GoLevel.WP

theorem advance_sound (ms : List St) (alts : St → List (List Label)) (post : St → Bool) (m' : St)
    (h : m' ∈ advance ms alts post) : ∃ m ∈ ms, Steps m m' := by
  simp only [advance, List.mem_flatMap, List.mem_filter, List.mem_filterMap] at h
  obtain ⟨m, hm, ⟨ls, _, hr⟩, _⟩ := h
  exact ⟨m, hm, run_sound m m' ls hr⟩

theorem finish_ms (v v' : WpState) (ms : List St) (why : String) (h : finish v ms why = .ok v') :
    v'.ms = ms := by
  simp only [finish] at h
  split at h
  · cases h
  · cases h; rfl

/-- the state an event starts from -/
def pre : Ev → St → St
  | .call w mg d, m => addIdle m w mg d
  | _, m => m

theorem same_ms (v v' : WpState) (e : Ev) (h : v'.ms = v.ms) (he : ∀ w mg d, e ≠ .call w mg d) :
    ∀ m' ∈ v'.ms, ∃ m ∈ v.ms, Steps (pre e m) m' := by
  intro m' hm'
  refine ⟨m', h ▸ hm', ?_⟩
  cases e <;> first | exact .refl _ | exact absurd rfl (he _ _ _)

theorem adv_ms (v v' : WpState) (e : Ev) (alts : St → List (List Label)) (post : St → Bool)
    (h : v'.ms = advance v.ms alts post) (he : ∀ w mg d, e ≠ .call w mg d) :
    ∀ m' ∈ v'.ms, ∃ m ∈ v.ms, Steps (pre e m) m' := by
  intro m' hm'
  obtain ⟨m, hm, hs⟩ := advance_sound v.ms alts post m' (h ▸ hm')
  refine ⟨m, hm, ?_⟩
  cases e <;> first | exact hs | exact absurd rfl (he _ _ _)

theorem legalStep_sound (v v' : WpState) (e : Ev) (he : e ≠ .reset) (h : legalStep v e = .ok v') :
    ∀ m' ∈ v'.ms, ∃ m ∈ v.ms, Steps (pre e m) m' := by
  cases e with
  | reset => exact absurd rfl he
  | call w mg d =>
    simp only [legalStep] at h
    split at h
    · cases h
    · have := finish_ms _ _ _ _ h
      intro m' hm'
      rw [this] at hm'
      obtain ⟨m, hm, hs⟩ := advance_sound _ _ _ m' hm'
      simp only [List.mem_map] at hm
      obtain ⟨m0, hm0, rfl⟩ := hm
      exact ⟨m0, hm0, hs⟩
  | leader w =>
    simp only [legalStep] at h
    repeat' split at h
    all_goals first
      | (cases h; done)
      | (have := finish_ms _ _ _ _ h
         intro m' hm'
         rw [this] at hm'
         exact ⟨m', (List.mem_filter.mp hm').1, .refl _⟩)
  | _ =>
    simp only [legalStep] at h
    repeat' split at h
    all_goals first
      | (cases h; done)
      | (cases h; exact same_ms _ _ _ rfl (by intro _ _ _ hh; cases hh))
      | exact adv_ms _ _ _ _ _ (finish_ms _ _ _ _ h) (by intro _ _ _ hh; cases hh)

theorem advance_post (ms : List St) (alts : St → List (List Label)) (post : St → Bool) (m' : St)
    (h : m' ∈ advance ms alts post) : post m' = true := by
  simp only [advance, List.mem_flatMap, List.mem_filter] at h
  obtain ⟨_, _, _, hp⟩ := h
  exact hp

/-- what the `group` check checks: when every call carried its data, an accepted `wp group seq n nb sync`
line means that in every candidate the leader's record has `gn = n`, `batches.length = nb`, `gsync = sync`
(the quantities `C10.group_records_exact` / `C10.group_sync` are about) -/
theorem group_checked (v v' : WpState) (seq n nb : Nat) (sy : Bool) (hx : v.exact = true)
    (h : legalStep v (.group seq n nb (some sy)) = .ok v') :
    ∀ m' ∈ v'.ms, ∃ l, m'.ws[v.lead]? = some l ∧ l.gn = n ∧ l.batches.length = nb ∧ l.gsync = sy := by
  simp only [legalStep] at h
  repeat' split at h
  all_goals first
    | (cases h; done)
    | (have hms := finish_ms _ _ _ _ h
       intro m' hm'
       rw [hms] at hm'
       have hp := advance_post _ _ _ m' hm'
       simp only [hx, Bool.not_true, Bool.false_or, Bool.and_eq_true, recOk, nbOk, syncOk] at hp
       cases hl : m'.ws[v.lead]? with
       | none => simp [hl] at hp
       | some l => simp [hl] at hp; exact ⟨l, rfl, hp.1.1, hp.1.2, hp.2⟩)

/-- every candidate is a reachable state of the transition system -/
def WpReach (v : WpState) : Prop := ∀ m ∈ v.ms, Reachable m

theorem initWp_reach : WpReach initWp := by
  intro m hm
  simp only [initWp, List.mem_singleton] at hm
  subst hm
  refine ⟨initSt, ⟨rfl, rfl, rfl, ?_⟩, .refl _⟩
  intro w hw
  simp only [initSt, List.mem_cons, List.not_mem_nil, or_false] at hw
  rcases hw with rfl | rfl <;> simp [Thread.fresh]

theorem legalStep_reach (v v' : WpState) (e : Ev) (hv : WpReach v) (h : legalStep v e = .ok v') :
    WpReach v' := by
  by_cases he : e = .reset
  · subst he; simp only [legalStep] at h; cases h; exact initWp_reach
  · intro m' hm'
    obtain ⟨m, hm, hs⟩ := legalStep_sound v v' e he h m' hm'
    apply reachable_steps _ _ _ hs
    cases e <;> try exact hv m hm
    exact reachable_append m _ (by simp [Thread.fresh, mirror]) (hv m hm)

/-- an accepted trace: fold of `legalStep` -/
def runEvents (v : WpState) : List Ev → Except String WpState
  | [] => .ok v
  | e :: es => match legalStep v e with
    | .ok v' => runEvents v' es
    | .error why => .error why

/-- **validator soundness**: after any accepted trace every candidate state is a reachable state of the
model; in particular all invariants of C10 hold of it -/
theorem runEvents_reach (es : List Ev) (v v' : WpState) (hv : WpReach v) (h : runEvents v es = .ok v') :
    WpReach v' := by
  induction es generalizing v with
  | nil => simp only [runEvents] at h; cases h; exact hv
  | cons e es ih =>
    simp only [runEvents] at h
    split at h
    · rename_i v1 h1; exact ih v1 (legalStep_reach v v1 e hv h1) h
    · cases h

/-- every candidate runs the configuration `{}` (all flags as in the source, `C10.code_cfg`) -/
def WpCfgOk (v : WpState) : Prop := ∀ m ∈ v.ms, m.cfg = {}

theorem pre_cfg (e : Ev) (m : St) : (pre e m).cfg = m.cfg := by cases e <;> rfl

theorem legalStep_cfg (v v' : WpState) (e : Ev) (hv : WpCfgOk v) (h : legalStep v e = .ok v') : WpCfgOk v' := by
  by_cases he : e = .reset
  · subst he; simp only [legalStep] at h; cases h
    intro m hm
    simp only [initWp, List.mem_singleton] at hm
    subst hm; rfl
  · intro m' hm'
    obtain ⟨m, hm, hs⟩ := legalStep_sound v v' e he h m' hm'
    rw [steps_cfg _ _ hs, pre_cfg, hv m hm]

theorem runEvents_cfg (es : List Ev) (v v' : WpState) (hv : WpCfgOk v) (h : runEvents v es = .ok v') :
    WpCfgOk v' := by
  induction es generalizing v with
  | nil => simp only [runEvents] at h; cases h; exact hv
  | cons e es ih =>
    simp only [runEvents] at h
    split at h
    · rename_i v1 h1; exact ih v1 (legalStep_cfg v v1 e hv h1) h
    · cases h

theorem initWp_cfg : WpCfgOk initWp := by
  intro m hm
  simp only [initWp, List.mem_singleton] at hm
  subst hm; rfl

end GoLevel.Driver.Wp
