import GoLevel.Driver.Conc
import GoLevel.Proofs.ConcSnapsStep
import GoLevel.Proofs.ConcTr
/-!
# The trace validator only ever holds reachable states of the model (with their snapshot list)
-/
namespace GoLevel.Driver
open GoLevel GoLevel.Conc

/-- the validator's state is a state of an execution of the model, together with the real snapshot list -/
def Good (st : ConcState) : Prop := Joint bytewise st.σ st.snl

theorem good_init : Good {} := Joint.init

theorem Good.reachable {st : ConcState} (h : Good st) : Reachable Cfg.real bytewise st.σ := Joint.reachable h

theorem applyAct_good {st st' : ConcState} {a : Action} (hg : Good st) (h : applyAct st a = some st') :
    Good st' ∧ Steps Cfg.real bytewise st.σ st'.σ ∧ st'.sids = st.sids := by
  unfold applyAct at h
  split at h
  · rename_i hp
    split at h
    · rename_i σ' l' h1 h2
      cases h
      have hstep : Step Cfg.real bytewise st.σ a σ' := ⟨h1, guardP_plain _ _ hp⟩
      exact ⟨Joint.step a hg hstep h2, Steps.tail a (Steps.refl _) hstep, rfl⟩
    · cases h
  · cases h

theorem applyCompactId_good {st st' : ConcState} (hg : Good st) (h : applyCompactId st = some st') :
    Good st' ∧ Steps Cfg.real bytewise st.σ st'.σ ∧ st'.sids = st.sids := by
  unfold applyCompactId at h
  split at h
  · rename_i hc
    cases h
    let σ1 : State := { st.σ with comp := some (Conc.minSeq st.σ), floor := Conc.minSeq st.σ }
    have s1 : Step Cfg.real bytewise st.σ .compStart σ1 := by
      refine ⟨?_, trivial⟩
      show doCompStart st.σ = some σ1
      unfold doCompStart
      rw [if_pos hc]
    have hall : σ1.tabs.all (fun e => decide (e ∈ σ1.tabs)) = true :=
      List.all_eq_true.2 (fun e he => decide_eq_true he)
    have s2 : Step Cfg.real bytewise σ1 (.compCommit σ1.tabs)
        { st.σ with comp := none, floor := Conc.minSeq st.σ } := by
      refine ⟨?_, ?_⟩
      · show doCompCommit σ1 σ1.tabs = some _
        unfold doCompCommit
        simp only [σ1, hall]
        rfl
      · intro m _ k s _; rfl
    have j1 := Joint.step (l' := st.snl) .compStart hg s1 rfl
    have j2 := Joint.step (l' := st.snl) (.compCommit σ1.tabs) j1 s2 rfl
    exact ⟨j2, Steps.tail _ (Steps.tail _ (Steps.refl _) s1) s2, rfl⟩
  · cases h

theorem applyD_good {st st' : ConcState} {d : DAct} (hg : Good st) (h : applyD st d = some st') :
    Good st' ∧ Steps Cfg.real bytewise st.σ st'.σ ∧ st'.sids = st.sids := by
  cases d with
  | act a => exact applyAct_good hg h
  | compactId => exact applyCompactId_good hg h

theorem applyDs_good : ∀ (ds : List DAct) {st st' : ConcState}, Good st → applyDs st ds = some st' →
    Good st' ∧ Steps Cfg.real bytewise st.σ st'.σ ∧ st'.sids = st.sids := by
  intro ds
  induction ds with
  | nil => intro st st' hg h; cases h; exact ⟨hg, Steps.refl _, rfl⟩
  | cons d ds ih =>
    intro st st' hg h
    simp only [applyDs] at h
    cases h1 : applyD st d with
    | none => rw [h1] at h; cases h
    | some st1 =>
      rw [h1] at h
      obtain ⟨g1, g2, g3⟩ := applyD_good hg h1
      obtain ⟨k1, k2, k3⟩ := ih g1 h
      exact ⟨k1, Steps.trans g2 k2, by rw [k3, g3]⟩

theorem illegal_ne_ok (m : String) : "illegal " ++ m ≠ "ok" := by
  intro h
  have := congrArg String.length h
  rw [String.length_append] at this
  have h1 : "illegal ".length = 8 := by decide
  have h2 : "ok".length = 2 := by decide
  omega

/-- whatever the plan, running it keeps the state good -/
theorem exec_good {st : ConcState} (p : Plan) (hg : Good st) :
    Good (exec st p).1 ∧ Steps Cfg.real bytewise st.σ (exec st p).1.σ := by
  unfold exec
  split
  · exact ⟨hg, Steps.refl _⟩
  · split
    · exact ⟨hg, Steps.refl _⟩
    · rename_i st' h1
      obtain ⟨g1, g2, _⟩ := applyDs_good _ hg h1
      split
      · exact ⟨hg, Steps.refl _⟩
      · exact ⟨g1, g2⟩

/-- an accepted line ran all the steps of its plan, and the check of the resulting state passed -/
theorem exec_ok {st st' : ConcState} {p : Plan} (h : exec st p = (st', "ok")) :
    ∃ st1, applyDs st p.acts = some st1 ∧ p.post st1 = none ∧ st'.σ = st1.σ := by
  unfold exec at h
  split at h
  · exact absurd (Prod.mk.inj h).2 (illegal_ne_ok _)
  · split at h
    · exact absurd (Prod.mk.inj h).2 (illegal_ne_ok _)
    · rename_i st1 h1
      split at h
      · exact absurd (Prod.mk.inj h).2 (illegal_ne_ok _)
      · rename_i h2
        have := (Prod.mk.inj h).1
        subst this
        exact ⟨st1, h1, h2, rfl⟩

theorem handleConc_good {st st' : ConcState} {args : List String} {out : String} (hg : Good st)
    (h : handleConc st args = some (st', out)) : Good st' := by
  unfold handleConc at h
  split at h
  · rename_i pub
    cases hp : natOf pub with
    | none => simp [hp] at h
    | some p =>
      simp only [hp, Option.bind_eq_bind, Option.bind_some] at h
      split at h
      · cases h; exact good_init
      · split at h
        · rename_i st1 h1
          cases h
          exact (applyAct_good good_init h1).1
        · cases h; exact good_init
  · cases h; exact hg
  · obtain ⟨p, _, he⟩ := Option.map_eq_some_iff.1 h
    have := (exec_good p hg).1
    rw [he] at this; exact this

theorem handleConc_steps {st st' : ConcState} {args : List String} {out : String} (hg : Good st)
    (hnr : args.head? ≠ some "reset") (h : handleConc st args = some (st', out)) :
    Steps Cfg.real bytewise st.σ st'.σ := by
  unfold handleConc at h
  split at h
  · exact absurd rfl hnr
  · cases h; exact Steps.refl _
  · obtain ⟨p, _, he⟩ := Option.map_eq_some_iff.1 h
    have := (exec_good p hg).2
    rw [he] at this; exact this

/-- `C05.read_linearizable`, restated here (the property file imports this one) -/
theorem read_lin (σ : State) (h : Reachable Cfg.real bytewise σ) (i : Nat) (r : Reader)
    (hi : σ.readers[i]? = some r) (k : Bytes) (v : Option Bytes) (hkv : (k, v) ∈ r.results) :
    ∃ s, r.seq? = some s ∧ s ≤ σ.pub ∧ v = view bytewise σ.hist k s
      ∧ ∀ σ', Steps Cfg.real bytewise σ σ' → v = view bytewise σ'.hist k s := by
  have hi' := inv_reachable h
  obtain ⟨s, h1, h2⟩ := (hi'.readers i r hi).results (k, v) hkv
  have hle := (hi'.readers i r hi).seqLe s h1
  refine ⟨s, h1, hle, h2, ?_⟩
  intro σ' hs
  rw [steps_view_stable hi'.basic hs k s hle]; exact h2

/-- **An accepted `rget` line.**  The recorded answer agrees (`answerOk`) with a value `v` that is the last result of
model reader `rid`, and `v` is the value of the key in the history as of the reader's sequence number — now and in
every later state of the run. -/
theorem rget_sound {st st' : ConcState} {rid key ans vid : String} (hg : Good st)
    (h : handleConc st ["rget", rid, key, ans, vid] = some (st', "ok")) :
    ∃ (i : Nat) (k : Bytes) (r : Reader) (s : Nat) (val v : Option Bytes),
      natOf rid = some i ∧ fromHex key = some k ∧ parseVal vid = some val ∧
      st'.σ.readers[i]? = some r ∧ r.seq? = some s ∧ s ≤ st'.σ.pub ∧
      answerOk ans val v = true ∧
      v = view bytewise st'.σ.hist k s ∧
      ∀ σ'', Steps Cfg.real bytewise st'.σ σ'' → v = view bytewise σ''.hist k s := by
  have h0 : handleConc st ["rget", rid, key, ans, vid] = (plan st ["rget", rid, key, ans, vid]).map (exec st) := rfl
  rw [h0] at h
  cases hi : natOf rid with
  | none => simp [plan, hi] at h
  | some i =>
    cases hk : fromHex key with
    | none => simp [plan, hi, hk] at h
    | some k =>
      cases hv : parseVal vid with
      | none => simp [plan, hi, hk, hv] at h
      | some val =>
        simp only [plan, hi, hk, hv, Option.bind_eq_bind, Option.bind_some, Option.map_some, Option.pure_def,
          Option.some.injEq] at h
        obtain ⟨st1, h1, h2, h3⟩ := exec_ok h
        simp only [acts, List.map_cons, List.map_nil, applyDs, applyD] at h1
        cases ha : applyAct st (.rLookup i k) with
        | none => rw [ha] at h1; cases h1
        | some st2 =>
          rw [ha] at h1
          simp only [Option.bind_some] at h1
          obtain rfl : st2 = st1 := Option.some.inj h1
          obtain ⟨g1, _, _⟩ := applyAct_good hg ha
          -- the step
          have hstep : doRLookup bytewise st.σ i k = some st2.σ := by
            unfold applyAct at ha
            split at ha
            · split at ha
              · rename_i σ' l' q1 q2
                cases ha; exact q1
              · cases ha
            · cases ha
          obtain ⟨r0, s, mf, ver, q1, q2, q3, q4, q5⟩ := doRLookup_some hstep
          have hlt : i < st.σ.readers.length := by
            apply Nat.lt_of_not_le; intro hle
            rw [List.getElem?_eq_none hle] at q1; cases q1
          have hr : st2.σ.readers[i]? =
              some { r0 with results := r0.results ++ [(k, view bytewise (readSrc st.σ mf ver) k s)] } := by
            rw [q5]; show (st.σ.readers.set i _)[i]? = _
            rw [List.getElem?_set]; simp [hlt]
          simp only [hr, List.getLast?_concat] at h2
          split at h2
          · rename_i hok
            obtain ⟨s', p1, p2, p3, p4⟩ := read_lin st2.σ g1.reachable i _ hr k
              (view bytewise (readSrc st.σ mf ver) k s) (List.mem_append_right _ List.mem_cons_self)
            exact ⟨i, k, _, s', val, _, rfl, rfl, rfl, by rw [h3]; exact hr, p1, by rw [h3]; exact p2, hok,
              by rw [h3]; exact p3, by rw [h3]; exact p4⟩
          · cases h2
/-! ## whole traces -/

/-- the pure part of `gldriver`'s loop on `conc` lines -/
def feed : ConcState → List (List String) → ConcState × List String
  | st, [] => (st, [])
  | st, l :: ls =>
    match handleConc st l with
    | some (st', out) => ((feed st' ls).1, out :: (feed st' ls).2)
    | none => ((feed st ls).1, "bad-op" :: (feed st ls).2)

theorem feed_good : ∀ (ls : List (List String)) {st : ConcState}, Good st → Good (feed st ls).1 := by
  intro ls
  induction ls with
  | nil => intro st hg; exact hg
  | cons l ls ih =>
    intro st hg
    simp only [feed]
    split
    · rename_i st' out h1
      exact ih (handleConc_good hg h1)
    · exact ih hg

theorem feed_steps : ∀ (ls : List (List String)) {st : ConcState}, Good st →
    (∀ l ∈ ls, l.head? ≠ some "reset") → Steps Cfg.real bytewise st.σ (feed st ls).1.σ := by
  intro ls
  induction ls with
  | nil => intro st _ _; exact Steps.refl _
  | cons l ls ih =>
    intro st hg hnr
    simp only [feed]
    split
    · rename_i st' out h1
      exact Steps.trans (handleConc_steps hg (hnr l List.mem_cons_self) h1)
        (ih (handleConc_good hg h1) (fun x hx => hnr x (List.mem_cons_of_mem _ hx)))
    · exact ih hg (fun x hx => hnr x (List.mem_cons_of_mem _ hx))

theorem feed_length : ∀ (ls : List (List String)) (st : ConcState), (feed st ls).2.length = ls.length := by
  intro ls
  induction ls with
  | nil => intro st; rfl
  | cons l ls ih =>
    intro st
    simp only [feed]
    split <;> simp [ih]

theorem feed_append : ∀ (a b : List (List String)) (st : ConcState),
    feed st (a ++ b) = ((feed (feed st a).1 b).1, (feed st a).2 ++ (feed (feed st a).1 b).2) := by
  intro a
  induction a with
  | nil => intro b st; rfl
  | cons l a ih =>
    intro b st
    simp only [List.cons_append, feed]
    split <;> simp [ih]

end GoLevel.Driver
