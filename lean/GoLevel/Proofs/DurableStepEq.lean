import GoLevel.Proofs.DurableStepJ4
/-!
Equations for `stepJob` (fault-free, good configuration), one per pc, with the successor state in the form
the frame lemmas expect.
-/
namespace GoLevel.Dur

theorem stepJob_append_normal {cfg : Cfg} (hg : cfg.Good) {s : St} {d : Disk} {j : Job} {e : MRec} {m : Nat}
    (hpc : j.pc = .append) (he : j.edit = some e) (hopen : s.manifestOpen = true) (hm : s.manifestFd = some m)
    (hmf : s.manifestFailed = false) :
    stepJob cfg s d j false .ok =
      some ({ s with job := some { j with pc := .sync } },
            { d with manifests := d.manifests.modify m (·.append { e with nf := s.nextFile }) }) := by
  simp [stepJob, hpc, he, hopen, hm, hmf, hg.esbjr, Disk.exec, Disk.apply, Outcome.failed]

theorem stepJob_append_rotate {cfg : Cfg} {s : St} {d : Disk} {j : Job} {e : MRec} {rot : Bool}
    (hpc : j.pc = .append) (he : j.edit = some e)
    (hrot : rot = true ∨ s.manifestOpen = false ∨ s.manifestFailed = true) :
    stepJob cfg s d j rot .ok =
      some ({ s with job := some { j with pc := .rotWrite s.nextFile }, nextFile := s.nextFile + 1 },
            { d with manifests := d.manifests.set s.nextFile {} }) := by
  have : (rot = true ∨ ¬ s.manifestOpen = true ∨ s.manifestFailed = true) := by
    rcases hrot with h | h | h
    · exact Or.inl h
    · exact Or.inr (Or.inl (by rw [h]; simp))
    · exact Or.inr (Or.inr h)
  simp only [stepJob, hpc, he, if_pos this, Disk.exec, Disk.apply, Outcome.failed, Bool.false_eq_true, if_false]

theorem stepJob_rotWrite {cfg : Cfg} (hg : cfg.Good) {s : St} {d : Disk} {j : Job} {e : MRec} {m : Nat} {rot : Bool}
    (hpc : j.pc = .rotWrite m) (he : j.edit = some e) :
    stepJob cfg s d j rot .ok =
      some ({ s with job := some { j with pc := .rotSync m } },
            { d with manifests := d.manifests.modify m (·.append (snapshotRec cfg s e)) }) := by
  simp [stepJob, hpc, he, hg.msbsm, Disk.exec, Disk.apply, Outcome.failed]

theorem stepJob_rotSync {cfg : Cfg} (hg : cfg.Good) {s : St} {d : Disk} {j : Job} {m : Nat} {rot : Bool}
    (hpc : j.pc = .rotSync m) :
    stepJob cfg s d j rot .ok =
      some ({ s with job := some { j with pc := .rotSetMeta m } },
            { d with manifests := d.manifests.modify m (·.sync) }) := by
  simp [stepJob, hpc, hg.msbsm, Disk.exec, Disk.apply, Outcome.failed]

theorem stepJob_rotSetMeta {cfg : Cfg} (hg : cfg.Good) {s : St} {d : Disk} {j : Job} {m : Nat} {rot : Bool}
    (hpc : j.pc = .rotSetMeta m) :
    stepJob cfg s d j rot .ok =
      some ({ s with job := some { j with pc := .rotRemove m }, limbo := none }, { d with current := some m }) := by
  simp [stepJob, hpc, hg.msbsm, Disk.exec, Disk.apply, Outcome.failed]

theorem stepJob_rotRemove {cfg : Cfg} {s : St} {d : Disk} {j : Job} {m : Nat} {rot : Bool}
    (hpc : j.pc = .rotRemove m) :
    stepJob cfg s d j rot .ok =
      some ({ s with manifestFd := some m, manifestOpen := true, manifestFailed := false, limbo := none,
                     job := some { j with pc := .install } },
            match s.manifestFd with
            | some old => { d with manifests := d.manifests.erase old }
            | none => d) := by
  cases h : s.manifestFd <;> simp [stepJob, hpc, h, Disk.exec, Disk.apply, Outcome.failed]

theorem stepJob_sync {cfg : Cfg} {s : St} {d : Disk} {j : Job} {m : Nat} {rot : Bool}
    (hpc : j.pc = .sync) (hm : s.manifestFd = some m) :
    stepJob cfg s d j rot .ok =
      some ({ s with job := some { j with pc := .install } },
            { d with manifests := d.manifests.modify m (·.sync) }) := by
  simp [stepJob, hpc, hm, Disk.exec, Disk.apply, Outcome.failed]

/-- the job after `install`: a recovery's last commit also collects what `checkAndCleanFiles` removes -/
def installJob (s : St) (d : Disk) (j : Job) (e : MRec) : Job :=
  if j.kind = .recovFinal then
    { j with pc := .rmJ (j.rmJournals ++ d.journals.nums.filter (· < s.jcur)),
             rmTables := d.tables.nums.filter fun t => !((applyEdit s.live e).contains t) }
  else { j with pc := .rmJ j.rmJournals }

theorem stepJob_install {cfg : Cfg} {s : St} {d : Disk} {j : Job} {e : MRec} {rot : Bool}
    (hpc : j.pc = .install) (he : j.edit = some e) :
    stepJob cfg s d j rot .ok =
      some ({ s with live := applyEdit s.live e, stJn := e.jn.getD s.stJn, stSq := e.sq.getD s.stSq,
                     job := some (installJob s d j e) }, d) := by
  unfold installJob
  cases hk : j.kind <;> simp [stepJob, hpc, he, hk, install] <;> rfl

theorem stepJob_mkJournal {cfg : Cfg} {s : St} {d : Disk} {j : Job} {n : Nat} {rot : Bool}
    (hpc : j.pc = .mkJournal) (hn : j.mkJournal = some n) (he : j.edit.isSome = true) :
    stepJob cfg s d j rot .ok =
      some ({ s with jcur := n, job := some { j with pc := .append } },
            { d with journals := d.journals.set n {} }) := by
  simp [stepJob, hpc, hn, he, Disk.exec, Disk.apply, Outcome.failed]

theorem stepJob_rmJ_cons {cfg : Cfg} {s : St} {d : Disk} {j : Job} {n : Nat} {rest : List Nat} {rot : Bool}
    (hpc : j.pc = .rmJ (n :: rest)) :
    stepJob cfg s d j rot .ok =
      some ({ s with job := some { j with pc := .rmJ rest } }, { d with journals := d.journals.erase n }) := by
  simp [stepJob, hpc, Disk.exec, Disk.apply]

theorem stepJob_rmJ_nil {cfg : Cfg} {s : St} {d : Disk} {j : Job} {rot : Bool} (hpc : j.pc = .rmJ []) :
    stepJob cfg s d j rot .ok = some ({ s with job := some { j with pc := .rmT j.rmTables } }, d) := by
  simp [stepJob, hpc]

theorem stepJob_rmT_cons {cfg : Cfg} {s : St} {d : Disk} {j : Job} {n : Nat} {rest : List Nat} {rot : Bool}
    (hpc : j.pc = .rmT (n :: rest)) :
    stepJob cfg s d j rot .ok =
      some ({ s with job := some { j with pc := .rmT rest } }, { d with tables := d.tables.erase n }) := by
  simp [stepJob, hpc, Disk.exec, Disk.apply]

theorem stepJob_rmT_nil {cfg : Cfg} {s : St} {d : Disk} {j : Job} {rot : Bool} (hpc : j.pc = .rmT []) :
    stepJob cfg s d j rot .ok =
      some ({ s with job := some { j with pc :=
        if j.kind = .recovFinal then JPc.rmM (d.manifests.nums.filter fun m => m < s.manifestFd.getD 0)
        else JPc.done } }, d) := by
  cases hk : j.kind <;> simp [stepJob, hpc, hk]

theorem stepJob_rmM_cons {cfg : Cfg} {s : St} {d : Disk} {j : Job} {n : Nat} {rest : List Nat} {rot : Bool}
    (hpc : j.pc = .rmM (n :: rest)) :
    stepJob cfg s d j rot .ok =
      some ({ s with job := some { j with pc := .rmM rest } }, { d with manifests := d.manifests.erase n }) := by
  simp [stepJob, hpc, Disk.exec, Disk.apply]

theorem stepJob_rmM_nil {cfg : Cfg} {s : St} {d : Disk} {j : Job} {rot : Bool} (hpc : j.pc = .rmM []) :
    stepJob cfg s d j rot .ok = some ({ s with job := some { j with pc := .done } }, d) := by
  simp [stepJob, hpc]

theorem stepJob_done {cfg : Cfg} {s : St} {d : Disk} {j : Job} {rot : Bool} (hpc : j.pc = .done) :
    stepJob cfg s d j rot .ok = some (finishJob s j, d) := by
  simp [stepJob, hpc]

end GoLevel.Dur
