import GoLevel.Proofs.BlockIterTop
import GoLevel.Proofs.BlockIterDeg
import GoLevel.Proofs.TableRange
/-!
# `newBlockIter` with a `util.Range`: the sliced iterator refines the cursor over the slice

`sliceBlock` / `sliceIndex` (`Model/Table.lean`) are the pairs a data-block iterator (`inclLimit = false`) / the
index iterator (`inclLimit = true`) is meant to keep.  `newBlockIter` finds the bounds with `Seek` (+ `Next`);
this file shows the fields it sets describe exactly that slice (`Mid`), whatever the restart interval, and that
the iterator then answers every call sequence like the cursor over it.
-/
namespace GoLevel.C13
open GoLevel GoLevel.TableR

variable {b : BlockR} {kvs : List KV} {off : Nat → Nat} {R : Nat} {rs : Nat → Nat}
variable {cmp : Bytes → Bytes → Ordering}

/-! ## lists -/

/-- "key below `k`" -/
def belowK (cmp : Bytes → Bytes → Ordering) (k : Bytes) (e : KV) : Bool := cmp e.1 k == .lt

theorem findIdx?_geK (k : Bytes) (l : List KV) :
    l.findIdx? (geK cmp k) =
      if (l.takeWhile (belowK cmp k)).length < l.length then some (l.takeWhile (belowK cmp k)).length else none := by
  induction l with
  | nil => simp
  | cons a t ih =>
    rw [List.findIdx?_cons]
    by_cases h : cmp a.1 k = .lt
    · have h1 : geK cmp k a = false := by simp [geK, h]
      have h2 : belowK cmp k a = true := by simp [belowK, h]
      rw [h1, List.takeWhile_cons_of_pos h2, ih]
      simp only [Bool.false_eq_true, if_false, List.length_cons]
      split
      · rw [if_pos (by omega)]; simp
      · rw [if_neg (by omega)]; simp
    · have h1 : geK cmp k a = true := by simp [geK, h]
      have h2 : ¬ (belowK cmp k a = true) := by simp [belowK, h]
      rw [h1, List.takeWhile_cons_of_neg h2]
      simp

theorem seek_eq (k : Bytes) (l : List KV) :
    Cursor.seek l (geK cmp k) =
      if (l.takeWhile (belowK cmp k)).length < l.length then .at (l.takeWhile (belowK cmp k)).length else .eoi := by
  unfold Cursor.seek
  rw [findIdx?_geK]
  by_cases h : (l.takeWhile (belowK cmp k)).length < l.length <;> simp [h]

theorem takeWhile_length_le {α : Type} (p : α → Bool) (l : List α) : (l.takeWhile p).length ≤ l.length := by
  induction l with
  | nil => simp
  | cons a t ih => rw [List.takeWhile_cons]; split <;> simp; omega

theorem drop_takeWhile {α : Type} (p : α → Bool) (l : List α) : l.drop (l.takeWhile p).length = l.dropWhile p := by
  induction l with
  | nil => simp
  | cons a t ih =>
    rw [List.takeWhile_cons, List.dropWhile_cons]
    split <;> simp [ih]

theorem take_takeWhile {α : Type} (p : α → Bool) (l : List α) : l.take (l.takeWhile p).length = l.takeWhile p := by
  induction l with
  | nil => simp
  | cons a t ih =>
    rw [List.takeWhile_cons]
    split <;> simp [ih]

theorem take_succ_takeWhile {α : Type} (p : α → Bool) (l : List α) :
    l.take ((l.takeWhile p).length + 1) = l.takeWhile p ++ (l.dropWhile p).take 1 := by
  induction l with
  | nil => simp
  | cons a t ih =>
    rw [List.takeWhile_cons, List.dropWhile_cons]
    split
    · simp [ih]
    · simp

theorem IsSlice.of_drop_take (kvs : List KV) {lo hi : Nat} (h1 : lo ≤ hi) (h2 : hi ≤ kvs.length) :
    IsSlice kvs ((kvs.drop lo).take (hi - lo)) lo hi where
  len := by rw [List.length_take, List.length_drop]; omega
  get := fun i hi' => by
    rw [List.getElem?_take, if_pos hi', List.getElem?_drop]
    exact getElem?_kv (by omega)

/-! ## the stages of `newBlockIter` -/

/-- an iterator whose slice fields describe `[lo, hi)` / `[q0, q1)` and that `Seek` and `reset` can take -/
structure Mid (kvs : List KV) (off : Nat → Nat) (R : Nat) (rs : Nat → Nat) (it : BIter) (lo hi q0 q1 : Nat) :
    Prop where
  cfg : HasCfg off rs it lo hi q0 q1
  slice : SliceCfg kvs R rs lo hi q0 q1
  err : it.err = none
  dirs : it.dir = .soi ∨ it.dir = .eoi ∨ it.dir = .forward ∨ it.dir = .backward
  node : it.dir = .backward ∨ it.prevNode = []
  keys : it.dir = .backward ∨ it.prevKeys = []

theorem Mid.new (L : Layout b kvs off R rs) : Mid kvs off R rs (BIter.new b) 0 kvs.length 0 R :=
  ⟨(rel_new L).cfg, SliceCfg.whole L, rfl, Or.inl rfl, Or.inr rfl, Or.inr rfl⟩

/-- `reset` and the range check leave a sliced iterator at the start of its slice -/
theorem Mid.finish (L : Layout b kvs off R rs) {it : BIter} {lo hi q0 q1 : Nat}
    (M : Mid kvs off R rs it lo hi q0 q1) : Rel kvs off rs lo hi q0 q1 it.finishSlice .soi := by
  have hc := M.cfg.dropCache
  have hle : ¬ (it.reset.offsetStart > it.reset.offsetLimit) := by
    show ¬ (it.dropCache.offsetStart > it.dropCache.offsetLimit)
    rw [hc.offsetStart, hc.limit]
    have h1 := L.off_le M.slice.q0lo (by have := M.slice.lohi; have := M.slice.hin; omega)
    have h2 := L.off_le M.slice.lohi M.slice.hin
    omega
  unfold BIter.finishSlice
  simp only
  rw [if_neg hle]
  exact ⟨⟨hc.riStart, hc.riLimit, hc.offsetStart, hc.real, hc.limit⟩, by show it.dropCache.err = none; simpa using M.err,
    rfl, dc_node it M.node, dc_keys it M.keys⟩

/-- `Seek` from a `Mid` iterator -/
theorem Mid.seek (L : Layout b kvs off R rs) (hc : LawfulCmp cmp) (hsorted : StrictSorted cmp kvs)
    {it : BIter} {lo hi q0 q1 : Nat} (M : Mid kvs off R rs it lo hi q0 q1) (key : Bytes) :
    let t := (((kvs.drop lo).take (hi - lo)).takeWhile (belowK cmp key)).length
    (t < hi - lo → (BIter.seek cmp b key it).1 = true ∧
      Fwd kvs off rs (BIter.seek cmp b key it).2 q0 q1 (lo + t)) ∧
    (¬ t < hi - lo → (BIter.seek cmp b key it).1 = false) ∧
    Mid kvs off R rs (BIter.seek cmp b key it).2 lo hi q0 q1 := by
  intro t
  have X := IsSlice.of_drop_take kvs M.slice.lohi M.slice.hin
  obtain ⟨hrel, hok, hdir⟩ := seek_ready L hc hsorted M.slice X key M.cfg M.err M.dirs M.node M.keys
  rw [seek_eq, X.len] at hrel hok
  refine ⟨?_, ?_, ⟨hrel.cfg, M.slice, hrel.err, hrel.dirs, hrel.cache.1, hrel.cache.2.1⟩⟩
  · intro ht
    rw [if_pos ht] at hrel hok
    refine ⟨hok, ?_⟩
    rcases hrel.pos.2 with f | f
    · exact f
    · exact absurd f.dir hdir
  · intro ht
    rw [if_neg ht] at hok
    exact hok

/-- the `slice.Start` block: the first key not below `s` exists -/
theorem applyStart_found (L : Layout b kvs off R rs) (hc : LawfulCmp cmp) (hsorted : StrictSorted cmp kvs)
    (s : Bytes) (hlt : (kvs.takeWhile (belowK cmp s)).length < kvs.length) :
    ∃ q0, Mid kvs off R rs ((BIter.new b).applyStart cmp b s) (kvs.takeWhile (belowK cmp s)).length
      kvs.length q0 R := by
  obtain ⟨hfound, _, M⟩ := (Mid.new L).seek (cmp := cmp) L hc hsorted s
  simp only [List.drop_zero, Nat.sub_zero, List.take_length, Nat.zero_add] at hfound
  obtain ⟨hok, f⟩ := hfound hlt
  generalize hlo : (kvs.takeWhile (belowK cmp s)).length = lo at *
  obtain ⟨q0, hq, hrq, hq0R, hq0lo, hq0nx⟩ := restartIndex_spec L f.rhi (Nat.le_refl R) (by omega : lo ≤ kvs.length) f.rc
  rw [← f.prevOffset, ← L.rlen] at hq
  have hseek : BIter.seek cmp b s (BIter.new b) = (true, (BIter.seek cmp b s (BIter.new b)).2) :=
    Prod.ext hok rfl
  refine ⟨q0, ?_⟩
  unfold BIter.applyStart
  rw [hseek]
  simp only
  rw [hq]
  simp only
  exact
    { cfg := ⟨rfl, M.cfg.riLimit, L.roff q0 hq0R, f.prevOffset, M.cfg.limit⟩
      slice :=
        { lohi := by omega
          hin := Nat.le_refl _
          q01 := hq0R
          q1R := Nat.le_refl _
          q0lo := hq0lo
          q0max := fun q h1 h2 => by
            have := hq0nx (by omega)
            have := L.rs_le (p := q0 + 1) (q := q) (by omega) h2
            omega
          q1hi := L.rs_le_len (by omega) }
      err := M.err
      dirs := M.dirs
      node := M.node
      keys := M.keys }

/-- `reset` and the range check on an iterator sliced to nothing -/
theorem deg_finish {it : BIter} (h1 : it.riStart = b.restartsLen) (h2 : it.riLimit = b.restartsLen)
    (h3 : it.offsetStart = b.restartsOffset) (h4 : it.offsetRealStart = b.restartsOffset)
    (h5 : it.offsetLimit = b.restartsOffset) (h6 : it.err = none) : Deg b it.finishSlice .soi := by
  have hle : ¬ (it.reset.offsetStart > it.reset.offsetLimit) := by
    show ¬ (it.dropCache.offsetStart > it.dropCache.offsetLimit)
    simp [h3, h5]
  unfold BIter.finishSlice
  simp only
  rw [if_neg hle]
  exact ⟨by show it.dropCache.riStart = _; simpa using h1, by show it.dropCache.riLimit = _; simpa using h2,
    by show it.dropCache.offsetStart = _; simpa using h3, by show it.dropCache.offsetRealStart = _; simpa using h4,
    by show it.dropCache.offsetLimit = _; simpa using h5, by show it.dropCache.err = _; simpa using h6,
    Or.inl ⟨rfl, rfl⟩⟩

/-- the `slice.Start` block when every key is below `s` -/
theorem applyStart_missing_eq (L : Layout b kvs off R rs) (hc : LawfulCmp cmp) (hsorted : StrictSorted cmp kvs)
    (s : Bytes) (hlt : ¬ (kvs.takeWhile (belowK cmp s)).length < kvs.length) :
    (BIter.new b).applyStart cmp b s =
      { (BIter.seek cmp b s (BIter.new b)).2 with
        riStart := b.restartsLen, offsetStart := b.restartsOffset, offsetRealStart := b.restartsOffset } := by
  obtain ⟨_, hmiss, _⟩ := (Mid.new L).seek (cmp := cmp) L hc hsorted s
  simp only [List.drop_zero, Nat.sub_zero, List.take_length] at hmiss
  have hok := hmiss hlt
  have hseek : BIter.seek cmp b s (BIter.new b) = (false, (BIter.seek cmp b s (BIter.new b)).2) :=
    Prod.ext hok rfl
  unfold BIter.applyStart
  rw [hseek]

/-- the `slice.Start` block: every key is below `s` -/
theorem applyStart_missing (L : Layout b kvs off R rs) (hc : LawfulCmp cmp) (hsorted : StrictSorted cmp kvs)
    (s : Bytes) (hlt : ¬ (kvs.takeWhile (belowK cmp s)).length < kvs.length) :
    Deg b ((BIter.new b).applyStart cmp b s).finishSlice .soi := by
  obtain ⟨_, _, M⟩ := (Mid.new L).seek (cmp := cmp) L hc hsorted s
  rw [applyStart_missing_eq L hc hsorted s hlt]
  exact deg_finish rfl (by show (BIter.seek cmp b s (BIter.new b)).2.riLimit = _; rw [M.cfg.riLimit, L.rlen]) rfl rfl
    (by show (BIter.seek cmp b s (BIter.new b)).2.offsetLimit = _; rw [M.cfg.limit, L.offN]) M.err

/-- the `slice.Limit` block -/
theorem applyLimit_mid (L : Layout b kvs off R rs) (hc : LawfulCmp cmp) (hsorted : StrictSorted cmp kvs)
    {it : BIter} {lo q0 : Nat} (M : Mid kvs off R rs it lo kvs.length q0 R) (l : Bytes) (incl : Bool) :
    ∃ q1, Mid kvs off R rs (it.applyLimit cmp b l incl) lo
      (if incl then min (lo + ((kvs.drop lo).takeWhile (belowK cmp l)).length + 1) kvs.length
       else lo + ((kvs.drop lo).takeWhile (belowK cmp l)).length) q0 q1 := by
  have hlen : (kvs.drop lo).length = kvs.length - lo := List.length_drop
  have htle := takeWhile_length_le (belowK cmp l) (kvs.drop lo)
  obtain ⟨hfound, hmiss, M2⟩ := M.seek (cmp := cmp) L hc hsorted l
  have htk : (kvs.drop lo).take (kvs.length - lo) = kvs.drop lo := by
    rw [← hlen, List.take_length]
  simp only [htk] at hfound hmiss
  generalize ht : ((kvs.drop lo).takeWhile (belowK cmp l)).length = t at *
  have hri : it.riStart < b.restartsLen := by
    rw [M.cfg.riStart, L.rlen]; have := M.slice.q01; omega
  unfold BIter.applyLimit
  rw [if_pos hri]
  by_cases hlt : t < kvs.length - lo
  · obtain ⟨hok, f⟩ := hfound hlt
    have hseek : BIter.seek cmp b l it = (true, (BIter.seek cmp b l it).2) := Prod.ext hok rfl
    rw [hseek]
    simp only
    cases incl with
    | false =>
      simp only [Bool.not_false, if_true, Bool.false_eq_true, if_false]
      refine ⟨(BIter.seek cmp b l it).2.restartIndex + 1, ?_⟩
      exact
        { cfg := ⟨M2.cfg.riStart, rfl, M2.cfg.offsetStart, M2.cfg.real, f.prevOffset⟩
          slice :=
            { lohi := by omega
              hin := by omega
              q01 := by have := f.rlo; omega
              q1R := by have := f.rhi; omega
              q0lo := M.slice.q0lo
              q0max := M.slice.q0max
              q1hi := by simpa using f.rc }
          err := M2.err
          dirs := M2.dirs
          node := M2.node
          keys := M2.keys }
    | true =>
      simp only [Bool.not_true, Bool.false_eq_true, if_false, if_true]
      -- `bi.Next()`
      have X := IsSlice.of_drop_take kvs M.slice.lohi M.slice.hin
      have hrel : Rel kvs off rs lo kvs.length q0 R (BIter.seek cmp b l it).2 (.at t) :=
        ⟨M2.cfg, M2.err, by omega, Or.inl f⟩
      obtain ⟨hrel', hok', hdir'⟩ := rel_next L M.slice _ X.len hrel
      simp only [Cursor.next, X.len] at hrel' hok'
      by_cases hnx : t + 1 < kvs.length - lo
      · rw [if_pos hnx] at hrel' hok'
        have hnext : BIter.next b (BIter.seek cmp b l it).2 =
            (true, (BIter.next b (BIter.seek cmp b l it).2).2) := Prod.ext hok' rfl
        rw [hnext]
        simp only
        have f' : Fwd kvs off rs (BIter.next b (BIter.seek cmp b l it).2).2 q0 R (lo + (t + 1)) := by
          rcases hrel'.pos.2 with f' | f'
          · exact f'
          · exact absurd f'.dir hdir'
        have hmin : min (lo + t + 1) kvs.length = lo + (t + 1) := by omega
        rw [hmin]
        refine ⟨(BIter.next b (BIter.seek cmp b l it).2).2.restartIndex + 1, ?_⟩
        exact
          { cfg := ⟨hrel'.cfg.riStart, rfl, hrel'.cfg.offsetStart, hrel'.cfg.real, f'.prevOffset⟩
            slice :=
              { lohi := by omega
                hin := by omega
                q01 := by have := f'.rlo; omega
                q1R := by have := f'.rhi; omega
                q0lo := M.slice.q0lo
                q0max := M.slice.q0max
                q1hi := by simpa using f'.rc }
            err := hrel'.err
            dirs := hrel'.dirs
            node := hrel'.cache.1
            keys := hrel'.cache.2.1 }
      · rw [if_neg hnx] at hrel' hok'
        have hnext : BIter.next b (BIter.seek cmp b l it).2 =
            (false, (BIter.next b (BIter.seek cmp b l it).2).2) := Prod.ext hok' rfl
        rw [hnext]
        simp only
        have hmin : min (lo + t + 1) kvs.length = kvs.length := by omega
        rw [hmin]
        exact ⟨R, hrel'.cfg, M.slice, hrel'.err, hrel'.dirs, hrel'.cache.1, hrel'.cache.2.1⟩
  · have hok := hmiss hlt
    have hseek : BIter.seek cmp b l it = (false, (BIter.seek cmp b l it).2) := Prod.ext hok rfl
    rw [hseek]
    simp only
    have hhi : (if incl then min (lo + t + 1) kvs.length else lo + t) = kvs.length := by
      have := M.slice.lohi
      split <;> omega
    rw [hhi]
    exact ⟨R, M2⟩

/-! ## the slice as a list -/

/-- what a `blockIter` sliced with `(start, limit)` is meant to keep (data block: `inclLimit = false`; index
block: `inclLimit = true`) -/
def sliceOf (cmp : Bytes → Bytes → Ordering) (sl : BRange) (incl : Bool) (kvs : List KV) : List KV :=
  if incl then sliceIndex cmp sl.start sl.limit kvs else sliceBlock cmp sl.start sl.limit kvs

/-- first entry index of the slice -/
def loOf (cmp : Bytes → Bytes → Ordering) (start : Option Bytes) (kvs : List KV) : Nat :=
  match start with
  | none => 0
  | some s => (kvs.takeWhile (belowK cmp s)).length

/-- end entry index of the slice -/
def hiOf (cmp : Bytes → Bytes → Ordering) (limit : Option Bytes) (incl : Bool) (kvs : List KV) (lo : Nat) : Nat :=
  match limit with
  | none => kvs.length
  | some l =>
    if incl then min (lo + ((kvs.drop lo).takeWhile (belowK cmp l)).length + 1) kvs.length
    else lo + ((kvs.drop lo).takeWhile (belowK cmp l)).length

theorem sliceOf_eq (sl : BRange) (incl : Bool) (kvs : List KV) :
    sliceOf cmp sl incl kvs =
      (kvs.drop (loOf cmp sl.start kvs)).take
        (hiOf cmp sl.limit incl kvs (loOf cmp sl.start kvs) - loOf cmp sl.start kvs) := by
  obtain ⟨start, limit⟩ := sl
  have hs : kvs.dropWhile (belowStart cmp start) = kvs.drop (loOf cmp start kvs) := by
    cases start with
    | none => simp [belowStart, loOf, dropWhile_false]
    | some s => exact (drop_takeWhile (belowK cmp s) kvs).symm
  have hlo : loOf cmp start kvs ≤ kvs.length := by
    cases start with
    | none => simp [loOf]
    | some s => exact takeWhile_length_le _ _
  simp only
  generalize loOf cmp start kvs = lo at *
  have hlen : (kvs.drop lo).length = kvs.length - lo := List.length_drop
  cases incl with
  | false =>
    simp only [sliceOf, Bool.false_eq_true, if_false]
    rw [sliceBlock_eq, hs]
    cases limit with
    | none =>
      have : hiOf cmp none false kvs lo - lo = (kvs.drop lo).length := by simp [hiOf, hlen]
      rw [this, List.take_length]
      simp [belowLimit, takeWhile_true]
    | some l =>
      have : hiOf cmp (some l) false kvs lo - lo = ((kvs.drop lo).takeWhile (belowK cmp l)).length := by
        simp [hiOf]
      rw [this, take_takeWhile]
      rfl
  | true =>
    simp only [sliceOf, if_true]
    rw [sliceIndex_eq, hs]
    cases limit with
    | none =>
      have : hiOf cmp none true kvs lo - lo = (kvs.drop lo).length := by simp [hiOf, hlen]
      rw [this, List.take_length]
      simp [belowLimit, takeWhile_true, dropWhile_true]
    | some l =>
      have htle := takeWhile_length_le (belowK cmp l) (kvs.drop lo)
      have h2 := take_succ_takeWhile (belowK cmp l) (kvs.drop lo)
      have : (kvs.drop lo).take (hiOf cmp (some l) true kvs lo - lo) =
          (kvs.drop lo).take (((kvs.drop lo).takeWhile (belowK cmp l)).length + 1) := by
        simp only [hiOf, if_true]
        by_cases hx : lo + ((kvs.drop lo).takeWhile (belowK cmp l)).length + 1 ≤ kvs.length
        · congr 1; omega
        · rw [List.take_of_length_le (by omega), List.take_of_length_le (by omega)]
      rw [this, h2]
      rfl

/-- **the sliced iterator refines the cursor over the slice** (over any well-formed block), and never sets `err` -/
theorem run_slice (L : Layout b kvs off R rs) (hc : LawfulCmp cmp) (hsorted : StrictSorted cmp kvs)
    (sl : BRange) (incl : Bool) (cs : List (Call Bytes)) :
    BIter.run cmp b (newBlockIter cmp b (some sl) incl) cs =
      ((Cursor.run (sliceOf cmp sl incl kvs) (geK cmp) .soi cs).map fun o => (o.isSome, o)) ∧
    (BIter.exec cmp b (newBlockIter cmp b (some sl) incl) cs).err = none := by
  obtain ⟨start, limit⟩ := sl
  -- the non-degenerate path: a `Mid` iterator after the start stage
  have main : ∀ (bi : BIter) (q0 : Nat), Mid kvs off R rs bi (loOf cmp start kvs) kvs.length q0 R →
      BIter.run cmp b (match limit with
          | none => bi
          | some l => bi.applyLimit cmp b l incl).finishSlice cs =
        ((Cursor.run (sliceOf cmp ⟨start, limit⟩ incl kvs) (geK cmp) .soi cs).map fun o => (o.isSome, o)) ∧
      (BIter.exec cmp b (match limit with
          | none => bi
          | some l => bi.applyLimit cmp b l incl).finishSlice cs).err = none := by
    intro bi q0 M
    rw [sliceOf_eq]
    cases limit with
    | none =>
      have hh : hiOf cmp none incl kvs (loOf cmp start kvs) = kvs.length := rfl
      simp only [hh]
      exact ⟨rel_run L hc hsorted M.slice (IsSlice.of_drop_take kvs M.slice.lohi M.slice.hin) cs (M.finish L),
        rel_exec L hc hsorted M.slice (IsSlice.of_drop_take kvs M.slice.lohi M.slice.hin) cs (M.finish L)⟩
    | some l =>
      obtain ⟨q1, M2⟩ := applyLimit_mid (cmp := cmp) L hc hsorted M l incl
      exact ⟨rel_run L hc hsorted M2.slice (IsSlice.of_drop_take kvs M2.slice.lohi M2.slice.hin) cs (M2.finish L),
        rel_exec L hc hsorted M2.slice (IsSlice.of_drop_take kvs M2.slice.lohi M2.slice.hin) cs (M2.finish L)⟩
  cases start with
  | none => exact main (BIter.new b) 0 (Mid.new L)
  | some s =>
    by_cases hlt : (kvs.takeWhile (belowK cmp s)).length < kvs.length
    · obtain ⟨q0, M⟩ := applyStart_found (cmp := cmp) L hc hsorted s hlt
      exact main _ q0 M
    · -- `Start` beyond every key: the limit is not applied, the slice is empty
      have hdeg := applyStart_missing (cmp := cmp) L hc hsorted s hlt
      have hempty : sliceOf cmp ⟨some s, limit⟩ incl kvs = [] := by
        rw [sliceOf_eq]
        have : loOf cmp (some s) kvs = kvs.length := by
          have := takeWhile_length_le (belowK cmp s) kvs
          simp only [loOf]; omega
        rw [this]; simp
      have hskip : ∀ l, ((BIter.new b).applyStart cmp b s).applyLimit cmp b l incl =
          (BIter.new b).applyStart cmp b s := by
        intro l
        unfold BIter.applyLimit
        rw [if_neg]
        rw [applyStart_missing_eq L hc hsorted s hlt]
        simp
      have hnb : newBlockIter cmp b (some ⟨some s, limit⟩) incl =
          ((BIter.new b).applyStart cmp b s).finishSlice := by
        unfold newBlockIter
        cases limit with
        | none => rfl
        | some l => simp only [hskip l]
      rw [hnb, hempty]
      exact ⟨deg_run L cs hdeg, deg_exec L cs hdeg⟩

end GoLevel.C13
