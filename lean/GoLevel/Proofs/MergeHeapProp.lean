import GoLevel.Proofs.MergeHeapBasic
/-!
# `container/heap` (model `GoHeap`): the heap invariant

For a strict weak order `less` on the elements of the slice:
* `down_heap`: `down(h, i, n)` repairs a heap whose only bad links are those below `i` (`DownInv`),
* `up_heap`: `up(h, j)` repairs a heap whose only bad link is the one above `j` (`UpInv`),
* `init_isHeap`: after `heap.Init` the invariant holds,
* `push_isHeap`: `heap.Push` preserves it,
* `pop_spec`: `heap.Pop` returns the root, which is a minimum, and leaves a heap that together with the
  returned element is a permutation of the old one.
Core Lean only.
-/
namespace GoLevel.GoHeap

variable {less : Nat → Nat → Bool} {S : Nat → Prop}

/-- loop invariant of `down`: the hole is at `i`; every link except those from `i` to its children is in
order, and the children of `i` are not below `i`'s parent -/
structure DownInv (less : Nat → Nat → Bool) (h : List Nat) (n i0 i : Nat) : Prop where
  le    : i0 ≤ i
  other : ∀ j, 0 < j → j < n → i0 ≤ (j - 1) / 2 → (j - 1) / 2 ≠ i → LinkOK less h j
  grand : ∀ j, 0 < j → j < n → (j - 1) / 2 = i → 0 < i → i0 ≤ (i - 1) / 2 →
    less (h.getD j 0) (h.getD ((i - 1) / 2) 0) = false

theorem DownInv.done {h : List Nat} {n i0 i : Nat} (hinv : DownInv less h n i0 i) (hn : n ≤ 2 * i + 1) :
    HeapFrom less h n i0 := by
  intro j hj0 hjn hp
  by_cases hpi : (j - 1) / 2 = i
  · omega
  · exact hinv.other j hj0 hjn hp hpi

theorem downF_heap (hs : SWO less S) {n i0 : Nat} :
    ∀ (fuel : Nat) (h : List Nat) (i : Nat), n ≤ h.length → AllS S h → n ≤ i + fuel →
      DownInv less h n i0 i → HeapFrom less (downF less fuel h i n) n i0 := by
  intro fuel
  induction fuel with
  | zero =>
    intro h i hn hS hf hinv
    exact hinv.done (by omega)
  | succ fuel ih =>
    intro h i hn hS hf hinv
    rw [downF_succ]
    by_cases h1 : 2 * i + 1 ≥ n
    · rw [if_pos h1]; exact hinv.done h1
    · rw [if_neg h1]
      have hcc := child_cases less h i n
      generalize child less h i n = c at hcc
      have hcn : c < n := by rcases hcc with ⟨e, _⟩ | ⟨e, h2, _⟩ <;> omega
      have hci : (c - 1) / 2 = i := by rcases hcc with ⟨e, _⟩ | ⟨e, h2, _⟩ <;> omega
      have hic : i < c := by rcases hcc with ⟨e, _⟩ | ⟨e, h2, _⟩ <;> omega
      have hi : i < h.length := by omega
      have hcl : c < h.length := by omega
      have hSi : S (h.getD i 0) := hS i hi
      have hSc : S (h.getD c 0) := hS c hcl
      cases hlt : lessAt less h c i with
      | false =>
        simp only [Bool.not_false, if_true]
        have hlt' : less (h.getD c 0) (h.getD i 0) = false := hlt
        intro j hj0 hjn hp
        by_cases hpi : (j - 1) / 2 = i
        · unfold LinkOK; rw [hpi]
          have hj : j = 2 * i + 1 ∨ j = 2 * i + 2 := by omega
          rcases hcc with ⟨e, hr⟩ | ⟨e, h2, hr⟩
          · rcases hj with hj | hj
            · rw [hj, ← e]; exact hlt'
            · have h3 : less (h.getD (2 * i + 2) 0) (h.getD (2 * i + 1) 0) = false := hr (by omega)
              rw [hj]
              rw [e] at hlt' hSc
              exact hs.negtrans _ _ _ (hS _ (by omega)) hSc hSi h3 hlt'
          · rcases hj with hj | hj
            · have h3 : less (h.getD (2 * i + 2) 0) (h.getD (2 * i + 1) 0) = true := hr
              rw [hj]
              rw [e] at hlt' hSc
              cases hx : less (h.getD (2 * i + 1) 0) (h.getD i 0) with
              | false => rfl
              | true =>
                have := hs.trans _ _ _ hSc (hS _ (by omega)) hSi h3 hx
                rw [hlt'] at this; cases this
            · rw [hj, ← e]; exact hlt'
        · exact hinv.other j hj0 hjn hp hpi
      | true =>
        simp only [Bool.not_true, Bool.false_eq_true, if_false]
        have hlt' : less (h.getD c 0) (h.getD i 0) = true := hlt
        have hasym : less (h.getD i 0) (h.getD c 0) = false := hs.asymm hSc hSi hlt'
        apply ih _ _ (by rw [swap_length]; exact hn) (swap_allS hi hcl hS) (by omega)
        refine ⟨by have := hinv.le; omega, ?_, ?_⟩
        · intro j hj0 hjn hp hpc
          unfold LinkOK
          by_cases hpi : (j - 1) / 2 = i
          · rw [hpi, swap_getD_left hi hcl]
            by_cases hjc : j = c
            · rw [hjc, swap_getD_right hi hcl]; exact hasym
            · rw [swap_getD_other hi hcl (by omega) hjc]
              have hj : j = 2 * i + 1 ∨ j = 2 * i + 2 := by omega
              rcases hcc with ⟨e, hr⟩ | ⟨e, h2, hr⟩
              · have hj' : j = 2 * i + 2 := by omega
                rw [hj', e]; exact hr (by omega)
              · have hj' : j = 2 * i + 1 := by omega
                have h3 : less (h.getD (2 * i + 2) 0) (h.getD (2 * i + 1) 0) = true := hr
                rw [hj', e]
                rw [e] at hSc
                exact hs.asymm hSc (hS _ (by omega)) h3
          · by_cases hji : j = i
            · have hi0 : 0 < i := by omega
              rw [hji, swap_getD_left hi hcl, swap_getD_other hi hcl (by omega) (by omega)]
              exact hinv.grand c (by omega) hcn hci hi0 (by rw [hji] at hp; exact hp)
            · have hjc : j ≠ c := by intro h'; rw [h'] at hpi; exact hpi hci
              rw [swap_getD_other hi hcl hji hjc, swap_getD_other hi hcl hpi hpc]
              exact hinv.other j hj0 hjn hp hpi
        · intro j hj0 hjn hpj _ _
          rw [hci, swap_getD_left hi hcl, swap_getD_other hi hcl (by omega) (by omega)]
          have := hinv.other j hj0 hjn (by have := hinv.le; omega) (by omega)
          unfold LinkOK at this
          rw [hpj] at this
          exact this

/-- `down(h, i, n)` when every link of the prefix `n` with parent `> i` is in order -/
theorem down_heap (hs : SWO less S) {h : List Nat} {n i : Nat} (hn : n ≤ h.length) (hS : AllS S h)
    (hh : HeapFrom less h n (i + 1)) : HeapFrom less (down less h i n) n i := by
  refine downF_heap hs n h i hn hS (by omega) ⟨Nat.le_refl _, ?_, ?_⟩
  · intro j hj0 hjn hp hne
    exact hh j hj0 hjn (by omega)
  · intro j _ _ _ hi0 hle
    omega

/-- loop invariant of `up`: every link except the one above `j` is in order, and the children of `j` are
not below `j`'s parent -/
structure UpInv (less : Nat → Nat → Bool) (h : List Nat) (j : Nat) : Prop where
  other : ∀ k, 0 < k → k < h.length → k ≠ j → LinkOK less h k
  grand : ∀ k, 0 < k → k < h.length → (k - 1) / 2 = j → 0 < j →
    less (h.getD k 0) (h.getD ((j - 1) / 2) 0) = false

theorem upF_heap (hs : SWO less S) :
    ∀ (fuel : Nat) (h : List Nat) (j : Nat), j < h.length → AllS S h → j < fuel →
      UpInv less h j → IsHeap less (upF less fuel h j) := by
  intro fuel
  induction fuel with
  | zero => intro h j _ _ hf _; omega
  | succ fuel ih =>
    intro h j hj hS hf hinv
    rw [upF_succ]
    by_cases hij : (j - 1) / 2 = j
    · have : ((j - 1) / 2 == j) = true := by simp [hij]
      simp only [this, Bool.true_or, if_true]
      intro k hk0 hkn _
      exact hinv.other k hk0 hkn (by omega)
    · have hne : ((j - 1) / 2 == j) = false := by simp [hij]
      have hj0 : 0 < j := by omega
      have hil : (j - 1) / 2 < h.length := by omega
      have hSi : S (h.getD ((j - 1) / 2) 0) := hS _ hil
      have hSj : S (h.getD j 0) := hS j hj
      cases hlt : lessAt less h j ((j - 1) / 2) with
      | false =>
        simp only [hne, Bool.false_or, Bool.not_false, if_true]
        intro k hk0 hkn _
        by_cases hkj : k = j
        · rw [hkj]; exact hlt
        · exact hinv.other k hk0 hkn hkj
      | true =>
        simp only [hne, Bool.false_or, Bool.not_true, Bool.false_eq_true, if_false]
        have hlt' : less (h.getD j 0) (h.getD ((j - 1) / 2) 0) = true := hlt
        generalize hi : (j - 1) / 2 = i at *
        have hasym : less (h.getD i 0) (h.getD j 0) = false := hs.asymm hSj hSi hlt'
        have hlen : (swap h i j).length = h.length := swap_length h i j
        apply ih _ _ (by rw [hlen]; exact hil) (swap_allS hil hj hS) (by omega)
        refine ⟨?_, ?_⟩
        · intro k hk0 hkn hki
          rw [hlen] at hkn
          unfold LinkOK
          by_cases hkj : k = j
          · rw [hkj, hi, swap_getD_right hil hj, swap_getD_left hil hj]; exact hasym
          · rw [swap_getD_other hil hj hki hkj]
            have hok := hinv.other k hk0 hkn hkj
            unfold LinkOK at hok
            by_cases hpi : (k - 1) / 2 = i
            · rw [hpi, swap_getD_left hil hj]
              rw [hpi] at hok
              cases hx : less (h.getD k 0) (h.getD j 0) with
              | false => rfl
              | true =>
                have := hs.trans _ _ _ (hS k hkn) hSj hSi hx hlt'
                rw [hok] at this; cases this
            · by_cases hpj : (k - 1) / 2 = j
              · rw [hpj, swap_getD_right hil hj]
                have := hinv.grand k hk0 hkn hpj hj0
                rw [hi] at this; exact this
              · rw [swap_getD_other hil hj hpi hpj]; exact hok
        · intro k hk0 hkn hpk hi0
          rw [hlen] at hkn
          have hg1 : (i - 1) / 2 ≠ i := by omega
          have hg2 : (i - 1) / 2 ≠ j := by omega
          rw [swap_getD_other hil hj hg1 hg2]
          have hoki := hinv.other i hi0 hil (by omega)
          unfold LinkOK at hoki
          by_cases hkj : k = j
          · rw [hkj, swap_getD_right hil hj]; exact hoki
          · rw [swap_getD_other hil hj (by omega) hkj]
            have hokk := hinv.other k hk0 hkn hkj
            unfold LinkOK at hokk
            rw [hpk] at hokk
            exact hs.negtrans _ _ _ (hS k hkn) hSi (hS _ (by omega)) hokk hoki

/-! ## the root is a minimum -/

theorem heap_root_min (hs : SWO less S) {h : List Nat} {n : Nat} (hn : n ≤ h.length) (hS : AllS S h)
    (hh : HeapFrom less h n 0) : ∀ k, k < n → less (h.getD k 0) (h.getD 0 0) = false := by
  intro k
  induction k using Nat.strongRecOn with
  | _ k ih =>
    intro hk
    by_cases hk0 : k = 0
    · rw [hk0]; exact hs.irrefl _ (hS 0 (by omega))
    · have hp := ih ((k - 1) / 2) (by omega) (by omega)
      have hl := hh k (by omega) hk (Nat.zero_le _)
      exact hs.negtrans _ _ _ (hS k (by omega)) (hS _ (by omega)) (hS 0 (by omega)) hl hp

/-! ## `Init`, `Push`, `Pop` -/

theorem initLoop_heap (hs : SWO less S) :
    ∀ (k : Nat) (h : List Nat), k ≤ h.length / 2 → AllS S h → HeapFrom less h h.length k →
      HeapFrom less (initLoop less h.length k h) h.length 0 := by
  intro k
  induction k with
  | zero => intro h _ _ hh; exact hh
  | succ k ih =>
    intro h hk hS hh
    simp only [initLoop]
    have hlen : (down less h k h.length).length = h.length := downF_length less _ _ _ _
    have hp : (down less h k h.length).Perm h := downF_perm less _ _ _ _ (Nat.le_refl _)
    have h1 := down_heap hs (Nat.le_refl _) hS hh
    have := ih (down less h k h.length) (by rw [hlen]; omega) (hS.perm hp) (by rw [hlen]; exact h1)
    rw [hlen] at this
    exact this

/-- **after `heap.Init` the heap invariant holds** -/
theorem init_isHeap (hs : SWO less S) {h : List Nat} (hS : AllS S h) : IsHeap less (init less h) := by
  unfold IsHeap init
  rw [initLoop_length]
  apply initLoop_heap hs _ h (Nat.le_refl _) hS
  intro j hj0 hjn hp
  omega

theorem getD_append_left {h : List Nat} {x k : Nat} (hk : k < h.length) : (h ++ [x]).getD k 0 = h.getD k 0 := by
  simp [List.getD_eq_getElem?_getD, List.getElem?_append_left hk]

/-- **`heap.Push` preserves the heap invariant** -/
theorem push_isHeap (hs : SWO less S) {h : List Nat} {x : Nat} (hS : AllS S (h ++ [x])) (hh : IsHeap less h) :
    IsHeap less (push less h x) := by
  unfold push up
  apply upF_heap hs _ _ _ (by simp) hS (by omega)
  refine ⟨?_, ?_⟩
  · intro k hk0 hkn hkne
    have hkl : k < h.length := by simp at hkn; omega
    unfold LinkOK
    rw [getD_append_left hkl, getD_append_left (by omega)]
    exact hh k hk0 hkl (Nat.zero_le _)
  · intro k hk0 hkn hpk hj0
    simp at hkn; omega

theorem getD_take {h : List Nat} {n k : Nat} (hk : k < n) : (h.take n).getD k 0 = h.getD k 0 := by
  simp [List.getD_eq_getElem?_getD, hk]

theorem eq_take_append_last {l : List Nat} {n : Nat} (hl : l.length = n + 1) :
    l = l.take n ++ [l.getD n 0] := by
  have hn : n < l.length := by omega
  rw [List.getD_eq_getElem?_getD, List.getElem?_eq_getElem hn, Option.getD_some,
    ← List.take_succ_eq_append_getElem hn, List.take_of_length_le (by omega)]

/-- **`heap.Pop`** on a non-empty heap: it returns the root `x`, which is a minimum (no element is `less`
than it); `x` together with the remaining slice is a permutation of the old slice; the remaining slice
is a heap again. -/
theorem pop_spec (hs : SWO less S) {h : List Nat} (hS : AllS S h) (hh : IsHeap less h) (hne : h ≠ []) :
    ∃ rest, pop less h = some (h.getD 0 0, rest) ∧ (h.getD 0 0 :: rest).Perm h ∧ IsHeap less rest ∧
      ∀ y ∈ h, less y (h.getD 0 0) = false := by
  have hlen : 0 < h.length := List.length_pos_iff.2 hne
  have hn : h.length - 1 < h.length := by omega
  generalize hnn : h.length - 1 = n at hn
  have hl1 : (swap h 0 n).length = h.length := swap_length h 0 n
  have hl2 : (down less (swap h 0 n) 0 n).length = h.length := by
    unfold down; rw [downF_length, hl1]
  have hlast : (down less (swap h 0 n) 0 n).getD n 0 = h.getD 0 0 := by
    unfold down
    rw [downF_getD_ge less n _ _ _ (by omega) n (Nat.le_refl _), swap_getD_right hlen hn]
  refine ⟨(down less (swap h 0 n) 0 n).take n, ?_, ?_, ?_, ?_⟩
  · unfold pop
    have : h.isEmpty = false := by cases h <;> simp_all
    simp only [this, Bool.false_eq_true, if_false, hnn, hlast]
  · have hp : (down less (swap h 0 n) 0 n).Perm h :=
      (downF_perm less n _ _ _ (by omega)).trans (swap_perm hlen hn)
    have hsplit : down less (swap h 0 n) 0 n = (down less (swap h 0 n) 0 n).take n ++ [h.getD 0 0] := by
      rw [← hlast]; exact eq_take_append_last (by rw [hl2]; omega)
    have : (h.getD 0 0 :: (down less (swap h 0 n) 0 n).take n).Perm
        ((down less (swap h 0 n) 0 n).take n ++ [h.getD 0 0]) := by
      exact (List.perm_append_comm (l₁ := [h.getD 0 0])).trans (List.Perm.refl _)
    rw [← hsplit] at this
    exact this.trans hp
  · have hA : AllS S (swap h 0 n) := swap_allS hlen hn hS
    have h2 : HeapFrom less (down less (swap h 0 n) 0 n) n 0 := by
      refine downF_heap hs n _ 0 (by omega) hA (by omega) ⟨Nat.le_refl _, ?_, ?_⟩
      · intro j hj0 hjn _ hp0
        unfold LinkOK
        rw [swap_getD_other hlen hn (by omega) (by omega), swap_getD_other hlen hn (by omega) (by omega)]
        exact hh j hj0 (by omega) (Nat.zero_le _)
      · intro j _ _ _ h0 _; omega
    unfold IsHeap
    have hlt : ((down less (swap h 0 n) 0 n).take n).length = n := by rw [List.length_take, hl2]; omega
    rw [hlt]
    intro j hj0 hjn hp
    unfold LinkOK
    rw [getD_take hjn, getD_take (by omega)]
    exact h2 j hj0 hjn hp
  · intro y hy
    obtain ⟨k, hk, rfl⟩ := List.mem_iff_getElem.1 hy
    have := heap_root_min hs (Nat.le_refl _) hS hh k hk
    rwa [List.getD_eq_getElem?_getD, List.getElem?_eq_getElem hk] at this

theorem pop_nil (less : Nat → Nat → Bool) : pop less [] = none := rfl

end GoLevel.GoHeap
