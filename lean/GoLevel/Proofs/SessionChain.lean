import GoLevel.Proofs.SessionEdit
/-! The message sequence of `session.setVersion` run through the reference loop (C07). -/
namespace GoLevel.Session
open GoLevel GoLevel.RefLoop

/-- what is known about the loop after a history -/
structure LoopOK (S : State) (G : EnvF) (R : List Nat) : Prop where
  inv : InvF S G
  gl : GL G S.next
  hist : HistC S G R

theorem loop_step {S : State} {G G' : EnvF} {m : Msg} {R : List Nat} (h : LoopOK S G R)
    (hs : EnvStepF S.next G m G') :
    ∃ S' rm, step S m = some (S', rm) ∧ LoopOK S' G' (R ++ rm) ∧ S.next ≤ S'.next ∧ SafeF G' S'.next rm := by
  obtain ⟨S', rm, h1, h2, h3, h4, h5, h6⟩ := step_invF h.inv h.gl h.hist hs
  exact ⟨S', rm, h1, ⟨h2, h4, h6⟩, h3, h5⟩

theorem run_cons {S S1 S2 : State} {m : Msg} {ms : List Msg} {rm rm' : List Nat}
    (h1 : step S m = some (S1, rm)) (h2 : run S1 ms = some (S2, rm')) :
    run S (m :: ms) = some (S2, rm ++ rm') := by
  simp [run, h1, h2]

/-- later removals are judged against the final state: what was safe stays safe when a version is released
or a delta arrives (the set of versions that must keep their tables only shrinks) -/
theorem safeF_shrink {G G' : EnvF} {nx nx' : Nat} {rm : List Nat} (hs : SafeF G nx rm) (hvs : G'.vs = G.vs)
    (hrel : ∀ k, k ∈ G.rel → k ∈ G'.rel) (hc : G'.closing = false → G.closing = false)
    (hcb : G.cb nx ≤ G'.cb nx') : SafeF G' nx' rm := by
  intro r hr k hik hn
  have := hs r hr k ((EnvF.inst_congr hvs k).mp hik) (by
    rcases hn with h1 | ⟨h0, h1⟩
    · exact Or.inl (fun h2 => h1 (hrel k h2))
    · exact Or.inr ⟨hc h0, Nat.le_trans hcb h1⟩)
  rw [EnvF.T_congr hvs]; exact this

/-- the environment after `setVersion` installed a version (before the old one is released) -/
def envInstalled (G : EnvF) (s : Slot) : EnvF :=
  { vs := G.vs ++ [s], dn := G.N, rel := G.rel, closing := false }

/-- `v.incref()` + the send on `deltaCh`. -/
theorem install_chain {S : State} {G : EnvF} {R : List Nat} (h : LoopOK S G R) (hc : G.closing = false)
    (hN : 0 < G.N) (hcur : G.N ≤ G.up (G.dn + 1)) {fs L : List Nat} {din : Delta}
    (hnd : fs.Nodup) (hnl : L.Nodup) (hsub : ∀ f ∈ L, f ∈ fs)
    (hmono : ∀ f ∈ fs, ∀ j l, j < l → G.inst l → G.alive S.next j → f ∈ G.T j → f ∈ G.T l)
    (hleft : ∀ f ∈ fs, ∀ j, G.alive S.next j → f ∈ G.T j → f ∈ L)
    (hex : NetExact (G.L G.dn) din L) (hkeep : ∀ f, f ∈ G.T G.dn → f ∉ G.L G.dn → f ∈ L) :
    ∃ S' rm, run S [.ref G.N fs, .delta G.dn din] = some (S', rm) ∧
      LoopOK S' (envInstalled G (.inst fs L din)) (R ++ rm) ∧ S.next ≤ S'.next ∧
      SafeF (envInstalled G (.inst fs L din)) S'.next rm := by
  have hdn := h.inv.wf.dn_lt hN
  -- step 1: the reference task
  have hs1 : EnvStepF S.next G (.ref G.N fs) (G.push (.inst fs L din)) :=
    EnvStepF.ref G fs L din hc hnd hnl hsub (fun h0 => by omega) (fun _ => hcur) hmono hleft
  obtain ⟨S1, rm1, e1, ok1, le1, sf1⟩ := loop_step h hs1
  -- step 2: the delta
  have hup : (G.push (.inst fs L din)).up (G.dn + 1) = G.N := by
    rw [EnvF.push_up (by omega)]
    have : ¬ G.up (G.dn + 1) < G.N := by omega
    simp [this, Slot.isInst]
  have hdin : (G.push (.inst fs L din)).din G.N = din := by
    unfold EnvF.din; rw [EnvF.push_slot_eq]; rfl
  have hs2 := EnvStepF.delta (nx := S1.next) (G.push (.inst fs L din)) hc
    (by rw [EnvF.push_dn, hup, EnvF.push_N]; omega)
    (by rw [EnvF.push_dn, hup, hdin, EnvF.push_L_lt hdn, EnvF.push_L_eq]; exact hex)
    (by rw [EnvF.push_dn, hup, EnvF.push_L_lt hdn, EnvF.push_T_lt hdn, EnvF.push_L_eq]; exact hkeep)
  rw [EnvF.push_dn, hup, hdin] at hs2
  have heq : ({ G.push (.inst fs L din) with dn := G.N } : EnvF) = envInstalled G (.inst fs L din) := by
    simp [EnvF.push, envInstalled, hc]
  rw [heq] at hs2
  obtain ⟨S2, rm2, e2, ok2, le2, sf2⟩ := loop_step ok1 hs2
  refine ⟨S2, rm1 ++ rm2, run_cons e1 (run_cons e2 rfl |>.trans (by rw [List.append_nil])), ?_, by omega, ?_⟩
  · rw [← List.append_assoc]; exact ok2
  · refine safeF_append ?_ sf2
    refine safeF_shrink sf1 rfl (fun _ hk => hk) (fun _ => hc) ?_
    show (G.push (.inst fs L din)).up (min G.dn S1.next) ≤ (G.push (.inst fs L din)).up (min G.N S2.next)
    exact EnvF.up_mono _ (by omega)

/-- a single message -/
theorem single_chain {S : State} {G G' : EnvF} {m : Msg} {R : List Nat} (h : LoopOK S G R)
    (hs : EnvStepF S.next G m G') :
    ∃ S' rm, run S [m] = some (S', rm) ∧ LoopOK S' G' (R ++ rm) ∧ S.next ≤ S'.next ∧ SafeF G' S'.next rm := by
  obtain ⟨S1, rm1, e1, ok1, le1, sf1⟩ := loop_step h hs
  exact ⟨S1, rm1, (run_cons e1 rfl).trans (by rw [List.append_nil]), ok1, le1, sf1⟩

/-- two message lists in a row -/
theorem run_append {S S1 S2 : State} {ms ms' : List Msg} {rm rm' : List Nat}
    (h1 : run S ms = some (S1, rm)) (h2 : run S1 ms' = some (S2, rm')) :
    run S (ms ++ ms') = some (S2, rm ++ rm') := by
  induction ms generalizing S rm with
  | nil =>
    simp only [run, Option.some.injEq, Prod.mk.injEq] at h1
    obtain ⟨rfl, rfl⟩ := h1
    simpa using h2
  | cons m ms ih =>
    simp only [run] at h1
    split at h1
    · cases h1
    · rename_i Sa rma ha
      split at h1
      · cases h1
      · rename_i Sb rmb hb
        simp only [Option.some.injEq, Prod.mk.injEq] at h1
        obtain ⟨rfl, rfl⟩ := h1
        have := ih hb
        rw [List.cons_append, List.append_assoc]
        exact run_cons ha this

theorem loopOK_init : LoopOK State.init EnvF.init [] := by
  refine ⟨⟨⟨?_, ?_, ?_, ?_, Or.inl ⟨rfl, rfl⟩, ?_, ?_, ?_, ?_⟩, Nat.le_refl _, ⟨List.nodup_nil, ?_⟩, ?_, ?_, ?_,
    ⟨List.nodup_nil, ?_⟩, ?_⟩, ⟨?_, ?_⟩, fun _ _ => hist_initF⟩
  · intro k; rw [EnvF.T_not_inst]; exact List.nodup_nil
    intro hi; have := EnvF.inst_lt hi; simp [EnvF.init, EnvF.N] at this
  · intro k; rw [EnvF.L_not_inst]; exact List.nodup_nil
    intro hi; have := EnvF.inst_lt hi; simp [EnvF.init, EnvF.N] at this
  · intro k f hf; rw [EnvF.L_not_inst] at hf; cases hf
    intro hi; have := EnvF.inst_lt hi; simp [EnvF.init, EnvF.N] at this
  · intro h; simp [EnvF.init, EnvF.N] at h
  · intro b hb; simp [EnvF.init] at hb
  · intro k hk; simp [EnvF.init] at hk
  · intro b hb; simp [EnvF.init] at hb
  · intro h; simp [EnvF.init] at h
  · intro k; simp [State.init, EnvF.init, EnvF.N]
  · intro k
    have : ¬ EnvF.init.inst k := fun hi => by have := EnvF.inst_lt hi; simp [EnvF.init, EnvF.N] at this
    simp [State.init, this]
  · intro k; simp [State.init, EnvF.init]
  · intro k; simp [State.init, EnvF.init]
  · intro k; simp [State.init]
  · intro f
    have : EnvF.init.L (EnvF.init.cb State.init.next) = [] := by
      rw [EnvF.L_not_inst]
      intro hi; have := EnvF.inst_lt hi; simp [EnvF.init, EnvF.N] at this
    rw [this]; simp [State.init, ind]
  · intro f j l m _ _ hl; have := EnvF.inst_lt hl; simp [EnvF.init, EnvF.N] at this
  · intro f j k _ hk; have := EnvF.inst_lt hk; simp [EnvF.init, EnvF.N] at this

end GoLevel.Session
