import GoLevel.Proofs.RefLoopFWfStep
/-! The invariant tying the loop's variables to the full history, and the counter lemmas (C07). -/
namespace GoLevel.RefLoop

theorem ind_pos {p : Prop} [Decidable p] (h : p) : ind p = 1 := by simp [ind, h]
theorem ind_neg {p : Prop} [Decidable p] (h : ¬ p) : ind p = 0 := by simp [ind, h]
theorem ind_le (p : Prop) [Decidable p] : ind p ≤ 1 := by unfold ind; split <;> omega
theorem ind_eq_one {p : Prop} [Decidable p] : ind p = 1 ↔ p := by unfold ind; split <;> simp_all
theorem ind_eq_zero {p : Prop} [Decidable p] : ind p = 0 ↔ ¬ p := by unfold ind; split <;> simp_all

structure InvF (S : State) (G : EnvF) : Prop where
  wf : G.WF
  nx : S.next ≤ G.N
  ab : S.abandoned.Nodup ∧ ∀ k, k ∈ S.abandoned ↔ S.next ≤ k ∧ k < G.N ∧ ¬ G.inst k
  ref : ∀ k, S.ref.lookup k = if S.next ≤ k ∧ G.inst k ∧ k ∉ G.rel then some (G.T k) else none
  rld : ∀ k, S.released.lookup k = if S.next ≤ k ∧ k ∈ G.rel then
      some (if k < G.dn then some (G.din (G.up (k + 1))) else none) else none
  dl : ∀ k, S.deltas.lookup k = if S.next ≤ k ∧ k < G.dn ∧ G.inst k ∧ k ∉ G.rel then
      some (G.din (G.up (k + 1))) else none
  rfd : S.referenced.Nodup ∧ ∀ k, k ∈ S.referenced ↔ k < S.next ∧ G.inst k ∧ k ∉ G.rel
  cnt : ∀ f, S.fileRef.count f =
    ind (f ∈ G.L (G.cb S.next)) + (S.referenced.filter (fun k => decide (f ∈ G.T k))).length

/-- Applying an exact delta to counters whose base is `A`. -/
theorem apply_netF {A B : List Nat} {d : Delta} (hx : NetExact A d B) {m : List Nat} {extra : Nat → Nat}
    (hc : ∀ f, m.count f = ind (f ∈ A) + extra f) :
    ∃ m' rm, applyDelta m d = some (m', rm) ∧
      (∀ f, m'.count f = ind (f ∈ B) + extra f) ∧
      (∀ r ∈ rm, r ∈ A ∧ r ∉ B ∧ extra r = 0) ∧
      rm.Nodup ∧ ∀ f, f ∈ rm ↔ 1 ≤ m.count f ∧ m'.count f = 0 := by
  obtain ⟨m', h1, h2⟩ := applyDelta_spec m d hx.nd (by
    intro t ht; left
    have := hc t
    rw [ind_pos (hx.del t ht)] at this
    exact List.count_pos_iff.mp (by omega))
  have hcnt : ∀ f, m'.count f = ind (f ∈ B) + extra f := by
    intro f
    have h3 := h2 f
    rw [hc f, count_nodup hx.na] at h3
    have h4 := hx.net f
    have h5 : ind (f ∈ d.added) = if f ∈ d.added then 1 else 0 := rfl
    have h6 : ind (f ∈ d.deleted) = if f ∈ d.deleted then 1 else 0 := rfl
    have hB := ind_le (f ∈ B)
    have hD := ind_le (f ∈ d.deleted)
    have hAd := ind_le (f ∈ d.added)
    rw [h3, ← h5, ← h6]
    omega
  refine ⟨m', _, h1, hcnt, ?_, hx.nd.filter _, ?_⟩
  · intro r hr
    obtain ⟨hrd, hcount⟩ := List.mem_filter.mp hr
    have hA := hx.del r hrd
    have h3 := hc r
    have h4 := hx.net r
    rw [ind_pos hA] at h3 h4
    rw [ind_pos hrd] at h4
    simp only [decide_eq_true_eq] at hcount
    rw [count_nodup hx.na] at hcount
    have h5 : ind (r ∈ d.added) = if r ∈ d.added then 1 else 0 := rfl
    refine ⟨hA, ?_, by omega⟩
    apply ind_eq_zero.mp; omega
  · intro f
    simp only [List.mem_filter, decide_eq_true_eq]
    rw [hcnt f, hc f, count_nodup hx.na]
    have h4 := hx.net f
    have h5 : ind (f ∈ d.added) = if f ∈ d.added then 1 else 0 := rfl
    have hA := ind_le (f ∈ A)
    have hB := ind_le (f ∈ B)
    have hD := ind_le (f ∈ d.deleted)
    have hAd := ind_le (f ∈ d.added)
    constructor
    · rintro ⟨hd, hcount⟩
      rw [ind_pos hd] at h4
      rw [ind_pos (hx.del f hd)] at h4 hcount ⊢
      omega
    · rintro ⟨h6, h7⟩
      have hd : f ∈ d.deleted := ind_eq_one.mp (by omega)
      exact ⟨hd, by omega⟩

end GoLevel.RefLoop
