import GoLevel.Proofs.RefLoopFInv
/-! The removal history over the full environment: every table is removed at most once, and exactly the
accounted tables whose counter is zero have been removed (C07).  Claimed until `session.close`. -/
namespace GoLevel.RefLoop

/-- Table `f` has been accounted for: a version already passed by `next` has it, or the base view has it. -/
def AccF (S : State) (G : EnvF) (f : Nat) : Prop := (∃ k, k < S.next ∧ f ∈ G.T k) ∨ f ∈ G.L (G.cb S.next)

def HistF (S : State) (G : EnvF) (R : List Nat) : Prop :=
  ∀ f, ((AccF S G f ∧ S.fileRef.count f = 0) → R.count f = 1) ∧
       (¬ (AccF S G f ∧ S.fileRef.count f = 0) → R.count f = 0)

theorem EnvF.mem_T_inst {G : EnvF} {k f : Nat} (h : f ∈ G.T k) : G.inst k := by
  by_cases hi : G.inst k
  · exact hi
  · rw [EnvF.T_not_inst hi] at h; cases h

/-- the base version is installed and not above `dn` (once the session exists) -/
theorem EnvF.WF.cb_le {G : EnvF} (h : G.WF) (hN : 0 < G.N) (next : Nat) : G.cb next ≤ G.dn ∧ G.inst (G.cb next) := by
  have hdi : G.inst G.dn := by rcases h.dn with h1 | h1; omega; exact h1
  have h1 : G.cb next ≤ G.dn := EnvF.up_le_of_inst (Nat.min_le_left _ _) hdi
  exact ⟨h1, G.up_inst_of_lt _ (Nat.lt_of_le_of_lt h1 (EnvF.inst_lt hdi))⟩

theorem count_pos_accF {S : State} {G : EnvF} (hI : InvF S G) {f : Nat} (h : 0 < S.fileRef.count f) : AccF S G f := by
  rw [hI.cnt f] at h
  by_cases hb : f ∈ G.L (G.cb S.next)
  · exact Or.inr hb
  · rw [ind_neg hb, Nat.zero_add] at h
    obtain ⟨k, hk⟩ := List.exists_mem_of_length_pos h
    obtain ⟨hk1, hk2⟩ := List.mem_filter.mp hk
    exact Or.inl ⟨k, ((hI.rfd.2 k).mp hk1).1, by simpa using hk2⟩

theorem count_zero_iffF {S : State} {G : EnvF} (hI : InvF S G) (f : Nat) :
    S.fileRef.count f = 0 ↔ f ∉ G.L (G.cb S.next) ∧ ∀ k ∈ S.referenced, f ∉ G.T k := by
  rw [hI.cnt f]
  constructor
  · intro h
    have h1 : f ∉ G.L (G.cb S.next) := by intro hm; rw [ind_pos hm] at h; omega
    refine ⟨h1, fun k hk hf => ?_⟩
    have : k ∈ S.referenced.filter (fun k => decide (f ∈ G.T k)) := List.mem_filter.mpr ⟨hk, by simpa using hf⟩
    have := List.length_pos_of_mem this
    omega
  · rintro ⟨h1, h2⟩
    have : S.referenced.filter (fun k => decide (f ∈ G.T k)) = [] := by
      rw [List.filter_eq_nil_iff]; intro k hk; simpa using h2 k hk
    rw [ind_neg h1, this]; rfl

/-- An accounted table whose counter is zero belongs to no version from the base on: it is gone for good. -/
theorem gone_for_goodF {S : State} {G : EnvF} (hI : InvF S G) (hnr : NoReuse G) (hc : G.closing = false) {f : Nat} (ha : AccF S G f)
    (h0 : S.fileRef.count f = 0) : ∀ l, G.cb S.next ≤ l → f ∉ G.T l := by
  obtain ⟨hb, href⟩ := (count_zero_iffF hI f).mp h0
  rcases ha with ⟨k, hk, hfk⟩ | ha
  · have hik := EnvF.mem_T_inst hfk
    have hN : 0 < G.N := by have := EnvF.inst_lt hik; omega
    obtain ⟨hcb1, hcb2⟩ := hI.wf.cb_le hN S.next
    have hkr : k ∈ G.rel := by
      apply Classical.byContradiction; intro hkr
      exact href k ((hI.rfd.2 k).mpr ⟨hk, hik, hkr⟩) hfk
    have hkd : k < G.dn := by
      rcases (hI.wf.rel k hkr).2 with h | ⟨h, _⟩
      · exact h
      · rw [hc] at h; cases h
    have hkcb : k < G.cb S.next := by
      have := G.up_ge_self (min G.dn S.next); unfold EnvF.cb; omega
    have h1 := hnr.left f k _ hkcb hcb2 hfk hb
    intro l hl
    by_cases hlb : l = G.cb S.next
    · subst hlb; exact h1
    · exact hnr.gone f k _ l hkcb (by omega) hcb2 hfk h1
  · exact absurd ha hb

theorem EnvF.T_congr {G G' : EnvF} (h : G'.vs = G.vs) (k : Nat) : G'.T k = G.T k := by
  unfold EnvF.T EnvF.slot; rw [h]
theorem EnvF.L_congr {G G' : EnvF} (h : G'.vs = G.vs) (k : Nat) : G'.L k = G.L k := by
  unfold EnvF.L EnvF.slot; rw [h]
theorem EnvF.inst_congr {G G' : EnvF} (h : G'.vs = G.vs) (k : Nat) : G'.inst k ↔ G.inst k := by
  unfold EnvF.inst EnvF.slot; rw [h]
theorem EnvF.up_congr {G G' : EnvF} (h : G'.vs = G.vs) (k : Nat) : G'.up k = G.up k := by
  unfold EnvF.up; rw [h]

/-- One primitive transition of the loop with the ids unchanged (`next` moves only while the environment
stands still): the history stays exact. -/
theorem hist_stepF {S S' : State} {G G' : EnvF} {R rm : List Nat} (hI : InvF S G) (hI' : InvF S' G')
    (hH : HistF S G R) (hnr : NoReuse G) (hc : G.closing = false) (hvs : G'.vs = G.vs)
    (hnx : S.next ≤ S'.next) (hdn : G.dn ≤ G'.dn)
    (hrel : ∀ k, k ∈ G.rel → k ∈ G'.rel)
    (hmove : S.next < S'.next → S'.next = S.next + 1 ∧ G'.rel = G.rel ∧ G'.dn = G.dn ∧
      (S.next ∈ G.rel → S.next < G.dn))
    (hnodup : rm.Nodup) (hrm : ∀ f, f ∈ rm ↔ 1 ≤ S.fileRef.count f ∧ S'.fileRef.count f = 0) :
    HistF S' G' (R ++ rm) := by
  have hT := EnvF.T_congr hvs
  have hL := EnvF.L_congr hvs
  have hcbe : G'.cb S'.next = G.up (min G'.dn S'.next) := EnvF.up_congr hvs _
  have hcb : G.cb S.next ≤ G'.cb S'.next := by rw [hcbe]; exact G.up_mono (by omega)
  have hacc : ∀ f, AccF S G f → AccF S' G' f := by
    rintro f (⟨k, hk, hfk⟩ | hb)
    · exact Or.inl ⟨k, by omega, by rw [hT]; exact hfk⟩
    · by_cases hlt : G.cb S.next < S'.next
      · exact Or.inl ⟨_, hlt, by rw [hT]; exact hI.wf.sub _ f hb⟩
      · right
        have : G'.cb S'.next = G.cb S.next := by
          rw [hcbe]
          exact EnvF.up_eq_of_between (by omega) (by unfold EnvF.cb at hlt; omega)
        rw [this, hL]; exact hb
  intro f
  rw [List.count_append, count_nodup hnodup]
  by_cases hfr : f ∈ rm
  · obtain ⟨h1, h2⟩ := (hrm f).mp hfr
    have hacc' := hacc f (count_pos_accF hI (by omega))
    have hR : R.count f = 0 := (hH f).2 (fun h => by omega)
    simp only [hfr, if_true, hR]
    exact ⟨fun _ => by simp, fun h => absurd ⟨hacc', h2⟩ h⟩
  · simp only [hfr, if_false, Nat.add_zero]
    by_cases hold : AccF S G f ∧ S.fileRef.count f = 0
    · -- already removed: stays removed
      have hg := gone_for_goodF hI hnr hc hold.1 hold.2
      have h0' : S'.fileRef.count f = 0 := by
        rw [count_zero_iffF hI']
        refine ⟨fun hm => hg _ hcb (by rw [← hT]; exact hI'.wf.sub _ f hm), fun k hk => ?_⟩
        rw [hT]
        have hk' := (hI'.rfd.2 k).mp hk
        have hik : G.inst k := (EnvF.inst_congr hvs k).mp hk'.2.1
        by_cases hko : k ∈ S.referenced
        · exact ((count_zero_iffF hI f).mp hold.2).2 k hko
        · have hkr : k ∉ G.rel := fun h => hk'.2.2 (hrel k h)
          have : ¬ k < S.next := fun h => hko ((hI.rfd.2 k).mpr ⟨h, hik, hkr⟩)
          refine hg k ?_
          exact Nat.le_trans (G.up_mono (Nat.min_le_right _ _)) (EnvF.up_le_of_inst (by omega) hik)
      exact ⟨fun _ => (hH f).1 hold, fun h => absurd ⟨hacc f hold.1, h0'⟩ h⟩
    · have hnew : ¬ (AccF S' G' f ∧ S'.fileRef.count f = 0) := by
        rintro ⟨ha', h0'⟩
        by_cases hc0 : S.fileRef.count f = 0
        · -- not accounted before, accounted now with counter zero: impossible
          have hna : ¬ AccF S G f := fun h => hold ⟨h, hc0⟩
          obtain ⟨hb', href'⟩ := (count_zero_iffF hI' f).mp h0'
          rcases ha' with ⟨k, hk, hfk⟩ | hb
          · rw [hT] at hfk
            by_cases hko : k < S.next
            · exact hna (Or.inl ⟨k, hko, hfk⟩)
            · obtain ⟨hn1, hr, hd, hrd⟩ := hmove (by omega)
              have hkeq : k = S.next := by omega
              subst hkeq
              have hik := EnvF.mem_T_inst hfk
              by_cases hkr : S.next ∈ G'.rel
              · -- released and passed by the release loop: its delta was applied
                rw [hr] at hkr
                have hknd := hrd hkr
                have hcbk : G.cb S.next = S.next := by
                  unfold EnvF.cb; rw [Nat.min_eq_right (Nat.le_of_lt hknd)]; exact EnvF.up_inst hik
                have hnl : f ∉ G.L S.next := fun h => hna (Or.inr (by rw [hcbk]; exact h))
                have hkeep := hI.wf.keep S.next hknd hik f hfk hnl
                apply hb'
                have : G'.cb S'.next = G.up (S.next + 1) := by
                  rw [hcbe, hd, hn1]
                  have : min G.dn (S.next + 1) = S.next + 1 := by omega
                  rw [this]
                rw [this, hL]; exact hkeep
              · exact href' S.next ((hI'.rfd.2 _).mpr ⟨hk, (EnvF.inst_congr hvs _).mpr hik, hkr⟩)
                  (by rw [hT]; exact hfk)
          · exact hb' hb
        · exact hfr ((hrm f).mpr ⟨by omega, h0'⟩)
      exact ⟨fun h => absurd h hnew, fun _ => (hH f).2 hold⟩

theorem hist_congrF {S S' : State} {G G' : EnvF} {R : List Nat} (hacc : ∀ f, AccF S' G' f ↔ AccF S G f)
    (hfr : S'.fileRef = S.fileRef) (hH : HistF S G R) : HistF S' G' R := by
  intro f
  rw [hacc f, hfr]
  exact hH f

/-- the base version does not move when an id is appended -/
theorem cb_pushF {S : State} {G : EnvF} (hI : InvF S G) {s : Slot} (hN : 0 < G.N) (next : Nat) :
    (G.push s).cb next = G.cb next ∧ G.cb next < G.N := by
  obtain ⟨h1, h2⟩ := hI.wf.cb_le hN next
  have hlt := EnvF.inst_lt h2
  have hdn := hI.wf.dn_lt hN
  refine ⟨?_, hlt⟩
  unfold EnvF.cb at hlt ⊢
  rw [EnvF.push_dn, EnvF.push_up (by omega)]
  simp [hlt]

/-- A new id is announced: nothing is accounted or removed. -/
theorem acc_pushF {S S' : State} {G : EnvF} (hI : InvF S G) {s : Slot}
    (h0 : G.N = 0 → s.isInst = true ∧ s.L = []) (hnx : S'.next = S.next) (f : Nat) :
    AccF S' (G.push s) f ↔ AccF S G f := by
  have hT : ∀ k, k < S.next → (G.push s).T k = G.T k := fun k hk => EnvF.push_T_lt (by have := hI.nx; omega)
  have hb : (G.push s).L ((G.push s).cb S.next) = G.L (G.cb S.next) := by
    by_cases hN : 0 < G.N
    · obtain ⟨h1, h2⟩ := cb_pushF hI (s := s) hN S.next
      rw [h1, EnvF.push_L_lt h2]
    · have hN0 : G.N = 0 := by omega
      have hnx0 : S.next = 0 := by have := hI.nx; omega
      have hd0 : G.dn = 0 := by
        rcases hI.wf.dn with h | h
        · exact h.2
        · have := EnvF.inst_lt h; omega
      obtain ⟨hs1, hs2⟩ := h0 hN0
      have e1 : G.cb S.next = 0 := by
        unfold EnvF.cb; rw [hnx0, hd0]; exact EnvF.up_of_ge (by omega)
      have e2 : (G.push s).cb S.next = 0 := by
        unfold EnvF.cb; rw [EnvF.push_dn, hnx0, hd0, Nat.min_self, EnvF.push_up (by omega)]
        have : ¬ G.up 0 < G.N := by omega
        simp [hs1, hN0]
      rw [e1, e2]
      have := @EnvF.push_L_eq G s
      rw [hN0] at this
      rw [this, hs2, EnvF.L_not_inst]
      intro hi; have := EnvF.inst_lt hi; omega
  unfold AccF
  rw [hnx, hb]
  constructor
  · rintro (⟨k, hk, hfk⟩ | h)
    · exact Or.inl ⟨k, hk, by rw [← hT k hk]; exact hfk⟩
    · exact Or.inr h
  · rintro (⟨k, hk, hfk⟩ | h)
    · exact Or.inl ⟨k, hk, by rw [hT k hk]; exact hfk⟩
    · exact Or.inr h

theorem hist_initF : HistF State.init EnvF.init [] := by
  intro f
  refine ⟨fun h => ?_, fun _ => rfl⟩
  obtain ⟨⟨k, hk, _⟩ | h, _⟩ := h
  · simp [State.init] at hk
  · rw [EnvF.L_not_inst] at h; cases h
    intro hi; have := EnvF.inst_lt hi; simp [EnvF.init, EnvF.N] at this

end GoLevel.RefLoop
