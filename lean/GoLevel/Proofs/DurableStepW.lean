import GoLevel.Proofs.DurableStepBase
/-!
The writer's steps (`wAppend … wAck`, `rotate`) preserve the invariant (fault-free).
-/
namespace GoLevel.Dur

/-- a job is not disturbed by what the writer does: it changes `w`, `issued`, `hi`, `mem`, `seq` and the
    current journal only -/
theorem JobOK.writer {cfg : Cfg} {s : St} {d : Disk} {j : Job} (h : JobOK cfg s d j) (hr : s.phase = .running)
    (htr : s.tr = none) (w' : WPc) (i' : List Issue) (h' : Nat) (m' : List Grp) (q' : Nat) (f : LogFile Grp → LogFile Grp) :
    JobOK cfg { s with w := w', issued := i', hi := h', mem := m', seq := q' }
      { d with journals := d.journals.modify s.jcur f } j := by
  obtain ⟨h1, h2, h3, h4, h5, h6, h7, h8, h9, h10, h11, h12⟩ := h
  have hkinds : j.kind = .flush ∨ j.kind = .compaction := by
    unfold JobKindOK at h2
    cases hk : j.kind <;> rw [hk] at h2 <;> simp_all [Holds]
  have hmk : j.mkJournal = none := by
    unfold JobKindOK at h2
    rcases hkinds with hk | hk
    · rw [hk] at h2
      simp only at h2
      obtain ⟨_, h2⟩ := h2
      split at h2
      · exact h2.2.2.2.2.1
      · exact h2.2.2.2
      · exact absurd h2 id
    · rw [hk] at h2
      exact h2.2.1
  have h2' : JobKindOK { s with w := w', issued := i', hi := h', mem := m', seq := q' } j := by
    unfold JobKindOK at h2 ⊢
    rcases hkinds with hk | hk <;> rw [hk] at h2 ⊢ <;> exact h2
  refine ⟨h1, h2', h3, h4, h5, h6, h7, ?_, ?_, h10, h11, h12⟩
  · unfold MkJournalOK; rw [hmk]; trivial
  · refine h9.imp (fun v hv => ?_)
    unfold RemovalsOK at hv ⊢
    split
    · rename_i rest heq
      rw [heq] at hv
      simp only at hv
      refine ⟨fun n hn => ⟨?_, (hv.1 n hn).2⟩, hv.2⟩
      rcases (hv.1 n hn).1 with h1 | ⟨h1, h2⟩
      · exact Or.inl h1
      · refine Or.inr ⟨h1, fun p hp hpn => ?_⟩
        obtain ⟨p0, hp0, rfl⟩ := mem_modify.1 hp
        have : p0.1 ≠ s.jcur := by
          intro e
          rw [e] at hpn
          simp only [ite_true] at hpn
          omega
        rw [if_neg this] at hpn ⊢
        exact h2 p0 hp0 hpn
    · rename_i rest heq; rw [heq] at hv; exact hv
    · rename_i rest heq; rw [heq] at hv; exact hv
    · trivial


/-- what `RunOK`, `DiskOK` and `ViewBounds` say about the groups in the relevant journals: they end at or
    below `seq + 1` while no group is in flight -/
theorem rel_groups_old {cfg : Cfg} {s : St} {d : Disk} (hd : DiskOK cfg d (must s) (issuedGrps s))
    (hrun : RunOK cfg s d) (hw : inflight s.w = []) (hmem : ∀ h ∈ s.mem, h.fin ≤ s.seq + 1) :
    AllViews cfg d fun v => ∀ p ∈ relJournals d v.jn, ∀ x ∈ p.2.all, x.fin ≤ s.seq + 1 := by
  intro mf hc k hk v hv p hp x hx
  obtain ⟨mf', v0, hparts⟩ := hd.parts
  have e : mf' = mf := by have := hparts.cur; rw [hc] at this; exact (Option.some.inj this).symm
  subst e
  obtain ⟨v', hv', _, hmono⟩ := hparts.views k hk
  rw [hv] at hv'; cases hv'
  have hp0 : p ∈ relJournals d v0.jn := relJournals_mono hmono hp
  have r1 := holds_some hrun.rel hc
  have r2 := holds_some r1 hparts.hv0
  have hrel := r2 p (mem_relJournals.1 hp0).1 (mem_relJournals.1 hp0).2
  rcases hrel with h1 | h1 | h1
  rotate_left 2
  · rw [h1] at hx; cases hx
  · -- the current journal
    have hl := hrun.jcur
    rw [holds_iff] at hl
    obtain ⟨jf, hjf, hall⟩ := hl
    have : lookup d.journals p.1 = some p.2 :=
      lookup_of_mem (sorted_nodup hd.jsorted) (by cases p; exact (mem_relJournals.1 hp).1)
    rw [h1, hjf] at this
    cases this
    rw [hall, hw, List.append_nil] at hx
    exact hmem x hx
  · -- the frozen journal
    rcases frozenOK_iff.1 hrun.frozen with ⟨_, h3⟩ | ⟨fz, jf, _, h3, hf⟩
    · rw [h3] at h1; cases h1
    · rw [h3] at h1
      cases h1
      obtain ⟨_, f2, f3, _, f5, _⟩ := hf
      rw [f5 p (mem_relJournals.1 hp).1 rfl] at hx
      have := f3 x hx
      omega

/-- `FrozenOK` survives a change of the current journal's content that keeps `mem ++ inflight` newer than
    the frozen buffer -/
theorem FrozenOK.writer {cfg : Cfg} {s : St} {d : Disk} (h : FrozenOK cfg s d)
    (w' : WPc) (i' : List Issue) (h' : Nat) (m' : List Grp) (q' : Nat) (f : LogFile Grp → LogFile Grp)
    (hq : s.seq ≤ q') (hnew : ∀ g ∈ m' ++ inflight w', (g ∈ s.mem ++ inflight s.w) ∨ s.seq < g.seq) :
    FrozenOK cfg { s with w := w', issued := i', hi := h', mem := m', seq := q' }
      { d with journals := d.journals.modify s.jcur f } := by
  rcases frozenOK_iff.1 h with ⟨h1, h2⟩ | ⟨fz, jf, h1, h2, f1, f2, f3, f4, f5, f6⟩
  · exact frozenOK_iff.2 (Or.inl ⟨h1, h2⟩)
  · refine frozenOK_iff.2 (Or.inr ⟨fz, jf, h1, h2, f1, Nat.le_trans f2 hq, f3, ?_, ?_, ?_⟩)
    · intro g hg
      rcases hnew g hg with h3 | h3
      · exact f4 g h3
      · show s.frozenSeq < g.seq; omega
    · intro p hp hpn
      obtain ⟨p0, hp0, rfl⟩ := mem_modify.1 hp
      have : p0.1 ≠ s.jcur := by
        intro e; rw [e] at hpn; simp only [ite_true] at hpn; omega
      rw [if_neg this] at hpn ⊢
      exact f5 p0 hp0 hpn
    · intro hn
      obtain ⟨⟨p, hp, hpn⟩, f7⟩ := f6 hn
      refine ⟨⟨_, mem_modify.2 ⟨p, hp, rfl⟩, ?_⟩, f7⟩
      split <;> exact hpn

/-- the parts of `RunOK` that do not look at `w`, `mem`, `seq`, `issued` survive a change of the current
    journal's content -/
theorem RunOK.writer {cfg : Cfg} {s : St} {d : Disk} (h : RunOK cfg s d)
    (w' : WPc) (i' : List Issue) (h' : Nat) (m' : List Grp) (q' : Nat) (f : LogFile Grp → LogFile Grp)
    (hq : s.seq ≤ q') (hnew : ∀ g ∈ m' ++ inflight w', (g ∈ s.mem ++ inflight s.w) ∨ s.seq < g.seq)
    (hall : ∀ jf, lookup d.journals s.jcur = some jf → (f jf).all = m' ++ inflight w')
    (hws : WSeqOK { s with w := w', issued := i', hi := h', mem := m', seq := q' }) (htr : s.tr = none) :
    RunOK cfg { s with w := w', issued := i', hi := h', mem := m', seq := q' }
      { d with journals := d.journals.modify s.jcur f } := by
  obtain ⟨r1, r2, r3, r4, r5, r6, r7, r8, r9⟩ := h
  have htr' : TrOK { s with w := w', issued := i', hi := h', mem := m', seq := q' } := by
    unfold TrOK
    show Holds' s.tr _
    rw [htr]; trivial
  refine ⟨⟨r1.1, htr'⟩, r2, ?_, ?_, ?_, hws, r7.writer w' i' h' m' q' f hq hnew, ?_, r9⟩
  · rw [holds_iff] at r3 ⊢
    obtain ⟨jf, hjf, _⟩ := r3
    refine ⟨f jf, ?_, hall jf hjf⟩
    show lookup (d.journals.modify s.jcur f) s.jcur = _
    rw [lookup_modify, if_pos rfl, hjf]; rfl
  · intro p hp
    obtain ⟨p0, hp0, rfl⟩ := mem_modify.1 hp
    split <;> exact r4 p0 hp0
  · refine ⟨fun p hp => ?_, r5.2⟩
    obtain ⟨p0, hp0, rfl⟩ := mem_modify.1 hp
    split <;> exact r5.1 p0 hp0
  · refine r8.imp (fun mf hmf => hmf.imp (fun v0 hv0 p hp hjn => ?_))
    obtain ⟨p0, hp0, rfl⟩ := mem_modify.1 hp
    by_cases hpc : p0.1 = s.jcur
    · rw [if_pos hpc]; exact Or.inl hpc
    · rw [if_neg hpc] at hjn ⊢; exact hv0 p0 hp0 hjn

/-- a transaction job needs an open transaction -/
theorem Inv.not_trWindow_of_tr_none {cfg : Cfg} {s : St} {d : Disk} (h : Inv cfg s d) (htr : s.tr = none) :
    ¬ TrWindow s := by
  unfold TrWindow
  cases hj : s.job with
  | none => exact id
  | some j =>
    intro hw
    have hok := h.job
    rw [hj] at hok
    have hk := (hok : JobOK cfg s d j).kind
    unfold JobKindOK at hk
    rw [hw.1] at hk
    simp only at hk
    rw [htr] at hk
    exact hk.2.2.2.2

theorem RunOK.tr_none_of_w {cfg : Cfg} {s : St} {d : Disk} (h : RunOK cfg s d) (hw : s.w ≠ .idle) : s.tr = none := by
  have := h.norecov.2
  unfold TrOK at this
  cases ht : s.tr with
  | none => rfl
  | some g => rw [ht] at this; exact absurd this.1 hw

theorem inv_wAppend {cfg : Cfg} {s : St} {d : Disk} (h : Inv cfg s d) {recs : List Batch.Rec} {sync : Bool}
    {s' : St} {d' : Disk} (hs : stepWriter cfg s d (.wAppend recs sync .ok) = some (s', d')) : Inv cfg s' d' := by
  simp only [stepWriter, Disk.exec, Disk.apply] at hs
  split at hs
  · rename_i hg
    obtain ⟨hph, hw, hrecs, htr⟩ := hg
    simp only [Outcome.failed, Bool.false_eq_true, if_false, Option.some.injEq, Prod.mk.injEq] at hs
    obtain ⟨rfl, rfl⟩ := hs
    have hrun := h.run hph
    have hb := h.bounds (by rw [hph]; decide)
    have hntw := h.not_trWindow_of_tr_none htr
    have hwseq := hrun.wseq
    unfold WSeqOK at hwseq
    rw [hw] at hwseq
    simp only at hwseq
    -- the new group
    let g : Grp := ⟨s.seq + 1, recs, sync⟩
    have hgseq : g.seq = s.seq + 1 := rfl
    have hinfl : inflight s.w = [] := by rw [hw]; rfl
    have hold := rel_groups_old h.disk hrun hinfl hwseq
    have hmust : ∀ x ∈ must { s with w := .appended g, issued := s.issued ++ [⟨g, .pending⟩], hi := g.fin },
        x ∈ must s := by
      intro x hx
      rw [must_eq] at hx ⊢
      simp only [ackedSync_append_pending, List.append_nil, hw] at hx ⊢
      exact hx
    have hiss : ∀ x ∈ issuedGrps s,
        x ∈ issuedGrps { s with w := .appended g, issued := s.issued ++ [⟨g, .pending⟩], hi := g.fin } := by
      intro x hx
      simp only [issuedGrps, List.map_append, List.mem_append] at hx ⊢
      exact Or.inl hx
    have hgi : g ∈ issuedGrps { s with w := .appended g, issued := s.issued ++ [⟨g, .pending⟩], hi := g.fin } := by
      simp [issuedGrps]
    constructor
    · -- disk
      apply DiskOK.journal_append h.disk s.jcur g hrun.jmax ⟨hgi, hrecs⟩ _ hmust hiss
      intro mf hc k hk v hv
      have hbv := hb.all mf hc k hk v hv
      rw [seqHi_eq hntw] at hbv
      have hok := h.disk.allViews mf hc k hk v hv
      refine ⟨by rw [hgseq]; omega, fun x hx => ?_, fun p hp x hx => ?_⟩
      · have := (hok.tseq x hx).1; rw [hgseq]; omega
      · have := hold mf hc k hk v hv p hp x hx; rw [hgseq]; exact this
    · exact h.mm.of_same rfl rfl
    · intro _
      exact hb.of_same rfl (seqHi_le_of_not_window hntw hntw (Nat.le_refl _)) (Nat.le_refl _) (fun _ => ⟨hph, Nat.le_refl _⟩)
    · intro _
      apply hrun.writer (.appended g) _ _ s.mem s.seq (·.append g) (Nat.le_refl _)
      · intro x hx
        simp only [inflight, List.mem_append, List.mem_singleton] at hx
        rcases hx with hx | rfl
        · exact Or.inl (List.mem_append_left _ hx)
        · exact Or.inr (by show s.seq < s.seq + 1; omega)
      · intro jf hjf
        have hl := hrun.jcur
        rw [hjf] at hl
        simp only [Holds, hinfl, List.append_nil] at hl
        simp only [LogFile.append, LogFile.all, inflight] at hl ⊢
        rw [← List.append_assoc, hl]
      · show WSeqOK _
        unfold WSeqOK
        exact ⟨rfl, hrecs, hgi, hwseq⟩
      · exact htr
    · intro hc; rw [hph] at hc; cases hc
    · intro hc; rw [hph] at hc; cases hc
    · exact h.job.imp (fun j hj => hj.writer hph htr _ _ _ _ _ _)
  · cases hs


theorem modify_id {α : Type} (m : Files α) (n : Nat) : m.modify n id = m := by
  unfold Files.modify
  conv => rhs; rw [← List.map_id m]
  apply List.map_congr_left
  intro p _
  split
  · rename_i h; cases p; simp_all
  · rfl

theorem disk_modify_id (d : Disk) (n : Nat) : { d with journals := d.journals.modify n id } = d := by
  rw [modify_id]

theorem Inv.running_of_w {cfg : Cfg} {s : St} {d : Disk} (h : Inv cfg s d) (hw : s.w ≠ .idle) : s.phase = .running := by
  rcases hp : s.phase with _ | _ | _
  · exact absurd (h.crashed hp).2.1 hw
  · have := h.recov hp
    rw [holds_iff] at this
    obtain ⟨r, _, hr⟩ := this
    exact absurd hr.idle.1 hw
  · rfl

theorem RunOK.writer' {cfg : Cfg} {s : St} {d : Disk} (h : RunOK cfg s d)
    (w' : WPc) (i' : List Issue) (h' : Nat) (m' : List Grp) (q' : Nat)
    (hq : s.seq ≤ q') (hnew : ∀ g ∈ m' ++ inflight w', (g ∈ s.mem ++ inflight s.w) ∨ s.seq < g.seq)
    (hall : m' ++ inflight w' = s.mem ++ inflight s.w)
    (hws : WSeqOK { s with w := w', issued := i', hi := h', mem := m', seq := q' }) (htr : s.tr = none) :
    RunOK cfg { s with w := w', issued := i', hi := h', mem := m', seq := q' } d := by
  have := h.writer w' i' h' m' q' id hq hnew (fun jf hjf => by
    have hl := h.jcur
    rw [hjf] at hl
    simp only [Holds, id] at hl ⊢
    rw [hl, hall]) hws htr
  rwa [disk_modify_id] at this

theorem JobOK.writer' {cfg : Cfg} {s : St} {d : Disk} {j : Job} (h : JobOK cfg s d j) (hr : s.phase = .running)
    (htr : s.tr = none) (w' : WPc) (i' : List Issue) (h' : Nat) (m' : List Grp) (q' : Nat) :
    JobOK cfg { s with w := w', issued := i', hi := h', mem := m', seq := q' } d j := by
  have := h.writer hr htr w' i' h' m' q' id
  rwa [disk_modify_id] at this

theorem inv_wApply {cfg : Cfg} {s : St} {d : Disk} (h : Inv cfg s d) {s' : St} {d' : Disk}
    (hs : stepWriter cfg s d .wApply = some (s', d')) : Inv cfg s' d' := by
  -- both entry points lead to the same state
  have key : ∀ g, (s.w = .appended g ∧ g.sync = false ∨ s.w = .synced g) →
      Inv cfg { s with w := .applied g, mem := s.mem ++ [g] } d := by
    intro g hw
    have hwne : s.w ≠ .idle := by rcases hw with ⟨e, _⟩ | e <;> rw [e] <;> simp
    have hph := h.running_of_w hwne
    have hrun := h.run hph
    have hb := h.bounds (by rw [hph]; decide)
    have htr := hrun.tr_none_of_w hwne
    have hntw := h.not_trWindow_of_tr_none htr
    have hinfl : inflight s.w = [g] := by rcases hw with ⟨e, _⟩ | e <;> rw [e] <;> rfl
    have hwseq : g.seq = s.seq + 1 ∧ g.recs ≠ [] ∧ g ∈ issuedGrps s ∧ ∀ h ∈ s.mem, h.fin ≤ s.seq + 1 := by
      have := hrun.wseq
      unfold WSeqOK at this
      rcases hw with ⟨e, _⟩ | e <;> rw [e] at this <;> exact this
    constructor
    · apply h.disk.mono _ (fun x hx => hx)
      intro x hx
      rw [must_eq] at hx ⊢
      rcases hw with ⟨e, hns⟩ | e
      · simp only [e, hns, Bool.false_eq_true, if_false, List.append_nil] at hx ⊢; exact hx
      · simp only [e] at hx ⊢; exact hx
    · exact h.mm.of_same rfl rfl
    · intro _
      exact hb.of_same rfl (seqHi_le_of_not_window hntw hntw (Nat.le_refl _)) (Nat.le_refl _) (fun _ => ⟨hph, Nat.le_refl _⟩)
    · intro _
      apply hrun.writer' (.applied g) s.issued s.hi (s.mem ++ [g]) s.seq (Nat.le_refl _)
      · intro x hx
        rw [hinfl]
        simp only [inflight, List.append_nil] at hx
        exact Or.inl hx
      · rw [hinfl]; simp [inflight]
      · show WSeqOK _
        unfold WSeqOK
        refine ⟨hwseq.1, hwseq.2.1, fun x hx => ?_⟩
        simp only [List.mem_append, List.mem_singleton] at hx
        rcases hx with hx | rfl
        · exact Or.inr (hwseq.2.2.2 x hx)
        · exact Or.inl rfl
      · exact htr
    · intro hc; rw [hph] at hc; cases hc
    · intro hc; rw [hph] at hc; cases hc
    · exact h.job.imp (fun j hj => hj.writer' hph htr _ _ _ _ _)
  simp only [stepWriter] at hs
  split at hs
  · rename_i g hw
    split at hs
    · cases hs
    · rename_i hns
      simp only [Option.some.injEq, Prod.mk.injEq] at hs
      obtain ⟨rfl, rfl⟩ := hs
      exact key g (Or.inl ⟨hw, by simpa using hns⟩)
  · rename_i g hw
    simp only [Option.some.injEq, Prod.mk.injEq] at hs
    obtain ⟨rfl, rfl⟩ := hs
    exact key g (Or.inr hw)
  · cases hs

theorem Grp.fin_pos {g : Grp} (h : g.recs ≠ []) : g.seq + 1 ≤ g.fin := Grp.seq_lt_fin h

theorem inv_wPublish {cfg : Cfg} {s : St} {d : Disk} (h : Inv cfg s d) {s' : St} {d' : Disk}
    (hs : stepWriter cfg s d .wPublish = some (s', d')) : Inv cfg s' d' := by
  simp only [stepWriter] at hs
  split at hs
  · rename_i g hw
    simp only [Option.some.injEq, Prod.mk.injEq] at hs
    obtain ⟨rfl, rfl⟩ := hs
    have hph := h.running_of_w (by rw [hw]; simp)
    have hrun := h.run hph
    have hb := h.bounds (by rw [hph]; decide)
    have htr := hrun.tr_none_of_w (by rw [hw]; simp)
    have hntw := h.not_trWindow_of_tr_none htr
    have hwseq := hrun.wseq
    unfold WSeqOK at hwseq
    rw [hw] at hwseq
    simp only at hwseq
    obtain ⟨hgs, hgr, hmem⟩ := hwseq
    have hfin := Grp.fin_pos hgr
    have hq : s.seq ≤ g.fin - 1 := by omega
    constructor
    · apply h.disk.mono _ (fun x hx => hx)
      intro x hx
      rw [must_eq] at hx ⊢
      simp only [hw] at hx ⊢
      exact hx
    · exact h.mm.of_same rfl rfl
    · intro _
      exact hb.of_same rfl (seqHi_le_of_not_window hntw hntw hq) (Nat.le_refl _) (fun _ => ⟨hph, Nat.le_refl _⟩)
    · intro _
      apply hrun.writer' (.published g) s.issued s.hi s.mem (g.fin - 1) hq
      · intro x hx; rw [hw]; exact Or.inl hx
      · rw [hw]; rfl
      · show WSeqOK _
        unfold WSeqOK
        intro x hx
        show x.fin ≤ g.fin - 1 + 1
        rcases hmem x hx with rfl | h1
        · omega
        · omega
      · exact htr
    · intro hc; rw [hph] at hc; cases hc
    · intro hc; rw [hph] at hc; cases hc
    · exact h.job.imp (fun j hj => hj.writer' hph htr _ _ _ _ _)
  · cases hs

theorem inv_wAck {cfg : Cfg} {s : St} {d : Disk} (h : Inv cfg s d) {s' : St} {d' : Disk}
    (hs : stepWriter cfg s d .wAck = some (s', d')) : Inv cfg s' d' := by
  simp only [stepWriter] at hs
  split at hs
  · rename_i g hw
    simp only [Option.some.injEq, Prod.mk.injEq] at hs
    obtain ⟨rfl, rfl⟩ := hs
    have hph := h.running_of_w (by rw [hw]; simp)
    have hrun := h.run hph
    have hb := h.bounds (by rw [hph]; decide)
    have htr := hrun.tr_none_of_w (by rw [hw]; simp)
    have hntw := h.not_trWindow_of_tr_none htr
    have hwseq := hrun.wseq
    unfold WSeqOK at hwseq
    rw [hw] at hwseq
    simp only at hwseq
    constructor
    · apply h.disk.mono
      · intro x hx
        rw [must_eq] at hx ⊢
        simp only [hw, List.append_nil, List.mem_append] at hx ⊢
        rcases mem_ackedSync_setStatus hx with h1 | ⟨rfl, hsy⟩
        · exact Or.inl h1
        · exact Or.inr (by simp [hsy])
      · intro x hx
        simp only [issuedGrps, issuedGrps_setStatus] at hx ⊢
        exact hx
    · exact h.mm.of_same rfl rfl
    · intro _
      exact hb.of_same rfl (seqHi_le_of_not_window hntw hntw (Nat.le_refl _)) (Nat.le_refl _) (fun _ => ⟨hph, Nat.le_refl _⟩)
    · intro _
      apply hrun.writer' .idle _ s.hi s.mem s.seq (Nat.le_refl _)
      · intro x hx; rw [hw]; exact Or.inl hx
      · rw [hw]; rfl
      · show WSeqOK _
        unfold WSeqOK
        exact hwseq
      · exact htr
    · intro hc; rw [hph] at hc; cases hc
    · intro hc; rw [hph] at hc; cases hc
    · exact h.job.imp (fun j hj => hj.writer' hph htr _ _ _ _ _)
  · cases hs

theorem inv_wSync {cfg : Cfg} {s : St} {d : Disk} (h : Inv cfg s d) {s' : St} {d' : Disk}
    (hs : stepWriter cfg s d (.wSync .ok) = some (s', d')) : Inv cfg s' d' := by
  simp only [stepWriter, Disk.exec, Disk.apply] at hs
  split at hs
  · rename_i g hw
    split at hs
    · rename_i hsy
      simp only [Outcome.failed, Bool.false_eq_true, if_false, Option.some.injEq, Prod.mk.injEq] at hs
      obtain ⟨rfl, rfl⟩ := hs
      have hph : s.phase = .running := h.running_of_w (by rw [hw]; simp)
      have hrun := h.run hph
      have hb := h.bounds (by rw [hph]; decide)
      have htr := hrun.tr_none_of_w (by rw [hw]; simp)
      have hntw := h.not_trWindow_of_tr_none htr
      have hwseq := hrun.wseq
      unfold WSeqOK at hwseq
      rw [hw] at hwseq
      simp only at hwseq
      have hjc := hrun.jcur
      rw [holds_iff] at hjc
      obtain ⟨jf, hjf, hall⟩ := hjc
      rw [hw] at hall
      constructor
      · apply DiskOK.journal_sync h.disk s.jcur _ (fun x hx => hx)
        intro x hx
        rw [must_eq] at hx ⊢
        simp only [hw, hsy, if_true, List.mem_append, List.mem_singleton, List.append_nil] at hx ⊢
        rcases hx with hx | rfl
        · exact Or.inl hx
        · refine Or.inr ⟨⟨(s.jcur, jf), lookup_some_mem hjf, rfl, by rw [hall]; simp [inflight]⟩, ?_⟩
          intro mf hc k hk v hv
          exact (hb.all mf hc k hk v hv).2.2 hph
      · exact h.mm.of_same rfl rfl
      · intro _
        exact hb.of_same rfl (seqHi_le_of_not_window hntw hntw (Nat.le_refl _)) (Nat.le_refl _) (fun _ => ⟨hph, Nat.le_refl _⟩)
      · intro _
        apply hrun.writer (.synced g) s.issued s.hi s.mem s.seq (·.sync) (Nat.le_refl _)
        · intro x hx
          rw [hw]
          exact Or.inl hx
        · intro jf' hjf'
          rw [hjf] at hjf'; cases hjf'
          simp only [LogFile.sync, LogFile.all, List.append_nil] at hall ⊢
          exact hall
        · show WSeqOK _
          unfold WSeqOK
          exact hwseq
        · exact htr
      · intro hc; rw [hph] at hc; cases hc
      · intro hc; rw [hph] at hc; cases hc
      · exact h.job.imp (fun j hj => hj.writer hph htr _ _ _ _ _ _)
    · cases hs
  · cases hs

end GoLevel.Dur
