import GoLevel.Proofs.DurableStepBase
/-!
The writer's steps (`wAppend … wAck`, `rotate`) preserve the invariant (fault-free).
-/
namespace GoLevel.Dur

theorem modify_id {α : Type} (m : Files α) (n : Nat) : m.modify n id = m := by
  unfold Files.modify
  conv => rhs; rw [← List.map_id m]
  apply List.map_congr_left
  intro p _
  split
  · rename_i h; cases p; simp_all
  · rfl

theorem disk_modify_id (d : Disk) (n : Nat) : { d with journals := d.journals.modify n id } = d := by
  rw [modify_id]

/-! ## what the writer changes: `w`, `issued`, `hi`, `mem`, `seq`, and the current journal -/

/-- the state after the writer changed its fields -/
abbrev St.wr (s : St) (w' : WPc) (i' : List Issue) (h' : Nat) (m' : List Grp) (q' : Nat) (ef' : Bool) : St :=
  { s with w := w', issued := i', hi := h', mem := m', seq := q', everFailed := ef' }

/-- the groups that must survive grow only by groups above everything journalled so far -/
def MustGrows (s s' : St) : Prop := ∀ g ∈ must s', g ∈ must s ∨ s.seq + 1 < g.fin

theorem Stale0.mono {s s' : St} {jf : LogFile Grp} (h : Stale0 s jf) (hq : s.seq ≤ s'.seq) (hm : MustGrows s s') :
    Stale0 s' jf := by
  intro g hg
  obtain ⟨a, b⟩ := h g hg
  refine ⟨fun hx => ?_, by omega⟩
  rcases hm g hx with h1 | h1
  · exact a h1
  · omega

theorem MirrorL.of_none {s : St} {v : MView} (hl : s.limbo = none) : MirrorL s v ↔ Mirror s v := by
  unfold MirrorL; rw [hl]

theorem MirrorL.of_some {s : St} {v : MView} {u : MRec} (hl : s.limbo = some u) : MirrorL s v ↔ MirrorE s u v := by
  unfold MirrorL; rw [hl]

/-- the manifest descriptor clause under a change that keeps the descriptor, `CURRENT` and the ghost edit, away from
    the adoption of a new manifest -/
theorem MfdOK.transport {s s' : St} {d d' : Disk} (h : MfdOK s d)
    (h1 : ∀ m, s.job.map (·.pc) ≠ some (JPc.rotRemove m)) (h2 : ∀ m, s'.job.map (·.pc) ≠ some (JPc.rotRemove m))
    (e1 : s'.manifestFd = s.manifestFd) (e2 : d'.current = d.current) (e3 : s'.limbo = s.limbo) : MfdOK s' d' := by
  unfold MfdOK
  split
  · rename_i m hm; exact absurd hm (h2 m)
  · unfold MfdOK at h
    split at h
    · rename_i m hm; exact absurd hm (h1 m)
    · rw [e1, e2, e3]; exact h

/-- the limbo facts survive a change of the state that keeps the session, the job and the tables -/
theorem LimboOK.frame {s s' : St} {d d' : Disk} (h : LimboOK s d) (el : s'.limbo = s.limbo)
    (ef : s'.manifestFailed = s.manifestFailed) (ejn : s'.stJn = s.stJn) (esq : s'.stSq = s.stSq)
    (elive : s'.live = s.live) (ejob : s'.job = s.job) (et : d'.tables = d.tables) (hq : s.seq ≤ s'.seq)
    (hm : MustGrows s s') (hnf : s.nextFile ≤ s'.nextFile := by exact Nat.le_refl _) : LimboOK s' d' := by
  unfold LimboOK at h ⊢
  rw [el]
  refine Holds'.imp (o := s.limbo) h (fun u hu => ?_)
  obtain ⟨a, b, c, e, f, g, k0, k⟩ := hu
  have htg : ∀ t, tableGrpsOf d' t = tableGrpsOf d t := fun t => by unfold tableGrpsOf; rw [et]
  refine ⟨by rw [ef]; exact a, b, c, by rw [ejn]; exact e, by rw [esq]; exact f, ?_, by rw [ejob]; exact k0, ?_⟩
  · intro t ht
    rw [elive] at ht
    rw [htg, esq]
    exact g t ht
  · rcases k with k | k
    · exact Or.inl (by rw [ejob]; exact k)
    · right
      obtain ⟨k1, k2, k3⟩ := k
      refine ⟨k1, k2, k3.imp (fun t ht => ⟨ht.1, Nat.lt_of_lt_of_le ht.2.1 hnf, ?_⟩)⟩
      rw [et]
      refine ht.2.2.imp (fun tf htf => ⟨htf.1, htf.2.1, htf.2.2.imp (fun g0 hg0 => ?_)⟩)
      obtain ⟨m1, m2, m4, m5, m6, m7⟩ := hg0
      refine ⟨m1, m2, ?_, m5, Nat.le_trans m6 (Nat.succ_le_succ hq), by rw [ejob]; exact m7⟩
      intro hx
      rcases hm g0 hx with h1 | h1
      · exact m4 h1
      · omega

/-- … and the spawning of a job whose outputs get fresh numbers -/
theorem LimboOK.spawn {s s' : St} {d d' : Disk} (h : LimboOK s d) (hj : s.job = none) {j' : Job}
    (hj' : s'.job = some j') (houts : ∀ o ∈ j'.outs, s.nextFile ≤ o.1)
    (hbc : j'.edit = none ∨ j'.pc.beforeCommit = true) (el : s'.limbo = s.limbo)
    (ef : s'.manifestFailed = s.manifestFailed) (ejn : s'.stJn = s.stJn) (esq : s'.stSq = s.stSq)
    (elive : s'.live = s.live) (et : d'.tables = d.tables) (hq : s.seq ≤ s'.seq)
    (hm : MustGrows s s') (hnf : s.nextFile ≤ s'.nextFile) : LimboOK s' d' := by
  unfold LimboOK at h ⊢
  rw [el]
  refine Holds'.imp (o := s.limbo) h (fun u hu => ?_)
  obtain ⟨a, b, c, e, f, g, k0, k⟩ := hu
  have htg : ∀ t, tableGrpsOf d' t = tableGrpsOf d t := fun t => by unfold tableGrpsOf; rw [et]
  refine ⟨by rw [ef]; exact a, b, c, by rw [ejn]; exact e, by rw [esq]; exact f, ?_, by rw [hj']; exact hbc, ?_⟩
  · intro t ht
    rw [elive] at ht
    rw [htg, esq]
    exact g t ht
  · rcases k with k | k
    · rw [hj] at k; exact absurd k id
    · right
      obtain ⟨k1, k2, k3⟩ := k
      refine ⟨k1, k2, k3.imp (fun t ht => ⟨ht.1, Nat.lt_of_lt_of_le ht.2.1 hnf, ?_⟩)⟩
      rw [et]
      refine ht.2.2.imp (fun tf htf => ⟨htf.1, htf.2.1, htf.2.2.imp (fun g0 hg0 => ?_)⟩)
      obtain ⟨m1, m2, m4, m5, m6, m7⟩ := hg0
      refine ⟨m1, m2, ?_, m5, Nat.le_trans m6 (Nat.succ_le_succ hq), ?_⟩
      · intro hx
        rcases hm g0 hx with h1 | h1
        · exact m4 h1
        · omega
      · rw [hj']
        intro o ho
        exact Nat.lt_of_lt_of_le ht.2.1 (houts o ho)

/-- a job is not disturbed by what the writer does -/
theorem JobOK.writer {cfg : Cfg} {s : St} {d : Disk} {j : Job} (h : JobOK cfg s d j) (hr : s.phase = .running)
    (htr : s.tr = none) (w' : WPc) (i' : List Issue) (h' : Nat) (m' : List Grp) (q' : Nat) (ef' : Bool) (f : LogFile Grp → LogFile Grp)
    (hq : s.seq ≤ q') (hm : MustGrows s { s with w := w', issued := i', hi := h', mem := m', seq := q', everFailed := ef' }) :
    JobOK cfg { s with w := w', issued := i', hi := h', mem := m', seq := q', everFailed := ef' }
      { d with journals := d.journals.modify s.jcur f } j := by
  obtain ⟨h1, h2, h3, h4, h5, h6, h7, h8, h9, h10, h11, h12⟩ := h
  have hkinds : j.kind = .flush ∨ j.kind = .compaction := by
    unfold JobKindOK at h2
    cases hk : j.kind <;> rw [hk] at h2 <;> simp_all [Holds]
  have hmk : j.mkJournal = none := by
    unfold JobKindOK at h2
    rcases hkinds with hk | hk
    · rw [hk] at h2
      simp only at h2
      obtain ⟨_, h2⟩ := h2
      split at h2
      · exact h2.2.2.2.2.1
      · exact h2.2.2.2
      · exact absurd h2 id
    · rw [hk] at h2
      exact h2.2.1
  have h2' : JobKindOK { s with w := w', issued := i', hi := h', mem := m', seq := q', everFailed := ef' } j := by
    unfold JobKindOK at h2 ⊢
    rcases hkinds with hk | hk <;> rw [hk] at h2 ⊢ <;> exact h2
  refine ⟨h1, h2', h3, h4, h5, h6, h7, ?_, ?_, h10, h11, h12⟩
  · unfold MkJournalOK; rw [hmk]; trivial
  · refine h9.imp (fun v hv => ?_)
    unfold RemovalsOK at hv ⊢
    split
    · rename_i rest heq
      rw [heq] at hv
      simp only at hv
      refine ⟨fun n hn => ⟨?_, (hv.1 n hn).2⟩, hv.2⟩
      rcases (hv.1 n hn).1 with h1 | ⟨h1, h2⟩
      · exact Or.inl h1
      · refine Or.inr ⟨h1, fun p hp hpn => ?_⟩
        obtain ⟨p0, hp0, rfl⟩ := mem_modify.1 hp
        have : p0.1 ≠ s.jcur := by
          intro e
          rw [e] at hpn
          simp only [ite_true] at hpn
          omega
        rw [if_neg this] at hpn ⊢
        exact (h2 p0 hp0 hpn).mono hq hm
    · rename_i rest heq; rw [heq] at hv; exact hv
    · rename_i rest heq; rw [heq] at hv; exact hv
    · trivial


/-- what `RunOK`, `DiskOK` and `ViewBounds` say about the groups in the relevant journals: they end at or
    below `seq + 1` while no group is in flight -/
theorem rel_groups_old {cfg : Cfg} {s : St} {d : Disk} (hd : DiskOK cfg d (must s) (issuedGrps s))
    (hrun : RunOK cfg s d) (hw : inflight s.w = []) (hmem : ∀ h ∈ s.mem, h.fin ≤ s.seq + 1) :
    AllViews cfg d fun v => ∀ p ∈ relJournals d v.jn, ∀ x ∈ p.2.all, x.fin ≤ s.seq + 1 := by
  intro mf hc k hk v hv p hp x hx
  obtain ⟨mf', v0, hparts⟩ := hd.parts
  have e : mf' = mf := by have := hparts.cur; rw [hc] at this; exact (Option.some.inj this).symm
  subst e
  obtain ⟨v', hv', _, hmono⟩ := hparts.views k hk
  rw [hv] at hv'; cases hv'
  have hp0 : p ∈ relJournals d v0.jn := relJournals_mono hmono hp
  have r1 := holds_some hrun.rel hc
  have r2 := holds_some r1 hparts.hv0
  have hrel := r2 p (mem_relJournals.1 hp0).1 (mem_relJournals.1 hp0).2
  rcases hrel with h1 | h1 | h1
  rotate_left 2
  · exact (h1.1 x hx).2
  · -- the current journal
    have hl := hrun.jcur
    rw [holds_iff] at hl
    obtain ⟨jf, hjf, hall⟩ := hl
    have : lookup d.journals p.1 = some p.2 :=
      lookup_of_mem (sorted_nodup hd.jsorted) (by cases p; exact (mem_relJournals.1 hp).1)
    rw [h1, hjf] at this
    cases this
    rcases hall.2.2.1 x hx with h2 | h2
    · rw [hw, List.append_nil] at h2
      exact hmem x h2
    · exact h2
  · -- the frozen journal
    rcases frozenOK_iff.1 hrun.frozen with ⟨_, h3⟩ | ⟨fz, jf, _, h3, hf⟩
    · rw [h3] at h1; cases h1
    · rw [h3] at h1
      cases h1
      obtain ⟨_, f2, f3, _, f5, _⟩ := hf
      rcases (f5 p (mem_relJournals.1 hp).1 rfl).2.2.1 x hx with h2 | h2
      · have := f3 x h2
        omega
      · omega

/-- `FrozenOK` survives what the writer does -/
theorem FrozenOK.writer {cfg : Cfg} {s : St} {d : Disk} (h : FrozenOK cfg s d)
    (w' : WPc) (i' : List Issue) (h' : Nat) (m' : List Grp) (q' : Nat) (ef' : Bool) (f : LogFile Grp → LogFile Grp)
    (hq : s.seq ≤ q') (hef : ef' = false → s.everFailed = false)
    (hnew : ∀ jf, ∀ g ∈ (f jf).all, g ∈ jf.all ∨ s.seq < g.seq)
    (hm : MustGrows s { s with w := w', issued := i', hi := h', mem := m', seq := q', everFailed := ef' }) :
    FrozenOK cfg { s with w := w', issued := i', hi := h', mem := m', seq := q', everFailed := ef' }
      { d with journals := d.journals.modify s.jcur f } := by
  rcases frozenOK_iff.1 h with ⟨h1, h2⟩ | ⟨fz, jf, h1, h2, f1, f2, f3, f4, f5, f6⟩
  · exact frozenOK_iff.2 (Or.inl ⟨h1, h2⟩)
  · refine frozenOK_iff.2 (Or.inr ⟨fz, jf, h1, h2, f1, Nat.le_trans f2 hq, f3, ?_, ?_, ?_⟩)
    · intro p hp hpn g hg
      obtain ⟨p0, hp0, rfl⟩ := mem_modify.1 hp
      by_cases hpc : p0.1 = s.jcur
      · rw [if_pos hpc] at hg
        rcases hnew p0.2 g hg with h3 | h3
        · exact f4 p0 hp0 hpc g h3
        · show s.frozenSeq < g.seq; omega
      · rw [if_neg hpc] at hpn hg
        exact f4 p0 hp0 hpn g hg
    · intro p hp hpn
      obtain ⟨p0, hp0, rfl⟩ := mem_modify.1 hp
      have : p0.1 ≠ s.jcur := by
        intro e; rw [e] at hpn; simp only [ite_true] at hpn; omega
      rw [if_neg this] at hpn ⊢
      obtain ⟨a, b, c, e5⟩ := f5 p0 hp0 hpn
      refine ⟨a, fun g hg hgm => ?_, c, fun hx => e5 (hef hx)⟩
      rcases hm g hgm with h3 | h3
      · exact b g hg h3
      · rcases c g hg with h4 | h4
        · exact h4
        · omega
    · intro hn
      obtain ⟨⟨p, hp, hpn⟩, f7⟩ := f6 hn
      refine ⟨⟨_, mem_modify.2 ⟨p, hp, rfl⟩, ?_⟩, f7⟩
      split <;> exact hpn

/-- the parts of `RunOK` that do not look at `w`, `mem`, `seq`, `issued` survive a change of the current
    journal's content -/
theorem RunOK.writer {cfg : Cfg} {s : St} {d : Disk} (h : RunOK cfg s d)
    (w' : WPc) (i' : List Issue) (h' : Nat) (m' : List Grp) (q' : Nat) (ef' : Bool) (f : LogFile Grp → LogFile Grp)
    (hq : s.seq ≤ q') (hef : ef' = false → s.everFailed = false)
    (hnew : ∀ jf, ∀ g ∈ (f jf).all, g ∈ jf.all ∨ s.seq < g.seq)
    (hm : MustGrows s { s with w := w', issued := i', hi := h', mem := m', seq := q', everFailed := ef' })
    (hall : ∀ jf, lookup d.journals s.jcur = some jf →
      JournalHolds { s with w := w', issued := i', hi := h', mem := m', seq := q', everFailed := ef' } (f jf) (m' ++ inflight w') q')
    (hws : WSeqOK { s with w := w', issued := i', hi := h', mem := m', seq := q', everFailed := ef' }) (htr : s.tr = none) :
    RunOK cfg { s with w := w', issued := i', hi := h', mem := m', seq := q', everFailed := ef' }
      { d with journals := d.journals.modify s.jcur f } := by
  obtain ⟨r1, r2, r3, r4, r5, r6, r7, r8, r9, r10⟩ := h
  have htr' : TrOK { s with w := w', issued := i', hi := h', mem := m', seq := q', everFailed := ef' } := by
    unfold TrOK
    show Holds' s.tr _
    rw [htr]; trivial
  refine ⟨⟨r1.1, htr'⟩, r2, ?_, ?_, ?_, hws, r7.writer w' i' h' m' q' ef' f hq hef hnew hm, ?_, r9,
    r10.frame rfl rfl rfl rfl rfl rfl rfl hq hm⟩
  · rw [holds_iff] at r3 ⊢
    obtain ⟨jf, hjf, _⟩ := r3
    refine ⟨f jf, ?_, hall jf hjf⟩
    show lookup (d.journals.modify s.jcur f) s.jcur = _
    rw [lookup_modify, if_pos rfl, hjf]; rfl
  · refine ⟨r4.1, fun p hp => ?_⟩
    obtain ⟨p0, hp0, rfl⟩ := mem_modify.1 hp
    split
    · rename_i hpc; exact Or.inl (Nat.le_of_eq hpc)
    · exact r4.2 p0 hp0
  · refine ⟨fun p hp => ?_, r5.2⟩
    obtain ⟨p0, hp0, rfl⟩ := mem_modify.1 hp
    split
    · rename_i hpc; exact Or.inl (by show p0.1 < s.nextFile; rw [hpc]; exact r4.1)
    · exact r5.1 p0 hp0
  · refine r8.imp (fun mf hmf => hmf.imp (fun v0 hv0 p hp hjn => ?_))
    obtain ⟨p0, hp0, rfl⟩ := mem_modify.1 hp
    by_cases hpc : p0.1 = s.jcur
    · rw [if_pos hpc]; exact Or.inl hpc
    · rw [if_neg hpc] at hjn ⊢
      rcases hv0 p0 hp0 hjn with h1 | h1 | h1
      · exact Or.inl h1
      · exact Or.inr (Or.inl h1)
      · exact Or.inr (Or.inr ⟨h1.1.mono hq hm, fun hx => h1.2 (hef hx)⟩)

/-- a transaction job needs an open transaction -/
theorem Inv.not_trWindow_of_tr_none {cfg : Cfg} {s : St} {d : Disk} (h : Inv cfg s d) (htr : s.tr = none) :
    ¬ TrWindow s := by
  unfold TrWindow
  cases hj : s.job with
  | none => exact id
  | some j =>
    intro hw
    have hok := h.job
    rw [hj] at hok
    have hk := (hok : JobOK cfg s d j).kind
    unfold JobKindOK at hk
    rw [hw.1] at hk
    simp only at hk
    rw [htr] at hk
    exact hk.2.2.2.2

theorem RunOK.tr_none_of_w {cfg : Cfg} {s : St} {d : Disk} (h : RunOK cfg s d) (hw : s.w ≠ .idle) : s.tr = none := by
  have := h.norecov.2
  unfold TrOK at this
  cases ht : s.tr with
  | none => rfl
  | some g => rw [ht] at this; exact absurd this.1 hw

theorem ackedSync_append_failed (l : List Issue) (g : Grp) : ackedSync (l ++ [⟨g, .failed⟩]) = ackedSync l := by
  simp [ackedSync, List.filter_append]

theorem mem_ackedSync_setStatus_failed {g x : Grp} {l : List Issue} (h : x ∈ ackedSync (setStatus g .failed l)) :
    x ∈ ackedSync l ∧ x ≠ g := by
  simp only [ackedSync, setStatus, List.mem_map, List.mem_filter, decide_eq_true_eq] at h ⊢
  obtain ⟨i, ⟨⟨i0, hi0, rfl⟩, hst, hsy⟩, rfl⟩ := h
  by_cases hg : i0.grp = g
  · simp only [hg, if_true] at hst
    cases hst
  · simp only [hg, if_false] at hst hsy ⊢
    exact ⟨⟨i0, ⟨hi0, hst, hsy⟩, rfl⟩, hg⟩

/-- the group a new write is given is not one that must survive already: everything durable ends at or below
    `seq + 1` -/
theorem Inv.fresh_not_must {cfg : Cfg} {s : St} {d : Disk} (h : Inv cfg s d) (hph : s.phase = .running)
    (hw : s.w = .idle) (htr : s.tr = none) {g : Grp} (hgs : g.seq = s.seq + 1) (hgr : g.recs ≠ []) : g ∉ must s := by
  intro hg
  have hrun := h.run hph
  have hb := h.bounds (by rw [hph]; decide)
  have hntw := h.not_trWindow_of_tr_none htr
  have hwseq := hrun.wseq
  unfold WSeqOK at hwseq
  rw [hw] at hwseq
  simp only at hwseq
  have hinfl : inflight s.w = [] := by rw [hw]; rfl
  obtain ⟨mf, v0, hparts⟩ := h.disk.parts
  obtain ⟨v, hv, hok, _⟩ := hparts.views mf.unsynced.length (Nat.le_refl _)
  have hbv := hb.all mf hparts.cur _ (Nat.le_refl _) v hv
  rw [seqHi_eq hntw] at hbv
  have hfin := Grp.seq_lt_fin hgr
  rcases hok.cover g hg with h1 | ⟨p, hp, hgp⟩
  · have := (hok.tseq g h1).1
    omega
  · have := rel_groups_old h.disk hrun hinfl hwseq mf hparts.cur _ (Nat.le_refl _) v hv p hp g
      (by simp [LogFile.all, hgp])
    omega

/-- the journal operation of `writeJournal`: the record is appended; the operation may fail, with or without
    the record in the file; a failure consumes the sequence numbers (`consumeSeqOnJournalError`) -/
theorem inv_wAppend_any {cfg : Cfg} {s : St} {d : Disk}
    (h : Inv cfg s d) {recs : List Batch.Rec} {sync : Bool} {o : Outcome}
    (hcs' : o.failed = true → cfg.consumeSeqOnJournalError = true)
    {s' : St} {d' : Disk} (hs : stepWriter cfg s d (.wAppend recs sync o) = some (s', d')) : Inv cfg s' d' := by
  simp only [stepWriter] at hs
  split at hs
  rotate_left
  · cases hs
  rename_i hg
  obtain ⟨hph, hw, hrecs, htr⟩ := hg
  have hrun := h.run hph
  have hb := h.bounds (by rw [hph]; decide)
  have hntw := h.not_trWindow_of_tr_none htr
  have hwseq := hrun.wseq
  unfold WSeqOK at hwseq
  rw [hw] at hwseq
  simp only at hwseq
  -- the new group
  let g : Grp := ⟨s.seq + 1, recs, sync⟩
  have hgseq : g.seq = s.seq + 1 := rfl
  have hgr : g.recs ≠ [] := hrecs
  have hfin := Grp.seq_lt_fin hgr
  have hinfl : inflight s.w = [] := by rw [hw]; rfl
  have hold := rel_groups_old h.disk hrun hinfl hwseq
  have hnm : g ∉ must s := h.fresh_not_must hph hw htr hgseq hgr
  have hjc := hrun.jcur
  rw [holds_iff] at hjc
  obtain ⟨jf0, hjf0, hjh0⟩ := hjc
  rw [hinfl, List.append_nil] at hjh0
  have happ : ∀ jf : LogFile Grp, (jf.append g).all = jf.all ++ [g] := by
    intro jf; simp [LogFile.append, LogFile.all, List.append_assoc]
  -- the view facts the append needs
  have hview : ∀ mf, curManifest d = some mf → ∀ k ≤ mf.unsynced.length, ∀ v, viewAt cfg mf k = some v →
      v.sq ≤ g.seq ∧ (∀ x ∈ liveGrps d v, x.fin ≤ g.seq) ∧ ∀ p ∈ relJournals d v.jn, ∀ x ∈ p.2.all, x.fin ≤ g.seq := by
    intro mf hc k hk v hv
    have hbv := hb.all mf hc k hk v hv
    rw [seqHi_eq hntw] at hbv
    have hok := h.disk.allViews mf hc k hk v hv
    refine ⟨by rw [hgseq]; omega, fun x hx => ?_, fun p hp x hx => ?_⟩
    · have := (hok.tseq x hx).1; rw [hgseq]; omega
    · have := hold mf hc k hk v hv p hp x hx; rw [hgseq]; exact this
  by_cases hof : o.failed = true
  · -- the write failed
    have hcs := hcs' hof
    simp only [hof, if_true, hcs, Option.some.injEq, Prod.mk.injEq] at hs
    obtain ⟨rfl, rfl⟩ := hs
    have hmust : must { s with issued := s.issued ++ [⟨g, .failed⟩], hi := g.fin, seq := g.fin - 1, everFailed := true } = must s := by
      rw [must_eq, must_eq]
      simp only [ackedSync_append_failed]
    have hmg : MustGrows s (s.wr s.w (s.issued ++ [⟨g, .failed⟩]) g.fin s.mem (g.fin - 1) true) := fun x hx => Or.inl (by
      have hx' : x ∈ must { s with issued := s.issued ++ [⟨g, .failed⟩], hi := g.fin, seq := g.fin - 1, everFailed := true } := by
        rw [must_eq] at hx ⊢; exact hx
      rw [← hmust]; exact hx')
    have hiss : ∀ x ∈ issuedGrps s, x ∈ issuedGrps (s.wr s.w (s.issued ++ [⟨g, .failed⟩]) g.fin s.mem (g.fin - 1) true) := by
      intro x hx
      simp only [issuedGrps, St.wr, List.map_append, List.mem_append] at hx ⊢
      exact Or.inl hx
    have hgi : g ∈ issuedGrps { s with issued := s.issued ++ [⟨g, .failed⟩], hi := g.fin, seq := g.fin - 1, everFailed := true } := by
      simp [issuedGrps]
    have hq : s.seq ≤ g.fin - 1 := by omega
    have hseqhi : seqHi s ≤ seqHi { s with issued := s.issued ++ [⟨g, .failed⟩], hi := g.fin, seq := g.fin - 1, everFailed := true } :=
      seqHi_le_of_not_window hntw hntw hq
    -- the file after the operation
    have key : ∀ (f : LogFile Grp → LogFile Grp), (∀ jf, (f jf).all = jf.all ∨ (f jf).all = jf.all ++ [g]) →
        DiskOK cfg { d with journals := d.journals.modify s.jcur f }
          (must { s with issued := s.issued ++ [⟨g, .failed⟩], hi := g.fin, seq := g.fin - 1, everFailed := true })
          (issuedGrps { s with issued := s.issued ++ [⟨g, .failed⟩], hi := g.fin, seq := g.fin - 1, everFailed := true }) →
        Inv cfg { s with issued := s.issued ++ [⟨g, .failed⟩], hi := g.fin, seq := g.fin - 1, everFailed := true }
          { d with journals := d.journals.modify s.jcur f } := by
      intro f hf hdisk
      constructor
      · exact hdisk
      · exact h.mm.of_same rfl rfl
      · intro _
        exact hb.of_same rfl hseqhi (Nat.le_refl _) (fun _ => ⟨hph, Nat.le_refl _⟩)
      · intro _
        have := hrun.writer s.w (s.issued ++ [(⟨g, .failed⟩ : Issue)]) g.fin s.mem (g.fin - 1) true f hq
          (fun hx => nomatch hx)
          (fun jf x hx => by
            rcases hf jf with h1 | h1 <;> rw [h1] at hx
            · exact Or.inl hx
            · rcases List.mem_append.1 hx with h2 | h2
              · exact Or.inl h2
              · simp only [List.mem_singleton] at h2; subst h2; exact Or.inr (by show s.seq < s.seq + 1; omega))
          hmg (fun jf hjf => by
            rw [hjf0] at hjf; cases hjf
            rw [hinfl, List.append_nil]
            obtain ⟨a, b, c, _⟩ := hjh0
            refine ⟨fun x hx => ?_, fun x hx hxm => ?_, fun x hx => ?_, fun hx => nomatch hx⟩
            · rcases hf jf0 with h1 | h1 <;> rw [h1]
              · exact a x hx
              · exact List.mem_append_left _ (a x hx)
            · rw [hmust] at hxm
              rcases hf jf0 with h1 | h1 <;> rw [h1] at hx
              · exact b x hx hxm
              · rcases List.mem_append.1 hx with h2 | h2
                · exact b x h2 hxm
                · simp only [List.mem_singleton] at h2; subst h2; exact absurd hxm hnm
            · rcases hf jf0 with h1 | h1 <;> rw [h1] at hx
              · rcases c x hx with h2 | h2
                · exact Or.inl h2
                · right; show x.fin ≤ g.fin - 1 + 1; omega
              · rcases List.mem_append.1 hx with h2 | h2
                · rcases c x h2 with h3 | h3
                  · exact Or.inl h3
                  · right; show x.fin ≤ g.fin - 1 + 1; omega
                · simp only [List.mem_singleton] at h2; subst h2
                  right; show g.fin ≤ g.fin - 1 + 1; omega)
          (by
            show WSeqOK _
            simp only [WSeqOK, hw]
            intro x hx
            have := hwseq x hx
            show x.fin ≤ g.fin - 1 + 1
            omega) htr
        rw [hw] at this ⊢
        exact this
      · intro hc; rw [hph] at hc; cases hc
      · intro hc; rw [hph] at hc; cases hc
      · have := h.job.imp (fun j hj => hj.writer hph htr s.w (s.issued ++ [(⟨g, .failed⟩ : Issue)]) g.fin s.mem (g.fin - 1) true f hq hmg)
        exact this
    cases o with
    | ok => cases hof
    | failNoEffect =>
      have e : d.exec (Op.writeJ s.jcur g) .failNoEffect = { d with journals := d.journals.modify s.jcur id } := by
        simp only [Disk.exec]; rw [modify_id]
      rw [e]
      apply key id (fun jf => Or.inl rfl)
      rw [disk_modify_id]
      exact h.disk.mono (fun x hx => by rw [hmust] at hx; exact hx) hiss
    | failEffect =>
      apply key (·.append g) (fun jf => Or.inr (happ jf))
      exact DiskOK.journal_append h.disk s.jcur g hrun.jmax.2 ⟨hgi, hrecs⟩ hview
        (fun x hx => by rw [hmust] at hx; exact hx) hiss
  · -- the write succeeded
    have hok' : o = .ok := by cases o <;> simp_all [Outcome.failed]
    subst hok'
    simp only [Outcome.failed, Bool.false_eq_true, if_false, Option.some.injEq, Prod.mk.injEq, Disk.exec,
      Disk.apply] at hs
    obtain ⟨rfl, rfl⟩ := hs
    have hmust : ∀ x ∈ must { s with w := .appended g, issued := s.issued ++ [⟨g, .pending⟩], hi := g.fin },
        x ∈ must s := by
      intro x hx
      rw [must_eq] at hx ⊢
      simp only [ackedSync_append_pending, List.append_nil, hw] at hx ⊢
      exact hx
    have hmg : MustGrows s (s.wr (.appended g) (s.issued ++ [⟨g, .pending⟩]) g.fin s.mem s.seq s.everFailed) :=
      fun x hx => Or.inl (hmust x hx)
    have hiss : ∀ x ∈ issuedGrps s,
        x ∈ issuedGrps { s with w := .appended g, issued := s.issued ++ [⟨g, .pending⟩], hi := g.fin } := by
      intro x hx
      simp only [issuedGrps, List.map_append, List.mem_append] at hx ⊢
      exact Or.inl hx
    have hgi : g ∈ issuedGrps { s with w := .appended g, issued := s.issued ++ [⟨g, .pending⟩], hi := g.fin } := by
      simp [issuedGrps]
    constructor
    · exact DiskOK.journal_append h.disk s.jcur g hrun.jmax.2 ⟨hgi, hrecs⟩ hview hmust hiss
    · exact h.mm.of_same rfl rfl
    · intro _
      exact hb.of_same rfl (seqHi_le_of_not_window hntw hntw (Nat.le_refl _)) (Nat.le_refl _)
        (fun _ => ⟨hph, Nat.le_refl _⟩)
    · intro _
      apply hrun.writer (.appended g) _ _ s.mem s.seq s.everFailed (·.append g) (Nat.le_refl _) (fun hx => hx)
      · intro jf x hx
        rw [happ] at hx
        rcases List.mem_append.1 hx with h2 | h2
        · exact Or.inl h2
        · simp only [List.mem_singleton] at h2; subst h2; exact Or.inr (by show s.seq < s.seq + 1; omega)
      · exact hmg
      · intro jf hjf
        rw [hjf0] at hjf; cases hjf
        obtain ⟨a, b, c, e5⟩ := hjh0
        refine ⟨fun x hx => ?_, fun x hx hxm => ?_, fun x hx => ?_, fun hef x hx => ?_⟩
        rotate_right
        · rw [happ] at hx
          simp only [inflight, List.mem_append, List.mem_singleton] at hx ⊢
          rcases hx with hx | rfl
          · exact Or.inl (e5 hef x hx)
          · exact Or.inr rfl
        · rw [happ]
          simp only [inflight, List.mem_append, List.mem_singleton] at hx ⊢
          rcases hx with hx | rfl
          · exact Or.inl (a x hx)
          · exact Or.inr rfl
        · rw [happ] at hx
          simp only [inflight, List.mem_append, List.mem_singleton] at hx ⊢
          rcases hx with hx | rfl
          · exact Or.inl (b x hx (hmust x hxm))
          · exact Or.inr rfl
        · rw [happ] at hx
          simp only [inflight, List.mem_append, List.mem_singleton] at hx ⊢
          rcases hx with hx | rfl
          · rcases c x hx with h2 | h2
            · exact Or.inl (Or.inl h2)
            · exact Or.inr h2
          · exact Or.inl (Or.inr rfl)
      · show WSeqOK _
        unfold WSeqOK
        exact ⟨rfl, hrecs, hgi, hwseq⟩
      · exact htr
    · intro hc; rw [hph] at hc; cases hc
    · intro hc; rw [hph] at hc; cases hc
    · exact h.job.imp (fun j hj => hj.writer hph htr _ _ _ _ _ s.everFailed _ (Nat.le_refl _) hmg)

theorem inv_wAppend {cfg : Cfg} {s : St} {d : Disk} (h : Inv cfg s d) {recs : List Batch.Rec} {sync : Bool}
    {s' : St} {d' : Disk} (hs : stepWriter cfg s d (.wAppend recs sync .ok) = some (s', d')) : Inv cfg s' d' :=
  inv_wAppend_any h (fun hx => by simp [Outcome.failed] at hx) hs

theorem Inv.running_of_w {cfg : Cfg} {s : St} {d : Disk} (h : Inv cfg s d) (hw : s.w ≠ .idle) : s.phase = .running := by
  rcases hp : s.phase with _ | _ | _
  · exact absurd (h.crashed hp).2.1 hw
  · have := h.recov hp
    rw [holds_iff] at this
    obtain ⟨r, _, hr⟩ := this
    exact absurd hr.idle.1 hw
  · rfl

theorem RunOK.writer' {cfg : Cfg} {s : St} {d : Disk} (h : RunOK cfg s d)
    (w' : WPc) (i' : List Issue) (h' : Nat) (m' : List Grp) (q' : Nat) (ef' : Bool)
    (hq : s.seq ≤ q') (hef : ef' = false → s.everFailed = false)
    (hm : MustGrows s { s with w := w', issued := i', hi := h', mem := m', seq := q', everFailed := ef' })
    (hall : ∀ jf, lookup d.journals s.jcur = some jf →
      JournalHolds { s with w := w', issued := i', hi := h', mem := m', seq := q', everFailed := ef' } jf (m' ++ inflight w') q')
    (hws : WSeqOK { s with w := w', issued := i', hi := h', mem := m', seq := q', everFailed := ef' }) (htr : s.tr = none) :
    RunOK cfg { s with w := w', issued := i', hi := h', mem := m', seq := q', everFailed := ef' } d := by
  have := h.writer w' i' h' m' q' ef' id hq hef (fun _ g hg => Or.inl hg) hm hall hws htr
  rwa [disk_modify_id] at this

theorem JobOK.writer' {cfg : Cfg} {s : St} {d : Disk} {j : Job} (h : JobOK cfg s d j) (hr : s.phase = .running)
    (htr : s.tr = none) (w' : WPc) (i' : List Issue) (h' : Nat) (m' : List Grp) (q' : Nat) (ef' : Bool)
    (hq : s.seq ≤ q') (hm : MustGrows s { s with w := w', issued := i', hi := h', mem := m', seq := q', everFailed := ef' }) :
    JobOK cfg { s with w := w', issued := i', hi := h', mem := m', seq := q', everFailed := ef' } d j := by
  have := h.writer hr htr w' i' h' m' q' ef' id hq hm
  rwa [disk_modify_id] at this

/-- the journal clause when only the bookkeeping changes: the same file, the same groups (as a set) -/
theorem JournalHolds.same {s s' : St} {jf : LogFile Grp} {c c' : List Grp} {b b' : Nat}
    (h : JournalHolds s jf c b) (hc : ∀ x, x ∈ c' ↔ x ∈ c) (hb : b ≤ b')
    (hm : ∀ x ∈ must s', x ∈ must s ∨ x ∈ c')
    (hef : s'.everFailed = false → s.everFailed = false) : JournalHolds s' jf c' b' := by
  obtain ⟨a, b0, c0, e5⟩ := h
  refine ⟨fun x hx => a x ((hc x).1 hx), fun x hx hxm => ?_, fun x hx => ?_,
    fun hx x hxa => (hc x).2 (e5 (hef hx) x hxa)⟩
  · rcases hm x hxm with h1 | h1
    · exact (hc x).2 (b0 x hx h1)
    · exact h1
  · rcases c0 x hx with h1 | h1
    · exact Or.inl ((hc x).2 h1)
    · exact Or.inr (by omega)

theorem inv_wApply {cfg : Cfg} {s : St} {d : Disk} (h : Inv cfg s d) {s' : St} {d' : Disk}
    (hs : stepWriter cfg s d .wApply = some (s', d')) : Inv cfg s' d' := by
  -- both entry points lead to the same state
  have key : ∀ g, (s.w = .appended g ∧ g.sync = false ∨ s.w = .synced g) →
      Inv cfg { s with w := .applied g, mem := s.mem ++ [g] } d := by
    intro g hw
    have hwne : s.w ≠ .idle := by rcases hw with ⟨e, _⟩ | e <;> rw [e] <;> simp
    have hph := h.running_of_w hwne
    have hrun := h.run hph
    have hb := h.bounds (by rw [hph]; decide)
    have htr := hrun.tr_none_of_w hwne
    have hntw := h.not_trWindow_of_tr_none htr
    have hinfl : inflight s.w = [g] := by rcases hw with ⟨e, _⟩ | e <;> rw [e] <;> rfl
    have hwseq : g.seq = s.seq + 1 ∧ g.recs ≠ [] ∧ g ∈ issuedGrps s ∧ ∀ h ∈ s.mem, h.fin ≤ s.seq + 1 := by
      have := hrun.wseq
      unfold WSeqOK at this
      rcases hw with ⟨e, _⟩ | e <;> rw [e] at this <;> exact this
    have hmust : ∀ x ∈ must { s with w := .applied g, mem := s.mem ++ [g] }, x ∈ must s := by
      intro x hx
      rw [must_eq] at hx ⊢
      rcases hw with ⟨e, hns⟩ | e
      · simp only [e, hns, Bool.false_eq_true, if_false, List.append_nil] at hx ⊢; exact hx
      · simp only [e] at hx ⊢; exact hx
    have hmg : MustGrows s { s with w := .applied g, issued := s.issued, hi := s.hi, mem := s.mem ++ [g], seq := s.seq, everFailed := s.everFailed } :=
      fun x hx => Or.inl (hmust x hx)
    constructor
    · exact h.disk.mono hmust (fun x hx => hx)
    · exact h.mm.of_same rfl rfl
    · intro _
      exact hb.of_same rfl (seqHi_le_of_not_window hntw hntw (Nat.le_refl _)) (Nat.le_refl _)
        (fun _ => ⟨hph, Nat.le_refl _⟩)
    · intro _
      apply hrun.writer' (.applied g) s.issued s.hi (s.mem ++ [g]) s.seq s.everFailed (Nat.le_refl _) (fun hx => hx)
      · exact hmg
      · intro jf hjf
        have hl := hrun.jcur
        rw [hjf] at hl
        have hl : JournalHolds s jf (s.mem ++ inflight s.w) s.seq := hl
        rw [hinfl] at hl
        exact hl.same (fun x => by simp [inflight]) (Nat.le_refl _) (fun x hx => Or.inl (hmust x hx)) (fun hx => hx)
      · show WSeqOK _
        unfold WSeqOK
        refine ⟨hwseq.1, hwseq.2.1, fun x hx => ?_⟩
        simp only [List.mem_append, List.mem_singleton] at hx
        rcases hx with hx | rfl
        · exact Or.inr (hwseq.2.2.2 x hx)
        · exact Or.inl rfl
      · exact htr
    · intro hc; rw [hph] at hc; cases hc
    · intro hc; rw [hph] at hc; cases hc
    · exact h.job.imp (fun j hj => hj.writer' hph htr _ _ _ _ _ s.everFailed (Nat.le_refl _) hmg)
  simp only [stepWriter] at hs
  split at hs
  · rename_i g hw
    split at hs
    · cases hs
    · rename_i hns
      simp only [Option.some.injEq, Prod.mk.injEq] at hs
      obtain ⟨rfl, rfl⟩ := hs
      exact key g (Or.inl ⟨hw, by simpa using hns⟩)
  · rename_i g hw
    simp only [Option.some.injEq, Prod.mk.injEq] at hs
    obtain ⟨rfl, rfl⟩ := hs
    exact key g (Or.inr hw)
  · cases hs

theorem Grp.fin_pos {g : Grp} (h : g.recs ≠ []) : g.seq + 1 ≤ g.fin := Grp.seq_lt_fin h

theorem inv_wPublish {cfg : Cfg} {s : St} {d : Disk} (h : Inv cfg s d) {s' : St} {d' : Disk}
    (hs : stepWriter cfg s d .wPublish = some (s', d')) : Inv cfg s' d' := by
  simp only [stepWriter] at hs
  split at hs
  · rename_i g hw
    simp only [Option.some.injEq, Prod.mk.injEq] at hs
    obtain ⟨rfl, rfl⟩ := hs
    have hph := h.running_of_w (by rw [hw]; simp)
    have hrun := h.run hph
    have hb := h.bounds (by rw [hph]; decide)
    have htr := hrun.tr_none_of_w (by rw [hw]; simp)
    have hntw := h.not_trWindow_of_tr_none htr
    have hwseq := hrun.wseq
    unfold WSeqOK at hwseq
    rw [hw] at hwseq
    simp only at hwseq
    obtain ⟨hgs, hgr, hmem⟩ := hwseq
    have hfin := Grp.fin_pos hgr
    have hq : s.seq ≤ g.fin - 1 := by omega
    have hmust : ∀ x ∈ must { s with w := .published g, seq := g.fin - 1 }, x ∈ must s := by
      intro x hx
      rw [must_eq] at hx ⊢
      simp only [hw] at hx ⊢
      exact hx
    have hmg : MustGrows s { s with w := .published g, issued := s.issued, hi := s.hi, mem := s.mem, seq := g.fin - 1, everFailed := s.everFailed } :=
      fun x hx => Or.inl (hmust x hx)
    have hcontent : ∀ jf, lookup d.journals s.jcur = some jf →
        JournalHolds { s with w := .published g, issued := s.issued, hi := s.hi, mem := s.mem, seq := g.fin - 1, everFailed := s.everFailed } jf
          (s.mem ++ inflight (.published g)) (g.fin - 1) := by
      intro jf hjf
      have hl := hrun.jcur
      rw [hjf] at hl
      have hl : JournalHolds s jf (s.mem ++ inflight s.w) s.seq := hl
      rw [hw] at hl
      exact hl.same (fun x => by simp [inflight]) hq (fun x hx => Or.inl (hmust x hx)) (fun hx => hx)
    constructor
    · exact h.disk.mono hmust (fun x hx => hx)
    · exact h.mm.of_same rfl rfl
    · intro _
      exact hb.of_same rfl (seqHi_le_of_not_window hntw hntw hq) (Nat.le_refl _) (fun _ => ⟨hph, Nat.le_refl _⟩)
    · intro _
      apply hrun.writer' (.published g) s.issued s.hi s.mem (g.fin - 1) s.everFailed hq (fun hx => hx)
      · exact hmg
      · exact hcontent
      · show WSeqOK _
        unfold WSeqOK
        intro x hx
        show x.fin ≤ g.fin - 1 + 1
        rcases hmem x hx with rfl | h1
        · omega
        · omega
      · exact htr
    · intro hc; rw [hph] at hc; cases hc
    · intro hc; rw [hph] at hc; cases hc
    · exact h.job.imp (fun j hj => hj.writer' hph htr _ _ _ _ _ s.everFailed hq hmg)
  · cases hs

theorem inv_wAck {cfg : Cfg} {s : St} {d : Disk} (h : Inv cfg s d) {s' : St} {d' : Disk}
    (hs : stepWriter cfg s d .wAck = some (s', d')) : Inv cfg s' d' := by
  simp only [stepWriter] at hs
  split at hs
  · rename_i g hw
    simp only [Option.some.injEq, Prod.mk.injEq] at hs
    obtain ⟨rfl, rfl⟩ := hs
    have hph := h.running_of_w (by rw [hw]; simp)
    have hrun := h.run hph
    have hb := h.bounds (by rw [hph]; decide)
    have htr := hrun.tr_none_of_w (by rw [hw]; simp)
    have hntw := h.not_trWindow_of_tr_none htr
    have hwseq := hrun.wseq
    unfold WSeqOK at hwseq
    rw [hw] at hwseq
    simp only at hwseq
    have hmust : ∀ x ∈ must { s with w := .idle, issued := setStatus g .acked s.issued }, x ∈ must s := by
      intro x hx
      rw [must_eq] at hx ⊢
      simp only [hw, List.append_nil, List.mem_append] at hx ⊢
      rcases mem_ackedSync_setStatus hx with h1 | ⟨rfl, hsy⟩
      · exact Or.inl h1
      · exact Or.inr (by simp [hsy])
    have hmg : MustGrows s (s.wr .idle (setStatus g .acked s.issued) s.hi s.mem s.seq s.everFailed) :=
      fun x hx => Or.inl (hmust x hx)
    constructor
    · apply h.disk.mono hmust
      intro x hx
      simp only [issuedGrps, issuedGrps_setStatus] at hx ⊢
      exact hx
    · exact h.mm.of_same rfl rfl
    · intro _
      exact hb.of_same rfl (seqHi_le_of_not_window hntw hntw (Nat.le_refl _)) (Nat.le_refl _)
        (fun _ => ⟨hph, Nat.le_refl _⟩)
    · intro _
      apply hrun.writer' .idle _ s.hi s.mem s.seq s.everFailed (Nat.le_refl _) (fun hx => hx)
      · exact hmg
      · intro jf hjf
        have hl := hrun.jcur
        rw [hjf] at hl
        have hl : JournalHolds s jf (s.mem ++ inflight s.w) s.seq := hl
        rw [hw] at hl
        exact hl.same (fun x => by simp [inflight]) (Nat.le_refl _) (fun x hx => Or.inl (hmust x hx)) (fun hx => hx)
      · show WSeqOK _
        unfold WSeqOK
        exact hwseq
      · exact htr
    · intro hc; rw [hph] at hc; cases hc
    · intro hc; rw [hph] at hc; cases hc
    · exact h.job.imp (fun j hj => hj.writer' hph htr _ _ _ _ _ s.everFailed (Nat.le_refl _) hmg)
  · cases hs

/-- `journalWriter.Sync`: it may fail, with or without the file synced; a failure returns the error, nothing is
    applied, the sequence numbers are consumed -/
theorem inv_wSync_any {cfg : Cfg} {s : St} {d : Disk} (h : Inv cfg s d) {o : Outcome}
    (hcs' : o.failed = true → cfg.consumeSeqOnJournalError = true) {s' : St} {d' : Disk}
    (hs : stepWriter cfg s d (.wSync o) = some (s', d')) : Inv cfg s' d' := by
  simp only [stepWriter] at hs
  split at hs
  rotate_left
  · cases hs
  rename_i g hw
  split at hs
  rotate_left
  · cases hs
  rename_i hsy
  have hph : s.phase = .running := h.running_of_w (by rw [hw]; simp)
  have hrun := h.run hph
  have hb := h.bounds (by rw [hph]; decide)
  have htr := hrun.tr_none_of_w (by rw [hw]; simp)
  have hntw := h.not_trWindow_of_tr_none htr
  have hwseq := hrun.wseq
  unfold WSeqOK at hwseq
  rw [hw] at hwseq
  simp only at hwseq
  obtain ⟨hgs, hgr, hgi, hmem⟩ := hwseq
  have hfin := Grp.seq_lt_fin hgr
  have hjc := hrun.jcur
  rw [holds_iff] at hjc
  obtain ⟨jf, hjf, hjh⟩ := hjc
  rw [hw] at hjh
  have hgj : g ∈ jf.all := hjh.1 g (by simp [inflight])
  have hsall : ∀ jf : LogFile Grp, jf.sync.all = jf.all := by
    intro jf; simp [LogFile.sync, LogFile.all]
  by_cases hof : o.failed = true
  · -- the sync failed: the call returns the error
    have hcs := hcs' hof
    simp only [hof, if_true, hcs, Option.some.injEq, Prod.mk.injEq] at hs
    obtain ⟨rfl, rfl⟩ := hs
    have hq : s.seq ≤ g.fin - 1 := by omega
    have hmust : ∀ x ∈ must { s with w := .idle, issued := setStatus g .failed s.issued, hi := s.hi, seq := g.fin - 1, everFailed := true },
        x ∈ must s ∧ x ≠ g := by
      intro x hx
      rw [must_eq] at hx ⊢
      simp only [hw, List.append_nil] at hx ⊢
      exact mem_ackedSync_setStatus_failed hx
    have hmg : MustGrows s (s.wr .idle (setStatus g .failed s.issued) s.hi s.mem (g.fin - 1) true) :=
      fun x hx => Or.inl (hmust x hx).1
    have hiss : ∀ x ∈ issuedGrps s, x ∈ issuedGrps (s.wr .idle (setStatus g .failed s.issued) s.hi s.mem (g.fin - 1) true) := by
      intro x hx
      simp only [issuedGrps, St.wr, issuedGrps_setStatus] at hx ⊢
      exact hx
    have key : ∀ (f : LogFile Grp → LogFile Grp), (∀ jf, (f jf).all = jf.all) →
        DiskOK cfg { d with journals := d.journals.modify s.jcur f }
          (must { s with w := .idle, issued := setStatus g .failed s.issued, hi := s.hi, seq := g.fin - 1, everFailed := true })
          (issuedGrps { s with w := .idle, issued := setStatus g .failed s.issued, hi := s.hi, seq := g.fin - 1, everFailed := true }) →
        Inv cfg { s with w := .idle, issued := setStatus g .failed s.issued, hi := s.hi, seq := g.fin - 1, everFailed := true }
          { d with journals := d.journals.modify s.jcur f } := by
      intro f hf hdisk
      constructor
      · exact hdisk
      · exact h.mm.of_same rfl rfl
      · intro _
        exact hb.of_same rfl (seqHi_le_of_not_window hntw hntw hq) (Nat.le_refl _) (fun _ => ⟨hph, Nat.le_refl _⟩)
      · intro _
        apply hrun.writer .idle (setStatus g .failed s.issued) s.hi s.mem (g.fin - 1) true f hq (fun hx => nomatch hx)
        · intro jf0 x hx
          rw [hf] at hx
          exact Or.inl hx
        · exact hmg
        · intro jf' hjf'
          rw [hjf] at hjf'; cases hjf'
          obtain ⟨a, b, c, _⟩ := hjh
          refine ⟨fun x hx => ?_, fun x hx hxm => ?_, fun x hx => ?_, fun hx => nomatch hx⟩
          · rw [hf]
            simp only [inflight, List.append_nil] at hx
            exact a x (List.mem_append_left _ hx)
          · rw [hf] at hx
            obtain ⟨h1, h2⟩ := hmust x hxm
            have := b x hx h1
            simp only [inflight, List.mem_append, List.mem_singleton, List.append_nil] at this ⊢
            rcases this with h3 | h3
            · exact h3
            · exact absurd h3 h2
          · rw [hf] at hx
            rcases c x hx with h1 | h1
            · simp only [inflight, List.mem_append, List.mem_singleton, List.append_nil] at h1 ⊢
              rcases h1 with h2 | h2
              · exact Or.inl h2
              · subst h2; right; show x.fin ≤ x.fin - 1 + 1; omega
            · right; show x.fin ≤ g.fin - 1 + 1; omega
        · show WSeqOK _
          simp only [WSeqOK]
          intro x hx
          have := hmem x hx
          show x.fin ≤ g.fin - 1 + 1
          omega
        · exact htr
      · intro hc; rw [hph] at hc; cases hc
      · intro hc; rw [hph] at hc; cases hc
      · exact h.job.imp (fun j hj => hj.writer hph htr _ _ _ _ _ true f hq hmg)
    cases o with
    | ok => cases hof
    | failNoEffect =>
      have e : d.exec (Op.sync FKind.journal s.jcur) .failNoEffect = { d with journals := d.journals.modify s.jcur id } := by
        simp only [Disk.exec]; rw [modify_id]
      rw [e]
      apply key id (fun _ => rfl)
      rw [disk_modify_id]
      exact h.disk.mono (fun x hx => (hmust x hx).1) hiss
    | failEffect =>
      apply key (·.sync) hsall
      exact DiskOK.journal_sync h.disk s.jcur (fun x hx => Or.inl (hmust x hx).1) hiss
  · have hok' : o = .ok := by cases o <;> simp_all [Outcome.failed]
    subst hok'
    simp only [Outcome.failed, Bool.false_eq_true, if_false, Option.some.injEq, Prod.mk.injEq, Disk.exec,
      Disk.apply] at hs
    obtain ⟨rfl, rfl⟩ := hs
    have hmustg : ∀ x ∈ must { s with w := .synced g }, x ∈ must s ∨ x = g := by
      intro x hx
      rw [must_eq] at hx ⊢
      simp only [hw, hsy, if_true, List.mem_append, List.mem_singleton, List.append_nil] at hx ⊢
      exact hx
    have hmg : MustGrows s { s with w := .synced g, issued := s.issued, hi := s.hi, mem := s.mem, seq := s.seq, everFailed := s.everFailed } := by
      intro x hx
      rcases hmustg x hx with h1 | rfl
      · exact Or.inl h1
      · exact Or.inr (by omega)
    constructor
    · apply DiskOK.journal_sync h.disk s.jcur _ (fun x hx => hx)
      intro x hx
      rcases hmustg x hx with h1 | rfl
      · exact Or.inl h1
      · refine Or.inr ⟨⟨(s.jcur, jf), lookup_some_mem hjf, rfl, hgj⟩, ?_⟩
        intro mf hc k hk v hv
        have hbv := hb.all mf hc k hk v hv
        rw [seqHi_eq hntw] at hbv
        exact ⟨hbv.2.2 hph, by omega⟩
    · exact h.mm.of_same rfl rfl
    · intro _
      exact hb.of_same rfl (seqHi_le_of_not_window hntw hntw (Nat.le_refl _)) (Nat.le_refl _)
        (fun _ => ⟨hph, Nat.le_refl _⟩)
    · intro _
      apply hrun.writer (.synced g) s.issued s.hi s.mem s.seq s.everFailed (·.sync) (Nat.le_refl _) (fun hx => hx)
      · intro jf0 x hx
        rw [hsall] at hx
        exact Or.inl hx
      · exact hmg
      · intro jf' hjf'
        rw [hjf] at hjf'; cases hjf'
        obtain ⟨a, b, c, e5⟩ := hjh
        refine ⟨fun x hx => by rw [hsall]; exact a x hx, fun x hx hxm => ?_, fun x hx => by rw [hsall] at hx; exact c x hx,
          fun hef x hx => by rw [hsall] at hx; exact e5 hef x hx⟩
        · rw [hsall] at hx
          rcases hmustg x hxm with h1 | rfl
          · exact b x hx h1
          · simp [inflight]
      · show WSeqOK _
        unfold WSeqOK
        exact ⟨hgs, hgr, hgi, hmem⟩
      · exact htr
    · intro hc; rw [hph] at hc; cases hc
    · intro hc; rw [hph] at hc; cases hc
    · exact h.job.imp (fun j hj => hj.writer hph htr _ _ _ _ _ s.everFailed _ (Nat.le_refl _) hmg)

theorem inv_wSync {cfg : Cfg} {s : St} {d : Disk} (h : Inv cfg s d) {s' : St} {d' : Disk}
    (hs : stepWriter cfg s d (.wSync .ok) = some (s', d')) : Inv cfg s' d' :=
  inv_wSync_any h (fun hx => by simp [Outcome.failed] at hx) hs

end GoLevel.Dur
