import GoLevel.Proofs.DurableInv
/-!
Lemmas about numbered files (`Files`), ascending group lists and the journal replay loop.
-/
namespace GoLevel.Dur

/-! ## `lookup`, `set`, `modify`, `erase` -/

section files
variable {α : Type}

@[simp] theorem lookup_nil (n : Nat) : lookup ([] : Files α) n = none := rfl

theorem lookup_cons (p : Nat × α) (m : Files α) (n : Nat) :
    lookup (p :: m) n = if p.1 = n then some p.2 else lookup m n := by
  unfold lookup
  by_cases h : p.1 = n <;> simp [h]

theorem lookup_some_mem {m : Files α} {n : Nat} {a : α} (h : lookup m n = some a) : (n, a) ∈ m := by
  induction m with
  | nil => simp at h
  | cons p m ih =>
    rw [lookup_cons] at h
    by_cases hp : p.1 = n
    · rw [if_pos hp] at h
      cases h
      exact List.mem_cons.2 (Or.inl (by cases p; simp_all))
    · rw [if_neg hp] at h
      exact List.mem_cons_of_mem _ (ih h)

theorem lookup_of_mem {m : Files α} (hn : m.Pairwise (fun p q => p.1 ≠ q.1)) {n : Nat} {a : α}
    (h : (n, a) ∈ m) : lookup m n = some a := by
  induction m with
  | nil => simp at h
  | cons p m ih =>
    rw [List.pairwise_cons] at hn
    rw [lookup_cons]
    rcases List.mem_cons.1 h with rfl | h'
    · simp
    · have : p.1 ≠ n := fun e => hn.1 _ h' e
      rw [if_neg this]
      exact ih hn.2 h'

theorem lookup_none_iff {m : Files α} {n : Nat} : lookup m n = none ↔ ∀ p ∈ m, p.1 ≠ n := by
  induction m with
  | nil => simp
  | cons p m ih =>
    rw [lookup_cons]
    by_cases hp : p.1 = n
    · simp [hp]
    · simp [hp, ih]

theorem lookup_isSome_iff {m : Files α} {n : Nat} : (lookup m n).isSome ↔ n ∈ m.nums := by
  cases h : lookup m n with
  | none =>
    simp only [Option.isSome_none, Bool.false_eq_true, false_iff, Files.nums, List.mem_map, not_exists, not_and]
    exact fun p hp => lookup_none_iff.1 h p hp
  | some a =>
    simp only [Option.isSome_some, true_iff, Files.nums, List.mem_map]
    exact ⟨_, lookup_some_mem h, rfl⟩

theorem sorted_nodup {m : Files α} (h : m.Pairwise (fun p q => p.1 < q.1)) : m.Pairwise (fun p q => p.1 ≠ q.1) :=
  h.imp (fun hlt => Nat.ne_of_lt hlt)

/-! ### `modify` -/

theorem mem_modify {m : Files α} {n : Nat} {f : α → α} {q : Nat × α} :
    q ∈ m.modify n f ↔ ∃ p ∈ m, q = if p.1 = n then (p.1, f p.2) else p := by
  simp only [Files.modify, List.mem_map]
  constructor
  · rintro ⟨p, hp, rfl⟩; exact ⟨p, hp, rfl⟩
  · rintro ⟨p, hp, rfl⟩; exact ⟨p, hp, rfl⟩

theorem modify_keys (m : Files α) (n : Nat) (f : α → α) : (m.modify n f).map (·.1) = m.map (·.1) := by
  simp only [Files.modify, List.map_map]
  apply List.map_congr_left
  intro p _
  simp only [Function.comp]
  split <;> rfl

theorem pairwise_keys_modify {R : Nat → Nat → Prop} {m : Files α} (n : Nat) (f : α → α)
    (h : m.Pairwise (fun p q => R p.1 q.1)) : (m.modify n f).Pairwise (fun p q => R p.1 q.1) := by
  have h' : (m.map (·.1)).Pairwise R := List.pairwise_map.2 h
  rw [← modify_keys m n f] at h'
  exact List.pairwise_map.1 h'

theorem lookup_modify (m : Files α) (n k : Nat) (f : α → α) :
    lookup (m.modify n f) k = if k = n then (lookup m k).map f else lookup m k := by
  induction m with
  | nil => simp [Files.modify]
  | cons p m ih =>
    have : Files.modify (p :: m) n f = (if p.1 = n then (p.1, f p.2) else p) :: Files.modify m n f := rfl
    rw [this, lookup_cons, lookup_cons, ih]
    by_cases hp : p.1 = n
    · by_cases hk : k = n
      · subst hk; simp [hp]
      · have : n ≠ k := fun e => hk e.symm
        simp [hp, hk, this]
    · by_cases hk : p.1 = k
      · have : k ≠ n := fun e => hp (hk ▸ e)
        simp [hk, this]
      · simp [hp, hk]

/-! ### `erase` -/

theorem mem_erase {m : Files α} {n : Nat} {q : Nat × α} : q ∈ m.erase n ↔ q ∈ m ∧ q.1 ≠ n := by
  simp [Files.erase]

theorem pairwise_erase {R : Nat × α → Nat × α → Prop} {m : Files α} (n : Nat) (h : m.Pairwise R) :
    (m.erase n).Pairwise R := h.filter _

theorem lookup_erase (m : Files α) (n k : Nat) :
    lookup (m.erase n) k = if k = n then none else lookup m k := by
  induction m with
  | nil => simp [Files.erase]
  | cons p m ih =>
    by_cases hp : p.1 = n
    · have : Files.erase (p :: m) n = Files.erase m n := by simp [Files.erase, hp]
      rw [this, ih, lookup_cons]
      by_cases hk : k = n
      · simp [hk]
      · have : p.1 ≠ k := fun e => hk (e ▸ hp)
        simp [hk, this]
    · have : Files.erase (p :: m) n = p :: Files.erase m n := by simp [Files.erase, hp]
      rw [this, lookup_cons, lookup_cons, ih]
      by_cases hk : p.1 = k
      · have : k ≠ n := fun e => hp (hk ▸ e)
        simp [hk, this]
      · simp [hk]

/-! ### `set` -/

theorem set_of_fresh {m : Files α} {n : Nat} (a : α) (h : ∀ p ∈ m, p.1 ≠ n) : m.set n a = m ++ [(n, a)] := by
  induction m with
  | nil => rfl
  | cons p m ih =>
    obtain ⟨k, b⟩ := p
    have hk : k ≠ n := h (k, b) List.mem_cons_self
    simp only [Files.set, hk, if_false, List.cons_append]
    rw [ih (fun q hq => h q (List.mem_cons_of_mem _ hq))]

theorem lookup_set (m : Files α) (n k : Nat) (a : α) :
    lookup (m.set n a) k = if k = n then some a else lookup m k := by
  induction m with
  | nil =>
    simp only [Files.set, lookup_cons, lookup_nil]
    by_cases hk : k = n
    · simp [hk]
    · have : n ≠ k := fun e => hk e.symm
      simp [hk, this]
  | cons p m ih =>
    obtain ⟨j, b⟩ := p
    by_cases hj : j = n
    · simp only [Files.set, hj, if_true, lookup_cons]
      by_cases hk : k = n
      · simp [hk]
      · have : n ≠ k := fun e => hk e.symm
        simp [hk, this]
    · simp only [Files.set, hj, if_false, lookup_cons, ih]
      by_cases hk : j = k
      · have : k ≠ n := fun e => hj (hk ▸ e)
        simp [hk, this]
      · simp [hk]

theorem mem_set {m : Files α} (hn : m.Pairwise (fun p q => p.1 ≠ q.1)) {n : Nat} {a : α} {q : Nat × α} :
    q ∈ m.set n a ↔ q = (n, a) ∨ (q ∈ m ∧ q.1 ≠ n) := by
  induction m with
  | nil => simp [Files.set]
  | cons p m ih =>
    obtain ⟨j, b⟩ := p
    rw [List.pairwise_cons] at hn
    by_cases hj : j = n
    · subst hj
      simp only [Files.set, if_true, List.mem_cons]
      constructor
      · rintro (rfl | h)
        · exact Or.inl rfl
        · exact Or.inr ⟨Or.inr h, fun e => hn.1 q h e.symm⟩
      · rintro (rfl | ⟨h | h, hq⟩)
        · exact Or.inl rfl
        · subst h; exact absurd rfl hq
        · exact Or.inr h
    · simp only [Files.set, hj, if_false, List.mem_cons, ih hn.2]
      constructor
      · rintro (rfl | rfl | ⟨h1, h2⟩)
        · exact Or.inr ⟨Or.inl rfl, hj⟩
        · exact Or.inl rfl
        · exact Or.inr ⟨Or.inr h1, h2⟩
      · rintro (rfl | ⟨rfl | h1, h2⟩)
        · exact Or.inr (Or.inl rfl)
        · exact Or.inl rfl
        · exact Or.inr (Or.inr ⟨h1, h2⟩)

theorem nodup_set {m : Files α} (hn : m.Pairwise (fun p q => p.1 ≠ q.1)) (n : Nat) (a : α) :
    (m.set n a).Pairwise (fun p q => p.1 ≠ q.1) := by
  induction m with
  | nil => simp [Files.set]
  | cons p m ih =>
    obtain ⟨j, b⟩ := p
    rw [List.pairwise_cons] at hn
    by_cases hj : j = n
    · subst hj
      simp only [Files.set, if_true, List.pairwise_cons]
      exact ⟨fun q hq => hn.1 q hq, hn.2⟩
    · simp only [Files.set, hj, if_false, List.pairwise_cons]
      refine ⟨fun q hq => ?_, ih hn.2⟩
      rcases (mem_set hn.2).1 hq with rfl | ⟨h1, _⟩
      · exact hj
      · exact hn.1 q h1

theorem sorted_set_fresh {m : Files α} (hs : m.Pairwise (fun p q => p.1 < q.1)) {n : Nat} (a : α)
    (h : ∀ p ∈ m, p.1 < n) : (m.set n a).Pairwise (fun p q => p.1 < q.1) := by
  rw [set_of_fresh a (fun p hp => Nat.ne_of_lt (h p hp))]
  rw [List.pairwise_append]
  refine ⟨hs, by simp, ?_⟩
  intro p hp q hq
  simp only [List.mem_singleton] at hq
  subst hq
  exact h p hp

end files

end GoLevel.Dur
