import GoLevel.Proofs.BlockIterRun
/-!
# A `blockIter` sliced to nothing because `Start` is beyond every key

`newBlockIter` then sets `riStart = restartsLen`, `offsetStart = offsetRealStart = restartsOffset` and leaves the
limit alone.  Every call answers `false`; `Seek` makes `block.seek` read the restart COUNT as an offset
(`rstart = rlimit = restartsLen`), which `max(offsetStart, ·)` hides as long as the count does not exceed
`restartsOffset` — true for every non-empty block.
-/
namespace GoLevel.C13
open GoLevel

variable {b : BlockR} {kvs : List KV} {off : Nat → Nat} {R : Nat} {rs : Nat → Nat}
variable {cmp : Bytes → Bytes → Ordering}

structure Deg (b : BlockR) (it : BIter) (p : Pos) : Prop where
  riStart : it.riStart = b.restartsLen
  riLimit : it.riLimit = b.restartsLen
  os : it.offsetStart = b.restartsOffset
  real : it.offsetRealStart = b.restartsOffset
  limit : it.offsetLimit = b.restartsOffset
  err : it.err = none
  dir : (p = .soi ∧ it.dir = .soi) ∨ (p = .eoi ∧ it.dir = .eoi)

/-- `Next`'s body at the very end of the slice -/
theorem nextBody_deg {it : BIter} (h1 : it.offset = it.offsetLimit) (h2 : it.offsetRealStart ≤ it.offset) :
    BIter.nextBody b it = (false, { it with dir := .eoi }) := by
  have hs : BIter.nextSkip b (b.restartsOffset + 1) it = (true, it) := by
    rw [BIter.nextSkip, if_neg (by omega)]
  unfold BIter.nextBody
  rw [hs]
  simp only
  rw [if_pos (by omega), if_neg (by simp [h1])]

theorem restartsLen_le (L : Layout b kvs off R rs) (hne : kvs ≠ []) : R ≤ b.restartsOffset := by
  have h1 : ∀ r, r < R → r ≤ rs r := by
    intro r
    induction r with
    | zero => intro _; exact Nat.zero_le _
    | succ r ih =>
      intro hr
      have := ih (by omega)
      have := L.rmono r hr
      omega
  have h2 := h1 (R - 1) (by have := L.rpos; omega)
  have h3 := L.rlt (R - 1) (by have := L.rpos; omega) hne
  have h4 := L.le_off (Nat.le_refl kvs.length)
  have := L.offN
  omega

theorem deg_next {it : BIter} {p : Pos} (h : Deg b it p) :
    Deg b (BIter.next b it).2 (Cursor.next ([] : List KV) p) ∧ (BIter.next b it).1 = false := by
  rcases h.dir with ⟨rfl, hd⟩ | ⟨rfl, hd⟩
  · have hstep : BIter.next b it =
        BIter.nextBody b { it with restartIndex := it.riStart, offset := it.offsetStart } := by
      unfold BIter.next
      rw [if_neg (by rw [h.err, hd]; simp), if_neg (by rw [hd]; simp), if_pos hd]
    rw [hstep, nextBody_deg (by show it.offsetStart = it.offsetLimit; rw [h.os, h.limit])
      (by show it.offsetRealStart ≤ it.offsetStart; rw [h.os, h.real]; exact Nat.le_refl _)]
    exact ⟨⟨h.riStart, h.riLimit, h.os, h.real, h.limit, h.err, Or.inr ⟨rfl, rfl⟩⟩, rfl⟩
  · have hstep : BIter.next b it = (false, it) := by
      unfold BIter.next; rw [if_pos (Or.inl hd)]
    rw [hstep]
    exact ⟨h, rfl⟩

theorem deg_prev {it : BIter} {p : Pos} (h : Deg b it p) :
    Deg b (BIter.prev b it).2 (Cursor.prev ([] : List KV) p) ∧ (BIter.prev b it).1 = false := by
  rcases h.dir with ⟨rfl, hd⟩ | ⟨rfl, hd⟩
  · have hstep : BIter.prev b it = (false, it) := by
      unfold BIter.prev; rw [if_pos (Or.inl hd)]
    rw [hstep]
    exact ⟨h, rfl⟩
  · have hstep : BIter.prev b it =
        (false, { it with restartIndex := it.riLimit, offset := it.offsetLimit, dir := .soi }) := by
      unfold BIter.prev
      rw [if_neg (by rw [h.err, hd]; simp), if_neg (by rw [hd]; simp), if_neg (by rw [hd]; simp), if_pos hd]
      simp only
      rw [if_pos (by rw [h.limit, h.real])]
    rw [hstep]
    exact ⟨⟨h.riStart, h.riLimit, h.os, h.real, h.limit, h.err, Or.inl ⟨rfl, rfl⟩⟩, rfl⟩

theorem Deg.dropCache {it : BIter} {p : Pos} (h : Deg b it p) : it.dropCache = it := by
  unfold BIter.dropCache
  rw [if_neg]
  rcases h.dir with ⟨_, hd⟩ | ⟨_, hd⟩ <;> rw [hd] <;> simp

theorem deg_first {it : BIter} {p : Pos} (h : Deg b it p) :
    Deg b (BIter.first b it).2 (Cursor.first ([] : List KV)) ∧ (BIter.first b it).1 = false := by
  have hnr : it.dir ≠ .released := by rcases h.dir with ⟨_, hd⟩ | ⟨_, hd⟩ <;> rw [hd] <;> simp
  have hstep : BIter.first b it = BIter.next b { it with dir := .soi } := by
    unfold BIter.first
    rw [if_neg (by rw [h.err]; simp), if_neg hnr, h.dropCache]
  rw [hstep]
  exact deg_next (p := .soi) ⟨h.riStart, h.riLimit, h.os, h.real, h.limit, h.err, Or.inl ⟨rfl, rfl⟩⟩

theorem deg_last {it : BIter} {p : Pos} (h : Deg b it p) :
    Deg b (BIter.last b it).2 (Cursor.last ([] : List KV)) ∧ (BIter.last b it).1 = false := by
  have hnr : it.dir ≠ .released := by rcases h.dir with ⟨_, hd⟩ | ⟨_, hd⟩ <;> rw [hd] <;> simp
  have hstep : BIter.last b it = BIter.prev b { it with dir := .eoi } := by
    unfold BIter.last
    rw [if_neg (by rw [h.err]; simp), if_neg hnr, h.dropCache]
  rw [hstep]
  exact deg_prev (p := .eoi) ⟨h.riStart, h.riLimit, h.os, h.real, h.limit, h.err, Or.inr ⟨rfl, rfl⟩⟩

theorem deg_seek (L : Layout b kvs off R rs) (key : Bytes) {it : BIter} {p : Pos}
    (h : Deg b it p) :
    Deg b (BIter.seek cmp b key it).2 (Cursor.seek ([] : List KV) (geK cmp key)) ∧
      (BIter.seek cmp b key it).1 = false := by
  have hnr : it.dir ≠ .released := by rcases h.dir with ⟨_, hd⟩ | ⟨_, hd⟩ <;> rw [hd] <;> simp
  have hse : it.dir = .soi ∨ it.dir = .eoi := by
    rcases h.dir with ⟨_, hd⟩ | ⟨_, hd⟩
    · exact Or.inl hd
    · exact Or.inr hd
  have hR := L.rpos
  have hseekR : b.seekR cmp it.riStart it.riLimit key = some (R, b.restartsOffset) := by
    unfold BlockR.seekR
    rw [h.riStart, h.riLimit, L.rlen, Nat.sub_self]
    simp only [sortSearch, searchLoop, Nat.lt_irrefl, if_false, Nat.zero_add]
    rw [if_pos (by omega), if_pos (Nat.le_refl R)]
  have hmax : max it.offsetStart b.restartsOffset = it.offsetLimit := by
    rw [h.os, h.limit]
    omega
  have hstep : BIter.seek cmp b key it = BIter.seekLoop cmp b key (b.restartsOffset + 1)
      { it with restartIndex := R, offset := max it.offsetStart b.restartsOffset, dir := .forward } := by
    unfold BIter.seek
    rw [if_neg (by rw [h.err]; simp), if_neg hnr, hseekR]
    simp only
    rw [if_pos hse]
  have hnext : BIter.next b { it with restartIndex := R, offset := max it.offsetStart b.restartsOffset, dir := .forward } =
      (false, { it with restartIndex := R, offset := max it.offsetStart b.restartsOffset, dir := .eoi }) := by
    unfold BIter.next
    rw [if_neg (by show ¬ (BDir.forward = BDir.eoi ∨ it.err.isSome = true); rw [h.err]; simp),
      if_neg (by show ¬ (BDir.forward = BDir.released); simp),
      if_neg (by show ¬ (BDir.forward = BDir.soi); simp)]
    have hdc : BIter.dropCache { it with restartIndex := R, offset := max it.offsetStart b.restartsOffset, dir := .forward } =
        { it with restartIndex := R, offset := max it.offsetStart b.restartsOffset, dir := .forward } := by
      simp [BIter.dropCache]
    have hle : it.offsetRealStart ≤ max it.offsetStart b.restartsOffset := by rw [h.real, h.os]; omega
    rw [hdc, nextBody_deg hmax hle]
  rw [hstep, BIter.seekLoop, hnext]
  exact ⟨⟨h.riStart, h.riLimit, h.os, h.real, h.limit, h.err, Or.inr ⟨by simp [Cursor.seek], rfl⟩⟩, rfl⟩

theorem deg_step (L : Layout b kvs off R rs) (cl : Call Bytes) {it : BIter} {p : Pos}
    (h : Deg b it p) :
    Deg b (BIter.step cmp b cl it).2 (Cursor.step ([] : List KV) (geK cmp) cl p) ∧
      (BIter.step cmp b cl it).1 = false := by
  cases cl with
  | first => exact deg_first h
  | last => exact deg_last h
  | seek k => exact deg_seek L k h
  | next => exact deg_next h
  | prev => exact deg_prev h

theorem deg_exec (L : Layout b kvs off R rs) (cs : List (Call Bytes)) :
    ∀ {it : BIter} {p : Pos}, Deg b it p → (BIter.exec cmp b it cs).err = none := by
  induction cs with
  | nil => intro it p h; exact h.err
  | cons cl cs ih =>
    intro it p h
    exact ih (deg_step L cl h).1

theorem deg_run (L : Layout b kvs off R rs) (cs : List (Call Bytes)) :
    ∀ {it : BIter} {p : Pos}, Deg b it p →
    BIter.run cmp b it cs = (Cursor.run ([] : List KV) (geK cmp) p cs).map fun o => (o.isSome, o) := by
  induction cs with
  | nil => intro it p _; rfl
  | cons cl cs ih =>
    intro it p h
    obtain ⟨h1, h2⟩ := deg_step (cmp := cmp) L cl h
    have hcur : (BIter.step cmp b cl it).2.cur = none := by
      have hd : (BIter.step cmp b cl it).2.dir = .soi ∨ (BIter.step cmp b cl it).2.dir = .eoi := by
        rcases h1.dir with ⟨_, hd⟩ | ⟨_, hd⟩
        · exact Or.inl hd
        · exact Or.inr hd
      rcases hd with hd | hd <;> simp [BIter.cur, BIter.valid, hd]
    have hget : Cursor.get ([] : List KV) (Cursor.step ([] : List KV) (geK cmp) cl p) = none := by
      cases Cursor.step ([] : List KV) (geK cmp) cl p <;> simp [Cursor.get]
    simp only [BIter.run, Cursor.run, List.map_cons]
    rw [ih h1, h2, hcur, hget]
    rfl

end GoLevel.C13
