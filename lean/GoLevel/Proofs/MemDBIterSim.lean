import GoLevel.Proofs.MemDBIterOps
/-! `dbIter` simulates the specification cursor over the range-filtered sorted pairs (C14). -/
set_option linter.unusedSectionVars false
set_option linter.unusedSimpArgs false
namespace GoLevel.MemDB

variable {cmp : Cmp}

/-- iterator state (`node`, `forward`) against a cursor position over the slice keys `S` -/
def RelPos (S : List Bytes) (nd : Node) (fw : Bool) : Pos → Prop
  | .soi => nd = none ∧ fw = false
  | .eoi => nd = none ∧ fw = true
  | .at i => ∃ k S1 S2, nd = some k ∧ S = S1 ++ k :: S2 ∧ i = S1.length

theorem findIdx?_split {α : Type} (p : α → Bool) (l1 : List α) (a : α) (l2 : List α)
    (h1 : ∀ x ∈ l1, p x = false) (ha : p a = true) : (l1 ++ a :: l2).findIdx? p = some l1.length := by
  induction l1 with
  | nil => simp [List.findIdx?_cons, ha]
  | cons x xs ih =>
    have hx : p x = false := h1 x (by simp)
    have := ih (fun y hy => h1 y (by simp [hy]))
    simp [List.findIdx?_cons, hx, this]

theorem slice_abs (db : DB) (st lm : Option Bytes) :
    SMap.slice cmp st lm db.abs = (db.sliceKeys cmp st lm).map db.pair := by
  unfold SMap.slice DB.sliceKeys
  rw [abs_eq, List.filter_map]
  congr 1
  apply List.filter_congr
  intro x _
  cases st <;> cases lm <;> simp [inR, ps, pl, DB.pair, bne]

theorem rel_first (S : List Bytes) (f : Bytes → Bytes × Bytes) :
    RelPos S S.head? true (Cursor.first (S.map f)) := by
  cases S with
  | nil => simp [Cursor.first, RelPos]
  | cons y ys => exact ⟨y, [], ys, rfl, rfl, rfl⟩

theorem rel_last (S : List Bytes) (f : Bytes → Bytes × Bytes) :
    RelPos S S.getLast? false (Cursor.last (S.map f)) := by
  cases hl : S.getLast? with
  | none =>
    have : S = [] := List.getLast?_eq_none_iff.1 hl
    subst this; simp [Cursor.last, RelPos]
  | some z =>
    obtain ⟨S1, rfl⟩ := List.getLast?_eq_some_iff.1 hl
    have : Cursor.last ((S1 ++ [z]).map f) = .at S1.length := by simp [Cursor.last]
    rw [this]
    exact ⟨z, S1, [], rfl, rfl, rfl⟩

theorem rel_seek (S : List Bytes) (db : DB) (key : Bytes) :
    RelPos S (S.find? (fun x => !below cmp key x)) true (Cursor.seek (S.map db.pair) (SMap.ge cmp key)) := by
  unfold Cursor.seek
  cases hf : S.find? (fun x => !below cmp key x) with
  | none =>
    have hall := List.find?_eq_none.1 hf
    have : (S.map db.pair).findIdx? (SMap.ge cmp key) = none := by
      apply List.findIdx?_eq_none_iff.2
      intro p hp
      obtain ⟨x, hx, rfl⟩ := List.mem_map.1 hp
      have := hall x hx
      simpa [SMap.ge, DB.pair, below, bne] using this
    rw [this]; exact ⟨rfl, rfl⟩
  | some y =>
    obtain ⟨hy, S1, S2, rfl, h1⟩ := List.find?_eq_some_iff_append.1 hf
    have : ((S1 ++ y :: S2).map db.pair).findIdx? (SMap.ge cmp key) = some S1.length := by
      rw [List.map_append, List.map_cons]
      have := findIdx?_split (SMap.ge cmp key) (S1.map db.pair) (db.pair y) (S2.map db.pair) ?_ ?_
      · simpa using this
      · intro p hp
        obtain ⟨x, hx, rfl⟩ := List.mem_map.1 hp
        have := h1 x hx
        simpa [SMap.ge, DB.pair, below, bne] using this
      · simpa [SMap.ge, DB.pair, below, bne] using hy
    rw [this]
    exact ⟨y, S1, S2, rfl, rfl, rfl⟩

theorem out_rel {S : List Bytes} {nd : Node} {fw : Bool} {p : Pos} (db : DB) (st lm : Option Bytes)
    (h : RelPos S nd fw p) : (Iter.mk st lm nd fw).out db = Cursor.get (S.map db.pair) p := by
  cases p with
  | soi => simp [RelPos] at h; simp [Iter.out, Cursor.get, h.1]
  | eoi => simp [RelPos] at h; simp [Iter.out, Cursor.get, h.1]
  | «at» i =>
    obtain ⟨k, S1, S2, rfl, rfl, rfl⟩ := h
    simp [Iter.out, Cursor.get, DB.pair]

section
variable (hc : LawfulCmp cmp)
include hc

/-- one call: the slice bounds stay, the new state matches the cursor's new position -/
theorem step_rel {db : DB} (h : Inv cmp db) (st lm : Option Bytes) (c : Call Bytes) (nd : Node) (fw : Bool)
    (p : Pos) (hrel : RelPos (db.sliceKeys cmp st lm) nd fw p) :
    ∃ nd' fw', Iter.step cmp db c (Iter.mk st lm nd fw) = Iter.mk st lm nd' fw' ∧
      RelPos (db.sliceKeys cmp st lm) nd' fw'
        (Cursor.step ((db.sliceKeys cmp st lm).map db.pair) (SMap.ge cmp) c p) := by
  cases c with
  | first => exact ⟨_, _, iter_first hc h st lm nd fw, rel_first _ _⟩
  | last => exact ⟨_, _, iter_last hc h st lm nd fw, rel_last _ _⟩
  | seek key => exact ⟨_, _, iter_seek hc h st lm nd fw key, rel_seek _ _ _⟩
  | next =>
    cases p with
    | soi =>
      obtain ⟨rfl, rfl⟩ := hrel
      refine ⟨_, _, ?_, rel_first _ _⟩
      simp only [Iter.step, Iter.next]
      exact iter_first hc h st lm none false
    | eoi =>
      obtain ⟨rfl, rfl⟩ := hrel
      exact ⟨none, true, by simp [Iter.step, Iter.next], ⟨rfl, rfl⟩⟩
    | «at» i =>
      obtain ⟨k, S1, S2, rfl, hS, rfl⟩ := hrel
      refine ⟨_, _, iter_next_at hc h st lm fw hS, ?_⟩
      simp only [Cursor.step, Cursor.next, List.length_map, hS, List.length_append, List.length_cons]
      cases S2 with
      | nil => simp [RelPos]
      | cons y ys =>
        have : S1.length + 1 < S1.length + ((y :: ys).length + 1) := by simp
        simp only [this, if_true]
        exact ⟨y, S1 ++ [k], ys, rfl, by simp, by simp⟩
  | prev =>
    cases p with
    | eoi =>
      obtain ⟨rfl, rfl⟩ := hrel
      refine ⟨_, _, ?_, rel_last _ _⟩
      simp only [Iter.step, Iter.prev]
      exact iter_last hc h st lm none true
    | soi =>
      obtain ⟨rfl, rfl⟩ := hrel
      exact ⟨none, false, by simp [Iter.step, Iter.prev], ⟨rfl, rfl⟩⟩
    | «at» i =>
      obtain ⟨k, S1, S2, rfl, hS, rfl⟩ := hrel
      refine ⟨_, _, iter_prev_at hc h st lm fw hS, ?_⟩
      simp only [Cursor.step, Cursor.prev]
      cases hl : S1.getLast? with
      | none =>
        have : S1 = [] := List.getLast?_eq_none_iff.1 hl
        subst this; simp [RelPos]
      | some z =>
        obtain ⟨S0, rfl⟩ := List.getLast?_eq_some_iff.1 hl
        have : (S0 ++ [z]).length ≠ 0 := by simp
        simp only [this, if_false]
        exact ⟨z, S0, k :: S2, rfl, by simp [hS], by simp⟩

theorem run_rel {db : DB} (h : Inv cmp db) (st lm : Option Bytes) : ∀ (cs : List (Call Bytes)) (nd : Node)
    (fw : Bool) (p : Pos), RelPos (db.sliceKeys cmp st lm) nd fw p →
    Iter.run cmp db (Iter.mk st lm nd fw) cs =
      Cursor.run ((db.sliceKeys cmp st lm).map db.pair) (SMap.ge cmp) p cs := by
  intro cs
  induction cs with
  | nil => intro _ _ _ _; rfl
  | cons c cs ih =>
    intro nd fw p hrel
    obtain ⟨nd', fw', hstep, hrel'⟩ := step_rel hc h st lm c nd fw p hrel
    simp only [Iter.run, Cursor.run, hstep]
    rw [out_rel db st lm hrel', ih nd' fw' _ hrel']

/-- a fresh iterator (`NewIterator`) over an unchanging table -/
theorem iter_run_eq_cursor {db : DB} (h : Inv cmp db) (st lm : Option Bytes) (cs : List (Call Bytes)) :
    Iter.run cmp db { start := st, limit := lm } cs =
      Cursor.run (SMap.slice cmp st lm db.abs) (SMap.ge cmp) .soi cs := by
  rw [slice_abs]
  exact run_rel hc h st lm cs none false .soi ⟨rfl, rfl⟩

end

end GoLevel.MemDB
