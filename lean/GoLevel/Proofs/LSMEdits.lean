import GoLevel.Proofs.LSMWf
/-!
# The three edits the DB applies: memdb flush, table compaction, trivial move

* `flushEdit` / `flush_wf`,
* `replaceEdit` / `replace_wf`: tables `S0` of level `ℓ` and `S1` of level `ℓ+1` replaced by tables at `ℓ+1`
  whose entries come from `S0 ∪ S1` (covers both the real compaction and the trivial move),
* `legalCut` pieces of a sorted list are pairwise disjoint and ordered.
Core Lean only.
-/
namespace GoLevel

section overlap
variable {c : UCmp} (hl : LawfulUCmp c)
include hl

theorem not_overlapsRange_iff (x : Table) (umin umax : Bytes) :
    x.overlapsRange c umin umax = false ↔ c.lt x.imax.ukey umin ∨ c.lt umax x.imin.ukey := by
  unfold Table.overlapsRange
  rw [Bool.and_eq_false_iff, ← Bool.not_eq_true, ← Bool.not_eq_true, bne_gt_iff, bne_lt_iff hl,
    not_ule_iff hl, not_ule_iff hl]

theorem overlapsRange_iff (x : Table) (umin umax : Bytes) :
    x.overlapsRange c umin umax = true ↔ c.le umin x.imax.ukey ∧ c.le x.imin.ukey umax := by
  unfold Table.overlapsRange
  rw [Bool.and_eq_true, bne_gt_iff, bne_lt_iff hl]

/-- tables with disjoint user-key ranges share no user key -/
theorem no_shared_key {x t : Table} (hx : x.wfB c = true) (ht : t.wfB c = true)
    (h : tlt c x t ∨ tlt c t x) : ∀ a ∈ x.entries, ∀ b ∈ t.entries, a.ukey ≠ b.ukey := by
  intro a ha b hb hab
  have ha' := Table.wf_bounds hl hx a ha
  have hb' := Table.wf_bounds hl ht b hb
  rcases h with h | h
  · have := ult_of_ult_of_ule hl (ult_of_ule_of_ult hl ha'.2 h) hb'.1
    rw [hab] at this; exact ult_irrefl hl _ this
  · have := ult_of_ult_of_ule hl (ult_of_ule_of_ult hl hb'.2 h) ha'.1
    rw [hab] at this; exact ult_irrefl hl _ this

theorem newerThan_of_disjoint {x t : Table} (hx : x.wfB c = true) (ht : t.wfB c = true)
    (h : tlt c x t ∨ tlt c t x) : NewerThan x.entries t.entries :=
  fun a ha b hb hk => absurd hk (no_shared_key hl hx ht h a ha b hb)

omit hl in
theorem pairwise_ne_cases {α : Type} {R : α → α → Prop} {l : List α} (hp : l.Pairwise R) {a b : α}
    (ha : a ∈ l) (hb : b ∈ l) (hne : a ≠ b) : R a b ∨ R b a := by
  induction l with
  | nil => cases ha
  | cons x xs ih =>
    obtain ⟨hx, hxs⟩ := List.pairwise_cons.1 hp
    rcases List.mem_cons.1 ha with rfl | ha' <;> rcases List.mem_cons.1 hb with rfl | hb'
    · exact absurd rfl hne
    · exact .inl (hx b hb')
    · exact .inr (hx a ha')
    · exact ih hxs ha' hb'

end overlap

/-! ## memdb flush -/

/-- the edit `flushMemdb` commits: one new table at the level `pickMemdbLevel` chose -/
def flushEdit (L : Nat) (t : Table) : Edit := ⟨[], [(L, t)]⟩

theorem flush_wf {c : UCmp} (hl : LawfulUCmp c) (v : Version) (t : Table) (L : Nat)
    (hv : v.wfB c = true) (ht : t.wfB c = true) (hnew : NewerThan t.entries v.entries)
    (hno : L = 0 ∨ ∀ i, i ≤ L → ∀ x ∈ v.lvl i, x.overlapsRange c t.imin.ukey t.imax.ukey = false) :
    (v.apply c (flushEdit L t)).wfB c = true := by
  have hw := (Version.wfB_iff_WFi hl v).1 hv
  have hsurv : ∀ i x, x ∈ v.survivors (flushEdit L t) i → x ∈ v.lvl i :=
    fun i x hx => ((v.mem_survivors _ i x).1 hx).1
  have hdis : ∀ i, i ≤ L → L ≠ 0 → ∀ x ∈ v.lvl i, tlt c t x ∨ tlt c x t := by
    intro i hi hL x hx
    rcases hno with h | h
    · exact absurd h hL
    · rcases (not_overlapsRange_iff hl x _ _).1 (h i hi x hx) with h' | h'
      · exact .inr h'
      · exact .inl h'
  apply apply_wf hl v _ hv
  refine ⟨?_, ?_, ?_, ?_, ?_, ?_⟩
  · intro p hp
    have : p = (L, t) := by simpa [flushEdit] using hp
    subst this; exact ht
  · intro p hp h1 x hx
    have : p = (L, t) := by simpa [flushEdit] using hp
    subst this
    exact hdis L (Nat.le_refl _) (by simp only at h1; omega) x (hsurv _ x hx)
  · simp [flushEdit]
  · intro p hp j _
    have : p = (L, t) := by simpa [flushEdit] using hp
    subst this
    apply hnew.mono (fun _ h => h)
    intro b hb
    obtain ⟨x, hx, hbx⟩ := Level.mem_entries.1 hb
    exact Version.mem_entries.2 ⟨j, Level.mem_entries.2 ⟨x, hsurv j x hx, hbx⟩⟩
  · intro p hp i hi
    have : p = (L, t) := by simpa [flushEdit] using hp
    subst this
    simp only at hi
    intro a ha b hb hk
    obtain ⟨x, hx, hax⟩ := Level.mem_entries.1 ha
    have hxl := hsurv i x hx
    have := hdis i (by omega) (by omega) x hxl
    exact absurd hk (no_shared_key hl (hw.tables i x hxl) ht (this.symm) a hax b hb)
  · intro p hp q hq hpq
    have h1 : p = (L, t) := by simpa [flushEdit] using hp
    have h2 : q = (L, t) := by simpa [flushEdit] using hq
    subst h1; subst h2
    simp at hpq

/-! ## replacing tables of levels `ℓ`, `ℓ+1` by tables at `ℓ+1` -/

/-- the edit a table compaction (or a trivial move) commits -/
def replaceEdit (ℓ : Nat) (S0 S1 nts : List Table) : Edit :=
  ⟨S0.map (fun t => (ℓ, t.num)) ++ S1.map (fun t => (ℓ + 1, t.num)), nts.map (fun t => (ℓ + 1, t))⟩

theorem replaceEdit_deleted_src (ℓ : Nat) (S0 S1 nts : List Table) {x : Table} (hx : x ∈ S0) :
    (ℓ, x.num) ∈ (replaceEdit ℓ S0 S1 nts).deleted := by
  simp only [replaceEdit, List.mem_append, List.mem_map]
  exact .inl ⟨x, hx, rfl⟩

theorem replaceEdit_deleted_dst (ℓ : Nat) (S0 S1 nts : List Table) {x : Table} (hx : x ∈ S1) :
    (ℓ + 1, x.num) ∈ (replaceEdit ℓ S0 S1 nts).deleted := by
  simp only [replaceEdit, List.mem_append, List.mem_map]
  exact .inr ⟨x, hx, rfl⟩

theorem replaceEdit_added (ℓ : Nat) (S0 S1 nts : List Table) (p : Nat × Table) :
    p ∈ (replaceEdit ℓ S0 S1 nts).added ↔ p.1 = ℓ + 1 ∧ p.2 ∈ nts := by
  simp only [replaceEdit, List.mem_map]
  constructor
  · rintro ⟨t, ht, rfl⟩; exact ⟨rfl, ht⟩
  · rintro ⟨h1, h2⟩; exact ⟨p.2, h2, by rw [← h1]⟩

section replace
variable {c : UCmp} (hl : LawfulUCmp c)
include hl

/-- a table of level `ℓ+1` that is not picked up lies entirely on one side of everything that is merged -/
theorem survivor_side (v : Version) (ℓ : Nat) (S0 S1 : List Table) (umin umax : Bytes)
    (hw : v.WFi c)
    (hS0sub : ∀ t ∈ S0, t ∈ v.lvl ℓ) (hS1sub : ∀ t ∈ S1, t ∈ v.lvl (ℓ + 1))
    (hrange : ∀ t ∈ S0, c.le umin t.imin.ukey ∧ c.le t.imax.ukey umax)
    (hS1 : ∀ t ∈ v.lvl (ℓ + 1), t.overlapsRange c umin umax = true ↔ t ∈ S1) :
    ∀ x ∈ v.lvl (ℓ + 1), x ∉ S1 →
      (∀ s ∈ S0 ++ S1, ∀ b ∈ s.entries, c.lt x.imax.ukey b.ukey) ∨
      (∀ s ∈ S0 ++ S1, ∀ b ∈ s.entries, c.lt b.ukey x.imin.ukey) := by
    intro x hx hxS1
    have hxwf := hw.tables _ x hx
    have hxle := Table.wf_imin_le_imax hl hxwf
    have hno : x.overlapsRange c umin umax = false := by
      cases h : x.overlapsRange c umin umax with
      | false => rfl
      | true => exact absurd ((hS1 x hx).1 h) hxS1
    have hpw := hw.disjoint (ℓ + 1) (by omega)
    rcases (not_overlapsRange_iff hl x umin umax).1 hno with hcase | hcase
    · left
      intro s hs b hb
      rcases List.mem_append.1 hs with h | h
      · have hswf := hw.tables _ s (hS0sub s h)
        exact ult_of_ult_of_ule hl hcase (ule_trans hl (hrange s h).1 (Table.wf_bounds hl hswf b hb).1)
      · have hsl := hS1sub s h
        have hswf := hw.tables _ s hsl
        have hov := (overlapsRange_iff hl s umin umax).1 ((hS1 s hsl).2 h)
        have hne : x ≠ s := fun e => hxS1 (e ▸ h)
        rcases pairwise_ne_cases hpw hx hsl hne with h' | h'
        · exact ult_of_ult_of_ule hl h' (Table.wf_bounds hl hswf b hb).1
        · exfalso
          have : c.lt s.imax.ukey s.imax.ukey :=
            ult_of_ult_of_ule hl (ult_trans hl (ult_of_ult_of_ule hl h' hxle) hcase) hov.1
          exact ult_irrefl hl _ this
    · right
      intro s hs b hb
      rcases List.mem_append.1 hs with h | h
      · have hswf := hw.tables _ s (hS0sub s h)
        exact ult_of_ule_of_ult hl (ule_trans hl (Table.wf_bounds hl hswf b hb).2 (hrange s h).2) hcase
      · have hsl := hS1sub s h
        have hswf := hw.tables _ s hsl
        have hov := (overlapsRange_iff hl s umin umax).1 ((hS1 s hsl).2 h)
        have hne : x ≠ s := fun e => hxS1 (e ▸ h)
        rcases pairwise_ne_cases hpw hx hsl hne with h' | h'
        · exfalso
          have : c.lt s.imin.ukey s.imin.ukey :=
            ult_of_ule_of_ult hl hov.2 (ult_of_ult_of_ule hl hcase (ule_trans hl hxle (ule_of_ult hl h')))
          exact ult_irrefl hl _ this
        · exact ult_of_ule_of_ult hl (Table.wf_bounds hl hswf b hb).2 h'

/-- **Generic replacement.**  `umin`/`umax` bound the user keys of `S0`; `S1` is exactly the set of
tables of level `ℓ+1` whose user-key range meets `[umin, umax]` under the user comparer; the tables left
behind at level `ℓ` hold, per user key, only newer entries than `S0`. -/
theorem replace_wf (v : Version) (ℓ : Nat) (S0 S1 nts : List Table) (umin umax : Bytes)
    (hv : v.wfB c = true)
    (hS0sub : ∀ t ∈ S0, t ∈ v.lvl ℓ) (hS1sub : ∀ t ∈ S1, t ∈ v.lvl (ℓ + 1))
    (hnt_wf : ∀ t ∈ nts, t.wfB c = true)
    (hnt_sub : ∀ t ∈ nts, ∀ x ∈ t.entries, ∃ s ∈ S0 ++ S1, x ∈ s.entries)
    (hnt_pw : nts.Pairwise (fun a b => tlt c a b ∨ tlt c b a))
    (hrange : ∀ t ∈ S0, c.le umin t.imin.ukey ∧ c.le t.imax.ukey umax)
    (hS1 : ∀ t ∈ v.lvl (ℓ + 1), t.overlapsRange c umin umax = true ↔ t ∈ S1)
    (hsrc : ∀ x ∈ v.lvl ℓ, x ∉ S0 → NewerThan x.entries (Level.entries S0)) :
    (v.apply c (replaceEdit ℓ S0 S1 nts)).wfB c = true := by
  have hw := (Version.wfB_iff_WFi hl v).1 hv
  have hsurv : ∀ i x, x ∈ v.survivors (replaceEdit ℓ S0 S1 nts) i → x ∈ v.lvl i :=
    fun i x hx => ((v.mem_survivors _ i x).1 hx).1
  have hsurv0 : ∀ x, x ∈ v.survivors (replaceEdit ℓ S0 S1 nts) ℓ → x ∉ S0 :=
    fun x hx h => ((v.mem_survivors _ ℓ x).1 hx).2 (replaceEdit_deleted_src ℓ S0 S1 nts h)
  have hsurv1 : ∀ x, x ∈ v.survivors (replaceEdit ℓ S0 S1 nts) (ℓ + 1) → x ∉ S1 :=
    fun x hx h => ((v.mem_survivors _ (ℓ + 1) x).1 hx).2 (replaceEdit_deleted_dst ℓ S0 S1 nts h)
  -- where the entries of the new tables come from
  have hfrom : ∀ t ∈ nts, ∀ a ∈ t.entries,
      a ∈ Level.entries (v.lvl ℓ) ∨ a ∈ Level.entries (v.lvl (ℓ + 1)) := by
    intro t ht a ha
    obtain ⟨s, hs, has⟩ := hnt_sub t ht a ha
    rcases List.mem_append.1 hs with h | h
    · exact .inl (Level.mem_entries.2 ⟨s, hS0sub s h, has⟩)
    · exact .inr (Level.mem_entries.2 ⟨s, hS1sub s h, has⟩)
  have hside := survivor_side hl v ℓ S0 S1 umin umax hw hS0sub hS1sub hrange hS1
  apply apply_wf hl v _ hv
  refine ⟨?_, ?_, ?_, ?_, ?_, ?_⟩
  · intro p hp
    exact hnt_wf p.2 ((replaceEdit_added ℓ S0 S1 nts p).1 hp).2
  · intro p hp _ x hx
    obtain ⟨hp1, hp2⟩ := (replaceEdit_added ℓ S0 S1 nts p).1 hp
    rw [hp1] at hx
    have hpwf := hnt_wf p.2 hp2
    rcases hside x (hsurv _ x hx) (hsurv1 x hx) with h | h
    · right
      obtain ⟨f, hf, hfk⟩ := Table.wf_imin_mem hpwf
      obtain ⟨s, hs, hfs⟩ := hnt_sub p.2 hp2 f hf
      have := h s hs f hfs
      unfold tlt; rw [← hfk]; exact this
    · left
      obtain ⟨⟨la, hla, hlk⟩, _⟩ := Table.wf_imax hl hpwf
      obtain ⟨s, hs, hls⟩ := hnt_sub p.2 hp2 la hla
      have := h s hs la hls
      unfold tlt; rw [← hlk]; exact this
  · simp only [replaceEdit]
    rw [List.pairwise_map]
    exact hnt_pw.imp (fun h _ _ => h)
  · intro p hp j hj
    obtain ⟨hp1, hp2⟩ := (replaceEdit_added ℓ S0 S1 nts p).1 hp
    intro a ha b hb hk
    obtain ⟨x, hx, hbx⟩ := Level.mem_entries.1 hb
    have hb' : b ∈ Level.entries (v.lvl j) := Level.mem_entries.2 ⟨x, hsurv j x hx, hbx⟩
    rcases hfrom p.2 hp2 a ha with h | h
    · exact hw.ordered ℓ j (by omega) a h b hb' hk
    · exact hw.ordered (ℓ + 1) j (by omega) a h b hb' hk
  · intro p hp i hi
    obtain ⟨hp1, hp2⟩ := (replaceEdit_added ℓ S0 S1 nts p).1 hp
    intro a ha b hb hk
    obtain ⟨x, hx, hax⟩ := Level.mem_entries.1 ha
    have ha' : a ∈ Level.entries (v.lvl i) := Level.mem_entries.2 ⟨x, hsurv i x hx, hax⟩
    obtain ⟨s, hs, hbs⟩ := hnt_sub p.2 hp2 b hb
    rcases List.mem_append.1 hs with h | h
    · by_cases hil : i = ℓ
      · subst hil
        exact hsrc x (hsurv _ x hx) (hsurv0 x hx) a hax b (Level.mem_entries.2 ⟨s, h, hbs⟩) hk
      · exact hw.ordered i ℓ (by omega) a ha' b (Level.mem_entries.2 ⟨s, hS0sub s h, hbs⟩) hk
    · exact hw.ordered i (ℓ + 1) (by omega) a ha' b (Level.mem_entries.2 ⟨s, hS1sub s h, hbs⟩) hk
  · intro p hp q hq hpq
    have h1 := ((replaceEdit_added ℓ S0 S1 nts p).1 hp).1
    have h2 := ((replaceEdit_added ℓ S0 S1 nts q).1 hq).1
    omega

/-- the side condition on the source level: automatic for `ℓ ≥ 1`, and for `ℓ = 0` implied by `S0` being
closed under user-key overlap within level 0 (what `expand` obtains from `getOverlaps(…, true)`) -/
theorem src_newer_of_closed (v : Version) (ℓ : Nat) (S0 : List Table) (umin umax : Bytes)
    (hv : v.wfB c = true) (hS0sub : ∀ t ∈ S0, t ∈ v.lvl ℓ)
    (hrange : ∀ t ∈ S0, c.le umin t.imin.ukey ∧ c.le t.imax.ukey umax)
    (hL0 : ℓ = 0 → ∀ x ∈ v.lvl 0, x ∉ S0 → x.overlapsRange c umin umax = false) :
    ∀ x ∈ v.lvl ℓ, x ∉ S0 → NewerThan x.entries (Level.entries S0) := by
  have hw := (Version.wfB_iff_WFi hl v).1 hv
  intro x hx hxS0 a ha b hb hk
  obtain ⟨s, hs, hbs⟩ := Level.mem_entries.1 hb
  have hxwf := hw.tables ℓ x hx
  have hswf := hw.tables ℓ s (hS0sub s hs)
  have hdis : tlt c x s ∨ tlt c s x := by
    by_cases h0 : ℓ = 0
    · subst h0
      rcases (not_overlapsRange_iff hl x umin umax).1 (hL0 rfl x hx hxS0) with h | h
      · exact .inl (ult_of_ult_of_ule hl h (hrange s hs).1)
      · exact .inr (ult_of_ule_of_ult hl (hrange s hs).2 h)
    · exact pairwise_ne_cases (hw.disjoint ℓ (by omega)) hx (hS0sub s hs) (fun e => hxS0 (e ▸ hs))
  exact absurd hk (no_shared_key hl hxwf hswf hdis a ha b hbs)

end replace

/-! ## cutting the builder output into tables -/

section cut
variable {c : UCmp} (hl : LawfulUCmp c)

theorem legalCut_parts {out : List Entry} {pieces : List (List Entry)} (h : legalCut c out pieces = true) :
    pieces.flatten = out ∧ (∀ p ∈ pieces, p ≠ []) ∧
    (List.zip pieces pieces.tail).all (fun (a, b) =>
      match a.getLast?, b.head? with
      | some x, some y => c.cmp x.ukey y.ukey != .eq
      | _, _ => false) = true := by
  simp only [legalCut, Bool.and_eq_true, decide_eq_true_eq, List.all_eq_true] at h
  refine ⟨h.1.1, ?_, ?_⟩
  · intro p hp hnil
    have := h.1.2 p hp
    rw [hnil] at this; simp at this
  · simp only [List.all_eq_true]; exact h.2

include hl in
/-- pieces of a legal cut of a sorted list: every user key of an earlier piece is strictly below every
user key of a later piece -/
theorem cut_pairwise (pieces : List (List Entry)) (hs : ESorted c pieces.flatten)
    (hne : ∀ p ∈ pieces, p ≠ [])
    (hadj : (List.zip pieces pieces.tail).all (fun (a, b) =>
      match a.getLast?, b.head? with
      | some x, some y => c.cmp x.ukey y.ukey != .eq
      | _, _ => false) = true) :
    pieces.Pairwise (fun p q => ∀ x ∈ p, ∀ y ∈ q, c.lt x.ukey y.ukey) := by
  induction pieces with
  | nil => exact List.Pairwise.nil
  | cons p rest ih =>
    rw [List.flatten_cons] at hs
    obtain ⟨hsp, hsrest, hcross⟩ := List.pairwise_append.1 hs
    cases rest with
    | nil => exact List.pairwise_cons.2 ⟨by simp, List.Pairwise.nil⟩
    | cons q rest' =>
      simp only [List.tail_cons, List.zip_cons_cons, List.all_cons, Bool.and_eq_true] at hadj
      obtain ⟨hpq, hadj'⟩ := hadj
      refine List.pairwise_cons.2 ⟨?_, ih hsrest (fun r hr => hne r (List.mem_cons_of_mem _ hr)) hadj'⟩
      -- last of p, head of q
      have hpne := hne p (by simp)
      have hqne := hne q (by simp)
      obtain ⟨x, hx⟩ : ∃ x, p.getLast? = some x := by
        cases h : p.getLast? with
        | none => exact absurd (List.getLast?_eq_none_iff.1 h) hpne
        | some x => exact ⟨x, rfl⟩
      obtain ⟨y, hy⟩ : ∃ y, q.head? = some y := by
        cases q with
        | nil => exact absurd rfl hqne
        | cons y ys => exact ⟨y, rfl⟩
      simp only [hx, hy, bne_iff_ne, ne_eq] at hpq
      have hxp : x ∈ p := List.mem_of_getLast? hx
      have hyq : y ∈ q := List.mem_of_head? hy
      have hxy : c.lt x.ukey y.ukey := by
        have hlt : ecmp c x y = .lt := hcross x hxp y (by simp [hyq])
        rcases (ecmp_lt_iff hl x y).1 hlt with h | ⟨h, _⟩
        · exact h
        · exact absurd ((ucmp_eq_iff hl _ _).2 h) hpq
      intro r hr x' hx' z hz
      have h1 : c.le x'.ukey x.ukey := ESorted.ule_getLast hl hsp hx x' hx'
      have h2 : c.le y.ukey z.ukey := by
        rw [List.flatten_cons] at hsrest
        obtain ⟨hsq, _, hcross'⟩ := List.pairwise_append.1 hsrest
        rcases List.mem_cons.1 hr with rfl | hr
        · cases r with
          | nil => cases hz
          | cons y' ys =>
            have : y' = y := by simpa using hy
            subst this
            exact ESorted.head_ule hl hsq z hz
        · exact ecmp_ule hl (hcross' y hyq z (List.mem_flatten.2 ⟨r, hr, hz⟩))
      exact ult_of_ult_of_ule hl (ult_of_ule_of_ult hl h1 hxy) h2

include hl in
/-- the tables made from a legal cut are pairwise disjoint and in order -/
theorem legalCut_tables_pairwise (out : List Entry) (nts : List Table) (hs : ESorted c out)
    (hcut : legalCut c out (nts.map (·.entries)) = true) (hwf : ∀ t ∈ nts, t.wfB c = true) :
    nts.Pairwise (tlt c) := by
  obtain ⟨hflat, hne, hadj⟩ := legalCut_parts hcut
  have := cut_pairwise hl (nts.map (·.entries)) (by rw [hflat]; exact hs) hne hadj
  rw [List.pairwise_map] at this
  refine List.Pairwise.imp_of_mem ?_ this
  intro a b ha hb h
  obtain ⟨⟨la, hla, hlk⟩, _⟩ := Table.wf_imax hl (hwf a ha)
  obtain ⟨f, hf, hfk⟩ := Table.wf_imin_mem (hwf b hb)
  unfold tlt
  rw [← hlk, ← hfk]
  exact h la hla f hf

theorem legalCut_mem (out : List Entry) (nts : List Table)
    (hcut : legalCut c out (nts.map (·.entries)) = true) (x : Entry) :
    x ∈ out ↔ ∃ t ∈ nts, x ∈ t.entries := by
  obtain ⟨hflat, -, -⟩ := legalCut_parts hcut
  rw [← hflat, List.mem_flatten]
  constructor
  · rintro ⟨l, hl', hx⟩
    obtain ⟨t, ht, rfl⟩ := List.mem_map.1 hl'
    exact ⟨t, ht, hx⟩
  · rintro ⟨t, ht, hx⟩
    exact ⟨_, List.mem_map.2 ⟨t, ht, rfl⟩, hx⟩

end cut

/-! ## table compaction and trivial move -/

section compaction
variable {c : UCmp} (hl : LawfulUCmp c)
include hl

/-- **A table compaction keeps the version well formed.** -/
theorem compaction_wf (v : Version) (ℓ : Nat) (S0 S1 nts : List Table) (minSeq : Nat)
    (base : Bytes → Bool) (umin umax : Bytes)
    (hv : v.wfB c = true)
    (hS0sub : ∀ t ∈ S0, t ∈ v.lvl ℓ) (hS1sub : ∀ t ∈ S1, t ∈ v.lvl (ℓ + 1))
    (hdist : ((S0 ++ S1).flatMap (·.entries)).Pairwise (fun a b => a.key ≠ b.key))
    (hcut : legalCut c (build c minSeq base {} (mergeAll c (S0 ++ S1))) (nts.map (·.entries)) = true)
    (hnt_wf : ∀ t ∈ nts, t.wfB c = true)
    (hrange : ∀ t ∈ S0, c.le umin t.imin.ukey ∧ c.le t.imax.ukey umax)
    (hS1 : ∀ t ∈ v.lvl (ℓ + 1), t.overlapsRange c umin umax = true ↔ t ∈ S1)
    (hL0 : ℓ = 0 → ∀ x ∈ v.lvl 0, x ∉ S0 → x.overlapsRange c umin umax = false) :
    (v.apply c (replaceEdit ℓ S0 S1 nts)).wfB c = true := by
  have hsE := mergeAll_sorted hl (S0 ++ S1) hdist
  have hsB := build_sorted c minSeq base _ {} hsE
  apply replace_wf hl v ℓ S0 S1 nts umin umax hv hS0sub hS1sub hnt_wf
  · intro t ht x hx
    have hxB := (legalCut_mem _ nts hcut x).2 ⟨t, ht, hx⟩
    exact (mem_mergeAll (S0 ++ S1) x).1 (build_subset c minSeq base _ {} x hxB)
  · exact (legalCut_tables_pairwise hl _ nts hsB hcut hnt_wf).imp (fun h => .inl h)
  · exact hrange
  · exact hS1
  · exact src_newer_of_closed hl v ℓ S0 umin umax hv hS0sub hrange hL0

/-- **A trivial move keeps the version well formed**: one table of level `ℓ` that overlaps nothing at
level `ℓ+1`, and (for `ℓ = 0`) nothing else at level 0, is moved down unchanged. -/
theorem trivial_move_wf (v : Version) (ℓ : Nat) (t : Table) (hv : v.wfB c = true)
    (ht : t ∈ v.lvl ℓ)
    (hdst : ∀ x ∈ v.lvl (ℓ + 1), x.overlapsRange c t.imin.ukey t.imax.ukey = false)
    (hL0 : ℓ = 0 → ∀ x ∈ v.lvl 0, x ≠ t → x.overlapsRange c t.imin.ukey t.imax.ukey = false) :
    (v.apply c (replaceEdit ℓ [t] [] [t])).wfB c = true := by
  have hw := (Version.wfB_iff_WFi hl v).1 hv
  have htwf := hw.tables ℓ t ht
  apply replace_wf hl v ℓ [t] [] [t] t.imin.ukey t.imax.ukey hv
  · intro s hs; rw [List.mem_singleton.1 hs]; exact ht
  · intro s hs; cases hs
  · intro s hs; rw [List.mem_singleton.1 hs]; exact htwf
  · intro s hs x hx
    rw [List.mem_singleton.1 hs] at hx
    exact ⟨t, by simp, hx⟩
  · exact List.pairwise_singleton _ _
  · intro s hs; rw [List.mem_singleton.1 hs]; exact ⟨ule_refl hl _, ule_refl hl _⟩
  · intro x hx
    rw [hdst x hx]; simp
  · apply src_newer_of_closed hl v ℓ [t] t.imin.ukey t.imax.ukey hv
    · intro s hs; rw [List.mem_singleton.1 hs]; exact ht
    · intro s hs; rw [List.mem_singleton.1 hs]; exact ⟨ule_refl hl _, ule_refl hl _⟩
    · intro h0 x hx hxt
      exact hL0 h0 x hx (fun e => hxt (by simp [e]))

end compaction

/-! ## `tFiles.getRange` bounds every table it was computed from -/

section range
variable {c : UCmp} (hl : LawfulUCmp c)
include hl

theorem icmp_le_ule {a b : IKey} (h : icmp c a b ≠ .gt) : c.le a.ukey b.ukey := by
  rcases (icmp_le_iff hl a b).1 h with h | rfl
  · exact icmp_lt_ule hl h
  · exact ule_refl hl _

theorem icmp_le_refl (a : IKey) : icmp c a a ≠ .gt := by
  rw [(icmp_eq_iff hl a a).2 rfl]; exact fun h => Ordering.noConfusion h

theorem getRange_fold (ts : List Table) (a b : IKey) :
    let r := ts.foldl (fun (p : IKey × IKey) t =>
      (if icmp c t.imin p.1 = .lt then t.imin else p.1, if icmp c t.imax p.2 = .gt then t.imax else p.2)) (a, b)
    icmp c r.1 a ≠ .gt ∧ icmp c b r.2 ≠ .gt ∧ ∀ t ∈ ts, icmp c r.1 t.imin ≠ .gt ∧ icmp c t.imax r.2 ≠ .gt := by
  induction ts generalizing a b with
  | nil => exact ⟨icmp_le_refl hl a, icmp_le_refl hl b, by simp⟩
  | cons t ts ih =>
    simp only [List.foldl_cons]
    have ha1 : icmp c (if icmp c t.imin a = .lt then t.imin else a) a ≠ .gt := by
      split
      · rename_i h; rw [h]; exact fun h => Ordering.noConfusion h
      · exact icmp_le_refl hl a
    have ha2 : icmp c (if icmp c t.imin a = .lt then t.imin else a) t.imin ≠ .gt := by
      split
      · exact icmp_le_refl hl _
      · rename_i h; exact (icmp_not_lt_iff hl t.imin a).1 h
    have hb1 : icmp c b (if icmp c t.imax b = .gt then t.imax else b) ≠ .gt := by
      split
      · rename_i h; rw [(icmp_gt_iff hl _ _).1 h]; exact fun h => Ordering.noConfusion h
      · exact icmp_le_refl hl b
    have hb2 : icmp c t.imax (if icmp c t.imax b = .gt then t.imax else b) ≠ .gt := by
      split
      · exact icmp_le_refl hl _
      · rename_i h; exact h
    obtain ⟨h1, h2, h3⟩ := ih (if icmp c t.imin a = .lt then t.imin else a)
      (if icmp c t.imax b = .gt then t.imax else b)
    refine ⟨icmp_le_trans hl _ _ _ h1 ha1, icmp_le_trans hl _ _ _ hb1 h2, ?_⟩
    intro t' ht'
    rcases List.mem_cons.1 ht' with rfl | ht'
    · exact ⟨icmp_le_trans hl _ _ _ h1 ha2, icmp_le_trans hl _ _ _ hb2 h2⟩
    · exact h3 t' ht'

/-- the user keys of `getRange` bound every table of the set (the `hrange` premise of `compaction_wf`) -/
theorem getRange_covers (S : List Table) (mn mx : IKey) (h : getRange c S = some (mn, mx)) :
    ∀ t ∈ S, c.le mn.ukey t.imin.ukey ∧ c.le t.imax.ukey mx.ukey := by
  cases S with
  | nil => cases h
  | cons t ts =>
    have hfun : (fun (x : IKey × IKey) (t : Table) =>
        match x with
        | (mn, mx) => (if icmp c t.imin mn = .lt then t.imin else mn, if icmp c t.imax mx = .gt then t.imax else mx))
        = (fun (p : IKey × IKey) t =>
      (if icmp c t.imin p.1 = .lt then t.imin else p.1, if icmp c t.imax p.2 = .gt then t.imax else p.2)) := by
      funext p t; cases p; rfl
    have h' : ts.foldl (fun (p : IKey × IKey) t =>
      (if icmp c t.imin p.1 = .lt then t.imin else p.1, if icmp c t.imax p.2 = .gt then t.imax else p.2))
        (t.imin, t.imax) = (mn, mx) := by
      rw [← hfun]; exact Option.some.inj h
    have := getRange_fold hl ts t.imin t.imax
    simp only [h'] at this
    obtain ⟨h1, h2, h3⟩ := this
    intro t' ht'
    rcases List.mem_cons.1 ht' with rfl | ht'
    · exact ⟨icmp_le_ule hl h1, icmp_le_ule hl h2⟩
    · exact ⟨icmp_le_ule hl (h3 t' ht').1, icmp_le_ule hl (h3 t' ht').2⟩

end range

end GoLevel
