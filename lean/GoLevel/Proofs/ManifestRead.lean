import GoLevel.Model.Manifest
import GoLevel.Props.C12
/-!
The journal reader as `session.recover` drives it (`Manifest.readRecords`) delivers, as its complete
records, exactly the records of `Journal.decode` — so the C12 theorems about truncated and zero-extended
streams apply to manifests as well.
-/
namespace GoLevel.Manifest
open GoLevel.Journal

/-- the complete records among the deliveries -/
def completeOnes (l : List (Bytes × Bool)) : List Bytes := l.filterMap fun p => if p.2 then some p.1 else none

theorem readLoop_eof {s c st cur} (h : nextChunk s c cur.isNone st = .eof) :
    readLoop s c st cur = ([], .eof) := by
  rw [readLoop]; split <;> simp_all

theorem readLoop_corrupt {s c st cur n w} (h : nextChunk s c cur.isNone st = .corrupt n w) :
    readLoop s c st cur = (partialOf cur, .corrupt) := by
  rw [readLoop]; split <;> simp_all

theorem readLoop_skip {s c st cur n w st'} (h : nextChunk s c cur.isNone st = .skip n w st') :
    readLoop s c st cur = (partialOf cur ++ (readLoop s c st' none).1, (readLoop s c st' none).2) := by
  rw [readLoop]; split <;> simp_all

theorem readLoop_ok {s c st cur p l st'} (h : nextChunk s c cur.isNone st = .ok p l st') :
    readLoop s c st cur =
      if l then ((cur.getD [] ++ p, true) :: (readLoop s c st' none).1, (readLoop s c st' none).2)
      else readLoop s c st' (some (cur.getD [] ++ p)) := by
  rw [readLoop]; split <;> simp_all

theorem readLoop_spec (strict checksum : Bool) (st : RState) (cur : Option Bytes) :
    completeOnes (readLoop strict checksum st cur).1 =
      eventRecords (Journal.decodeLoop strict checksum st cur).events ∧
    (readLoop strict checksum st cur).2 = (Journal.decodeLoop strict checksum st cur).final := by
  induction st, cur using Journal.decodeLoop.induct strict checksum with
  | case1 st cur h =>
    rw [readLoop_eof h, decodeLoop_eof h]; simp [completeOnes, eventRecords]
  | case2 st cur n why h =>
    rw [readLoop_corrupt h, decodeLoop_corrupt h]
    cases cur <;> simp [completeOnes, eventRecords, partialOf]
  | case3 st cur n why st' h ih =>
    rw [readLoop_skip h, decodeLoop_skip h]
    cases cur <;> simp [completeOnes, eventRecords, DecodeResult.cons, partialOf] at ih ⊢ <;> exact ih
  | case4 st cur payload st' h ih =>
    rw [readLoop_ok h, decodeLoop_ok h]
    simp [completeOnes, eventRecords, DecodeResult.cons] at ih ⊢
    exact ⟨by rw [ih.1], ih.2⟩
  | case5 st cur payload last st' h acc hl ih =>
    rw [readLoop_ok h, decodeLoop_ok h]
    simp only [hl]
    exact ih

theorem readRecords_spec (strict : Bool) (bs : Bytes) :
    completeOnes (readRecords strict bs).1 = (decode strict true bs).records ∧
    (readRecords strict bs).2 = (decode strict true bs).final :=
  readLoop_spec strict true ⟨0, bs⟩ none


/-! ## an incomplete record never decodes -/

theorem rdUvarint_err {data : Bytes} {e : DecErr} (h : rdUvarint data = .error e) : e = .corrupted := by
  unfold rdUvarint at h
  split at h
  · cases h
  · cases h; rfl

theorem rdVarint_err {data : Bytes} {e : DecErr} (h : rdVarint data = .error e) : e = .corrupted := by
  unfold rdVarint at h
  split at h
  · split at h
    · cases h
    · cases h; rfl
  · rename_i e' he
    cases h
    exact rdUvarint_err he

theorem rdBytes_err {data : Bytes} {e : DecErr} (h : rdBytes false data = .error e) : e = .corrupted := by
  unfold rdBytes at h
  split at h
  · rename_i e' he
    cases h
    exact rdUvarint_err he
  · split at h
    · cases h
    · simp at h
      exact h.symm

theorem bind_err {α β : Type} {x : Except DecErr α} {f : α → Except DecErr β} {e : DecErr}
    (h : (x >>= f) = .error e) (hx : ∀ e', x = .error e' → e' = .corrupted)
    (hf : ∀ a e', f a = .error e' → e' = .corrupted) : e = .corrupted := by
  cases x with
  | error e' => simp [bind, Except.bind] at h; subst h; exact hx _ rfl
  | ok a => simp [bind, Except.bind] at h; exact hf a e h

theorem map_err {α β : Type} {x : Except DecErr α} {f : α → β} {e : DecErr}
    (h : x.map f = .error e) (hx : ∀ e', x = .error e' → e' = .corrupted) : e = .corrupted := by
  cases x with
  | error e' => simp [Except.map] at h; subst h; exact hx _ rfl
  | ok a => simp [Except.map] at h

theorem rdField_err {tag : Nat} {data : Bytes} {e : DecErr} (h : rdField false tag data = .error e) :
    e = .corrupted := by
  unfold rdField at h
  repeat' split at h
  all_goals first
    | exact map_err h (fun _ he => rdBytes_err he)
    | exact map_err h (fun _ he => rdVarint_err he)
    | exact map_err h (fun _ he => rdUvarint_err he)
    | (cases h; done)
    | skip
  · exact bind_err h (fun _ he => rdUvarint_err he) (fun a e' he =>
      bind_err he (fun _ he' => rdBytes_err he') (fun _ _ he' => by cases he'))
  · exact bind_err h (fun _ he => rdUvarint_err he) (fun a e' he =>
      bind_err he (fun _ he' => rdVarint_err he') (fun _ _ he' =>
        bind_err he' (fun _ h2 => rdVarint_err h2) (fun _ _ h2 =>
          bind_err h2 (fun _ h3 => rdBytes_err h3) (fun _ _ h3 =>
            bind_err h3 (fun _ h4 => rdBytes_err h4) (fun _ _ h4 => by cases h4)))))
  · exact bind_err h (fun _ he => rdUvarint_err he) (fun a e' he =>
      bind_err he (fun _ he' => rdVarint_err he') (fun _ _ he' => by cases he'))

/-- a record that ends with `io.ErrUnexpectedEOF` always fails with a corruption error -/
theorem decodeLoop_incomplete (fuel : Nat) (p : SessionRecord) (data : Bytes) :
    (decodeLoop false fuel p data).2 = some .corrupted := by
  induction fuel generalizing p data with
  | zero => rfl
  | succ k ih =>
    unfold decodeLoop
    simp only [Bool.false_eq_true, and_false, if_false]
    split
    · rename_i e he; rw [rdUvarint_err he]
    · split
      · rename_i e he; rw [rdField_err he]
      · exact ih _ _
      · exact ih _ _

theorem decodeInto_incomplete (p : SessionRecord) (data : Bytes) :
    (decodeInto p data false).2 = some .corrupted := decodeLoop_incomplete _ p data

end GoLevel.Manifest
