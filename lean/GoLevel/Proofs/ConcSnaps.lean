import GoLevel.Proofs.ConcTrace
import GoLevel.Proofs.Snaps
import GoLevel.Model.ConcSnaps
/-!
# The registrations of the interleaving model and the real snapshot list (`db.snapsList`)

Along every execution the list driven by `snapsStep` never panics and represents exactly the *live* registrations
(client snapshots and `DB.Get`/iterator readers); its `minSeq` is `Conc.minSeq` whenever the `snap.mu` protocol
(`SnapHeld`) holds.
-/
namespace GoLevel.Conc
open GoLevel.Snaps

variable {c : UCmp}

/-- ghost: does this registration hold a reference in `db.snapsList`? -/
def ownerLive (σ : State) : Owner → Bool
  | .user _ => true
  | .reader i =>
    match σ.readers[i]? with
    | some r => r.live
    | none => false

def liveOf (f : Owner → Bool) (L : List (Owner × Nat)) : List Nat := (L.filter (fun p => f p.1)).map (·.2)

/-- ghost: the acquired-and-not-released sequence numbers (with multiplicity) -/
def liveSeqs (σ : State) : List Nat := liveOf (ownerLive σ) σ.snaps

theorem liveOf_congr {f g : Owner → Bool} {L : List (Owner × Nat)} (h : ∀ p ∈ L, f p.1 = g p.1) :
    liveOf f L = liveOf g L := by
  unfold liveOf
  rw [List.filter_congr (fun p hp => h p hp)]

theorem liveOf_append (f : Owner → Bool) (L M : List (Owner × Nat)) :
    liveOf f (L ++ M) = liveOf f L ++ liveOf f M := by simp [liveOf]

theorem mem_liveOf {f : Owner → Bool} {L : List (Owner × Nat)} {s : Nat} :
    s ∈ liveOf f L ↔ ∃ o, (o, s) ∈ L ∧ f o = true := by
  unfold liveOf
  constructor
  · intro h
    obtain ⟨p, hp, rfl⟩ := List.mem_map.1 h
    obtain ⟨h1, h2⟩ := List.mem_filter.1 hp
    exact ⟨p.1, h1, h2⟩
  · rintro ⟨o, h1, h2⟩
    exact List.mem_map.2 ⟨(o, s), List.mem_filter.2 ⟨h1, h2⟩, rfl⟩

def remove (o : Owner) (L : List (Owner × Nat)) : List (Owner × Nat) := L.filter (fun p => decide (p.1 ≠ o))

theorem remove_of_not_mem {o : Owner} {L : List (Owner × Nat)} (h : o ∉ L.map (·.1)) : remove o L = L := by
  apply List.filter_eq_self.2
  intro p hp
  simp only [decide_eq_true_eq]
  intro he
  exact h (List.mem_map.2 ⟨p, hp, he⟩)

theorem mem_remove {o : Owner} {L : List (Owner × Nat)} {p : Owner × Nat} (h : p ∈ remove o L) : p ∈ L ∧ p.1 ≠ o := by
  obtain ⟨h1, h2⟩ := List.mem_filter.1 h
  exact ⟨h1, of_decide_eq_true h2⟩

theorem count_liveOf_remove (f : Owner → Bool) : ∀ (L : List (Owner × Nat)), (L.map (·.1)).Nodup →
    ∀ o s, (o, s) ∈ L → ∀ x,
    (liveOf f L).count x = (liveOf f (remove o L)).count x + (if f o = true ∧ s = x then 1 else 0) := by
  intro L
  induction L with
  | nil => intro _ o s h; cases h
  | cons p L ih =>
    intro hnd o s hm x
    simp only [List.map_cons, List.nodup_cons] at hnd
    by_cases hp : p = (o, s)
    · subst hp
      have hrm : remove o ((o, s) :: L) = L := by
        show List.filter _ _ = _
        rw [List.filter_cons]
        simp only [ne_eq, not_true_eq_false, decide_false, Bool.false_eq_true, if_false]
        exact remove_of_not_mem hnd.1
      rw [hrm]
      unfold liveOf
      rw [List.filter_cons]
      by_cases hf : f o = true
      · simp only [hf, if_true, List.map_cons, List.count_cons, true_and]
        by_cases hs : s = x <;> simp [hs]
      · simp [hf]
    · have hm' : (o, s) ∈ L := by
        rcases List.mem_cons.1 hm with h | h
        · exact absurd h.symm hp
        · exact h
      have hne : p.1 ≠ o := by
        intro he
        exact hnd.1 (List.mem_map.2 ⟨(o, s), hm', he.symm⟩)
      have hrm : remove o (p :: L) = p :: remove o L := by
        show List.filter _ _ = _
        rw [List.filter_cons]
        have : decide (p.1 ≠ o) = true := decide_eq_true hne
        rw [if_pos this]
        rfl
      rw [hrm]
      have := ih hnd.2 o s hm' x
      unfold liveOf at this ⊢
      rw [List.filter_cons, List.filter_cons]
      by_cases hf : f p.1 = true
      · simp only [hf, if_true, List.map_cons, List.count_cons]
        omega
      · simp only [hf]
        exact this

theorem lookup_some_mem : ∀ (L : List (Owner × Nat)) (o : Owner) (s : Nat), L.lookup o = some s → (o, s) ∈ L := by
  intro L
  induction L with
  | nil => intro o s h; simp [List.lookup] at h
  | cons p L ih =>
    intro o s h
    obtain ⟨k, b⟩ := p
    simp only [List.lookup] at h
    split at h
    · rename_i heq
      have : o = k := by simpa using heq
      cases h; subst this; exact List.mem_cons_self
    · exact List.mem_cons_of_mem _ (ih o s h)

theorem lookup_none_not_mem : ∀ (L : List (Owner × Nat)) (o : Owner), L.lookup o = none → o ∉ L.map (·.1) := by
  intro L
  induction L with
  | nil => intro o _ h; cases h
  | cons p L ih =>
    intro o h
    obtain ⟨k, b⟩ := p
    simp only [List.lookup] at h
    split at h
    · cases h
    · rename_i hne
      have hok : ¬ o = k := by simpa using hne
      intro hm
      rcases List.mem_cons.1 hm with h1 | h1
      · exact hok h1
      · exact ih o h h1

theorem rep_of_count {l : SList} {live live' : List Nat} (h : Rep l live) (hc : ∀ x, live'.count x = live.count x) :
    Rep l live' := ⟨h.1, fun s => by rw [h.2, hc]⟩

/-- what the registrations satisfy (over and above `Inv`) -/
structure SnapInv (σ : State) : Prop where
  nodup : (σ.snaps.map (·.1)).Nodup
  rdr : ∀ i s, (Owner.reader i, s) ∈ σ.snaps → ∃ r, σ.readers[i]? = some r ∧ r.seq? = some s
  usr : ∀ id s, (Owner.user id, s) ∈ σ.snaps → id < σ.nextId

theorem snapInv_init : SnapInv init := by
  constructor <;> simp [init]

/-- the part of a step that concerns the registrations -/
theorem step_snaps {σ σ' : State} {a : Action} (h : step Cfg.real c σ a = some σ') :
    σ.nextId ≤ σ'.nextId ∧
    match a with
    | .snapAcquire => σ'.snaps = σ.snaps ++ [(.user σ.nextId, σ.pub)] ∧ σ'.nextId = σ.nextId + 1
    | .rSeq i => σ'.snaps = σ.snaps ++ [(.reader i, σ.pub)] ∧ ∃ r r', σ.readers[i]? = some r ∧ r.seq? = none ∧
        σ'.readers[i]? = some r' ∧ r'.seq? = some σ.pub ∧ r'.live = true
    | .rSeqSnap i id => ∃ s r r', σ.snaps.lookup (.user id) = some s ∧ σ'.snaps = σ.snaps ++ [(.reader i, s)] ∧
        σ.readers[i]? = some r ∧ r.seq? = none ∧ σ'.readers[i]? = some r' ∧ r'.seq? = some s ∧ r'.live = false
    | .snapRelease id => σ'.snaps = remove (.user id) σ.snaps
    | .rRelease i => σ'.snaps = remove (.reader i) σ.snaps ∧ ∃ r, σ.readers[i]? = some r ∧ r.reg = true
    | _ => σ'.snaps = σ.snaps := by
  have setAt : ∀ (i : Nat) (r x : Reader), σ.readers[i]? = some r → (σ.readers.set i x)[i]? = some x := by
    intro i r x hi
    have : i < σ.readers.length := by
      apply Nat.lt_of_not_le; intro hle
      rw [List.getElem?_eq_none hle] at hi; cases hi
    rw [List.getElem?_set]; simp [this]
  cases a with
  | writeInsert es => obtain ⟨_, _, rfl⟩ := doWriteInsert_some h; exact ⟨Nat.le_refl _, rfl⟩
  | publish => obtain ⟨_, rfl⟩ := doPublish_some h; exact ⟨Nat.le_refl _, rfl⟩
  | seqSkip n => obtain ⟨_, _, rfl⟩ := doSeqSkip_some h; exact ⟨Nat.le_refl _, rfl⟩
  | rotate => obtain ⟨_, _, _, rfl⟩ := doRotate_some h; exact ⟨Nat.le_succ _, rfl⟩
  | flushInstall => obtain ⟨f, _, _, rfl⟩ := doFlushInstall_some h; exact ⟨Nat.le_refl _, rfl⟩
  | flushDrop => obtain ⟨_, _, rfl⟩ := doFlushDrop_some h; exact ⟨Nat.le_refl _, rfl⟩
  | compStart => obtain ⟨_, rfl⟩ := doCompStart_some h; exact ⟨Nat.le_refl _, rfl⟩
  | compCommit nt => obtain ⟨m, _, _, rfl⟩ := doCompCommit_some h; exact ⟨Nat.le_refl _, rfl⟩
  | snapAcquire => have := doSnapAcquire_some h; subst this; exact ⟨Nat.le_succ _, rfl, rfl⟩
  | snapRelease id => have := doSnapRelease_some h; subst this; exact ⟨Nat.le_refl _, rfl⟩
  | rNew => have := doRNew_some h; subst this; exact ⟨Nat.le_refl _, rfl⟩
  | rSeq i =>
    obtain ⟨r, g1, g2, rfl⟩ := doRSeq_some h
    exact ⟨Nat.le_refl _, rfl, r, _, g1, g2, setAt i r _ g1, rfl, rfl⟩
  | rSeqSnap i id =>
    obtain ⟨r, s, g1, g2, g3, rfl⟩ := doRSeqSnap_some h
    exact ⟨Nat.le_refl _, s, r, _, g2, rfl, g1, g3, setAt i r _ g1, rfl, rfl⟩
  | rMems i => obtain ⟨r, _, _, _, _, rfl⟩ := doRMems_some h; exact ⟨Nat.le_refl _, rfl⟩
  | rVer i => obtain ⟨r, _, _, _, _, rfl⟩ := doRVer_some h; exact ⟨Nat.le_refl _, rfl⟩
  | rLookup i k => obtain ⟨r, s, mf, v, _, _, _, _, rfl⟩ := doRLookup_some h; exact ⟨Nat.le_refl _, rfl⟩
  | rRelease i =>
    obtain ⟨r, g1, g2, _, _, rfl⟩ := doRRelease_some h
    exact ⟨Nat.le_refl _, rfl, r, g1, g2⟩
  | trOpen => obtain ⟨_, _, _, _, rfl⟩ := doTrOpen_some h; exact ⟨Nat.le_refl _, rfl⟩
  | trPut e => obtain ⟨t, _, _, _, rfl⟩ := doTrPut_some h; exact ⟨Nat.le_refl _, rfl⟩
  | trGet k => obtain ⟨t, _, _, rfl⟩ := doTrGet_some h; exact ⟨Nat.le_refl _, rfl⟩
  | trInstall => obtain ⟨t, _, _, rfl⟩ := doTrInstall_some h; exact ⟨Nat.le_refl _, rfl⟩
  | trPublish => obtain ⟨t, _, _, rfl⟩ := doTrPublish_some h; exact ⟨Nat.le_refl _, rfl⟩
  | trDiscard =>
    obtain ⟨t, _, _, h'⟩ := doTrDiscard_some h
    subst h'; exact ⟨Nat.le_refl _, rfl⟩

end GoLevel.Conc
