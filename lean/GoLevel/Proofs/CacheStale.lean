import GoLevel.Proofs.CacheQuiesce5
/-! Invariant of the cache system, part 13: in the GUARDED system `Node.callFinalizer` never goes through a stale
pointer (`stale = false`), hence no delFunc runs twice.  After `Close` every pending `callFinalizer` / zero branch of
`unRefExternal` refers to a node that is still in the (detached) table — `Close` waited for the threads that were
in the zero branch, and nothing is removed from the table after `Close`. -/
namespace GoLevel.CacheM

set_option linter.unusedSimpArgs false

/-- The node a pending `callFinalizer` / zero branch of `unRefExternal` will touch. -/
def finTarget : Instr → Option Nat
  | .fin id _ => some id
  | .extz id _ => some id
  | _ => none

structure InvF (g : Bool) (sh : Shared) (P : List Instr) : Prop where
  fe : g = true → sh.closed = true → ∀ i ∈ P, ∀ id, finTarget i = some id → ∃ n ∈ sh.nodes, n.id = id
  ns : g = true → sh.stale = false

/-- After `Close` the node list keeps its ids and keys (nothing is created or removed). -/
theorem closed_nodes_shape {sh sh' : Shared} {i push evs} (he : exec sh i = some (sh', push, evs))
    (hc : sh.closed = true) :
    sh'.nodes.map (fun n => (n.id, n.key)) = sh.nodes.map (fun n => (n.id, n.key)) := by
  cases i <;> exec_split he
  all_goals first
    | (simp [upd_map_idkey, clearLru_map_idkey]; done)
    | (simp_all; done)

theorem fe_step {g sh Q log sh' i push evs} (h : InvP g sh (i :: Q) log) (hF : InvF g sh (i :: Q))
    (he : exec sh i = some (sh', push, evs))
    (hguard : ∀ f, i = .closeLock f → g = true → ∀ j ∈ Q, isExtz j = false) :
    g = true → sh'.closed = true → ∀ j ∈ push ++ Q, ∀ id, finTarget j = some id →
      ∃ n ∈ sh'.nodes, n.id = id := by
  intro hg hc'
  by_cases hsc : sh.closed = true
  · have hfe := hF.fe hg hsc
    have hshape := closed_nodes_shape he hsc
    have keep : ∀ id, (∃ n ∈ sh.nodes, n.id = id) → ∃ n ∈ sh'.nodes, n.id = id :=
      fun id => exists_id_of_map_eq hshape
    intro j hj id hid
    rcases List.mem_append.mp hj with hjp | hjq
    · -- a new pending instruction
      have hi := h.cl hsc i List.mem_cons_self
      cases i <;> simp only [openOnly, reduceCtorEq] at hi <;> exec_split he
      all_goals (simp only [List.mem_append, List.mem_cons, List.mem_map, List.mem_flatMap, List.not_mem_nil,
        or_false, false_or] at hjp)
      all_goals first
        | (cases hjp; done)
        | (subst hjp; simp [finTarget] at hid; done)
        | (rcases hjp with rfl | rfl <;> simp [finTarget] at hid; done)
        | (obtain ⟨_, _, rfl⟩ := hjp; simp [finTarget] at hid; done)
        | (-- `unRefExternal` reached zero: the node was found
           subst hjp
           simp only [finTarget, Option.some.injEq] at hid
           subst hid
           have hfs := findId_some (by assumption)
           exact keep _ ⟨_, hfs.1, hfs.2⟩)
        | (-- the zero branch calls `callFinalizer`
           rcases hjp with rfl | rfl
           · simp only [finTarget, Option.some.injEq] at hid
             subst hid
             exact keep _ (hfe _ List.mem_cons_self _ rfl)
           · simp [finTarget] at hid)
        | skip
    · exact keep id (hfe j (List.mem_cons_of_mem _ hjq) id hid)
  · have hso : sh.closed = false := by simpa using hsc
    have hop := (h.op hso).1
    cases i
    case closeLock force =>
      have hgd := hguard force rfl hg
      simp only [exec, execCloseLock] at he
      by_cases hr : sh.rlock = 0
      · simp only [hr, ne_eq, not_true_eq_false, if_false, hso, Bool.false_eq_true, Option.some.injEq,
          Prod.mk.injEq] at he
        obtain ⟨rfl, rfl, rfl⟩ := he
        intro j hj id hid
        simp only [] 
        rcases List.mem_append.mp hj with hjp | hjq
        · rw [List.mem_flatMap] at hjp
          obtain ⟨n, hn, hjn⟩ := hjp
          refine ⟨n, hn, ?_⟩
          cases force <;> simp at hjn <;> rcases hjn with rfl | rfl | rfl <;> simp_all [finTarget]
        · exfalso
          have h1 := hgd j hjq
          have h2 := hop j (List.mem_cons_of_mem _ hjq)
          cases j <;> simp_all [finTarget, isExtz, closedOnly]
      · simp [hr] at he
    all_goals (exfalso; exec_split he)
    all_goals (try simp only [] at hc')
    all_goals first
      | (rw [hso] at hc'; cases hc'; done)
      | skip

theorem ns_step {g sh Q log sh' i push evs} (h : InvP g sh (i :: Q) log) (hF : InvF g sh (i :: Q))
    (he : exec sh i = some (sh', push, evs)) : g = true → sh'.stale = false := by
  intro hg
  have hns := hF.ns hg
  cases i
  case fin id f =>
    have hclosed : sh.closed = true := by
      cases hc : sh.closed with
      | true => rfl
      | false => have := (h.op hc).1 _ List.mem_cons_self; simp [closedOnly] at this
    obtain ⟨n, hn, hid⟩ := hF.fe hg hclosed _ List.mem_cons_self id rfl
    simp only [exec, execFin] at he
    cases hfind : findId sh.nodes id with
    | none => exact absurd hid (findId_none hfind n hn)
    | some n0 => simp [hfind] at he; obtain ⟨rfl, _, _⟩ := he; exact hns
  all_goals (exec_split he <;> simp_all)

theorem invF_step {g sh Q log sh' i push evs} (h : InvP g sh (i :: Q) log) (hF : InvF g sh (i :: Q))
    (he : exec sh i = some (sh', push, evs))
    (hguard : ∀ f, i = .closeLock f → g = true → ∀ j ∈ Q, isExtz j = false) : InvF g sh' (push ++ Q) :=
  ⟨fe_step h hF he hguard, ns_step h hF he⟩

theorem invF_mono {g sh P P'} (h : InvF g sh P) (hsub : ∀ j ∈ P', j ∈ P ∨ finTarget j = none) : InvF g sh P' :=
  ⟨fun hg hc i hi id hid => (by
    rcases hsub i hi with h1 | h1
    · exact h.fe hg hc i h1 id hid
    · rw [h1] at hid; cases hid), h.ns⟩

theorem invF_reachable {g : Bool} {s : Sys} (hr : Reachable g s) : InvF g s.sh (pending s) := by
  induction hr with
  | init clr c n =>
    rw [pending_init]
    exact ⟨fun _ _ i hi => (by cases hi), fun _ => rfl⟩
  | @step s s' a hr hs ih =>
    have hinv := inv_reachable hr
    rcases sysStep_cases hs with ⟨t, c, rfl, ht, _, rfl⟩ | ⟨t, i, rest, sh', push, evs, rfl, ht, he, _, rfl⟩
    · have hperm := flatten_set_perm' s.threads t [] (startCall c) ht
      simp only [List.nil_append] at hperm
      refine invF_mono ih (fun j hj => ?_)
      rcases List.mem_append.mp (hperm.mem_iff.mp hj) with h1 | h1
      · right; cases c <;> simp only [startCall, List.mem_singleton] at h1 <;> subst h1 <;> rfl
      · exact Or.inl h1
    · have him : i ∈ pending s := mem_of_getElem?_flatten s.threads t _ i ht List.mem_cons_self
      have hp1 : (pending s).Perm (i :: (pending s).erase i) := List.perm_cons_erase him
      have hcoreP := invP_perm (log' := s.log) hinv.core hp1
      have hcoreF := invF_mono ih (fun j hj => Or.inl (hp1.mem_iff.mpr hj))
      have hguard : ∀ f, i = .closeLock f → g = true → ∀ j ∈ (pending s).erase i, isExtz j = false := by
        intro f hif hg j hj
        subst hif
        have hok : stepOK g s.threads (.closeLock f) = true := by
          simp only [sysStep, ht] at hs
          by_cases hok : stepOK g s.threads (.closeLock f) = true
          · exact hok
          · rw [if_neg hok] at hs; cases hs
        simp only [stepOK, hg, Bool.not_true, Bool.false_or] at hok
        have hj' : j ∈ pending s := List.mem_of_mem_erase hj
        obtain ⟨t', ht', hjt⟩ := List.mem_flatten.mp hj'
        simp only [noPendingExtz, List.all_eq_true] at hok
        have := hok t' ht' j hjt
        simpa using this
      have hnew := invF_step hcoreP hcoreF he hguard
      have hperm := flatten_set_perm s.threads t i rest push ht
      have hp2 : (i :: (s.threads.set t (push ++ rest)).flatten).Perm (i :: (push ++ (pending s).erase i)) := by
        refine hperm.trans ?_
        have : (push ++ pending s).Perm (push ++ (i :: (pending s).erase i)) := List.Perm.append_left _ hp1
        exact this.trans List.perm_middle
      exact invF_mono hnew (fun j hj => Or.inl ((List.Perm.cons_inv hp2).mem_iff.mp hj))

/-! ### The repaired `mBucket.delete` (`clearDel = true`): a stale `callFinalizer` finds no delFuncs -/

/-- The configuration never changes. -/
theorem clearDel_step {sh sh' : Shared} {i push evs} (he : exec sh i = some (sh', push, evs)) :
    sh'.clearDel = sh.clearDel := by
  cases i <;> exec_split he <;> rfl

/-- With the repaired `mBucket.delete`, a node removed from its bucket has no delFuncs left; so a stale
`callFinalizer` never re-runs one. -/
structure InvD (sh : Shared) : Prop where
  cd : sh.clearDel = true → ∀ n ∈ sh.dead, n.delFuncs = []
  ns : sh.clearDel = true → sh.stale = false

theorem invD_step {sh sh' : Shared} {i push evs} (h : InvD sh) (he : exec sh i = some (sh', push, evs)) :
    InvD sh' := by
  have hcl := clearDel_step he
  cases i
  case fin id f =>
    simp only [exec, execFin] at he
    split at he
    · unfold execFinStale at he
      split at he
      · simp only [Option.some.injEq, Prod.mk.injEq] at he; obtain ⟨rfl, _, _⟩ := he
        exact ⟨h.cd, h.ns⟩
      · rename_i n hn
        simp only [Option.some.injEq, Prod.mk.injEq] at he; obtain ⟨rfl, _, _⟩ := he
        refine ⟨fun hc m hm => ?_, fun hc => ?_⟩
        · obtain ⟨m0, hm0, rfl⟩ := mem_upd.mp hm
          split
          · rfl
          · exact h.cd hc m0 hm0
        · simp only []
          rw [h.ns hc, h.cd hc n (findId_some hn).1]; rfl
    · simp only [Option.some.injEq, Prod.mk.injEq] at he; obtain ⟨rfl, _, _⟩ := he
      exact ⟨h.cd, h.ns⟩
  case delz k =>
    simp only [exec, execDelz] at he
    repeat' (split at he)
    all_goals (simp only [Option.some.injEq, Prod.mk.injEq] at he; obtain ⟨rfl, _, _⟩ := he)
    all_goals first
      | exact ⟨h.cd, h.ns⟩
      | (refine ⟨fun hc m hm => ?_, h.ns⟩
         simp only [] at hc hm
         rcases List.mem_cons.mp hm with rfl | hm
         · first | rfl | (exfalso; simp_all)
         · exact h.cd hc m hm)
  all_goals (exec_split he)
  all_goals exact ⟨h.cd, h.ns⟩

theorem invD_reachable {g : Bool} {s : Sys} (hr : Reachable g s) : InvD s.sh := by
  induction hr with
  | init clr c n => exact ⟨fun _ m hm => (by cases hm), fun _ => rfl⟩
  | @step s s' a hr hs ih =>
    rcases sysStep_cases hs with ⟨t, c, rfl, ht, _, rfl⟩ | ⟨t, i, rest, sh', push, evs, rfl, ht, he, _, rfl⟩
    · exact ih
    · exact invD_step ih he

theorem recheck_step {sh sh' : Shared} {i push evs} (he : exec sh i = some (sh', push, evs)) :
    sh'.recheck = sh.recheck := by
  cases i <;> exec_split he <;> rfl

theorem recheck_runSched {g : Bool} {sched : List Act} : ∀ {s s' : Sys}, runSched g s sched = some s' →
    s'.sh.recheck = s.sh.recheck := by
  induction sched with
  | nil => intro s s' h; simp only [runSched, Option.some.injEq] at h; rw [h]
  | cons a as ih =>
    intro s s' h
    simp only [runSched] at h
    cases hs : sysStep g s a with
    | none => rw [hs] at h; cases h
    | some s1 =>
      rw [hs] at h
      rw [ih h]
      rcases sysStep_cases hs with ⟨t, c, rfl, ht, _, rfl⟩ | ⟨t, i, rest, sh', push, evs, rfl, ht, he, _, rfl⟩
      · rfl
      · exact recheck_step he

/-- Guarded, or the repaired `unRefExternal`, or not closed yet: finalisation is safe. -/
theorem eff_of {g : Bool} {sh : Shared} (h : g = true ∨ sh.recheck = true ∨ sh.closed = false) :
    Eff g sh = true ∨ sh.closed = false := by
  rcases h with h | h | h
  · exact Or.inl (by simp [Eff, h])
  · exact Or.inl (by simp [Eff, h])
  · exact Or.inr h

theorem clearDel_runSched {g : Bool} {sched : List Act} : ∀ {s s' : Sys}, runSched g s sched = some s' →
    s'.sh.clearDel = s.sh.clearDel := by
  induction sched with
  | nil => intro s s' h; simp only [runSched, Option.some.injEq] at h; rw [h]
  | cons a as ih =>
    intro s s' h
    simp only [runSched] at h
    cases hs : sysStep g s a with
    | none => rw [hs] at h; cases h
    | some s1 =>
      rw [hs] at h
      rw [ih h]
      rcases sysStep_cases hs with ⟨t, c, rfl, ht, _, rfl⟩ | ⟨t, i, rest, sh', push, evs, rfl, ht, he, _, rfl⟩
      · rfl
      · exact clearDel_step he

/-- **With the repaired `mBucket.delete` no delFunc is re-run through a stale pointer — guarded or not.** -/
theorem repaired_not_stale {g : Bool} {s : Sys} (hr : Reachable g s) (hc : s.sh.clearDel = true) :
    s.sh.stale = false :=
  (invD_reachable hr).ns hc

/-- **In the guarded system no `callFinalizer` goes through a stale pointer.** -/
theorem guarded_not_stale {s : Sys} (hr : Reachable true s) : s.sh.stale = false :=
  (invF_reachable hr).ns rfl

end GoLevel.CacheM
