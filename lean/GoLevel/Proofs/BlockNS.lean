import GoLevel.Model.BlockNS
/-! Invariant of `Model/BlockNS.lean` for the repaired order (evict, then give the number back). -/
namespace GoLevel.BlockNS

theorem lookup_cons (a b : Nat) (l : List (Nat × Nat)) (m : Nat) :
    lookup ((a, b) :: l) m = if a = m then some b else lookup l m := by
  unfold lookup
  by_cases h : a = m <;> simp [List.find?_cons, h]

theorem lookup_some_mem {l : List (Nat × Nat)} {n id : Nat} (h : lookup l n = some id) : (n, id) ∈ l := by
  unfold lookup at h
  cases hf : l.find? (·.1 = n) with
  | none => rw [hf] at h; cases h
  | some p =>
    rw [hf] at h
    have hm := List.mem_of_find?_eq_some hf
    have hp := List.find?_some hf
    simp at hp h
    obtain ⟨a, b⟩ := p
    simp at hp h
    subst hp; subst h; exact hm

theorem lookup_ne_none_of_mem {l : List (Nat × Nat)} {p : Nat × Nat} (h : p ∈ l) : lookup l p.1 ≠ none := by
  unfold lookup
  intro hn
  cases hf : l.find? (·.1 = p.1) with
  | none =>
    have := List.find?_eq_none.1 hf p h
    simp at this
  | some q => rw [hf] at hn; cases hn

theorem lookup_filter (l : List (Nat × Nat)) (n m : Nat) :
    lookup (l.filter (·.1 ≠ n)) m = if m = n then none else lookup l m := by
  unfold lookup
  induction l with
  | nil => by_cases h : m = n <;> simp [h]
  | cons p ps ih =>
    by_cases hp : p.1 = n
    · have : (decide (p.1 ≠ n)) = false := by simp [hp]
      rw [List.filter_cons, this]
      simp only [Bool.false_eq_true, if_false]
      rw [ih]
      by_cases h : m = n
      · simp [h]
      · have hpm : ¬ p.1 = m := by omega
        simp [h, List.find?_cons, hpm]
    · have : (decide (p.1 ≠ n)) = true := by simp [hp]
      rw [List.filter_cons, this]
      simp only [if_true]
      by_cases hpm : p.1 = m
      · have hmn : ¬ m = n := by omega
        simp [List.find?_cons, hpm, hmn]
      · simp only [List.find?_cons, hpm, decide_false]
        exact ih

structure Inv (s : St) : Prop where
  named_lt : ∀ p ∈ s.named, p.1 < s.next
  cache_ok : ∀ p ∈ s.cache, lookup s.named p.1 = some p.2 ∨ (lookup s.named p.1 = none ∧ p.1 < s.next)
  pend_gone : ∀ n b, s.pend = some (n, b) → lookup s.named n = none ∧ n < s.next
  pend_evicted : ∀ n, s.pend = some (n, true) → ∀ p ∈ s.cache, p.1 ≠ n

theorem inv_init : Inv {} := ⟨by simp, by simp, by simp, by simp⟩

theorem named_some_lt {s : St} (h : Inv s) {n id : Nat} (hl : lookup s.named n = some id) : n < s.next :=
  h.named_lt _ (lookup_some_mem hl)

theorem inv_step {s s' : St} {a : Act} {out : Option Nat} (h : Inv s) (hs : step true s a = some (s', out)) :
    Inv s' := by
  cases a with
  | create =>
    simp only [step, Option.some.injEq, Prod.mk.injEq] at hs
    obtain ⟨rfl, _⟩ := hs
    refine ⟨?_, ?_, ?_, ?_⟩
    · intro p hp
      simp only [List.mem_cons] at hp
      rcases hp with rfl | hp
      · simp
      · have := h.named_lt p hp; simp only; omega
    · intro p hp
      have hc := h.cache_ok p hp
      simp only [lookup_cons]
      rcases hc with hc | ⟨hc, hlt⟩
      · have := named_some_lt h hc
        have hne : ¬ s.next = p.1 := by omega
        simp [hne, hc]
      · have hne : ¬ s.next = p.1 := by omega
        simp only [hne, if_false]
        exact Or.inr ⟨hc, by omega⟩
    · intro n b hp
      have ⟨h1, h2⟩ := h.pend_gone n b hp
      have hne : ¬ s.next = n := by omega
      simp only [lookup_cons, hne, if_false]
      exact ⟨h1, by omega⟩
    · exact h.pend_evicted
  | read n =>
    simp only [step] at hs
    cases hn : lookup s.named n with
    | none => rw [hn] at hs; cases hs
    | some id =>
      rw [hn] at hs
      cases hc : lookup s.cache n with
      | some cid =>
        rw [hc] at hs
        simp only [Option.some.injEq, Prod.mk.injEq] at hs
        obtain ⟨rfl, _⟩ := hs; exact h
      | none =>
        rw [hc] at hs
        simp only [Option.some.injEq, Prod.mk.injEq] at hs
        obtain ⟨rfl, _⟩ := hs
        refine ⟨h.named_lt, ?_, h.pend_gone, ?_⟩
        · intro p hp
          simp only [List.mem_cons] at hp
          rcases hp with rfl | hp
          · exact Or.inl hn
          · exact h.cache_ok p hp
        · intro m hm p hp
          simp only [List.mem_cons] at hp
          rcases hp with rfl | hp
          · intro e
            have := (h.pend_gone m true hm).1
            simp only at e
            rw [e] at hn; rw [hn] at this; cases this
          · exact h.pend_evicted m hm p hp
  | beginRemove n =>
    simp only [step] at hs
    cases hp : s.pend with
    | some q => rw [hp] at hs; cases hs
    | none =>
      rw [hp] at hs
      cases hn : lookup s.named n with
      | none => rw [hn] at hs; cases hs
      | some id =>
        rw [hn] at hs
        simp only [Option.some.injEq, Prod.mk.injEq] at hs
        obtain ⟨rfl, _⟩ := hs
        have hnlt := named_some_lt h hn
        refine ⟨?_, ?_, ?_, ?_⟩
        · intro p hp'
          exact h.named_lt p ((List.mem_filter.1 hp').1)
        · intro p hp'
          simp only [lookup_filter]
          by_cases e : p.1 = n
          · simp only [e, if_true]; exact Or.inr ⟨trivial, hnlt⟩
          · simp only [e, if_false]; exact h.cache_ok p hp'
        · intro m b hm
          simp only [Option.some.injEq, Prod.mk.injEq] at hm
          obtain ⟨rfl, _⟩ := hm
          simp only [lookup_filter, if_true]
          exact ⟨trivial, hnlt⟩
        · intro m hm
          simp only [Option.some.injEq, Prod.mk.injEq] at hm
          obtain ⟨_, hb⟩ := hm; cases hb
  | removeStep =>
    simp only [step] at hs
    cases hp : s.pend with
    | none => rw [hp] at hs; cases hs
    | some q =>
      obtain ⟨n, b⟩ := q
      rw [hp] at hs
      have ⟨hgone, hlt⟩ := h.pend_gone n b hp
      cases b with
      | false =>
        simp only [if_true, Option.some.injEq, Prod.mk.injEq] at hs
        obtain ⟨rfl, _⟩ := hs
        refine ⟨h.named_lt, ?_, ?_, ?_⟩
        · intro p hp'
          exact h.cache_ok p ((List.mem_filter.1 hp').1)
        · intro m b hm
          simp only [evict, Option.some.injEq, Prod.mk.injEq] at hm
          obtain ⟨rfl, _⟩ := hm
          exact ⟨hgone, hlt⟩
        · intro m hm p hp'
          simp only [evict, Option.some.injEq, Prod.mk.injEq] at hm
          obtain ⟨rfl, _⟩ := hm
          have := (List.mem_filter.1 hp').2
          simpa using this
      | true =>
        simp only [if_true, Option.some.injEq, Prod.mk.injEq] at hs
        obtain ⟨rfl, _⟩ := hs
        have hev := h.pend_evicted n hp
        unfold reuse
        by_cases hnx : s.next = n + 1
        · simp only [hnx, if_true]
          refine ⟨?_, ?_, by simp, by simp⟩
          · intro p hp'
            have h1 := h.named_lt p hp'
            have h2 : p.1 ≠ n := by
              intro e
              have := lookup_ne_none_of_mem hp'
              rw [e] at this; exact this hgone
            show p.1 < n
            omega
          · intro p hp'
            have h2 := hev p hp'
            rcases h.cache_ok p hp' with hc | ⟨hc, hl⟩
            · exact Or.inl hc
            · exact Or.inr ⟨hc, by show p.1 < n; omega⟩
        · simp only [hnx, if_false]
          exact ⟨h.named_lt, h.cache_ok, by simp, by simp⟩

/-- every read is served with the data of the table its number names -/
theorem read_serves_named {s s' : St} {n : Nat} {out : Option Nat} (h : Inv s)
    (hs : step true s (.read n) = some (s', out)) : out = lookup s.named n ∧ out ≠ none := by
  simp only [step] at hs
  cases hn : lookup s.named n with
  | none => rw [hn] at hs; cases hs
  | some id =>
    rw [hn] at hs
    cases hc : lookup s.cache n with
    | some cid =>
      rw [hc] at hs
      simp only [Option.some.injEq, Prod.mk.injEq] at hs
      obtain ⟨_, rfl⟩ := hs
      have hm := lookup_some_mem hc
      rcases h.cache_ok _ hm with h1 | ⟨h1, _⟩
      · simp only at h1; rw [hn] at h1; exact ⟨h1.symm, by simp⟩
      · simp only at h1; rw [hn] at h1; cases h1
    | none =>
      rw [hc] at hs
      simp only [Option.some.injEq, Prod.mk.injEq] at hs
      obtain ⟨_, rfl⟩ := hs
      exact ⟨rfl, by simp⟩

theorem inv_run {s s' : St} {as : List Act} {log : List (Nat × Option Nat × Nat)} (h : Inv s)
    (hr : run true s as = some (s', log)) : Inv s' ∧ ∀ e ∈ log, e.2.1 = some e.2.2 := by
  induction as generalizing s s' log with
  | nil =>
    simp only [run, Option.some.injEq, Prod.mk.injEq] at hr
    obtain ⟨rfl, rfl⟩ := hr; exact ⟨h, by simp⟩
  | cons a as ih =>
    simp only [run] at hr
    cases hst : step true s a with
    | none => rw [hst] at hr; cases hr
    | some so =>
      obtain ⟨s1, out⟩ := so
      rw [hst] at hr
      simp only at hr
      have h1 := inv_step h hst
      cases hr1 : run true s1 as with
      | none => rw [hr1] at hr; cases hr
      | some sl =>
        obtain ⟨s2, l2⟩ := sl
        rw [hr1] at hr
        have ⟨hi, hl⟩ := ih h1 hr1
        cases a with
        | read n =>
          cases out with
          | none =>
            simp only [Option.some.injEq, Prod.mk.injEq] at hr
            obtain ⟨rfl, rfl⟩ := hr; exact ⟨hi, hl⟩
          | some got =>
            simp only [Option.some.injEq, Prod.mk.injEq] at hr
            obtain ⟨rfl, rfl⟩ := hr
            refine ⟨hi, fun e he => ?_⟩
            simp only [List.mem_cons] at he
            rcases he with rfl | he
            · have := (read_serves_named h hst).1
              simp only; exact this.symm
            · exact hl e he
        | create => simp only [Option.some.injEq, Prod.mk.injEq] at hr; obtain ⟨rfl, rfl⟩ := hr; exact ⟨hi, hl⟩
        | beginRemove n => simp only [Option.some.injEq, Prod.mk.injEq] at hr; obtain ⟨rfl, rfl⟩ := hr; exact ⟨hi, hl⟩
        | removeStep => simp only [Option.some.injEq, Prod.mk.injEq] at hr; obtain ⟨rfl, rfl⟩ := hr; exact ⟨hi, hl⟩

end GoLevel.BlockNS
