import GoLevel.Proofs.RefLoopFConv
/-! One step of the second loop of `processTasks` (a released version is passed, its delta applied), over
the full history (C07). -/
namespace GoLevel.RefLoop

def relState (S : State) (m : List Nat) : State :=
  { S with fileRef := m, released := S.released.filter (fun p => p.1 != S.next), next := S.next + 1 }

theorem rel_invF {S : State} {G : EnvF} (hI : InvF S G) (hrel : S.next ∈ G.rel) {m : List Nat}
    (hcnt : ∀ f, m.count f = ind (f ∈ G.L (G.cb (S.next + 1))) +
      (S.referenced.filter (fun k => decide (f ∈ G.T k))).length) :
    InvF (relState S m) G := by
  have hi := (hI.wf.rel _ hrel).1
  have hn := EnvF.inst_lt hi
  refine ⟨hI.wf, by show S.next + 1 ≤ G.N; omega, ⟨hI.ab.1, ?_⟩, ?_, ?_, ?_, ⟨hI.rfd.1, ?_⟩, hcnt⟩
  · intro k
    show k ∈ S.abandoned ↔ S.next + 1 ≤ k ∧ _
    rw [hI.ab.2 k]
    constructor
    · rintro ⟨h1, h2, h3⟩
      refine ⟨?_, h2, h3⟩
      by_cases hk : k = S.next
      · subst hk; exact absurd hi h3
      · omega
    · rintro ⟨h1, h2⟩; exact ⟨by omega, h2⟩
  · exact lookup_pass_keep (P := fun k => G.inst k ∧ k ∉ G.rel) hI.ref (fun h => h.2 hrel)
  · exact lookup_pass_filter (P := fun k => k ∈ G.rel) hI.rld
  · exact lookup_pass_keep (P := fun k => k < G.dn ∧ G.inst k ∧ k ∉ G.rel) hI.dl (fun h => h.2.2 hrel)
  · intro k
    show k ∈ S.referenced ↔ k < S.next + 1 ∧ _
    rw [hI.rfd.2 k]
    constructor
    · rintro ⟨h1, h2⟩; exact ⟨by omega, h2⟩
    · rintro ⟨h1, h2, h3⟩
      refine ⟨?_, h2, h3⟩
      by_cases hk : k = S.next
      · subst hk; exact absurd hrel h3
      · omega

/-- One released version is passed. -/
theorem release_oneF {S : State} {G : EnvF} {R : List Nat} (hI : InvF S G) (hG : GL G S.next)
    (hH : HistC S G R) (hrel : S.next ∈ G.rel) :
    ∃ od m rm, S.released.lookup S.next = some od ∧
      optApply od S.fileRef = some (m, rm) ∧
      InvF (relState S m) G ∧ SafeF G (S.next + 1) rm ∧ HistC (relState S m) G (R ++ rm) := by
  obtain ⟨hi, hkd⟩ := hI.wf.rel _ hrel
  have hn := EnvF.inst_lt hi
  have hlook : S.released.lookup S.next =
      some (if S.next < G.dn then some (G.din (G.up (S.next + 1))) else none) := by
    rw [hI.rld]; simp [hrel]
  by_cases hd : S.next < G.dn
  · obtain ⟨hcb, hcb'⟩ := cb_pass_instF hi hd
    have hcnt := fun f => by have := hI.cnt f; rw [hcb] at this; exact this
    obtain ⟨m2, rm, h1, h2, h3, h4, h5⟩ := apply_netF (hI.wf.chain _ hd hi) hcnt
    have hI' : InvF (relState S m2) G := rel_invF hI hrel (by intro f; rw [hcb']; exact h2 f)
    have hwi : G.inst (G.up (S.next + 1)) := by
      have := hI.wf.up_le_dn hd
      have hN : 0 < G.N := by omega
      exact G.up_inst_of_lt _ (Nat.lt_of_le_of_lt this (hI.wf.dn_lt hN))
    refine ⟨_, m2, rm, hlook, by simp only [hd, if_true]; exact h1, hI', ?_, fun hc hnu => ?_⟩
    · exact safe_of_leftF hI.wf hG (Or.inr (by rw [hcb]; exact Nat.le_refl _)) hI'.rfd.2 (Nat.lt_succ_self _)
        (by rw [hcb']; exact Nat.le_refl _) hwi h3
    · exact hist_stepF hI hI' (hH hc hnu) hnu hc rfl (Nat.le_succ _) (Nat.le_refl _) (fun _ h => h)
        (fun _ => ⟨rfl, rfl, rfl, fun _ => hd⟩) h4 h5
  · -- the current version released by `session.close`: no delta
    have hcl : G.closing = true := by
      rcases hkd with h | ⟨h, _⟩
      · omega
      · exact h
    have hI' : InvF (relState S S.fileRef) G := rel_invF hI hrel (by
      intro f
      rw [cb_pass_sameF hI.wf hn (Or.inr (by omega))]
      exact hI.cnt f)
    refine ⟨_, S.fileRef, [], hlook, by simp only [hd, if_false]; rfl, hI', safeF_nil _ _, fun hc _ => ?_⟩
    rw [hcl] at hc; cases hc

end GoLevel.RefLoop
