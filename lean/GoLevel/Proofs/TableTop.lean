import GoLevel.Proofs.TableFF
import GoLevel.Proofs.TableRange
import GoLevel.Proofs.TableD
import GoLevel.Proofs.Bytewise
/-! Glue between `Table.write` and the shape-level lemmas: hypotheses bundles and the wrappers used by `Props/C13`. -/
namespace GoLevel.C13
open GoLevel

/-- a full forward pass over a written table, shape free: every block size, restart interval, filter setting -/
theorem entries_of_write (cfg : TableCfg) (hck : Cksum32 cfg.cksum) (kvs : List KV) (hs : SmallKV kvs)
    (hsz : (Table.write cfg kvs).length < 2 ^ 32) (verify : Bool) :
    ∃ t, Table.open cfg verify (Table.write cfg kvs) = some t ∧ t.entries = some kvs := by
  obtain ⟨cs, hfile, hflat, _⟩ := write_shape cfg kvs
  rw [hfile] at hsz ⊢
  have hfb : (closeFilter cfg (appended cfg kvs)).isSome = cfg.filter.isSome := by simp [closeFilter]
  obtain ⟨t, ho, he⟩ := entries_written cfg hck cs _ hfb hsz (name_small cfg cs _ hfb hsz) verify
    (fun c hm => small_chunk cs (hflat ▸ hs) c hm)
  exact ⟨t, ho, by rw [he, hflat]⟩

/-- what the table writer needs from comparer and checksum -/
structure CfgOK (cfg : TableCfg) : Prop where
  cmp : LawfulCmp cfg.cmp
  sep : SepOK cfg
  succ : SuccOK cfg
  ck : Cksum32 cfg.cksum

/-- only the first key of a table may be the empty string (`flushPendingBH` takes an empty next key for "no
next key" and calls `Successor` instead of `Separator`) -/
def TailKeysNonempty (kvs : List KV) : Prop := ∀ kv ∈ kvs.tail, kv.1 ≠ []

theorem chunksOK_of {cfg : TableCfg} {kvs : List KV} {cs : List (List KV)} (hflat : cs.flatten = kvs)
    (hne : ∀ c ∈ cs, c ≠ []) (hsorted : StrictSorted cfg.cmp kvs) (hk : TailKeysNonempty kvs) :
    ChunksOK cfg cs [] := by
  refine ⟨by simpa [hflat] using hsorted, hne, ?_⟩
  cases cs with
  | nil => trivial
  | cons c rest =>
    have hc : c ≠ [] := hne c (by simp)
    cases c with
    | nil => exact absurd rfl hc
    | cons x c' =>
      intro kv hm
      apply hk kv
      rw [← hflat]
      simp only [List.flatten_cons, List.cons_append, List.tail_cons]
      simp only [List.append_nil] at hm
      exact List.mem_append_right _ hm

theorem table_find_spec' (cfg : TableCfg) (hok : CfgOK cfg) (kvs : List KV) (hs : SmallKV kvs)
    (hsorted : StrictSorted cfg.cmp kvs) (hk : TailKeysNonempty kvs)
    (hsz : (Table.write cfg kvs).length < 2 ^ 32) (verify : Bool) (key : Bytes) :
    ∃ t, Table.open cfg verify (Table.write cfg kvs) = some t ∧ t.cmp = cfg.cmp ∧
      t.find key false = resultOf (kvs.find? fun e => cfg.cmp e.1 key != .lt) := by
  obtain ⟨cs, hfile, hflat, hshape⟩ := write_shape cfg kvs
  rw [hfile] at hsz ⊢
  have hfb : (closeFilter cfg (appended cfg kvs)).isSome = cfg.filter.isSome := by simp [closeFilter]
  have hsh : cs = [[]] ∨ ChunksOK cfg cs [] := by
    rcases hshape with ⟨_, h⟩ | ⟨_, h⟩
    · exact Or.inl h
    · exact Or.inr (chunksOK_of hflat h hsorted hk)
  obtain ⟨t, ho, hcmp, hf⟩ := find_written cfg hok.cmp hok.sep hok.succ hok.ck cs _ hfb hsz
    (name_small cfg cs _ hfb hsz) verify hsh (hflat ▸ hs) key
  exact ⟨t, ho, hcmp, by rw [hf, hflat]⟩

theorem entriesInRange_none (t : TableR) : t.entriesInRange none none = t.entries := by
  unfold TableR.entriesInRange TableR.entries
  cases h : t.index.entries with
  | none => rfl
  | some ix =>
    simp only [TableR.sliceIndex]
    cases hb : t.blocksOf ix with
    | none => rfl
    | some bs =>
      simp only [Option.map_some]
      rw [mapEnds_id (TableR.sliceBlock t.cmp none none) bs (fun c _ => rfl)]

/-- content of a range-restricted iterator over a written table -/
theorem range_of_write (cfg : TableCfg) (hok : CfgOK cfg) (kvs : List KV) (hs : SmallKV kvs)
    (hsorted : StrictSorted cfg.cmp kvs) (hk : TailKeysNonempty kvs)
    (hsz : (Table.write cfg kvs).length < 2 ^ 32) (verify : Bool) (start limit : Option Bytes) :
    ∃ t, Table.open cfg verify (Table.write cfg kvs) = some t ∧
      t.entriesInRange start limit = some (kvs.filter (inRange cfg.cmp start limit)) := by
  obtain ⟨cs, hfile, hflat, hshape⟩ := write_shape cfg kvs
  rw [hfile] at hsz ⊢
  have hfb : (closeFilter cfg (appended cfg kvs)).isSome = cfg.filter.isSome := by simp [closeFilter]
  have hsh : cs = [[]] ∨ ChunksOK cfg cs [] := by
    rcases hshape with ⟨_, h⟩ | ⟨_, h⟩
    · exact Or.inl h
    · exact Or.inr (chunksOK_of hflat h hsorted hk)
  obtain ⟨t, ho, hr⟩ := range_written cfg hok.cmp hok.sep hok.succ hok.ck cs _ hfb hsz
    (name_small cfg cs _ hfb hsz) verify hsh (hflat ▸ hs) start limit
  exact ⟨t, ho, by rw [hr, hflat, sliceBlock_sorted hok.cmp start limit kvs hsorted]⟩

end GoLevel.C13
