import GoLevel.Proofs.RecoverOpsLoop
/-!
`Recover` at the level of storage operations, part 7: the journal loop by induction over the journal files, and
phase 3 as a whole (`open_reach`).
-/
namespace GoLevel.Dur
open GoLevel GoLevel.Conc

theorem erase_head_sorted {α : Type} {o : Nat} {fo : α} {J : Files α}
    (hs : ((o, fo) :: J).Pairwise (fun p q => p.1 < q.1)) : Files.erase ((o, fo) :: J) o = J := by
  rw [List.pairwise_cons] at hs
  unfold Files.erase
  rw [List.filter_cons]
  simp only [ne_eq, not_true_eq_false, decide_false, Bool.false_eq_true, if_false]
  apply List.filter_eq_self.2
  intro p hp
  have := hs.1 p hp
  simp only at this
  simp; omega

/-- the journal loop from an iteration that has a replayed journal `o` in hand, to the end of `openDB` -/
theorem loop_reach {cfg : RCfg} {r0 : RDisk} (m : Nat) :
    ∀ (Jrem : Files (LogFile Grp)) (seq nf o : Nat) (fo : LogFile Grp) (mdb P : List Grp) (r : RDisk),
      fo.all = mdb →
      JInv cfg r0 nf P ((o, fo) :: Jrem) r →
      ((o, fo) :: Jrem).Pairwise (fun p q => p.1 < q.1) →
      (∀ p ∈ (o, fo) :: Jrem, p.2.unsynced = [] ∧ lookup r0.disk.journals p.1 = some p.2 ∧ p.1 < nf) →
      (scanIn cfg r0).journals.flatMap (·.2) = P ++ mdb ++ Jrem.flatMap (·.2.all) →
      AscFrom seq (Jrem.flatMap (·.2.all)) →
      (∀ n ∈ r0.disk.tables.nums, n < nf) →
      ∀ r', Reach ((journalLoop m r0.disk ⟨seq, nf, some o, mdb⟩ (Jrem.map (·.1))).1 ++
          (tailOps m (journalLoop m r0.disk ⟨seq, nf, some o, mdb⟩ (Jrem.map (·.1))).2 ++
            janitorOps m r0 (tablePhase cfg r0).2)) r r' →
      ∀ ch, Atomic cfg r0 (rcrash ch r') := by
  intro Jrem
  induction Jrem with
  | nil =>
    intro seq nf o fo mdb P r hfo hJ _ hp hsplit _ hr0 r' hr ch
    simp only [List.map_nil, journalLoop, List.nil_append] at hr
    obtain ⟨h1, _, h3⟩ := hp (o, fo) List.mem_cons_self
    exact tail_reach hJ hfo h1 h3 hr0 (by simpa using hsplit) hr ch
  | cons q Jrem ih =>
    obtain ⟨j, fj⟩ := q
    intro seq nf o fo mdb P r hfo hJ hs hp hsplit hasc hr0 r' hr ch
    have hdur : ∀ p ∈ (o, fo) :: (j, fj) :: Jrem, p.2.unsynced = [] := fun p h => (hp p h).1
    have hlj : lookup r0.disk.journals j = some fj := (hp (j, fj) (by simp)).2.1
    simp only [List.map_cons, journalLoop, midOps, journalRecs_one hlj, List.append_assoc] at hr
    simp only [List.flatMap_cons] at hsplit hasc
    obtain ⟨rp1, rp2⟩ := replayJ_prefix fj.all (Jrem.flatMap (·.2.all)) hasc
    have hJstream : ((o, fo) :: (j, fj) :: Jrem).flatMap (·.2.all) = mdb ++ (fj.all ++ Jrem.flatMap (·.2.all)) := by
      simp [hfo]
    -- inside the flush of the memdb of `o`
    rcases reach_append hr with hr | hr
    · obtain ⟨hj', ht | ht⟩ := flushOps_reach hJ hr0 hdur hr ch
      · exact ⟨P, [], mdb ++ (fj.all ++ Jrem.flatMap (·.2.all)),
          midIn_of_parts hj' (by simpa using ht) hs (by simp [hsplit]) (by simpa using hJstream)⟩
      · exact ⟨P, mdb, fj.all ++ Jrem.flatMap (·.2.all), midIn_of_parts hj' ht hs hsplit hJstream⟩
    have hf := flushOps_done (G := mdb) hJ hr0
    generalize r.applyAll (flushOps nf mdb) = rf at hf hr
    simp only [List.cons_append, List.nil_append] at hr
    rcases hf.step_quiet rfl hr with rfl | ⟨r2, h2, hr⟩
    · exact atomic_of_jinv hf hs hdur hsplit hJstream ch
    rcases h2.step_quiet rfl hr with rfl | ⟨r3, h3, hr⟩
    · exact atomic_of_jinv h2 hs hdur hsplit hJstream ch
    -- the journal `o` is removed; the loop goes on with `j` in hand
    rcases reach_cons hr with rfl | hr
    · exact atomic_of_jinv h3 hs hdur hsplit hJstream ch
    have hj4 : (r3.apply (.base (.remove .journal o))).disk.journals = (j, fj) :: Jrem := by
      show r3.disk.journals.erase o = _
      rw [h3.journals]; exact erase_head_sorted hs
    have h4 : JInv cfg r0 (nfAfterFlush nf mdb) (P ++ mdb) ((j, fj) :: Jrem)
        (r3.apply (.base (.remove .journal o))) := by
      have := h3.set_journals (r' := r3.apply (.base (.remove .journal o))) rfl rfl
      rw [hj4] at this; exact this
    have hnf : nf ≤ nfAfterFlush nf mdb := by unfold nfAfterFlush; split <;> omega
    rw [List.pairwise_cons] at hs
    refine ih (replayJ seq fj.all).2 (nfAfterFlush nf mdb) j fj (replayJ seq fj.all).1 (P ++ mdb) _ rp1.symm h4 hs.2
      (fun p hp' => ?_) ?_ rp2 (fun n hn => Nat.lt_of_lt_of_le (hr0 n hn) hnf) r' hr ch
    · obtain ⟨a, b, c⟩ := hp p (List.mem_cons_of_mem _ hp')
      exact ⟨a, b, Nat.lt_of_lt_of_le c hnf⟩
    · rw [hsplit, rp1]; simp

theorem le_maxNum {l : List Nat} {n : Nat} (h : n ∈ l) : n ≤ maxNum l := by
  unfold maxNum
  have : ∀ (l : List Nat) (a : Nat), a ≤ l.foldl max a ∧ ∀ x ∈ l, x ≤ l.foldl max a := by
    intro l
    induction l with
    | nil => intro a; exact ⟨Nat.le_refl _, fun x hx => by cases hx⟩
    | cons y ys ih =>
      intro a
      simp only [List.foldl_cons]
      obtain ⟨i1, i2⟩ := ih (max a y)
      refine ⟨Nat.le_trans (Nat.le_max_left _ _) i1, fun x hx => ?_⟩
      rcases List.mem_cons.1 hx with rfl | hx'
      · exact Nat.le_trans (Nat.le_max_right _ _) i1
      · exact i2 x hx'
  exact (this l 0).2 n h

theorem lt_manifestNum {r : RDisk} {n : Nat} (h : n ∈ r.disk.tables.nums) : n < manifestNum r := by
  unfold manifestNum
  have hmem : n ∈ allNums r := by
    unfold allNums
    exact List.mem_append_left _ (List.mem_append_left _ (List.mem_append_left _ h))
  have hne : (allNums r).isEmpty = false := by
    cases ha : allNums r with
    | nil => rw [ha] at hmem; simp at hmem
    | cons p ps => rfl
  rw [hne]
  have := le_maxNum hmem
  simp only [Bool.false_eq_true, if_false]
  omega

/-- **phase 3**: every crash image of every prefix of `openDB`'s operations -/
theorem open_reach {cfg : RCfg} {r0 r2 : RDisk} (hctx : JCtx cfg r0) (hdm : ∀ n ∈ r0.dmg, n ∈ r0.disk.tables.nums)
    (hT : TSame cfg r0 r2) {r' : RDisk}
    (hr : Reach (openOps r0 (manifestNum r0) (tablePhase cfg r0).2) r2 r') (ch : RCrash) :
    Atomic cfg r0 (rcrash ch r') := by
  have hmax : (tablePhase cfg r0).2.maxSeq = maxSeqOf ((scanIn cfg r0).tables.flatMap (·.2)) := by
    rw [(tablePhase_acc cfg r0).2, scanIn_table_ents]
  have hnf : manifestNum r0 + 1 ≤ openNf (manifestNum r0) r0.disk := by unfold openNf; simp only; omega
  have hr0 : ∀ n ∈ r0.disk.tables.nums, n < openNf (manifestNum r0) r0.disk :=
    fun n hn => by have := lt_manifestNum hn; omega
  -- the storage `recoverTable` leaves
  have hJ0 : JInv cfg r0 (openNf (manifestNum r0) r0.disk) [] r0.disk.journals r2 := by
    refine ⟨hT.journals, hT.tsynced, fun p hp => ?_, fun n hn => hr0 n (hdm n (hT.dmgsub n hn)), fun e => ?_,
      fun n _ => hT.slot n⟩
    · have : p.1 ∈ r0.disk.tables.nums := by rw [← hT.nums]; exact List.mem_map.2 ⟨p, hp, rfl⟩
      exact hr0 _ this
    · simp only [hT.slot, List.flatMap_nil, List.not_mem_nil, or_false]
      exact mem_scan_tables.symm
  have hS : (scanIn cfg r0).journals.flatMap (·.2) = r0.disk.journals.flatMap (·.2.all) :=
    scan_journals_sorted cfg hctx.jsorted
  have hnums : journalNums r0.disk = r0.disk.journals.map (·.1) := by
    unfold journalNums Files.nums
    apply sortNums_sorted
    rw [List.pairwise_map]; exact hctx.jsorted
  unfold openOps at hr
  simp only [hnums, List.append_assoc] at hr
  cases hJ : r0.disk.journals with
  | nil =>
    rw [hJ] at hr hJ0 hS
    simp only [List.map_nil, journalLoop, List.nil_append] at hr
    exact tail_reach_none hJ0 (by simpa using hS) hr ch
  | cons q Jrest =>
    obtain ⟨j1, f1⟩ := q
    rw [hJ] at hr hJ0 hS
    have hl1 : lookup r0.disk.journals j1 = some f1 :=
      lookup_of_mem (sorted_nodup hctx.jsorted) (by rw [hJ]; exact List.mem_cons_self)
    simp only [List.map_cons, journalLoop, midOps, journalRecs_one hl1, List.nil_append] at hr
    have hasc := hctx.asc
    rw [hS, ← hmax] at hasc
    simp only [List.flatMap_cons] at hasc hS
    obtain ⟨rp1, rp2⟩ := replayJ_prefix f1.all (Jrest.flatMap (·.2.all)) hasc
    have hsorted : ((j1, f1) :: Jrest).Pairwise (fun p q => p.1 < q.1) := by rw [← hJ]; exact hctx.jsorted
    refine loop_reach (manifestNum r0) Jrest _ _ j1 f1 _ [] r2 rp1.symm hJ0 hsorted (fun p hp => ?_) ?_ rp2 hr0 r' hr ch
    · have hp0 : p ∈ r0.disk.journals := by rw [hJ]; exact hp
      refine ⟨hctx.jdur p hp0, lookup_of_mem (sorted_nodup hctx.jsorted) (by cases p; exact hp0), ?_⟩
      have : p.1 ∈ journalNums r0.disk := by rw [hnums]; exact List.mem_map.2 ⟨p, hp0, rfl⟩
      have hle := le_maxNum this
      have hne : (journalNums r0.disk).isEmpty = false := by
        cases hh : journalNums r0.disk with
        | nil => rw [hh] at this; cases this
        | cons a b => rfl
      unfold openNf
      simp only [hne, Bool.false_eq_true, if_false]
      omega
    · rw [hS, rp1]; simp

/-! ## all of `Recover` -/

theorem TSame.quiet {cfg : RCfg} {r0 r : RDisk} (h : TSame cfg r0 r) {op : ROp} (hq : op.quiet = true) :
    TSame cfg r0 (r.apply op) := by
  obtain ⟨a, b, c⟩ := quiet_apply hq r
  exact h.of_eq a b c

theorem manifestOps_quiet (cfg : RCfg) (m : Nat) (a : TAcc) : ∀ op ∈ manifestOps cfg m a, op.quiet = true := by
  intro op hop
  unfold manifestOps at hop
  cases hc : cfg.createsEmptyManifestFirst <;> simp [hc] at hop <;> rcases hop with rfl | rfl | rfl | rfl | h <;>
    first | rfl | (rcases h with rfl | rfl <;> rfl) | skip

/-- phases 1 and 2, whichever way the manifest is written: tables and journals offer a second `Recover` what they
    offered the first -/
theorem recoverTable_reach_tsame {cfg : RCfg} {r0 r' : RDisk} (hd : r0.durable)
    (h : Reach (recoverTableOps cfg r0) r0 r') : TSame cfg r0 r' := by
  unfold recoverTableOps at h
  simp only at h
  have h0 : TSame cfg r0 r0 := TSame.refl cfg hd
  rcases reach_append h with h1 | h2
  · exact (tableLoop_reach cfg r0 _ _ _ _ h0 ⟨rfl, rfl⟩ h1).1
  · have t := (tableLoop_reach cfg r0 _ _ _ _ h0 ⟨rfl, rfl⟩ (reach_all (tablePhase cfg r0).1 r0)).1
    exact reach_preserve (I := TSame cfg r0) (fun op hop r h => h.quiet (manifestOps_quiet _ _ _ op hop)) t h2

/-- a storage that offers the same tables and journals is trivially `Atomic` -/
theorem TSame.atomic {cfg : RCfg} {r0 r : RDisk} (h : TSame cfg r0 r) : Atomic cfg r0 r := by
  refine ⟨[], [], (scanIn cfg r0).journals.flatMap (·.2), ?_⟩
  rw [h.scanIn_eq]
  exact ⟨by simp, fun e => by simp, by simp⟩

/-- **every crash image of every prefix of `Recover`'s operations** offers a second `Recover` an input that is
    `MidIn` relative to the first one's -/
theorem recover_reach_atomic {cfg : RCfg} {r0 : RDisk} (hd : r0.durable) (hctx : JCtx cfg r0)
    (hdm : ∀ n ∈ r0.dmg, n ∈ r0.disk.tables.nums) (k : Nat) (ch : RCrash) :
    Atomic cfg r0 (crashAt cfg r0 k ch) := by
  unfold crashAt
  have hr : Reach (recoverOps cfg r0) r0 (r0.applyAll ((recoverOps cfg r0).take k)) := ⟨k, rfl⟩
  unfold recoverOps at hr
  simp only at hr
  rcases reach_append hr with h1 | h2
  · exact ((recoverTable_reach_tsame hd h1).crash hd ch).atomic
  · exact open_reach hctx hdm (recoverTable_reach_tsame hd (reach_all _ r0)) h2 ch

/-- the crash points inside `recoverTable` -/
theorem crashAt_recoverTable {cfg : RCfg} {r0 : RDisk} {k : Nat} (hk : k ≤ (recoverTableOps cfg r0).length)
    (ch : RCrash) : ∃ r', Reach (recoverTableOps cfg r0) r0 r' ∧ crashAt cfg r0 k ch = rcrash ch r' := by
  refine ⟨r0.applyAll ((recoverTableOps cfg r0).take k), ⟨k, rfl⟩, ?_⟩
  unfold crashAt recoverOps
  simp only
  rw [List.take_append_of_le_length hk]

/-- with the tables and journals listed in number order, no damage marks consulted and `StrictRecovery` off,
    `scanIn` is the `rebuildInOf` of `Model/Durable.lean` -/
theorem scanIn_eq_rebuildInOf {cfg : RCfg} (hs : cfg.strict = false) {r : RDisk}
    (ht : r.disk.tables.Pairwise (fun p q => p.1 < q.1)) (hj : r.disk.journals.Pairwise (fun p q => p.1 < q.1)) :
    scanIn cfg r = rebuildInOf r.disk := by
  unfold scanIn rebuildInOf tableNums journalNums Files.nums
  rw [sortNums_sorted (by rw [List.pairwise_map]; exact ht), sortNums_sorted (by rw [List.pairwise_map]; exact hj)]
  simp only [List.map_map]
  congr 1
  · apply List.map_congr_left
    intro p hp
    have hl : lookup r.disk.tables p.1 = some p.2 := lookup_of_mem (sorted_nodup ht) (by cases p; exact hp)
    simp only [Function.comp, slotEnts, hl, hs, Bool.false_and, Bool.false_eq_true, if_false, scanGood]
    cases p.2.bad <;> simp
  · apply List.map_congr_left
    intro p hp
    have hl : lookup r.disk.journals p.1 = some p.2 := lookup_of_mem (sorted_nodup hj) (by cases p; exact hp)
    simp [Function.comp, hl]

end GoLevel.Dur
