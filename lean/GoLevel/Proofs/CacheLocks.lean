import GoLevel.Model.CacheLocks
import GoLevel.Proofs.CacheProgress
/-! The lock-level cache system (C17), part 1: it is a restriction of the base interleaving system — every
lock-level step is a base step of the same thread or touches lock state only — so every safety theorem proved for
`Reachable false` holds for the states the lock-level system reaches. -/
namespace GoLevel.CacheL
open GoLevel.CacheM

@[simp] theorem setLock_base (ls : LSys) (l : LockId) (rw : RW) : (ls.setLock l rw).base = ls.base := by
  cases l <;> rfl

@[simp] theorem setLock_tl (ls : LSys) (l : LockId) (rw : RW) : (ls.setLock l rw).tl = ls.tl := by
  cases l <;> rfl

@[simp] theorem setLock_uum (ls : LSys) (l : LockId) (rw : RW) :
    (ls.setLock l rw).unrefUsesMu = ls.unrefUsesMu := by
  cases l <;> rfl

theorem afterBase_base (ls : LSys) (t : Nat) (th : LThread) (i : Instr) (b' : Sys) :
    (afterBase ls t th i b').base = b' := by
  unfold afterBase
  split
  · split <;> simp
  · split
    · split <;> simp
    · rfl

theorem afterBase_uum (ls : LSys) (t : Nat) (th : LThread) (i : Instr) (b' : Sys) :
    (afterBase ls t th i b').unrefUsesMu = ls.unrefUsesMu := by
  unfold afterBase
  split
  · split <;> simp
  · split
    · split <;> simp
    · rfl

/-- What a step of thread `t` is made of. -/
theorem lstepThread_cases {ls ls' : LSys} {t : Nat} (h : lstepThread ls t = some ls') :
    ∃ th T, ls.tl[t]? = some th ∧ ls.base.threads[t]? = some T ∧
      ((th.phase = .annMu ∧ ls.mu.readers = 0 ∧
          ls' = { (setPhase ls t th .hasMu) with mu := { ls.mu with held := true } }) ∨
       (th.phase = .hasMu ∧ ls.unrefUsesMu = true ∧ closeBody ls t th = some ls') ∨
       (th.phase = .hasMu ∧ ls.unrefUsesMu = false ∧ ls.un.writer = none ∧
          ls' = { (setPhase ls t th .annUn) with un := { ls.un with writer := some t } }) ∨
       (th.phase = .annUn ∧ ls.un.readers = 0 ∧
          ls' = { (setPhase ls t th .hasBoth) with un := { ls.un with held := true } }) ∨
       (th.phase = .hasBoth ∧ closeBody ls t th = some ls') ∨
       (th.phase = .relUn ∧
          ls' = { (setPhase ls t th .relMu) with un := { ls.un with writer := none, held := false } }) ∨
       (th.phase = .relMu ∧
          ls' = { (setPhase ls t th .idle) with mu := { ls.mu with writer := none, held := false } }) ∨
       (th.phase = .idle ∧ (∃ f rest, T = .closeLock f :: rest) ∧ ls.mu.writer = none ∧
          ls' = { (setPhase ls t th .annMu) with mu := { ls.mu with writer := some t } }) ∨
       (th.phase = .idle ∧ ∃ i rest b', T = i :: rest ∧ isCloseLock i = false ∧
          (∀ l, rlockOf ls i = some l → (ls.lock l).writer = none) ∧
          sysStep false ls.base (.step t) = some b' ∧ ls' = afterBase ls t th i b')) := by
  unfold lstepThread at h
  cases hth : ls.tl[t]? with
  | none => simp [hth] at h
  | some th =>
    cases hT : ls.base.threads[t]? with
    | none => simp [hth, hT] at h
    | some T =>
      refine ⟨th, T, rfl, rfl, ?_⟩
      simp only [hth, hT] at h
      cases hp : th.phase <;> simp only [hp] at h
      case annMu =>
        by_cases h0 : ls.mu.readers = 0
        · rw [if_pos h0] at h; exact Or.inl ⟨rfl, h0, (Option.some.inj h).symm⟩
        · rw [if_neg h0] at h; cases h
      case hasMu =>
        by_cases hu : ls.unrefUsesMu = true
        · rw [if_pos hu] at h; exact Or.inr (Or.inl ⟨rfl, hu, h⟩)
        · rw [if_neg hu] at h
          by_cases hw : ls.un.writer = none
          · rw [if_pos hw] at h
            exact Or.inr (Or.inr (Or.inl ⟨rfl, by simpa using hu, hw, (Option.some.inj h).symm⟩))
          · rw [if_neg hw] at h; cases h
      case annUn =>
        by_cases h0 : ls.un.readers = 0
        · rw [if_pos h0] at h
          exact Or.inr (Or.inr (Or.inr (Or.inl ⟨rfl, h0, (Option.some.inj h).symm⟩)))
        · rw [if_neg h0] at h; cases h
      case hasBoth => exact Or.inr (Or.inr (Or.inr (Or.inr (Or.inl ⟨rfl, h⟩))))
      case relUn =>
        exact Or.inr (Or.inr (Or.inr (Or.inr (Or.inr (Or.inl ⟨rfl, (Option.some.inj h).symm⟩)))))
      case relMu =>
        exact Or.inr (Or.inr (Or.inr (Or.inr (Or.inr (Or.inr (Or.inl ⟨rfl, (Option.some.inj h).symm⟩))))))
      case idle =>
        cases T with
        | nil => simp at h
        | cons i rest =>
          by_cases hcl : isCloseLock i = true
          · cases i <;> simp [isCloseLock] at hcl
            simp only [] at h
            by_cases hw : ls.mu.writer = none
            · rw [if_pos hw] at h
              exact Or.inr (Or.inr (Or.inr (Or.inr (Or.inr (Or.inr (Or.inr (Or.inl
                ⟨rfl, ⟨_, _, rfl⟩, hw, (Option.some.inj h).symm⟩)))))))
            · rw [if_neg hw] at h; cases h
          · have hcl' : isCloseLock i = false := by simpa using hcl
            have h2 : (if blocked ls i = true then none
                else match sysStep false ls.base (.step t) with
                  | some b' => some (afterBase ls t th i b')
                  | none => none) = some ls' := by
              cases i <;> first | exact h | (simp [isCloseLock] at hcl')
            by_cases hb : blocked ls i = true
            · rw [if_pos hb] at h2; cases h2
            · rw [if_neg hb] at h2
              cases hs : sysStep false ls.base (.step t) with
              | none => rw [hs] at h2; cases h2
              | some b' =>
                rw [hs] at h2
                refine Or.inr (Or.inr (Or.inr (Or.inr (Or.inr (Or.inr (Or.inr (Or.inr
                  ⟨rfl, i, rest, b', rfl, hcl', ?_, rfl, (Option.some.inj h2).symm⟩)))))))
                intro l hl
                unfold blocked at hb
                rw [hl] at hb
                cases hw : (ls.lock l).writer with
                | none => rfl
                | some _ => simp [hw] at hb

theorem closeBody_cases {ls ls' : LSys} {t : Nat} {th : LThread} (h : closeBody ls t th = some ls') :
    ∃ b', sysStep false ls.base (.step t) = some b' ∧
      ls' = { (setPhase ls t th (if ls.unrefUsesMu then .relMu else .relUn)) with base := b' } := by
  unfold closeBody at h
  cases hs : sysStep false ls.base (.step t) with
  | none => rw [hs] at h; cases h
  | some b' => rw [hs] at h; exact ⟨b', rfl, (Option.some.inj h).symm⟩

/-- **The lock-level system is a restriction of the base system.** -/
theorem lstep_base {ls ls' : LSys} {a : Act} (h : lstep ls a = some ls') :
    ls'.base = ls.base ∨ sysStep false ls.base a = some ls'.base := by
  cases a with
  | call t c =>
    simp only [lstep] at h
    cases hth : ls.tl[t]? with
    | none => simp [hth] at h
    | some th =>
      simp only [hth] at h
      split at h
      · cases hs : sysStep false ls.base (.call t c) with
        | none => rw [hs] at h; cases h
        | some b' => rw [hs] at h; right; rw [← Option.some.inj h]
      · cases h
  | step t =>
    obtain ⟨th, T, _, _, hc⟩ := lstepThread_cases h
    rcases hc with ⟨_, _, rfl⟩ | ⟨_, _, hb⟩ | ⟨_, _, _, rfl⟩ | ⟨_, _, rfl⟩ | ⟨_, hb⟩ | ⟨_, rfl⟩ | ⟨_, rfl⟩ |
      ⟨_, _, _, rfl⟩ | ⟨_, i, rest, b', _, _, _, hs, rfl⟩
    · exact Or.inl rfl
    · obtain ⟨b', hs, rfl⟩ := closeBody_cases hb; exact Or.inr hs
    · exact Or.inl rfl
    · exact Or.inl rfl
    · obtain ⟨b', hs, rfl⟩ := closeBody_cases hb; exact Or.inr hs
    · exact Or.inl rfl
    · exact Or.inl rfl
    · exact Or.inl rfl
    · right; rw [afterBase_base]; exact hs

theorem lreachable_base {ls : LSys} (h : LReachable ls) : Reachable false ls.base := by
  induction h with
  | init cfg uum c n => exact Reachable.init cfg c n
  | @step ls ls' a _ hs ih =>
    rcases lstep_base hs with h1 | h1
    · rw [h1]; exact ih
    · exact Reachable.step a ih h1

theorem lreachable_lrun {ls ls' : LSys} {sched : List Act} (hr : LReachable ls) (h : lrun ls sched = some ls') :
    LReachable ls' := by
  induction sched generalizing ls with
  | nil => simp only [lrun, Option.some.injEq] at h; subst h; exact hr
  | cons a as ih =>
    simp only [lrun] at h
    cases hs : lstep ls a with
    | none => rw [hs] at h; cases h
    | some s1 => rw [hs] at h; exact ih (LReachable.step a hr hs) h

end GoLevel.CacheL
