import GoLevel.Proofs.MemArrConcIter
/-! The interleaving invariant along an execution, and what the observed iterator yields (C14, `concurrent_readers`). -/
set_option linter.unusedSectionVars false
set_option linter.unusedSimpArgs false
set_option linter.unusedVariables false
namespace GoLevel.MemArr
open GoLevel.Gen (nKV nKey nVal nHeight nNext tMaxHeight)
open GoLevel.MemDB (Node LawfulCmp Sorted pred below ins Op Ans inR ps pl)

variable {cmp : Cmp} {st lm : Option Bytes}

/-- the invariant of the interleaving model: the arrays are a world (live structure + intact dead nodes + every live
pair put since the last `Reset`) and the iterator is consistent with it -/
def CInvA (cmp : Cmp) (st lm : Option Bytes) (s : CState) (puts : List (Bytes × Bytes)) : Prop :=
  ∃ d ix D, World cmp s.db d ix D puts ∧ ItOK cmp s.db d ix D puts st lm s.it

theorem cinvA_init (cmp : Cmp) (st lm : Option Bytes) :
    CInvA cmp st lm ⟨DB.new, { start := st, limit := lm }⟩ [] :=
  ⟨MemDB.DB.empty, fun _ => 0, [], World.new _, ⟨rfl, rfl, Nat.le_refl _, fun _ h => absurd rfl h⟩⟩

/-- the iterator holds what `out` shows -/
theorem ItOK.out_some {a : DB} {d : MemDB.DB} {ix : Bytes → Nat} {D : List Dead} {puts : List (Bytes × Bytes)}
    {it : Iter} (ok : ItOK cmp a d ix D puts st lm it) (hg : it.node ≠ 0 → it.gen = a.gen) {k v : Bytes}
    (h : it.out = some (k, v)) :
    it.node ≠ 0 ∧ it.gen = a.gen ∧ it.key = some k ∧ (k, v) ∈ puts ∧ inR cmp st lm k = true := by
  unfold Iter.out at h
  by_cases h0 : it.node = 0
  · simp [h0] at h
  · simp only [h0, if_false, Option.some.injEq, Prod.mk.injEq] at h
    obtain ⟨k', v', _, hk, hv, hp, hin⟩ := ok.cur (hg h0) h0
    rw [hk, hv] at h
    simp only [Option.getD_some] at h
    obtain ⟨rfl, rfl⟩ := h
    exact ⟨h0, hg h0, hk, hp, hin⟩

theorem ItOK.out_none {it : Iter} (h0 : it.node = 0) : it.out = none := by
  unfold Iter.out; simp [h0]

section
variable (hc : LawfulCmp cmp)
include hc

/-- one step of any participant: no panic, the invariant is kept; a step that is not a move leaves the iterator alone
and changes the generation only if it is a `Reset` -/
theorem cstep_ok {s : CState} {puts : List (Bytes × Bytes)} (h : CInvA cmp st lm s puts) (e : Ev) (hv : e.valid) :
    ∃ s', cstep cmp s e = some s' ∧ CInvA cmp st lm s' (putsStep puts e) ∧
      (e.isMove = false → s'.it = s.it ∧
        (if e.isReset then s'.db.gen = s.db.gen + 1 else s'.db.gen = s.db.gen)) := by
  obtain ⟨d, ix, D, w, io⟩ := h
  cases e with
  | op o =>
    obtain ⟨a', d', ix', D', ans, e, w', hcase⟩ := w.op hc o hv
    refine ⟨{ s with db := a' }, by simp [cstep, e], ⟨d', ix', D', w', ?_⟩, fun _ => ⟨rfl, ?_⟩⟩
    · rcases hcase with ⟨_, hg⟩ | ⟨_, hg, hal, hp⟩
      · exact ⟨io.start, io.limit, by show s.it.gen ≤ a'.gen; have := io.genle; omega,
          fun he => by have := io.genle; have : s.it.gen = a'.gen := he; omega⟩
      · refine ⟨io.start, io.limit, by show s.it.gen ≤ a'.gen; rw [hg]; exact io.genle, ?_⟩
        intro he hne
        have he' : s.it.gen = s.db.gen := by have : s.it.gen = a'.gen := he; rw [this, hg]
        obtain ⟨k, v, h1, h2, h3, h4, h5⟩ := io.cur he' hne
        exact ⟨k, v, hal _ _ h1, h2, h3, hp _ h4, h5⟩
    · rcases hcase with ⟨rfl, hg⟩ | ⟨hne, hg, _, _⟩
      · simpa [Ev.isReset] using hg
      · have : Ev.isReset (.op o) = false := by
          cases o <;> simp [Ev.isReset] at hne ⊢
        simpa [this] using hg
  | move c =>
    obtain ⟨it', b, e, ok, _⟩ := w.move_ok hc io c
    exact ⟨{ s with it := it' }, by simp [cstep, e], ⟨d, ix, D, w, ok⟩, fun h => by simp [Ev.isMove] at h⟩

theorem cexec_ok : ∀ (evs : List Ev) {s : CState} {puts : List (Bytes × Bytes)}, CInvA cmp st lm s puts →
    (∀ e ∈ evs, e.valid) → ∃ s', cexec cmp s evs = some s' ∧ CInvA cmp st lm s' (evs.foldl putsStep puts) := by
  intro evs
  induction evs with
  | nil => intro s puts h _; exact ⟨s, rfl, h⟩
  | cons e es ih =>
    intro s puts h hv
    obtain ⟨s1, e1, h1, _⟩ := cstep_ok (st := st) (lm := lm) hc h e (hv e (by simp))
    obtain ⟨s2, e2, h2⟩ := ih h1 (fun x hx => hv x (by simp [hx]))
    exact ⟨s2, by simp only [cexec, e1, Option.bind_some, e2], by simpa using h2⟩

/-- steps of the writer and of other readers between two moves: the iterator is not touched, the generation changes
exactly if there was a `Reset` -/
theorem cexec_nomove : ∀ (ws : List Ev) {s : CState} {puts : List (Bytes × Bytes)}, CInvA cmp st lm s puts →
    (∀ e ∈ ws, e.valid ∧ e.isMove = false) →
    ∃ s', cexec cmp s ws = some s' ∧ CInvA cmp st lm s' (ws.foldl putsStep puts) ∧ s'.it = s.it ∧
      (if ws.any Ev.isReset then s.db.gen < s'.db.gen else s'.db.gen = s.db.gen) := by
  intro ws
  induction ws with
  | nil => intro s puts h _; exact ⟨s, rfl, h, rfl, by simp⟩
  | cons e es ih =>
    intro s puts h hv
    obtain ⟨s1, e1, h1, hm⟩ := cstep_ok (st := st) (lm := lm) hc h e (hv e (by simp)).1
    obtain ⟨hit, hgen⟩ := hm (hv e (by simp)).2
    obtain ⟨s2, e2, h2, hit2, hgen2⟩ := ih h1 (fun x hx => hv x (by simp [hx]))
    refine ⟨s2, by simp only [cexec, e1, Option.bind_some, e2], by simpa using h2, hit2.trans hit, ?_⟩
    simp only [List.any_cons]
    by_cases hr : e.isReset = true
    · simp only [hr, if_true, Bool.true_or] at hgen ⊢
      by_cases hr2 : es.any Ev.isReset = true
      · simp only [hr2, if_true] at hgen2; omega
      · simp only [hr2, Bool.false_eq_true, if_false] at hgen2; omega
    · have hr' : e.isReset = false := by simpa using hr
      simp only [hr', Bool.false_eq_true, if_false, Bool.false_or] at hgen ⊢
      by_cases hr2 : es.any Ev.isReset = true
      · simp only [hr2, if_true] at hgen2 ⊢; omega
      · simp only [hr2, Bool.false_eq_true, if_false] at hgen2 ⊢; omega

/-- what a move yields in a state that satisfies the invariant -/
theorem cyield_ok {s : CState} {puts : List (Bytes × Bytes)} (h : CInvA cmp st lm s puts) (c : Call Bytes) :
    ∃ r, cyield cmp s c = some r ∧ ∀ k v, r = some (k, v) → (k, v) ∈ puts ∧ inR cmp st lm k = true := by
  obtain ⟨d, ix, D, w, io⟩ := h
  obtain ⟨it', b, e, ok, hg⟩ := w.move_ok hc io c
  refine ⟨it'.out, by simp [cyield, e], ?_⟩
  intro k v hkv
  obtain ⟨_, _, _, hp, hin⟩ := ok.out_some hg hkv
  exact ⟨hp, hin⟩

/-- order: after a move that yielded `k1`, whatever the writer and the other readers do — as long as nobody resets
the table — `Next` yields a strictly greater key and `Prev` a strictly smaller one; after a `Reset` both find the
iterator exhausted -/
theorem corder_ok {s : CState} {puts : List (Bytes × Bytes)} (h : CInvA cmp st lm s puts) (c1 : Call Bytes)
    {k1 v1 : Bytes} (hy : cyield cmp s c1 = some (some (k1, v1))) (ws : List Ev)
    (hws : ∀ e ∈ ws, e.valid ∧ e.isMove = false) :
    ∃ s1 s2, cstep cmp s (.move c1) = some s1 ∧ cexec cmp s1 ws = some s2 ∧
      (if ws.any Ev.isReset then
        cyield cmp s2 .next = some none ∧ cyield cmp s2 .prev = some none
      else
        (∀ k2 v2, cyield cmp s2 .next = some (some (k2, v2)) → cmp k1 k2 = .lt) ∧
        (∀ k2 v2, cyield cmp s2 .prev = some (some (k2, v2)) → cmp k2 k1 = .lt)) := by
  obtain ⟨d, ix, D, w, io⟩ := h
  obtain ⟨it1, b, e, ok, hg⟩ := w.move_ok hc io c1
  have hout : it1.out = some (k1, v1) := by
    simp only [cyield, e, Option.map_some, Option.some.injEq] at hy
    exact hy
  obtain ⟨hne1, hgen1, hkey1, _, _⟩ := ok.out_some hg hout
  have h1 : CInvA cmp st lm { s with it := it1 } puts := ⟨d, ix, D, w, ok⟩
  obtain ⟨s2, e2, h2, hit, hgen⟩ := cexec_nomove (st := st) (lm := lm) hc ws h1 hws
  refine ⟨{ s with it := it1 }, s2, by simp [cstep, e], e2, ?_⟩
  obtain ⟨d2, ix2, D2, w2, io2⟩ := h2
  have hit' : s2.it = it1 := hit
  obtain ⟨itn, bn, en, okn, hgn, hltn, hstn⟩ := w2.next_ok hc io2
  obtain ⟨itp, bp, ep, okp, hgp, hltp, hstp⟩ := w2.prev_ok hc io2
  have eyn : cyield cmp s2 .next = some itn.out := by simp [cyield, Iter.step, en]
  have eyp : cyield cmp s2 .prev = some itp.out := by simp [cyield, Iter.step, ep]
  by_cases hr : ws.any Ev.isReset = true
  · simp only [hr, if_true] at hgen ⊢
    have hgne : s2.it.gen ≠ s2.db.gen := by
      rw [hit']; have : it1.gen = s.db.gen := hgen1
      have : s.db.gen < s2.db.gen := hgen
      omega
    rw [eyn, eyp, ItOK.out_none (hstn (by rw [hit']; exact hne1) hgne),
      ItOK.out_none (hstp (by rw [hit']; exact hne1) hgne)]
    exact ⟨rfl, rfl⟩
  · simp only [hr, Bool.false_eq_true, if_false] at hgen ⊢
    have hgeq : s2.it.gen = s2.db.gen := by
      rw [hit']; have : it1.gen = s.db.gen := hgen1
      have : s2.db.gen = s.db.gen := hgen
      omega
    refine ⟨?_, ?_⟩
    · intro k2 v2 hy2
      rw [eyn] at hy2
      obtain ⟨hne2, _, hkey2, _, _⟩ := okn.out_some hgn (Option.some.inj hy2)
      exact hltn (by rw [hit']; exact hne1) hgeq k1 k2 (by rw [hit']; exact hkey1) hne2 hkey2
    · intro k2 v2 hy2
      rw [eyp] at hy2
      obtain ⟨hne2, _, hkey2, _, _⟩ := okp.out_some hgp (Option.some.inj hy2)
      exact hltp (by rw [hit']; exact hne1) hgeq k1 k2 (by rw [hit']; exact hkey1) hne2 hkey2

end

/-- a pair counted by `putsOf` was put by an earlier event -/
theorem putsOf_sub : ∀ (evs : List Ev) (acc : List (Bytes × Bytes)) (p : Bytes × Bytes),
    p ∈ evs.foldl putsStep acc → p ∈ acc ∨ ∃ h, Ev.op (.put p.1 p.2 h) ∈ evs := by
  intro evs
  induction evs with
  | nil => intro acc p h; exact .inl h
  | cons e es ih =>
    intro acc p h
    simp only [List.foldl_cons] at h
    rcases ih _ p h with h1 | ⟨ht, h2⟩
    · cases e with
      | op o =>
        cases o with
        | put k v ht =>
          simp only [putsStep, List.mem_cons] at h1
          rcases h1 with rfl | h1
          · exact .inr ⟨ht, by simp⟩
          · exact .inl h1
        | reset => simp [putsStep] at h1
        | delete k => exact .inl h1
        | get k => exact .inl h1
        | find k => exact .inl h1
        | contains k => exact .inl h1
        | len => exact .inl h1
        | size => exact .inl h1
      | move c => exact .inl h1
    · exact .inr ⟨ht, List.mem_cons_of_mem _ h2⟩

end GoLevel.MemArr
