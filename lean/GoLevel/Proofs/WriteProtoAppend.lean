import GoLevel.Proofs.WriteProtoExec
/-! Steps are insensitive to further threads at the end of the thread list: a reachable state stays
reachable when an idle, fresh thread is appended (used by the trace validator, which allocates a thread
per `call`). -/
namespace GoLevel.WP

def addT (s : St) (th : Thread) : St := { s with ws := s.ws ++ [th] }

theorem get_app (ws : List Thread) (th : Thread) (i : Nat) (w : Thread) (h : ws[i]? = some w) :
    (ws ++ [th])[i]? = some w ∧ i < ws.length := by
  have hl := (List.getElem?_eq_some_iff.mp h).1
  exact ⟨by rw [List.getElem?_append_left hl]; exact h, hl⟩

theorem step_append (s t : St) (th : Thread) (h : Step s t) : Step (addT s th) (addT t th) := by
  cases h with
  | call i w hi hp =>
    obtain ⟨g, gl⟩ := get_app s.ws th i _ hi
    have := Step.call (addT s th) i w g hp
    simpa [addT, List.set_append, gl] using this
  | retClosed i w hi hp hk hc =>
    obtain ⟨g, gl⟩ := get_app s.ws th i _ hi
    have := Step.retClosed (addT s th) i w g hp hk hc
    simpa [addT, List.set_append, gl] using this
  | retPerErr i w hi hp hk hc =>
    obtain ⟨g, gl⟩ := get_app s.ws th i _ hi
    have := Step.retPerErr (addT s th) i w g hp hk hc
    simpa [addT, List.set_append, gl] using this
  | lock i w g0 hi hp hk ht =>
    obtain ⟨g, gl⟩ := get_app s.ws th i _ hi
    have := Step.lock (addT s th) i w g0 g hp hk ht
    simpa [addT, List.set_append, gl] using this
  | hAcquire i w hi hp hk ht =>
    obtain ⟨g, gl⟩ := get_app s.ws th i _ hi
    have := Step.hAcquire (addT s th) i w g hp hk ht
    simpa [addT, List.set_append, gl] using this
  | hRelease i w hi hp hk =>
    obtain ⟨g, gl⟩ := get_app s.ws th i _ hi
    have := Step.hRelease (addT s th) i w g hp hk
    simpa [addT, List.set_append, gl] using this
  | flushOk j l m o lim hj hp =>
    obtain ⟨g, gl⟩ := get_app s.ws th j _ hj
    have := Step.flushOk (addT s th) j l m o lim g hp
    simpa [addT, List.set_append, gl] using this
  | flushFail j l m o hj hp =>
    obtain ⟨g, gl⟩ := get_app s.ws th j _ hj
    have := Step.flushFail (addT s th) j l m o g hp
    simpa [addT, List.set_append, gl] using this
  | recvAccept i j w l m g0 hj hi hp hm hl' hq hk hwm hsz =>
    obtain ⟨g1, gl1⟩ := get_app s.ws th j _ hj
    obtain ⟨g2, gl2⟩ := get_app s.ws th i _ hi
    have := Step.recvAccept (addT s th) i j w l m g0 g1 g2 hp hm hl' hq hk hwm hsz
    simpa [addT, set2, List.set_append, gl1, gl2] using this
  | reply i j w l m o hj hi hp hq =>
    obtain ⟨g1, gl1⟩ := get_app s.ws th j _ hj
    obtain ⟨g2, gl2⟩ := get_app s.ws th i _ hi
    have := Step.reply (addT s th) i j w l m o g1 g2 hp hq
    simpa [addT, set2, List.set_append, gl1, gl2] using this
  | recvOverflow i j w l m hj hi hp hm hl' hq hk hwm hsz =>
    obtain ⟨g1, gl1⟩ := get_app s.ws th j _ hj
    obtain ⟨g2, gl2⟩ := get_app s.ws th i _ hi
    have := Step.recvOverflow (addT s th) i j w l m g1 g2 hp hm hl' hq hk hwm hsz
    simpa [addT, set2, List.set_append, gl1, gl2] using this
  | mergeDone j l m o hj hp =>
    obtain ⟨g, gl⟩ := get_app s.ws th j _ hj
    have := Step.mergeDone (addT s th) j l m o g hp
    simpa [addT, List.set_append, gl] using this
  | journalOk j l m o hj hp =>
    obtain ⟨g, gl⟩ := get_app s.ws th j _ hj
    have := Step.journalOk (addT s th) j l m o g hp
    simpa [addT, List.set_append, gl] using this
  | journalFail j l m o hj hp =>
    obtain ⟨g, gl⟩ := get_app s.ws th j _ hj
    have := Step.journalFail (addT s th) j l m o g hp
    simpa [addT, List.set_append, gl] using this
  | apply j l m o hj hp =>
    obtain ⟨g, gl⟩ := get_app s.ws th j _ hj
    have := Step.apply (addT s th) j l m o g hp
    simpa [addT, List.set_append, gl] using this
  | publish j l m o rot hj hp hrot =>
    obtain ⟨g, gl⟩ := get_app s.ws th j _ hj
    have := Step.publish (addT s th) j l m o rot g hp hrot
    simpa [addT, List.set_append, gl] using this
  | rotateOk j l m o hj hp =>
    obtain ⟨g, gl⟩ := get_app s.ws th j _ hj
    have := Step.rotateOk (addT s th) j l m o g hp
    simpa [addT, List.set_append, gl] using this
  | rotateFail j l m o hj hp =>
    obtain ⟨g, gl⟩ := get_app s.ws th j _ hj
    have := Step.rotateFail (addT s th) j l m o g hp
    simpa [addT, List.set_append, gl] using this
  | ack i j w l k m o r hj hi hp hq =>
    obtain ⟨g1, gl1⟩ := get_app s.ws th j _ hj
    obtain ⟨g2, gl2⟩ := get_app s.ws th i _ hi
    have := Step.ack (addT s th) i j w l k m o r g1 g2 hp hq
    simpa [addT, set2, List.set_append, gl1, gl2] using this
  | handoff i j w l m r g0 hj hi hp hq hc =>
    obtain ⟨g1, gl1⟩ := get_app s.ws th j _ hj
    obtain ⟨g2, gl2⟩ := get_app s.ws th i _ hi
    have := Step.handoff (addT s th) i j w l m r g0 g1 g2 hp hq hc
    simpa [addT, set2, List.set_append, gl1, gl2] using this
  | release j l m r hj hp =>
    obtain ⟨g, gl⟩ := get_app s.ws th j _ hj
    have := Step.release (addT s th) j l m r g hp
    simpa [addT, List.set_append, gl] using this
  | releaseLost j l m r hj hp hc hr =>
    obtain ⟨g, gl⟩ := get_app s.ws th j _ hj
    have := Step.releaseLost (addT s th) j l m r g hp hc hr
    simpa [addT, List.set_append, gl] using this

theorem steps_append (s t : St) (th : Thread) (h : Steps s t) : Steps (addT s th) (addT t th) := by
  induction h with
  | refl => exact .refl _
  | tail _ h ih => exact .tail ih (step_append _ _ th h)

theorem reachable_append (s : St) (th : Thread) (hf : th.fresh) (h : Reachable s) : Reachable (addT s th) := by
  obtain ⟨s0, ⟨h0, h1, h2, h3⟩, hs⟩ := h
  refine ⟨addT s0 th, ⟨h0, h1, h2, ?_⟩, steps_append s0 s th hs⟩
  intro w hw
  simp only [addT, List.mem_append, List.mem_singleton] at hw
  rcases hw with hw | rfl
  · exact h3 w hw
  · exact hf

theorem reachable_steps (s t : St) (h : Reachable s) (hs : Steps s t) : Reachable t := by
  obtain ⟨s0, h0, h1⟩ := h
  exact ⟨s0, h0, Steps.trans h1 hs⟩

end GoLevel.WP
