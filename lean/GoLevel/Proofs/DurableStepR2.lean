import GoLevel.Proofs.DurableStepR
/-!
`recStep`: replaying one journal, and spawning the commits of a recovery.
-/
namespace GoLevel.Dur

theorem AscFrom.raise {s : Nat} {l : List Grp} (h : AscFrom 0 l) (hs : ∀ g ∈ l, s ≤ g.seq) : AscFrom s l := by
  cases l with
  | nil => trivial
  | cons g gs => exact ⟨hs g List.mem_cons_self, h.2⟩

/-- the sequence number after a replay is the least bound of its start and the groups' ends -/
theorem replayJ_le {s x : Nat} {l : List Grp} (h : AscFrom s l) (hs : s ≤ x) (hl : ∀ g ∈ l, g.fin ≤ x) :
    (replayJ s l).2 ≤ x := by
  induction l generalizing s with
  | nil => simpa [replayJ] using hs
  | cons g gs ih =>
    obtain ⟨h1, h2, h3⟩ := h
    simp only [replayJ, if_neg (Nat.not_lt.2 h1)]
    exact ih h3 (hl g List.mem_cons_self) (fun y hy => hl y (List.mem_cons_of_mem _ hy))

theorem replayJ_le' {x : Nat} {l : List Grp} (hl : ∀ g ∈ l, g.fin ≤ x) {s : Nat} (hs : s ≤ x) :
    (replayJ s l).2 ≤ x := by
  induction l generalizing s with
  | nil => simpa [replayJ] using hs
  | cons g gs ih =>
    simp only [replayJ]
    split
    · exact ih (fun y hy => hl y (List.mem_cons_of_mem _ hy)) hs
    · exact ih (fun y hy => hl y (List.mem_cons_of_mem _ hy)) (hl g List.mem_cons_self)

theorem journalRecs_single (d : Disk) (j : Nat) :
    journalRecs d [j] = ((lookup d.journals j).map (·.all)).getD [] := by
  simp [journalRecs]

/-- the state after replaying journal `j` -/
def replayed (s : St) (d : Disk) (j : Nat) (rest : List Nat) : St :=
  { s with seq := (replayJ s.seq (journalRecs d [j])).2, recov := some { todo := rest, ofd := some j, mdb := (replayJ s.seq (journalRecs d [j])).1 } }

theorem recStep_replay_eq {s : St} {d : Disk} {r : Recov} {j : Nat} {rest : List Nat}
    (hph : s.phase = .recovering) (hjob : s.job = none) (hr : s.recov = some r) (ht : r.todo = j :: rest)
    (ho : r.ofd = none) : recStep s d = some (replayed s d j rest) := by
  simp [recStep, hph, hjob, hr, ht, ho, replayed]

theorem inv_recStep_replay {cfg : Cfg} {s : St} {d : Disk} (h : Inv cfg s d) {r : Recov} {j : Nat} {rest : List Nat}
    (hph : s.phase = .recovering) (hjob : s.job = none) (hr : s.recov = some r) (ht : r.todo = j :: rest)
    (ho : r.ofd = none) : Inv cfg (replayed s d j rest) d := by
  unfold replayed
  have hrec := h.recov hph
  rw [hr] at hrec
  have hrec : RecOK cfg s d r := hrec
  have hb := h.bounds (by rw [hph]; decide)
  obtain ⟨mf, v0, v, hparts, hlv, hvl, hvok, hmono⟩ := h.disk.last
  have hnc : NoCommitYet s := by unfold NoCommitYet; rw [hjob]; trivial
  have hnd := sorted_nodup h.disk.jsorted
  obtain ⟨r1, r2, r3, r4, r5, r6, r7, r8, r9, r10⟩ := hrec
  rw [hlv] at r9
  obtain ⟨hrel, htge⟩ : (∀ p ∈ d.journals, v.jn ≤ p.1 → p.1 ∈ r.todo ∨ some p.1 = r.ofd ∨ p.2.all = []) ∧
      ∀ n ∈ r.todo, v.jn ≤ n := r9
  have hjt : j ∈ r.todo := by rw [ht]; exact List.mem_cons_self
  have hvj : v.jn ≤ j := htge j hjt
  rw [ht] at r3
  rw [List.pairwise_cons] at r3
  have hview := r8 hnc
  have hmir : Mirror s v := by
    unfold Settled at hview
    have hv1 := holds_some hview hparts.cur
    rw [hlv] at hv1
    exact hv1.2.1
  have hbv := hb.all mf hparts.cur _ (Nat.le_refl _) v hvl
  rw [seqHi_eq (not_trWindow_of_nojob hjob)] at hbv
  have hstsq : s.stSq ≤ s.seq := by rw [← hmir.2.2]; exact hbv.1
  -- the journal being replayed, if it is there
  have hfile : ∀ f, lookup d.journals j = some f →
      AscFrom 0 f.all ∧ ∀ p ∈ d.journals, p.1 ∈ rest → ∀ g ∈ p.2.all, ∀ x ∈ f.all, x.fin ≤ g.seq := by
    intro f hf
    have hfm : (j, f) ∈ d.journals := lookup_some_mem hf
    have hfr : (j, f) ∈ relJournals d v0.jn := mem_relJournals.2 ⟨hfm, Nat.le_trans hmono hvj⟩
    refine ⟨hparts.jasc _ hfr, fun p hp hpr g hg x hx => ?_⟩
    have hjp : j < p.1 := r3.1 p.1 hpr
    have hpr' : p ∈ relJournals d v0.jn := mem_relJournals.2 ⟨hp, by omega⟩
    exact hparts.jord _ hfr p hpr' hjp x hx g hg
  -- the result of the replay
  have hrp : (∀ p ∈ d.journals, p.1 = j → (∀ g ∈ (replayJ s.seq (journalRecs d [j])).1, g ∈ p.2.all) ∧
        ∀ g ∈ p.2.all, g ∈ (replayJ s.seq (journalRecs d [j])).1 ∨ g ∉ must s) ∧
      (∀ g ∈ (replayJ s.seq (journalRecs d [j])).1, g.fin ≤ (replayJ s.seq (journalRecs d [j])).2 ∧ s.seq ≤ g.seq) ∧
      s.seq ≤ (replayJ s.seq (journalRecs d [j])).2 ∧
      ((∃ p ∈ d.journals, p.1 = j) ∨ (replayJ s.seq (journalRecs d [j])).1 = []) ∧
      (∀ p ∈ d.journals, p.1 ∈ rest → ∀ g ∈ p.2.all, (replayJ s.seq (journalRecs d [j])).2 ≤ g.seq ∨ g ∉ must s) := by
    rw [journalRecs_single]
    cases hf : lookup d.journals j with
    | none =>
      simp only [Option.map_none, Option.getD_none, replayJ]
      refine ⟨fun p hp hpj => absurd hpj (lookup_none_iff.1 hf p hp), (fun g hg => by cases hg), Nat.le_refl _,
        Or.inr trivial, fun p hp hpr g hg => r6 p hp (by rw [ht]; exact List.mem_cons_of_mem _ hpr) g hg⟩
    | some f =>
      simp only [Option.map_some, Option.getD_some]
      obtain ⟨hasc, hord⟩ := hfile f hf
      obtain ⟨a1, a2, a3⟩ := replayJ_filter (s := s.seq) hasc
      have hmemf : ∀ g, g ∈ (replayJ s.seq f.all).1 ↔ g ∈ f.all ∧ s.seq ≤ g.seq := by
        intro g; rw [a1]; simp [List.mem_filter]
      refine ⟨fun p hp hpj => ?_, fun g hg => ⟨a3 g ((hmemf g).1 hg).1 ((hmemf g).1 hg).2, ((hmemf g).1 hg).2⟩, a2,
        Or.inl ⟨(j, f), lookup_some_mem hf, rfl⟩, fun p hp hpr g hg => ?_⟩
      · have : lookup d.journals p.1 = some p.2 := lookup_of_mem hnd (by cases p; exact hp)
        rw [hpj, hf] at this
        cases this
        refine ⟨fun g hg => ((hmemf g).1 hg).1, fun g hg => ?_⟩
        rcases r6 _ (lookup_some_mem hf) hjt g hg with h1 | h1
        · exact Or.inl ((hmemf g).2 ⟨hg, h1⟩)
        · exact Or.inr h1
      · rcases r6 p hp (by rw [ht]; exact List.mem_cons_of_mem _ hpr) g hg with h1 | h1
        · exact Or.inl (replayJ_le' (fun x hx => hord p hp hpr g hg x hx) h1)
        · exact Or.inr h1
  obtain ⟨p1, p2, p3, p4, p5⟩ := hrp
  constructor
  · exact h.disk
  · exact h.mm
  · intro _
    exact hb.of_same rfl (seqHi_le_of_not_window (not_trWindow_of_nojob hjob) (not_trWindow_of_nojob (by exact hjob)) p3) (Nat.le_refl _) (fun hr' => by
      have : s.phase = .running := hr'
      rw [hph] at this; cases this)
  · intro hr'
    have : s.phase = .running := hr'
    rw [hph] at this; cases this
  · intro _
    show Holds (some _) _
    simp only [Holds]
    refine ⟨r1.transport (by rw [hjob]; intro m hm; cases hm) (by
        intro m hm
        have : s.job.map (·.pc) = some (JPc.rotRemove m) := hm
        rw [hjob] at this; cases this) rfl rfl rfl, r2, r3.2,
      ?_, ⟨r5.1, r5.2.1, fun n hn => r5.2.2 n (by rw [ht]; exact List.mem_cons_of_mem _ hn)⟩, p5, ?_, fun _ => ?_,
      ?_, ?_⟩
    · intro o ho' n hn
      cases ho'
      exact r3.1 n hn
    · show MdbOK _ d _
      unfold MdbOK
      exact ⟨p1, fun g hg => (p2 g hg).1, fun _ => ⟨p4, fun g hg => Nat.le_trans hstsq (p2 g hg).2⟩⟩
    · unfold Settled at hview ⊢
      have hv1 := holds_some hview hparts.cur
      rw [hlv] at hv1
      obtain ⟨hu, hm, _⟩ : (s.manifestOpen = true → s.limbo = none → mf.unsynced = []) ∧ Mirror s v ∧
          ∀ o, r.ofd = some o → v.jn ≤ o := hv1
      apply holds_of_some hparts.cur
      refine ⟨hu, ?_⟩
      rw [hlv]
      exact ⟨hm, fun o ho' => by cases ho'; exact hvj⟩
    · rw [hlv]
      simp only [Holds]
      refine ⟨fun p hp hge => ?_, fun n hn => htge n (by rw [ht]; exact List.mem_cons_of_mem _ hn)⟩
      rcases hrel p hp hge with h1 | h1 | h1
      · rw [ht] at h1
        rcases List.mem_cons.1 h1 with h2 | h2
        · exact Or.inr (Or.inl (by rw [h2]))
        · exact Or.inl h2
      · rw [ho] at h1; cases h1
      · exact Or.inr (Or.inr h1)
    · intro o ho'
      cases ho'
      exact r5.2.2 j hjt
  · intro hc
    have : s.phase = .crashed := hc
    rw [hph] at this; cases this
  · show Holds' s.job _
    rw [hjob]; trivial

end GoLevel.Dur
