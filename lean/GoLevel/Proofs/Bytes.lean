import GoLevel.Model.Bytes
/-!
# Lemmas about `GoLevel/Model/Bytes.lean`

Round trips of the fixed-width little-endian encoders and of the uvarint encoder/decoder.
Core Lean only.  The `@[simp]` lemmas are stated with the encoded value followed by an arbitrary
`rest`, which is the shape that occurs when a record is parsed; the versions without `rest` follow.
-/
namespace GoLevel

/-! ## fixed width -/

@[simp] theorem leN_length (n x : Nat) : (leN n x).length = n := by
  induction n generalizing x with
  | zero => rfl
  | succ n ih => simp [leN, ih]

@[simp] theorem le16_length (x : Nat) : (le16 x).length = 2 := leN_length 2 x
@[simp] theorem le32_length (x : Nat) : (le32 x).length = 4 := leN_length 4 x
@[simp] theorem le64_length (x : Nat) : (le64 x).length = 8 := leN_length 8 x

@[simp] theorem rdLE_nil : rdLE [] = 0 := rfl
@[simp] theorem rdLE_cons (b : UInt8) (bs : Bytes) : rdLE (b :: bs) = b.toNat + 256 * rdLE bs := rfl

theorem toNat_toUInt8_of_lt {x : Nat} (h : x < 256) : x.toUInt8.toNat = x := by
  simp only [Nat.toUInt8_eq, UInt8.toNat_ofNat']; omega

@[simp] theorem toNat_toUInt8_mod (x : Nat) : (x % 256).toUInt8.toNat = x % 256 :=
  toNat_toUInt8_of_lt (Nat.mod_lt _ (by decide))

/-- the value read back is the value modulo `256^n` (no hypothesis) -/
theorem rdLE_leN_mod (n x : Nat) : rdLE (leN n x) = x % 256 ^ n := by
  induction n generalizing x with
  | zero => simp [leN, Nat.mod_one]
  | succ n ih =>
    simp only [leN, rdLE_cons, toNat_toUInt8_mod, ih]
    rw [Nat.pow_succ, Nat.mul_comm (256 ^ n) 256, Nat.mod_mul]

theorem rdLE_leN (n x : Nat) (h : x < 256 ^ n) : rdLE (leN n x) = x := by
  rw [rdLE_leN_mod, Nat.mod_eq_of_lt h]

theorem rdLE_lt (bs : Bytes) : rdLE bs < 256 ^ bs.length := by
  induction bs with
  | nil => simp
  | cons b bs ih =>
    have hb := b.toNat_lt
    simp only [rdLE_cons, List.length_cons, Nat.pow_succ]
    omega

/-- writing back what was read: `leN` is a left inverse of `rdLE` too -/
theorem leN_rdLE (bs : Bytes) : leN bs.length (rdLE bs) = bs := by
  induction bs with
  | nil => rfl
  | cons b bs ih =>
    have hb := b.toNat_lt
    have h1 : (b.toNat + 256 * rdLE bs) % 256 = b.toNat := by omega
    have h2 : (b.toNat + 256 * rdLE bs) / 256 = rdLE bs := by omega
    simp only [List.length_cons, leN, rdLE_cons, h1, h2, ih]
    congr 1
    apply UInt8.toNat_inj.1
    rw [toNat_toUInt8_of_lt (by omega)]

theorem rd16_append (bs rest : Bytes) (h : bs.length = 2) : rd16 (bs ++ rest) = rdLE bs := by
  simp [rd16, List.take_left' h]
theorem rd32_append (bs rest : Bytes) (h : bs.length = 4) : rd32 (bs ++ rest) = rdLE bs := by
  simp [rd32, List.take_left' h]
theorem rd64_append (bs rest : Bytes) (h : bs.length = 8) : rd64 (bs ++ rest) = rdLE bs := by
  simp [rd64, List.take_left' h]

theorem rd16_le16_append (x : Nat) (rest : Bytes) (h : x < 2 ^ 16) : rd16 (le16 x ++ rest) = x := by
  rw [rd16_append _ _ (le16_length x)]; exact rdLE_leN 2 x h
theorem rd32_le32_append (x : Nat) (rest : Bytes) (h : x < 2 ^ 32) : rd32 (le32 x ++ rest) = x := by
  rw [rd32_append _ _ (le32_length x)]; exact rdLE_leN 4 x h
theorem rd64_le64_append (x : Nat) (rest : Bytes) (h : x < 2 ^ 64) : rd64 (le64 x ++ rest) = x := by
  rw [rd64_append _ _ (le64_length x)]; exact rdLE_leN 8 x h

theorem rd16_le16 (x : Nat) (h : x < 2 ^ 16) : rd16 (le16 x) = x := by
  simpa using rd16_le16_append x [] h
theorem rd32_le32 (x : Nat) (h : x < 2 ^ 32) : rd32 (le32 x) = x := by
  simpa using rd32_le32_append x [] h
theorem rd64_le64 (x : Nat) (h : x < 2 ^ 64) : rd64 (le64 x) = x := by
  simpa using rd64_le64_append x [] h

/-- without a bound the fixed-width encoders truncate, exactly like Go's conversion to `uintN` -/
theorem rd16_le16_mod (x : Nat) : rd16 (le16 x) = x % 2 ^ 16 := by
  have := rd16_append (le16 x) [] (le16_length x)
  simp only [List.append_nil] at this
  rw [this]; exact rdLE_leN_mod 2 x
theorem rd32_le32_mod (x : Nat) : rd32 (le32 x) = x % 2 ^ 32 := by
  have := rd32_append (le32 x) [] (le32_length x)
  simp only [List.append_nil] at this
  rw [this]; exact rdLE_leN_mod 4 x
theorem rd64_le64_mod (x : Nat) : rd64 (le64 x) = x % 2 ^ 64 := by
  have := rd64_append (le64 x) [] (le64_length x)
  simp only [List.append_nil] at this
  rw [this]; exact rdLE_leN_mod 8 x

theorem rd16_lt (bs : Bytes) : rd16 bs < 2 ^ 16 := by
  have h := rdLE_lt (bs.take 2)
  have : 256 ^ (bs.take 2).length ≤ 256 ^ 2 := Nat.pow_le_pow_right (by decide) (by simp; omega)
  simp only [rd16]; omega
theorem rd32_lt (bs : Bytes) : rd32 bs < 2 ^ 32 := by
  have h := rdLE_lt (bs.take 4)
  have : 256 ^ (bs.take 4).length ≤ 256 ^ 4 := Nat.pow_le_pow_right (by decide) (by simp; omega)
  simp only [rd32]; omega
theorem rd64_lt (bs : Bytes) : rd64 bs < 2 ^ 64 := by
  have h := rdLE_lt (bs.take 8)
  have : 256 ^ (bs.take 8).length ≤ 256 ^ 8 := Nat.pow_le_pow_right (by decide) (by simp; omega)
  simp only [rd64]; omega

/-! ## uvarint -/

theorem uvarint_lt (x : Nat) (h : x < 128) : uvarint x = [x.toUInt8] := by
  rw [uvarint]; simp [h]

theorem uvarint_ge (x : Nat) (h : ¬ x < 128) :
    uvarint x = ((x % 128) + 128).toUInt8 :: uvarint (x / 128) := by
  rw [uvarint]; simp [h]

theorem uvarint_length_pos (x : Nat) : 0 < (uvarint x).length := by
  by_cases h : x < 128
  · simp [uvarint_lt x h]
  · simp [uvarint_ge x h]

theorem uvarint_ne_nil (x : Nat) : uvarint x ≠ [] := by
  intro h; have := uvarint_length_pos x; simp [h] at this

/-- `x < 2^k` needs at most `⌈k/7⌉` bytes (`k ≥ 1`); in particular 10 bytes for 64 bits -/
theorem uvarint_length_le (k x : Nat) (h : x < 2 ^ (7 * k)) (hk : 0 < k) : (uvarint x).length ≤ k := by
  induction k generalizing x with
  | zero => omega
  | succ k ih =>
    by_cases hx : x < 128
    · simp [uvarint_lt x hx]
    · rw [uvarint_ge x hx, List.length_cons]
      have hk0 : 0 < k := by
        rcases Nat.eq_zero_or_pos k with rfl | h0
        · simp at h; omega
        · exact h0
      have : x / 128 < 2 ^ (7 * k) := by
        rw [Nat.div_lt_iff_lt_mul (by decide)]
        have : 2 ^ (7 * (k + 1)) = 2 ^ (7 * k) * 128 := by
          rw [Nat.mul_succ, Nat.pow_add]
        omega
      have := ih (x / 128) this hk0
      omega

theorem uvarint_length_le_ten (x : Nat) (h : x < 2 ^ 64) : (uvarint x).length ≤ 10 :=
  uvarint_length_le 10 x (Nat.lt_of_lt_of_le h (by decide)) (by decide)

/-- the decoder started in the middle (`i` bytes consumed, `shift = 7 i` in every real call, but the
lemma does not need that) on the encoding of a value that still fits -/
theorem readUvarintAux_uvarint (x k i shift acc : Nat) (rest : Bytes)
    (hx : x < 2 ^ k) (hk : k + 7 * i ≤ 64) :
    readUvarintAux i shift acc (uvarint x ++ rest)
      = some (acc + x * 2 ^ shift, i + (uvarint x).length) := by
  induction x using Nat.strongRecOn generalizing k i shift acc with
  | _ x ih =>
    have hi : i ≤ 9 := by omega
    by_cases hlt : x < 128
    · have hb : x.toUInt8.toNat = x := toNat_toUInt8_of_lt (by omega)
      have h9 : ¬ (i = 9 ∧ x > 1) := by
        rintro ⟨rfl, h1⟩
        have : 2 ^ k ≤ 2 ^ 1 := Nat.pow_le_pow_right (by decide) (by omega)
        omega
      have h10 : ¬ i = 10 := by omega
      simp [uvarint_lt x hlt, readUvarintAux, hb, hlt, h9, h10]
    · have hb : ((x % 128) + 128).toUInt8.toNat = x % 128 + 128 := toNat_toUInt8_of_lt (by omega)
      have hk8 : 8 ≤ k := by
        refine Nat.le_of_not_lt fun hk7 => ?_
        have : 2 ^ k ≤ 2 ^ 7 := Nat.pow_le_pow_right (by decide) (by omega)
        omega
      have h10 : ¬ i = 10 := by omega
      have hnl : ¬ (x % 128 + 128 < 128) := by omega
      have hdiv : x / 128 < 2 ^ (k - 7) := by
        rw [Nat.div_lt_iff_lt_mul (by decide)]
        have : 2 ^ k = 2 ^ (k - 7) * 128 := by
          rw [show (128 : Nat) = 2 ^ 7 from rfl, ← Nat.pow_add]; congr 1; omega
        omega
      have hrec := ih (x / 128) (by omega) (k - 7) (i + 1) (shift + 7)
        (acc + (x % 128 + 128 - 128) * 2 ^ shift) hdiv (by omega)
      rw [uvarint_ge x hlt, List.cons_append, readUvarintAux]
      simp only [h10, hb, hnl, if_false]
      rw [hrec]
      congr 1
      rw [Prod.mk.injEq]
      refine ⟨?_, by simp; omega⟩
      have hxd : x = 128 * (x / 128) + x % 128 := (Nat.div_add_mod x 128).symm
      have : x * 2 ^ shift = (x % 128) * 2 ^ shift + (x / 128) * 2 ^ (shift + 7) := by
        conv => lhs; rw [hxd]
        rw [Nat.add_mul, Nat.pow_add, Nat.add_comm]
        congr 1
        rw [Nat.mul_comm 128, Nat.mul_assoc, Nat.mul_comm 128]
      rw [this, Nat.add_sub_cancel]; omega

/-- `binary.Uvarint(binary.PutUvarint(x) ++ rest) = (x, n)` for every 64-bit `x` -/
@[simp] theorem readUvarint_uvarint_append (x : Nat) (rest : Bytes) (h : x < 2 ^ 64) :
    readUvarint (uvarint x ++ rest) = some (x, (uvarint x).length) := by
  have := readUvarintAux_uvarint x 64 0 0 0 rest h (by omega)
  simpa [readUvarint] using this

theorem readUvarint_uvarint (x : Nat) (h : x < 2 ^ 64) :
    readUvarint (uvarint x) = some (x, (uvarint x).length) := by
  simpa using readUvarint_uvarint_append x [] h

/-- the bound is needed: `2^64` is encoded in 10 bytes whose last one is `2`, which Go rejects -/
example : readUvarint (uvarint (2 ^ 64)) = none := by
  have : uvarint (2 ^ 64) = [128, 128, 128, 128, 128, 128, 128, 128, 128, 2] := by
    simp [uvarint_ge, uvarint_lt]
  rw [this]; decide

end GoLevel
