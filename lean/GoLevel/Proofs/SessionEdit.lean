import GoLevel.Proofs.SessionBasic
/-! The delta that `session.setVersion` computes from a commit record is exact (C07): a LEMMA about the
producer, given what `Version.apply` does to the table numbers (`EditFacts`). -/
namespace GoLevel.Session
open GoLevel GoLevel.RefLoop

def _root_.GoLevel.Edit.delNums (r : Edit) : List Nat := r.deleted.map (·.2)
def _root_.GoLevel.Edit.addNums (r : Edit) : List Nat := r.added.map (·.2.num)

/-- What the record of a commit does to the table numbers of the version (`versionStaging.commit/finish`), and
where new numbers come from (`allocFileNum` / `reuseFileNum`): `U` = the numbers in use. -/
structure EditFacts (v : Version) (c : UCmp) (r : Edit) (U : List Nat) : Prop where
  nodup : (v.apply c r).nums.Nodup
  dnd : r.delNums.Nodup
  del : ∀ x ∈ r.delNums, x ∈ v.nums
  mem : ∀ f, f ∈ (v.apply c r).nums ↔ (f ∈ v.nums ∧ f ∉ r.delNums) ∨ f ∈ r.addNums
  /-- an added table has a number that is not in use, or it is moved (deleted from its level by the same record) -/
  fresh : ∀ f ∈ r.addNums, f ∉ U ∨ f ∈ r.delNums

theorem mkDelta_added (r : Edit) : (mkDelta r).added = dedup r.addNums := rfl
theorem mkDelta_deleted (r : Edit) : (mkDelta r).deleted = r.delNums := rfl

/-- **exact, duplicate-free delta** for a commit through `flushManifest` or a manifest rotation. -/
theorem netExact_commit {v : Version} {c : UCmp} {r : Edit} {U : List Nat} (h : EditFacts v c r U)
    (hU : ∀ f ∈ v.nums, f ∈ U) : NetExact v.nums (mkDelta r) (v.apply c r).nums := by
  refine ⟨nodup_dedup _, h.dnd, h.del, fun f => ?_⟩
  rw [mkDelta_added, mkDelta_deleted]
  have hm := h.mem f
  have hd := h.del f
  by_cases ha : f ∈ r.addNums
  · have hnew : f ∈ (v.apply c r).nums := hm.mpr (Or.inr ha)
    rw [ind_pos hnew, ind_pos (mem_dedup.mpr ha)]
    by_cases hdel : f ∈ r.delNums
    · rw [ind_pos hdel, ind_pos (hd hdel)]
    · have hold : f ∉ v.nums := by
        rcases h.fresh f ha with h1 | h1
        · exact fun h2 => h1 (hU f h2)
        · exact absurd h1 hdel
      rw [ind_neg hdel, ind_neg hold]
  · rw [ind_neg (fun h1 => ha (mem_dedup.mp h1))]
    by_cases hdel : f ∈ r.delNums
    · have hnew : f ∉ (v.apply c r).nums := fun h1 => by
        rcases hm.mp h1 with h2 | h2
        · exact h2.2 hdel
        · exact ha h2
      rw [ind_pos hdel, ind_pos (hd hdel), ind_neg hnew]
    · rw [ind_neg hdel]
      by_cases hold : f ∈ v.nums
      · rw [ind_pos hold, ind_pos (hm.mpr (Or.inl ⟨hold, hdel⟩))]
      · have hnew : f ∉ (v.apply c r).nums := fun h1 => by
          rcases hm.mp h1 with h2 | h2
          · exact hold h2.1
          · exact ha h2
        rw [ind_neg hold, ind_neg hnew]

/-- The first commit after `session.recover` goes through `newManifest(r, nv)`: the record is filled with
every table of the new version; with the D13 repair the delta lists each once, and it is exact relative to the
EMPTY view the loop has of the recovered version (whose delta was empty). -/
theorem netExact_first {v : Version} {c : UCmp} {r : Edit} {U : List Nat} (h : EditFacts v c r U)
    (hdel : r.deleted = []) :
    NetExact [] (mkDelta (fillRecord r (v.apply c r))) (v.apply c r).nums := by
  have hd : (mkDelta (fillRecord r (v.apply c r))).deleted = [] := by
    simp [mkDelta, fillRecord, hdel]
  have ha : ∀ f, f ∈ (mkDelta (fillRecord r (v.apply c r))).added ↔ f ∈ (v.apply c r).nums := by
    intro f
    show f ∈ dedup ((r.added ++ levelTables (v.apply c r)).map (·.2.num)) ↔ _
    rw [mem_dedup, List.map_append, List.mem_append, levelTables_nums]
    constructor
    · rintro (h1 | h1)
      · exact (h.mem f).mpr (Or.inr h1)
      · exact h1
    · exact Or.inr
  refine ⟨nodup_dedup _, by rw [hd]; exact List.nodup_nil, (by rw [hd]; intro x hx; cases hx), fun f => ?_⟩
  rw [hd]
  by_cases hf : f ∈ (v.apply c r).nums
  · rw [ind_pos hf, ind_pos ((ha f).mpr hf)]; simp [ind]
  · rw [ind_neg hf, ind_neg (fun h1 => hf ((ha f).mp h1))]; omega

end GoLevel.Session
