import GoLevel.Proofs.WriteProtoLive
/-! Hand-off exactness and termination of the write-merge protocol. -/
namespace GoLevel.WP

/-- A leader finishes (`lead … → returned r`): the token is removed and nobody holds it, or exactly one
thread — a writer that was waiting on `writeMergedC` — becomes the holder, as a fresh leader. -/
theorem finish_exact (s t : St) (h : Step s t) (c : CInv s) (j : Nat) (l l' : Thread) (ph : Ph) (m : Nat)
    (o : Bool) (r : Res) (hj : s.ws[j]? = some l) (hl : l.pc = .lead ph m o) (hj' : t.ws[j]? = some l')
    (hr : l'.pc = .returned r) :
    (o = false ∧ t.token = false ∧ t.cur = none ∧
      (∀ (a : Nat) (x : Thread), t.ws[a]? = some x → holds x.pc = 0) ∧
      (∀ a, a ≠ j → t.ws[a]? = s.ws[a]?)) ∨
    (o = true ∧ t.token = true ∧ ∃ (i : Nat) (w : Thread), s.ws[i]? = some w ∧ w.pc = .waitMerged ∧
      t.ws[i]? = some w.asLeader ∧ t.cur = some i ∧
      (∀ (a : Nat) (x : Thread), t.ws[a]? = some x → 0 < holds x.pc → a = i) ∧
      (∀ a, a ≠ i → a ≠ j → t.ws[a]? = s.ws[a]?)) := by
  have ct := step_cinv s t h c
  cases h with
  | release j2 l2 m2 r2 hj2 hp2 =>
    have hjj : j2 = j := by
      false_or_by_contra
      simp only [List.getElem?_set] at hj'
      grind
    subst hjj
    rw [hj] at hj2; cases hj2
    rw [hl] at hp2; cases hp2
    refine Or.inl ⟨rfl, rfl, rfl, ?_, ?_⟩
    · exact no_holder _ ct rfl
    · intro a ha; simp only [List.getElem?_set]; grind
  | handoff i2 j2 w2 l2 m2 r2 g2 hj2 hi2 hp2 hq2 hc2 =>
    have hij : i2 ≠ j2 := by intro h; subst h; rw [hi2] at hj2; cases hj2; rw [hp2] at hq2; cases hq2
    have hil := (List.getElem?_eq_some_iff.mp hi2).1
    have hjj : j2 = j := by
      false_or_by_contra
      simp only [set2, List.getElem?_set] at hj'
      grind [Thread.asLeader]
    subst hjj
    rw [hj] at hj2; cases hj2
    rw [hl] at hp2; cases hp2
    have hti : (set2 s.ws j2 (l.setPc (.returned r2)) i2 w2.asLeader)[i2]? = some w2.asLeader := by
      simp [set2, hil]
    refine Or.inr ⟨rfl, ?_, i2, w2, hi2, hq2, hti, rfl, ?_, ?_⟩
    · have := token_of_holder _ ct i2 w2.asLeader hti (by simp [Thread.asLeader, holds]); exact this
    · intro a x hx hh
      exact holder_unique _ ct a i2 x w2.asLeader hx hti hh (by simp [Thread.asLeader, holds])
    · intro a h1 h2; simp only [set2, List.getElem?_set]; grind
  | releaseLost j2 l2 m2 r2 hj2 hp2 hc2 hr2 => exact absurd c.cfgH (by simp [hc2])
  | _ =>
    exfalso
    simp only [set2, List.getElem?_set] at hj'
    grind [Thread.setPc, Thread.asLeader, Thread.unlock, Thread.grouped, Thread.journalled, accept_pc]

/-! ## termination -/

/-- runs with their length -/
inductive StepsN : Nat → St → St → Prop
  | refl (s : St) : StepsN 0 s s
  | tail {n : Nat} {s t u : St} : StepsN n s t → Step t u → StepsN (n + 1) s u

theorem stepsN_steps {n : Nat} {s t : St} (h : StepsN n s t) : Steps s t := by
  induction h with
  | refl => exact .refl _
  | tail _ h ih => exact .tail ih h

/-- a run of `n` steps uses up at least `n` units of the measure -/
theorem stepsN_measure {n : Nat} {s t : St} (h : StepsN n s t) (c : CInv s) :
    n + measure t ≤ measure s := by
  induction h with
  | refl => omega
  | tail h1 h2 ih =>
    have := step_measure _ _ h2 (steps_cinv _ _ (stepsN_steps h1) c)
    have := ih c
    omega

theorem measure_init (s : St) (h : Init s) : measure s = 14 * s.ws.length := by
  obtain ⟨_, _, _, hw⟩ := h
  unfold measure
  generalize s.ws = ws at hw
  induction ws with
  | nil => simp [tot]
  | cons x xs ih =>
    rw [tot_cons, ih (fun w hw' => hw w (List.mem_cons_of_mem _ hw'))]
    have := (hw x (List.mem_cons_self)).1
    rw [this]; simp [wt]; omega

/-- the step relation restricted to reachable states is well founded (no infinite run) -/
theorem step_wf : WellFounded (fun t s : St => Reachable s ∧ Step s t) := by
  apply Subrelation.wf (r := InvImage (· < ·) measure)
  · intro t s ⟨hr, hs⟩
    exact step_measure s t hs (reachable_cinv s hr)
  · exact InvImage.wf measure Nat.lt_wfRel.wf

/-- a reachable state without successor: every writer has its result, the token is free or kept by a
competitor (`Close`, the error handler) -/
theorem final_all_returned (s : St) (hr : Reachable s) (hf : ¬ ∃ t, Step s t) (i : Nat) (w : Thread)
    (hi : s.ws[i]? = some w) (hk : w.kind = .writer) : ∃ r, w.pc = .returned r := by
  false_or_by_contra
  rename_i hn
  exact hf (no_stuck s (reachable_cinv s hr) (reachable_pinv s hr) i w hi hk
    (fun r hpc => hn ⟨r, hpc⟩))

end GoLevel.WP
