import GoLevel.Proofs.CacheTableChain
/-! Hash table of the cache (C17), part 3: `mBucket.freeze` and `mHead.initBucket` do not change what the table
holds: the initialised bucket receives exactly its virtual content, the chain stays well-formed. -/
namespace GoLevel.CacheT

theorem freeze_ok {hashfn : Nat → Nat → Nat} {p : Head} {rest : List Head} {i : Nat}
    (hw : WFChain hashfn (p :: rest)) (hst : (p.bucket i).state ≠ .uninit) :
    (freeze (p :: rest) i).2.2 = false ∧ (freeze (p :: rest) i).2.1 = (p.bucket i).nodes ∧
    ∃ p', (freeze (p :: rest) i).1 = p' :: rest ∧ WFChain hashfn (p' :: rest) ∧ Equiv (p' :: rest) (p :: rest) ∧
      p'.buckets.length = p.buckets.length := by
  cases hs : (p.bucket i).state with
  | uninit => exact absurd hs hst
  | frozen => simp only [freeze, hs]; exact ⟨trivial, trivial, p, rfl, hw, Equiv.refl _, rfl⟩
  | init =>
    simp only [freeze, hs]
    refine ⟨trivial, trivial, _, rfl, ?_, ?_, by simp⟩
    · apply wf_head hw (by simp) (by simp)
      · intro j hj hstj
        rw [bucket_setBucket] at hstj ⊢
        split
        · rename_i hc; rw [← hc.1]; exact hw.2.1 i (hc.1 ▸ hj) hst
        · rename_i hc; rw [if_neg hc] at hstj; exact hw.2.1 j hj hstj
      · intro j hj
        rw [bucket_setBucket]; split
        · simp
        · exact hj
    · apply equiv_head (by simp) (by simp)
      intro j
      rw [bucket_setBucket]
      split
      · rename_i hc; rw [← hc.1]; simp [hs]
      · exact ⟨Iff.rfl, fun _ => rfl⟩

/-- The head after `initBucket(i)`: unchanged if the bucket was initialised, else the bucket holds its virtual
content. -/
def initHead (h : Head) (hs : List Head) (i : Nat) : Head :=
  if (h.bucket i).state ≠ .uninit then h else h.setBucket i { nodes := vnodes hs i, state := .init }

theorem initHead_bucket {h : Head} {hs : List Head} {i : Nat} (hi : i < h.buckets.length) (j : Nat) :
    (initHead h hs i).bucket j =
      if j = i ∧ (h.bucket i).state = .uninit then { nodes := vnodes hs i, state := .init } else h.bucket j := by
  unfold initHead
  by_cases hst : (h.bucket i).state = .uninit
  · simp only [hst, ne_eq, not_true_eq_false, if_false, and_true]
    rw [bucket_setBucket]
    by_cases hij : j = i
    · subst hij; simp [hi]
    · have : ¬ (i = j ∧ i < h.buckets.length) := fun hc => hij hc.1.symm
      rw [if_neg this, if_neg hij]
  · simp [hst]

/-- What `initBucket` establishes, from its pieces: the new tail is equivalent to the old one. -/
theorem init_chain {hashfn : Nat → Nat → Nat} {h : Head} {ps ps' : List Head} {i : Nat}
    (hw : WFChain hashfn (h :: ps)) (hi : i < h.buckets.length) (he : Equiv ps' ps)
    (hw' : ps ≠ [] → WFChain hashfn ps') :
    WFChain hashfn (initHead h (h :: ps) i :: ps') ∧ Equiv (initHead h (h :: ps) i :: ps') (h :: ps) ∧
    ((initHead h (h :: ps) i).bucket i).state ≠ .uninit ∧
    ((initHead h (h :: ps) i).bucket i).nodes = vnodes (h :: ps) i ∧
    (initHead h (h :: ps) i).buckets.length = h.buckets.length ∧
    (initHead h (h :: ps) i).mask = h.mask := by
  have hw1 : WFChain hashfn (h :: ps') := wf_congr_tail hw he hw'
  have hlen : (initHead h (h :: ps) i).buckets.length = h.buckets.length := by
    unfold initHead; split <;> simp
  have hmask : (initHead h (h :: ps) i).mask = h.mask := by
    unfold initHead; split <;> simp
  refine ⟨?_, ?_, ?_, ?_, hlen, hmask⟩
  · apply wf_head hw1 hmask hlen
    · intro j hj hstj
      rw [initHead_bucket hi] at hstj ⊢
      split
      · rename_i hc; rw [hc.1]; exact vnodes_ok hw h ps rfl i hi
      · rename_i hc; rw [if_neg hc] at hstj; exact hw.2.1 j hj hstj
    · intro j hj
      rw [initHead_bucket hi]; split
      · simp
      · exact hj
  · refine ⟨fun j => ?_, by simp [hmask, hlen]⟩
    by_cases hc : j = i ∧ (h.bucket i).state = .uninit
    · obtain ⟨rfl, hst⟩ := hc
      have : vnodes (initHead h (h :: ps) j :: ps') j = ((initHead h (h :: ps) j).bucket j).nodes := by
        conv => lhs; unfold vnodes
        rw [hlen, if_neg (by omega), initHead_bucket hi]; simp [hst]
      rw [this, initHead_bucket hi]; simp [hst]
    · rw [← vnodes_congr_tail he j]
      have hb : (initHead h (h :: ps) i).bucket j = h.bucket j := by rw [initHead_bucket hi, if_neg hc]
      conv => lhs; unfold vnodes
      conv => rhs; unfold vnodes
      rw [hb, hmask, hlen]
  · rw [initHead_bucket hi]
    by_cases hst : (h.bucket i).state = .uninit
    · simp [hst]
    · simp [hst]
  · rw [initHead_bucket hi]
    by_cases hst : (h.bucket i).state = .uninit
    · simp [hst]
    · simp only [hst, and_false, if_false]
      unfold vnodes; rw [if_neg (by omega), if_pos hst]

theorem vnodes_uninit_grow {h p : Head} {rest : List Head} {i : Nat} (hi : i < h.buckets.length)
    (hst : (h.bucket i).state = .uninit) (hg : h.mask > p.mask) :
    vnodes (h :: p :: rest) i =
      (vnodes (p :: rest) (i &&& p.mask)).filter fun x => x.hash &&& h.mask == i := by
  rw [vnodes]; simp [hst, hg, Nat.not_le.mpr hi]

theorem vnodes_uninit_shrink {h p : Head} {rest : List Head} {i : Nat} (hi : i < h.buckets.length)
    (hst : (h.bucket i).state = .uninit) (hg : ¬ h.mask > p.mask) :
    vnodes (h :: p :: rest) i =
      sortNodes (vnodes (p :: rest) i ++ vnodes (p :: rest) (i + h.buckets.length)) := by
  rw [vnodes]; simp [hst, hg, Nat.not_le.mpr hi]

theorem equiv_length_head {ps' ps : List Head} (he : Equiv ps' ps) {p : Head} {rest : List Head}
    (h : ps = p :: rest) : ∃ p' rest', ps' = p' :: rest' ∧ p'.mask = p.mask ∧
      p'.buckets.length = p.buckets.length := by
  subst h
  cases ps' with
  | nil => have := he.2; simp at this
  | cons p' rest' =>
    have := he.2
    simp only [List.head?_cons, Option.map_some, Option.some.injEq, Prod.mk.injEq] at this
    exact ⟨p', rest', rfl, this.1, this.2⟩

/-- `mHead.initBucket`: no panic; the first head becomes `initHead`; the predecessors change only in ways a
successor does not see. -/
theorem initBucketF_ok {hashfn : Nat → Nat → Nat} : ∀ fuel hs, WFChain hashfn hs → hs.length ≤ fuel →
    ∀ h ps, hs = h :: ps → ∀ i, i < h.buckets.length →
      ∃ ps', initBucketF fuel hs i = (initHead h hs i :: ps', false) ∧ Equiv ps' ps ∧
        (ps ≠ [] → WFChain hashfn ps') ∧ ps'.length = ps.length := by
  intro fuel
  induction fuel with
  | zero => intro hs _ hl h ps heq; subst heq; simp at hl
  | succ fuel ih =>
    intro hs hw hl h ps heq i hi
    subst heq
    simp only [initBucketF]
    rw [if_neg (by omega)]
    by_cases hst : (h.bucket i).state ≠ .uninit
    · rw [if_pos hst]
      refine ⟨ps, ?_, Equiv.refl _, fun hne => ?_, rfl⟩
      · unfold initHead; rw [if_pos hst]
      · cases ps with
        | nil => exact absurd rfl hne
        | cons p rest => exact hw.tail
    · rw [if_neg hst]
      have hst' : (h.bucket i).state = .uninit := by simpa using hst
      cases ps with
      | nil => exact absurd (hw.2.2 i hi) hst
      | cons p rest =>
        simp only []
        have hwp := hw.tail
        have hpos := hw.headOK.pos
        have hppos := hwp.headOK.pos
        have hfuel : (p :: rest).length ≤ fuel := by simp at hl ⊢; omega
        by_cases hg : h.mask > p.mask
        · rw [if_pos hg]
          have hj0 : i &&& p.mask < p.buckets.length := by
            rw [land_mask hwp.headOK]; exact Nat.mod_lt _ hppos
          obtain ⟨ps1, h1, he1, hw1, hl1⟩ := ih (p :: rest) hwp hfuel p rest rfl (i &&& p.mask) hj0
          have hc1 := init_chain hwp hj0 he1 hw1
          rw [h1]
          simp only []
          obtain ⟨hf1, hf2, p2, hf3, hw2, he2, hl2⟩ := freeze_ok hc1.1 hc1.2.2.1
          rw [hf3, hf2, hf1, hc1.2.2.2.1]
          refine ⟨p2 :: ps1, ?_, he2.trans hc1.2.1, fun _ => hw2, by simp [hl1]⟩
          unfold initHead
          rw [if_neg hst, vnodes_uninit_grow hi hst' hg]
          simp
        · rw [if_neg hg]
          have hlen : p.buckets.length = 2 * h.buckets.length := by
            have := hw.ratio
            have hne := mt (mask_gt_iff hw).mpr hg
            omega
          have hi0 : i < p.buckets.length := by omega
          obtain ⟨ps1, h1, he1, hw1, hl1⟩ := ih (p :: rest) hwp hfuel p rest rfl i hi0
          have hc1 := init_chain hwp hi0 he1 hw1
          rw [h1]
          simp only []
          obtain ⟨hf1, hf2, p2, hf3, hw2, he2, hl2⟩ := freeze_ok hc1.1 hc1.2.2.1
          rw [hf3, hf2, hf1, hc1.2.2.2.1]
          have hi1 : i + h.buckets.length < p2.buckets.length := by rw [hl2, hc1.2.2.2.2.1]; omega
          have hfuel2 : (p2 :: ps1).length ≤ fuel := by simp at hfuel ⊢; omega
          obtain ⟨ps3, h3, he3, hw3, hl3⟩ := ih (p2 :: ps1) hw2 hfuel2 p2 ps1 rfl _ hi1
          have hc3 := init_chain hw2 hi1 he3 hw3
          rw [h3]
          simp only []
          obtain ⟨hf4, hf5, p4, hf6, hw4, he4, hl4⟩ := freeze_ok hc3.1 hc3.2.2.1
          rw [hf6, hf5, hf4, hc3.2.2.2.1]
          have heq : Equiv (p2 :: ps1) (p :: rest) := he2.trans hc1.2.1
          refine ⟨p4 :: ps3, ?_, he4.trans (hc3.2.1.trans heq), fun _ => hw4, by simp [hl3, hl1]⟩
          unfold initHead
          rw [if_neg hst, vnodes_uninit_shrink hi hst' hg, heq.1]
          simp

/-- `mHead.initBucket(i)` on a well-formed chain. -/
theorem initBucket_ok {hashfn : Nat → Nat → Nat} {h : Head} {ps : List Head} (hw : WFChain hashfn (h :: ps))
    {i : Nat} (hi : i < h.buckets.length) :
    ∃ ps', initBucket (h :: ps) i = (initHead h (h :: ps) i :: ps', false) ∧
      WFChain hashfn (initHead h (h :: ps) i :: ps') ∧ Equiv (initHead h (h :: ps) i :: ps') (h :: ps) ∧
      ((initHead h (h :: ps) i).bucket i).state ≠ .uninit ∧
      ((initHead h (h :: ps) i).bucket i).nodes = vnodes (h :: ps) i ∧ ps'.length = ps.length := by
  obtain ⟨ps', h1, he, hw', hl⟩ := initBucketF_ok (h :: ps).length (h :: ps) hw (Nat.le_refl _) h ps rfl i hi
  have hc := init_chain hw hi he hw'
  exact ⟨ps', h1, hc.1, hc.2.1, hc.2.2.1, hc.2.2.2.1, hl⟩

end GoLevel.CacheT
