import GoLevel.Proofs.CacheStep
/-! Invariant of the cache system, part 8 (C17, "at least once"): nothing is lost.

`InvQ` adds to `InvP`/`LogOK` the facts that make finalisation *complete*:
* `zo` — open cache: a node whose counter is zero has a pending `mBucket.delete` for its key, or a thread in the
  zero branch of `unRefExternal` that will issue one;
* `zc` — after `Close(false)`: a node whose counter is zero has been finalised, or a thread is in the zero branch
  of `unRefExternal` / about to run `callFinalizer` for it;
* `zf` — after `Close(true)`: every node has been finalised or `Close` still has its `callFinalizer` to run;
* `lc` — after `Close`: every node still on the LRU list has its `lru.Evict` pending in `Close`;
* `va`, `da` — every value / delFunc number handed out so far is accounted for (finalised, resident, carried by
  a pending instruction, or handed to a `Delete` that found the cache closed).

This file: definitions and the `zo` step. -/
namespace GoLevel.CacheM

set_option linter.unusedSimpArgs false

structure InvQ (sh : Shared) (P : List Instr) (log : List Ev) : Prop where
  zo : sh.closed = false → ∀ n ∈ sh.nodes, n.ref = 0 →
        Instr.delz n.key ∈ P ∨ Instr.extz n.id n.key ∈ P
  zc : sh.closed = true → sh.forced = false → ∀ n ∈ sh.nodes, n.ref = 0 →
        (n.value = none ∧ n.delFuncs = []) ∨ Instr.extz n.id n.key ∈ P ∨ Instr.fin n.id false ∈ P
  zf : sh.forced = true → ∀ n ∈ sh.nodes, (n.value = none ∧ n.delFuncs = []) ∨ Instr.fin n.id true ∈ P
  lc : sh.closed = true → ∀ id ∈ sh.lru.recent, Instr.levict id ∈ P
  va : ∀ v, v < sh.nextVal → v ∈ V log sh.nodes
  da : ∀ d, d < sh.nextDel → d ∈ D log sh.nodes P ∨ d ∈ sh.dropped

theorem closed_mono {sh sh' : Shared} {i push evs} (he : exec sh i = some (sh', push, evs))
    (hc : sh.closed = true) : sh'.closed = true := by
  cases i <;> exec_split he <;> simp_all

theorem forced_mono {sh sh' : Shared} {i push evs} (he : exec sh i = some (sh', push, evs))
    (hcl : sh.closed = true) (hc : sh.forced = true) : sh'.forced = true := by
  cases i <;> exec_split he <;> simp_all

/-- With distinct keys, two members with the same key are the same node. -/
theorem same_of_key {ns : List Node} (hnd : (ns.map (·.key)).Nodup) {n m : Node} (hn : n ∈ ns) (hm : m ∈ ns)
    (h : n.key = m.key) : n = m := by
  induction ns with
  | nil => cases hn
  | cons a ns ih =>
    simp only [List.map_cons, List.nodup_cons] at hnd
    rcases List.mem_cons.mp hn with hn1 | hn1 <;> rcases List.mem_cons.mp hm with hm1 | hm1
    · rw [hn1, hm1]
    · subst hn1; exact absurd (h ▸ List.mem_map_of_mem (f := (·.key)) hm1) hnd.1
    · subst hm1; exact absurd (h ▸ List.mem_map_of_mem (f := (·.key)) hn1) hnd.1
    · exact ih hnd.2 hn1 hm1

theorem ref_nonneg {g sh P log} (h : InvP g sh P log) (hf : sh.forced = false) {n : Node} (hn : n ∈ sh.nodes) :
    0 ≤ n.ref := by
  have := h.rc hf n hn; omega

/-- An instruction that owns a reference to a node: the node's counter is positive. -/
theorem ref_pos_of_owns {g sh Q log i} (h : InvP g sh (i :: Q) log) (hf : sh.forced = false) {n : Node}
    (hn : n ∈ sh.nodes) (ho : owns n.id i = true) : 1 ≤ n.ref := by
  have := h.rc hf n hn
  simp only [refsP, List.countP_cons, ho, if_true] at this
  omega

theorem zo_step {g sh Q log sh' i push evs} (h : InvP g sh (i :: Q) log) (hq : InvQ sh (i :: Q) log)
    (he : exec sh i = some (sh', push, evs)) :
    sh'.closed = false → ∀ n ∈ sh'.nodes, n.ref = 0 →
      Instr.delz n.key ∈ push ++ Q ∨ Instr.extz n.id n.key ∈ push ++ Q := by
  intro hc'
  have hso : sh.closed = false := by
    cases hc : sh.closed with
    | false => rfl
    | true => rw [closed_mono he hc] at hc'; cases hc'
  have hf : sh.forced = false := (h.op hso).2
  have hzo := hq.zo hso
  have hnn : ∀ n ∈ sh.nodes, 0 ≤ n.ref := fun n hn => ref_nonneg h hf hn
  have hpos : ∀ n ∈ sh.nodes, owns n.id i = true → 1 ≤ n.ref := fun n hn ho => ref_pos_of_owns h hf hn ho
  have hop := (h.op hso).1 i List.mem_cons_self
  have hkeys := h.keys
  simp only [List.mem_cons] at hzo
  cases i
  case delz k =>
    simp only [exec, execDelz, hso, Bool.false_eq_true, if_false] at he
    cases hfind : findKey sh.nodes k with
    | none =>
      simp [hfind] at he; obtain ⟨rfl, rfl, rfl⟩ := he
      intro n hn h0
      have hne := findKey_none hfind n hn
      rcases hzo n hn h0 with (h1 | h1) | (h1 | h1)
      · injection h1 with h1; exact absurd h1 hne
      · exact Or.inl (by simpa using h1)
      · cases h1
      · exact Or.inr (by simpa using h1)
    | some n0 =>
      have hfs := findKey_some hfind
      by_cases h0 : n0.ref = 0
      · simp [hfind, h0] at he; obtain ⟨rfl, rfl, rfl⟩ := he
        intro n hn hz
        obtain ⟨hn1, hn2⟩ := mem_eraseId.mp hn
        have hne : n.key ≠ k := by
          intro hk
          have := same_of_key hkeys hn1 hfs.1 (by rw [hk, hfs.2])
          exact hn2 (by rw [this])
        rcases hzo n hn1 hz with (h1 | h1) | (h1 | h1)
        · injection h1 with h1; exact absurd h1 hne
        · exact Or.inl (by simpa using h1)
        · cases h1
        · exact Or.inr (by simpa using h1)
      · simp [hfind, h0] at he; obtain ⟨rfl, rfl, rfl⟩ := he
        intro n hn hz
        have hne : n.key ≠ k := by
          intro hk
          have := same_of_key hkeys hn hfs.1 (by rw [hk, hfs.2])
          exact h0 (this ▸ hz)
        rcases hzo n hn hz with (h1 | h1) | (h1 | h1)
        · injection h1 with h1; exact absurd h1 hne
        · exact Or.inl (by simpa using h1)
        · cases h1
        · exact Or.inr (by simpa using h1)
  case promote pid =>
    simp only [exec, execPromote] at he
    cases hfind : findId sh.nodes pid with
    | none =>
      simp [hfind] at he; obtain ⟨rfl, rfl, rfl⟩ := he
      intro n hn hz
      rcases hzo n hn hz with (h1 | h1) | (h1 | h1)
      · cases h1
      · exact Or.inl (by simpa using h1)
      · cases h1
      · exact Or.inr (by simpa using h1)
    | some n0 =>
      have hfs := findId_some hfind
      have hmem : ∀ {l : List Nat} {x : Instr}, x ∈ Q → x ∈ l.map Instr.unrefExt ++ [Instr.retHandle pid] ++ Q :=
        fun hx => List.mem_append_right _ hx
      cases hl : n0.lru with
      | none =>
        by_cases hfit : n0.size ≤ sh.lru.capacity
        · simp only [hfind, hl, hfit, if_true, Option.some.injEq, Prod.mk.injEq] at he
          obtain ⟨rfl, rfl, rfl⟩ := he
          intro n hn hz
          obtain ⟨m1, hm1, hid1, href1, hk1, _⟩ := mem_clearLru_proj hn
          obtain ⟨m, hm, rfl⟩ := mem_upd.mp hm1
          by_cases hmp : m.id = pid
          · exfalso
            have := hpos m hm (by simp [owns, hmp])
            rw [if_pos hmp] at href1
            simp only [] at href1
            omega
          · rw [if_neg hmp] at href1 hk1 hid1
            rw [hk1, hid1]
            rcases hzo m hm (by omega) with (h1 | h1) | (h1 | h1)
            · cases h1
            · exact Or.inl (hmem h1)
            · cases h1
            · exact Or.inr (hmem h1)
        · simp only [hfind, hl, hfit, if_false, Option.some.injEq, Prod.mk.injEq] at he
          obtain ⟨rfl, rfl, rfl⟩ := he
          intro n hn hz
          rcases hzo n hn hz with (h1 | h1) | (h1 | h1)
          · cases h1
          · exact Or.inl (by simpa using h1)
          · cases h1
          · exact Or.inr (by simpa using h1)
      | inList =>
        simp only [hfind, hl, Option.some.injEq, Prod.mk.injEq] at he
        obtain ⟨rfl, rfl, rfl⟩ := he
        intro n hn hz
        rcases hzo n hn hz with (h1 | h1) | (h1 | h1)
        · cases h1
        · exact Or.inl (by simpa using h1)
        · cases h1
        · exact Or.inr (by simpa using h1)
      | banned =>
        simp only [hfind, hl, Option.some.injEq, Prod.mk.injEq] at he
        obtain ⟨rfl, rfl, rfl⟩ := he
        intro n hn hz
        rcases hzo n hn hz with (h1 | h1) | (h1 | h1)
        · cases h1
        · exact Or.inl (by simpa using h1)
        · cases h1
        · exact Or.inr (by simpa using h1)
  case setcap c =>
    simp only [exec, execSetcap, Option.some.injEq, Prod.mk.injEq] at he
    obtain ⟨rfl, rfl, rfl⟩ := he
    intro n hn hz
    obtain ⟨m, hm, hid1, href1, hk1, _⟩ := mem_clearLru_proj hn
    rw [hk1, hid1]
    rcases hzo m hm (by omega) with (h1 | h1) | (h1 | h1)
    · cases h1
    · exact Or.inl (List.mem_append_right _ h1)
    · cases h1
    · exact Or.inr (List.mem_append_right _ h1)
  all_goals exec_split he
  all_goals (intro n hn hz)
  all_goals (try simp only [] at hc' hn)
  all_goals (simp only [List.mem_append, List.mem_cons, List.mem_map, List.mem_flatMap, List.not_mem_nil,
    or_false, false_or, reduceCtorEq, Instr.delz.injEq, Instr.extz.injEq])
  all_goals first
    | (rw [hso] at hc'; cases hc'; done)
    | (simp [closedOnly] at hop; done)
    | (have := hzo n hn hz; grind)
    | (rw [mem_upd] at hn; obtain ⟨m, hm, rfl⟩ := hn
       have h1 := hzo m hm
       have h2 := hnn m hm
       have h3 := hpos m hm
       have hfs := findId_some (by assumption)
       have hu := found_unique h.ids.1 (by assumption) hm
       grind [owns])
    | (rw [mem_upd] at hn; obtain ⟨m, hm, rfl⟩ := hn
       have h1 := hzo m hm
       have h2 := hnn m hm
       have h3 := hpos m hm
       have hfs := findKey_some (by assumption)
       grind [owns])
    | (rw [mem_upd] at hn; obtain ⟨m, hm, rfl⟩ := hn
       have h1 := hzo m hm
       have h2 := hnn m hm
       have h3 := hpos m hm
       grind [owns])
    | (rcases List.mem_cons.mp hn with rfl | hn
       · simp at hz
       · have := hzo n hn hz; grind)
    | skip

end GoLevel.CacheM
