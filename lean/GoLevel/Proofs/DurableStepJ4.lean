import GoLevel.Proofs.DurableStepJ3
/-!
Job steps, part 4: the view the commit produces, and the steps around the commit.
-/
namespace GoLevel.Dur

/-- the kind of a job in a state satisfying the invariant is one of the four the machine spawns outside
    transactions -/
theorem JobOK.kinds {cfg : Cfg} {s : St} {d : Disk} {j : Job} (h : JobOK cfg s d j) :
    j.kind = .flush ∨ j.kind = .recovMid ∨ j.kind = .recovFinal ∨ j.kind = .compaction ∨ j.kind = .tr := by
  have hk := h.kind
  unfold JobKindOK at hk
  cases hkk : j.kind <;> rw [hkk] at hk <;> simp_all

theorem JobOK.kind_running {cfg : Cfg} {s : St} {d : Disk} {j : Job} (h : JobOK cfg s d j) (hr : s.phase = .running) :
    j.kind = .flush ∨ j.kind = .compaction ∨ j.kind = .tr := by
  have hk := h.kind
  unfold JobKindOK at hk
  rcases h.kinds with hkk | hkk | hkk | hkk | hkk
  · exact Or.inl hkk
  · rw [hkk] at hk; simp only at hk; rw [hr] at hk; exact absurd hk.1 (by decide)
  · rw [hkk] at hk; simp only at hk; rw [hr] at hk; exact absurd hk.1 (by decide)
  · exact Or.inr (Or.inl hkk)
  · exact Or.inr (Or.inr hkk)

/-- without a ghost edit the session mirrors the last view before the commit -/
theorem Inv.mirror_nolimbo {cfg : Cfg} {s : St} {d : Disk} (h : Inv cfg s d) {j : Job} (hj : s.job = some j)
    (hbc : j.pc.beforeCommit = true) (hl : s.limbo = none) : Holds (lastView cfg d) (Mirror s) := by
  have hok := h.job
  rw [hj] at hok
  have hsett := (hok : JobOK cfg s d j).mirror_before hbc
  obtain ⟨mf, v0, v, hparts, hv, _, _, _⟩ := h.disk.last
  unfold Settled at hsett
  have hm := (holds_some hsett hparts.cur).2
  rw [hv] at hm ⊢
  exact (MirrorL.of_none hl).1 hm

/-- the edit of a job of the running DB is good relative to any base view -/
theorem Inv.editOK_base {cfg : Cfg} {s : St} {d : Disk} (h : Inv cfg s d) {j : Job} (hj : s.job = some j)
    {e : MRec} (he : j.edit = some e) (hbc : j.pc.beforeCommit = true) (hr : s.phase = .running)
    {v : MView} (hbase : BaseView cfg s d v) : EditOK s d j e v := by
  have hok := h.job
  rw [hj] at hok
  rcases (hok : JobOK cfg s d j).kind_running hr with hk | hk | hk
  · exact h.editOK_flush hj hk he hbc hbase
  · exact h.editOK_compaction hj hk he hbc hbase
  · exact h.editOK_tr hj hk he hbc hbase

theorem Inv.editOK {cfg : Cfg} {s : St} {d : Disk} (h : Inv cfg s d) {j : Job} (hj : s.job = some j)
    {e : MRec} (he : j.edit = some e) (hbc : j.pc.beforeCommit = true)
    (hpc : j.pc ≠ .mkJournal ∧ j.pc.tablesDone = true) (hl : s.limbo = none) :
    ∃ v, lastView cfg d = some v ∧ EditOK s d j e v := by
  have hok := h.job
  rw [hj] at hok
  rcases hok.kinds with hk | hk | hk | hk | hk
  · obtain ⟨_, _, v, _, hv, _, _, hb⟩ := h.baseView hj hbc hl (h.mirror_nolimbo hj hbc hl)
    exact ⟨v, hv, h.editOK_flush hj hk he hbc hb⟩
  · exact h.editOK_recovMid hj hk he hbc
  · exact h.editOK_recovFinal hj hk he hbc hpc
  · obtain ⟨_, _, v, _, hv, _, _, hb⟩ := h.baseView hj hbc hl (h.mirror_nolimbo hj hbc hl)
    exact ⟨v, hv, h.editOK_compaction hj hk he hbc hb⟩
  · obtain ⟨_, _, v, _, hv, _, _, hb⟩ := h.baseView hj hbc hl (h.mirror_nolimbo hj hbc hl)
    exact ⟨v, hv, h.editOK_tr hj hk he hbc hb⟩

/-- the journals a recovery still has to replay are not below the journal number of the job's edit -/
theorem Inv.todo_ge_edit {cfg : Cfg} {s : St} {d : Disk} (h : Inv cfg s d) {j : Job} (hj : s.job = some j)
    {e : MRec} (he : j.edit = some e) {r : Recov} (hr : s.recov = some r) (hph : s.phase = .recovering) :
    ∀ n ∈ r.todo, e.jn.getD 0 ≤ n := by
  have hok := h.job
  rw [hj] at hok
  have hok : JobOK cfg s d j := hok
  have hkind := hok.kind
  unfold JobKindOK at hkind
  have hrec := h.recov hph
  rw [hr] at hrec
  have hrec : RecOK cfg s d r := hrec
  intro n hn
  rcases hok.kinds with hk | hk | hk | hk | hk <;> rw [hk] at hkind <;> simp only at hkind
  rotate_right 2
  · rw [hph] at hkind; exact absurd hkind.1 (by decide)
  · rw [hph] at hkind; exact absurd hkind.1 (by decide)
  · rw [hph] at hkind; exact absurd hkind.1 (by decide)
  · obtain ⟨_, _, hkind⟩ := hkind
    have hkind := holds_some hkind hr
    rw [holds_iff] at hkind
    obtain ⟨o, ho, _, _, hkind⟩ := hkind
    rw [holds_iff] at hkind
    obtain ⟨x, hx, hkind⟩ := hkind
    rw [he] at hkind
    obtain ⟨hejn, _⟩ : e.jn = some x ∧ e.sq = some s.seq := hkind
    rw [hejn]
    show x ≤ n
    have hs := hrec.todoSorted
    cases ht : r.todo with
    | nil => rw [ht] at hn; cases hn
    | cons y ys =>
      rw [ht] at hx hn hs
      cases hx
      rw [List.pairwise_cons] at hs
      rcases List.mem_cons.1 hn with rfl | hn'
      · exact Nat.le_refl _
      · exact Nat.le_of_lt (hs.1 n hn')
  · obtain ⟨_, hkind⟩ := hkind
    have hkind := holds_some hkind hr
    rw [hkind.1] at hn
    cases hn

/-- the view after the job's edit is good -/
theorem Inv.commit_view {cfg : Cfg} {s : St} {d : Disk} (h : Inv cfg s d) {j : Job} (hj : s.job = some j)
    {e : MRec} (he : j.edit = some e) (hbc : j.pc.beforeCommit = true)
    (hpc : j.pc ≠ .mkJournal ∧ j.pc.tablesDone = true) (hl : s.limbo = none) :
    ∃ mf v0 v, DiskOK.Parts cfg d (must s) (issuedGrps s) mf v0 ∧ lastView cfg d = some v ∧
      viewAt cfg mf mf.unsynced.length = some v ∧ EditOK s d j e v ∧
      ViewOK d (must s) (issuedGrps s) ⟨applyEdit v.live e, e.jn.getD v.jn, e.sq.getD v.sq, s.nextFile⟩ ∧
      v0.jn ≤ e.jn.getD v.jn := by
  have hok := h.job
  rw [hj] at hok
  obtain ⟨v, hv, hed⟩ := h.editOK hj he hbc hpc hl
  obtain ⟨mf, v0, v', hparts, hv', hvl, hvok, hmono⟩ := h.disk.last
  rw [hv] at hv'; cases hv'
  have hb := h.bounds (h.not_crashed hj)
  have hbv := hb.all mf hparts.cur _ (Nat.le_refl _) v hvl
  have hext := hvok.extend hed (fun g hg => hg) (fun g hg => hg) (hok.outs_on_disk hbc hpc.2) s.nextFile hbv.2.1
    (fun o ho => (hed.fresh o ho).2) hed.mono.2.2.2.2
  exact ⟨mf, v0, v, hparts, hv, hvl, hed, hext, Nat.le_trans hmono hed.mono.1⟩


/-- `JobOK` for the next pc after the table phase: journals and tables stay, the caller supplies the
    manifest clause and the removal clause -/
theorem JobOK.late_next {cfg : Cfg} {s : St} {d d' : Disk} {j : Job} (h : JobOK cfg s d j)
    (hlate : j.pc ≠ .mkJournal ∧ j.pc.tablesDone = true) (j' : Job)
    (hj' : j'.kind = j.kind ∧ j'.outs = j.outs ∧ j'.mkJournal = j.mkJournal ∧ j'.edit = j.edit ∧
      j'.rmJournals = j.rmJournals)
    (hlate' : j'.pc ≠ .mkJournal ∧ j'.pc.tablesDone = true)
    (nf' : Nat) (l' : List Nat) (a' b' : Nat) (m' : Option Nat) (o' : Bool) (hnf : s.nextFile ≤ nf')
    (hj : d'.journals = d.journals) (ht : j'.pc.beforeCommit = true → d'.tables = d.tables)
    (hone : j'.rmTables = [] ∨ j'.kind = .recovFinal ∨ j'.kind = .compaction)
    (hman : JobManifestOK cfg (s.upd j' nf' l' a' b' m' o') d' j')
    (hbc : j'.pc.beforeCommit = true → j.pc.beforeCommit = true ∧ curManifest d' = curManifest d)
    (hrm : Holds (lastView cfg d') (RemovalsOK (s.upd j' nf' l' a' b' m' o') d' j'))
    (hne : j.edit = none → j'.pc.post = true)
    (hrmT : j.kind = .compaction ∨ j.kind = .tr → j'.rmTables = j.rmTables)
    (hlive : j'.pc.beforeCommit = true → l' = s.live)
    (hcom : j'.pc.beforeCommit = false → Holds (lastView cfg d') fun v =>
      ∀ o ∈ j.outs, o.1 ∈ v.live ∧ lookup d'.tables o.1 = some ⟨o.2, true, false⟩) :
    JobOK cfg (s.upd j' nf' l' a' b' m' o') d' j' := by
  obtain ⟨h1, h2, h3, h4, h5, h6, h7, h8, h9, h10, h11, h12⟩ := h
  obtain ⟨k1, k2, k3, k4, k5⟩ := hj'
  refine ⟨⟨by rw [k2]; exact h1.1, hone⟩, ?_, hman, ⟨?_, ?_⟩, ?_, ?_, ?_, ?_, hrm, (by rw [k4]; exact hne), ?_,
    (by rw [k2]; exact hcom)⟩
  rotate_right
  · rw [k4]
    exact Holds'.imp (o := j.edit) h11 (fun e he0 => he0.transport k1 k2 (fun hk => hrmT (Or.inl hk))
      (fun hb => (hbc hb).1) hlive (fun hb t _ => by rw [ht hb]))
  · exact h2.transport rfl rfl rfl rfl rfl rfl rfl k1 k4 k2 k5 k3 (fun hb => (hbc hb).1) rfl rfl
      (fun hk => hrmT (Or.inr hk))
  · rw [k2]; exact fun o ho => Nat.lt_of_lt_of_le (h4.1 o ho) hnf
  · intro hb
    obtain ⟨hb1, hcm⟩ := hbc hb
    rw [hcm, k2, k3]
    have hret : j'.pc.retry = true := by
      have h1 := hlate'.1
      have h2 := hlate'.2
      have h3 : j'.pc.beforeCommit = true := hb
      cases hp : j'.pc <;> rw [hp] at h1 h2 h3 <;> simp_all [JPc.retry, JPc.beforeCommit, JPc.tablesDone]
    refine (h4.2 hb1).imp (fun mf hmf k hk => (hmf k hk).imp (fun v hv => ⟨fun o ho => ?_, hv.2⟩))
    rcases hv.1 o ho with h0 | h0
    · exact Or.inl h0
    · exact Or.inr ⟨hret, h0.2.1, by rw [k4]; exact h0.2.2.1, h0.2.2.2⟩
  · rw [k4, k2]; exact h5
  · intro i o hio
    rw [k2] at hio
    have := h6 i o hio
    unfold OutOK at this ⊢
    have htd := hlate'.2
    have htd0 := hlate.2
    split
    · rename_i heq; rw [heq] at htd; cases htd
    · rename_i heq; rw [heq] at htd; cases htd
    · rename_i heq; rw [heq] at htd; cases htd
    · intro hb
      rw [ht hb]
      split at this
      · rename_i heq; rw [heq] at htd0; cases htd0
      · rename_i heq; rw [heq] at htd0; cases htd0
      · rename_i heq; rw [heq] at htd0; cases htd0
      · exact this (hbc hb).1
  · unfold PcIdxOK
    have htd := hlate'.2
    split
    · rename_i heq; rw [heq] at htd; cases htd
    · rename_i heq; rw [heq] at htd; cases htd
    · rename_i heq; rw [heq] at htd; cases htd
    · trivial
  · apply h8.transport (s' := s.upd j' nf' l' a' b' m' o') hnf rfl hj k3
    constructor
    · rintro (hx | hx)
      · exact absurd hx hlate'.1
      · rw [hlate'.2] at hx; cases hx
    · rintro (hx | hx)
      · exact absurd hx hlate.1
      · rw [hlate.2] at hx; cases hx

/-- a compaction's edit carries neither a journal nor a sequence number; every other edit deletes nothing and
    carries a sequence number, and, except for a transaction, a journal number -/
theorem JobOK.edit_nums {cfg : Cfg} {s : St} {d : Disk} {j : Job} (h : JobOK cfg s d j) {e : MRec}
    (he : j.edit = some e) :
    (j.kind = .compaction → e.jn = none ∧ e.sq = none) ∧
    (j.kind ≠ .compaction → e.deleted = [] ∧ (j.kind ≠ .tr → e.jn.isSome) ∧ e.sq.isSome) ∧
    (j.kind = .tr → e.jn = none) := by
  have x := h.inputs
  rw [he] at x
  have x : InputsOK s d j e := x
  unfold InputsOK at x
  refine ⟨?_, ?_, ?_⟩
  · intro hk; rw [if_pos hk] at x; exact ⟨x.1, x.2.1⟩
  · intro hk; rw [if_neg hk] at x; exact x
  · intro hk
    have hkind := h.kind
    unfold JobKindOK at hkind
    rw [hk] at hkind
    simp only at hkind
    obtain ⟨_, _, _, _, hkind⟩ := hkind
    rw [holds_iff] at hkind
    obtain ⟨g, _, hkind⟩ := hkind
    rw [he] at hkind
    exact hkind.1

/-- outside the running phase the edit of a job names its journal -/
theorem JobOK.jn_getD {cfg : Cfg} {s : St} {d : Disk} {j : Job} (h : JobOK cfg s d j) (hr : s.phase ≠ .running)
    {e : MRec} (he : j.edit = some e) (x : Nat) : e.jn.getD x = e.jn.getD 0 := by
  have hk : j.kind ≠ .compaction := by
    intro hk
    have := h.kind
    unfold JobKindOK at this
    rw [hk] at this
    exact hr this.1
  have hk2 : j.kind ≠ .tr := by
    intro hk
    have := h.kind
    unfold JobKindOK at this
    rw [hk] at this
    exact hr this.1
  obtain ⟨_, hjs, _⟩ := (h.edit_nums he).2.1 hk
  have hjs := hjs hk2
  obtain ⟨y, ey⟩ := Option.isSome_iff_exists.1 hjs
  rw [ey]; rfl

/-- the argument `RunOK.job_step` wants about the frozen buffer, for a step that ends behind the commit: a
    flush job has committed (nothing to show), a compaction does not touch the journal and sequence numbers, a
    transaction has no frozen buffer beside it -/
theorem RunOK.hnc_post {cfg : Cfg} {s : St} {d : Disk} {j j' : Job} (hrun : RunOK cfg s d) (hok : JobOK cfg s d j)
    (hj : s.job = some j) (hr : s.phase = .running) (hk' : j'.kind = j.kind) (hpost : j'.pc.uninstalled = false)
    {nf' : Nat} {l' : List Nat} {a' b' : Nat} {m' : Option Nat} {o' : Bool}
    (hv : j.kind = .compaction → a' = s.stJn ∧ b' = s.stSq) :
    s.frozen ≠ none → FlushPending (s.upd j' nf' l' a' b' m' o') → FlushPending s ∧ a' = s.stJn ∧ b' = s.stSq := by
  intro hfz hfp
  have hfp' : j'.kind = .flush → j'.pc.uninstalled = true := hfp
  rcases hok.kind_running hr with hk | hk | hk
  · have := hfp' (hk'.trans hk)
    rw [hpost] at this; cases this
  · refine ⟨?_, hv hk⟩
    unfold FlushPending
    rw [hj]
    intro hf
    rw [hk] at hf; cases hf
  · -- an open transaction: nothing is frozen
    exfalso
    have hkind := hok.kind
    unfold JobKindOK at hkind
    rw [hk] at hkind
    simp only at hkind
    obtain ⟨_, _, _, _, hkind⟩ := hkind
    rw [holds_iff] at hkind
    obtain ⟨g, hg, _⟩ := hkind
    have htr := hrun.norecov.2
    unfold TrOK at htr
    rw [hg] at htr
    exact hfz htr.2.2.1

theorem views_refl {cfg : Cfg} {d d' : Disk} {v : MView} (h' : lastView cfg d' = some v) (h : lastView cfg d = some v) :
    Holds (lastView cfg d') fun v' => Holds (lastView cfg d) fun v => v'.jn ≤ v.jn ∧ v'.sq ≤ v.sq :=
  holds_of_some h' (holds_of_some h ⟨Nat.le_refl _, Nat.le_refl _⟩)

theorem late_not_rm {s : St} {d : Disk} {j : Job} {v : MView}
    (h : (∀ l, j.pc ≠ .rmJ l) ∧ (∀ l, j.pc ≠ .rmT l) ∧ ∀ l, j.pc ≠ .rmM l) : RemovalsOK s d j v := by
  unfold RemovalsOK
  split
  · rename_i l heq; exact absurd heq (h.1 l)
  · rename_i l heq; exact absurd heq (h.2.1 l)
  · rename_i l heq; exact absurd heq (h.2.2 l)
  · trivial

/-- `ViewBounds` after one more record in the current manifest -/
theorem ViewBounds.append {cfg : Cfg} {s s' : St} {d : Disk} {m : Nat} (h : ViewBounds cfg s d) (hc : d.current = some m)
    (r : MRec) (hs : seqHi s ≤ seqHi s' ∧ s'.nextFile = s.nextFile ∧ s'.phase = s.phase ∧ s'.jcur = s.jcur)
    (hnew : ∀ mf, curManifest d = some mf → Holds (((replayM cfg mf.all).step cfg r).view?) fun v =>
      v.sq ≤ seqHi s' ∧ v.nf ≤ s.nextFile ∧ (s.phase = .running → v.jn ≤ s.jcur)) :
    ViewBounds cfg s' { d with manifests := d.manifests.modify m (·.append r) } := by
  unfold ViewBounds at h ⊢
  rw [curManifest_modify hc]
  obtain ⟨e1, e2, e3, e4⟩ := hs
  cases hcm : curManifest d with
  | none => rw [hcm] at h; exact h
  | some mf =>
    rw [hcm] at h
    simp only [Option.map_some, Holds] at h ⊢
    intro k hk
    have hlen : (mf.append r).unsynced.length = mf.unsynced.length + 1 := by simp [LogFile.append]
    rw [hlen] at hk
    rw [e2, e3, e4]
    by_cases hk' : k ≤ mf.unsynced.length
    · rw [viewAt_append_le cfg mf r hk']
      have hh : Holds (viewAt cfg mf k) fun v =>
          v.sq ≤ seqHi s ∧ v.nf ≤ s.nextFile ∧ (s.phase = .running → v.jn ≤ s.jcur) := h k hk'
      exact hh.imp (fun v hv => ⟨Nat.le_trans hv.1 e1, hv.2⟩)
    · have : k = mf.unsynced.length + 1 := by omega
      subst this
      rw [viewAt_append_last]
      exact hnew mf hcm

/-- the ghost edit exists only in the running phase, and only while `manifestFailed` is set -/
theorem Inv.limbo_none {cfg : Cfg} {s : St} {d : Disk} (h : Inv cfg s d)
    (hmf : s.phase = .running → s.manifestFailed = false) : s.limbo = none := by
  rcases hp : s.phase with _ | _ | _
  · exact (h.crashed hp).2.2.2.2
  · have := h.recov hp
    rw [holds_iff] at this
    obtain ⟨r, _, hr⟩ := this
    exact hr.idle.2.2.2
  · have hl := (h.run hp).limbo
    unfold LimboOK at hl
    cases hu : s.limbo with
    | none => rfl
    | some u =>
      rw [hu] at hl
      have := (hl : LimboFacts s d u).1
      rw [hmf hp] at this; cases this

theorem Inv.limbo_none_of_recovering {cfg : Cfg} {s : St} {d : Disk} (h : Inv cfg s d) (hp : s.phase ≠ .running) :
    s.limbo = none := h.limbo_none (fun hr => absurd hr hp)

/-! ## the storage one edit ahead of the session -/

theorem applyEdit_orphan {live : List Nat} {u : MRec} {t : Nat} (hd : u.deleted = []) (ha : u.added = [t])
    (hlt : ∀ x ∈ live, x < t) : applyEdit live u = live ++ [t] := by
  unfold applyEdit
  rw [hd, ha]
  congr 1
  rw [List.filter_eq_self]
  intro x hx
  have := hlt x hx
  simp
  omega

/-- the last view of the manifest without the table of a discarded transaction is good as well: the view the
    session holds -/
theorem ViewOK.drop_orphan {s : St} {d : Disk} {vl : MView} {u : MRec}
    (hvl : ViewOK d (must s) (issuedGrps s) vl) (hm : MirrorE s u vl) (hf : LimboFacts s d u) (ho : OrphanOK s d u) :
    ViewOK d (must s) (issuedGrps s) ⟨s.live, s.stJn, s.stSq, vl.nf⟩ ∧ vl.jn = s.stJn ∧ s.stSq ≤ vl.sq := by
  obtain ⟨m1, m2, m3⟩ := hm
  obtain ⟨_, _, _, f4, f5, f6, _, _⟩ := hf
  obtain ⟨o1, o2, o3⟩ := ho
  rw [holds_iff] at o3
  obtain ⟨t, ht, hadd, _, o4⟩ := o3
  rw [holds_iff] at o4
  obtain ⟨tf, htf, _, _, o5⟩ := o4
  rw [holds_iff] at o5
  obtain ⟨g, _, hgrps, _, hgm, _, _, _⟩ := o5
  have hjn : vl.jn = s.stJn := by rw [m2, o2]; rfl
  have hsq : s.stSq ≤ vl.sq := by rw [m3]; exact f5
  have hlive : vl.live = s.live ++ [t] := by
    rw [m1]
    exact applyEdit_orphan o1 hadd (fun x hx => (f6 x hx).1 t (by rw [hadd]; exact List.mem_singleton.2 rfl))
  have hsubL : ∀ x ∈ s.live, x ∈ vl.live := fun x hx => by rw [hlive]; exact List.mem_append_left _ hx
  have hsubG : ∀ x ∈ liveGrps d ⟨s.live, s.stJn, s.stSq, vl.nf⟩, x ∈ liveGrps d vl := by
    intro x hx
    obtain ⟨t', ht', hxt⟩ := List.mem_flatMap.1 hx
    exact List.mem_flatMap.2 ⟨t', hsubL t' ht', hxt⟩
  have hrel : relJournals d s.stJn = relJournals d vl.jn := by rw [hjn]
  refine ⟨⟨fun t' ht' => hvl.tables t' (hsubL t' ht'), fun x hx => ?_, fun x hx y hy => hvl.tdisj x (hsubG x hx) y (hsubG y hy),
    fun p hp x hx => ?_, fun x hx p hp y hy => hvl.tj x (hsubG x hx) p (by rw [← hrel]; exact hp) y hy,
    fun x hx => ?_, by show s.stJn < vl.nf; rw [← hjn]; exact hvl.jnf⟩, hjn, hsq⟩
  · obtain ⟨_, b, c⟩ := hvl.tseq x (hsubG x hx)
    obtain ⟨t', ht', hxt⟩ := List.mem_flatMap.1 hx
    exact ⟨(f6 t' ht').2 x hxt, b, c⟩
  · have hp' : p ∈ relJournals d vl.jn := by rw [← hrel]; exact hp
    obtain ⟨a, b⟩ := hvl.jseq p hp' x hx
    refine ⟨a.imp (fun h1 => ?_) id, b⟩
    show s.stSq ≤ x.seq
    omega
  · rcases hvl.cover x hx with h1 | h1
    · left
      obtain ⟨t', ht', hxt⟩ := List.mem_flatMap.1 h1
      rw [hlive] at ht'
      rcases List.mem_append.1 ht' with h2 | h2
      · exact List.mem_flatMap.2 ⟨t', h2, hxt⟩
      · simp only [List.mem_singleton] at h2
        subst h2
        unfold tableGrpsOf at hxt
        rw [htf] at hxt
        simp only [Option.map_some, Option.getD_some, hgrps, List.mem_singleton] at hxt
        subst hxt
        exact absurd hx hgm
    · right
      rw [hrel]
      exact h1

/-- the session's tables lie below what a job's edit adds, their groups below the session's sequence number -/
theorem ViewOK.live_clause {s : St} {d : Disk} {M I : List Grp} {v : MView} {e : MRec} {j : Job}
    (hvok : ViewOK d M I v) (m1 : v.live = s.live) (m3 : v.sq = s.stSq) (hadd : e.added = j.outs.map (·.1))
    (hfr : ∀ o ∈ j.outs, v.nf ≤ o.1) :
    ∀ t ∈ s.live, (∀ a ∈ e.added, t < a) ∧ ∀ g ∈ tableGrpsOf d t, g.fin ≤ s.stSq + 1 := by
  intro t ht
  rw [← m1] at ht
  refine ⟨fun a ha => ?_, fun g hg => ?_⟩
  · rw [hadd] at ha
    obtain ⟨o, ho, rfl⟩ := List.mem_map.1 ha
    have h1 := (hvok.tables t ht).1
    have h2 := hfr o ho
    omega
  · have := (hvok.tseq g (List.mem_flatMap.2 ⟨t, ht, hg⟩)).1
    omega

/-- **the view the commit of the job's edit produces is good** — also while the storage is one edit ahead of the
    session: if that edit is the job's own (its commit is being retried) the view is the last view of the manifest;
    if it is a discarded transaction's, the session's view is that last view without the transaction's table -/
theorem Inv.commit_view' {cfg : Cfg} {s : St} {d : Disk} (h : Inv cfg s d) {j : Job} (hj : s.job = some j)
    {e : MRec} (he : j.edit = some e) (hbc : j.pc.beforeCommit = true)
    (hpc : j.pc ≠ .mkJournal ∧ j.pc.tablesDone = true) :
    ∃ mf v0, DiskOK.Parts cfg d (must s) (issuedGrps s) mf v0 ∧
      ViewOK d (must s) (issuedGrps s) ⟨applyEdit s.live e, e.jn.getD s.stJn, e.sq.getD s.stSq, s.nextFile⟩ ∧
      v0.jn ≤ e.jn.getD s.stJn ∧ s.stJn ≤ e.jn.getD s.stJn ∧ e.sq.getD s.stSq ≤ sqCap s j ∧
      (s.phase = .running → e.jn.getD s.stJn ≤ s.jcur) ∧ s.stSq ≤ e.sq.getD s.stSq ∧
      ∀ t ∈ s.live, (∀ a ∈ e.added, t < a) ∧ ∀ g ∈ tableGrpsOf d t, g.fin ≤ s.stSq + 1 := by
  have hok := h.job
  rw [hj] at hok
  have hok : JobOK cfg s d j := hok
  cases hu : s.limbo with
  | none =>
    obtain ⟨mf, v0, v, hparts, hlv, hvl, hed, hvok', hmono'⟩ := h.commit_view hj he hbc hpc hu
    have hm := h.mirror_nolimbo hj hbc hu
    rw [hlv] at hm
    obtain ⟨m1, m2, m3⟩ : Mirror s v := hm
    obtain ⟨v1, hv1, hvok1, _⟩ := hparts.views mf.unsynced.length (Nat.le_refl _)
    rw [hvl] at hv1; cases hv1
    have hlc := hvok1.live_clause (s := s) (e := e) (j := j) m1 m3 hed.shape.1 (fun o ho => (hed.fresh o ho).1)
    rw [m1, m2, m3] at hvok'
    rw [m2] at hmono'
    have hmono := hed.mono
    rw [m2, m3] at hmono
    exact ⟨mf, v0, hparts, hvok', hmono', hmono.1, hmono.2.2.1, hmono.2.2.2.1, hmono.2.1, hlc⟩
  | some u =>
    have hph : s.phase = .running := by
      rcases hp : s.phase with _ | _ | _
      · have := h.limbo_none_of_recovering (by rw [hp]; decide); rw [hu] at this; cases this
      · have := h.limbo_none_of_recovering (by rw [hp]; decide); rw [hu] at this; cases this
      · rfl
    have hrun := h.run hph
    have hb := h.bounds (by rw [hph]; decide)
    have hlf : LimboFacts s d u := by
      have := hrun.limbo
      unfold LimboOK at this
      rw [hu] at this
      exact this
    obtain ⟨mf, v0, vl, hparts, hlv, hvl, hvok, hmono⟩ := h.disk.last
    have hbv := hb.all mf hparts.cur _ (Nat.le_refl _) vl hvl
    have hsett := hok.mirror_before hbc
    unfold Settled at hsett
    have hm := (holds_some hsett hparts.cur).2
    rw [hlv] at hm
    have hm : MirrorE s u vl := (MirrorL.of_some hu).1 hm
    obtain ⟨m1, m2, m3⟩ := hm
    rcases hlf.2.2.2.2.2.2.2 with hown | horph
    · -- the job retries the commit of the edit the storage already shows
      rw [hj] at hown
      obtain ⟨hue, _⟩ : j.edit = some u ∧ j.pc.retry = true := hown
      rw [he] at hue
      cases hue
      have hsq : seqHi s = sqCap s j := by
        unfold seqHi
        rw [hj]
        simp only [hu, Option.isSome_some, or_true, if_true]
      refine ⟨mf, v0, hparts, ?_, by rw [← m2]; exact hmono, hlf.2.2.2.1, by rw [← m3, ← hsq]; exact hbv.1,
        fun hr => by rw [← m2]; exact hbv.2.2 hr, hlf.2.2.2.2.1, hlf.2.2.2.2.2.1⟩
      have : vl = ⟨applyEdit s.live e, e.jn.getD s.stJn, e.sq.getD s.stSq, vl.nf⟩ := by
        cases vl; simp only at m1 m2 m3; simp [m1, m2, m3]
      rw [this] at hvok
      refine hvok.with_nf (fun t ht => ?_) ?_
      · have := (hvok.tables t ht).1
        exact Nat.lt_of_lt_of_le this hbv.2.1
      · exact Nat.lt_of_lt_of_le hvok.jnf hbv.2.1
    · -- a discarded transaction's edit: the session's view is the last view without its table
      obtain ⟨hvs, hjn, hsqle⟩ := hvok.drop_orphan ⟨m1, m2, m3⟩ hlf horph
      have hgfin : vl.sq ≤ s.seq := by
        obtain ⟨_, _, o3⟩ := horph
        rw [holds_iff] at o3
        obtain ⟨t, _, _, _, o4⟩ := o3
        rw [holds_iff] at o4
        obtain ⟨tf, _, _, _, o5⟩ := o4
        rw [holds_iff] at o5
        obtain ⟨g, _, _, hsq, _, _, hfin, _⟩ := o5
        rw [m3, hsq]
        simp only [Option.getD_some]
        omega
      have hbase : BaseView cfg s d ⟨s.live, s.stJn, s.stSq, vl.nf⟩ := by
        refine ⟨⟨rfl, rfl, rfl⟩, hvs, ?_, ?_, by show s.stSq ≤ s.seq; omega, hbv.2.1,
          fun hr => by show s.stJn ≤ s.jcur; rw [← hjn]; exact hbv.2.2 hr, ?_, ?_⟩
        · intro p hp hge
          exact hparts.jasc p (mem_relJournals.2 ⟨hp, by have : s.stJn ≤ p.1 := hge; omega⟩)
        · intro p hp hge q hq hlt
          have : s.stJn ≤ p.1 := hge
          exact hparts.jord p (mem_relJournals.2 ⟨hp, by omega⟩) q (mem_relJournals.2 ⟨hq, by omega⟩) hlt
        · rw [hj]
          intro o ho
          have hf := holds_some (holds_some (hok.fresh.2 hbc) hparts.cur _ (Nat.le_refl _)) hvl
          rcases hf.1 o ho with h0 | h0
          · exact h0
          · -- the ghost edit is not the job's: it adds a table below the job's outputs
            exfalso
            obtain ⟨_, _, hje, _⟩ := h0
            rw [hu, he] at hje
            have hue : u = e := Option.some.inj hje
            obtain ⟨_, _, o3⟩ := horph
            rw [holds_iff] at o3
            obtain ⟨t, _, hadd, _, o4⟩ := o3
            rw [holds_iff] at o4
            obtain ⟨tf, _, _, _, o5⟩ := o4
            rw [holds_iff] at o5
            obtain ⟨g, _, _, _, _, _, _, o6⟩ := o5
            rw [hj] at o6
            have hsh := hok.shape
            rw [he] at hsh
            have : u.added = j.outs.map (·.1) := by rw [hue]; exact hsh.1
            rw [hadd] at this
            have hmem : t ∈ j.outs.map (·.1) := by rw [← this]; exact List.mem_singleton.2 rfl
            obtain ⟨o', ho', hto⟩ := List.mem_map.1 hmem
            have := o6 o' ho'
            omega
        · intro hr p hp hge
          have r1 := holds_some hrun.rel hparts.cur
          have r2 := holds_some r1 hparts.hv0
          have : s.stJn ≤ p.1 := hge
          exact r2 p hp (by omega)
      have hed := h.editOK_base hj he hbc hph hbase
      have hext := hvs.extend hed (fun g hg => hg) (fun g hg => hg) (hok.outs_on_disk hbc hpc.2) s.nextFile hbv.2.1
        (fun o ho => (hed.fresh o ho).2) hed.mono.2.2.2.2
      have hlc := hvs.live_clause (s := s) (e := e) (j := j) rfl rfl hed.shape.1 (fun o ho => (hed.fresh o ho).1)
      exact ⟨mf, v0, hparts, hext, by have h1 : s.stJn ≤ e.jn.getD s.stJn := hed.mono.1; rw [hjn] at hmono; exact Nat.le_trans hmono h1, hed.mono.1,
        hed.mono.2.2.1, hed.mono.2.2.2.1, hed.mono.2.1, hlc⟩

end GoLevel.Dur
