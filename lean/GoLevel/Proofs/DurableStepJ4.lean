import GoLevel.Proofs.DurableStepJ3
/-!
Job steps, part 4: the view the commit produces, and the steps around the commit.
-/
namespace GoLevel.Dur

/-- the kind of a job in a state satisfying the invariant is one of the three the core machine spawns -/
theorem JobOK.kinds {cfg : Cfg} {s : St} {d : Disk} {j : Job} (h : JobOK cfg s d j) :
    j.kind = .flush ∨ j.kind = .recovMid ∨ j.kind = .recovFinal := by
  have hk := h.kind
  unfold JobKindOK at hk
  cases hkk : j.kind <;> rw [hkk] at hk <;> simp_all

theorem Inv.editOK {cfg : Cfg} {s : St} {d : Disk} (h : Inv cfg s d) {j : Job} (hj : s.job = some j)
    {e : MRec} (he : j.edit = some e) (hbc : j.pc.beforeCommit = true)
    (hpc : j.pc ≠ .mkJournal ∧ j.pc.tablesDone = true) :
    ∃ v, lastView cfg d = some v ∧ EditOK s d j e v := by
  have hok := h.job
  rw [hj] at hok
  rcases hok.kinds with hk | hk | hk
  · exact h.editOK_flush hj hk he hbc
  · exact h.editOK_recovMid hj hk he hbc
  · exact h.editOK_recovFinal hj hk he hbc hpc

/-- the journals a recovery still has to replay are not below the journal number of the job's edit -/
theorem Inv.todo_ge_edit {cfg : Cfg} {s : St} {d : Disk} (h : Inv cfg s d) {j : Job} (hj : s.job = some j)
    {e : MRec} (he : j.edit = some e) {r : Recov} (hr : s.recov = some r) (hph : s.phase = .recovering) :
    ∀ n ∈ r.todo, e.jn.getD 0 ≤ n := by
  have hok := h.job
  rw [hj] at hok
  have hok : JobOK cfg s d j := hok
  have hkind := hok.kind
  unfold JobKindOK at hkind
  have hrec := h.recov hph
  rw [hr] at hrec
  have hrec : RecOK cfg s d r := hrec
  intro n hn
  rcases hok.kinds with hk | hk | hk <;> rw [hk] at hkind <;> simp only at hkind
  · rw [hph] at hkind; exact absurd hkind.1 (by decide)
  · obtain ⟨_, _, hkind⟩ := hkind
    have hkind := holds_some hkind hr
    rw [holds_iff] at hkind
    obtain ⟨o, ho, _, _, hkind⟩ := hkind
    rw [holds_iff] at hkind
    obtain ⟨x, hx, hkind⟩ := hkind
    rw [he] at hkind
    obtain ⟨hejn, _⟩ : e.jn = some x ∧ e.sq = some s.seq := hkind
    rw [hejn]
    show x ≤ n
    have hs := hrec.todoSorted
    cases ht : r.todo with
    | nil => rw [ht] at hn; cases hn
    | cons y ys =>
      rw [ht] at hx hn hs
      cases hx
      rw [List.pairwise_cons] at hs
      rcases List.mem_cons.1 hn with rfl | hn'
      · exact Nat.le_refl _
      · exact Nat.le_of_lt (hs.1 n hn')
  · obtain ⟨_, hkind⟩ := hkind
    have hkind := holds_some hkind hr
    rw [hkind.1] at hn
    cases hn

/-- the view after the job's edit is good -/
theorem Inv.commit_view {cfg : Cfg} {s : St} {d : Disk} (h : Inv cfg s d) {j : Job} (hj : s.job = some j)
    {e : MRec} (he : j.edit = some e) (hbc : j.pc.beforeCommit = true)
    (hpc : j.pc ≠ .mkJournal ∧ j.pc.tablesDone = true) :
    ∃ mf v0 v, DiskOK.Parts cfg d (must s) (issuedGrps s) mf v0 ∧ lastView cfg d = some v ∧
      viewAt cfg mf mf.unsynced.length = some v ∧ EditOK s d j e v ∧
      ViewOK d (must s) (issuedGrps s) ⟨applyEdit v.live e, e.jn.getD v.jn, e.sq.getD v.sq, s.nextFile⟩ ∧
      v0.jn ≤ e.jn.getD v.jn := by
  have hok := h.job
  rw [hj] at hok
  obtain ⟨v, hv, hed⟩ := h.editOK hj he hbc hpc
  obtain ⟨mf, v0, v', hparts, hv', hvl, hvok, hmono⟩ := h.disk.last
  rw [hv] at hv'; cases hv'
  have hb := h.bounds (h.not_crashed hj)
  have hbv := hb.all mf hparts.cur _ (Nat.le_refl _) v hvl
  have hext := hvok.extend hed (fun g hg => hg) (hok.outs_on_disk hbc hpc.2) s.nextFile hbv.2.1
    (fun o ho => (hed.fresh o ho).2) hed.mono.2.2.2.2
  refine ⟨mf, v0, v, hparts, hv, hvl, hed, hext.2, ?_⟩
  obtain ⟨_, _, _, _, hjn, _⟩ := hed.shape
  obtain ⟨jn', ejn⟩ := Option.isSome_iff_exists.1 hjn
  have := hed.mono.1
  simp only [ejn, Option.getD_some] at this ⊢
  omega


/-- `JobOK` for the next pc after the table phase: journals and tables stay, the caller supplies the
    manifest clause and the removal clause -/
theorem JobOK.late_next {cfg : Cfg} {s : St} {d d' : Disk} {j : Job} (h : JobOK cfg s d j)
    (hlate : j.pc ≠ .mkJournal ∧ j.pc.tablesDone = true) (j' : Job)
    (hj' : j'.kind = j.kind ∧ j'.outs = j.outs ∧ j'.mkJournal = j.mkJournal ∧ j'.edit = j.edit ∧
      j'.rmJournals = j.rmJournals)
    (hlate' : j'.pc ≠ .mkJournal ∧ j'.pc.tablesDone = true)
    (nf' : Nat) (l' : List Nat) (a' b' : Nat) (m' : Option Nat) (o' : Bool) (hnf : s.nextFile ≤ nf')
    (hj : d'.journals = d.journals) (ht : j'.pc.beforeCommit = true → d'.tables = d.tables)
    (hone : j'.rmTables = [] ∨ j'.kind = .recovFinal)
    (hman : JobManifestOK cfg (s.upd j' nf' l' a' b' m' o') d' j')
    (hbc : j'.pc.beforeCommit = true → j.pc.beforeCommit = true ∧ curManifest d' = curManifest d)
    (hrm : Holds (lastView cfg d') (RemovalsOK (s.upd j' nf' l' a' b' m' o') d' j'))
    (hne : j.edit = none → j'.pc.post = true) :
    JobOK cfg (s.upd j' nf' l' a' b' m' o') d' j' := by
  obtain ⟨h1, h2, h3, h4, h5, h6, h7, h8, h9, h10⟩ := h
  obtain ⟨k1, k2, k3, k4, k5⟩ := hj'
  refine ⟨⟨by rw [k2]; exact h1.1, hone⟩, ?_, hman, ⟨?_, ?_⟩, ?_, ?_, ?_, ?_, hrm, by rw [k4]; exact hne⟩
  · exact h2.transport rfl rfl rfl rfl rfl rfl rfl k1 k4 k2 k5 k3 (fun hb => (hbc hb).1)
  · rw [k2]; exact fun o ho => Nat.lt_of_lt_of_le (h4.1 o ho) hnf
  · intro hb
    obtain ⟨hb1, hcm⟩ := hbc hb
    rw [hcm, k2, k3]
    exact h4.2 hb1
  · rw [k4, k2]; exact h5
  · intro i o hio
    rw [k2] at hio
    have := h6 i o hio
    unfold OutOK at this ⊢
    have htd := hlate'.2
    have htd0 := hlate.2
    split
    · rename_i heq; rw [heq] at htd; cases htd
    · rename_i heq; rw [heq] at htd; cases htd
    · rename_i heq; rw [heq] at htd; cases htd
    · intro hb
      rw [ht hb]
      split at this
      · rename_i heq; rw [heq] at htd0; cases htd0
      · rename_i heq; rw [heq] at htd0; cases htd0
      · rename_i heq; rw [heq] at htd0; cases htd0
      · exact this (hbc hb).1
  · unfold PcIdxOK
    have htd := hlate'.2
    split
    · rename_i heq; rw [heq] at htd; cases htd
    · rename_i heq; rw [heq] at htd; cases htd
    · rename_i heq; rw [heq] at htd; cases htd
    · trivial
  · apply h8.transport (s' := s.upd j' nf' l' a' b' m' o') hnf rfl hj k3
    constructor
    · rintro (hx | hx)
      · exact absurd hx hlate'.1
      · rw [hlate'.2] at hx; cases hx
    · rintro (hx | hx)
      · exact absurd hx hlate.1
      · rw [hlate.2] at hx; cases hx

theorem late_not_rm {s : St} {d : Disk} {j : Job} {v : MView}
    (h : (∀ l, j.pc ≠ .rmJ l) ∧ (∀ l, j.pc ≠ .rmT l) ∧ ∀ l, j.pc ≠ .rmM l) : RemovalsOK s d j v := by
  unfold RemovalsOK
  split
  · rename_i l heq; exact absurd heq (h.1 l)
  · rename_i l heq; exact absurd heq (h.2.1 l)
  · rename_i l heq; exact absurd heq (h.2.2 l)
  · trivial

/-- `ViewBounds` after one more record in the current manifest -/
theorem ViewBounds.append {cfg : Cfg} {s s' : St} {d : Disk} {m : Nat} (h : ViewBounds cfg s d) (hc : d.current = some m)
    (r : MRec) (hs : s'.seq = s.seq ∧ s'.nextFile = s.nextFile ∧ s'.phase = s.phase ∧ s'.jcur = s.jcur)
    (hnew : ∀ mf, curManifest d = some mf → Holds (((replayM cfg mf.all).step cfg r).view?) fun v =>
      v.sq ≤ s.seq ∧ v.nf ≤ s.nextFile ∧ (s.phase = .running → v.jn ≤ s.jcur)) :
    ViewBounds cfg s' { d with manifests := d.manifests.modify m (·.append r) } := by
  unfold ViewBounds at h ⊢
  rw [curManifest_modify hc]
  obtain ⟨e1, e2, e3, e4⟩ := hs
  cases hcm : curManifest d with
  | none => rw [hcm] at h; exact h
  | some mf =>
    rw [hcm] at h
    simp only [Option.map_some, Holds] at h ⊢
    intro k hk
    have hlen : (mf.append r).unsynced.length = mf.unsynced.length + 1 := by simp [LogFile.append]
    rw [hlen] at hk
    rw [e1, e2, e3, e4]
    by_cases hk' : k ≤ mf.unsynced.length
    · rw [viewAt_append_le cfg mf r hk']; exact h k hk'
    · have : k = mf.unsynced.length + 1 := by omega
      subst this
      rw [viewAt_append_last]
      exact hnew mf hcm

end GoLevel.Dur
