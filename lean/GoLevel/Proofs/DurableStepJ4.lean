import GoLevel.Proofs.DurableStepJ3
/-!
Job steps, part 4: the view the commit produces, and the steps around the commit.
-/
namespace GoLevel.Dur

/-- the kind of a job in a state satisfying the invariant is one of the four the machine spawns outside
    transactions -/
theorem JobOK.kinds {cfg : Cfg} {s : St} {d : Disk} {j : Job} (h : JobOK cfg s d j) :
    j.kind = .flush ∨ j.kind = .recovMid ∨ j.kind = .recovFinal ∨ j.kind = .compaction ∨ j.kind = .tr := by
  have hk := h.kind
  unfold JobKindOK at hk
  cases hkk : j.kind <;> rw [hkk] at hk <;> simp_all

theorem Inv.editOK {cfg : Cfg} {s : St} {d : Disk} (h : Inv cfg s d) {j : Job} (hj : s.job = some j)
    {e : MRec} (he : j.edit = some e) (hbc : j.pc.beforeCommit = true)
    (hpc : j.pc ≠ .mkJournal ∧ j.pc.tablesDone = true) :
    ∃ v, lastView cfg d = some v ∧ EditOK s d j e v := by
  have hok := h.job
  rw [hj] at hok
  rcases hok.kinds with hk | hk | hk | hk | hk
  · exact h.editOK_flush hj hk he hbc
  · exact h.editOK_recovMid hj hk he hbc
  · exact h.editOK_recovFinal hj hk he hbc hpc
  · exact h.editOK_compaction hj hk he hbc
  · exact h.editOK_tr hj hk he hbc

/-- the journals a recovery still has to replay are not below the journal number of the job's edit -/
theorem Inv.todo_ge_edit {cfg : Cfg} {s : St} {d : Disk} (h : Inv cfg s d) {j : Job} (hj : s.job = some j)
    {e : MRec} (he : j.edit = some e) {r : Recov} (hr : s.recov = some r) (hph : s.phase = .recovering) :
    ∀ n ∈ r.todo, e.jn.getD 0 ≤ n := by
  have hok := h.job
  rw [hj] at hok
  have hok : JobOK cfg s d j := hok
  have hkind := hok.kind
  unfold JobKindOK at hkind
  have hrec := h.recov hph
  rw [hr] at hrec
  have hrec : RecOK cfg s d r := hrec
  intro n hn
  rcases hok.kinds with hk | hk | hk | hk | hk <;> rw [hk] at hkind <;> simp only at hkind
  rotate_right 2
  · rw [hph] at hkind; exact absurd hkind.1 (by decide)
  · rw [hph] at hkind; exact absurd hkind.1 (by decide)
  · rw [hph] at hkind; exact absurd hkind.1 (by decide)
  · obtain ⟨_, _, hkind⟩ := hkind
    have hkind := holds_some hkind hr
    rw [holds_iff] at hkind
    obtain ⟨o, ho, _, _, hkind⟩ := hkind
    rw [holds_iff] at hkind
    obtain ⟨x, hx, hkind⟩ := hkind
    rw [he] at hkind
    obtain ⟨hejn, _⟩ : e.jn = some x ∧ e.sq = some s.seq := hkind
    rw [hejn]
    show x ≤ n
    have hs := hrec.todoSorted
    cases ht : r.todo with
    | nil => rw [ht] at hn; cases hn
    | cons y ys =>
      rw [ht] at hx hn hs
      cases hx
      rw [List.pairwise_cons] at hs
      rcases List.mem_cons.1 hn with rfl | hn'
      · exact Nat.le_refl _
      · exact Nat.le_of_lt (hs.1 n hn')
  · obtain ⟨_, hkind⟩ := hkind
    have hkind := holds_some hkind hr
    rw [hkind.1] at hn
    cases hn

/-- the view after the job's edit is good -/
theorem Inv.commit_view {cfg : Cfg} {s : St} {d : Disk} (h : Inv cfg s d) {j : Job} (hj : s.job = some j)
    {e : MRec} (he : j.edit = some e) (hbc : j.pc.beforeCommit = true)
    (hpc : j.pc ≠ .mkJournal ∧ j.pc.tablesDone = true) :
    ∃ mf v0 v, DiskOK.Parts cfg d (must s) (issuedGrps s) mf v0 ∧ lastView cfg d = some v ∧
      viewAt cfg mf mf.unsynced.length = some v ∧ EditOK s d j e v ∧
      ViewOK d (must s) (issuedGrps s) ⟨applyEdit v.live e, e.jn.getD v.jn, e.sq.getD v.sq, s.nextFile⟩ ∧
      v0.jn ≤ e.jn.getD v.jn := by
  have hok := h.job
  rw [hj] at hok
  obtain ⟨v, hv, hed⟩ := h.editOK hj he hbc hpc
  obtain ⟨mf, v0, v', hparts, hv', hvl, hvok, hmono⟩ := h.disk.last
  rw [hv] at hv'; cases hv'
  have hb := h.bounds (h.not_crashed hj)
  have hbv := hb.all mf hparts.cur _ (Nat.le_refl _) v hvl
  have hext := hvok.extend hed (fun g hg => hg) (fun g hg => hg) (hok.outs_on_disk hbc hpc.2) s.nextFile hbv.2.1
    (fun o ho => (hed.fresh o ho).2) hed.mono.2.2.2.2
  exact ⟨mf, v0, v, hparts, hv, hvl, hed, hext, Nat.le_trans hmono hed.mono.1⟩


/-- `JobOK` for the next pc after the table phase: journals and tables stay, the caller supplies the
    manifest clause and the removal clause -/
theorem JobOK.late_next {cfg : Cfg} {s : St} {d d' : Disk} {j : Job} (h : JobOK cfg s d j)
    (hlate : j.pc ≠ .mkJournal ∧ j.pc.tablesDone = true) (j' : Job)
    (hj' : j'.kind = j.kind ∧ j'.outs = j.outs ∧ j'.mkJournal = j.mkJournal ∧ j'.edit = j.edit ∧
      j'.rmJournals = j.rmJournals)
    (hlate' : j'.pc ≠ .mkJournal ∧ j'.pc.tablesDone = true)
    (nf' : Nat) (l' : List Nat) (a' b' : Nat) (m' : Option Nat) (o' : Bool) (hnf : s.nextFile ≤ nf')
    (hj : d'.journals = d.journals) (ht : j'.pc.beforeCommit = true → d'.tables = d.tables)
    (hone : j'.rmTables = [] ∨ j'.kind = .recovFinal ∨ j'.kind = .compaction)
    (hman : JobManifestOK cfg (s.upd j' nf' l' a' b' m' o') d' j')
    (hbc : j'.pc.beforeCommit = true → j.pc.beforeCommit = true ∧ curManifest d' = curManifest d)
    (hrm : Holds (lastView cfg d') (RemovalsOK (s.upd j' nf' l' a' b' m' o') d' j'))
    (hne : j.edit = none → j'.pc.post = true)
    (hrmT : j.kind = .compaction ∨ j.kind = .tr → j'.rmTables = j.rmTables)
    (hlive : j'.pc.beforeCommit = true → l' = s.live)
    (hcom : j'.pc.beforeCommit = false → Holds (lastView cfg d') fun v =>
      ∀ o ∈ j.outs, o.1 ∈ v.live ∧ lookup d'.tables o.1 = some ⟨o.2, true, false⟩) :
    JobOK cfg (s.upd j' nf' l' a' b' m' o') d' j' := by
  obtain ⟨h1, h2, h3, h4, h5, h6, h7, h8, h9, h10, h11, h12⟩ := h
  obtain ⟨k1, k2, k3, k4, k5⟩ := hj'
  refine ⟨⟨by rw [k2]; exact h1.1, hone⟩, ?_, hman, ⟨?_, ?_⟩, ?_, ?_, ?_, ?_, hrm, (by rw [k4]; exact hne), ?_,
    (by rw [k2]; exact hcom)⟩
  rotate_right
  · rw [k4]
    exact Holds'.imp (o := j.edit) h11 (fun e he0 => he0.transport k1 k2 (fun hk => hrmT (Or.inl hk))
      (fun hb => (hbc hb).1) hlive (fun hb t _ => by rw [ht hb]))
  · exact h2.transport rfl rfl rfl rfl rfl rfl rfl k1 k4 k2 k5 k3 (fun hb => (hbc hb).1) rfl rfl
      (fun hk => hrmT (Or.inr hk))
  · rw [k2]; exact fun o ho => Nat.lt_of_lt_of_le (h4.1 o ho) hnf
  · intro hb
    obtain ⟨hb1, hcm⟩ := hbc hb
    rw [hcm, k2, k3]
    exact h4.2 hb1
  · rw [k4, k2]; exact h5
  · intro i o hio
    rw [k2] at hio
    have := h6 i o hio
    unfold OutOK at this ⊢
    have htd := hlate'.2
    have htd0 := hlate.2
    split
    · rename_i heq; rw [heq] at htd; cases htd
    · rename_i heq; rw [heq] at htd; cases htd
    · rename_i heq; rw [heq] at htd; cases htd
    · intro hb
      rw [ht hb]
      split at this
      · rename_i heq; rw [heq] at htd0; cases htd0
      · rename_i heq; rw [heq] at htd0; cases htd0
      · rename_i heq; rw [heq] at htd0; cases htd0
      · exact this (hbc hb).1
  · unfold PcIdxOK
    have htd := hlate'.2
    split
    · rename_i heq; rw [heq] at htd; cases htd
    · rename_i heq; rw [heq] at htd; cases htd
    · rename_i heq; rw [heq] at htd; cases htd
    · trivial
  · apply h8.transport (s' := s.upd j' nf' l' a' b' m' o') hnf rfl hj k3
    constructor
    · rintro (hx | hx)
      · exact absurd hx hlate'.1
      · rw [hlate'.2] at hx; cases hx
    · rintro (hx | hx)
      · exact absurd hx hlate.1
      · rw [hlate.2] at hx; cases hx

/-- in the running phase a job is a memdb flush, a table compaction or the commit of a transaction -/
theorem JobOK.kind_running {cfg : Cfg} {s : St} {d : Disk} {j : Job} (h : JobOK cfg s d j) (hr : s.phase = .running) :
    j.kind = .flush ∨ j.kind = .compaction ∨ j.kind = .tr := by
  have hk := h.kind
  unfold JobKindOK at hk
  rcases h.kinds with hkk | hkk | hkk | hkk | hkk
  · exact Or.inl hkk
  · rw [hkk] at hk; simp only at hk; rw [hr] at hk; exact absurd hk.1 (by decide)
  · rw [hkk] at hk; simp only at hk; rw [hr] at hk; exact absurd hk.1 (by decide)
  · exact Or.inr (Or.inl hkk)
  · exact Or.inr (Or.inr hkk)

/-- a compaction's edit carries neither a journal nor a sequence number; every other edit deletes nothing and
    carries a sequence number, and, except for a transaction, a journal number -/
theorem JobOK.edit_nums {cfg : Cfg} {s : St} {d : Disk} {j : Job} (h : JobOK cfg s d j) {e : MRec}
    (he : j.edit = some e) :
    (j.kind = .compaction → e.jn = none ∧ e.sq = none) ∧
    (j.kind ≠ .compaction → e.deleted = [] ∧ (j.kind ≠ .tr → e.jn.isSome) ∧ e.sq.isSome) ∧
    (j.kind = .tr → e.jn = none) := by
  have x := h.inputs
  rw [he] at x
  have x : InputsOK s d j e := x
  unfold InputsOK at x
  refine ⟨?_, ?_, ?_⟩
  · intro hk; rw [if_pos hk] at x; exact ⟨x.1, x.2.1⟩
  · intro hk; rw [if_neg hk] at x; exact x
  · intro hk
    have hkind := h.kind
    unfold JobKindOK at hkind
    rw [hk] at hkind
    simp only at hkind
    obtain ⟨_, _, _, _, hkind⟩ := hkind
    rw [holds_iff] at hkind
    obtain ⟨g, _, hkind⟩ := hkind
    rw [he] at hkind
    exact hkind.1

/-- outside the running phase the edit of a job names its journal -/
theorem JobOK.jn_getD {cfg : Cfg} {s : St} {d : Disk} {j : Job} (h : JobOK cfg s d j) (hr : s.phase ≠ .running)
    {e : MRec} (he : j.edit = some e) (x : Nat) : e.jn.getD x = e.jn.getD 0 := by
  have hk : j.kind ≠ .compaction := by
    intro hk
    have := h.kind
    unfold JobKindOK at this
    rw [hk] at this
    exact hr this.1
  have hk2 : j.kind ≠ .tr := by
    intro hk
    have := h.kind
    unfold JobKindOK at this
    rw [hk] at this
    exact hr this.1
  obtain ⟨_, hjs, _⟩ := (h.edit_nums he).2.1 hk
  have hjs := hjs hk2
  obtain ⟨y, ey⟩ := Option.isSome_iff_exists.1 hjs
  rw [ey]; rfl

/-- the argument `RunOK.job_step` wants about the frozen buffer, for a step that ends behind the commit: a
    flush job has committed (nothing to show), a compaction does not touch the journal and sequence numbers, a
    transaction has no frozen buffer beside it -/
theorem RunOK.hnc_post {cfg : Cfg} {s : St} {d d' : Disk} {j j' : Job} (hrun : RunOK cfg s d) (hok : JobOK cfg s d j)
    (hj : s.job = some j) (hr : s.phase = .running) (hk' : j'.kind = j.kind) (hpost : j'.pc.beforeCommit = false)
    {nf' : Nat} {l' : List Nat} {a' b' : Nat} {m' : Option Nat} {o' : Bool}
    (hv : j.kind = .compaction →
      Holds (lastView cfg d') fun v' => Holds (lastView cfg d) fun v => v'.jn ≤ v.jn ∧ v'.sq ≤ v.sq) :
    s.frozen ≠ none → FlushPending (s.upd j' nf' l' a' b' m' o') → FlushPending s ∧
      Holds (lastView cfg d') fun v' => Holds (lastView cfg d) fun v => v'.jn ≤ v.jn ∧ v'.sq ≤ v.sq := by
  intro hfz hfp
  have hfp' : j'.kind = .flush → j'.pc.beforeCommit = true := hfp
  rcases hok.kind_running hr with hk | hk | hk
  · have := hfp' (hk'.trans hk)
    rw [hpost] at this; cases this
  · refine ⟨?_, hv hk⟩
    unfold FlushPending
    rw [hj]
    intro hf
    rw [hk] at hf; cases hf
  · -- an open transaction: nothing is frozen
    exfalso
    have hkind := hok.kind
    unfold JobKindOK at hkind
    rw [hk] at hkind
    simp only at hkind
    obtain ⟨_, _, _, _, hkind⟩ := hkind
    rw [holds_iff] at hkind
    obtain ⟨g, hg, _⟩ := hkind
    have htr := hrun.norecov.2
    unfold TrOK at htr
    rw [hg] at htr
    exact hfz htr.2.2.1

theorem views_refl {cfg : Cfg} {d d' : Disk} {v : MView} (h' : lastView cfg d' = some v) (h : lastView cfg d = some v) :
    Holds (lastView cfg d') fun v' => Holds (lastView cfg d) fun v => v'.jn ≤ v.jn ∧ v'.sq ≤ v.sq :=
  holds_of_some h' (holds_of_some h ⟨Nat.le_refl _, Nat.le_refl _⟩)

theorem late_not_rm {s : St} {d : Disk} {j : Job} {v : MView}
    (h : (∀ l, j.pc ≠ .rmJ l) ∧ (∀ l, j.pc ≠ .rmT l) ∧ ∀ l, j.pc ≠ .rmM l) : RemovalsOK s d j v := by
  unfold RemovalsOK
  split
  · rename_i l heq; exact absurd heq (h.1 l)
  · rename_i l heq; exact absurd heq (h.2.1 l)
  · rename_i l heq; exact absurd heq (h.2.2 l)
  · trivial

/-- `ViewBounds` after one more record in the current manifest -/
theorem ViewBounds.append {cfg : Cfg} {s s' : St} {d : Disk} {m : Nat} (h : ViewBounds cfg s d) (hc : d.current = some m)
    (r : MRec) (hs : seqHi s ≤ seqHi s' ∧ s'.nextFile = s.nextFile ∧ s'.phase = s.phase ∧ s'.jcur = s.jcur)
    (hnew : ∀ mf, curManifest d = some mf → Holds (((replayM cfg mf.all).step cfg r).view?) fun v =>
      v.sq ≤ seqHi s' ∧ v.nf ≤ s.nextFile ∧ (s.phase = .running → v.jn ≤ s.jcur)) :
    ViewBounds cfg s' { d with manifests := d.manifests.modify m (·.append r) } := by
  unfold ViewBounds at h ⊢
  rw [curManifest_modify hc]
  obtain ⟨e1, e2, e3, e4⟩ := hs
  cases hcm : curManifest d with
  | none => rw [hcm] at h; exact h
  | some mf =>
    rw [hcm] at h
    simp only [Option.map_some, Holds] at h ⊢
    intro k hk
    have hlen : (mf.append r).unsynced.length = mf.unsynced.length + 1 := by simp [LogFile.append]
    rw [hlen] at hk
    rw [e2, e3, e4]
    by_cases hk' : k ≤ mf.unsynced.length
    · rw [viewAt_append_le cfg mf r hk']
      have hh : Holds (viewAt cfg mf k) fun v =>
          v.sq ≤ seqHi s ∧ v.nf ≤ s.nextFile ∧ (s.phase = .running → v.jn ≤ s.jcur) := h k hk'
      exact hh.imp (fun v hv => ⟨Nat.le_trans hv.1 e1, hv.2⟩)
    · have : k = mf.unsynced.length + 1 := by omega
      subst this
      rw [viewAt_append_last]
      exact hnew mf hcm

end GoLevel.Dur
