import GoLevel.Proofs.IterVis
/-!
# `dbIter.next()`: the forward scan finds the next visible entry

Core Lean only.
-/
namespace GoLevel

/-- loop invariant of `next()` when the raw iterator stands at index `j`: for every entry from `j` on that
is not newer than `seq`, "no older-indexed entry of its user key (before `j`) is a candidate" is exactly the
test the loop applies (`dir == dirSOI || ucmp(ukey, key) > 0`) -/
def NI (c : UCmp) (es : List Entry) (seq : Nat) (j : Nat) (dir : Dir) (key : Bytes) : Prop :=
  ∀ (i : Nat) (e : Entry), j ≤ i → es[i]? = some e → e.seq ≤ seq →
    (NoEarlier es seq j e.ukey ↔ (dir = .soi ∨ c.cmp e.ukey key = .gt))

section
variable {c : UCmp} (hl : LawfulUCmp c) {es : List Entry} (hs : SortedEntries c es)
include hl hs

/-- after passing a candidate `e0` at `j` whose user key is now `key` -/
theorem NI_after (seq j : Nat) (e0 : Entry) (dir : Dir) (he0 : es[j]? = some e0) (hc : e0.seq ≤ seq)
    (hd : dir ≠ .soi) : NI c es seq (j + 1) dir e0.ukey := by
  intro i e hji he _
  have hle := ukey_le_idx hl hs j i e0 e (by omega) he0 he
  constructor
  · intro hne
    refine .inr ?_
    have hneq : e0.ukey ≠ e.ukey := by
      intro heq
      have := hne j e0 (by omega) he0 heq
      omega
    exact (hl.gt_iff _ _).2 (cmp_lt_of_le_ne hl _ _ hle hneq)
  · rintro (h | h)
    · exact absurd h hd
    · intro i' e' hi' he' hu
      have := ukey_le_idx hl hs i' j e' e0 (by omega) he' he0
      rw [hu] at this
      exact absurd h this

omit hl hs in
theorem NI_skip_high (seq j : Nat) (e0 : Entry) (dir : Dir) (key : Bytes) (he0 : es[j]? = some e0)
    (hc : ¬ e0.seq ≤ seq) (h : NI c es seq j dir key) : NI c es seq (j + 1) dir key := by
  intro i e hji he hce
  rw [← h i e (by omega) he hce]
  constructor
  · intro hne i' e' hi' he' hu; exact hne i' e' (by omega) he' hu
  · intro hne i' e' hi' he' hu
    rcases Nat.lt_or_ge i' j with hlt | hge
    · exact hne i' e' hlt he' hu
    · have : i' = j := by omega
      subst this; rw [he0] at he'; cases he'; omega

omit hl hs in
theorem NI_skip_same (seq j : Nat) (e0 : Entry) (dir : Dir) (key : Bytes) (he0 : es[j]? = some e0)
    (hd : dir ≠ .soi) (hng : c.cmp e0.ukey key ≠ .gt) (h : NI c es seq j dir key) :
    NI c es seq (j + 1) dir key := by
  intro i e hji he hce
  rw [← h i e (by omega) he hce]
  constructor
  · intro hne i' e' hi' he' hu; exact hne i' e' (by omega) he' hu
  · intro hne i' e' hi' he' hu
    rcases Nat.lt_or_ge i' j with hlt | hge
    · exact hne i' e' hlt he' hu
    · have : i' = j := by omega
      subst this; rw [he0] at he'; cases he'
      exfalso
      rcases (h i e (by omega) he hce).1 hne with h1 | h1
      · exact hd h1
      · rw [← hu] at h1; exact hng h1

end

/-- what `next()` has achieved when started with the raw iterator at index `j` -/
def NextOut {σ : Type} (R : σ → Pos → Prop) (es : List Entry) (seq fuel : Nat) (j : Nat)
    (r : DBIter σ × Bool) : Prop :=
  r.1.seq = seq ∧ r.1.fuel = fuel ∧
  ((r.2 = true ∧ ∃ j' e, j ≤ j' ∧ R r.1.raw (.at j') ∧ es[j']? = some e ∧ Vis es seq j' e ∧
      r.1.key = e.ukey ∧ r.1.value = e.val ∧ r.1.dir = .forward ∧
      ∀ (i : Nat) (e' : Entry), j ≤ i → i < j' → es[i]? = some e' → ¬ Vis es seq i e') ∨
   (r.2 = false ∧ r.1.dir = .eoi ∧ (∃ q, R r.1.raw q) ∧
      ∀ (i : Nat) (e' : Entry), j ≤ i → es[i]? = some e' → ¬ Vis es seq i e'))

theorem NextOut.extend {σ : Type} {R : σ → Pos → Prop} {es : List Entry} {seq fuel j : Nat}
    {r : DBIter σ × Bool} (e0 : Entry) (he0 : es[j]? = some e0) (hnv : ¬ Vis es seq j e0)
    (h : NextOut R es seq fuel (j + 1) r) : NextOut R es seq fuel j r := by
  obtain ⟨h1, h2, h3⟩ := h
  refine ⟨h1, h2, ?_⟩
  rcases h3 with ⟨hr, j', e, hj', hR, he, hv, hk, hval, hdir, hgap⟩ | ⟨hr, hdir, hq, hgap⟩
  · refine .inl ⟨hr, j', e, by omega, hR, he, hv, hk, hval, hdir, ?_⟩
    intro i e' h1 h2 h3
    rcases Nat.lt_or_ge j i with hlt | hge
    · exact hgap i e' (by omega) h2 h3
    · have : i = j := by omega
      subst this; rw [he0] at h3; cases h3; exact hnv
  · refine .inr ⟨hr, hdir, hq, ?_⟩
    intro i e' h1 h3
    rcases Nat.lt_or_ge j i with hlt | hge
    · exact hgap i e' (by omega) h3
    · have : i = j := by omega
      subst this; rw [he0] at h3; cases h3; exact hnv

section
variable {σ : Type} {o : IterOps σ} {c : UCmp} {es : List Entry} {R : σ → Pos → Prop}

theorem getElem?_lt {α : Type} {xs : List α} {j : Nat} {e : α} (h : xs[j]? = some e) : j < xs.length := by
  rcases Nat.lt_or_ge j xs.length with hlt | hge
  · exact hlt
  · rw [List.getElem?_eq_none hge] at h; exact absurd h (by simp)

/-- the `if !i.iter.Next() { dir = EOI; break }` tail of one loop iteration -/
def nextCont (o : IterOps σ) (c : UCmp) (n : Nat) (d : DBIter σ) : DBIter σ × Bool :=
  let r := o.next d.raw
  if o.ok r then DBIter.nextLoop o c n { d with raw := r }
  else ({ d with raw := r, dir := .eoi }, false)

theorem nextLoop_succ (n : Nat) (d : DBIter σ) :
    DBIter.nextLoop o c (n + 1) d =
      match o.cur d.raw with
      | none => nextCont o c n d
      | some e =>
        if e.seq ≤ d.seq then
          if e.kind = Gen.keyTypeDel then nextCont o c n { d with key := e.ukey, dir := .forward }
          else if e.kind = Gen.keyTypeVal then
            if d.dir = .soi ∨ c.cmp e.ukey d.key = .gt then
              ({ d with key := e.ukey, value := e.val, dir := .forward }, true)
            else nextCont o c n d
          else nextCont o c n d
        else nextCont o c n d := by
  rfl

variable (hsim : Sim o c es R)
include hsim

theorem nextCont_spec (n j : Nat) (d : DBIter σ) (e0 : Entry)
    (ih : ∀ (j : Nat) (d : DBIter σ) (e0 : Entry), es.length ≤ n + j → R d.raw (.at j) → es[j]? = some e0 →
      NI c es d.seq j d.dir d.key → NextOut R es d.seq d.fuel j (DBIter.nextLoop o c n d))
    (hfuel : es.length ≤ n + 1 + j) (hR : R d.raw (.at j)) (he0 : es[j]? = some e0)
    (hnv : ¬ Vis es d.seq j e0) (hNI : NI c es d.seq (j + 1) d.dir d.key) :
    NextOut R es d.seq d.fuel j (nextCont o c n d) := by
  have hRn := hsim.next _ _ hR
  simp only [Cursor.next] at hRn
  simp only [nextCont]
  by_cases hj : j + 1 < es.length
  · rw [if_pos hj] at hRn
    have hok : o.ok (o.next d.raw) = true := by
      rw [hsim.ok_eq _ _ hRn]; simp [Cursor.get, hj]
    rw [if_pos hok]
    have he1 : es[j + 1]? = some es[j + 1] := List.getElem?_eq_getElem hj
    exact NextOut.extend e0 he0 hnv
      (ih (j + 1) { d with raw := o.next d.raw } es[j + 1] (by omega) hRn he1 hNI)
  · rw [if_neg hj] at hRn
    have hok : o.ok (o.next d.raw) = false := by
      rw [hsim.ok_eq _ _ hRn]; simp [Cursor.get]
    rw [hok]
    refine ⟨rfl, rfl, .inr ⟨rfl, rfl, ⟨_, hRn⟩, ?_⟩⟩
    intro i e' h1 h3
    have hi := getElem?_lt h3
    have : i = j := by omega
    subst this; rw [he0] at h3; cases h3; exact hnv

variable (hl : LawfulUCmp c) (hs : SortedEntries c es) (hk : ∀ e ∈ es, e.kind ≤ Gen.keyTypeVal)
include hl hs hk

/-- **`next()`** started at raw index `j` under the loop invariant stops on the first visible entry at or
after `j` (with `key`/`value` saved and `dir = forward`), or runs off the end (`dir = eoi`) if there is none -/
theorem nextLoop_spec (n : Nat) : ∀ (j : Nat) (d : DBIter σ) (e0 : Entry), es.length ≤ n + j →
    R d.raw (.at j) → es[j]? = some e0 → NI c es d.seq j d.dir d.key →
    NextOut R es d.seq d.fuel j (DBIter.nextLoop o c n d) := by
  induction n with
  | zero =>
    intro j d e0 hfuel _ he0 _
    have := getElem?_lt he0
    omega
  | succ n ih =>
    intro j d e0 hfuel hR he0 hNI
    have hcur : o.cur d.raw = some e0 := by rw [hsim.cur _ _ hR]; simpa [Cursor.get] using he0
    rw [nextLoop_succ, hcur]
    simp only
    by_cases hc : e0.seq ≤ d.seq
    · rw [if_pos hc]
      by_cases hdel : e0.kind = Gen.keyTypeDel
      · rw [if_pos hdel]
        have hnv : ¬ Vis es d.seq j e0 := fun hv => kind_del_ne_val e0 hdel hv.2.1
        exact nextCont_spec hsim n j { d with key := e0.ukey, dir := .forward } e0 ih hfuel hR he0 hnv
          (NI_after hl hs d.seq j e0 .forward he0 hc (by simp))
      · rw [if_neg hdel]
        have hval : e0.kind = Gen.keyTypeVal := by
          rcases kind_cases e0 (hk e0 (List.mem_of_getElem? he0)) with h | h
          · exact absurd h hdel
          · exact h
        rw [if_pos hval]
        by_cases htake : d.dir = .soi ∨ c.cmp e0.ukey d.key = .gt
        · rw [if_pos htake]
          refine ⟨rfl, rfl, .inl ⟨rfl, j, e0, Nat.le_refl _, hR, he0, ⟨hc, hval, ?_⟩, rfl, rfl, rfl, ?_⟩⟩
          · exact (hNI j e0 (Nat.le_refl _) he0 hc).2 htake
          · intro i e' h1 h2; omega
        · rw [if_neg htake]
          have hnv : ¬ Vis es d.seq j e0 := fun hv => htake ((hNI j e0 (Nat.le_refl _) he0 hc).1 hv.2.2)
          have hd : d.dir ≠ .soi := fun h => htake (.inl h)
          have hng : c.cmp e0.ukey d.key ≠ .gt := fun h => htake (.inr h)
          exact nextCont_spec hsim n j d e0 ih hfuel hR he0 hnv
            (NI_skip_same d.seq j e0 d.dir d.key he0 hd hng hNI)
    · rw [if_neg hc]
      have hnv : ¬ Vis es d.seq j e0 := fun hv => hc hv.1
      exact nextCont_spec hsim n j d e0 ih hfuel hR he0 hnv (NI_skip_high d.seq j e0 d.dir d.key he0 hc hNI)

/-- the variant used by `Next` after backward movement: the scan starts at `a ≤ j`, the entries in
`[a, j)` are newer than `seq`, and the entry at `j` is the current one (`key = its user key`); the scan
passes `j` and then behaves as above -/
theorem nextLoop_skip (n : Nat) : ∀ (a j : Nat) (d : DBIter σ) (e : Entry), es.length ≤ n + a → a ≤ j →
    R d.raw (.at a) → es[j]? = some e → e.seq ≤ d.seq → d.key = e.ukey → d.dir ≠ .soi →
    (∀ (i : Nat) (e' : Entry), a ≤ i → i < j → es[i]? = some e' → d.seq < e'.seq) →
    NextOut R es d.seq d.fuel (j + 1) (DBIter.nextLoop o c n d) := by
  induction n with
  | zero =>
    intro a j d e hfuel haj _ he _ _ _ _
    have := getElem?_lt he
    omega
  | succ n ih =>
    intro a j d e hfuel haj hR he hc hkey hd hgap
    have hlen := getElem?_lt he
    have ha : a < es.length := by omega
    have hea : es[a]? = some es[a] := List.getElem?_eq_getElem ha
    have hcur : o.cur d.raw = some es[a] := by rw [hsim.cur _ _ hR]; simp [Cursor.get]
    have hRn := hsim.next _ _ hR
    simp only [Cursor.next] at hRn
    rw [nextLoop_succ, hcur]
    simp only
    -- in both cases the entry at `a` is passed without changing `key`/`dir`
    have hcont : (a < j → NextOut R es d.seq d.fuel (j + 1) (nextCont o c n d)) ∧
        (a = j → NextOut R es d.seq d.fuel (j + 1) (nextCont o c n d)) := by
      constructor
      · intro hlt
        have hj1 : a + 1 < es.length := by omega
        rw [if_pos hj1] at hRn
        have hok : o.ok (o.next d.raw) = true := by
          rw [hsim.ok_eq _ _ hRn]; simp [Cursor.get, hj1]
        simp only [nextCont, hok, if_true]
        exact ih (a + 1) j { d with raw := o.next d.raw } e (by omega) (by omega) hRn he hc hkey hd
          (fun i e' h1 h2 h3 => hgap i e' (by omega) h2 h3)
      · intro heq
        subst heq
        simp only [nextCont]
        by_cases hj1 : a + 1 < es.length
        · rw [if_pos hj1] at hRn
          have hok : o.ok (o.next d.raw) = true := by
            rw [hsim.ok_eq _ _ hRn]; simp [Cursor.get, hj1]
          rw [if_pos hok]
          have he1 : es[a + 1]? = some es[a + 1] := List.getElem?_eq_getElem hj1
          have hNI : NI c es d.seq (a + 1) d.dir d.key := by
            rw [hkey]; exact NI_after hl hs d.seq a e d.dir he hc hd
          exact nextLoop_spec hsim hl hs hk n (a + 1) { d with raw := o.next d.raw } es[a + 1] (by omega) hRn he1 hNI
        · rw [if_neg hj1] at hRn
          have hok : o.ok (o.next d.raw) = false := by
            rw [hsim.ok_eq _ _ hRn]; simp [Cursor.get]
          rw [hok]
          refine ⟨rfl, rfl, .inr ⟨rfl, rfl, ⟨_, hRn⟩, ?_⟩⟩
          intro i e' h1 h3
          have := getElem?_lt h3
          omega
    rcases Nat.lt_or_ge a j with hlt | hge
    · have hgt := hgap a es[a] (Nat.le_refl _) hlt hea
      rw [if_neg (by omega)]
      exact hcont.1 hlt
    · have heq : a = j := by omega
      have hee : es[a] = e := by
        subst heq; rw [hea] at he; exact Option.some.inj he
      rw [hee, if_pos hc]
      have hval_or := kind_cases e (hk e (List.mem_of_getElem? he))
      have hnt : ¬ (d.dir = .soi ∨ c.cmp e.ukey d.key = .gt) := by
        rintro (h | h)
        · exact hd h
        · rw [hkey, hl.refl] at h; exact Ordering.noConfusion h
      by_cases hdel : e.kind = Gen.keyTypeDel
      · rw [if_pos hdel]
        have : ({ d with key := e.ukey, dir := .forward } : DBIter σ) = { d with dir := .forward } := by
          rw [← hkey]
        -- a deletion at `j` (cannot be the current entry in the callers, but harmless): same continuation with dir = forward
        have hcont' := ih
        subst heq
        simp only [nextCont]
        by_cases hj1 : a + 1 < es.length
        · rw [if_pos hj1] at hRn
          have hok : o.ok (o.next d.raw) = true := by
            rw [hsim.ok_eq _ _ hRn]; simp [Cursor.get, hj1]
          rw [if_pos hok]
          have he1 : es[a + 1]? = some es[a + 1] := List.getElem?_eq_getElem hj1
          exact nextLoop_spec hsim hl hs hk n (a + 1) { d with key := e.ukey, dir := .forward, raw := o.next d.raw }
            es[a + 1] (by omega) hRn he1 (NI_after hl hs d.seq a e .forward he hc (by simp))
        · rw [if_neg hj1] at hRn
          have hok : o.ok (o.next d.raw) = false := by
            rw [hsim.ok_eq _ _ hRn]; simp [Cursor.get]
          rw [hok]
          refine ⟨rfl, rfl, .inr ⟨rfl, rfl, ⟨_, hRn⟩, ?_⟩⟩
          intro i e' h1 h3
          have := getElem?_lt h3
          omega
      · rw [if_neg hdel]
        have hval : e.kind = Gen.keyTypeVal := by
          rcases hval_or with h | h
          · exact absurd h hdel
          · exact h
        rw [if_pos hval, if_neg hnt]
        exact hcont.2 heq

end
end GoLevel
