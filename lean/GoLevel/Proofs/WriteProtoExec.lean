import GoLevel.Model.WriteProto
/-! The executable step function is sound for the step relation, and complete. -/
namespace GoLevel.WP

theorem step?_sound (s t : St) (a : Label) (h : step? s a = some t) : Step s t := by
  cases a with
  | call i =>
    simp only [step?] at h; split at h <;> try contradiction
    rename_i w hw; split at h <;> try contradiction
    cases h; exact Step.call s i w hw (by assumption)
  | retClosed i =>
    simp only [step?] at h; split at h <;> try contradiction
    rename_i w hw; split at h <;> try contradiction
    rename_i hc; cases h; exact Step.retClosed s i w hw hc.1 hc.2.1 hc.2.2
  | retPerErr i =>
    simp only [step?] at h; split at h <;> try contradiction
    rename_i w hw; split at h <;> try contradiction
    rename_i hc; cases h; exact Step.retPerErr s i w hw hc.1 hc.2.1 hc.2.2
  | lock i g =>
    simp only [step?] at h; split at h <;> try contradiction
    rename_i w hw; split at h <;> try contradiction
    rename_i hc; cases h; exact Step.lock s i w g hw hc.1 hc.2.1 hc.2.2
  | hAcquire i =>
    simp only [step?] at h; split at h <;> try contradiction
    rename_i w hw; split at h <;> try contradiction
    rename_i hc; cases h; exact Step.hAcquire s i w hw hc.1 hc.2.1 hc.2.2
  | hRelease i =>
    simp only [step?] at h; split at h <;> try contradiction
    rename_i w hw; split at h <;> try contradiction
    rename_i hc; cases h; exact Step.hRelease s i w hw hc.1 hc.2
  | flushOk j free =>
    simp only [step?] at h; split at h <;> try contradiction
    rename_i l hl; split at h <;> try contradiction
    rename_i m o hp; cases h; exact Step.flushOk s j l m o free hl hp
  | flushFail j =>
    simp only [step?] at h; split at h <;> try contradiction
    rename_i l hl; split at h <;> try contradiction
    rename_i m o hp; cases h; exact Step.flushFail s j l m o hl hp
  | recvAccept i j g =>
    simp only [step?] at h; split at h <;> try contradiction
    rename_i l w hl hw; split at h <;> try contradiction
    rename_i m hp; split at h <;> try contradiction
    rename_i hc; cases h
    exact Step.recvAccept s i j w l m g hl hw hp hc.1 hc.2.1 hc.2.2.1 hc.2.2.2.1 hc.2.2.2.2.1 hc.2.2.2.2.2
  | reply i j =>
    simp only [step?] at h; split at h <;> try contradiction
    rename_i l w hl hw; split at h <;> try contradiction
    rename_i m o hp; split at h <;> try contradiction
    rename_i hc; cases h
    exact Step.reply s i j w l m o hl hw hp hc
  | recvOverflow i j =>
    simp only [step?] at h; split at h <;> try contradiction
    rename_i l w hl hw; split at h <;> try contradiction
    rename_i m hp; split at h <;> try contradiction
    rename_i hc; cases h
    exact Step.recvOverflow s i j w l m hl hw hp hc.1 hc.2.1 hc.2.2.1 hc.2.2.2.1 hc.2.2.2.2.1 hc.2.2.2.2.2
  | mergeDone j =>
    simp only [step?] at h; split at h <;> try contradiction
    rename_i l hl; split at h <;> try contradiction
    rename_i m o hp; cases h; exact Step.mergeDone s j l m o hl hp
  | journalOk j =>
    simp only [step?] at h; split at h <;> try contradiction
    rename_i l hl; split at h <;> try contradiction
    rename_i m o hp; cases h; exact Step.journalOk s j l m o hl hp
  | journalFail j =>
    simp only [step?] at h; split at h <;> try contradiction
    rename_i l hl; split at h <;> try contradiction
    rename_i m o hp; cases h; exact Step.journalFail s j l m o hl hp
  | apply j =>
    simp only [step?] at h; split at h <;> try contradiction
    rename_i l hl; split at h <;> try contradiction
    rename_i m o hp; cases h; exact Step.apply s j l m o hl hp
  | publish j rot =>
    simp only [step?] at h; split at h <;> try contradiction
    rename_i l hl; split at h <;> try contradiction
    rename_i m o hp; split at h <;> try contradiction
    rename_i hrot; cases h; exact Step.publish s j l m o rot hl hp hrot
  | rotateOk j =>
    simp only [step?] at h; split at h <;> try contradiction
    rename_i l hl; split at h <;> try contradiction
    rename_i m o hp; cases h; exact Step.rotateOk s j l m o hl hp
  | rotateFail j =>
    simp only [step?] at h; split at h <;> try contradiction
    rename_i l hl; split at h <;> try contradiction
    rename_i m o hp; cases h; exact Step.rotateFail s j l m o hl hp
  | ack i j =>
    simp only [step?] at h; split at h <;> try contradiction
    rename_i l w hl hw; split at h <;> try contradiction
    rename_i k r m o hp; split at h <;> try contradiction
    rename_i hc; cases h
    exact Step.ack s i j w l k m o r hl hw hp hc
  | handoff i j g =>
    simp only [step?] at h; split at h <;> try contradiction
    rename_i l w hl hw; split at h <;> try contradiction
    rename_i r m hp; split at h <;> try contradiction
    rename_i hc; cases h
    exact Step.handoff s i j w l m r g hl hw hp hc.1 hc.2
  | release j =>
    simp only [step?] at h; split at h <;> try contradiction
    rename_i l hl; split at h <;> try contradiction
    rename_i r m hp; cases h; exact Step.release s j l m r hl hp
  | releaseLost j =>
    simp only [step?] at h; split at h <;> try contradiction
    rename_i l hl; split at h <;> try contradiction
    rename_i r m hp; split at h <;> try contradiction
    rename_i hc; cases h; exact Step.releaseLost s j l m r hl hp hc.1 hc.2

theorem run_sound (s t : St) (as : List Label) (h : run s as = some t) : Steps s t := by
  induction as generalizing s with
  | nil => simp [run] at h; subst h; exact .refl _
  | cons a as ih =>
    simp only [run] at h
    split at h <;> try contradiction
    rename_i u hu
    exact Steps.trans (Steps.single (step?_sound s u a hu)) (ih u h)

/-- the configuration never changes -/
theorem step_cfg (s t : St) (h : Step s t) : t.cfg = s.cfg := by cases h <;> rfl

theorem steps_cfg (s t : St) (h : Steps s t) : t.cfg = s.cfg := by
  induction h with
  | refl => rfl
  | tail _ h ih => rw [step_cfg _ _ h, ih]

end GoLevel.WP
