import GoLevel.Proofs.CacheTableInit
/-! Hash table of the cache (C17), part 4: membership; replacing the content of an initialised bucket; a resize
(pushing a head of uninitialised buckets) keeps every node. -/
namespace GoLevel.CacheT

/-- Node `x` is in the table: in some (virtual) bucket of the newest head. -/
def MemC (hs : List Head) (x : TNode) : Prop :=
  ∃ h ps, hs = h :: ps ∧ ∃ i, i < h.buckets.length ∧ x ∈ vnodes hs i

theorem memC_cons {h : Head} {ps : List Head} {x : TNode} :
    MemC (h :: ps) x ↔ ∃ i, i < h.buckets.length ∧ x ∈ vnodes (h :: ps) i := by
  constructor
  · rintro ⟨h', ps', heq, i, hi, hx⟩
    injection heq with h1 h2; subst h1; subst h2
    exact ⟨i, hi, hx⟩
  · rintro ⟨i, hi, hx⟩; exact ⟨h, ps, rfl, i, hi, hx⟩

/-- A node of the table carries the hash of its key and sits in the bucket that hash selects — the only bucket
it is in. -/
theorem memC_bucket {hashfn : Nat → Nat → Nat} {h : Head} {ps : List Head} (hw : WFChain hashfn (h :: ps))
    {x : TNode} {i : Nat} (hi : i < h.buckets.length) (hx : x ∈ vnodes (h :: ps) i) :
    x.hash = hashfn x.ns x.key ∧ x.hash % h.buckets.length = i :=
  (vnodes_ok hw h ps rfl i hi).2 x hx

theorem equiv_len {hs' hs : List Head} (he : Equiv hs' hs) {h : Head} {ps : List Head} (heq : hs = h :: ps) :
    ∃ h' ps', hs' = h' :: ps' ∧ h'.buckets.length = h.buckets.length ∧ h'.mask = h.mask := by
  obtain ⟨p', rest', h1, h2, h3⟩ := equiv_length_head he heq
  exact ⟨p', rest', h1, h3, h2⟩

theorem memC_equiv {hs' hs : List Head} (he : Equiv hs' hs) (x : TNode) : MemC hs' x ↔ MemC hs x := by
  constructor
  · rintro ⟨h', ps', heq, i, hi, hx⟩
    cases hs with
    | nil => have := he.2; rw [heq] at this; simp at this
    | cons h ps =>
      obtain ⟨h2, ps2, h3, h4, _⟩ := equiv_len he rfl
      rw [heq] at h3; injection h3 with h5 h6; subst h5
      exact ⟨h, ps, rfl, i, by omega, by rw [← he.1 i]; exact hx⟩
  · rintro ⟨h, ps, heq, i, hi, hx⟩
    obtain ⟨h2, ps2, h3, h4, _⟩ := equiv_len he heq
    exact ⟨h2, ps2, h3, i, by omega, by rw [he.1 i]; exact hx⟩

/-! ### Replacing the content of an initialised bucket of the newest head -/

theorem bucket_of_set {h h' : Head} {i : Nat} {b' : Bucket} (hb : h'.buckets = h.buckets.set i b')
    (hi : i < h.buckets.length) (j : Nat) : h'.bucket j = if j = i then b' else h.bucket j := by
  unfold Head.bucket
  rw [hb]
  simp only [List.getD_eq_getElem?_getD, List.getElem?_set]
  by_cases hij : i = j
  · subst hij; simp [hi]
  · have : ¬ j = i := fun h => hij h.symm
    simp [hij, this]

theorem update_ok {hashfn : Nat → Nat → Nat} {h h' : Head} {ps : List Head} {i : Nat} {b' : Bucket}
    (hw : WFChain hashfn (h :: ps)) (hi : i < h.buckets.length) (hm : h'.mask = h.mask)
    (hb : h'.buckets = h.buckets.set i b') (hst : (h.bucket i).state ≠ .uninit) (hst' : b'.state = .init)
    (hok : BucketOK hashfn h.buckets.length i b'.nodes) :
    WFChain hashfn (h' :: ps) ∧ h'.buckets.length = h.buckets.length ∧
    (∀ j, vnodes (h' :: ps) j = if j = i then b'.nodes else vnodes (h :: ps) j) := by
  have hl : h'.buckets.length = h.buckets.length := by rw [hb]; simp
  refine ⟨?_, hl, fun j => ?_⟩
  · apply wf_head hw hm hl
    · intro j hj hstj
      rw [bucket_of_set hb hi] at hstj ⊢
      split
      · rename_i hc; rw [hc]; exact hok
      · rename_i hc; rw [if_neg hc] at hstj; exact hw.2.1 j hj hstj
    · intro j hj
      rw [bucket_of_set hb hi]; split
      · rw [hst']; simp
      · exact hj
  · by_cases hji : j = i
    · subst hji
      rw [if_pos rfl]
      unfold vnodes
      rw [hl, if_neg (by omega), bucket_of_set hb hi, if_pos rfl, hst']
      simp
    · rw [if_neg hji]
      conv => lhs; unfold vnodes
      conv => rhs; unfold vnodes
      rw [hl, hm, bucket_of_set hb hi, if_neg hji]

/-! ### Resize -/

theorem newHead_bucket (n j : Nat) : (newHead n).bucket j = { nodes := [], state := .uninit } := by
  unfold newHead Head.bucket
  simp only [List.getD_eq_getElem?_getD, List.getElem?_replicate]
  split <;> rfl

@[simp] theorem newHead_len (n : Nat) : (newHead n).buckets.length = n := by simp [newHead]

@[simp] theorem newHead_mask (n : Nat) : (newHead n).mask = n - 1 := rfl

theorem headOK_newHead {h : Head} (hk : HeadOK h) {n : Nat}
    (hn : n = 2 * h.buckets.length ∨ h.buckets.length = 2 * n) : HeadOK (newHead n) := by
  obtain ⟨k, h1, _⟩ := hk
  rcases hn with hn | hn
  · exact ⟨k + 1, by simp [hn, h1, Nat.pow_succ, Nat.mul_comm], by simp [hn, h1, Nat.pow_succ, Nat.mul_comm]⟩
  · cases k with
    | zero => simp at h1; omega
    | succ k =>
      have : n = 2 ^ k := by rw [h1, Nat.pow_succ] at hn; omega
      exact ⟨k, by simp [this], by simp [this]⟩

/-- Pushing a head of `n` uninitialised buckets (`n` = twice or half the current size) keeps the chain
well-formed and keeps every node. -/
theorem push_ok {hashfn : Nat → Nat → Nat} {h : Head} {ps : List Head} (hw : WFChain hashfn (h :: ps)) {n : Nat}
    (hn : n = 2 * h.buckets.length ∨ h.buckets.length = 2 * n) :
    WFChain hashfn (newHead n :: h :: ps) ∧ ∀ x, MemC (newHead n :: h :: ps) x ↔ MemC (h :: ps) x := by
  have hok := headOK_newHead hw.headOK hn
  have hwn : WFChain hashfn (newHead n :: h :: ps) := by
    refine ⟨hok, fun i _ hst => ?_, ?_, hw⟩
    · rw [newHead_bucket] at hst; simp at hst
    · simp only [newHead_len]; exact hn
  refine ⟨hwn, fun x => ?_⟩
  have hpos := hw.headOK.pos
  have hnpos := hok.pos
  simp only [newHead_len] at hnpos
  rw [memC_cons, memC_cons]
  simp only [newHead_len]
  by_cases hg : (newHead n).mask > h.mask
  · -- grow
    have hlen : n = 2 * h.buckets.length := by simpa using (mask_gt_iff hwn).mp hg
    constructor
    · rintro ⟨i, hi, hx⟩
      rw [vnodes_uninit_grow (by simpa using hi) (by rw [newHead_bucket]) hg, List.mem_filter] at hx
      exact ⟨i &&& h.mask, by rw [land_mask hw.headOK]; exact Nat.mod_lt _ hpos, hx.1⟩
    · rintro ⟨j, hj, hx⟩
      have hb := memC_bucket hw hj hx
      refine ⟨x.hash % n, Nat.mod_lt _ hnpos, ?_⟩
      rw [vnodes_uninit_grow (by simpa using Nat.mod_lt _ hnpos) (by rw [newHead_bucket]) hg, List.mem_filter]
      have h1 : x.hash % n % h.buckets.length = j := by
        rw [hlen, Nat.mod_mod_of_dvd _ (Nat.dvd_mul_left _ 2)]; exact hb.2
      constructor
      · rw [land_mask hw.headOK, h1]; exact hx
      · rw [land_mask hok]; simp
  · -- shrink
    have hlen : h.buckets.length = 2 * n := by
      have hne := mt (mask_gt_iff hwn).mpr hg
      simp only [newHead_len] at hne
      omega
    constructor
    · rintro ⟨i, hi, hx⟩
      rw [vnodes_uninit_shrink (by simpa using hi) (by rw [newHead_bucket]) hg, mem_sortNodes,
        List.mem_append] at hx
      simp only [newHead_len] at hx
      rcases hx with hx | hx
      · exact ⟨i, by omega, hx⟩
      · exact ⟨i + n, by omega, hx⟩
    · rintro ⟨j, hj, hx⟩
      by_cases hjn : j < n
      · refine ⟨j, hjn, ?_⟩
        rw [vnodes_uninit_shrink (by simpa using hjn) (by rw [newHead_bucket]) hg, mem_sortNodes,
          List.mem_append]
        exact Or.inl hx
      · refine ⟨j - n, by omega, ?_⟩
        rw [vnodes_uninit_shrink (by simp; omega) (by rw [newHead_bucket]) hg, mem_sortNodes,
          List.mem_append]
        simp only [newHead_len]
        right
        have : j - n + n = j := by omega
        rw [this]; exact hx

end GoLevel.CacheT
