import GoLevel.Proofs.MemArrBasic
/-! The search loops over `nodeData` (`findGE`, `findLT`, `findLast` of `Model/MemArr.lean`) simulate the searches
of the ideal skip list: following next pointers = walking the ideal level (C14).  No ordering argument is needed
here — the loops are compared step by step with `MemDB.findGEFrom`/`findLTFrom`/`findLastFrom`; the fuel
`nodeData.size` suffices because every iteration either advances on a level or leaves it. -/
set_option linter.unusedSectionVars false
set_option linter.unusedSimpArgs false
set_option linter.unusedVariables false
namespace GoLevel.MemArr
open GoLevel.Gen (nKV nKey nVal nHeight nNext tMaxHeight)
open GoLevel.MemDB (Node Found walkGE walkLT walkLast isEq findGEFrom findLTFrom findLastFrom EntryOn)

variable {cmp : Cmp}

/-- iterations the loops need for the levels `T`: one per node plus one to leave each level -/
def lvlFuel (T : List (List Bytes)) : Nat := (T.map (·.length + 1)).sum

theorem lvlFuel_eq (T : List (List Bytes)) : lvlFuel T = (T.map List.length).sum + T.length := by
  induction T with
  | nil => simp [lvlFuel]
  | cons l ls ih => simp only [lvlFuel, List.map_cons, List.sum_cons, List.length_cons] at ih ⊢; omega

theorem lvlFuel_take_succ (L : List (List Bytes)) (h : Nat) (hh : h < L.length) :
    lvlFuel (L.take (h + 1)) = lvlFuel (L.take h) + (L[h].length + 1) := by
  unfold lvlFuel
  rw [List.take_succ_eq_append_getElem hh, List.map_append, List.sum_append]
  simp

theorem take_succ_reverse (L : List (List Bytes)) (h : Nat) (hh : h < L.length) :
    (L.take (h + 1)).reverse = L[h] :: (L.take h).reverse := by
  rw [List.take_succ_eq_append_getElem hh]; simp

theorem after_length_le (l : List Bytes) (e : Node) : (MemDB.after l e).length ≤ l.length := by
  cases e with
  | none => simp [MemDB.after]
  | some k =>
    simp only [MemDB.after, List.length_drop]
    have := (List.dropWhile_sublist (fun x => x != k) (l := l)).length_le
    omega

theorem after_subset (l : List Bytes) (e : Node) : ∀ x ∈ MemDB.after l e, x ∈ l := by
  intro x hx
  cases e with
  | none => simpa [MemDB.after] using hx
  | some k =>
    simp only [MemDB.after] at hx
    exact (List.dropWhile_sublist _).subset ((List.drop_sublist _ _).subset hx)

/-- the chain a level presents to a node that lies on it (or to the head) -/
theorem Links.chain_from {a : DB} {L : List (List Bytes)} {ix : Bytes → Nat} (lk : Links a L ix)
    {h : Nat} (hh : h < L.length) {e : Node} (he : EntryOn L[h] e) :
    Chain a.nodeData ix h 0 (nix ix e) (MemDB.after L[h] e) := by
  rcases he with rfl | ⟨k, rfl, hk⟩
  · exact lk.chain h hh
  · exact (lk.chain h hh).after hk

theorem Links.entry_down {a : DB} {L : List (List Bytes)} {ix : Bytes → Nat} (lk : Links a L ix)
    {h : Nat} (hh : h + 1 < L.length) {e : Node} (he : EntryOn L[h + 1] e) : EntryOn L[h] e := by
  rcases he with rfl | ⟨k, rfl, hk⟩
  · exact .inl rfl
  · exact .inr ⟨k, rfl, lk.down h hh k hk⟩

/-! ## `findGE` -/

/-- the rest of one round of the ideal `findGEFrom` once the walk along the level has stopped at `w` -/
def contGE (cmp : Cmp) (key : Bytes) (prev : Bool) (lower : List (List Bytes)) (w : Node × Node)
    (acc : List Node) : Found :=
  let eq := isEq cmp key w.2
  let acc' := if prev then w.1 :: acc else acc
  if !prev && eq then ⟨w.2, true, acc'⟩
  else if lower.isEmpty then ⟨w.2, eq, acc'⟩
  else findGEFrom cmp key prev lower w.1 acc'

theorem findGEFrom_cons (key : Bytes) (prev : Bool) (lvl : List Bytes) (lower : List (List Bytes)) (node : Node)
    (acc : List Node) :
    findGEFrom cmp key prev (lvl :: lower) node acc =
      contGE cmp key prev lower (walkGE cmp key (MemDB.after lvl node) node) acc := rfl

/-- `findGE(key, true)` prepends one entry per level to the path -/
theorem findGEFrom_prev_struct (key : Bytes) : ∀ (T : List (List Bytes)) (e : Node) (acc : List Node),
    ∃ news, (findGEFrom cmp key true T e acc).prev = news ++ acc ∧ news.length = T.length := by
  intro T
  induction T with
  | nil => intro e acc; exact ⟨[], by simp [findGEFrom]⟩
  | cons lvl lower ih =>
    intro e acc
    rw [findGEFrom_cons]
    unfold contGE
    simp only [Bool.not_true, Bool.false_and, Bool.false_eq_true, if_false, if_true]
    by_cases hl : lower.isEmpty = true
    · have : lower = [] := by simpa using hl
      subst this
      exact ⟨[(walkGE cmp key (MemDB.after lvl e) e).1], by simp⟩
    · simp only [hl, Bool.false_eq_true, if_false]
      obtain ⟨news, h1, h2⟩ := ih (walkGE cmp key (MemDB.after lvl e) e).1
        ((walkGE cmp key (MemDB.after lvl e) e).1 :: acc)
      exact ⟨news ++ [(walkGE cmp key (MemDB.after lvl e) e).1], by rw [h1]; simp, by simp [h2]⟩

/-- the part of the loop body of `findGE` that runs when `cmp >= 0` -/
def geStop (cmp : Cmp) (a : DB) (key : Bytes) (prev : Bool) (fuel node h : Nat) (pn : List Nat) (next : Nat)
    (c : Ordering) : Option (Nat × Bool × List Nat) := do
  let pn' ← if prev then setAt pn h node else some pn
  if !prev && c == .eq then some (next, true, pn')
  else if h = 0 then some (next, c == .eq, pn')
  else findGELoop cmp a key prev fuel node (h - 1) pn'

theorem findGELoop_succ (a : DB) (key : Bytes) (prev : Bool) (fuel node h : Nat) (pn : List Nat) :
    findGELoop cmp a key prev (fuel + 1) node h pn = (do
      let next ← a.nodeData[node + nNext + h]?
      let c ← if next != 0 then (a.nodeKey next).map (cmp · key) else some Ordering.gt
      if c = .lt then findGELoop cmp a key prev fuel next h pn
      else geStop cmp a key prev fuel node h pn next c) := rfl

/-- what a run of the `findGE` loop from level `h` delivers, compared with the ideal result `F`: the same node, the
same `exact`; `prevNode` untouched when `prev` is false, otherwise its entries `0..h` are the ideal path and the
entries above `h` are untouched -/
def GEPost (ix : Bytes → Nat) (F : Found) (prev : Bool) (h : Nat) (pn : List Nat)
    (r : Option (Nat × Bool × List Nat)) : Prop :=
  ∃ pn', r = some (nix ix F.node, F.exact, pn') ∧ pn'.length = pn.length ∧ (prev = false → pn' = pn) ∧
    (prev = true → (∀ j, h < j → pn'[j]? = pn[j]?) ∧
      ∀ j, j ≤ h → pn'[j]? = some (nix ix (F.prev[j]?.getD none)))

section
variable {a : DB} {L : List (List Bytes)} {ix : Bytes → Nat}

theorem stop_sim (key : Bytes) (prev : Bool) (h : Nat) (hh : h < L.length)
    (low : h ≠ 0 → ∀ (e : Node) (acc : List Node) (pn : List Nat) (fuel : Nat), EntryOn L[h] e →
      h - 1 < pn.length → lvlFuel (L.take h) ≤ fuel →
      GEPost ix (findGEFrom cmp key prev (L.take h).reverse e acc) prev (h - 1) pn
        (findGELoop cmp a key prev fuel (nix ix e) (h - 1) pn))
    (e w2 : Node) (ord : Ordering) (hord : (ord == .eq) = isEq cmp key w2) (acc : List Node) (pn : List Nat)
    (fuel : Nat) (he : EntryOn L[h] e) (hpn : h < pn.length) (hf : lvlFuel (L.take h) ≤ fuel) :
    GEPost ix (contGE cmp key prev (L.take h).reverse (e, w2) acc) prev h pn
      (geStop cmp a key prev fuel (nix ix e) h pn (nix ix w2) ord) := by
  have hemp : (L.take h).reverse.isEmpty = decide (h = 0) := by
    have hl : (L.take h).reverse.length = h := by simp; omega
    cases h with
    | zero => simp
    | succ n =>
      cases hr : (L.take (n + 1)).reverse with
      | nil => rw [hr] at hl; simp at hl
      | cons x xs => simp
  unfold contGE geStop
  cases prev with
  | false =>
    simp only [Bool.not_false, Bool.true_and, Bool.false_eq_true, if_false, Option.bind_some, Option.pure_def,
      Option.bind_eq_bind, hord, hemp]
    by_cases heq : isEq cmp key w2 = true
    · simp only [heq, if_true]
      exact ⟨pn, rfl, rfl, fun _ => rfl, fun hp => absurd hp (by simp)⟩
    · simp only [heq, if_false, Bool.false_eq_true]
      by_cases h0 : h = 0
      · simp only [h0, decide_true, if_true]
        refine ⟨pn, ?_, rfl, fun _ => rfl, fun hp => absurd hp (by simp)⟩
        simp [heq]
      · simp only [h0, decide_false, Bool.false_eq_true, if_false]
        obtain ⟨pn', h1, h2, h3, _⟩ := low h0 e acc pn fuel he (by omega) hf
        exact ⟨pn', h1, h2, h3, fun hp => absurd hp (by simp)⟩
  | true =>
    simp only [Bool.not_true, Bool.false_and, Bool.false_eq_true, if_false, if_true, setAt_some _ hpn,
      Option.bind_some, Option.pure_def, Option.bind_eq_bind, hord, hemp]
    by_cases h0 : h = 0
    · subst h0
      simp only [decide_true, if_true]
      refine ⟨pn.set 0 (nix ix e), rfl, by simp, fun hp => absurd hp (by simp), fun _ => ⟨?_, ?_⟩⟩
      · intro j hj; rw [List.getElem?_set_ne (by omega)]
      · intro j hj
        have : j = 0 := by omega
        subst this
        simp [List.getElem?_set, hpn]
    · simp only [h0, decide_false, Bool.false_eq_true, if_false]
      obtain ⟨pn', h1, h2, _, h4⟩ := low h0 e (e :: acc) (pn.set h (nix ix e)) fuel he (by simp; omega) hf
      obtain ⟨h4a, h4b⟩ := h4 rfl
      refine ⟨pn', h1, by simpa using h2, fun hp => absurd hp (by simp), fun _ => ⟨?_, ?_⟩⟩
      · intro j hj
        rw [h4a j (by omega), List.getElem?_set_ne (by omega)]
      · intro j hj
        by_cases hjh : j = h
        · subst hjh
          rw [h4a j (by omega)]
          obtain ⟨news, hn1, hn2⟩ := findGEFrom_prev_struct (cmp := cmp) key (L.take j).reverse e (e :: acc)
          have hnl : news.length = j := by rw [hn2]; simp; omega
          rw [hn1, List.getElem?_append_right (by omega), hnl]
          simp [List.getElem?_set, hpn]
        · exact h4b j (by omega)

theorem level_sim (lk : Links a L ix) (key : Bytes) (prev : Bool) (h : Nat) (hh : h < L.length)
    (low : h ≠ 0 → ∀ (e : Node) (acc : List Node) (pn : List Nat) (fuel : Nat), EntryOn L[h] e →
      h - 1 < pn.length → lvlFuel (L.take h) ≤ fuel →
      GEPost ix (findGEFrom cmp key prev (L.take h).reverse e acc) prev (h - 1) pn
        (findGELoop cmp a key prev fuel (nix ix e) (h - 1) pn)) :
    ∀ (c : List Bytes) (e : Node) (acc : List Node) (pn : List Nat) (fuel : Nat),
      Chain a.nodeData ix h 0 (nix ix e) c → (∀ x ∈ c, x ∈ L[h]) → EntryOn L[h] e → h < pn.length →
      c.length + 1 + lvlFuel (L.take h) ≤ fuel →
      GEPost ix (contGE cmp key prev (L.take h).reverse (walkGE cmp key c e) acc) prev h pn
        (findGELoop cmp a key prev fuel (nix ix e) h pn) := by
  intro c
  induction c with
  | nil =>
    intro e acc pn fuel hc hsub he hpn hf
    obtain ⟨fuel, rfl⟩ : ∃ f, fuel = f + 1 := ⟨fuel - 1, by omega⟩
    have hnext : a.nodeData[nix ix e + nNext + h]? = some 0 := hc
    rw [findGELoop_succ]
    simp only [hnext, Option.bind_some, Option.bind_eq_bind, bne_self_eq_false, Bool.false_eq_true, if_false,
      reduceCtorEq, walkGE]
    have := stop_sim (cmp := cmp) (a := a) (ix := ix) key prev h hh low e none .gt (by simp [isEq]) acc pn fuel he hpn
      (by omega)
    simpa using this
  | cons x xs ih =>
    intro e acc pn fuel hc hsub he hpn hf
    obtain ⟨fuel, rfl⟩ : ∃ f, fuel = f + 1 := ⟨fuel - 1, by omega⟩
    have hx := lk.key h hh x (hsub x (by simp))
    have hne : (ix x != 0) = true := by simpa using hx.1
    rw [findGELoop_succ]
    simp only [hc.1, Option.bind_some, Option.bind_eq_bind, hne, if_true, hx.2, Option.map_some]
    by_cases hlt : cmp x key = .lt
    · simp only [hlt, if_true, walkGE]
      have := ih (some x) acc pn fuel hc.2 (fun y hy => hsub y (by simp [hy])) (.inr ⟨x, rfl, hsub x (by simp)⟩) hpn
        (by simp only [List.length_cons] at hf; omega)
      simpa using this
    · simp only [hlt, if_false, walkGE]
      have := stop_sim (cmp := cmp) (a := a) (ix := ix) key prev h hh low e (some x) (cmp x key) (by simp [isEq])
        acc pn fuel he hpn (by simp only [List.length_cons] at hf; omega)
      simpa using this

/-- the `findGE` loop entered on level `h` at a node of that level -/
theorem findGELoop_sim (lk : Links a L ix) (key : Bytes) (prev : Bool) :
    ∀ (h : Nat) (hh : h < L.length) (e : Node) (acc : List Node) (pn : List Nat) (fuel : Nat),
      EntryOn L[h] e → h < pn.length → lvlFuel (L.take (h + 1)) ≤ fuel →
      GEPost ix (findGEFrom cmp key prev (L.take (h + 1)).reverse e acc) prev h pn
        (findGELoop cmp a key prev fuel (nix ix e) h pn) := by
  intro h
  induction h with
  | zero =>
    intro hh e acc pn fuel he hpn hf
    rw [take_succ_reverse L 0 hh, findGEFrom_cons]
    rw [lvlFuel_take_succ L 0 hh] at hf
    have hal := after_length_le L[0] e
    exact level_sim lk key prev 0 hh (fun h0 => absurd rfl h0) _ e acc pn fuel (lk.chain_from hh he)
      (after_subset _ _) he hpn (by omega)
  | succ n ih =>
    intro hh e acc pn fuel he hpn hf
    rw [take_succ_reverse L (n + 1) hh, findGEFrom_cons]
    rw [lvlFuel_take_succ L (n + 1) hh] at hf
    have hal := after_length_le L[n + 1] e
    refine level_sim lk key prev (n + 1) hh ?_ _ e acc pn fuel (lk.chain_from hh he)
      (after_subset _ _) he hpn (by omega)
    intro _ e' acc' pn' fuel' he' hpn' hf'
    exact ih (by omega) e' acc' pn' fuel' (lk.entry_down hh he') hpn' hf'

/-! ## `findLT` -/

theorem findLTLoop_succ (a : DB) (key : Bytes) (fuel node h : Nat) :
    findLTLoop cmp a key (fuel + 1) node h = (do
      let next ← a.nodeData[node + nNext + h]?
      let o ← a.nodeData[next]?
      let stop ← if next = 0 then some true else do
        let kl ← a.nodeData[next + nKey]?
        let k ← slice a.kvData o (o + kl)
        some (cmp k key != .lt)
      if stop then
        if h = 0 then some node else findLTLoop cmp a key fuel node (h - 1)
      else findLTLoop cmp a key fuel next h) := rfl

theorem nodeKey_parts {a : DB} {n : Nat} {k : Bytes} (h : a.nodeKey n = some k) :
    ∃ o kl, a.nodeData[n]? = some o ∧ a.nodeData[n + nKey]? = some kl ∧ slice a.kvData o (o + kl) = some k := by
  unfold DB.nodeKey at h
  simp only [Option.bind_eq_bind, Option.bind_eq_some_iff] at h
  obtain ⟨o, h1, kl, h2, h3⟩ := h
  exact ⟨o, kl, h1, h2, h3⟩

theorem getElem?_zero_of_some {nd : Array Nat} {i v : Nat} (h : nd[i]? = some v) : ∃ w, nd[0]? = some w := by
  have hi : i < nd.size := by
    by_cases hi : i < nd.size
    · exact hi
    · rw [Array.getElem?_eq_none (by omega)] at h; exact absurd h (by simp)
  exact ⟨nd[0]'(by omega), Array.getElem?_eq_getElem (by omega)⟩

theorem levelLT_sim (lk : Links a L ix) (key : Bytes) (h : Nat) (hh : h < L.length)
    (low : h ≠ 0 → ∀ (e : Node) (fuel : Nat), EntryOn L[h] e → lvlFuel (L.take h) ≤ fuel →
      findLTLoop cmp a key fuel (nix ix e) (h - 1) = some (nix ix (findLTFrom cmp key (L.take h).reverse e))) :
    ∀ (c : List Bytes) (e : Node) (fuel : Nat),
      Chain a.nodeData ix h 0 (nix ix e) c → (∀ x ∈ c, x ∈ L[h]) → EntryOn L[h] e →
      c.length + 1 + lvlFuel (L.take h) ≤ fuel →
      findLTLoop cmp a key fuel (nix ix e) h =
        some (nix ix (findLTFrom cmp key (L.take h).reverse (walkLT cmp key c e))) := by
  have hstop : ∀ (e : Node) (fuel : Nat), EntryOn L[h] e → lvlFuel (L.take h) ≤ fuel →
      (if h = 0 then some (nix ix e) else findLTLoop cmp a key fuel (nix ix e) (h - 1)) =
        some (nix ix (findLTFrom cmp key (L.take h).reverse e)) := by
    intro e fuel he hf
    by_cases h0 : h = 0
    · subst h0; simp [findLTFrom]
    · simp only [h0, if_false]; exact low h0 e fuel he hf
  intro c
  induction c with
  | nil =>
    intro e fuel hc hsub he hf
    obtain ⟨fuel, rfl⟩ : ∃ f, fuel = f + 1 := ⟨fuel - 1, by omega⟩
    have hnext : a.nodeData[nix ix e + nNext + h]? = some 0 := hc
    obtain ⟨w, hw⟩ := getElem?_zero_of_some hnext
    rw [findLTLoop_succ]
    simp only [hnext, hw, Option.bind_some, Option.bind_eq_bind, if_true, walkLT]
    exact hstop e fuel he (by omega)
  | cons x xs ih =>
    intro e fuel hc hsub he hf
    obtain ⟨fuel, rfl⟩ : ∃ f, fuel = f + 1 := ⟨fuel - 1, by omega⟩
    have hx := lk.key h hh x (hsub x (by simp))
    obtain ⟨o, kl, h1, h2, h3⟩ := nodeKey_parts hx.2
    rw [findLTLoop_succ]
    simp only [hc.1, h1, h2, h3, Option.bind_some, Option.bind_eq_bind, hx.1, if_false]
    by_cases hlt : cmp x key = .lt
    · simp only [hlt, walkLT, if_true, bne_self_eq_false, Bool.false_eq_true, if_false]
      exact ih (some x) fuel hc.2 (fun y hy => hsub y (by simp [hy])) (.inr ⟨x, rfl, hsub x (by simp)⟩)
        (by simp only [List.length_cons] at hf; omega)
    · have hb : (cmp x key != .lt) = true := by simpa using hlt
      simp only [hlt, walkLT, if_false, hb, if_true]
      exact hstop e fuel he (by simp only [List.length_cons] at hf; omega)

theorem findLTFrom_cons (key : Bytes) (lvl : List Bytes) (lower : List (List Bytes)) (node : Node) :
    findLTFrom cmp key (lvl :: lower) node = findLTFrom cmp key lower (walkLT cmp key (MemDB.after lvl node) node) :=
  rfl

theorem findLTLoop_sim (lk : Links a L ix) (key : Bytes) :
    ∀ (h : Nat) (hh : h < L.length) (e : Node) (fuel : Nat),
      EntryOn L[h] e → lvlFuel (L.take (h + 1)) ≤ fuel →
      findLTLoop cmp a key fuel (nix ix e) h = some (nix ix (findLTFrom cmp key (L.take (h + 1)).reverse e)) := by
  intro h
  induction h with
  | zero =>
    intro hh e fuel he hf
    rw [take_succ_reverse L 0 hh, findLTFrom_cons]
    rw [lvlFuel_take_succ L 0 hh] at hf
    have hal := after_length_le L[0] e
    exact levelLT_sim lk key 0 hh (fun h0 => absurd rfl h0) _ e fuel (lk.chain_from hh he)
      (after_subset _ _) he (by omega)
  | succ n ih =>
    intro hh e fuel he hf
    rw [take_succ_reverse L (n + 1) hh, findLTFrom_cons]
    rw [lvlFuel_take_succ L (n + 1) hh] at hf
    have hal := after_length_le L[n + 1] e
    refine levelLT_sim lk key (n + 1) hh ?_ _ e fuel (lk.chain_from hh he) (after_subset _ _) he (by omega)
    intro _ e' fuel' he' hf'
    exact ih (by omega) e' fuel' (lk.entry_down hh he') hf'

/-! ## `findLast` -/

theorem findLastLoop_succ (a : DB) (fuel node h : Nat) :
    findLastLoop a (fuel + 1) node h = (do
      let next ← a.nodeData[node + nNext + h]?
      if next = 0 then
        if h = 0 then some node else findLastLoop a fuel node (h - 1)
      else findLastLoop a fuel next h) := rfl

theorem levelLast_sim (lk : Links a L ix) (h : Nat) (hh : h < L.length)
    (low : h ≠ 0 → ∀ (e : Node) (fuel : Nat), EntryOn L[h] e → lvlFuel (L.take h) ≤ fuel →
      findLastLoop a fuel (nix ix e) (h - 1) = some (nix ix (findLastFrom (L.take h).reverse e))) :
    ∀ (c : List Bytes) (e : Node) (fuel : Nat),
      Chain a.nodeData ix h 0 (nix ix e) c → (∀ x ∈ c, x ∈ L[h]) → EntryOn L[h] e →
      c.length + 1 + lvlFuel (L.take h) ≤ fuel →
      findLastLoop a fuel (nix ix e) h = some (nix ix (findLastFrom (L.take h).reverse (walkLast c e))) := by
  intro c
  induction c with
  | nil =>
    intro e fuel hc hsub he hf
    obtain ⟨fuel, rfl⟩ : ∃ f, fuel = f + 1 := ⟨fuel - 1, by omega⟩
    have hnext : a.nodeData[nix ix e + nNext + h]? = some 0 := hc
    rw [findLastLoop_succ]
    simp only [hnext, Option.bind_some, Option.bind_eq_bind, if_true, walkLast]
    by_cases h0 : h = 0
    · subst h0; simp [findLastFrom]
    · simp only [h0, if_false]; exact low h0 e fuel he (by omega)
  | cons x xs ih =>
    intro e fuel hc hsub he hf
    obtain ⟨fuel, rfl⟩ : ∃ f, fuel = f + 1 := ⟨fuel - 1, by omega⟩
    have hx := lk.key h hh x (hsub x (by simp))
    rw [findLastLoop_succ]
    simp only [hc.1, Option.bind_some, Option.bind_eq_bind, hx.1, if_false, walkLast]
    exact ih (some x) fuel hc.2 (fun y hy => hsub y (by simp [hy])) (.inr ⟨x, rfl, hsub x (by simp)⟩)
      (by simp only [List.length_cons] at hf; omega)

theorem findLastFrom_cons (lvl : List Bytes) (lower : List (List Bytes)) (node : Node) :
    findLastFrom (lvl :: lower) node = findLastFrom lower (walkLast (MemDB.after lvl node) node) := rfl

theorem findLastLoop_sim (lk : Links a L ix) :
    ∀ (h : Nat) (hh : h < L.length) (e : Node) (fuel : Nat),
      EntryOn L[h] e → lvlFuel (L.take (h + 1)) ≤ fuel →
      findLastLoop a fuel (nix ix e) h = some (nix ix (findLastFrom (L.take (h + 1)).reverse e)) := by
  intro h
  induction h with
  | zero =>
    intro hh e fuel he hf
    rw [take_succ_reverse L 0 hh, findLastFrom_cons]
    rw [lvlFuel_take_succ L 0 hh] at hf
    have hal := after_length_le L[0] e
    exact levelLast_sim lk 0 hh (fun h0 => absurd rfl h0) _ e fuel (lk.chain_from hh he)
      (after_subset _ _) he (by omega)
  | succ n ih =>
    intro hh e fuel he hf
    rw [take_succ_reverse L (n + 1) hh, findLastFrom_cons]
    rw [lvlFuel_take_succ L (n + 1) hh] at hf
    have hal := after_length_le L[n + 1] e
    refine levelLast_sim lk (n + 1) hh ?_ _ e fuel (lk.chain_from hh he) (after_subset _ _) he (by omega)
    intro _ e' fuel' he' hf'
    exact ih (by omega) e' fuel' (lk.entry_down hh he') hf'

end

/-! ## the public searches on a represented table -/

section
variable {a : DB} {d : MemDB.DB} {ix : Bytes → Nat}

/-- the fuel bound: `nodeData.size` iterations are enough for any search -/
theorem Rep.fuel_ok (r : Rep cmp a d ix) : lvlFuel d.levels ≤ a.nodeData.size := by
  have h1 := r.fuel
  have h2 := r.inv.height
  rw [lvlFuel_eq]
  have h4 := nNext_eq
  omega

theorem Rep.mh_pos (r : Rep cmp a d ix) : 1 ≤ a.maxHeight := by
  rw [r.mh]
  have := r.inv.ne
  cases hl : d.levels with
  | nil => exact absurd hl this
  | cons x xs => simp

theorem Rep.take_all (r : Rep cmp a d ix) : d.levels.take (a.maxHeight - 1 + 1) = d.levels := by
  have := r.mh_pos
  rw [Nat.sub_add_cancel this, r.mh, List.take_length]

/-- `findGE` on the arrays returns the index of the node the ideal `findGE` returns, the same `exact`, and (when
`prev`) leaves the ideal path in `prevNode[0 .. maxHeight)` -/
theorem findGE_sim (r : Rep cmp a d ix) (key : Bytes) (prev : Bool) :
    GEPost ix (MemDB.findGE cmp d key prev) prev (a.maxHeight - 1) a.prevNode (findGE cmp a key prev) := by
  have hpos := r.mh_pos
  have hh : a.maxHeight - 1 < d.levels.length := by rw [← r.mh]; omega
  have := findGELoop_sim (cmp := cmp) r.links key prev (a.maxHeight - 1) hh none [] a.prevNode a.nodeData.size
    (.inl rfl) (by rw [r.pn]; have := r.inv.height; rw [← r.mh] at this; omega)
    (by rw [r.take_all]; exact r.fuel_ok)
  rw [r.take_all] at this
  exact this

theorem findLT_sim (r : Rep cmp a d ix) (key : Bytes) :
    findLT cmp a key = some (nix ix (MemDB.findLT cmp d key)) := by
  have hpos := r.mh_pos
  have hh : a.maxHeight - 1 < d.levels.length := by rw [← r.mh]; omega
  have := findLTLoop_sim (cmp := cmp) r.links key (a.maxHeight - 1) hh none a.nodeData.size
    (.inl rfl) (by rw [r.take_all]; exact r.fuel_ok)
  rw [r.take_all] at this
  exact this

theorem findLast_sim (r : Rep cmp a d ix) : findLast a = some (nix ix (MemDB.findLast d)) := by
  have hpos := r.mh_pos
  have hh : a.maxHeight - 1 < d.levels.length := by rw [← r.mh]; omega
  have := findLastLoop_sim r.links (a.maxHeight - 1) hh none a.nodeData.size
    (.inl rfl) (by rw [r.take_all]; exact r.fuel_ok)
  rw [r.take_all] at this
  exact this

end

end GoLevel.MemArr
