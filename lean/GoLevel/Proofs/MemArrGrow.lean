import GoLevel.Model.MemArr
/-! `kvData` is append-only: every operation except `Reset` leaves the old bytes where they are (C14). -/
set_option linter.unusedSectionVars false
set_option linter.unusedSimpArgs false
set_option linter.unusedVariables false
namespace GoLevel.MemArr
open GoLevel.MemDB (Op Ans)

variable {cmp : Cmp}

theorem putOverwrite_kv {p p' : DB} {node : Nat} {key value : Bytes} (h : putOverwrite p node key value = some p') :
    p'.kvData = p.kvData ++ key.toArray ++ value.toArray := by
  unfold putOverwrite at h
  simp only [Option.bind_eq_bind, Option.bind_eq_some_iff] at h
  obtain ⟨_, _, _, _, _, _, e⟩ := h
  rw [← Option.some.inj e]

theorem putInsert_kv {p p' : DB} {key value : Bytes} {h : Nat} (e : putInsert p key value h = some p') :
    p'.kvData = p.kvData ++ key.toArray ++ value.toArray := by
  unfold putInsert at e
  split at e
  all_goals
    simp only [Option.bind_eq_bind, Option.bind_eq_some_iff] at e
    obtain ⟨x, _, e⟩ := e
    split at e
    · exact absurd e (by simp)
    · simp only [Option.bind_eq_some_iff] at e
      obtain ⟨_, _, e⟩ := e
      rw [← Option.some.inj e]

theorem put_kv {p p' : DB} {key value : Bytes} {h : Nat} (e : put cmp p key value h = some p') :
    p'.kvData = p.kvData ++ key.toArray ++ value.toArray := by
  unfold put at e
  simp only [Option.bind_eq_bind, Option.bind_eq_some_iff] at e
  obtain ⟨x, _, e⟩ := e
  split at e
  · have := putOverwrite_kv e; exact this
  · have := putInsert_kv e; exact this

theorem delete_kv {p p' : DB} {key : Bytes} {b : Bool} (e : delete cmp p key = some (p', b)) :
    p'.kvData = p.kvData := by
  unfold delete at e
  simp only [Option.bind_eq_bind, Option.bind_eq_some_iff] at e
  obtain ⟨x, _, e⟩ := e
  split at e
  · have := Option.some.inj e
    rw [← (Prod.mk.inj this).1]
  · simp only [Option.bind_eq_some_iff] at e
    obtain ⟨_, _, e⟩ := e
    split at e
    · exact absurd e (by simp)
    · simp only [Option.bind_eq_some_iff] at e
      obtain ⟨_, _, _, _, _, _, e⟩ := e
      have := Option.some.inj e
      rw [← (Prod.mk.inj this).1]

/-- every operation but `Reset` only appends to `kvData` (`Put` appends key and value — also when it overwrites —,
everything else appends nothing: `Delete` reclaims nothing) -/
theorem step_kvData_grows {p p' : DB} {op : Op} {ans : Ans} (hop : op ≠ .reset) (e : step cmp p op = some (p', ans)) :
    ∃ ext : Array UInt8, p'.kvData = p.kvData ++ ext := by
  cases op with
  | put k v h =>
    simp only [step, Option.map_eq_some_iff] at e
    obtain ⟨q, e, he⟩ := e
    have := (Prod.mk.inj he).1; subst this
    exact ⟨k.toArray ++ v.toArray, by rw [put_kv e, Array.append_assoc]⟩
  | delete k =>
    simp only [step, Option.map_eq_some_iff] at e
    obtain ⟨q, e, he⟩ := e
    have := (Prod.mk.inj he).1; subst this
    exact ⟨#[], by rw [delete_kv (b := q.2) (by exact e)]; simp⟩
  | reset => exact absurd rfl hop
  | get k =>
    simp only [step, Option.map_eq_some_iff] at e
    obtain ⟨q, _, he⟩ := e
    rw [← (Prod.mk.inj he).1]; exact ⟨#[], by simp⟩
  | find k =>
    simp only [step, Option.map_eq_some_iff] at e
    obtain ⟨q, _, he⟩ := e
    rw [← (Prod.mk.inj he).1]; exact ⟨#[], by simp⟩
  | contains k =>
    simp only [step, Option.map_eq_some_iff] at e
    obtain ⟨q, _, he⟩ := e
    rw [← (Prod.mk.inj he).1]; exact ⟨#[], by simp⟩
  | len =>
    simp only [step, Option.some.injEq] at e
    rw [← (Prod.mk.inj e).1]; exact ⟨#[], by simp⟩
  | size =>
    simp only [step, Option.some.injEq] at e
    rw [← (Prod.mk.inj e).1]; exact ⟨#[], by simp⟩

end GoLevel.MemArr
