import GoLevel.Proofs.DurableStepJ6
/-!
Job steps, part 7: `rotSetMeta` (the commit of a rotation) and `rotRemove`.
-/
namespace GoLevel.Dur

theorem inv_job_rotSetMeta {cfg : Cfg} (hg : cfg.Good) {s : St} {d : Disk} (h : Inv cfg s d) {j : Job}
    (hj : s.job = some j) {m : Nat} (hpc : j.pc = .rotSetMeta m) {rot : Bool}
    {s' : St} {d' : Disk} (hs : stepJob cfg s d j rot .ok = some (s', d')) : Inv cfg s' d' := by
  have hok := h.job
  rw [hj] at hok
  have hok : JobOK cfg s d j := hok
  obtain ⟨e, he⟩ := hok.edit_some (by rw [hpc]; rfl)
  rw [stepJob_rotSetMeta hg hpc] at hs
  simp only [Option.some.injEq, Prod.mk.injEq] at hs
  obtain ⟨rfl, rfl⟩ := hs
  have hnr : ∀ m, j.pc ≠ .rotRemove m := by rw [hpc]; intro m hm; cases hm
  have hfd := (h.mfd hj).fd hj hnr
  obtain ⟨hsett, hmc, hmlt, hlk⟩ := hok.rot_facts he (m := m)
    (P := Holds (lookup d.manifests m) fun mf => Holds mf.synced.head? fun r =>
      mf = ⟨[{ snapshotRec cfg s e with nf := r.nf }], []⟩ ∧ m < r.nf ∧ r.nf ≤ s.nextFile ∧
      (∀ t ∈ applyEdit s.live e, t < r.nf) ∧ e.jn.getD s.stJn < r.nf) (by rw [hpc]; rfl)
  rw [holds_iff] at hlk
  obtain ⟨mf1, hlk, hr1⟩ := hlk
  rw [holds_iff] at hr1
  obtain ⟨r1, _, hmf1, hr1a, hr1b, hr1c, hr1d⟩ := hr1
  subst hmf1
  generalize hx : r1.nf = x at *
  have hbc : j.pc.beforeCommit = true := by rw [hpc]; rfl
  have hlate : j.pc ≠ .mkJournal ∧ j.pc.tablesDone = true := by rw [hpc]; exact ⟨(by intro x; cases x), rfl⟩
  obtain ⟨mf, v0, v, hparts, hlv, hvl, hed, hvok', hmono'⟩ := h.commit_view hj he hbc hlate
  have hcur := hparts.cur
  have hph := h.not_crashed hj
  have hb := h.bounds hph
  -- the session mirrors the last view
  unfold Settled at hsett
  obtain ⟨_, hmir⟩ := holds_some hsett hcur
  rw [hlv] at hmir
  obtain ⟨m1, m2, m3⟩ : Mirror s v := hmir
  -- so the snapshot's view is the view after the edit
  have hsv : viewAt cfg ⟨[{ snapshotRec cfg s e with nf := x }], []⟩ 0 =
      some ⟨applyEdit v.live e, e.jn.getD v.jn, e.sq.getD v.sq, x⟩ := by
    rw [snapshot_view' cfg hg, m1, m2, m3]
  let v' : MView := ⟨applyEdit v.live e, e.jn.getD v.jn, e.sq.getD v.sq, x⟩
  have hvok'' : ViewOK d (must s) (issuedGrps s) v' :=
    hvok'.with_nf (by rw [m1]; exact hr1c) (by rw [m2]; exact hr1d)
  let j' : Job := { j with pc := .rotRemove m }
  let d1 : Disk := { d with current := some m }
  have hcur1 : curManifest d1 = some ⟨[{ snapshotRec cfg s e with nf := x }], []⟩ := by
    show (some m).bind (lookup d.manifests) = _
    simp [hlk]
  have hlv1 : lastView cfg d1 = some v' := by
    unfold lastView
    rw [hcur1]
    simp only [Option.bind_some, List.length_nil]
    exact hsv
  have hmfd' : MfdOK { s with job := some j' } d1 := by
    unfold MfdOK
    simp only [Option.map_some]
    rfl
  have hmono := hed.mono
  have hjn : v.jn ≤ e.jn.getD v.jn := hmono.1
  constructor
  · exact h.disk.set_meta hlk rfl hsv hvok'' (fun mf1 v01 hc1 hv01 => by
      rw [hcur] at hc1; cases hc1
      rw [hparts.hv0] at hv01; cases hv01
      exact hmono')
  · exact ManifestMono.single (d := d1) (m := m) hcur1 rfl rfl hsv hr1a
  · intro _
    apply ViewBounds.single hcur1 rfl hsv
    exact ⟨hmono.2.2.1, hr1b, hmono.2.2.2.1⟩
  · intro hr
    have hrun := h.run hr
    rw [goto_eq]
    apply RunOK.job_step (d' := d1) hrun j' s.nextFile s.live s.stJn s.stSq s.manifestFd s.manifestOpen
      (Nat.le_refl _) rfl ⟨hmfd', hrun.mfd.2⟩ hmlt (hrun.hnc_post (j' := j') hok hj hr rfl rfl (fun hk => by
        rw [hlv1, hlv]
        obtain ⟨a, b⟩ := (hok.edit_nums he).1 hk
        simp only [Holds, a, b, Option.getD_none, Nat.le_refl, and_self, v']))
    rw [hcur1]
    simp only [Holds, hsv, hcur, hparts.hv0]
    exact hmono'
  · intro hr
    have hrec := h.recov hr
    rw [holds_iff] at hrec
    obtain ⟨r, hrs, hrr⟩ := hrec
    refine holds_of_some (o := s.recov) hrs ?_
    rw [goto_eq]
    apply RecOK.job_step (d' := d1) hrr j' s.nextFile s.live s.stJn s.stSq s.manifestFd s.manifestOpen
      (Nat.le_refl _) rfl hmfd' hmlt (fun hb' => by cases hb')
    · rw [hlv1, hlv]
      exact hjn
    · rw [hlv1]
      simp only [Holds]
      have := h.todo_ge_edit hj he hrs hr
      show ∀ n ∈ r.todo, e.jn.getD v.jn ≤ n
      rw [hok.jn_getD (by rw [hr]; decide) he]
      exact this
  · intro hcr; exact absurd hcr hph
  · show JobOK cfg _ _ j'
    rw [goto_eq]
    apply JobOK.late_next (d' := d1) hok hlate j' ⟨rfl, rfl, rfl, rfl, rfl⟩ ⟨(by intro x; cases x), rfl⟩
      s.nextFile s.live s.stJn s.stSq s.manifestFd s.manifestOpen (Nat.le_refl _) rfl (fun _ => rfl) hok.one.2
    · unfold JobManifestOK
      show match j.edit with
        | some e => JobManifest cfg _ _ e (.rotRemove m)
        | none => _
      rw [he]
      simp only [JobManifest]
      refine ⟨rfl, ?_, ?_⟩
      · show s.manifestFd ≠ some m
        rw [hfd]
        exact fun hc => hmc hc.symm
      · rw [hcur1]
        simp only [Holds, true_and]
        rw [hlv1]
        exact ⟨by show applyEdit v.live e = applyEdit s.live e; rw [m1],
          by show e.jn.getD v.jn = e.jn.getD s.stJn; rw [m2],
          by show e.sq.getD v.sq = e.sq.getD s.stSq; rw [m3]⟩
    · intro hb'; cases hb'
    · rw [hlv1]
      simp only [Holds]
      exact late_not_rm (j := j') ⟨(by intro l x; cases x), (by intro l x; cases x), (by intro l x; cases x)⟩
    · intro hn; rw [he] at hn; cases hn
    · exact fun _ => rfl
    · exact fun _ => rfl
    · intro _
      rw [hlv1]
      intro o ho
      refine ⟨mem_applyEdit.2 (Or.inr ?_), hok.outs_on_disk hbc hlate.2 o ho⟩
      rw [hed.shape.1]
      exact List.mem_map.2 ⟨o, ho, rfl⟩

end GoLevel.Dur
