import GoLevel.Proofs.DurableStepJ6
/-!
Job steps, part 7: `rotSetMeta` (the commit of a rotation) and `rotRemove`.
-/
namespace GoLevel.Dur

/-- once `SetMeta` has made the new manifest current no clause of the job looks at the ghost edit: it is cleared -/
theorem JobOK.clear_limbo_rotRemove {cfg : Cfg} {s : St} {d : Disk} {j : Job} (h : JobOK cfg s d j) {m : Nat}
    (hpc : j.pc = .rotRemove m) : JobOK cfg { s with limbo := none } d j := by
  obtain ⟨j1, j2, j3, j4, j5, j6, j7, j8, j9, j10, j11, j12⟩ := h
  have hbc : j.pc.beforeCommit = false := by rw [hpc]; rfl
  refine ⟨j1, j2.transport rfl rfl rfl rfl rfl rfl rfl rfl rfl rfl rfl rfl (fun hb => hb) rfl rfl (fun _ => rfl), ?_,
    ⟨j4.1, fun hb => by rw [hbc] at hb; cases hb⟩, j5, j6, j7,
    j8.transport (Nat.le_refl _) rfl rfl rfl Iff.rfl, ?_, j10, ?_, j12⟩
  · unfold JobManifestOK at j3 ⊢
    cases he : j.edit with
    | none =>
      have := j10 he
      rw [hpc] at this; cases this
    | some e =>
      rw [he] at j3
      simp only [hpc, JobManifest] at j3 ⊢
      exact j3
  · refine j9.imp (fun v _ => ?_)
    unfold RemovalsOK
    rw [hpc]
    trivial
  · exact Holds'.imp (o := j.edit) j11 (fun e he0 => he0.transport rfl rfl (fun _ => rfl) (fun hb => hb)
      (fun _ => rfl) (fun _ _ _ => rfl))

theorem inv_job_rotSetMeta {cfg : Cfg} (hg : cfg.Good) {s : St} {d : Disk} (h : Inv cfg s d) {j : Job}
    (hj : s.job = some j) {m : Nat} (hpc : j.pc = .rotSetMeta m) {rot : Bool}
    {s' : St} {d' : Disk} (hs : stepJob cfg s d j rot .ok = some (s', d')) : Inv cfg s' d' := by
  have hok := h.job
  rw [hj] at hok
  have hok : JobOK cfg s d j := hok
  obtain ⟨e, he⟩ := hok.edit_some (by rw [hpc]; rfl)
  rw [stepJob_rotSetMeta hg hpc] at hs
  simp only [Option.some.injEq, Prod.mk.injEq] at hs
  obtain ⟨rfl, rfl⟩ := hs
  have hnr : ∀ m, j.pc ≠ .rotRemove m := by rw [hpc]; intro m hm; cases hm
  obtain ⟨hsett, ⟨hmc, hcm'⟩, hmlt, hlk⟩ := hok.rot_facts he (m := m)
    (P := Holds (lookup d.manifests m) fun mf => Holds mf.synced.head? fun r =>
      mf = ⟨[{ snapshotRec cfg s e with nf := r.nf }], []⟩ ∧ m < r.nf ∧ r.nf ≤ s.nextFile ∧
      (∀ t ∈ applyEdit s.live e, t < r.nf) ∧ e.jn.getD s.stJn < r.nf) (by rw [hpc]; rfl)
  rw [holds_iff] at hlk
  obtain ⟨mf1, hlk, hr1⟩ := hlk
  rw [holds_iff] at hr1
  obtain ⟨r1, _, hmf1, hr1a, hr1b, hr1c, hr1d⟩ := hr1
  subst hmf1
  generalize hx : r1.nf = x at *
  have hbc : j.pc.beforeCommit = true := by rw [hpc]; rfl
  have hlate : j.pc ≠ .mkJournal ∧ j.pc.tablesDone = true := by rw [hpc]; exact ⟨(by intro x; cases x), rfl⟩
  obtain ⟨mf, v0, hparts, hvok', hmono', hjnle, hsqcap, hjcur, _, _⟩ := h.commit_view' hj he hbc hlate
  have hcur := hparts.cur
  have hph := h.not_crashed hj
  have hb := h.bounds hph
  -- the snapshot's view is the session's view after the edit
  have hsv : viewAt cfg ⟨[{ snapshotRec cfg s e with nf := x }], []⟩ 0 =
      some ⟨applyEdit s.live e, e.jn.getD s.stJn, e.sq.getD s.stSq, x⟩ := snapshot_view' cfg hg s e x
  let v' : MView := ⟨applyEdit s.live e, e.jn.getD s.stJn, e.sq.getD s.stSq, x⟩
  have hvok'' : ViewOK d (must s) (issuedGrps s) v' := hvok'.with_nf hr1c hr1d
  let j' : Job := { j with pc := .rotRemove m }
  let d1 : Disk := { d with current := some m }
  have hcur1 : curManifest d1 = some ⟨[{ snapshotRec cfg s e with nf := x }], []⟩ := by
    show (some m).bind (lookup d.manifests) = _
    simp [hlk]
  have hlv1 : lastView cfg d1 = some v' := by
    unfold lastView
    rw [hcur1]
    simp only [Option.bind_some, List.length_nil]
    exact hsv
  have hmfd' : MfdOK { s with job := some j', limbo := none } d1 := by
    unfold MfdOK
    simp only [Option.map_some]
    rfl
  have hshape := hok.shape
  rw [he] at hshape
  constructor
  · exact h.disk.set_meta hlk rfl hsv hvok'' (fun mf1 v01 hc1 hv01 => by
      rw [hcur] at hc1; cases hc1
      rw [hparts.hv0] at hv01; cases hv01
      exact hmono')
  · exact ManifestMono.single (d := d1) (m := m) hcur1 rfl rfl hsv hr1a
  · intro _
    apply ViewBounds.single hcur1 rfl hsv
    refine ⟨?_, hr1b, hjcur⟩
    rw [seqHi_post (s := { s with job := some j', limbo := none }) (j := j') rfl rfl]
    exact hsqcap
  · intro hr
    have hrun := h.run hr
    have := RunOK.job_step_lb (d' := d1) hrun j' s.nextFile s.live s.stJn s.stSq s.manifestFd s.manifestOpen none
      (Nat.le_refl _) rfl ⟨hmfd', hrun.mfd.2⟩ hmlt
      (hrun.hnc_post (j' := j') (nf' := s.nextFile) (l' := s.live) (a' := s.stJn) (b' := s.stSq)
        (m' := s.manifestFd) (o' := s.manifestOpen) hok hj hr rfl rfl (fun _ => ⟨rfl, rfl⟩))
      (by
        rw [hcur1]
        simp only [Holds, hsv, hcur, hparts.hv0]
        exact hmono')
      (LimboOK.of_none rfl)
    exact this
  · intro hr
    have hrec := h.recov hr
    rw [holds_iff] at hrec
    obtain ⟨r, hrs, hrr⟩ := hrec
    refine holds_of_some (o := s.recov) hrs ?_
    have hl : s.limbo = none := h.limbo_none_of_recovering (by rw [hr]; decide)
    have hmir := h.mirror_nolimbo hj hbc hl
    obtain ⟨_, _, v, _, hlv, _, _, _⟩ := h.disk.last
    rw [hlv] at hmir
    obtain ⟨_, m2, _⟩ : Mirror s v := hmir
    have hstep := RecOK.job_step (d' := d1) hrr j' s.nextFile s.live s.stJn s.stSq s.manifestFd s.manifestOpen
      (Nat.le_refl _) rfl (by
        show MfdOK (s.upd j' s.nextFile s.live s.stJn s.stSq s.manifestFd s.manifestOpen) d1
        unfold MfdOK
        simp only [St.upd, Option.map_some]
        rfl) hmlt (fun hb' => by cases hb')
      (by
        rw [hlv1, hlv]
        show v.jn ≤ e.jn.getD s.stJn
        rw [m2]
        exact hjnle)
      (by
        rw [hlv1]
        simp only [Holds]
        have := h.todo_ge_edit hj he hrs hr
        show ∀ n ∈ r.todo, e.jn.getD s.stJn ≤ n
        have hjg := hok.jn_getD (by rw [hr]; decide) he (x := s.stJn)
        rw [hjg]
        exact this)
    have es : ({ s with job := some j', limbo := none } : St) =
        s.upd j' s.nextFile s.live s.stJn s.stSq s.manifestFd s.manifestOpen := by
      cases s
      simp only [St.upd]
      simp_all
    rw [es]
    exact hstep
  · intro hcr; exact absurd hcr hph
  · show JobOK cfg _ _ j'
    have hjob := JobOK.late_next (d' := d1) hok hlate j' ⟨rfl, rfl, rfl, rfl, rfl⟩ ⟨(by intro x; cases x), rfl⟩
      s.nextFile s.live s.stJn s.stSq s.manifestFd s.manifestOpen (Nat.le_refl _) rfl (fun _ => rfl) hok.one.2
      (by
        unfold JobManifestOK
        show match j.edit with
          | some e => JobManifest cfg _ _ e (.rotRemove m)
          | none => _
        rw [he]
        simp only [JobManifest]
        refine ⟨rfl, ?_, ?_⟩
        · show s.manifestFd ≠ some m
          have hm := h.mfd hj
          unfold MfdOK at hm
          rw [hj] at hm
          simp only [Option.map_some, hpc] at hm
          rcases hm with hm | ⟨_, hm⟩
          · rw [hm]; exact fun hc => hmc hc.symm
          · intro hfd
            rw [hfd] at hm
            cases hc : d.current with
            | none => rw [hc] at hm; exact hm
            | some c =>
              rw [hc] at hm hcm'
              have h1 : m < c := hm
              have h2 : c < m := hcm'
              omega
        · rw [hcur1]
          simp only [Holds, true_and]
          rw [hlv1]
          exact ⟨rfl, rfl, rfl⟩)
      (by intro hb'; cases hb')
      (by
        rw [hlv1]
        simp only [Holds]
        exact late_not_rm (j := j') ⟨(by intro l x; cases x), (by intro l x; cases x), (by intro l x; cases x)⟩)
      (by intro hn; rw [he] at hn; cases hn)
      (fun _ => rfl) (fun _ => rfl)
      (by
        intro _
        rw [hlv1]
        intro o ho
        refine ⟨mem_applyEdit.2 (Or.inr ?_), hok.outs_on_disk hbc hlate.2 o ho⟩
        rw [hshape.1]
        exact List.mem_map.2 ⟨o, ho, rfl⟩)
    -- the ghost edit is cleared: no clause of the job at `rotRemove` looks at it
    exact hjob.clear_limbo_rotRemove (m := m) rfl

end GoLevel.Dur
