import GoLevel.Proofs.DurableDisk
/-!
Frame lemmas, part 2: tables / other manifests, journal append, sync, create, remove.
-/
namespace GoLevel.Dur

/-- nothing a view looks at has changed -/
theorem DiskOK.frame {cfg : Cfg} {d d' : Disk} {must must' issued issued' : List Grp}
    (h : DiskOK cfg d must issued) (hcur : curManifest d' = curManifest d) (hj : d'.journals = d.journals)
    (ht : ∀ mf, curManifest d = some mf → ∀ k ≤ mf.unsynced.length, ∀ v, viewAt cfg mf k = some v →
      ∀ t ∈ v.live, lookup d'.tables t = lookup d.tables t)
    (htn : d'.tables.Pairwise (fun p q => p.1 ≠ q.1)) (hmn : d'.manifests.Pairwise (fun p q => p.1 ≠ q.1))
    (hm : ∀ g ∈ must', g ∈ must) (hi : ∀ g ∈ issued, g ∈ issued') : DiskOK cfg d' must' issued' := by
  obtain ⟨mf, v0, hp⟩ := h.parts
  have hrel : ∀ jn, relJournals d' jn = relJournals d jn := fun jn => by unfold relJournals; rw [hj]
  apply DiskOK.of_parts (mf := mf) (v0 := v0) (by rw [hj]; exact h.jsorted) htn hmn
  refine ⟨by rw [hcur]; exact hp.cur, hp.hv0, ?_, ?_, ?_⟩
  · intro k hk
    obtain ⟨v, hv, hok, hmono⟩ := hp.views k hk
    exact ⟨v, hv, hok.of_same (hrel _) (ht mf hp.cur k hk v hv) hm hi, hmono⟩
  · rw [hrel]; exact hp.jasc
  · rw [hrel]; exact hp.jord

/-! ## journals -/

theorem mem_rel_modify {d : Disk} {n jn : Nat} {f : LogFile Grp → LogFile Grp} {q : Nat × LogFile Grp} :
    q ∈ relJournals { d with journals := d.journals.modify n f } jn ↔
      ∃ p ∈ relJournals d jn, q = if p.1 = n then (p.1, f p.2) else p := by
  simp only [mem_relJournals, mem_modify]
  constructor
  · rintro ⟨⟨p, hp, rfl⟩, hq⟩
    refine ⟨p, ⟨hp, ?_⟩, rfl⟩
    split at hq <;> exact hq
  · rintro ⟨p, ⟨hp, hjn⟩, rfl⟩
    refine ⟨⟨p, hp, rfl⟩, ?_⟩
    split <;> exact hjn

/-- one more group at the end of journal `n`, the newest journal; the group is newer than everything
    relevant -/
theorem DiskOK.journal_append {cfg : Cfg} {d : Disk} {must must' issued issued' : List Grp}
    (h : DiskOK cfg d must issued) (n : Nat) (g : Grp) (hmax : ∀ p ∈ d.journals, p.1 ≤ n ∨ p.2.all = [])
    (hg : g ∈ issued' ∧ g.recs ≠ [])
    (hview : ∀ mf, curManifest d = some mf → ∀ k ≤ mf.unsynced.length, ∀ v, viewAt cfg mf k = some v →
      v.sq ≤ g.seq ∧ (∀ x ∈ liveGrps d v, x.fin ≤ g.seq) ∧ ∀ p ∈ relJournals d v.jn, ∀ x ∈ p.2.all, x.fin ≤ g.seq)
    (hm : ∀ x ∈ must', x ∈ must) (hi : ∀ x ∈ issued, x ∈ issued') :
    DiskOK cfg { d with journals := d.journals.modify n (·.append g) } must' issued' := by
  obtain ⟨mf, v0, hp⟩ := h.parts
  have hall : ∀ jf : LogFile Grp, (jf.append g).all = jf.all ++ [g] := by
    intro jf; simp [LogFile.append, LogFile.all, List.append_assoc]
  apply DiskOK.of_parts (d := { d with journals := d.journals.modify n (·.append g) }) (mf := mf) (v0 := v0)
    (pairwise_keys_modify (R := (· < ·)) n (·.append g) h.jsorted) h.tnodup h.mnodup
  refine ⟨hp.cur, hp.hv0, ?_, ?_, ?_⟩
  · intro k hk
    obtain ⟨v, hv, hok, hmono⟩ := hp.views k hk
    obtain ⟨hv1, hv2, hv3⟩ := hview mf hp.cur k hk v hv
    refine ⟨v, hv, ?_, hmono⟩
    have hl : liveGrps { d with journals := d.journals.modify n (·.append g) } v = liveGrps d v := rfl
    constructor
    · exact hok.tables
    · intro x hx; rw [hl] at hx
      obtain ⟨a, b, c⟩ := hok.tseq x hx
      exact ⟨a, hi x b, c⟩
    · intro x hx y hy; exact hok.tdisj x hx y hy
    · intro q hq x hx
      obtain ⟨p, hpr, rfl⟩ := mem_rel_modify.1 hq
      split at hx
      · simp only [hall, List.mem_append, List.mem_singleton] at hx
        rcases hx with hx | rfl
        · obtain ⟨a, b⟩ := hok.jseq p hpr x hx; exact ⟨a.imp id (fun u w => u (hm _ w)), hi x b⟩
        · exact ⟨Or.inl hv1, hg.1⟩
      · obtain ⟨a, b⟩ := hok.jseq p hpr x hx; exact ⟨a.imp id (fun u w => u (hm _ w)), hi x b⟩
    · intro x hx q hq y hy
      obtain ⟨p, hpr, rfl⟩ := mem_rel_modify.1 hq
      split at hy
      · simp only [hall, List.mem_append, List.mem_singleton] at hy
        rcases hy with hy | rfl
        · exact hok.tj x hx p hpr y hy
        · exact Or.inr (Or.inl (hv2 x hx))
      · exact hok.tj x hx p hpr y hy
    · intro x hx
      rcases hok.cover x (hm x hx) with h1 | ⟨p, hpr, hxp⟩
      · exact Or.inl h1
      · refine Or.inr ⟨_, mem_rel_modify.2 ⟨p, hpr, rfl⟩, ?_⟩
        split
        · simpa [LogFile.append] using hxp
        · exact hxp
    · exact hok.jnf
  · intro q hq
    obtain ⟨p, hpr, rfl⟩ := mem_rel_modify.1 hq
    split
    · simp only [hall]
      obtain ⟨hv1, _, hv3⟩ := hview mf hp.cur 0 (Nat.zero_le _) v0 hp.hv0
      exact (hp.jasc p hpr).snoc (Nat.zero_le _) hg.2 (fun x hx => hv3 p hpr x hx)
    · exact hp.jasc p hpr
  · intro q hq q' hq' hlt x hx y hy
    obtain ⟨p, hpr, rfl⟩ := mem_rel_modify.1 hq
    obtain ⟨p', hpr', rfl⟩ := mem_rel_modify.1 hq'
    obtain ⟨_, _, hv3⟩ := hview mf hp.cur 0 (Nat.zero_le _) v0 hp.hv0
    have hk1 : (if p.1 = n then (p.1, LogFile.append p.2 g) else p).1 = p.1 := by split <;> rfl
    have hk2 : (if p'.1 = n then (p'.1, LogFile.append p'.2 g) else p').1 = p'.1 := by split <;> rfl
    rw [hk1, hk2] at hlt
    by_cases hpn' : p'.1 = n
    · have hpn : p.1 ≠ n := by omega
      rw [if_neg hpn] at hx
      rw [if_pos hpn'] at hy
      simp only [hall, List.mem_append, List.mem_singleton] at hy
      rcases hy with hy | rfl
      · exact hp.jord p hpr p' hpr' hlt x hx y hy
      · exact hv3 p hpr x hx
    · rw [if_neg hpn'] at hy
      split at hx
      · rename_i hpn
        rcases hmax p' (mem_relJournals.1 hpr').1 with h1 | h1
        · omega
        · rw [h1] at hy; cases hy
      · exact hp.jord p hpr p' hpr' hlt x hx y hy

/-- `Sync` of journal `n`: groups of that journal may join the must-survive set if no admissible view
    skips the journal -/
theorem DiskOK.journal_sync {cfg : Cfg} {d : Disk} {must must' issued issued' : List Grp}
    (h : DiskOK cfg d must issued) (n : Nat)
    (hm : ∀ x ∈ must', x ∈ must ∨
      ((∃ p ∈ d.journals, p.1 = n ∧ x ∈ p.2.all) ∧
        ∀ mf, curManifest d = some mf → ∀ k ≤ mf.unsynced.length, ∀ v, viewAt cfg mf k = some v →
          v.jn ≤ n ∧ v.sq ≤ x.seq))
    (hi : ∀ x ∈ issued, x ∈ issued') :
    DiskOK cfg { d with journals := d.journals.modify n (·.sync) } must' issued' := by
  obtain ⟨mf, v0, hp⟩ := h.parts
  have hall : ∀ jf : LogFile Grp, jf.sync.all = jf.all := by
    intro jf; simp [LogFile.sync, LogFile.all]
  have hrel : ∀ jn, ∀ q ∈ relJournals { d with journals := d.journals.modify n (·.sync) } jn,
      ∃ p ∈ relJournals d jn, q.1 = p.1 ∧ q.2.all = p.2.all := by
    intro jn q hq
    obtain ⟨p, hpr, rfl⟩ := mem_rel_modify.1 hq
    refine ⟨p, hpr, ?_⟩
    split
    · exact ⟨rfl, hall _⟩
    · exact ⟨rfl, rfl⟩
  apply DiskOK.of_parts (d := { d with journals := d.journals.modify n (·.sync) }) (mf := mf) (v0 := v0)
    (pairwise_keys_modify (R := (· < ·)) n (·.sync) h.jsorted) h.tnodup h.mnodup
  refine ⟨hp.cur, hp.hv0, ?_, ?_, ?_⟩
  · intro k hk
    obtain ⟨v, hv, hok, hmono⟩ := hp.views k hk
    refine ⟨v, hv, ?_, hmono⟩
    constructor
    · exact hok.tables
    · intro x hx
      obtain ⟨a, b, c⟩ := hok.tseq x hx
      exact ⟨a, hi x b, c⟩
    · exact hok.tdisj
    · intro q hq x hx
      obtain ⟨p, hpr, _, e⟩ := hrel _ q hq
      rw [e] at hx
      obtain ⟨a, b⟩ := hok.jseq p hpr x hx
      refine ⟨?_, hi x b⟩
      by_cases hxm : x ∈ must'
      · rcases hm x hxm with hx' | ⟨_, hjn⟩
        · exact a.imp id (fun u _ => u hx')
        · exact Or.inl (hjn mf hp.cur k hk v hv).2
      · exact Or.inr hxm
    · intro x hx q hq y hy
      obtain ⟨p, hpr, _, e⟩ := hrel _ q hq
      rw [e] at hy
      exact hok.tj x hx p hpr y hy
    · intro x hx
      rcases hm x hx with hx' | ⟨⟨p, hpj, hpn, hxp⟩, hjn⟩
      · rcases hok.cover x hx' with h1 | ⟨p, hpr, hxp⟩
        · exact Or.inl h1
        · refine Or.inr ⟨_, mem_rel_modify.2 ⟨p, hpr, rfl⟩, ?_⟩
          split
          · simp only [LogFile.sync, LogFile.all]; exact List.mem_append_left _ hxp
          · exact hxp
      · have hpr : p ∈ relJournals d v.jn := mem_relJournals.2 ⟨hpj, by rw [hpn]; exact (hjn mf hp.cur k hk v hv).1⟩
        refine Or.inr ⟨_, mem_rel_modify.2 ⟨p, hpr, rfl⟩, ?_⟩
        rw [if_pos hpn]
        exact hxp
    · exact hok.jnf
  · intro q hq
    obtain ⟨p, hpr, _, e⟩ := hrel _ q hq
    rw [e]; exact hp.jasc p hpr
  · intro q hq q' hq' hlt x hx y hy
    obtain ⟨p, hpr, e1, e⟩ := hrel _ q hq
    obtain ⟨p', hpr', e1', e'⟩ := hrel _ q' hq'
    rw [e] at hx; rw [e'] at hy
    exact hp.jord p hpr p' hpr' (by omega) x hx y hy

/-- a new, empty journal with the largest number -/
theorem DiskOK.journal_create {cfg : Cfg} {d : Disk} {must issued : List Grp}
    (h : DiskOK cfg d must issued) (n : Nat) (hn : ∀ p ∈ d.journals, p.1 < n) :
    DiskOK cfg { d with journals := d.journals.set n ⟨[], []⟩ } must issued := by
  obtain ⟨mf, v0, hp⟩ := h.parts
  have hset : d.journals.set n ⟨[], []⟩ = d.journals ++ [(n, ⟨[], []⟩)] :=
    set_of_fresh _ (fun p hp => Nat.ne_of_lt (hn p hp))
  have hrel : ∀ jn, ∀ q ∈ relJournals { d with journals := d.journals.set n ⟨[], []⟩ } jn,
      q ∈ relJournals d jn ∨ q = (n, ⟨[], []⟩) := by
    intro jn q hq
    rw [mem_relJournals] at hq
    simp only [hset, List.mem_append, List.mem_singleton] at hq
    rcases hq.1 with h1 | h1
    · exact Or.inl (mem_relJournals.2 ⟨h1, hq.2⟩)
    · exact Or.inr h1
  have hrel' : ∀ jn, ∀ p ∈ relJournals d jn, p ∈ relJournals { d with journals := d.journals.set n ⟨[], []⟩ } jn := by
    intro jn p hp
    rw [mem_relJournals] at hp ⊢
    simp only [hset, List.mem_append]
    exact ⟨Or.inl hp.1, hp.2⟩
  have hempty : ((⟨[], []⟩ : LogFile Grp)).all = [] := rfl
  apply DiskOK.of_parts (d := { d with journals := d.journals.set n ⟨[], []⟩ }) (mf := mf) (v0 := v0)
    (sorted_set_fresh h.jsorted ⟨[], []⟩ hn) h.tnodup h.mnodup
  refine ⟨hp.cur, hp.hv0, ?_, ?_, ?_⟩
  · intro k hk
    obtain ⟨v, hv, hok, hmono⟩ := hp.views k hk
    refine ⟨v, hv, ?_, hmono⟩
    constructor
    · exact hok.tables
    · exact hok.tseq
    · exact hok.tdisj
    · intro q hq x hx
      rcases hrel _ q hq with h1 | rfl
      · exact hok.jseq q h1 x hx
      · simp [hempty] at hx
    · intro x hx q hq y hy
      rcases hrel _ q hq with h1 | rfl
      · exact hok.tj x hx q h1 y hy
      · simp [hempty] at hy
    · intro x hx
      rcases hok.cover x hx with h1 | ⟨p, hpr, hxp⟩
      · exact Or.inl h1
      · exact Or.inr ⟨p, hrel' _ p hpr, hxp⟩
    · exact hok.jnf
  · intro q hq
    rcases hrel _ q hq with h1 | rfl
    · exact hp.jasc q h1
    · trivial
  · intro q hq q' hq' hlt x hx y hy
    rcases hrel _ q hq with h1 | rfl
    · rcases hrel _ q' hq' with h2 | rfl
      · exact hp.jord q h1 q' h2 hlt x hx y hy
      · simp [hempty] at hy
    · simp [hempty] at hx

theorem set_same {α : Type} {m : Files α} (hn : m.Pairwise (fun p q => p.1 ≠ q.1)) {n : Nat} {a : α}
    (h : (n, a) ∈ m) : m.set n a = m := by
  induction m with
  | nil => cases h
  | cons p ps ih =>
    obtain ⟨k, b⟩ := p
    rw [List.pairwise_cons] at hn
    simp only [Files.set]
    by_cases hk : k = n
    · rw [if_pos hk]
      rcases List.mem_cons.1 h with h1 | h1
      · rw [h1]
      · exact absurd hk (hn.1 _ h1)
    · rw [if_neg hk]
      rcases List.mem_cons.1 h with h1 | h1
      · cases h1; exact absurd rfl hk
      · rw [ih hn.2 h1]

theorem logFile_of_all_nil {ρ : Type} {jf : LogFile ρ} (h : jf.all = []) : jf = ⟨[], []⟩ := by
  obtain ⟨a, b⟩ := jf
  simp only [LogFile.all, List.append_eq_nil_iff] at h
  obtain ⟨rfl, rfl⟩ := h
  rfl

/-- `Create` of journal `n`: a new, empty journal with the largest number, or the truncation of the empty
    journal a failed `Create` left behind -/
theorem DiskOK.journal_create' {cfg : Cfg} {d : Disk} {must issued : List Grp}
    (h : DiskOK cfg d must issued) (n : Nat) (hn : ∀ p ∈ d.journals, p.1 < n ∨ p.1 = n ∧ p.2.all = []) :
    DiskOK cfg { d with journals := d.journals.set n ⟨[], []⟩ } must issued := by
  by_cases hex : ∃ p ∈ d.journals, p.1 = n
  · obtain ⟨p, hp, hpn⟩ := hex
    have hall : p.2.all = [] := by
      rcases hn p hp with h1 | h1
      · omega
      · exact h1.2
    have hp' : (n, (⟨[], []⟩ : LogFile Grp)) ∈ d.journals := by
      rw [← hpn, ← logFile_of_all_nil hall]; exact hp
    rw [set_same (sorted_nodup h.jsorted) hp']
    exact h
  · apply DiskOK.journal_create h n
    intro p hp
    rcases hn p hp with h1 | h1
    · exact h1
    · exact absurd ⟨p, hp, h1.1⟩ hex

/-- removal of a journal no admissible view replays, or of an empty one -/
theorem DiskOK.journal_remove {cfg : Cfg} {d : Disk} {must issued : List Grp}
    (h : DiskOK cfg d must issued) (n : Nat)
    (hn : ∀ mf, curManifest d = some mf → ∀ k ≤ mf.unsynced.length, ∀ v, viewAt cfg mf k = some v →
      n < v.jn ∨ ∀ p ∈ d.journals, p.1 = n → ∀ g ∈ p.2.all, g ∉ must) :
    DiskOK cfg { d with journals := d.journals.erase n } must issued := by
  obtain ⟨mf, v0, hp⟩ := h.parts
  have hrel : ∀ jn, ∀ q ∈ relJournals { d with journals := d.journals.erase n } jn, q ∈ relJournals d jn := by
    intro jn q hq
    rw [mem_relJournals] at hq ⊢
    exact ⟨(mem_erase.1 hq.1).1, hq.2⟩
  apply DiskOK.of_parts (d := { d with journals := d.journals.erase n }) (mf := mf) (v0 := v0)
    (pairwise_erase n h.jsorted) h.tnodup h.mnodup
  refine ⟨hp.cur, hp.hv0, ?_, ?_, ?_⟩
  · intro k hk
    obtain ⟨v, hv, hok, hmono⟩ := hp.views k hk
    refine ⟨v, hv, ?_, hmono⟩
    constructor
    · exact hok.tables
    · exact hok.tseq
    · exact hok.tdisj
    · intro q hq x hx; exact hok.jseq q (hrel _ q hq) x hx
    · intro x hx q hq y hy; exact hok.tj x hx q (hrel _ q hq) y hy
    · intro x hx
      rcases hok.cover x hx with h1 | ⟨p, hpr, hxp⟩
      · exact Or.inl h1
      · refine Or.inr ⟨p, ?_, hxp⟩
        rw [mem_relJournals] at hpr ⊢
        refine ⟨mem_erase.2 ⟨hpr.1, ?_⟩, hpr.2⟩
        intro hpn
        rcases hn mf hp.cur k hk v hv with h1 | h1
        · omega
        · exact h1 p hpr.1 hpn x (by simp [LogFile.all, hxp]) hx
    · exact hok.jnf
  · intro q hq; exact hp.jasc q (hrel _ q hq)
  · intro q hq q' hq' hlt x hx y hy; exact hp.jord q (hrel _ q hq) q' (hrel _ q' hq') hlt x hx y hy

end GoLevel.Dur
