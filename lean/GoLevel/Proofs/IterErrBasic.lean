import GoLevel.Model.IterErr
import GoLevel.Proofs.IterSim
/-!
# Iterators that may fail: the contract `FailSim` and what it gives (C02 / C08)

`FailSim o sh π H`: the error-capable iterator `o` (states `σ`) has a *healthy twin* `sh` (states `τ`, an
error-free `IterOps`, reached through the projection `π`): as long as a state is healthy (`H`) and a call
leaves `Error()` nil, the call did exactly what the twin does and the state is healthy again; once `Error()`
is set the iterator shows nothing and keeps the error for ever.  If the twin simulates a cursor (`Sim`), the
answers of `o` are the cursor's up to the first call after which `Error()` is set (`run_reported`).  `F s e`
describes the failed states: `Error() = e`, nothing under the cursor, closed under every call.

`FailChild` over any error-free child is a `FailSim` (twin: the child itself).  Core Lean only.
-/
namespace GoLevel

/-- the answers `outs` (pair shown or `none`, `Error()`) against the cursor's answers `spec`: every answer
given while `Error()` is nil is the cursor's; the first answer with an error shows nothing, and every
later answer is "nothing, the same error". -/
def Reported {α : Type} : List (Option α × Option Err) → List (Option α) → Prop
  | [], [] => True
  | (out, none) :: rest, s :: spec => out = s ∧ Reported rest spec
  | (out, some e) :: rest, _ :: _ => out = none ∧ ∀ r ∈ rest, r = (none, some e)
  | _, _ => False

/-- as `Reported`, except that the call during which the failure happened may still show a pair with a nil
`Error()`; every later answer is "nothing, the same error" -/
def ReportedLate {α : Type} : List (Option α × Option Err) → List (Option α) → Prop
  | [], [] => True
  | (out, none) :: rest, s :: spec =>
    (out = s ∧ ReportedLate rest spec) ∨ (out.isSome ∧ ∃ e, ∀ r ∈ rest, r = (none, some e))
  | (out, some e) :: rest, _ :: _ => out = none ∧ ∀ r ∈ rest, r = (none, some e)
  | _, _ => False

theorem Reported.late {α : Type} {outs : List (Option α × Option Err)} {spec : List (Option α)}
    (h : Reported outs spec) : ReportedLate outs spec := by
  induction outs generalizing spec with
  | nil => cases spec <;> simp [Reported, ReportedLate] at h ⊢
  | cons a outs ih =>
    obtain ⟨out, e⟩ := a
    cases spec with
    | nil => cases e <;> simp [Reported] at h
    | cons s spec =>
      cases e with
      | none => exact .inl ⟨h.1, ih h.2⟩
      | some e => exact h

structure FailSim {σ τ : Type} (o : EIterOps σ) (sh : IterOps τ) (π : σ → τ) (H : σ → Prop)
    (F : σ → Err → Prop) : Prop where
  herr   : ∀ s, H s → o.err s = none
  hcur   : ∀ s, H s → o.cur s = sh.cur (π s)
  hstep  : ∀ s cl, H s → o.err (o.toIterOps.step cl s) = none →
             H (o.toIterOps.step cl s) ∧ π (o.toIterOps.step cl s) = sh.step cl (π s)
  hfail  : ∀ s cl e, H s → o.err (o.toIterOps.step cl s) = some e → F (o.toIterOps.step cl s) e
  ferr   : ∀ s e, F s e → o.err s = some e
  masked : ∀ s e, F s e → o.cur s = none
  sticky : ∀ s e cl, F s e → F (o.toIterOps.step cl s) e

namespace FailSim
variable {σ τ : Type} {o : EIterOps σ} {sh : IterOps τ} {π : σ → τ} {H : σ → Prop} {F : σ → Err → Prop}

theorem hok (h : FailSim o sh π H F) (s : σ) (hs : H s) : o.ok s = sh.ok (π s) := by
  simp only [IterOps.ok, h.hcur s hs]

/-- a movement of a healthy state that returns `true` leaves no error -/
theorem err_of_ok_step (h : FailSim o sh π H F) (s : σ) (cl : Call IKey) (hs : H s)
    (hok : o.ok (o.toIterOps.step cl s) = true) : o.err (o.toIterOps.step cl s) = none := by
  cases he : o.err (o.toIterOps.step cl s) with
  | none => rfl
  | some e => simp [IterOps.ok, h.masked _ e (h.hfail s cl e hs he)] at hok

/-- a movement of a healthy state that leaves an error returned `false` -/
theorem nok_of_err_step (h : FailSim o sh π H F) (s : σ) (cl : Call IKey) (e : Err) (hs : H s)
    (he : o.err (o.toIterOps.step cl s) = some e) : o.ok (o.toIterOps.step cl s) = false := by
  simp [IterOps.ok, h.masked _ e (h.hfail s cl e hs he)]

theorem nok_of_failed (h : FailSim o sh π H F) (s : σ) (e : Err) (hs : F s e) : o.ok s = false := by
  simp [IterOps.ok, h.masked _ e hs]

theorem first (h : FailSim o sh π H F) (s : σ) (hs : H s) (he : o.err (o.first s) = none) :
    H (o.first s) ∧ π (o.first s) = sh.first (π s) := h.hstep s .first hs he
theorem last (h : FailSim o sh π H F) (s : σ) (hs : H s) (he : o.err (o.last s) = none) :
    H (o.last s) ∧ π (o.last s) = sh.last (π s) := h.hstep s .last hs he
theorem seek (h : FailSim o sh π H F) (s : σ) (k : IKey) (hs : H s) (he : o.err (o.seek k s) = none) :
    H (o.seek k s) ∧ π (o.seek k s) = sh.seek k (π s) := h.hstep s (.seek k) hs he
theorem next (h : FailSim o sh π H F) (s : σ) (hs : H s) (he : o.err (o.next s) = none) :
    H (o.next s) ∧ π (o.next s) = sh.next (π s) := h.hstep s .next hs he
theorem prev (h : FailSim o sh π H F) (s : σ) (hs : H s) (he : o.err (o.prev s) = none) :
    H (o.prev s) ∧ π (o.prev s) = sh.prev (π s) := h.hstep s .prev hs he

theorem sticky_first (h : FailSim o sh π H F) (s : σ) (e : Err) (he : F s e) :
    F (o.first s) e := h.sticky s e .first he
theorem sticky_last (h : FailSim o sh π H F) (s : σ) (e : Err) (he : F s e) :
    F (o.last s) e := h.sticky s e .last he
theorem sticky_seek (h : FailSim o sh π H F) (s : σ) (k : IKey) (e : Err) (he : F s e) :
    F (o.seek k s) e := h.sticky s e (.seek k) he
theorem sticky_next (h : FailSim o sh π H F) (s : σ) (e : Err) (he : F s e) :
    F (o.next s) e := h.sticky s e .next he
theorem sticky_prev (h : FailSim o sh π H F) (s : σ) (e : Err) (he : F s e) :
    F (o.prev s) e := h.sticky s e .prev he

/-- once failed: nothing shown, the same error, for ever -/
theorem run_failed (h : FailSim o sh π H F) (cs : List (Call IKey)) (s : σ) (e : Err) (he : F s e) :
    ∀ r ∈ o.run s cs, r = (none, some e) := by
  induction cs generalizing s with
  | nil => intro r hr; cases hr
  | cons cl cs ih =>
    intro r hr
    have he' := h.sticky s e cl he
    simp only [EIterOps.run, List.mem_cons] at hr
    rcases hr with rfl | hr
    · rw [h.masked _ e he', h.ferr _ e he']
    · exact ih _ he' r hr

/-- **the answers of a `FailSim` whose twin simulates the cursor over `L`**: the cursor's answers while
`Error()` is nil; from the first call that leaves an error on, "invalid, that error". -/
theorem run_reported (h : FailSim o sh π H F) {c : UCmp} {L : List Entry} {R : τ → Pos → Prop}
    (hsim : Sim sh c L R) (cs : List (Call IKey)) (s : σ) (p : Pos) (hs : H s) (hR : R (π s) p) :
    Reported (o.run s cs) (Cursor.run L (geKey c) p cs) := by
  induction cs generalizing s p with
  | nil => trivial
  | cons cl cs ih =>
    simp only [EIterOps.run, Cursor.run]
    cases he : o.err (o.toIterOps.step cl s) with
    | none =>
      obtain ⟨hH', hπ⟩ := h.hstep s cl hs he
      have hR' : R (π (o.toIterOps.step cl s)) (Cursor.step L (geKey c) cl p) := by
        rw [hπ]; exact hsim.step cl _ _ hR
      refine ⟨?_, ih _ _ hH' hR'⟩
      rw [h.hcur _ hH', hsim.cur _ _ hR']
    | some e =>
      have hF := h.hfail s cl e hs he
      exact ⟨h.masked _ e hF, h.run_failed cs _ e hF⟩

/-- "no error is hidden": while `Error()` is nil the state is healthy -/
theorem run_healthy (h : FailSim o sh π H F) (cs : List (Call IKey)) (s : σ) (hs : H s)
    (hnone : ∀ r ∈ o.run s cs, r.2 = none) :
    H (cs.foldl (fun s cl => o.toIterOps.step cl s) s) := by
  induction cs generalizing s with
  | nil => exact hs
  | cons cl cs ih =>
    simp only [EIterOps.run, List.mem_cons, forall_eq_or_imp] at hnone
    exact ih _ (h.hstep s cl hs hnone.1).1 hnone.2

end FailSim

/-! ## `FailChild` -/

namespace FailChild
variable {σ : Type}

theorem move_healthy (f : σ → σ) (x : FailChild σ) (hx : x.err = none) (h : (move f x).err = none) :
    move f x = { x with inner := f x.inner, moves := x.moves + 1 } := by
  unfold move at h ⊢
  simp only [hx, Option.isSome_none, Bool.false_eq_true, if_false] at h ⊢
  split
  · rename_i k e hp
    rw [hp] at h
    by_cases hk : k = x.moves
    · simp [hk] at h
    · simp [hk]
  · rfl

theorem move_failed (f : σ → σ) (x : FailChild σ) (e : Err) (hx : x.err = some e) : move f x = x := by
  simp [move, hx]

theorem step_eq (o : IterOps σ) (cl : Call IKey) (x : FailChild σ) :
    (ops o).toIterOps.step cl x = move (fun s => o.step cl s) x := by
  cases cl <;> rfl

/-- a child that fails at a planned movement, over any error-free iterator, is a `FailSim` with that
iterator as its twin -/
theorem failSim (o : IterOps σ) :
    FailSim (ops o) o (·.inner) (fun x => x.err = none) (fun x e => x.err = some e) where
  herr := fun _ h => h
  hfail := fun _ _ _ _ h => h
  ferr := fun _ _ h => h
  hcur := fun x h => by simp [ops, h]
  hstep := by
    intro x cl hx he
    rw [step_eq] at he ⊢
    have := move_healthy _ x hx he
    rw [this]
    exact ⟨hx, rfl⟩
  masked := fun x e h => by have h' : x.err = some e := h; simp [ops, h']
  sticky := by
    intro x e cl h
    rw [step_eq, move_failed _ x e h]
    exact h

end FailChild

/-- an iterator that never fails is a `FailSim` with itself as twin -/
theorem IterOps.noErr_failSim {σ : Type} (o : IterOps σ) :
    FailSim o.noErr o id (fun _ => True) (fun _ _ => False) where
  herr := fun _ _ => rfl
  hfail := fun _ _ _ _ h => by cases h
  ferr := fun _ _ h => h.elim
  hcur := fun _ _ => rfl
  hstep := fun s cl _ _ => ⟨trivial, by cases cl <;> rfl⟩
  masked := fun _ _ h => h.elim
  sticky := fun _ _ _ h => h

end GoLevel
