import GoLevel.Proofs.IterMerged
import GoLevel.Proofs.MergeHeapProp
/-!
# The heap-based merged iterator refines the abstract one (C02)

`HRel c h m`: the heap-based state `h` (`Model/MergeHeap.lean`) and the abstract state `m`
(`Model/Iter.lean`) agree on `iters`, `keys`, `reverse`, `index`, `dir`; the slice `indexes` of `h` is a
permutation of the bag of `m` and satisfies the invariant of `container/heap`.

Under the invariant `MergedIter.Rel` of the abstract proof (children sorted, pairwise distinct keys: `MergeOK`)
every one of the five calls preserves `HRel` (`hrel_first` … `hrel_prev`): with distinct keys the minimum of the
bag is unique, `heap.Pop` returns a minimum (`GoHeap.pop_spec`), so both pop the same child.  Hence
`HeapMerged.sim`: the heap-based iterator is a `Sim` of the cursor over the sorted union, and
`heap_run_eq_abstract`: it answers every call sequence like the abstract merged iterator.  Core Lean only.
-/
namespace GoLevel

namespace HeapMerged
variable {σ : Type}
open MergedIter (keyAt Base HeapAll HeapBut Rel)

/-- `h` is `m` with another layout `hp` of the heap: a permutation of `m`'s bag satisfying the heap invariant -/
def HRel (c : UCmp) (h m : MergedIter σ) : Prop :=
  ∃ hp, h = { m with heap := hp } ∧ hp.Perm m.heap ∧ GoHeap.IsHeap (lessOf c m) hp

theorem HRel.dir {c : UCmp} {h m : MergedIter σ} (hr : HRel c h m) : h.dir = m.dir := by
  obtain ⟨hp, rfl, _, _⟩ := hr; rfl

theorem isHeap_nil (less : Nat → Nat → Bool) : GoHeap.IsHeap less [] := by
  intro j _ hj; simp at hj

theorem hrel_new (c : UCmp) (ss : List σ) : HRel c (MergedIter.new ss) (MergedIter.new ss) :=
  ⟨[], rfl, List.Perm.refl _, isHeap_nil _⟩

theorem isHeap_congr {less less' : Nat → Nat → Bool} {h : List Nat}
    (hc : ∀ a ∈ h, ∀ b ∈ h, less a b = less' a b) (hh : GoHeap.IsHeap less h) : GoHeap.IsHeap less' h := by
  intro j hj0 hjn hp
  have := hh j hj0 hjn hp
  unfold GoHeap.LinkOK at this ⊢
  have hm : ∀ k, k < h.length → h.getD k 0 ∈ h := by
    intro k hk
    rw [List.getD_eq_getElem?_getD, List.getElem?_eq_getElem hk]; exact List.getElem_mem hk
  rw [← hc _ (hm j hjn) _ (hm _ (by omega))]
  exact this

section order
variable {c : UCmp} (hl : LawfulUCmp c)

include hl in
/-- `indexHeap.Less` is a strict weak order on the children whose key is set -/
theorem swo_less (rev : Bool) (keys : List (Option IKey)) :
    GoHeap.SWO (MergedIter.less c rev keys) (fun x => (keyAt keys x).isSome) where
  irrefl := by
    intro a ha
    obtain ⟨k, hk⟩ := Option.isSome_iff_exists.1 ha
    rw [MergedIter.less_eq hk hk, (icmp_eq_iff hl k k).2 rfl]
    cases rev <;> rfl
  trans := fun a b d _ _ _ h1 h2 => MergedIter.less_trans hl rev keys a b d h1 h2
  negtrans := by
    intro a b d ha hb hd h1 h2
    obtain ⟨ka, hka⟩ := Option.isSome_iff_exists.1 ha
    obtain ⟨kb, hkb⟩ := Option.isSome_iff_exists.1 hb
    obtain ⟨kd, hkd⟩ := Option.isSome_iff_exists.1 hd
    rw [MergedIter.less_eq hka hkb] at h1
    rw [MergedIter.less_eq hkb hkd] at h2
    rw [MergedIter.less_eq hka hkd]
    cases rev with
    | false =>
      simp only [Bool.false_eq_true, if_false, beq_eq_false_iff_ne, ne_eq] at h1 h2 ⊢
      rw [← ne_eq, icmp_not_lt_iff hl] at h1 h2 ⊢
      exact icmp_le_trans hl _ _ _ h2 h1
    | true =>
      simp only [if_true, beq_eq_false_iff_ne, ne_eq] at h1 h2 ⊢
      exact icmp_le_trans hl _ _ _ h1 h2

theorem SWO.mono {less : Nat → Nat → Bool} {S S' : Nat → Prop} (hs : GoHeap.SWO less S) (h : ∀ a, S' a → S a) :
    GoHeap.SWO less S' where
  irrefl := fun a ha => hs.irrefl a (h a ha)
  trans := fun a b d ha hb hd => hs.trans a b d (h a ha) (h b hb) (h d hd)
  negtrans := fun a b d ha hb hd => hs.negtrans a b d (h a ha) (h b hb) (h d hd)

end order

section main
variable {c : UCmp} (hl : LawfulUCmp c) {o : IterOps σ} {Rs : Nat → σ → Pos → Prop}
  {Ls : List (List Entry)} {U : List Entry} (hok : MergeOK c Ls U)
  (hch : ∀ i L, Ls[i]? = some L → Sim o c L (Rs i))

include hl hok in
/-- with pairwise distinct keys two different valid children are strictly ordered one way or the other -/
theorem less_total {m : MergedIter σ} {ps : Nat → Pos} (hb : Base Rs Ls m ps) (a b : Nat)
    (ha : a < Ls.length ∧ (keyAt m.keys a).isSome) (hb' : b < Ls.length ∧ (keyAt m.keys b).isSome)
    (hab : a ≠ b) : lessOf c m a b = true ∨ lessOf c m b a = true := by
  obtain ⟨ha, hka⟩ := ha
  obtain ⟨hb'', hkb⟩ := hb'
  obtain ⟨ka, hka⟩ := Option.isSome_iff_exists.1 hka
  obtain ⟨kb, hkb⟩ := Option.isSome_iff_exists.1 hkb
  have hLa := List.getElem?_eq_getElem ha
  have hLb := List.getElem?_eq_getElem hb''
  obtain ⟨ea, hea, hka'⟩ := hb.cur_of_key hLa hka
  obtain ⟨eb, heb, hkb'⟩ := hb.cur_of_key hLb hkb
  have hne : ka ≠ kb := by
    rw [← hka', ← hkb']
    exact hok.distinct a b _ _ ea eb hab hLa hLb (Cursor.get_mem hea) (Cursor.get_mem heb)
  unfold lessOf
  rw [MergedIter.less_eq hka hkb, MergedIter.less_eq hkb hka]
  rcases icmp_total hl ka kb with h | h | h
  · cases m.reverse
    · left; simp [h]
    · right; simp [(icmp_gt_iff hl kb ka).2 h]
  · exact absurd h hne
  · cases m.reverse
    · right; simp [h]
    · left; simp [(icmp_gt_iff hl ka kb).2 h]

include hl hok in
/-- `heap.Pop` on the real heap and the abstract "take the least element" return the same child, and leave
related heaps -/
theorem pop_agree {m : MergedIter σ} {ps : Nat → Pos} (hb : Base Rs Ls m ps) (hh : HeapAll Ls.length m)
    {hp : List Nat} (hperm : hp.Perm m.heap) (hheap : GoHeap.IsHeap (lessOf c m) hp) :
    (m.heap = [] ∧ hp = []) ∨
    ∃ b rest, MergedIter.pop c m = some (b, m.heap.erase b) ∧ GoHeap.pop (lessOf c m) hp = some (b, rest) ∧
      rest.Perm (m.heap.erase b) ∧ GoHeap.IsHeap (lessOf c m) rest := by
  have hcases : m.heap = [] ∨ ∃ x0 xs, m.heap = x0 :: xs := by
    cases m.heap with
    | nil => exact .inl rfl
    | cons x0 xs => exact .inr ⟨x0, xs, rfl⟩
  rcases hcases with hnil | ⟨x0, xs, hheapm⟩
  · left
    refine ⟨hnil, ?_⟩
    rw [hnil] at hperm; exact List.Perm.eq_nil hperm
  · right
    let S : Nat → Prop := fun a => a < Ls.length ∧ (keyAt m.keys a).isSome
    have hswo : GoHeap.SWO (lessOf c m) S :=
      SWO.mono (swo_less hl m.reverse m.keys) (fun a ha => ha.2)
    have hSm : ∀ z ∈ x0 :: xs, S z := by
      intro z hz; rw [← hheapm] at hz; exact (hh.2 z).1 hz
    have hspec := MergedIter.argBest_spec (lessOf c m) S
      (fun a b d => MergedIter.less_trans hl m.reverse m.keys a b d)
      (fun a b ha hb' hab => less_total hl hok hb a b ha hb' hab) xs x0 hSm
    obtain ⟨hbm, hbest⟩ := hspec
    have hpopm : MergedIter.pop c m = some (MergedIter.argBest (lessOf c m) x0 xs,
        m.heap.erase (MergedIter.argBest (lessOf c m) x0 xs)) := by
      unfold MergedIter.pop; rw [hheapm]; rfl
    generalize MergedIter.argBest (lessOf c m) x0 xs = b at hbm hbest hpopm
    have hSp : GoHeap.AllS S hp := by
      rw [GoHeap.allS_iff]
      intro x hx
      exact (hh.2 x).1 (hperm.mem_iff.1 hx)
    have hne : hp ≠ [] := by
      intro h0; rw [h0, hheapm] at hperm
      exact absurd (List.Perm.nil_eq hperm) (by simp)
    obtain ⟨rest, hpop, hpr, hrest, hmin⟩ := GoHeap.pop_spec hswo hSp hheap hne
    have hr_mem : hp.getD 0 0 ∈ x0 :: xs := by
      rw [← hheapm]
      exact hperm.mem_iff.1 (hpr.mem_iff.1 (by simp))
    have hb_mem : b ∈ hp := by
      rw [hperm.mem_iff, hheapm]; exact hbm
    have hrb : hp.getD 0 0 = b := by
      by_cases hrb : hp.getD 0 0 = b
      · exact hrb
      · have h1 := hbest _ hr_mem hrb
        have h2 := hmin b hb_mem
        rw [h1] at h2; cases h2
    rw [hrb] at hpop hpr
    refine ⟨b, rest, hpopm, hpop, ?_, hrest⟩
    have := (hpr.trans hperm).erase b
    rwa [List.erase_cons_head] at this

include hl hok in
theorem hrel_popNext {h m : MergedIter σ} {ps : Nat → Pos} (hb : Base Rs Ls m ps) (hh : HeapAll Ls.length m)
    (hr : HRel c h m) : HRel c (popNext c h) (MergedIter.popNext c m) := by
  obtain ⟨hp, rfl, hperm, hheap⟩ := hr
  rcases pop_agree hl hok hb hh hperm hheap with ⟨hnil, hpnil⟩ | ⟨b, rest, hpm, hph, hpr, hrest⟩
  · subst hpnil
    have : MergedIter.pop c m = none := by unfold MergedIter.pop; rw [hnil]
    unfold popNext MergedIter.popNext
    rw [this]
    exact ⟨[], rfl, by rw [hnil], isHeap_nil _⟩
  · have hph' : GoHeap.pop (lessOf c { m with heap := hp }) hp = some (b, rest) := hph
    unfold popNext MergedIter.popNext
    simp only [hpm, hph']
    exact ⟨rest, rfl, hpr, hrest⟩

include hl hok in
theorem hrel_popPrev {h m : MergedIter σ} {ps : Nat → Pos} (hb : Base Rs Ls m ps) (hh : HeapAll Ls.length m)
    (hr : HRel c h m) : HRel c (popPrev c h) (MergedIter.popPrev c m) := by
  obtain ⟨hp, rfl, hperm, hheap⟩ := hr
  rcases pop_agree hl hok hb hh hperm hheap with ⟨hnil, hpnil⟩ | ⟨b, rest, hpm, hph, hpr, hrest⟩
  · subst hpnil
    have : MergedIter.pop c m = none := by unfold MergedIter.pop; rw [hnil]
    unfold popPrev MergedIter.popPrev
    rw [this]
    exact ⟨[], rfl, by rw [hnil], isHeap_nil _⟩
  · have hph' : GoHeap.pop (lessOf c { m with heap := hp }) hp = some (b, rest) := hph
    unfold popPrev MergedIter.popPrev
    simp only [hpm, hph']
    exact ⟨rest, rfl, hpr, hrest⟩

include hl in
/-- `heap.Init` on the freshly filled slice -/
theorem hrel_init {m : MergedIter σ} (hall : ∀ x ∈ m.heap, (keyAt m.keys x).isSome) :
    HRel c (init c m) m := by
  refine ⟨GoHeap.init (lessOf c m) m.heap, rfl, GoHeap.init_perm _ _, ?_⟩
  exact GoHeap.init_isHeap (swo_less hl m.reverse m.keys) (GoHeap.allS_iff.2 hall)

include hl hch in
/-- the tail of `Next`/`Prev`: child `index` moves and is pushed with `heap.Push` -/
theorem hrel_stepIndex {h m : MergedIter σ} {ps : Nat → Pos} (hb : Base Rs Ls m ps) {L : List Entry}
    (hL : Ls[m.index]? = some L) (hbut : HeapBut Ls.length m.index m) (hr : HRel c h m) (f : σ → σ) (q : Pos)
    (hf : ∀ s, Rs m.index s (ps m.index) → Rs m.index (f s) q) :
    HRel c (stepIndex o c f h) (MergedIter.stepIndex o f m) := by
  obtain ⟨hp, rfl, hperm, hheap⟩ := hr
  obtain ⟨_, hall', _, _⟩ := MergedIter.stepIndex_base hch hb hL hbut f q hf
  have hx : m.index < Ls.length := (List.getElem?_eq_some_iff.1 hL).1
  have hxi : m.index < m.iters.length := by rw [hb.ilen]; exact hx
  have hxk : m.index < m.keys.length := by rw [hb.klen]; exact hx
  have hs := List.getElem?_eq_getElem hxi
  have hnot : ¬ m.index ∈ hp := fun hmem => ((hbut.2 _).1 (hperm.mem_iff.1 hmem)).2.1 rfl
  -- the order on the old heap elements does not change when `keys[index]` changes
  have hcongr : ∀ v, ∀ a ∈ hp, ∀ b ∈ hp,
      lessOf c m a b = MergedIter.less c m.reverse (m.keys.set m.index v) a b := by
    intro v a ha b hb'
    have ha' : a ≠ m.index := fun e => hnot (e ▸ ha)
    have hb'' : b ≠ m.index := fun e => hnot (e ▸ hb')
    unfold lessOf MergedIter.less
    rw [MergedIter.keyAt_set hxk, MergedIter.keyAt_set hxk]
    simp only [ha', hb'', if_false]
  rw [MergedIter.stepIndex_eq f hs] at hall' ⊢
  have hs' : ({ m with heap := hp } : MergedIter σ).iters[({ m with heap := hp } : MergedIter σ).index]?
      = some m.iters[m.index] := hs
  unfold stepIndex
  simp only [hs']
  cases hc : o.cur (f m.iters[m.index]) with
  | none =>
    simp only [MergedIter.keyOf, hc, Option.map_none, Option.isSome_none, Bool.false_eq_true, if_false]
    exact ⟨hp, rfl, hperm, isHeap_congr (hcongr none) hheap⟩
  | some e =>
    simp only [MergedIter.keyOf, hc, Option.map_some, Option.isSome_some, if_true] at hall' ⊢
    refine ⟨_, rfl, (GoHeap.push_perm _ _ _).trans (List.Perm.append_right _ hperm), ?_⟩
    refine GoHeap.push_isHeap (swo_less hl m.reverse (m.keys.set m.index (some e.key))) ?_
      (isHeap_congr (hcongr (some e.key)) hheap)
    rw [GoHeap.allS_iff]
    intro x hx'
    have : x ∈ m.heap ++ [m.index] := (List.Perm.append_right _ hperm).mem_iff.1 hx'
    exact ((hall'.2 x).1 this).2

include hl hok hch in
theorem hrel_first {h m : MergedIter σ} {p : Pos} (hrel : Rel o c Rs Ls U m p) (hr : HRel c h m) :
    HRel c (first o c h) (MergedIter.first o c m) := by
  have hnr := hrel.not_released
  obtain ⟨ps, hb, _⟩ := hrel
  obtain ⟨hp, rfl, _, _⟩ := hr
  obtain ⟨hb', hh'⟩ := MergedIter.resetAll_base hch hb false o.first (fun x => Cursor.first ((Ls[x]?).getD []))
    (by intro x L s hL hR; rw [hL]; exact (hch x L hL).first s _ hR)
  have hnr' : ({ m with heap := hp } : MergedIter σ).dir ≠ .released := hnr
  unfold first MergedIter.first
  rw [if_neg hnr, if_neg hnr']
  show HRel c (popNext c (init c { MergedIter.resetAll o false o.first m with dir := .soi }))
    (MergedIter.popNext c { MergedIter.resetAll o false o.first m with dir := .soi })
  have hb1 : Base Rs Ls { MergedIter.resetAll o false o.first m with dir := .soi } _ :=
    ⟨hb'.ilen, hb'.klen, hb'.rel, hb'.key⟩
  exact hrel_popNext hl hok hb1 hh' (hrel_init hl (fun x hx => ((hh'.2 x).1 hx).2))

include hl hok hch in
theorem hrel_last {h m : MergedIter σ} {p : Pos} (hrel : Rel o c Rs Ls U m p) (hr : HRel c h m) :
    HRel c (last o c h) (MergedIter.last o c m) := by
  have hnr := hrel.not_released
  obtain ⟨ps, hb, _⟩ := hrel
  obtain ⟨hp, rfl, _, _⟩ := hr
  obtain ⟨hb', hh'⟩ := MergedIter.resetAll_base hch hb true o.last (fun x => Cursor.last ((Ls[x]?).getD []))
    (by intro x L s hL hR; rw [hL]; exact (hch x L hL).last s _ hR)
  have hnr' : ({ m with heap := hp } : MergedIter σ).dir ≠ .released := hnr
  unfold last MergedIter.last
  rw [if_neg hnr, if_neg hnr']
  show HRel c (popPrev c (init c { MergedIter.resetAll o true o.last m with dir := .eoi }))
    (MergedIter.popPrev c { MergedIter.resetAll o true o.last m with dir := .eoi })
  have hb1 : Base Rs Ls { MergedIter.resetAll o true o.last m with dir := .eoi } _ :=
    ⟨hb'.ilen, hb'.klen, hb'.rel, hb'.key⟩
  exact hrel_popPrev hl hok hb1 hh' (hrel_init hl (fun x hx => ((hh'.2 x).1 hx).2))

include hl hok hch in
theorem hrel_seek {h m : MergedIter σ} {p : Pos} (hrel : Rel o c Rs Ls U m p) (hr : HRel c h m) (k : IKey) :
    HRel c (seek o c k h) (MergedIter.seek o c k m) := by
  have hnr := hrel.not_released
  obtain ⟨ps, hb, _⟩ := hrel
  obtain ⟨hp, rfl, _, _⟩ := hr
  obtain ⟨hb', hh'⟩ := MergedIter.resetAll_base hch hb false (o.seek k)
    (fun x => Cursor.seek ((Ls[x]?).getD []) (geKey c k))
    (by intro x L s hL hR; rw [hL]; exact (hch x L hL).seek s _ k hR)
  have hnr' : ({ m with heap := hp } : MergedIter σ).dir ≠ .released := hnr
  unfold seek MergedIter.seek
  rw [if_neg hnr, if_neg hnr']
  show HRel c (popNext c (init c { MergedIter.resetAll o false (o.seek k) m with dir := .soi }))
    (MergedIter.popNext c { MergedIter.resetAll o false (o.seek k) m with dir := .soi })
  have hb1 : Base Rs Ls { MergedIter.resetAll o false (o.seek k) m with dir := .soi } _ :=
    ⟨hb'.ilen, hb'.klen, hb'.rel, hb'.key⟩
  exact hrel_popNext hl hok hb1 hh' (hrel_init hl (fun x hx => ((hh'.2 x).1 hx).2))

include hl hok hch in
/-- the common tail of `Next` (`f = Next` of the child, then `next()`) -/
theorem hrel_next_tail {h m : MergedIter σ} {i : Nat} (hrel : Rel o c Rs Ls U m (.at i)) (hr : HRel c h m) :
    HRel c (popNext c (stepIndex o c o.next h)) (MergedIter.popNext c (MergedIter.stepIndex o o.next m)) := by
  obtain ⟨ps, hb, e, L0, hi, hL0, hcur, hbut, _⟩ := hrel
  have hf : ∀ s, Rs m.index s (ps m.index) → Rs m.index (o.next s) (Cursor.next L0 (ps m.index)) :=
    fun s hR => (hch _ L0 hL0).next s _ hR
  obtain ⟨hb', hh', _, _⟩ := MergedIter.stepIndex_base hch hb hL0 hbut o.next _ hf
  exact hrel_popNext hl hok hb' hh' (hrel_stepIndex hl hch hb hL0 hbut hr o.next _ hf)

include hl hok hch in
theorem hrel_next {h m : MergedIter σ} {p : Pos} (hrel : Rel o c Rs Ls U m p) (hr : HRel c h m) :
    HRel c (next o c h) (MergedIter.next o c m) := by
  have hd := hr.dir
  cases p with
  | soi =>
    have hdm : m.dir = .soi := by obtain ⟨_, _, hd⟩ := hrel; exact hd
    unfold next MergedIter.next; rw [hd, hdm]
    exact hrel_first hl hok hch hrel hr
  | eoi =>
    have hdm : m.dir = .eoi := by obtain ⟨_, _, hd⟩ := hrel; exact hd
    unfold next MergedIter.next; rw [hd, hdm]
    exact hr
  | «at» i =>
    have hrel' := hrel
    obtain ⟨ps, hb, e, L0, hi, hL0, hcur, hbut, hfw | hbw⟩ := hrel'
    · unfold next MergedIter.next; rw [hd, hfw.1]
      exact hrel_next_tail hl hok hch hrel hr
    · have hk := hb.key_of_cur hL0 hcur
      have hkh : keyAt h.keys h.index = some e.key := by
        obtain ⟨hp, rfl, _, _⟩ := hr; exact hk
      obtain ⟨hrel1, _⟩ := MergedIter.rel_seek hl hok hch hrel e.key
      rw [seek_self hl hok.sortedU hi] at hrel1
      have hr1 := hrel_seek hl hok hch hrel hr e.key
      have hv : (MergedIter.seek o c e.key m).dir.valid = true := by
        obtain ⟨_, _, _, _, _, _, _, _, h1 | h1⟩ := hrel1
        · rw [h1.1]; rfl
        · rw [h1.1]; rfl
      have hvh : (seek o c e.key h).dir.valid = true := by rw [hr1.dir]; exact hv
      unfold next MergedIter.next; rw [hd, hbw.1]
      simp only [hk, hkh, hv, hvh, Bool.not_true, Bool.false_eq_true, if_false]
      exact hrel_next_tail hl hok hch hrel1 hr1

include hl hok hch in
theorem hrel_prev {h m : MergedIter σ} {p : Pos} (hrel : Rel o c Rs Ls U m p) (hr : HRel c h m) :
    HRel c (prev o c h) (MergedIter.prev o c m) := by
  have hd := hr.dir
  cases p with
  | soi =>
    have hdm : m.dir = .soi := by obtain ⟨_, _, hd⟩ := hrel; exact hd
    unfold prev MergedIter.prev; rw [hd, hdm]
    exact hr
  | eoi =>
    have hdm : m.dir = .eoi := by obtain ⟨_, _, hd⟩ := hrel; exact hd
    unfold prev MergedIter.prev; rw [hd, hdm]
    exact hrel_last hl hok hch hrel hr
  | «at» i =>
    obtain ⟨ps, hb, e, L0, hi, hL0, hcur, hbut, hfw | hbw⟩ := hrel
    · have hk := hb.key_of_cur hL0 hcur
      have hkh : keyAt h.keys h.index = some e.key := by
        obtain ⟨hp, rfl, _, _⟩ := hr; exact hk
      unfold prev MergedIter.prev; rw [hd, hfw.1]
      simp only [hk, hkh]
      obtain ⟨hb', hbut'⟩ := MergedIter.turnBack_base hch hb e.key
      have hturn : MergedIter.turnBack o e.key h = MergedIter.turnBack o e.key m := by
        obtain ⟨hp, rfl, _, _⟩ := hr; rfl
      rw [hturn]
      have hr0 : HRel c (init c (MergedIter.turnBack o e.key m)) (MergedIter.turnBack o e.key m) :=
        hrel_init hl (fun x hx => ((hbut'.2 x).1 hx).2.2)
      have hf : ∀ s, Rs m.index s (if m.index = m.index then ps m.index
            else Cursor.bseek ((Ls[m.index]?).getD []) (geKey c e.key)) →
          Rs m.index (o.prev s) (Cursor.prev L0 (ps m.index)) := by
        intro s hR
        rw [if_pos rfl] at hR
        exact (hch _ L0 hL0).prev s _ hR
      obtain ⟨hb2, hh2, _, _⟩ := MergedIter.stepIndex_base (m := MergedIter.turnBack o e.key m) hch hb' hL0 hbut'
        o.prev _ hf
      exact hrel_popPrev hl hok hb2 hh2
        (hrel_stepIndex (m := MergedIter.turnBack o e.key m) hl hch hb' hL0 hbut' hr0 o.prev _ hf)
    · unfold prev MergedIter.prev; rw [hd, hbw.1]
      have hf : ∀ s, Rs m.index s (ps m.index) → Rs m.index (o.prev s) (Cursor.prev L0 (ps m.index)) :=
        fun s hR => (hch _ L0 hL0).prev s _ hR
      obtain ⟨hb', hh', _, _⟩ := MergedIter.stepIndex_base hch hb hL0 hbut o.prev _ hf
      exact hrel_popPrev hl hok hb' hh' (hrel_stepIndex hl hch hb hL0 hbut hr o.prev _ hf)

omit hl hok hch in
theorem hrel_cur {h m : MergedIter σ} (hr : HRel c h m) : cur o h = MergedIter.cur o m := by
  obtain ⟨hp, rfl, _, _⟩ := hr; rfl

end main

/-- simulation relation of the heap-based iterator: related to an abstract state that is related to the
cursor position -/
def HeapRel (o : IterOps σ) (c : UCmp) (Rs : Nat → σ → Pos → Prop) (Ls : List (List Entry)) (U : List Entry)
    (h : MergedIter σ) (p : Pos) : Prop :=
  ∃ m, Rel o c Rs Ls U m p ∧ HRel c h m

/-- **the heap-based merged iterator** over children that simulate the cursors over `Ls` (sorted, pairwise
distinct keys, sorted union `U`) simulates the cursor over `U` -/
theorem sim {c : UCmp} (hl : LawfulUCmp c) (o : IterOps σ) (Rs : Nat → σ → Pos → Prop)
    (Ls : List (List Entry)) (U : List Entry) (hok : MergeOK c Ls U)
    (hch : ∀ i L, Ls[i]? = some L → Sim o c L (Rs i)) :
    Sim (HeapMerged.ops o c) c U (HeapRel o c Rs Ls U) where
  wf := fun _ _ ⟨_, h, _⟩ => MergedIter.rel_wf h
  first := fun _ _ ⟨_, h, hr⟩ => ⟨_, MergedIter.rel_first hl hok hch h, hrel_first hl hok hch h hr⟩
  last := fun _ _ ⟨_, h, hr⟩ => ⟨_, MergedIter.rel_last hl hok hch h, hrel_last hl hok hch h hr⟩
  seek := fun _ _ k ⟨_, h, hr⟩ => ⟨_, (MergedIter.rel_seek hl hok hch h k).1, hrel_seek hl hok hch h hr k⟩
  next := fun _ _ ⟨_, h, hr⟩ => ⟨_, MergedIter.rel_next hl hok hch h, hrel_next hl hok hch h hr⟩
  prev := fun _ _ ⟨_, h, hr⟩ => ⟨_, MergedIter.rel_prev hl hok hch h, hrel_prev hl hok hch h hr⟩
  cur := fun _ _ ⟨_, h, hr⟩ => by
    show cur o _ = _
    rw [hrel_cur hr]; exact MergedIter.rel_cur hch h

theorem heapRel_new (o : IterOps σ) (c : UCmp) (Rs : Nat → σ → Pos → Prop)
    (Ls : List (List Entry)) (U : List Entry) (ss : List σ) (hlen : ss.length = Ls.length)
    (h0 : ∀ i s, ss[i]? = some s → Rs i s .soi) :
    HeapRel o c Rs Ls U (MergedIter.new ss) .soi :=
  ⟨_, MergedIter.rel_new o c Rs Ls U ss hlen h0, hrel_new c ss⟩

/-- **lockstep**: from related states the heap-based and the abstract merged iterator give the same answers
to every call sequence (and stay related) -/
theorem heap_run_eq_abstract {c : UCmp} (hl : LawfulUCmp c) (o : IterOps σ) (Rs : Nat → σ → Pos → Prop)
    (Ls : List (List Entry)) (U : List Entry) (hok : MergeOK c Ls U)
    (hch : ∀ i L, Ls[i]? = some L → Sim o c L (Rs i)) (cs : List (Call IKey)) :
    ∀ (h m : MergedIter σ) (p : Pos), Rel o c Rs Ls U m p → HRel c h m →
      (HeapMerged.ops o c).run h cs = (MergedIter.ops o c).run m cs := by
  induction cs with
  | nil => intro _ _ _ _ _; rfl
  | cons cl cs ih =>
    intro h m p hrel hr
    have hstep : Rel o c Rs Ls U ((MergedIter.ops o c).step cl m) (Cursor.step U (geKey c) cl p) ∧
        HRel c ((HeapMerged.ops o c).step cl h) ((MergedIter.ops o c).step cl m) := by
      cases cl with
      | first => exact ⟨MergedIter.rel_first hl hok hch hrel, hrel_first hl hok hch hrel hr⟩
      | last => exact ⟨MergedIter.rel_last hl hok hch hrel, hrel_last hl hok hch hrel hr⟩
      | seek k => exact ⟨(MergedIter.rel_seek hl hok hch hrel k).1, hrel_seek hl hok hch hrel hr k⟩
      | next => exact ⟨MergedIter.rel_next hl hok hch hrel, hrel_next hl hok hch hrel hr⟩
      | prev => exact ⟨MergedIter.rel_prev hl hok hch hrel, hrel_prev hl hok hch hrel hr⟩
    simp only [IterOps.run]
    rw [ih _ _ _ hstep.1 hstep.2]
    congr 1
    exact hrel_cur hstep.2

end HeapMerged

#print axioms HeapMerged.sim
#print axioms HeapMerged.heap_run_eq_abstract

end GoLevel
