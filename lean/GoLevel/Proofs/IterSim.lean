import GoLevel.Model.Iter
import GoLevel.Proofs.Key
/-!
# Simulation framework for the iterator proofs (C02)

`Sim o c xs R`: every state `s` of an iterator with operations `o` that is related by `R` to a cursor
position `p` over `xs` answers like the cursor and moves like the cursor.  `ArrIter` is the cursor itself;
`IndexedIter`, `MergedIter` are shown to be `Sim`s in `Proofs/IterIndexed.lean`, `Proofs/IterMerged.lean`,
and `DBIter` over *any* `Sim` raw iterator refines the cursor over the visible pairs
(`Proofs/IterDB.lean`).  Core Lean only.
-/
namespace GoLevel

namespace Cursor
variable {α : Type}

theorem wf_first (xs : List α) : wf xs (first xs) := by
  unfold first; split
  · trivial
  · rename_i h; cases xs <;> simp_all [wf]

theorem wf_last (xs : List α) : wf xs (last xs) := by
  unfold last; split
  · trivial
  · rename_i h; cases xs <;> simp_all [wf]

theorem wf_seek (xs : List α) (ge : α → Bool) : wf xs (seek xs ge) := by
  unfold seek; split
  · rename_i i h; exact (List.findIdx?_eq_some_iff_getElem.1 h).1
  · trivial

theorem wf_next (xs : List α) (p : Pos) : wf xs (next xs p) := by
  cases p with
  | soi => exact wf_first xs
  | eoi => trivial
  | «at» i => simp only [next]; split <;> simp_all [wf]

theorem wf_prev (xs : List α) (p : Pos) (h : wf xs p) : wf xs (prev xs p) := by
  cases p with
  | soi => trivial
  | eoi => exact wf_last xs
  | «at» i => simp only [prev]; split <;> simp_all [wf]; omega

theorem wf_step {κ : Type} (xs : List α) (ge : κ → α → Bool) (cl : Call κ) (p : Pos) (h : wf xs p) :
    wf xs (step xs ge cl p) := by
  cases cl with
  | first => exact wf_first xs
  | last => exact wf_last xs
  | seek k => exact wf_seek xs _
  | next => exact wf_next xs p
  | prev => exact wf_prev xs p h

theorem get_first (xs : List α) : get xs (first xs) = xs.head? := by
  cases xs <;> simp [first, get]

theorem get_last (xs : List α) : get xs (last xs) = xs.getLast? := by
  cases xs with
  | nil => simp [last, get]
  | cons x xs => simp [last, get, List.getLast?_eq_getElem?]

theorem get_seek (xs : List α) (ge : α → Bool) : get xs (seek xs ge) = xs.find? ge := by
  unfold seek
  cases h : xs.findIdx? ge with
  | none =>
    simp only [get]
    rw [List.findIdx?_eq_none_iff] at h
    exact (List.find?_eq_none.2 (by simpa using h)).symm
  | some i =>
    simp only [get]
    have := List.findIdx?_eq_some_iff_getElem.1 h
    obtain ⟨hi, hp, hbefore⟩ := this
    rw [List.getElem?_eq_getElem hi]
    symm
    rw [List.find?_eq_some_iff_getElem]
    exact ⟨hp, i, hi, rfl, fun j hj => by simpa using hbefore j hj⟩

end Cursor

/-- every state related to a position behaves like the cursor over `xs` at that position -/
structure Sim {σ : Type} (o : IterOps σ) (c : UCmp) (xs : List Entry) (R : σ → Pos → Prop) : Prop where
  wf    : ∀ s p, R s p → Cursor.wf xs p
  first : ∀ s p, R s p → R (o.first s) (Cursor.first xs)
  last  : ∀ s p, R s p → R (o.last s) (Cursor.last xs)
  seek  : ∀ s p k, R s p → R (o.seek k s) (Cursor.seek xs (geKey c k))
  next  : ∀ s p, R s p → R (o.next s) (Cursor.next xs p)
  prev  : ∀ s p, R s p → R (o.prev s) (Cursor.prev xs p)
  cur   : ∀ s p, R s p → o.cur s = Cursor.get xs p

namespace Sim
variable {σ : Type} {o : IterOps σ} {c : UCmp} {xs : List Entry} {R : σ → Pos → Prop}

theorem step (h : Sim o c xs R) (cl : Call IKey) (s : σ) (p : Pos) (hR : R s p) :
    R (o.step cl s) (Cursor.step xs (geKey c) cl p) := by
  cases cl with
  | first => exact h.first s p hR
  | last => exact h.last s p hR
  | seek k => exact h.seek s p k hR
  | next => exact h.next s p hR
  | prev => exact h.prev s p hR

/-- a `Sim` answers every call sequence like the cursor -/
theorem run (h : Sim o c xs R) (cs : List (Call IKey)) (s : σ) (p : Pos) (hR : R s p) :
    o.run s cs = Cursor.run xs (geKey c) p cs := by
  induction cs generalizing s p with
  | nil => rfl
  | cons cl cs ih =>
    have h1 := h.step cl s p hR
    simp only [IterOps.run, Cursor.run]
    rw [h.cur _ _ h1, ih _ _ h1]

theorem ok_eq (h : Sim o c xs R) (s : σ) (p : Pos) (hR : R s p) :
    o.ok s = (Cursor.get xs p).isSome := by
  simp only [IterOps.ok, h.cur s p hR]

end Sim

/-- the relation under which `ArrIter` is the cursor -/
def ArrIter.Rel (xs : List Entry) (a : ArrIter) (p : Pos) : Prop :=
  a.xs = xs ∧ a.pos = p ∧ Cursor.wf xs p

theorem ArrIter.sim (c : UCmp) (xs : List Entry) : Sim (ArrIter.ops c) c xs (ArrIter.Rel xs) where
  wf := fun _ _ h => h.2.2
  first := fun a _ h => ⟨h.1, by simp [ArrIter.ops, h.1], Cursor.wf_first xs⟩
  last := fun a _ h => ⟨h.1, by simp [ArrIter.ops, h.1], Cursor.wf_last xs⟩
  seek := fun a _ k h => ⟨h.1, by simp [ArrIter.ops, h.1], Cursor.wf_seek xs _⟩
  next := fun a p h => ⟨h.1, by simp [ArrIter.ops, h.1, h.2.1], Cursor.wf_next xs p⟩
  prev := fun a p h => ⟨h.1, by simp [ArrIter.ops, h.1, h.2.1], Cursor.wf_prev xs p h.2.2⟩
  cur := fun a p h => by simp [ArrIter.ops, h.1, h.2.1]

theorem ArrIter.rel_new (c : UCmp) (es : List Entry) (start limit : Option IKey) :
    ArrIter.Rel (sliceOf c es start limit) (ArrIter.new c es start limit) .soi :=
  ⟨rfl, rfl, trivial⟩

/-- strictly ascending entries under `ecmp c` -/
abbrev SortedEntries (c : UCmp) (es : List Entry) : Prop := es.Pairwise (fun a b => ecmp c a b = .lt)

end GoLevel
