import GoLevel.Proofs.WriteProtoInv
/-! Pointwise invariants, second half: waiting writers belong to the current leader, merged writers get the
group result, `closed`/`perErr` are set once `Close`/the error handler has started. -/
namespace GoLevel.WP

theorem step_wa_cur (s t : St) (h : Step s t) (c : CInv s) (ct : CInv t) (inv : PInv s) :
    ∀ (i : Nat) (w : Thread), t.ws[i]? = some w → w.pc = .waitAck → w.acc = t.cur ∧ w.acc ≠ none := by
  obtain ⟨h1, h2, h3, h4, h5⟩ := inv
  cases h with
  | call i w hi hp => pw
  | retClosed i w hi hp hk hc => pw
  | retPerErr i w hi hp hk hc => pw
  | lock i w g hi hp hk ht =>
    have nh := no_holder s c ht
    have nw := no_wa_of_token_false s c ht
    pw
  | hAcquire i w hi hp hk ht =>
    have nh := no_holder s c ht
    have nw := no_wa_of_token_false s c ht
    pw
  | hRelease i w hi hp hk =>
    have nw := no_wa_of_token_false _ ct rfl
    intro a x hx hh; exact absurd hh (nw a x hx)
  | flushOk j l m o lim hj hp => pw
  | flushFail j l m o hj hp => pw
  | recvAccept i j w l m g hj hi hp hm hl' hq hk hwm hsz => pw
  | reply i j w l m o hj hi hp hq => pw
  | recvOverflow i j w l m hj hi hp hm hl' hq hk hwm hsz => pw
  | mergeDone j l m o hj hp => pw
  | journalOk j l m o hj hp => pw
  | journalFail j l m o hj hp => pw
  | apply j l m o hj hp => pw
  | publish j l m o rot hj hp hrot => cases rot <;> pw
  | rotateOk j l m o hj hp => pw
  | rotateFail j l m o hj hp => pw
  | ack i j w l k m o r hj hi hp hq => pw
  | handoff i j w l m r g hj hi hp hq hc =>
    have hil := (List.getElem?_eq_some_iff.mp hi).1
    have hti : (set2 s.ws j (l.setPc (.returned r)) i w.asLeader)[i]? = some w.asLeader := by
      simp [set2, hil]
    have hu : ∀ (a : Nat) (x : Thread), (set2 s.ws j (l.setPc (.returned r)) i w.asLeader)[a]? = some x →
        0 < holds x.pc → a = i := fun a x hx hh =>
      holder_unique _ ct a i x w.asLeader hx hti hh (by simp [Thread.asLeader, holds])
    have nw := no_wa _ ct (by
      intro a x hx
      by_cases hh : 0 < holds x.pc
      · have := hu a x hx hh; subst this
        have hx' : (set2 s.ws j (l.setPc (.returned r)) a w.asLeader)[a]? = some x := hx
        rw [hti] at hx'; cases hx'; simp [Thread.asLeader, owed]
      · have := holds_of_owed x.pc; omega)
    intro a x hx hh; exact absurd hh (nw a x hx)
  | release j l m r hj hp =>
    have nw := no_wa_of_token_false _ ct rfl
    intro a x hx hh; exact absurd hh (nw a x hx)
  | releaseLost j l m r hj hp hc hr => exact absurd c.cfgH (by simp [hc])

theorem step_member (s t : St) (h : Step s t) (c : CInv s) (ct : CInv t) (inv : PInv s) :
    ∀ (i : Nat) (w : Thread) (j : Nat), t.ws[i]? = some w → w.acc = some j →
    ∃ l, t.ws[j]? = some l ∧ ∀ r, w.pc = .returned r → l.gres = some r := by
  obtain ⟨h1, h2, h3, h4, h5⟩ := inv
  cases h with
  | call i w hi hp => pwm
  | retClosed i w hi hp hk hc => pwm
  | retPerErr i w hi hp hk hc => pwm
  | lock i w g hi hp hk ht =>
    have nh := no_holder s c ht
    have nw := no_wa_of_token_false s c ht
    pwm
  | hAcquire i w hi hp hk ht =>
    have nh := no_holder s c ht
    have nw := no_wa_of_token_false s c ht
    pwm
  | hRelease i w hi hp hk => pwm
  | flushOk j l m o lim hj hp => pwm
  | flushFail j l m o hj hp => pwm
  | recvAccept i j w l m g hj hi hp hm hl' hq hk hwm hsz => pwm
  | reply i j w l m o hj hi hp hq => pwm
  | recvOverflow i j w l m hj hi hp hm hl' hq hk hwm hsz => pwm
  | mergeDone j l m o hj hp => pwm
  | journalOk j l m o hj hp => pwm
  | journalFail j l m o hj hp => pwm
  | apply j l m o hj hp => pwm
  | publish j l m o rot hj hp hrot => cases rot <;> pwm
  | rotateOk j l m o hj hp => pwm
  | rotateFail j l m o hj hp => pwm
  | ack i j w l k m o r hj hi hp hq => pwm
  | handoff i j w l m r g hj hi hp hq hc => pwm
  | release j l m r hj hp => pwm
  | releaseLost j l m r hj hp hc hr => exact absurd c.cfgH (by simp [hc])

theorem step_flags (s t : St) (h : Step s t) (c : CInv s) (ct : CInv t) (inv : PInv s) :
    ∀ (i : Nat) (w : Thread), t.ws[i]? = some w → w.pc ≠ .idle →
    (w.kind = .closer → t.closed = true) ∧ (w.kind = .perErrH → t.perErr = true) := by
  obtain ⟨h1, h2, h3, h4, h5⟩ := inv
  cases h with
  | call i w hi hp => pw
  | retClosed i w hi hp hk hc => pw
  | retPerErr i w hi hp hk hc => pw
  | lock i w g hi hp hk ht =>
    have nh := no_holder s c ht
    have nw := no_wa_of_token_false s c ht
    pw
  | hAcquire i w hi hp hk ht =>
    have nh := no_holder s c ht
    have nw := no_wa_of_token_false s c ht
    pw
  | hRelease i w hi hp hk => pw
  | flushOk j l m o lim hj hp => pw
  | flushFail j l m o hj hp => pw
  | recvAccept i j w l m g hj hi hp hm hl' hq hk hwm hsz => pw
  | reply i j w l m o hj hi hp hq => pw
  | recvOverflow i j w l m hj hi hp hm hl' hq hk hwm hsz => pw
  | mergeDone j l m o hj hp => pw
  | journalOk j l m o hj hp => pw
  | journalFail j l m o hj hp => pw
  | apply j l m o hj hp => pw
  | publish j l m o rot hj hp hrot => cases rot <;> pw
  | rotateOk j l m o hj hp => pw
  | rotateFail j l m o hj hp => pw
  | ack i j w l k m o r hj hi hp hq => pw
  | handoff i j w l m r g hj hi hp hq hc => pw
  | release j l m r hj hp => pw
  | releaseLost j l m r hj hp hc hr => exact absurd c.cfgH (by simp [hc])

theorem step_pinv (s t : St) (h : Step s t) (c : CInv s) (inv : PInv s) : PInv t :=
  have ct := step_cinv s t h c
  ⟨step_loc s t h c ct inv, step_holder_cur s t h c ct inv, step_wa_cur s t h c ct inv,
   step_member s t h c ct inv, step_flags s t h c ct inv⟩

theorem init_pinv (s : St) (h : Init s) : PInv s := by
  obtain ⟨_, ht, hc, hw⟩ := h
  have hf : ∀ (i : Nat) (w : Thread), s.ws[i]? = some w → w.fresh :=
    fun i w hi => hw w (List.mem_of_getElem? hi)
  refine ⟨?_, ?_, ?_, ?_, ?_⟩
  · intro i w hi; have := hf i w hi; simp_all [Thread.fresh, Loc, Blank]
  · intro i w hi hh; have := hf i w hi; simp_all [Thread.fresh, holds]
  · intro i w hi hh; have := hf i w hi; simp_all [Thread.fresh]
  · intro i w j hi hh; have := hf i w hi; simp_all [Thread.fresh]
  · intro i w hi hh; have := hf i w hi; simp_all [Thread.fresh]

theorem steps_inv (s t : St) (h : Steps s t) (c : CInv s) (inv : PInv s) : CInv t ∧ PInv t := by
  induction h with
  | refl => exact ⟨c, inv⟩
  | tail _ h ih => exact ⟨step_cinv _ _ h ih.1, step_pinv _ _ h ih.1 ih.2⟩

theorem reachable_pinv (s : St) (h : Reachable s) : PInv s := by
  obtain ⟨s0, h0, hs⟩ := h
  exact (steps_inv s0 s hs (init_cinv s0 h0) (init_pinv s0 h0)).2

end GoLevel.WP
