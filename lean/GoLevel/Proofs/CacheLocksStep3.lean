import GoLevel.Proofs.CacheLocksStep2
/-! The lock-level cache system (C17), part 5: the steps that are base steps keep `LInv`; `LInv` holds in every
reachable state. -/
namespace GoLevel.CacheL
open GoLevel.CacheM

set_option linter.unusedSimpArgs false

theorem count_runlock_cons {i : Instr} {rest : List Instr} (hi : isRunlock i = false) :
    (i :: rest).count .runlock = rest.count .runlock := by
  cases i <;> simp_all [isRunlock, List.count_cons]

theorem unShape_head {i : Instr} {rest : List Instr} (h : unShape (i :: rest)) :
    (isRunlock i = true) ∨ (((∃ k, i = .delz k) ∨ ∃ id f, i = .fin id f) ∧ ∃ r, rest = .runlock :: r) := by
  rcases h with ⟨r, hr⟩ | ⟨k, r, hr⟩ | ⟨id, f, r, hr⟩
  · injection hr with h1 _; subst h1; exact Or.inl rfl
  · injection hr with h1 h2; subst h1; exact Or.inr ⟨Or.inl ⟨k, rfl⟩, r, h2⟩
  · injection hr with h1 h2; subst h1; exact Or.inr ⟨Or.inr ⟨id, f, rfl⟩, r, h2⟩

/-- The body of `Close` (between the locks). -/
theorem linv_body {ls ls' : LSys} {t : Nat} {th : LThread} {T : List Instr} (h : LInv ls)
    (huum : ls.unrefUsesMu = false) (hth : ls.tl[t]? = some th) (hT : ls.base.threads[t]? = some T)
    (hp : th.phase = .hasBoth) (hb : closeBody ls t th = some ls') : LInv ls' := by
  obtain ⟨b', hs, rfl⟩ := closeBody_cases hb
  rw [huum]
  simp only [Bool.false_eq_true, if_false]
  have hne : th.phase ≠ .idle := by rw [hp]; simp
  have hun : unPhase th.phase = true := by rw [hp]; rfl
  have hk3 := h.k3 t th T hth hT hne
  obtain ⟨f, hTf⟩ := hk3.2 (by rw [hp]; rfl)
  have muw := h.k5a t th hth hne
  have unw := h.k5c t th hth hun
  -- first the phase, then the base step
  have h1 : LInv { ls with tl := ls.tl.set t { th with phase := .relUn }, mu := ls.mu, un := ls.un } :=
    linv_phase (p' := .relUn) (mu' := ls.mu) (un' := ls.un) h hth hT rfl rfl
      (fun _ => ⟨hk3.1, fun hb => by cases hb⟩)
      (fun _ => muw) (fun t2 _ th2 h1 h2 => h.k5a t2 th2 h1 h2)
      (fun t2 hw => Or.inl ⟨by rw [muw] at hw; exact (Option.some.inj hw).symm, by simp⟩)
      (fun _ => unw) (fun t2 _ th2 h1 h2 => h.k5c t2 th2 h1 h2)
      (fun t2 hw => Or.inl ⟨by rw [unw] at hw; exact (Option.some.inj hw).symm, rfl⟩)
      (fun _ => h.k5e t th hth (by rw [hp]; rfl)) (fun _ => h.k5f t th hth (by rw [hp]; rfl))
  rcases sysStep_cases hs with ⟨_, _, hcall, _⟩ | ⟨t', i, rest, sh', push, evs, hact, ht', he, _, rfl⟩
  · cases hcall
  · injection hact with hact; subst hact
    rw [hT] at ht'; injection ht' with ht'; rw [hTf] at ht'
    injection ht' with hi hr; subst hi; subst hr
    have hfr := rlock_frame he
    have hc0 := hfr.2.2 rfl rfl rfl
    have hrl := (hfr.2.1 rfl).1
    rw [hc0] at hrl
    have := linv_thread (t := t) (th := { th with phase := .relUn }) (T := T) (T' := push ++ [])
      (b' := { sh := sh', threads := ls.base.threads.set t (push ++ []), log := ls.base.log ++ evs })
      (held' := th.held) (mu' := ls.mu) (un' := ls.un) h1 (get_set_self hth) hT rfl rfl rfl rfl rfl
      (Or.inl (Nat.le_refl _)) (Or.inl (Nat.le_refl _))
      (by rw [hk3.1]; simp [hc0])
      (fun _ => ⟨hk3.1, fun hb => by cases hb⟩)
      (fun hu => by rw [hk3.1] at hu; cases hu)
      (by simp only []; rw [hrl]; exact h.k7)
    simpa [setPhase, List.set_set] using this

theorem rlockOf_cases {ls : LSys} {i : Instr} (huum : ls.unrefUsesMu = false) :
    (rlockOf ls i = none ∧ isEnter i = false ∧ isExtz i = false) ∨
    (rlockOf ls i = some .mu ∧ isEnter i = true ∧ isRunlock i = false) ∨
    (rlockOf ls i = some .un ∧ isExtz i = true ∧ isRunlock i = false) := by
  cases i <;> simp [rlockOf, isEnter, isExtz, isRunlock, LSys.unrefLock, huum]

/-- An ordinary base step of a thread that is not inside `Close`'s locking. -/
theorem linv_base {ls : LSys} {t : Nat} {th : LThread} {i : Instr} {rest : List Instr} {b' : Sys} (h : LInv ls)
    (huum : ls.unrefUsesMu = false) (hth : ls.tl[t]? = some th) (hT : ls.base.threads[t]? = some (i :: rest))
    (hp : th.phase = .idle) (hcl : isCloseLock i = false)
    (hfree : ∀ l, rlockOf ls i = some l → (ls.lock l).writer = none)
    (hs : sysStep false ls.base (.step t) = some b') : LInv (afterBase ls t th i b') := by
  rcases sysStep_cases hs with ⟨_, _, hcall, _⟩ | ⟨t', i', rest', sh', push, evs, hact, ht', he, _, rfl⟩
  · cases hcall
  injection hact with hact; subst hact
  rw [hT] at ht'; injection ht' with ht'; injection ht' with hi hr; subst hi; subst hr
  have hfr := rlock_frame he
  have hk1 := h.k1 t th _ hth hT
  have hk6 := h.k6 t th _ hth hT
  have hidle : th.phase ≠ .idle → False := fun hne => hne hp
  have hthr : ({ sh := sh', threads := ls.base.threads.set t (push ++ rest), log := ls.base.log ++ evs } : Sys).threads =
      ls.base.threads.set t (push ++ rest) := rfl
  have hset : ls.tl.set t { th with held := th.held } = ls.tl := by
    apply List.ext_getElem?; intro j
    by_cases hj : j = t
    · subst hj; rw [get_set_self hth, hth]
    · rw [get_set_ne hj]
  unfold afterBase
  rcases rlockOf_cases (i := i) huum with ⟨hro, hne, hnx⟩ | ⟨hro, hen, hnr⟩ | ⟨hro, hex, hnr⟩
  · rw [hro]; simp only []
    by_cases hrun : isRunlock i = true
    · -- `RUnlock`
      rw [if_pos hrun]
      obtain ⟨hrl, hpush⟩ := hfr.1 hrun
      subst hpush
      have hi : i = .runlock := by cases i <;> simp_all [isRunlock]
      subst hi
      simp only [List.count_cons, beq_self_eq_true, if_true] at hk1
      cases hh : th.held with
      | nil => rw [hh] at hk1; simp at hk1
      | cons l hs =>
        simp only []
        rw [hh] at hk1 hk6
        have hge := cnt_ge (l := l) hth
        rw [hh] at hge
        simp only [List.count_cons_self] at hge
        have hk7 := h.k7
        have hun_hs : LockId.un ∉ hs ∨ l ≠ .un := by
          by_cases hl : l = .un
          · left; subst hl
            obtain ⟨⟨hs', h1, h2⟩, _⟩ := hk6 List.mem_cons_self
            injection h1 with _ h1; rw [h1]; exact h2
          · exact Or.inr hl
        cases l with
        | mu =>
          have hpos : 1 ≤ ls.mu.readers := by rw [h.k2m]; omega
          have := linv_thread (t := t) (th := th) (T' := [] ++ rest) (held' := hs)
            (b' := { sh := sh', threads := ls.base.threads.set t ([] ++ rest), log := ls.base.log ++ evs })
            (mu' := { ls.mu with readers := ls.mu.readers - 1 }) (un' := ls.un) h hth hT rfl rfl rfl
            (by rw [hh]; simp; omega) (by rw [hh]; simp)
            (Or.inl (by simp)) (Or.inl (Nat.le_refl _))
            (by simp at hk1 ⊢; omega)
            (fun hne => (hidle hne).elim)
            (fun hu => by
              exfalso
              obtain ⟨⟨hs', h1, _⟩, _⟩ := hk6 (List.mem_cons_of_mem _ hu)
              injection h1 with h1 _; cases h1)
            (by simp only []; omega)
          simpa [LSys.setLock, LSys.lock] using this
        | un =>
          have hpos : 1 ≤ ls.un.readers := by rw [h.k2u]; omega
          have := linv_thread (t := t) (th := th) (T' := [] ++ rest) (held' := hs)
            (b' := { sh := sh', threads := ls.base.threads.set t ([] ++ rest), log := ls.base.log ++ evs })
            (mu' := ls.mu) (un' := { ls.un with readers := ls.un.readers - 1 }) h hth hT rfl rfl rfl
            (by rw [hh]; simp) (by rw [hh]; simp; omega)
            (Or.inl (Nat.le_refl _)) (Or.inl (by simp))
            (by simp at hk1 ⊢; omega)
            (fun hne => (hidle hne).elim)
            (fun hu => by
              rcases hun_hs with h1 | h1
              · exact absurd hu h1
              · exact absurd rfl h1)
            (by simp only []; omega)
          simpa [LSys.setLock, LSys.lock] using this
    · -- no lock involved
      have hrun' : isRunlock i = false := by simpa using hrun
      rw [if_neg hrun]
      have hc0 := hfr.2.2 hrun' hne hnx
      have hrl := (hfr.2.1 hrun').1
      rw [hc0] at hrl
      have := linv_thread (t := t) (th := th) (T' := push ++ rest) (held' := th.held)
        (b' := { sh := sh', threads := ls.base.threads.set t (push ++ rest), log := ls.base.log ++ evs })
        (mu' := ls.mu) (un' := ls.un) h hth hT rfl rfl rfl rfl rfl
        (Or.inl (Nat.le_refl _)) (Or.inl (Nat.le_refl _))
        (by rw [hk1, count_runlock_cons hrun', List.count_append, hc0]; simp)
        (fun hne => (hidle hne).elim)
        (fun hu => by
          obtain ⟨hh, hsh⟩ := hk6 hu
          refine ⟨hh, ?_⟩
          rcases unShape_head hsh with h1 | ⟨h1, r, h2⟩
          · rw [hrun'] at h1; cases h1
          · rw [exec_delz_fin_push he h1, h2]; exact Or.inl ⟨r, rfl⟩)
        (by simp only []; rw [hrl]; exact h.k7)
      simpa [hset] using this
  · -- `r.mu.RLock()`
    rw [hro]; simp only []
    have hw := hfree _ hro
    simp only [LSys.lock] at hw
    have hcnt := hfr.2.1 hnr
    have hnoU : LockId.un ∈ th.held → False := by
      intro hu
      obtain ⟨_, hsh⟩ := hk6 hu
      rcases unShape_head hsh with h1 | ⟨h1, _⟩
      · rw [hnr] at h1; cases h1
      · rcases h1 with ⟨k, rfl⟩ | ⟨id, f, rfl⟩ <;> simp [isEnter] at hen
    by_cases hpushd : sh'.rlock = ls.base.sh.rlock + 1
    · rw [if_pos hpushd]
      have hc1 : push.count .runlock = 1 := by omega
      have := linv_thread (t := t) (th := th) (T' := push ++ rest) (held' := .mu :: th.held)
        (b' := { sh := sh', threads := ls.base.threads.set t (push ++ rest), log := ls.base.log ++ evs })
        (mu' := { ls.mu with readers := ls.mu.readers + 1 }) (un' := ls.un) h hth hT rfl rfl rfl
        (by simp; omega) (by simp)
        (Or.inr hw) (Or.inl (Nat.le_refl _))
        (by rw [List.length_cons, hk1, count_runlock_cons hnr, List.count_append, hc1]; omega)
        (fun hne => (hidle hne).elim)
        (fun hu => by
          rcases List.mem_cons.mp hu with h1 | h1
          · cases h1
          · exact (hnoU h1).elim)
        (by simp only []; rw [hpushd, h.k7]; omega)
      simpa [LSys.setLock, LSys.lock] using this
    · rw [if_neg hpushd]
      have hc0 : push.count .runlock = 0 := by omega
      have := linv_thread (t := t) (th := th) (T' := push ++ rest) (held' := th.held)
        (b' := { sh := sh', threads := ls.base.threads.set t (push ++ rest), log := ls.base.log ++ evs })
        (mu' := ls.mu) (un' := ls.un) h hth hT rfl rfl rfl rfl rfl
        (Or.inl (Nat.le_refl _)) (Or.inl (Nat.le_refl _))
        (by rw [hk1, count_runlock_cons hnr, List.count_append, hc0]; simp)
        (fun hne => (hidle hne).elim)
        (fun hu => (hnoU hu).elim)
        (by simp only []; rw [hcnt.1, hc0]; exact h.k7)
      simpa [hset] using this
  · -- `r.unrefMu.RLock()` in `unRefExternal`
    rw [hro]; simp only []
    have hw := hfree _ hro
    simp only [LSys.lock] at hw
    have hcnt := hfr.2.1 hnr
    have hnoU : LockId.un ∈ th.held → False := by
      intro hu
      obtain ⟨_, hsh⟩ := hk6 hu
      rcases unShape_head hsh with h1 | ⟨h1, _⟩
      · rw [hnr] at h1; cases h1
      · rcases h1 with ⟨k, rfl⟩ | ⟨id, f, rfl⟩ <;> simp [isExtz] at hex
    obtain ⟨eid, ek, rfl⟩ : ∃ id k, i = .extz id k := by cases i <;> simp_all [isExtz]
    by_cases hpushd : sh'.rlock = ls.base.sh.rlock + 1
    · rw [if_pos hpushd]
      have hc1 : push.count .runlock = 1 := by omega
      have := linv_thread (t := t) (th := th) (T' := push ++ rest) (held' := .un :: th.held)
        (b' := { sh := sh', threads := ls.base.threads.set t (push ++ rest), log := ls.base.log ++ evs })
        (mu' := ls.mu) (un' := { ls.un with readers := ls.un.readers + 1 }) h hth hT rfl rfl rfl
        (by simp) (by simp; omega)
        (Or.inl (Nat.le_refl _)) (Or.inr hw)
        (by rw [List.length_cons, hk1, count_runlock_cons hnr, List.count_append, hc1]; omega)
        (fun hne => (hidle hne).elim)
        (fun _ => by
          refine ⟨⟨th.held, rfl, fun hu => hnoU hu⟩, ?_⟩
          rcases exec_extz_push he with hsh | ⟨k', hk'⟩
          · rcases hsh with ⟨r, hr⟩ | ⟨k, r, hr⟩ | ⟨id, f, r, hr⟩
            · exact Or.inl ⟨r ++ rest, by rw [hr]; rfl⟩
            · exact Or.inr (Or.inl ⟨k, r ++ rest, by rw [hr]; rfl⟩)
            · exact Or.inr (Or.inr ⟨id, f, r ++ rest, by rw [hr]; rfl⟩)
          · exact Or.inr (Or.inl ⟨k', rest, by rw [hk']; rfl⟩))
        (by simp only []; rw [hpushd, h.k7]; omega)
      simpa [LSys.setLock, LSys.lock] using this
    · rw [if_neg hpushd]
      have hc0 : push.count .runlock = 0 := by omega
      have := linv_thread (t := t) (th := th) (T' := push ++ rest) (held' := th.held)
        (b' := { sh := sh', threads := ls.base.threads.set t (push ++ rest), log := ls.base.log ++ evs })
        (mu' := ls.mu) (un' := ls.un) h hth hT rfl rfl rfl rfl rfl
        (Or.inl (Nat.le_refl _)) (Or.inl (Nat.le_refl _))
        (by rw [hk1, count_runlock_cons hnr, List.count_append, hc0]; simp)
        (fun hne => (hidle hne).elim)
        (fun hu => (hnoU hu).elim)
        (by simp only []; rw [hcnt.1, hc0]; exact h.k7)
      simpa [hset] using this

end GoLevel.CacheL
