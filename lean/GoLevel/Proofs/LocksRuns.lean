import GoLevel.Proofs.LocksInv
import GoLevel.Proofs.LocksEnabled
/-! Explicit runs around `compactionError` and `SetReadOnly`: the code's configuration with one `select` case of
the machine removed (each ends in a deadlock with a call pending, or lets a write through in the
persistent-error state), the run of the code's configuration that loses the write lock, and runs of the code's
configuration in which `SetReadOnly` arrives during the retry loop of a failing compaction. -/
namespace GoLevel.Locks
open CompErr

/-- the code's configuration with `compactionError` changed by `f` -/
def Cfg.withM (f : MCfg → MCfg) : Cfg := { Cfg.repaired with m := f (.asCoded true) }

/-- the configuration as found (the machine gives the lock back on `closeC`, `Close` takes it with a plain send)
with `compactionError` changed by `f` -/
def Cfg.withMFound (f : MCfg → MCfg) : Cfg := { Cfg.asFound with m := f (.asCoded false) }

/-! ### `haserr` without `err == ErrReadOnly` in its persistent case (the seeded change) -/

def cfgNoHaserrRO : Cfg := Cfg.withM (fun m => { m with haserrRO := false })

/-- `CompactRange` (thread 0) gave up on a table compaction that failed with a transient error; `SetReadOnly`
(thread 1) arrived during the retry loop, posted `ErrReadOnly` — the machine stayed in `haserr` — and returned
nil; the retry succeeded and posted nil: the machine is in `noerr`, `tCompaction` has parked, the token is in
`writeLockC` for `compWriteLocking` -/
def stNoHaserrRO (p : Pc) : St :=
  { ws := [.ret false, .ret true, p], tok := true, ehTok := true, ro := true, ehErr := .nil,
    eh := .noerr, tc := .parked }

theorem runNoHaserrRO_prefix : Steps cfgNoHaserrRO (init 3) (stNoHaserrRO .idle) := by
  have h := Steps.refl (cfg := cfgNoHaserrRO) (init 3)
  have h := h.step (Step.startCR _ 0 rfl)
  have h := h.step (Step.selTok _ 0 .crSel .crCheck rfl rfl rfl)
  have h := h.step (Step.crNoOverlap _ 0 rfl)
  have h := h.step (Step.crRelOk _ 0 rfl)
  have h := h.step (Step.cwSendGo _ 0 true .crRange false rfl rfl rfl)
  have h := h.step (Step.bgWorkFail _ true (some 0) rfl)
  have h := h.step (Step.bgSetErr _ true (some 0) false false rfl rfl)
  have h := h.step (Step.startSR _ 1 rfl rfl)
  have h := h.step (Step.selTok _ 1 .srSel .srSet rfl rfl rfl)
  have h := h.step (Step.srSend _ 1 rfl rfl)
  have h := h.step (Step.cwAckErr _ 0 true .crRange false rfl (Or.inl rfl))
  have h := h.step (Step.bgBackoff _ true none false rfl)
  have h := h.step (Step.bgWorkOk _ true none rfl)
  have h := h.step (Step.bgSetErr _ true none true false rfl rfl)
  have h := h.step (Step.bgLockClk _ true none rfl rfl)
  have h := h.step (Step.bgCommitOk _ true none rfl)
  have h := h.step (Step.bgSetErr _ true none true true rfl rfl)
  have h := h.step (Step.bgAck _ true none rfl)
  exact h

/-- … a later `Put` (thread 2) -/
theorem runNoHaserrRO_put : Steps cfgNoHaserrRO (init 3) (stNoHaserrRO .putSel) :=
  runNoHaserrRO_prefix.step (Step.startPut _ 2 rfl)

/-- … a later `Close` (thread 2): every goroutine has exited, the token is still in `writeLockC` -/
def stNoHaserrROClose : St :=
  { ws := [.ret false, .ret true, .clAcq], tok := true, ehTok := true, ro := true, ehErr := .nil,
    closed := true, eh := .exited, mc := .exited, tc := .exited }

theorem runNoHaserrRO_close : Steps cfgNoHaserrRO (init 3) stNoHaserrROClose := by
  have h := runNoHaserrRO_prefix
  have h := h.step (Step.startClose _ 2 rfl)
  have h := h.step (Step.clCheckTr _ 2 rfl)
  have h := h.step (Step.ehClose _ rfl rfl)
  have h := h.step (Step.bgExitIdle _ false rfl rfl)
  have h := h.step (Step.bgExitParked _ rfl rfl)
  exact h

/-! ### `noerr` without `err == ErrReadOnly` in its persistent case -/

def cfgNoNoerrRO : Cfg := Cfg.withM (fun m => { m with noerrRO := false })

/-- `SetReadOnly` returned nil, the machine took `default: goto haserr`; a later `Put` -/
def stNoNoerrRO : St :=
  { ws := [.ret true, .putSel], tok := true, ehTok := true, ro := true, ehErr := .readonly,
    eh := .haserr }

theorem runNoNoerrRO : Steps cfgNoNoerrRO (init 2) stNoNoerrRO := by
  have h := Steps.refl (cfg := cfgNoNoerrRO) (init 2)
  have h := h.step (Step.startSR _ 0 rfl rfl)
  have h := h.step (Step.selTok _ 0 .srSel .srSet rfl rfl rfl)
  have h := h.step (Step.srSend _ 0 rfl rfl)
  have h := h.step (Step.startPut _ 1 rfl)
  exact h

/-! ### `noerr` without `case err = <-db.compErrSetC` -/

def cfgNoNoerrRecv : Cfg := Cfg.withM (fun m => { m with noerrRecv := false })

/-- the first compaction cannot report its result; `CompactRange` waits for its ack -/
def stNoNoerrRecv : St :=
  { ws := [.cwAck true .crRange false], tc := .run (some 0) (.setErr true false) }

theorem runNoNoerrRecv : Steps cfgNoNoerrRecv (init 1) stNoNoerrRecv := by
  have h := Steps.refl (cfg := cfgNoNoerrRecv) (init 1)
  have h := h.step (Step.startCR _ 0 rfl)
  have h := h.step (Step.selTok _ 0 .crSel .crCheck rfl rfl rfl)
  have h := h.step (Step.crNoOverlap _ 0 rfl)
  have h := h.step (Step.crRelOk _ 0 rfl)
  have h := h.step (Step.cwSendGo _ 0 true .crRange false rfl rfl rfl)
  have h := h.step (Step.bgWorkOk _ true (some 0) rfl)
  exact h

/-! ### `haserr` without `case err = <-db.compErrSetC` -/

def cfgNoHaserrRecv : Cfg := Cfg.withM (fun m => { m with haserrRecv := false })

/-- a compaction failed (transient), its retry succeeded but cannot report it; `SetReadOnly` (thread 1) holds the
token and cannot post `ErrReadOnly` -/
def stNoHaserrRecv : St :=
  { ws := [.ret false, .srSet], tok := true, ehTok := true, ehErr := .transient, eh := .haserr,
    tc := .run none (.setErr true false) }

theorem runNoHaserrRecv : Steps cfgNoHaserrRecv (init 2) stNoHaserrRecv := by
  have h := Steps.refl (cfg := cfgNoHaserrRecv) (init 2)
  have h := h.step (Step.startCR _ 0 rfl)
  have h := h.step (Step.selTok _ 0 .crSel .crCheck rfl rfl rfl)
  have h := h.step (Step.crNoOverlap _ 0 rfl)
  have h := h.step (Step.crRelOk _ 0 rfl)
  have h := h.step (Step.cwSendGo _ 0 true .crRange false rfl rfl rfl)
  have h := h.step (Step.bgWorkFail _ true (some 0) rfl)
  have h := h.step (Step.bgSetErr _ true (some 0) false false rfl rfl)
  have h := h.step (Step.cwAckErr _ 0 true .crRange false rfl (Or.inl rfl))
  have h := h.step (Step.bgBackoff _ true none false rfl)
  have h := h.step (Step.bgWorkOk _ true none rfl)
  have h := h.step (Step.startSR _ 1 rfl rfl)
  have h := h.step (Step.selTok _ 1 .srSel .srSet rfl rfl rfl)
  exact h

/-! ### `hasperr` without `case db.compPerErrC <- err` -/

def cfgNoPerErr : Cfg := Cfg.withM (fun m => { m with hasperrPerErr := false })

/-- `SetReadOnly` returned nil; a later `Put` -/
def stRO (p : Pc) : St :=
  { ws := [.ret true, p], tok := true, ehTok := true, cwl := true, ro := true, ehErr := .readonly, eh := .hasperr }

/-- the run of `stRO .idle`: `SetReadOnly` (thread 0) takes the token, posts `ErrReadOnly` in `noerr`, returns nil -/
macro "run_ro" c:term : tactic => `(tactic| (
  have h := Steps.refl (cfg := $c) (init 2)
  have h := h.step (Step.startSR _ 0 rfl rfl)
  have h := h.step (Step.selTok _ 0 .srSel .srSet rfl rfl rfl)
  have h := h.step (Step.srSend _ 0 rfl rfl)
  exact h))

theorem runRO : Steps Cfg.repaired (init 2) (stRO .idle) := by run_ro Cfg.repaired

theorem runNoPerErr : Steps cfgNoPerErr (init 2) (stRO .putSel) :=
  (show Steps cfgNoPerErr (init 2) (stRO .idle) by run_ro cfgNoPerErr).step (Step.startPut _ 1 rfl)

/-! ### `hasperr` without `case db.compErrC <- err` -/

def cfgNoHasperrErr : Cfg := Cfg.withM (fun m => { m with hasperrErr := false })

/-- a `CompactRange` (thread 1) wants to send its command while `tCompaction` works on another one (thread 0);
`SetReadOnly` (thread 2) returns nil; `tCompaction` finishes, sees `compReadOnly` and parks -/
def stNoHasperrErr : St :=
  { ws := [.ret true, .cwSend true .crRange false, .ret true], tok := true, ehTok := true, cwl := true, ro := true,
    ehErr := .readonly, eh := .hasperr, tc := .parked }

theorem runNoHasperrErr : Steps cfgNoHasperrErr (init 3) stNoHasperrErr := by
  have h := Steps.refl (cfg := cfgNoHasperrErr) (init 3)
  have h := h.step (Step.startCR _ 0 rfl)
  have h := h.step (Step.selTok _ 0 .crSel .crCheck rfl rfl rfl)
  have h := h.step (Step.crNoOverlap _ 0 rfl)
  have h := h.step (Step.crRelOk _ 0 rfl)
  have h := h.step (Step.cwSendGo _ 0 true .crRange false rfl rfl rfl)
  have h := h.step (Step.startCR _ 1 rfl)
  have h := h.step (Step.selTok _ 1 .crSel .crCheck rfl rfl rfl)
  have h := h.step (Step.crNoOverlap _ 1 rfl)
  have h := h.step (Step.crRelOk _ 1 rfl)
  have h := h.step (Step.startSR _ 2 rfl rfl)
  have h := h.step (Step.selTok _ 2 .srSel .srSet rfl rfl rfl)
  have h := h.step (Step.srSend _ 2 rfl rfl)
  have h := h.step (Step.bgWorkOk _ true (some 0) rfl)
  have h := h.step (Step.bgSetErrPer _ true (some 0) false rfl rfl)
  have h := h.step (Step.bgLockClk _ true (some 0) rfl rfl)
  have h := h.step (Step.bgCommitOk _ true (some 0) rfl)
  have h := h.step (Step.bgSetErrPer _ true (some 0) true rfl rfl)
  have h := h.step (Step.bgAck _ true (some 0) rfl)
  exact h

/-! ### `hasperr` without `case <-db.closeC`, or without `close(db.compLockedC)` in it (as found: without the
give-back in it), or `Close` without the `compLockedC` arm -/

def cfgNoHasperrClose : Cfg := Cfg.withM (fun m => { m with hasperrClose := false })
def cfgNoGiveBack : Cfg := Cfg.withMFound (fun m => { m with hasperrGivesBack := false })
def cfgNoKeep : Cfg := Cfg.withM (fun m => { m with hasperrKeepsLock := false })
/-- the machine keeps the lock and closes `compLockedC`, but `Close` still does the plain send -/
def cfgNoCloseSel : Cfg := { Cfg.repaired with closeSel := false }

/-- `SetReadOnly` returned nil; `Close` (thread 1) has closed `closeC`, both compaction goroutines have exited -/
def stROClose (e : Eh) : St :=
  { ws := [.ret true, .clAcq], tok := true, ehTok := true, cwl := true, ro := true, ehErr := .readonly, eh := e,
    closed := true, mc := .exited, tc := .exited }

macro "run_ro_close" c:term : tactic => `(tactic| (
  have h : Steps $c (init 2) (stRO .idle) := by run_ro $c
  have h := h.step (Step.startClose _ 1 rfl)
  have h := h.step (Step.clCheckTr _ 1 rfl)
  have h := h.step (Step.bgExitIdle _ false rfl rfl)
  have h := h.step (Step.bgExitIdle _ true rfl rfl)
  exact h))

theorem runNoHasperrClose : Steps cfgNoHasperrClose (init 2) (stROClose .hasperr) := by run_ro_close cfgNoHasperrClose

theorem runNoGiveBack : Steps cfgNoGiveBack (init 2) (stROClose .exited) :=
  (show Steps cfgNoGiveBack (init 2) (stROClose .hasperr) by run_ro_close cfgNoGiveBack).step (Step.ehClose _ rfl rfl)

theorem runNoKeep : Steps cfgNoKeep (init 2) (stROClose .exited) :=
  (show Steps cfgNoKeep (init 2) (stROClose .hasperr) by run_ro_close cfgNoKeep).step (Step.ehClose _ rfl rfl)

/-- the machine is in the `closeC` case (it closes `compLockedC` and returns: nothing `Close`'s plain send could see) -/
theorem runNoCloseSel : Steps cfgNoCloseSel (init 2) (stROClose .closing) :=
  (show Steps cfgNoCloseSel (init 2) (stROClose .hasperr) by run_ro_close cfgNoCloseSel).step (Step.ehClose _ rfl rfl)

/-! ### `hasperr` without `case db.writeLockC <- struct{}{}` -/

def cfgNoLock : Cfg := Cfg.withM (fun m => { m with hasperrLock := false })

/-- a table compaction (for thread 0's `CompactRange`) hit a corruption: the machine is in `hasperr` -/
def stCorrupt (p : Pc) (tok : Bool) : St :=
  { ws := [.ret false, p], tok := tok, ehErr := .corrupt, eh := .hasperr, tc := .exited }

macro "run_corrupt" c:term : tactic => `(tactic| (
  have h := Steps.refl (cfg := $c) (init 2)
  have h := h.step (Step.startCR _ 0 rfl)
  have h := h.step (Step.selTok _ 0 .crSel .crCheck rfl rfl rfl)
  have h := h.step (Step.crNoOverlap _ 0 rfl)
  have h := h.step (Step.crRelOk _ 0 rfl)
  have h := h.step (Step.cwSendGo _ 0 true .crRange false rfl rfl rfl)
  have h := h.step (Step.bgWorkCorrupt _ true (some 0) rfl rfl)
  have h := h.step (Step.bgSetErrCorrupt _ true (some 0) false rfl rfl)
  have h := h.step (Step.cwAckErr _ 0 true .crRange false rfl (Or.inl rfl))
  exact h))

theorem runCorrupt : Steps Cfg.repaired (init 2) (stCorrupt .idle false) := by run_corrupt Cfg.repaired
theorem runCorruptNoLock : Steps cfgNoLock (init 2) (stCorrupt .idle false) := by run_corrupt cfgNoLock

/-- … and a `Put` (thread 1) goes through -/
theorem runNoLock_put : Steps cfgNoLock (stCorrupt .idle false) (stCorrupt (.ret true) false) := by
  have h := Steps.refl (cfg := cfgNoLock) (stCorrupt .idle false)
  have h := h.step (Step.startPut _ 1 rfl)
  have h := h.step (Step.selTok _ 1 .putSel .putFlush rfl rfl rfl)
  have h := h.step (Step.putNoWait _ 1 rfl)
  have h := h.step (Step.putJournalOk _ 1 rfl)
  have h := h.step (Step.putUnlock _ 1 true rfl)
  exact h

/-! ### the configuration before 832d000: the write lock is lost -/

/-- `CompactRange` (thread 0) ran into a corruption while `SetReadOnly` (thread 1) was between its two `select`s;
`Close` (thread 2): `compactionError` took `SetReadOnly`'s token on `closeC` (it read the `compWriteLocking` that
`SetReadOnly` had set), `Close` acquired the lock and waits for the goroutines, `SetReadOnly`'s `closeC` arm took
`Close`'s token out.  A `Put` (thread 3) that started before `Close` is in its `select`. -/
def stLost : St :=
  { ws := [.ret false, .ret false, .clWait, .putSel], tok := false, closeTok := true, cwl := true, closed := true,
    ehErr := .corrupt, eh := .exited, tc := .exited }

theorem runLost : Steps Cfg.before832 (init 4) stLost := by
  have h := Steps.refl (cfg := Cfg.before832) (init 4)
  have h := h.step (Step.startCR _ 0 rfl)
  have h := h.step (Step.selTok _ 0 .crSel .crCheck rfl rfl rfl)
  have h := h.step (Step.crNoOverlap _ 0 rfl)
  have h := h.step (Step.crRelOk _ 0 rfl)
  have h := h.step (Step.cwSendGo _ 0 true .crRange false rfl rfl rfl)
  have h := h.step (Step.startPut _ 3 rfl)
  have h := h.step (Step.startSR _ 1 rfl rfl)
  have h := h.step (Step.selTok _ 1 .srSel .srSet rfl rfl rfl)
  have h := h.step (Step.bgWorkCorrupt _ true (some 0) rfl rfl)
  have h := h.step (Step.bgSetErrCorrupt _ true (some 0) false rfl rfl)
  have h := h.step (Step.cwAckErr _ 0 true .crRange false rfl (Or.inl rfl))
  have h := h.step (Step.startClose _ 2 rfl)
  have h := h.step (Step.clCheckTr _ 2 rfl)
  have h := h.step (Step.ehClose _ rfl rfl)
  have h := h.step (Step.ehTake _ rfl rfl rfl)
  have h := h.step (Step.clAcq _ 2 rfl rfl)
  have h := h.step (Step.srClosed _ 1 rfl rfl)
  exact h

/-- … and takes the `writeLockC` arm: the writer is inside `writeLocked` while `Close` owns the lock -/
theorem stepLost : Step Cfg.before832 false stLost
    { stLost with ws := [.ret false, .ret false, .clWait, .putFlush], tok := true } :=
  Step.selTok stLost 3 .putSel .putFlush rfl rfl rfl

/-! ### the code's configuration: the same schedule keeps the lock with `Close` -/

/-- `compactionError` leaves `hasperr` without touching `writeLockC` (`compWriteLocking` is not set: it has not
taken `ErrReadOnly`), `SetReadOnly` takes its own token back, `Close` acquires the lock and keeps it -/
def stKept : St :=
  { ws := [.ret false, .ret false, .clWait, .putSel], tok := true, closeTok := true, closed := true,
    ehErr := .corrupt, eh := .exited, tc := .exited }

theorem runKept : Steps Cfg.repaired (init 4) stKept := by
  have h := Steps.refl (cfg := Cfg.repaired) (init 4)
  have h := h.step (Step.startCR _ 0 rfl)
  have h := h.step (Step.selTok _ 0 .crSel .crCheck rfl rfl rfl)
  have h := h.step (Step.crNoOverlap _ 0 rfl)
  have h := h.step (Step.crRelOk _ 0 rfl)
  have h := h.step (Step.cwSendGo _ 0 true .crRange false rfl rfl rfl)
  have h := h.step (Step.startPut _ 3 rfl)
  have h := h.step (Step.startSR _ 1 rfl rfl)
  have h := h.step (Step.selTok _ 1 .srSel .srSet rfl rfl rfl)
  have h := h.step (Step.bgWorkCorrupt _ true (some 0) rfl rfl)
  have h := h.step (Step.bgSetErrCorrupt _ true (some 0) false rfl rfl)
  have h := h.step (Step.cwAckErr _ 0 true .crRange false rfl (Or.inl rfl))
  have h := h.step (Step.startClose _ 2 rfl)
  have h := h.step (Step.clCheckTr _ 2 rfl)
  have h := h.step (Step.ehClose _ rfl rfl)
  have h := h.step (Step.srClosed _ 1 rfl rfl)
  have h := h.step (Step.clAcq _ 2 rfl rfl)
  exact h

/-! ### the code's configuration: `SetReadOnly` during the retry loop of a failing compaction, then `Close` -/

def stRetryRO : St :=
  { ws := [.ret false, .ret true, .ret true], tok := true, closeTok := true, cwl := true, ro := true,
    ehErr := .readonly, closed := true, eh := .exited, mc := .exited, tc := .exited }

theorem runRetryRO : Steps Cfg.repaired (init 3) stRetryRO := by
  have h := Steps.refl (cfg := Cfg.repaired) (init 3)
  -- thread 0: CompactRange; the table compaction fails (transient) and backs off
  have h := h.step (Step.startCR _ 0 rfl)
  have h := h.step (Step.selTok _ 0 .crSel .crCheck rfl rfl rfl)
  have h := h.step (Step.crNoOverlap _ 0 rfl)
  have h := h.step (Step.crRelOk _ 0 rfl)
  have h := h.step (Step.cwSendGo _ 0 true .crRange false rfl rfl rfl)
  have h := h.step (Step.bgWorkFail _ true (some 0) rfl)
  have h := h.step (Step.bgSetErr _ true (some 0) false false rfl rfl)
  -- thread 1: SetReadOnly, in `haserr`: goes to `hasperr`, returns nil
  have h := h.step (Step.startSR _ 1 rfl rfl)
  have h := h.step (Step.selTok _ 1 .srSel .srSet rfl rfl rfl)
  have h := h.step (Step.srSend _ 1 rfl rfl)
  have h := h.step (Step.cwAckErr _ 0 true .crRange false rfl (Or.inl rfl))
  -- the retry succeeds, reports through `compPerErrC`, commits, `tCompaction` parks
  have h := h.step (Step.bgBackoff _ true none false rfl)
  have h := h.step (Step.bgWorkOk _ true none rfl)
  have h := h.step (Step.bgSetErrPer _ true none false rfl rfl)
  have h := h.step (Step.bgLockClk _ true none rfl rfl)
  have h := h.step (Step.bgCommitOk _ true none rfl)
  have h := h.step (Step.bgSetErrPer _ true none true rfl rfl)
  have h := h.step (Step.bgAck _ true none rfl)
  -- thread 2: Close
  have h := h.step (Step.startClose _ 2 rfl)
  have h := h.step (Step.clCheckTr _ 2 rfl)
  have h := h.step (Step.ehClose _ rfl rfl)
  have h := h.step (Step.clAcqKept _ 2 rfl rfl rfl rfl)
  have h := h.step (Step.bgExitIdle _ false rfl rfl)
  have h := h.step (Step.bgExitParked _ rfl rfl)
  have h := h.step (Step.clWait _ 2 rfl rfl rfl)
  exact h

/-! ### the configuration as found: a write slips through a read-only DB while it is being closed -/

/-- `SetReadOnly` (thread 0) returned nil; a `Put` (thread 1) started afterwards and is at its `select`; `Close`
(thread 2) closed `closeC`, `compactionError` gave its token back and exited — before `Close` takes the lock the
`Put` takes the `writeLockC` arm (all three arms of its `select` are ready but `compPerErrC`), writes and returns
nil -/
def stROWrite : St :=
  { ws := [.ret true, .ret true, .clAcq], tok := false, cwl := true, ro := true, ehErr := .readonly, eh := .exited,
    closed := true }

theorem runROWrite : Steps Cfg.asFound (init 3) stROWrite := by
  have h := Steps.refl (cfg := Cfg.asFound) (init 3)
  have h := h.step (Step.startSR _ 0 rfl rfl)
  have h := h.step (Step.selTok _ 0 .srSel .srSet rfl rfl rfl)
  have h := h.step (Step.srSend _ 0 rfl rfl)
  have h := h.step (Step.startPut _ 1 rfl)
  have h := h.step (Step.startClose _ 2 rfl)
  have h := h.step (Step.clCheckTr _ 2 rfl)
  have h := h.step (Step.ehClose _ rfl rfl)
  have h := h.step (Step.ehTake _ rfl rfl rfl)
  have h := h.step (Step.selTok _ 1 .putSel .putFlush rfl rfl rfl)
  have h := h.step (Step.putNoWait _ 1 rfl)
  have h := h.step (Step.putJournalOk _ 1 rfl)
  have h := h.step (Step.putUnlock _ 1 true rfl)
  exact h

/-- the state of `runROWrite` just before the write takes the lock: `compactionError` has given its token back and
exited, `writeLockC` is empty, the `Put` (thread 1) and `Close` (thread 2) both want it -/
def stROGap : St :=
  { ws := [.ret true, .putSel, .clAcq], tok := false, cwl := true, ro := true, ehErr := .readonly, eh := .exited,
    closed := true }

theorem runROGap : Steps Cfg.asFound (init 3) stROGap := by
  have h := Steps.refl (cfg := Cfg.asFound) (init 3)
  have h := h.step (Step.startSR _ 0 rfl rfl)
  have h := h.step (Step.selTok _ 0 .srSel .srSet rfl rfl rfl)
  have h := h.step (Step.srSend _ 0 rfl rfl)
  have h := h.step (Step.startPut _ 1 rfl)
  have h := h.step (Step.startClose _ 2 rfl)
  have h := h.step (Step.clCheckTr _ 2 rfl)
  have h := h.step (Step.ehClose _ rfl rfl)
  have h := h.step (Step.ehTake _ rfl rfl rfl)
  exact h

theorem stepROGap : Step Cfg.asFound false stROGap { stROGap with ws := [.ret true, .putFlush, .clAcq], tok := true } :=
  Step.selTok stROGap 1 .putSel .putFlush rfl rfl rfl

/-! ### the code's configuration: the same schedule — the lock never leaves `writeLockC` -/

/-- `SetReadOnly` (thread 0) returned nil; a `Put` (thread 1) started afterwards and is at its `select`; `Close`
(thread 2) closed `closeC`; `compactionError` keeps the lock and closes `compLockedC`, `Close` takes that arm: the
`Put` can only return (`ErrClosed` here), `Close` returns -/
def stROKept : St :=
  { ws := [.ret true, .ret false, .ret true], tok := true, closeTok := true, cwl := true, ro := true,
    ehErr := .readonly, eh := .exited, closed := true, mc := .exited, tc := .exited }

theorem runROKept : Steps Cfg.repaired (init 3) stROKept := by
  have h := Steps.refl (cfg := Cfg.repaired) (init 3)
  have h := h.step (Step.startSR _ 0 rfl rfl)
  have h := h.step (Step.selTok _ 0 .srSel .srSet rfl rfl rfl)
  have h := h.step (Step.srSend _ 0 rfl rfl)
  have h := h.step (Step.startPut _ 1 rfl)
  have h := h.step (Step.startClose _ 2 rfl)
  have h := h.step (Step.clCheckTr _ 2 rfl)
  have h := h.step (Step.ehClose _ rfl rfl)
  have h := h.step (Step.clAcqKept _ 2 rfl rfl rfl rfl)
  have h := h.step (Step.selClosed _ 1 .putSel .putFlush rfl rfl rfl)
  have h := h.step (Step.bgExitIdle _ false rfl rfl)
  have h := h.step (Step.bgExitIdle _ true rfl rfl)
  have h := h.step (Step.clWait _ 2 rfl rfl rfl)
  exact h

end GoLevel.Locks
