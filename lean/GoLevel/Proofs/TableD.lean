import GoLevel.Model.Table
import GoLevel.Proofs.TableAux
/-! C13(g): a single altered byte inside payload ‖ type ‖ checksum of a block is detected by `readRawBlock`
with verification on.  The checksum is abstract; what is needed from it is `DetectsSingle`. -/
namespace GoLevel.C13
open GoLevel GoLevel.TableAux

/-- altering one position of the input changes the checksum (proved for CRC32C elsewhere) -/
def DetectsSingle (cksum : Bytes → Nat) : Prop :=
  ∀ (bs : Bytes) (i : Nat) (b : UInt8) (h : i < bs.length), b ≠ bs[i] → cksum (bs.set i b) ≠ cksum bs

theorem rdLE_set_ne : ∀ (l : Bytes) (j : Nat) (b : UInt8) (h : j < l.length), b ≠ l[j] →
    rdLE (l.set j b) ≠ rdLE l := by
  intro l
  induction l with
  | nil => intro j b h; simp at h
  | cons x t ih =>
    intro j b h hne
    cases j with
    | zero =>
      simp only [List.set_cons_zero, rdLE]
      have : b.toNat ≠ x.toNat := fun e => hne (by simpa using UInt8.toNat_inj.mp e)
      omega
    | succ j =>
      simp only [List.set_cons_succ, rdLE]
      have := ih j b (by simpa using h) (by simpa using hne)
      omega

/-- the raw block `readRawBlock` looks at -/
def rawSlice (file : Bytes) (bh : BH) : Bytes := (file.drop bh.offset).take (bh.length + Gen.blockTrailerLen)

/-- C13(g): if the block at `bh` verifies, then after altering any single byte of payload ‖ type ‖ checksum the
read reports corruption -/
theorem readRawBlock_damage {cksum : Bytes → Nat} (hd : DetectsSingle cksum) (file : Bytes) (bh : BH)
    (hin : bh.offset + bh.length + Gen.blockTrailerLen ≤ file.length)
    (hok : rd32 ((rawSlice file bh).drop (bh.length + 1)) = cksum ((rawSlice file bh).take (bh.length + 1)))
    (i : Nat) (b : UInt8) (hlo : bh.offset ≤ i) (hhi : i < bh.offset + bh.length + Gen.blockTrailerLen)
    (hne : b ≠ file[i]'(by omega)) :
    readRawBlock cksum (file.set i b) bh true = none := by
  have h5 : Gen.blockTrailerLen = 5 := rfl
  rw [h5] at hin hhi
  have hslice : ((file.set i b).drop bh.offset).take (bh.length + 5) = (rawSlice file bh).set (i - bh.offset) b := by
    rw [List.drop_set, if_neg (by omega), List.take_set, rawSlice, h5]
  have hlen : (rawSlice file bh).length = bh.length + 5 := by
    simp only [rawSlice, h5, List.length_take, List.length_drop]; omega
  have hget : (rawSlice file bh)[i - bh.offset]'(by omega) = file[i]'(by omega) := by
    simp only [rawSlice, List.getElem_take, List.getElem_drop]
    congr 1; omega
  unfold readRawBlock
  simp only [h5, hslice, List.length_set, hlen, Nat.lt_irrefl, if_false, Bool.true_and]
  have hmis : rd32 (((rawSlice file bh).set (i - bh.offset) b).drop (bh.length + 1)) ≠
      cksum (((rawSlice file bh).set (i - bh.offset) b).take (bh.length + 1)) := by
    by_cases hj : i - bh.offset < bh.length + 1
    · rw [List.drop_set_of_lt hj, List.take_set, hok]
      have hl2 : i - bh.offset < ((rawSlice file bh).take (bh.length + 1)).length := by
        simp only [List.length_take, hlen]; omega
      have := hd ((rawSlice file bh).take (bh.length + 1)) (i - bh.offset) b hl2
        (by rw [List.getElem_take, hget]; exact hne)
      exact fun e => this e.symm
    · rw [List.take_set_of_le (by omega), List.drop_set, if_neg hj, ← hok]
      have hl4 : ((rawSlice file bh).drop (bh.length + 1)).length = 4 := by
        simp only [List.length_drop, hlen]; omega
      have hset4 : (((rawSlice file bh).drop (bh.length + 1)).set (i - bh.offset - (bh.length + 1)) b).length = 4 := by
        rw [List.length_set, hl4]
      simp only [rd32]
      rw [List.take_of_length_le (by omega), List.take_of_length_le (by omega)]
      exact rdLE_set_ne _ _ b (by omega) (by
        rw [List.getElem_drop]
        have : (rawSlice file bh)[bh.length + 1 + (i - bh.offset - (bh.length + 1))]'(by omega) =
            (rawSlice file bh)[i - bh.offset]'(by omega) := by congr 1; omega
        rw [this, hget]; exact hne)
  have : (rd32 (((rawSlice file bh).set (i - bh.offset) b).drop (bh.length + 1)) !=
      cksum (((rawSlice file bh).set (i - bh.offset) b).take (bh.length + 1))) = true := by
    simpa using hmis
  simp [this]

end GoLevel.C13
