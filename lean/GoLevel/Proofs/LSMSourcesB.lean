import GoLevel.Proofs.LSMLookup
/-!
Boolean checker for the source-ordering hypotheses of `C01.dbGet_spec` (no auxiliary sources): used by the
trace validator on every dumped state of the real DB (`lsm state …`); `C01.sourcesOKB_sound` connects it to
`C01.SourcesOK`.
-/
namespace GoLevel

def sourcesOKB (c : UCmp) (mem : List Entry) (frozen : Option (List Entry)) (v : Version) : Bool :=
  sortedB c mem && decide (KindsOK mem) &&
  sortedB c (frozen.getD []) && decide (KindsOK (frozen.getD [])) &&
  v.wfB c && decide (UniqSeq (Level.entries (v.levels.headD []))) &&
  newerThanB c mem (frozen.getD [] ++ v.entries) && newerThanB c (frozen.getD []) v.entries

end GoLevel
