import GoLevel.Model.Durable
/-!
# The invariant of the durable state machine (fault-free core)

Everything here is a decidable proposition over lists, so that it can also be *run* on explored states.
`Inv cfg s d` is what `Proofs/Durable*.lean` show inductive for the sub-protocol
{write groups, `newMem`, memdb flush, manifest rotation, crash, recovery}.
-/
namespace GoLevel.Dur

/-- `o` is `some a` with `P a` -/
def Holds {α : Type} (o : Option α) (P : α → Prop) : Prop :=
  match o with
  | none => False
  | some a => P a

instance {α : Type} (o : Option α) (P : α → Prop) [DecidablePred P] : Decidable (Holds o P) := by
  unfold Holds; cases o <;> infer_instance

/-- `o` is `none`, or `some a` with `P a` -/
def Holds' {α : Type} (o : Option α) (P : α → Prop) : Prop :=
  match o with
  | none => True
  | some a => P a

instance {α : Type} (o : Option α) (P : α → Prop) [DecidablePred P] : Decidable (Holds' o P) := by
  unfold Holds'; cases o <;> infer_instance

theorem holds_iff {α : Type} {o : Option α} {P : α → Prop} : Holds o P ↔ ∃ a, o = some a ∧ P a := by
  cases o <;> simp [Holds]

/-- sequence ranges do not overlap (or it is the same group) -/
def Disj (g h : Grp) : Prop := g = h ∨ g.fin ≤ h.seq ∨ h.fin ≤ g.seq

instance (g h : Grp) : Decidable (Disj g h) := by unfold Disj; infer_instance

/-- a journal's records as the recovery loop wants them: non-empty groups, each starting no lower than
    where the previous one ended -/
def AscFrom : Nat → List Grp → Prop
  | _, [] => True
  | s, g :: gs => s ≤ g.seq ∧ g.recs ≠ [] ∧ AscFrom g.fin gs

instance : (s : Nat) → (l : List Grp) → Decidable (AscFrom s l)
  | _, [] => isTrue trivial
  | s, g :: gs =>
    have := instDecidableAscFrom g.fin gs
    by unfold AscFrom; infer_instance

/-- the manifest `CURRENT` names -/
def curManifest (d : Disk) : Option (LogFile MRec) := d.current.bind (lookup d.manifests)

/-- what `session.recover` would establish if exactly `k` of the unsynced records were on disk -/
def viewAt (cfg : Cfg) (mf : LogFile MRec) (k : Nat) : Option MView :=
  (replayM cfg (mf.synced ++ mf.unsynced.take k)).view?

def tableGrpsOf (d : Disk) (t : Nat) : List Grp := ((lookup d.tables t).map (·.grps)).getD []

/-- the groups held by the live tables of a view -/
def liveGrps (d : Disk) (v : MView) : List Grp := v.live.flatMap (tableGrpsOf d)

/-- the journal files `recoverJournal` would replay under a view -/
def relJournals (d : Disk) (jn : Nat) : Files (LogFile Grp) := d.journals.filter (jn ≤ ·.1)

def issuedGrps (s : St) : List Grp := s.issued.map (·.grp)

/-- the groups that must survive a crash: acknowledged with `Sync`, or synced and about to be
    acknowledged -/
def must (s : St) : List Grp :=
  ((s.issued.filter fun i => i.status = .acked ∧ i.grp.sync = true).map (·.grp)) ++
  (match s.w with
   | .synced g | .applied g | .published g => if g.sync then [g] else []
   | _ => [])

/-- everything `Open` needs of one manifest view.  A record in a journal the view replays may lie below the view's
    sequence number (the record of a failed write, overtaken by the commit of a transaction): `recoverJournal`
    skips it (`replayJ`), so it must not be one that has to survive (`jseq`); whatever is in those journals is
    disjoint from what the tables hold (`tj`). -/
structure ViewOK (d : Disk) (must issued : List Grp) (v : MView) : Prop where
  tables : ∀ t ∈ v.live, t < v.nf ∧ Holds (lookup d.tables t) fun tf => tf.synced = true ∧ tf.bad = false
  tseq : ∀ g ∈ liveGrps d v, g.fin ≤ v.sq + 1 ∧ g ∈ issued ∧ g.recs ≠ []
  tdisj : ∀ g ∈ liveGrps d v, ∀ h ∈ liveGrps d v, Disj g h
  jseq : ∀ p ∈ relJournals d v.jn, ∀ g ∈ p.2.all, (v.sq ≤ g.seq ∨ g ∉ must) ∧ g ∈ issued
  tj : ∀ g ∈ liveGrps d v, ∀ p ∈ relJournals d v.jn, ∀ h ∈ p.2.all, Disj g h
  cover : ∀ g ∈ must, g ∈ liveGrps d v ∨ ∃ p ∈ relJournals d v.jn, g ∈ p.2.synced
  /-- the journal number was allocated before the record's next-file number was read -/
  jnf : v.jn < v.nf

instance (d : Disk) (must issued : List Grp) (v : MView) : Decidable (ViewOK d must issued v) :=
  decidable_of_iff
    ((∀ t ∈ v.live, t < v.nf ∧ Holds (lookup d.tables t) fun tf => tf.synced = true ∧ tf.bad = false) ∧
     (∀ g ∈ liveGrps d v, g.fin ≤ v.sq + 1 ∧ g ∈ issued ∧ g.recs ≠ []) ∧
     (∀ g ∈ liveGrps d v, ∀ h ∈ liveGrps d v, Disj g h) ∧
     (∀ p ∈ relJournals d v.jn, ∀ g ∈ p.2.all, (v.sq ≤ g.seq ∨ g ∉ must) ∧ g ∈ issued) ∧
     (∀ g ∈ liveGrps d v, ∀ p ∈ relJournals d v.jn, ∀ h ∈ p.2.all, Disj g h) ∧
     (∀ g ∈ must, g ∈ liveGrps d v ∨ ∃ p ∈ relJournals d v.jn, g ∈ p.2.synced) ∧ v.jn < v.nf)
    ⟨fun ⟨a, b, c, e, f, g, h⟩ => ⟨a, b, c, e, f, g, h⟩, fun ⟨a, b, c, e, f, g, h⟩ => ⟨a, b, c, e, f, g, h⟩⟩

/-- the disk as every crash image must find it -/
structure DiskOK (cfg : Cfg) (d : Disk) (must issued : List Grp) : Prop where
  jsorted : d.journals.Pairwise (fun p q => p.1 < q.1)
  tnodup : d.tables.Pairwise (fun p q => p.1 ≠ q.1)
  mnodup : d.manifests.Pairwise (fun p q => p.1 ≠ q.1)
  /-- `CURRENT` names a manifest; every admissible prefix of it is a good view; the journal number never
      decreases along it; the journals relevant for the oldest admissible view are well ordered -/
  range : Holds (curManifest d) fun mf => Holds (viewAt cfg mf 0) fun v0 =>
    (∀ k ≤ mf.unsynced.length, Holds (viewAt cfg mf k) fun v => ViewOK d must issued v ∧ v0.jn ≤ v.jn) ∧
    (∀ p ∈ relJournals d v0.jn, AscFrom 0 p.2.all) ∧
    (∀ p ∈ relJournals d v0.jn, ∀ q ∈ relJournals d v0.jn, p.1 < q.1 →
      ∀ g ∈ p.2.all, ∀ h ∈ q.2.all, g.fin ≤ h.seq)

instance (cfg : Cfg) (d : Disk) (must issued : List Grp) : Decidable (DiskOK cfg d must issued) :=
  decidable_of_iff
    (d.journals.Pairwise (fun p q => p.1 < q.1) ∧ d.tables.Pairwise (fun p q => p.1 ≠ q.1) ∧
     d.manifests.Pairwise (fun p q => p.1 ≠ q.1) ∧
     Holds (curManifest d) fun mf => Holds (viewAt cfg mf 0) fun v0 =>
      (∀ k ≤ mf.unsynced.length, Holds (viewAt cfg mf k) fun v => ViewOK d must issued v ∧ v0.jn ≤ v.jn) ∧
      (∀ p ∈ relJournals d v0.jn, AscFrom 0 p.2.all) ∧
      (∀ p ∈ relJournals d v0.jn, ∀ q ∈ relJournals d v0.jn, p.1 < q.1 →
        ∀ g ∈ p.2.all, ∀ h ∈ q.2.all, g.fin ≤ h.seq))
    ⟨fun ⟨a, b, c, e⟩ => ⟨a, b, c, e⟩, fun ⟨a, b, c, e⟩ => ⟨a, b, c, e⟩⟩


/-! ## state-dependent part -/

/-- the view of the whole current manifest (what the running process has written) -/
def lastView (cfg : Cfg) (d : Disk) : Option MView :=
  (curManifest d).bind fun mf => viewAt cfg mf mf.unsynced.length

/-- the group the writer has journalled but not yet put into the memdb -/
def inflight : WPc → List Grp
  | .appended g => [g]
  | .synced g => [g]
  | _ => []

/-- the view the session holds in memory equals the manifest's -/
def Mirror (s : St) (v : MView) : Prop := v.live = s.live ∧ v.jn = s.stJn ∧ v.sq = s.stSq

/-- … or it is the manifest's view once the job's edit has been installed -/
def MirrorE (s : St) (e : MRec) (v : MView) : Prop :=
  v.live = applyEdit s.live e ∧ v.jn = e.jn.getD s.stJn ∧ v.sq = e.sq.getD s.stSq

/-- … or, between a commit that failed after its edit reached the manifest `CURRENT` names and the next successful
    `newManifest`, that view is one edit (`St.limbo`) ahead of the session -/
def MirrorL (s : St) (v : MView) : Prop :=
  match s.limbo with
  | none => Mirror s v
  | some u => MirrorE s u v

instance (s : St) (v : MView) : Decidable (Mirror s v) := by unfold Mirror; infer_instance
instance (s : St) (e : MRec) (v : MView) : Decidable (MirrorE s e v) := by unfold MirrorE; infer_instance
instance (s : St) (v : MView) : Decidable (MirrorL s v) := by unfold MirrorL; split <;> infer_instance

/-- the view of the manifest `CURRENT` names is `P`; if this process has written it (`manifestOpen`), it has
    no unsynced tail (the manifest inherited from a previous process may have one after a clean exit) -/
def Settled (cfg : Cfg) (s : St) (d : Disk) (P : MView → Prop) : Prop :=
  Holds (curManifest d) fun mf => (s.manifestOpen = true → s.limbo = none → mf.unsynced = []) ∧ Holds (lastView cfg d) P

instance (cfg : Cfg) (s : St) (d : Disk) (P : MView → Prop) [DecidablePred P] : Decidable (Settled cfg s d P) := by
  unfold Settled; infer_instance

def outsGrps (j : Job) : List Grp := j.outs.flatMap (·.2)

/-- has the edit not reached the manifest `CURRENT` names yet? -/
def JPc.beforeCommit : JPc → Bool
  | .tCreate _ | .tWrite _ | .tSync _ | .mkJournal | .append | .rotWrite _ | .rotSync _ | .rotSetMeta _ => true
  | _ => false

/-- are all output tables on disk, complete and synced? -/
def JPc.tablesDone : JPc → Bool
  | .tCreate _ | .tWrite _ | .tSync _ => false
  | _ => true

/-- the removals after the commit -/
def JPc.post : JPc → Bool
  | .rmJ _ | .rmT _ | .rmM _ | .done => true
  | _ => false

/-- a transaction's edit is in the manifest, `db.setSeq(tr.seq)` is still to come -/
def TrWindow (s : St) : Prop :=
  Holds s.job fun j => j.kind = .tr ∧ (j.pc.beforeCommit = false ∨ s.limbo.isSome = true)

instance (s : St) : Decidable (TrWindow s) := by unfold TrWindow; infer_instance

/-- the sequence number the edit of job `j` may carry: `db.seq`, for a transaction its own last number -/
def sqCap (s : St) (j : Job) : Nat :=
  if j.kind = .tr then (match s.tr with | some g => g.fin - 1 | none => s.seq) else s.seq

/-- the largest sequence number a manifest record can carry: `db.seq`, except between the commit of a
    transaction and its `setSeq` -/
def seqHi (s : St) : Nat :=
  match s.job with
  | some j => if j.pc.beforeCommit = false ∨ s.limbo.isSome = true then sqCap s j else s.seq
  | none => s.seq

/-- facts about the views of the admissible range that involve the in-memory state -/
def ViewBounds (cfg : Cfg) (s : St) (d : Disk) : Prop :=
  Holds (curManifest d) fun mf => ∀ k ≤ mf.unsynced.length, Holds (viewAt cfg mf k) fun v =>
    v.sq ≤ seqHi s ∧ v.nf ≤ s.nextFile ∧ (s.phase = .running → v.jn ≤ s.jcur)

instance (cfg : Cfg) (s : St) (d : Disk) : Decidable (ViewBounds cfg s d) := by unfold ViewBounds; infer_instance

/-- the session's manifest descriptor is `CURRENT`, except between `SetMeta` and the adoption of the new
    manifest -/
def MfdOK (s : St) (d : Disk) : Prop :=
  match s.job.map (·.pc) with
  | some (JPc.rotRemove m) => d.current = some m
  | _ => s.manifestFd = d.current ∨
      (s.limbo.isSome = true ∧ Holds s.manifestFd fun o => Holds d.current fun c => o < c)

instance (s : St) (d : Disk) : Decidable (MfdOK s d) := by unfold MfdOK; split <;> infer_instance

/-- no job, or its edit is not in the manifest yet -/
def NoCommitYet (s : St) : Prop := Holds' s.job fun j => j.pc.beforeCommit = true

instance (s : St) : Decidable (NoCommitYet s) := by unfold NoCommitYet; infer_instance

/-- the session has not installed the job's edit: it is not in the manifest, or in the file but not yet synced (a
    failing `Sync` takes the job back to `append`) -/
def JPc.uninstalled : JPc → Bool
  | .sync => true
  | pc => pc.beforeCommit

theorem JPc.uninstalled_of_bc {pc : JPc} (h : pc.beforeCommit = true) : pc.uninstalled = true := by
  cases pc <;> first | rfl | cases h

/-- no memdb flush has installed its edit (a table compaction does not count: its edit changes neither the journal nor
    the sequence number): the frozen journal is still there, the session's numbers are at or below it -/
def FlushPending (s : St) : Prop := Holds' s.job fun j => j.kind = .flush → j.pc.uninstalled = true

instance (s : St) : Decidable (FlushPending s) := by unfold FlushPending; infer_instance

theorem NoCommitYet.flushPending {s : St} (h : NoCommitYet s) : FlushPending s := by
  unfold NoCommitYet at h; unfold FlushPending
  cases hj : s.job with
  | none => trivial
  | some j => rw [hj] at h; exact fun _ => JPc.uninstalled_of_bc h

/-- sequence numbers around the group in flight -/
def WSeqOK (s : St) : Prop :=
  match s.w with
  | .idle => ∀ h ∈ s.mem, h.fin ≤ s.seq + 1
  | .appended g | .synced g =>
    g.seq = s.seq + 1 ∧ g.recs ≠ [] ∧ g ∈ issuedGrps s ∧ ∀ h ∈ s.mem, h.fin ≤ s.seq + 1
  | .applied g => g.seq = s.seq + 1 ∧ g.recs ≠ [] ∧ ∀ h ∈ s.mem, h = g ∨ h.fin ≤ s.seq + 1
  | .published _ => ∀ h ∈ s.mem, h.fin ≤ s.seq + 1

instance (s : St) : Decidable (WSeqOK s) := by unfold WSeqOK; split <;> infer_instance

/-- a journal file holds the groups `content` (the write buffer whose journal it is); it may hold more: the
    record of a write whose journal `Write`/`Sync` failed may have reached the file.  Such a record is never one
    that must survive, and it ends at or below `bound + 1` (its sequence numbers are consumed).  As long as no
    journal operation of the write path has failed (ghost `St.everFailed`) the file holds exactly `content`. -/
def JournalHolds (s : St) (jf : LogFile Grp) (content : List Grp) (bound : Nat) : Prop :=
  (∀ g ∈ content, g ∈ jf.all) ∧ (∀ g ∈ jf.all, g ∈ must s → g ∈ content) ∧
  (∀ g ∈ jf.all, g ∈ content ∨ g.fin ≤ bound + 1) ∧
  (s.everFailed = false → ∀ g ∈ jf.all, g ∈ content)

instance (s : St) (jf : LogFile Grp) (content : List Grp) (bound : Nat) : Decidable (JournalHolds s jf content bound) := by
  unfold JournalHolds; infer_instance

/-- a journal file nobody holds any more (its removal failed) has at most records of failed writes -/
def Stale0 (s : St) (jf : LogFile Grp) : Prop := ∀ g ∈ jf.all, g ∉ must s ∧ g.fin ≤ s.seq + 1

instance (s : St) (jf : LogFile Grp) : Decidable (Stale0 s jf) := by unfold Stale0; infer_instance

def Stale (s : St) (jf : LogFile Grp) : Prop :=
  Stale0 s jf ∧ (s.everFailed = false → jf.all = [])

instance (s : St) (jf : LogFile Grp) : Decidable (Stale s jf) := by unfold Stale; infer_instance

/-- the frozen buffer is the content of the frozen journal, and older than the current journal -/
def FrozenFacts (cfg : Cfg) (s : St) (d : Disk) (fz : List Grp) (jf : Nat) : Prop :=
  jf < s.jcur ∧ s.frozenSeq ≤ s.seq ∧ (∀ g ∈ fz, g.fin ≤ s.frozenSeq + 1) ∧
  (∀ p ∈ d.journals, p.1 = s.jcur → ∀ g ∈ p.2.all, s.frozenSeq < g.seq) ∧
  (∀ p ∈ d.journals, p.1 = jf → JournalHolds s p.2 fz s.frozenSeq) ∧
  (FlushPending s → (∃ p ∈ d.journals, p.1 = jf) ∧ s.stJn ≤ jf ∧ s.stSq ≤ s.frozenSeq)

instance (cfg : Cfg) (s : St) (d : Disk) (fz : List Grp) (jf : Nat) : Decidable (FrozenFacts cfg s d fz jf) := by
  unfold FrozenFacts; infer_instance

def FrozenOK (cfg : Cfg) (s : St) (d : Disk) : Prop :=
  match s.frozen, s.jfrozen with
  | none, none => True
  | some fz, some jf => FrozenFacts cfg s d fz jf
  | _, _ => False

instance (cfg : Cfg) (s : St) (d : Disk) : Decidable (FrozenOK cfg s d) := by
  unfold FrozenOK; split <;> infer_instance

theorem frozenOK_iff {cfg : Cfg} {s : St} {d : Disk} : FrozenOK cfg s d ↔
    (s.frozen = none ∧ s.jfrozen = none) ∨
    ∃ fz jf, s.frozen = some fz ∧ s.jfrozen = some jf ∧ FrozenFacts cfg s d fz jf := by
  unfold FrozenOK
  cases h1 : s.frozen <;> cases h2 : s.jfrozen <;> simp

/-- an open transaction holds the write lock; `OpenTransaction` has flushed the write buffer; the transaction's
    entries are numbered from `db.seq + 1` -/
def TrOK (s : St) : Prop :=
  Holds' s.tr fun g => s.w = .idle ∧ s.mem = [] ∧ s.frozen = none ∧ g.seq = s.seq + 1 ∧ g.sync = true

instance (s : St) : Decidable (TrOK s) := by unfold TrOK; infer_instance

/-- is the job at a pc of the retry of a commit through `newManifest`? -/
def JPc.retry : JPc → Bool
  | .append | .rotWrite _ | .rotSync _ | .rotSetMeta _ => true
  | _ => false

/-- the edit of a transaction that was discarded after its commit had failed: one table with one group, reported
    as failed, its sequence numbers consumed, below the outputs of any later job -/
def OrphanOK (s : St) (d : Disk) (u : MRec) : Prop :=
  u.deleted = [] ∧ u.jn = none ∧ Holds u.added.head? fun t => u.added = [t] ∧ t < s.nextFile ∧
    Holds (lookup d.tables t) fun tf => tf.synced = true ∧ tf.bad = false ∧ Holds tf.grps.head? fun g =>
      tf.grps = [g] ∧ u.sq = some (g.fin - 1) ∧ g ∉ must s ∧ g.recs ≠ [] ∧ g.fin ≤ s.seq + 1 ∧
      Holds' s.job fun j => ∀ o ∈ j.outs, t < o.1

instance (s : St) (d : Disk) (u : MRec) : Decidable (OrphanOK s d u) := by unfold OrphanOK; infer_instance

/-- what is known while the storage is one edit (`u = s.limbo`) ahead of the session: the session's tables lie below
    what the edit adds and their groups below the session's sequence number; the edit is that of the job that is
    retrying its commit, or that of a discarded transaction -/
def LimboFacts (s : St) (d : Disk) (u : MRec) : Prop :=
  s.manifestFailed = true ∧ u.torn = false ∧ u.snapshot = false ∧
    s.stJn ≤ u.jn.getD s.stJn ∧ s.stSq ≤ u.sq.getD s.stSq ∧
    (∀ t ∈ s.live, (∀ a ∈ u.added, t < a) ∧ ∀ g ∈ tableGrpsOf d t, g.fin ≤ s.stSq + 1) ∧
    (Holds' s.job fun j => j.edit = none ∨ j.pc.beforeCommit = true) ∧
    ((Holds s.job fun j => j.edit = some u ∧ j.pc.retry = true) ∨ OrphanOK s d u)

instance (s : St) (d : Disk) (u : MRec) : Decidable (LimboFacts s d u) := by unfold LimboFacts; infer_instance

def LimboOK (s : St) (d : Disk) : Prop := Holds' s.limbo (LimboFacts s d)

instance (s : St) (d : Disk) : Decidable (LimboOK s d) := by unfold LimboOK; infer_instance

/-- the writer and the buffers (running phase) -/
structure RunOK (cfg : Cfg) (s : St) (d : Disk) : Prop where
  norecov : s.recov = none ∧ TrOK s
  mfd : MfdOK s d ∧ s.manifestOpen = true
  /-- the current journal holds the groups of the write buffer, plus the one in flight (and possibly records of
      failed writes) -/
  jcur : Holds (lookup d.journals s.jcur) fun jf => JournalHolds s jf (s.mem ++ inflight s.w) s.seq
  /-- the current journal has the largest number — except for empty journals a failed `Create` of `newMem` left
      behind (`reuseFileNum` hands their number back: they lie at or above `nextFile` until a table, a manifest or
      the next journal takes the number) -/
  jmax : s.jcur < s.nextFile ∧ ∀ p ∈ d.journals, p.1 ≤ s.jcur ∨ p.2.all = []
  nums : (∀ p ∈ d.journals, p.1 < s.nextFile ∨ p.1 = s.nextFile ∧ p.2.all = []) ∧ Holds d.current (· < s.nextFile)
  wseq : WSeqOK s
  frozen : FrozenOK cfg s d
  /-- only the frozen and the current journal can be relevant -/
  rel : Holds (curManifest d) fun mf => Holds (viewAt cfg mf 0) fun v0 =>
    ∀ p ∈ d.journals, v0.jn ≤ p.1 → p.1 = s.jcur ∨ some p.1 = s.jfrozen ∨ Stale s p.2
  nojob : s.job = none → Settled cfg s d (MirrorL s)
  limbo : LimboOK s d

instance (cfg : Cfg) (s : St) (d : Disk) : Decidable (RunOK cfg s d) :=
  decidable_of_iff
    ((s.recov = none ∧ TrOK s) ∧ (MfdOK s d ∧ s.manifestOpen = true) ∧
     (Holds (lookup d.journals s.jcur) fun jf => JournalHolds s jf (s.mem ++ inflight s.w) s.seq) ∧
     (s.jcur < s.nextFile ∧ ∀ p ∈ d.journals, p.1 ≤ s.jcur ∨ p.2.all = []) ∧
     ((∀ p ∈ d.journals, p.1 < s.nextFile ∨ p.1 = s.nextFile ∧ p.2.all = []) ∧ Holds d.current (· < s.nextFile)) ∧
     WSeqOK s ∧ FrozenOK cfg s d ∧
     (Holds (curManifest d) fun mf => Holds (viewAt cfg mf 0) fun v0 =>
       ∀ p ∈ d.journals, v0.jn ≤ p.1 → p.1 = s.jcur ∨ some p.1 = s.jfrozen ∨ Stale s p.2) ∧
     (s.job = none → Settled cfg s d (MirrorL s)) ∧ LimboOK s d)
    ⟨fun ⟨a, b, c, e, f, g, h, i, k, l⟩ => ⟨a, b, c, e, f, g, h, i, k, l⟩,
     fun ⟨a, b, c, e, f, g, h, i, k, l⟩ => ⟨a, b, c, e, f, g, h, i, k, l⟩⟩

/-- the recovery memdb is the content of the journal replayed last -/
def MdbOK (s : St) (d : Disk) (r : Recov) : Prop :=
  match r.ofd with
  | some o => (∀ p ∈ d.journals, p.1 = o → (∀ g ∈ r.mdb, g ∈ p.2.all) ∧ ∀ g ∈ p.2.all, g ∈ r.mdb ∨ g ∉ must s) ∧
      (∀ g ∈ r.mdb, g.fin ≤ s.seq) ∧
      (NoCommitYet s → ((∃ p ∈ d.journals, p.1 = o) ∨ r.mdb = []) ∧ ∀ g ∈ r.mdb, s.stSq ≤ g.seq)
  | none => r.mdb = []

instance (s : St) (d : Disk) (r : Recov) : Decidable (MdbOK s d r) := by unfold MdbOK; split <;> infer_instance

/-- `recoverJournal`'s loop (recovering phase) -/
structure RecOK (cfg : Cfg) (s : St) (d : Disk) (r : Recov) : Prop where
  mfd : MfdOK s d
  idle : s.w = .idle ∧ s.frozen = none ∧ s.tr = none ∧ s.limbo = none
  todoSorted : r.todo.Pairwise (· < ·)
  ofdLt : ∀ o, r.ofd = some o → ∀ n ∈ r.todo, o < n
  nums : (∀ p ∈ d.journals, p.1 < s.nextFile) ∧ Holds d.current (· < s.nextFile) ∧ ∀ n ∈ r.todo, n < s.nextFile
  /-- the journals still to come start at `db.seq` or above -/
  todoSeq : ∀ p ∈ d.journals, p.1 ∈ r.todo → ∀ g ∈ p.2.all, s.seq ≤ g.seq ∨ g ∉ must s
  mdb : MdbOK s d r
  view : NoCommitYet s → Settled cfg s d fun v => Mirror s v ∧ (∀ o, r.ofd = some o → v.jn ≤ o)
  /-- every journal the last view would replay is still to come, the one replayed last, or empty; the
      journals still to come are ones the last view replays -/
  rel : Holds (lastView cfg d) fun v =>
    (∀ p ∈ d.journals, v.jn ≤ p.1 → p.1 ∈ r.todo ∨ some p.1 = r.ofd ∨ p.2.all = []) ∧ ∀ n ∈ r.todo, v.jn ≤ n
  /-- `markFileNum`: the journal replayed last has a number below the next file number -/
  ofdNf : ∀ o, r.ofd = some o → o < s.nextFile

instance (cfg : Cfg) (s : St) (d : Disk) (r : Recov) : Decidable (RecOK cfg s d r) :=
  decidable_of_iff
    (MfdOK s d ∧ (s.w = .idle ∧ s.frozen = none ∧ s.tr = none ∧ s.limbo = none) ∧ r.todo.Pairwise (· < ·) ∧
     (∀ o, r.ofd = some o → ∀ n ∈ r.todo, o < n) ∧
     ((∀ p ∈ d.journals, p.1 < s.nextFile) ∧ Holds d.current (· < s.nextFile) ∧ ∀ n ∈ r.todo, n < s.nextFile) ∧
     (∀ p ∈ d.journals, p.1 ∈ r.todo → ∀ g ∈ p.2.all, s.seq ≤ g.seq ∨ g ∉ must s) ∧ MdbOK s d r ∧
     (NoCommitYet s → Settled cfg s d fun v => Mirror s v ∧ (∀ o, r.ofd = some o → v.jn ≤ o)) ∧
     (Holds (lastView cfg d) fun v =>
        (∀ p ∈ d.journals, v.jn ≤ p.1 → p.1 ∈ r.todo ∨ some p.1 = r.ofd ∨ p.2.all = []) ∧ ∀ n ∈ r.todo, v.jn ≤ n) ∧
     (∀ o, r.ofd = some o → o < s.nextFile))
    ⟨fun ⟨a, b, c, e, f, g, h, i, k, l⟩ => ⟨a, b, c, e, f, g, h, i, k, l⟩,
     fun ⟨a, b, c, e, f, g, h, i, k, l⟩ => ⟨a, b, c, e, f, g, h, i, k, l⟩⟩

/-- what a job at `pc` knows about the manifest tail and the session mirror; `e` is its edit -/
def JobManifest (cfg : Cfg) (s : St) (d : Disk) (e : MRec) : JPc → Prop
  | .tCreate _ | .tWrite _ | .tSync _ | .mkJournal | .append => Settled cfg s d (MirrorL s)
  | .earlyRm => False
  | .rotWrite m =>
    Settled cfg s d (MirrorL s) ∧ (some m ≠ d.current ∧ Holds d.current (· < m)) ∧ m < s.nextFile ∧ lookup d.manifests m = some ⟨[], []⟩
  | .rotSync m =>
    Settled cfg s d (MirrorL s) ∧ (some m ≠ d.current ∧ Holds d.current (· < m)) ∧ m < s.nextFile ∧
    Holds (lookup d.manifests m) fun mf => Holds mf.unsynced.head? fun r =>
      mf = ⟨[], [{ snapshotRec cfg s e with nf := r.nf }]⟩ ∧ m < r.nf ∧ r.nf ≤ s.nextFile ∧
      (∀ t ∈ applyEdit s.live e, t < r.nf) ∧ e.jn.getD s.stJn < r.nf
  | .rotSetMeta m =>
    Settled cfg s d (MirrorL s) ∧ (some m ≠ d.current ∧ Holds d.current (· < m)) ∧ m < s.nextFile ∧
    Holds (lookup d.manifests m) fun mf => Holds mf.synced.head? fun r =>
      mf = ⟨[{ snapshotRec cfg s e with nf := r.nf }], []⟩ ∧ m < r.nf ∧ r.nf ≤ s.nextFile ∧
      (∀ t ∈ applyEdit s.live e, t < r.nf) ∧ e.jn.getD s.stJn < r.nf
  | .rotRemove m => d.current = some m ∧ s.manifestFd ≠ some m ∧
    Holds (curManifest d) fun mf => mf.unsynced = [] ∧ Holds (lastView cfg d) (MirrorE s e)
  | .sync =>
    -- the record is in the file, not yet synced; the last three clauses are what a retry after a failing `Sync` needs
    -- again at `append` (there they are part of `JobOK.fresh`, `LimboFacts` and `InputsOK`)
    s.manifestOpen = true ∧
    (Holds (curManifest d) fun mf => (Holds mf.unsynced.head? fun r => mf.unsynced = [{ e with nf := r.nf }] ∧
        r.nf ≤ s.nextFile) ∧ Holds (viewAt cfg mf 0) fun v0 => Mirror s v0 ∧ ∀ a ∈ e.added, v0.nf ≤ a) ∧
    s.stSq ≤ e.sq.getD s.stSq ∧
    (e.jn = none → e.sq = none → (∀ t ∈ e.deleted, t ∈ s.live) ∧
      e.added.flatMap (tableGrpsOf d) = e.deleted.flatMap (tableGrpsOf d))
  | .install => s.manifestOpen = true ∧ Settled cfg s d (MirrorE s e)
  | .rmJ _ | .rmT _ | .rmM _ | .done =>
    s.manifestOpen = true ∧ Settled cfg s d (MirrorL s) ∧ ∀ x, e.jn = some x → s.stJn = x

instance (cfg : Cfg) (s : St) (d : Disk) (e : MRec) (pc : JPc) : Decidable (JobManifest cfg s d e pc) := by
  cases pc <;> simp only [JobManifest] <;> infer_instance

/-- the obligations of a job's edit `e` relative to the last view `v` of the manifest, while the edit is
    not yet there; `e.jn`/`e.sq` may be absent (table compaction): the view keeps its numbers -/
structure EditOK (s : St) (d : Disk) (j : Job) (e : MRec) (v : MView) : Prop where
  shape : e.added = j.outs.map (·.1) ∧ e.torn = false ∧ e.snapshot = false
  /-- deleted tables are live, and their groups are contained in the output tables -/
  dels : (∀ t ∈ e.deleted, t ∈ v.live) ∧ ∀ g ∈ e.deleted.flatMap (tableGrpsOf d), g ∈ outsGrps j
  /-- journals the new view skips are contained in the output tables -/
  skip : ∀ p ∈ d.journals, v.jn ≤ p.1 → p.1 < e.jn.getD v.jn → ∀ g ∈ p.2.all, g ∈ must s → g ∈ outsGrps j
  outs : ∀ g ∈ outsGrps j, g.fin ≤ e.sq.getD v.sq + 1 ∧ g ∈ issuedGrps s ∧ g.recs ≠ [] ∧
    (∀ h ∈ liveGrps d v, Disj g h) ∧ ∀ h ∈ outsGrps j, Disj g h
  keep : ∀ p ∈ d.journals, e.jn.getD v.jn ≤ p.1 → ∀ g ∈ p.2.all,
    (e.sq.getD v.sq ≤ g.seq ∨ g ∉ must s) ∧ ∀ h ∈ outsGrps j, Disj h g
  mono : v.jn ≤ e.jn.getD v.jn ∧ v.sq ≤ e.sq.getD v.sq ∧ e.sq.getD v.sq ≤ sqCap s j ∧
    (s.phase = .running → e.jn.getD v.jn ≤ s.jcur) ∧ e.jn.getD v.jn < s.nextFile
  fresh : ∀ o ∈ j.outs, v.nf ≤ o.1 ∧ o.1 < s.nextFile

set_option synthInstance.maxSize 2000 in
set_option synthInstance.maxHeartbeats 200000 in
instance (s : St) (d : Disk) (j : Job) (e : MRec) (v : MView) : Decidable (EditOK s d j e v) :=
  decidable_of_iff
    ((e.added = j.outs.map (·.1) ∧ e.torn = false ∧ e.snapshot = false) ∧
     ((∀ t ∈ e.deleted, t ∈ v.live) ∧ ∀ g ∈ e.deleted.flatMap (tableGrpsOf d), g ∈ outsGrps j) ∧
     (∀ p ∈ d.journals, v.jn ≤ p.1 → p.1 < e.jn.getD v.jn → ∀ g ∈ p.2.all, g ∈ must s → g ∈ outsGrps j) ∧
     (∀ g ∈ outsGrps j, g.fin ≤ e.sq.getD v.sq + 1 ∧ g ∈ issuedGrps s ∧ g.recs ≠ [] ∧
        (∀ h ∈ liveGrps d v, Disj g h) ∧ ∀ h ∈ outsGrps j, Disj g h) ∧
     (∀ p ∈ d.journals, e.jn.getD v.jn ≤ p.1 → ∀ g ∈ p.2.all,
        (e.sq.getD v.sq ≤ g.seq ∨ g ∉ must s) ∧ ∀ h ∈ outsGrps j, Disj h g) ∧
     (v.jn ≤ e.jn.getD v.jn ∧ v.sq ≤ e.sq.getD v.sq ∧ e.sq.getD v.sq ≤ sqCap s j ∧
        (s.phase = .running → e.jn.getD v.jn ≤ s.jcur) ∧ e.jn.getD v.jn < s.nextFile) ∧
     (∀ o ∈ j.outs, v.nf ≤ o.1 ∧ o.1 < s.nextFile))
    ⟨fun ⟨a, a', b, c, e, f, g⟩ => ⟨a, a', b, c, e, f, g⟩, fun ⟨a, a', b, c, e, f, g⟩ => ⟨a, a', b, c, e, f, g⟩⟩

/-- what ties a job to the thread that spawned it -/
def JobKindOK (s : St) (j : Job) : Prop :=
  match j.kind with
  | .flush => s.phase = .running ∧
      match s.frozen, s.jfrozen, j.edit with
      | some fz, some jf, some e => j.outs = [(e.added.headD 0, fz)] ∧ e.jn = some s.jcur ∧
          e.sq = some s.frozenSeq ∧ j.rmJournals = [jf] ∧ j.mkJournal = none ∧ fz ≠ []
      | some fz, some jf, none => fz = [] ∧ j.outs = [] ∧ j.rmJournals = [jf] ∧ j.mkJournal = none
      | _, _, _ => False
  | .recovMid => s.phase = .recovering ∧ j.mkJournal = none ∧
      Holds s.recov fun r => Holds r.ofd fun o => j.rmJournals = [o] ∧
        (j.outs = [] ∧ r.mdb = [] ∨ j.outs = [(j.outs.head?.map (·.1) |>.getD 0, r.mdb)]) ∧
        Holds r.todo.head? fun n => Holds j.edit fun e => e.jn = some n ∧ e.sq = some s.seq
  | .recovFinal => s.phase = .recovering ∧
      Holds s.recov fun r => r.todo = [] ∧ (j.rmJournals = r.ofd.toList ∧ ∀ o ∈ j.rmJournals, Holds j.mkJournal (o < ·)) ∧
        (j.outs = [] ∧ r.mdb = [] ∨ j.outs = [(j.outs.head?.map (·.1) |>.getD 0, r.mdb)]) ∧
        Holds j.mkJournal fun n => Holds j.edit fun e => e.jn = some n ∧ e.sq = some s.seq
  | .compaction => s.phase = .running ∧ j.mkJournal = none ∧ j.rmJournals = [] ∧ j.edit.isSome
  | .tr => s.phase = .running ∧ j.mkJournal = none ∧ j.rmJournals = [] ∧ j.rmTables = [] ∧
      Holds s.tr fun g => Holds j.edit fun e => e.jn = none ∧ e.sq = some (g.fin - 1) ∧
        j.outs = [(e.added.headD 0, [g])] ∧ g.recs ≠ [] ∧ g ∈ issuedGrps s

instance (s : St) (j : Job) : Decidable (JobKindOK s j) := by
  unfold JobKindOK; split
  · refine @instDecidableAnd _ _ _ ?_; split <;> infer_instance
  all_goals infer_instance

/-- output table `o` (index `i`) on disk, by pc -/
def OutOK (d : Disk) (pc : JPc) (i : Nat) (o : Nat × List Grp) : Prop :=
  match pc with
  | .tCreate i' => i < i' → Holds (lookup d.tables o.1) fun tf => tf = ⟨o.2, true, false⟩
  | .tWrite i' => (i < i' → Holds (lookup d.tables o.1) fun tf => tf = ⟨o.2, true, false⟩) ∧
      (i = i' → Holds (lookup d.tables o.1) fun tf => tf.bad = false)
  | .tSync i' => (i < i' → Holds (lookup d.tables o.1) fun tf => tf = ⟨o.2, true, false⟩) ∧
      (i = i' → Holds (lookup d.tables o.1) fun tf => tf.grps = o.2 ∧ tf.bad = false)
  | pc => pc.beforeCommit = true → Holds (lookup d.tables o.1) fun tf => tf = ⟨o.2, true, false⟩

instance (d : Disk) (pc : JPc) (i : Nat) (o : Nat × List Grp) : Decidable (OutOK d pc i o) := by
  unfold OutOK; split <;> infer_instance

def PcIdxOK (j : Job) : Prop :=
  match j.pc with
  | .tCreate i | .tWrite i | .tSync i => i < j.outs.length
  | _ => True

instance (j : Job) : Decidable (PcIdxOK j) := by unfold PcIdxOK; split <;> infer_instance

/-- pending removals only concern files no admissible view needs -/
def RemovalsOK (s : St) (d : Disk) (j : Job) (v : MView) : Prop :=
  match j.pc with
  | .rmJ rest => (∀ n ∈ rest, (n < v.jn ∨ (n < s.jcur ∧ ∀ p ∈ d.journals, p.1 = n → Stale0 s p.2)) ∧
        ∀ x, j.mkJournal = some x → n < x) ∧
      (∀ t ∈ j.rmTables, t ∉ v.live) ∧ (j.kind = .compaction ∨ j.kind = .tr → rest = []) ∧
      (j.edit = none → ∀ n ∈ rest, n ∈ j.rmJournals)
  | .rmT rest => (∀ t ∈ rest, t ∉ v.live) ∧ (j.edit = none → rest = [])
  | .rmM rest => ∀ m ∈ rest, some m ≠ d.current
  | _ => True

instance (s : St) (d : Disk) (j : Job) (v : MView) : Decidable (RemovalsOK s d j v) := by
  unfold RemovalsOK; split <;> infer_instance

/-- the journal `newMem` makes for the final commit of a recovery -/
def MkJournalOK (s : St) (d : Disk) (j : Job) : Prop :=
  match j.mkJournal with
  | none => True
  | some n =>
    n < s.nextFile ∧
    if j.pc = .mkJournal ∨ j.pc.tablesDone = false then ∀ p ∈ d.journals, p.1 < n
    else s.jcur = n ∧ (∃ p ∈ d.journals, p.1 = n) ∧ ∀ p ∈ d.journals, p.1 < n ∨ p.1 = n ∧ p.2.all = []

instance (s : St) (d : Disk) (j : Job) : Decidable (MkJournalOK s d j) := by
  unfold MkJournalOK; split <;> infer_instance

def JobManifestOK (cfg : Cfg) (s : St) (d : Disk) (j : Job) : Prop :=
  match j.edit with
  | some e => JobManifest cfg s d e j.pc
  | none => Settled cfg s d (MirrorL s)

instance (cfg : Cfg) (s : St) (d : Disk) (j : Job) : Decidable (JobManifestOK cfg s d j) := by
  unfold JobManifestOK; split <;> infer_instance

/-- what the edit deletes, by job kind -/
def InputsOK (s : St) (d : Disk) (j : Job) (e : MRec) : Prop :=
  if j.kind = .compaction then
    e.jn = none ∧ e.sq = none ∧ e.deleted = j.rmTables ∧ (∀ t ∈ e.deleted, ∀ o ∈ j.outs, t < o.1) ∧
    (j.pc.beforeCommit = true → (∀ t ∈ e.deleted, t ∈ s.live) ∧ outsGrps j = e.deleted.flatMap (tableGrpsOf d))
  else e.deleted = [] ∧ (j.kind ≠ .tr → e.jn.isSome) ∧ e.sq.isSome

instance (s : St) (d : Disk) (j : Job) (e : MRec) : Decidable (InputsOK s d j e) := by
  unfold InputsOK; split <;> infer_instance

structure JobOK (cfg : Cfg) (s : St) (d : Disk) (j : Job) : Prop where
  one : j.outs.length ≤ 1 ∧ (j.rmTables = [] ∨ j.kind = .recovFinal ∨ j.kind = .compaction)
  kind : JobKindOK s j
  manifest : JobManifestOK cfg s d j
  /-- output table numbers are unused and above everything an admissible view knows -/
  fresh : (∀ o ∈ j.outs, o.1 < s.nextFile) ∧ (j.pc.beforeCommit = true →
    Holds (curManifest d) fun mf => ∀ k ≤ mf.unsynced.length, Holds (viewAt cfg mf k) fun v =>
      (∀ o ∈ j.outs, v.nf ≤ o.1 ∨ (j.pc.retry = true ∧ s.limbo.isSome = true ∧ s.limbo = j.edit ∧ o.1 ∈ v.live)) ∧ ∀ n, j.mkJournal = some n → v.nf ≤ n)
  /-- the edit is well-formed -/
  shape : Holds' j.edit fun e => e.added = j.outs.map (·.1) ∧ e.torn = false ∧ e.snapshot = false
  tables : ∀ i o, j.outs[i]? = some o → OutOK d j.pc i o
  pcIdx : PcIdxOK j
  mkj : MkJournalOK s d j
  removals : Holds (lastView cfg d) (RemovalsOK s d j)
  /-- a job without an edit (an empty frozen memdb is dropped) only removes -/
  noedit : j.edit = none → j.pc.post = true
  /-- only a table compaction deletes tables: its inputs, which are live until the commit and whose groups
      are exactly those of its output; its edit carries neither a journal nor a sequence number -/
  inputs : Holds' j.edit fun e => InputsOK s d j e
  /-- once the edit is in the manifest the output tables are live in its last view and stay on disk -/
  committed : j.pc.beforeCommit = false → Holds (lastView cfg d) fun v =>
    ∀ o ∈ j.outs, o.1 ∈ v.live ∧ lookup d.tables o.1 = some ⟨o.2, true, false⟩

set_option synthInstance.maxSize 2000 in
set_option synthInstance.maxHeartbeats 200000 in
instance (cfg : Cfg) (s : St) (d : Disk) (j : Job) : Decidable (JobOK cfg s d j) :=
  decidable_of_iff
    ((j.outs.length ≤ 1 ∧ (j.rmTables = [] ∨ j.kind = .recovFinal ∨ j.kind = .compaction)) ∧ JobKindOK s j ∧
     JobManifestOK cfg s d j ∧
     ((∀ o ∈ j.outs, o.1 < s.nextFile) ∧ (j.pc.beforeCommit = true →
        Holds (curManifest d) fun mf => ∀ k ≤ mf.unsynced.length, Holds (viewAt cfg mf k) fun v =>
          (∀ o ∈ j.outs, v.nf ≤ o.1 ∨ (j.pc.retry = true ∧ s.limbo.isSome = true ∧ s.limbo = j.edit ∧ o.1 ∈ v.live)) ∧ ∀ n, j.mkJournal = some n → v.nf ≤ n)) ∧
     (Holds' j.edit fun e => e.added = j.outs.map (·.1) ∧ e.torn = false ∧ e.snapshot = false) ∧
     (∀ i ∈ List.range j.outs.length, ∀ o, j.outs[i]? = some o → OutOK d j.pc i o) ∧
     PcIdxOK j ∧ MkJournalOK s d j ∧ Holds (lastView cfg d) (RemovalsOK s d j) ∧
     (j.edit = none → j.pc.post = true) ∧ (Holds' j.edit fun e => InputsOK s d j e) ∧
     (j.pc.beforeCommit = false → Holds (lastView cfg d) fun v =>
        ∀ o ∈ j.outs, o.1 ∈ v.live ∧ lookup d.tables o.1 = some ⟨o.2, true, false⟩))
    ⟨fun ⟨a, b, c, e, e', f, g, h, i, k', l, m⟩ => ⟨a, b, c, e, e',
        fun k o hk => f k (by
          rw [List.mem_range]
          exact (List.getElem?_eq_some_iff.1 hk).1) o hk, g, h, i, k', l, m⟩,
     fun ⟨a, b, c, e, e', f, g, h, i, k', l, m⟩ => ⟨a, b, c, e, e', fun k _ o hk => f k o hk, g, h, i, k', l, m⟩⟩

/-- sequence number and next-file number never decrease along the admissible views of the current manifest,
    and the manifest's own number lies below every recorded next-file number -/
def ManifestMono (cfg : Cfg) (d : Disk) : Prop :=
  Holds (curManifest d) fun mf => Holds d.current fun m => ∀ k ≤ mf.unsynced.length,
    Holds (viewAt cfg mf k) fun v => m < v.nf ∧ ∀ i ≤ k, Holds (viewAt cfg mf i) fun u => u.sq ≤ v.sq ∧ u.nf ≤ v.nf

instance (cfg : Cfg) (d : Disk) : Decidable (ManifestMono cfg d) := by unfold ManifestMono; infer_instance

/-- **the invariant** -/
structure Inv (cfg : Cfg) (s : St) (d : Disk) : Prop where
  disk : DiskOK cfg d (must s) (issuedGrps s)
  mm : ManifestMono cfg d
  bounds : s.phase ≠ .crashed → ViewBounds cfg s d
  run : s.phase = .running → RunOK cfg s d
  recov : s.phase = .recovering → Holds s.recov (RecOK cfg s d)
  crashed : s.phase = .crashed → s.job = none ∧ s.w = .idle ∧ s.frozen = none ∧ s.tr = none ∧ s.limbo = none
  job : Holds' s.job (JobOK cfg s d)

instance (cfg : Cfg) (s : St) (d : Disk) : Decidable (Inv cfg s d) :=
  decidable_of_iff
    (DiskOK cfg d (must s) (issuedGrps s) ∧ ManifestMono cfg d ∧ (s.phase ≠ .crashed → ViewBounds cfg s d) ∧
     (s.phase = .running → RunOK cfg s d) ∧ (s.phase = .recovering → Holds s.recov (RecOK cfg s d)) ∧
     (s.phase = .crashed → s.job = none ∧ s.w = .idle ∧ s.frozen = none ∧ s.tr = none ∧ s.limbo = none) ∧ Holds' s.job (JobOK cfg s d))
    ⟨fun ⟨a, a', b, c, e, f, g⟩ => ⟨a, a', b, c, e, f, g⟩, fun ⟨a, a', b, c, e, f, g⟩ => ⟨a, a', b, c, e, f, g⟩⟩

end GoLevel.Dur
