import GoLevel.Props.C07
/-! A long evaluation kept out of `Props/C07.lean` (it takes most of a minute in the kernel): more than
`maxCachedNumber` version tasks pile up behind an unreleased version (a long-held iterator); the loop converts
that version to full references, processes the 260 later versions, and removes the table the held version needs
only when it is released. -/
namespace GoLevel.C07
open GoLevel.RefLoop

example : (run State.init (longHeld 260 ++ [.rel 1 [7]])).map
      (fun r => (r.1.fileRef, r.1.referenced, r.1.next, r.2)) = some ([], [], 262, [7]) := by
  decide +kernel

end GoLevel.C07
