import GoLevel.Proofs.LSMEdits
/-!
# A table compaction preserves the view of every reader at or above `minSeq` (version level)

`compaction_view`: for the edit of `compaction_wf`, with `base` sound for the levels below `ℓ+1`
(`baseLevelForKey_sound`), `view c (v.apply …).entries k s = view c v.entries k s` for all `s ≥ minSeq`.
Core Lean only.
-/
namespace GoLevel

section
variable {c : UCmp} (hl : LawfulUCmp c)
include hl

/-- `compaction.baseLevelForKey` answers `true` only if no level `≥ ℓ+2` holds the user key -/
theorem baseLevelForKey_sound (v : Version) (hw : v.WFi c) (ℓ : Nat) (k : Bytes)
    (h : baseLevelForKey c v ℓ k = true) :
    ∀ j, ℓ + 2 ≤ j → ∀ x ∈ Level.entries (v.lvl j), x.ukey ≠ k := by
  intro j hj x hx hk
  obtain ⟨t, ht, hxt⟩ := Level.mem_entries.1 hx
  have hov := Table.overlapsKey_of_mem hl (hw.tables j t ht) hxt
  simp only [baseLevelForKey, List.all_eq_true, Bool.not_eq_true'] at h
  unfold Version.lvl at ht
  cases hv : v.levels[j]? with
  | none => rw [hv] at ht; cases ht
  | some l =>
    rw [hv] at ht
    have hmem : l ∈ v.levels.drop (ℓ + 2) := by
      apply List.mem_iff_getElem?.2
      exact ⟨j - (ℓ + 2), by rw [List.getElem?_drop, show ℓ + 2 + (j - (ℓ + 2)) = j by omega]; exact hv⟩
    have := h l hmem t ht
    rw [hk] at hov
    rw [hov] at this; cases this

end

/-! ## which tables survive a `replaceEdit` -/

theorem replaceEdit_deleted_iff (ℓ : Nat) (S0 S1 nts : List Table) (i n : Nat) :
    (i, n) ∈ (replaceEdit ℓ S0 S1 nts).deleted ↔
      (i = ℓ ∧ ∃ s ∈ S0, s.num = n) ∨ (i = ℓ + 1 ∧ ∃ s ∈ S1, s.num = n) := by
  simp only [replaceEdit, List.mem_append, List.mem_map, Prod.mk.injEq]
  constructor
  · rintro (⟨s, hs, h1, h2⟩ | ⟨s, hs, h1, h2⟩)
    · exact .inl ⟨h1.symm, s, hs, h2⟩
    · exact .inr ⟨h1.symm, s, hs, h2⟩
  · rintro (⟨h1, s, hs, h2⟩ | ⟨h1, s, hs, h2⟩)
    · exact .inl ⟨s, hs, h1.symm, h2⟩
    · exact .inr ⟨s, hs, h1.symm, h2⟩

section surv
variable (v : Version) (ℓ : Nat) (S0 S1 nts : List Table)
  (hnum : ∀ i, ∀ x ∈ v.lvl i, ∀ y ∈ v.lvl i, x.num = y.num → x = y)
  (hS0sub : ∀ t ∈ S0, t ∈ v.lvl ℓ) (hS1sub : ∀ t ∈ S1, t ∈ v.lvl (ℓ + 1))
include hnum hS0sub hS1sub

omit hS1sub in
theorem surv_src (x : Table) :
    x ∈ v.survivors (replaceEdit ℓ S0 S1 nts) ℓ ↔ x ∈ v.lvl ℓ ∧ x ∉ S0 := by
  rw [Version.mem_survivors, replaceEdit_deleted_iff]
  apply and_congr_right
  intro hx
  constructor
  · intro h hS
    exact h (.inl ⟨rfl, x, hS, rfl⟩)
  · rintro h (⟨_, s, hs, hn⟩ | ⟨h1, _⟩)
    · have := hnum ℓ s (hS0sub s hs) x hx hn
      exact h (this ▸ hs)
    · omega

omit hS0sub in
theorem surv_dst (x : Table) :
    x ∈ v.survivors (replaceEdit ℓ S0 S1 nts) (ℓ + 1) ↔ x ∈ v.lvl (ℓ + 1) ∧ x ∉ S1 := by
  rw [Version.mem_survivors, replaceEdit_deleted_iff]
  apply and_congr_right
  intro hx
  constructor
  · intro h hS
    exact h (.inr ⟨rfl, x, hS, rfl⟩)
  · rintro h (⟨h1, _⟩ | ⟨_, s, hs, hn⟩)
    · omega
    · have := hnum (ℓ + 1) s (hS1sub s hs) x hx hn
      exact h (this ▸ hs)

omit hnum hS0sub hS1sub in
theorem surv_other (i : Nat) (h1 : i ≠ ℓ) (h2 : i ≠ ℓ + 1) (x : Table) :
    x ∈ v.survivors (replaceEdit ℓ S0 S1 nts) i ↔ x ∈ v.lvl i := by
  rw [Version.mem_survivors, replaceEdit_deleted_iff]
  constructor
  · exact fun h => h.1
  · intro h
    refine ⟨h, ?_⟩
    rintro (⟨h', _⟩ | ⟨h', _⟩)
    · exact h1 h'
    · exact h2 h'

end surv

/-! ## the entries searched before / after the compacted tables -/

/-- entries of the levels above `ℓ` and of the tables left at level `ℓ` -/
def upE (v : Version) (e : Edit) (ℓ : Nat) : List Entry :=
  (List.range ℓ).flatMap (fun i => Level.entries (v.lvl i)) ++ Level.entries (v.survivors e ℓ)

/-- entries of the tables left at level `ℓ+1` and of the deeper levels -/
def downE (v : Version) (e : Edit) (ℓ : Nat) : List Entry :=
  Level.entries (v.survivors e (ℓ + 1)) ++
    (List.range v.levels.length).flatMap (fun j => if ℓ + 1 < j then Level.entries (v.lvl j) else [])

theorem mem_upE (v : Version) (e : Edit) (ℓ : Nat) (x : Entry) :
    x ∈ upE v e ℓ ↔ (∃ i, i < ℓ ∧ x ∈ Level.entries (v.lvl i)) ∨ x ∈ Level.entries (v.survivors e ℓ) := by
  simp only [upE, List.mem_append, List.mem_flatMap, List.mem_range]

theorem mem_downE (v : Version) (e : Edit) (ℓ : Nat) (x : Entry) :
    x ∈ downE v e ℓ ↔
      x ∈ Level.entries (v.survivors e (ℓ + 1)) ∨ (∃ j, ℓ + 1 < j ∧ x ∈ Level.entries (v.lvl j)) := by
  simp only [downE, List.mem_append, List.mem_flatMap, List.mem_range]
  apply or_congr_right
  constructor
  · rintro ⟨j, _, hx⟩
    split at hx
    · exact ⟨j, by assumption, hx⟩
    · cases hx
  · rintro ⟨j, hj, hx⟩
    have hlt : j < v.levels.length := by
      apply Classical.byContradiction
      intro hge
      have : v.lvl j = [] := by
        simp only [Version.lvl]; rw [List.getElem?_eq_none (by omega)]; rfl
      rw [this] at hx; simp [Level.entries] at hx
    exact ⟨j, hlt, by rw [if_pos hj]; exact hx⟩

section members
variable (c : UCmp) (v : Version) (ℓ : Nat) (S0 S1 nts : List Table)
  (hnum : ∀ i, ∀ x ∈ v.lvl i, ∀ y ∈ v.lvl i, x.num = y.num → x = y)
  (hS0sub : ∀ t ∈ S0, t ∈ v.lvl ℓ) (hS1sub : ∀ t ∈ S1, t ∈ v.lvl (ℓ + 1))
include hnum hS0sub hS1sub

/-- the old version as a set of entries: above ∪ replaced tables ∪ below -/
theorem replace_entries_old (x : Entry) :
    x ∈ v.entries ↔ x ∈ upE v (replaceEdit ℓ S0 S1 nts) ℓ ∨ (∃ t ∈ S0 ++ S1, x ∈ t.entries) ∨
      x ∈ downE v (replaceEdit ℓ S0 S1 nts) ℓ := by
  have hs0 := surv_src v ℓ S0 S1 nts hnum hS0sub
  have hs1 := surv_dst v ℓ S0 S1 nts hnum hS1sub
  simp only [mem_upE, mem_downE, Version.mem_entries, Level.mem_entries]
  constructor
  · rintro ⟨i, t, ht, hxt⟩
    rcases Nat.lt_trichotomy i ℓ with hi | hi | hi
    · exact .inl (.inl ⟨i, hi, t, ht, hxt⟩)
    · subst hi
      by_cases hS : t ∈ S0
      · exact .inr (.inl ⟨t, List.mem_append_left _ hS, hxt⟩)
      · exact .inl (.inr ⟨t, (hs0 t).2 ⟨ht, hS⟩, hxt⟩)
    · by_cases hi1 : i = ℓ + 1
      · subst hi1
        by_cases hS : t ∈ S1
        · exact .inr (.inl ⟨t, List.mem_append_right _ hS, hxt⟩)
        · exact .inr (.inr (.inl ⟨t, (hs1 t).2 ⟨ht, hS⟩, hxt⟩))
      · exact .inr (.inr (.inr ⟨i, by omega, t, ht, hxt⟩))
  · rintro ((⟨i, _, t, ht, hxt⟩ | ⟨t, ht, hxt⟩) | ⟨t, ht, hxt⟩ | ⟨t, ht, hxt⟩ | ⟨j, _, t, ht, hxt⟩)
    · exact ⟨i, t, ht, hxt⟩
    · exact ⟨ℓ, t, ((hs0 t).1 ht).1, hxt⟩
    · rcases List.mem_append.1 ht with h | h
      · exact ⟨ℓ, t, hS0sub t h, hxt⟩
      · exact ⟨ℓ + 1, t, hS1sub t h, hxt⟩
    · exact ⟨ℓ + 1, t, ((hs1 t).1 ht).1, hxt⟩
    · exact ⟨j, t, ht, hxt⟩

omit hnum hS0sub hS1sub in
/-- the new version as a set of entries: above ∪ new tables ∪ below -/
theorem replace_entries_new (x : Entry) :
    x ∈ (v.apply c (replaceEdit ℓ S0 S1 nts)).entries ↔
      x ∈ upE v (replaceEdit ℓ S0 S1 nts) ℓ ∨ (∃ t ∈ nts, x ∈ t.entries) ∨
      x ∈ downE v (replaceEdit ℓ S0 S1 nts) ℓ := by
  have hso := surv_other v ℓ S0 S1 nts
  simp only [mem_upE, mem_downE, Version.mem_entries, Level.mem_entries,
    Version.apply_lvl, Version.mem_newLevel]
  constructor
  · rintro ⟨i, t, ht | ht, hxt⟩
    · rcases Nat.lt_trichotomy i ℓ with hi | hi | hi
      · exact .inl (.inl ⟨i, hi, t, (hso i (by omega) (by omega) t).1 ht, hxt⟩)
      · subst hi; exact .inl (.inr ⟨t, ht, hxt⟩)
      · by_cases hi1 : i = ℓ + 1
        · subst hi1; exact .inr (.inr (.inl ⟨t, ht, hxt⟩))
        · exact .inr (.inr (.inr ⟨i, by omega, t, (hso i (by omega) hi1 t).1 ht, hxt⟩))
    · have := (replaceEdit_added ℓ S0 S1 nts (i, t)).1 ht
      exact .inr (.inl ⟨t, this.2, hxt⟩)
  · rintro ((⟨i, hi, t, ht, hxt⟩ | ⟨t, ht, hxt⟩) | ⟨t, ht, hxt⟩ | ⟨t, ht, hxt⟩ | ⟨j, hj, t, ht, hxt⟩)
    · exact ⟨i, t, .inl ((hso i (by omega) (by omega) t).2 ht), hxt⟩
    · exact ⟨ℓ, t, .inl ht, hxt⟩
    · exact ⟨ℓ + 1, t, .inr ((replaceEdit_added ℓ S0 S1 nts (ℓ + 1, t)).2 ⟨rfl, ht⟩), hxt⟩
    · exact ⟨ℓ + 1, t, .inl ht, hxt⟩
    · exact ⟨j, t, .inl ((hso j (by omega) (by omega) t).2 ht), hxt⟩

/-- when the new tables hold exactly the entries of the replaced ones (trivial move), the version keeps
its set of entries -/
theorem replace_entries_same (hsame : ∀ x, (∃ t ∈ nts, x ∈ t.entries) ↔ (∃ t ∈ S0 ++ S1, x ∈ t.entries))
    (x : Entry) : x ∈ (v.apply c (replaceEdit ℓ S0 S1 nts)).entries ↔ x ∈ v.entries := by
  rw [replace_entries_new, replace_entries_old v ℓ S0 S1 nts hnum hS0sub hS1sub, hsame]

end members

section view
variable {c : UCmp} (hl : LawfulUCmp c)
include hl

/-- **A table compaction preserves every admissible reader's view of the version.** -/
theorem compaction_view (v : Version) (ℓ : Nat) (S0 S1 nts : List Table) (minSeq : Nat)
    (base : Bytes → Bool) (umin umax : Bytes)
    (hv : v.wfB c = true) (hu : UniqSeq v.entries)
    (hnum : ∀ i, ∀ x ∈ v.lvl i, ∀ y ∈ v.lvl i, x.num = y.num → x = y)
    (hS0sub : ∀ t ∈ S0, t ∈ v.lvl ℓ) (hS1sub : ∀ t ∈ S1, t ∈ v.lvl (ℓ + 1))
    (hdist : ((S0 ++ S1).flatMap (·.entries)).Pairwise (fun a b => a.key ≠ b.key))
    (hcut : legalCut c (build c minSeq base {} (mergeAll c (S0 ++ S1))) (nts.map (·.entries)) = true)
    (hrange : ∀ t ∈ S0, c.le umin t.imin.ukey ∧ c.le t.imax.ukey umax)
    (hS1 : ∀ t ∈ v.lvl (ℓ + 1), t.overlapsRange c umin umax = true ↔ t ∈ S1)
    (hL0 : ℓ = 0 → ∀ x ∈ v.lvl 0, x ∉ S0 → x.overlapsRange c umin umax = false)
    (hbase : ∀ k, base k = true → ∀ j, ℓ + 2 ≤ j → ∀ x ∈ Level.entries (v.lvl j), x.ukey ≠ k)
    :
    (∀ x ∈ (v.apply c (replaceEdit ℓ S0 S1 nts)).entries, x ∈ v.entries) ∧
    ∀ (k : Bytes) (s : Nat), minSeq ≤ s →
      view c (v.apply c (replaceEdit ℓ S0 S1 nts)).entries k s = view c v.entries k s := by
  have hw := (Version.wfB_iff_WFi hl v).1 hv
  let e := replaceEdit ℓ S0 S1 nts
  let E := mergeAll c (S0 ++ S1)
  let B := build c minSeq base {} E
  have hsE : ESorted c E := mergeAll_sorted hl (S0 ++ S1) hdist
  have hBE : ∀ x ∈ B, x ∈ E := build_subset c minSeq base E {}
  have hsrc := src_newer_of_closed hl v ℓ S0 umin umax hv hS0sub hrange hL0
  have hside := survivor_side hl v ℓ S0 S1 umin umax hw hS0sub hS1sub hrange hS1
  have hs0 := surv_src v ℓ S0 S1 nts hnum hS0sub
  have hs1 := surv_dst v ℓ S0 S1 nts hnum hS1sub
  have hso := surv_other v ℓ S0 S1 nts
  -- where merged entries live
  have hE : ∀ x, x ∈ E ↔ (∃ t ∈ S0, x ∈ t.entries) ∨ (∃ t ∈ S1, x ∈ t.entries) := by
    intro x
    rw [mem_mergeAll]
    constructor
    · rintro ⟨t, ht, hx⟩
      rcases List.mem_append.1 ht with h | h
      · exact .inl ⟨t, h, hx⟩
      · exact .inr ⟨t, h, hx⟩
    · rintro (⟨t, ht, hx⟩ | ⟨t, ht, hx⟩)
      · exact ⟨t, List.mem_append_left _ ht, hx⟩
      · exact ⟨t, List.mem_append_right _ ht, hx⟩
  have hElvl : ∀ x ∈ E, x ∈ Level.entries (v.lvl ℓ) ∨ x ∈ Level.entries (v.lvl (ℓ + 1)) := by
    intro x hx
    rcases (hE x).1 hx with ⟨t, ht, hxt⟩ | ⟨t, ht, hxt⟩
    · exact .inl (Level.mem_entries.2 ⟨t, hS0sub t ht, hxt⟩)
    · exact .inr (Level.mem_entries.2 ⟨t, hS1sub t ht, hxt⟩)
  -- (M1) the old version as a set
  have hM1 : ∀ x, x ∈ v.entries ↔ x ∈ upE v e ℓ ++ (E ++ downE v e ℓ) := by
    intro x
    rw [replace_entries_old v ℓ S0 S1 nts hnum hS0sub hS1sub x, List.mem_append, List.mem_append]
    show _ ↔ _ ∨ x ∈ mergeAll c (S0 ++ S1) ∨ _
    rw [mem_mergeAll]
  -- (M2) the new version as a set
  have hM2 : ∀ x, x ∈ (v.apply c e).entries ↔ x ∈ upE v e ℓ ++ (B ++ downE v e ℓ) := by
    intro x
    have hB : x ∈ B ↔ ∃ t ∈ nts, x ∈ t.entries := legalCut_mem B nts hcut x
    rw [replace_entries_new c v ℓ S0 S1 nts x, List.mem_append, List.mem_append, hB]
  -- order facts
  have hup : NewerThan (upE v e ℓ) (E ++ downE v e ℓ) := by
    intro a ha b hb hk
    rw [List.mem_append, mem_downE] at hb
    -- `b` lives at level ℓ (in S0), or at a level ≥ ℓ+1
    have hb' : (b ∈ Level.entries S0) ∨ ∃ j, ℓ + 1 ≤ j ∧ b ∈ Level.entries (v.lvl j) := by
      rcases hb with hb | hb | ⟨j, hj, hb⟩
      · rcases (hE b).1 hb with ⟨t, ht, hbt⟩ | ⟨t, ht, hbt⟩
        · exact .inl (Level.mem_entries.2 ⟨t, ht, hbt⟩)
        · exact .inr ⟨ℓ + 1, Nat.le_refl _, Level.mem_entries.2 ⟨t, hS1sub t ht, hbt⟩⟩
      · obtain ⟨t, ht, hbt⟩ := Level.mem_entries.1 hb
        exact .inr ⟨ℓ + 1, Nat.le_refl _, Level.mem_entries.2 ⟨t, ((hs1 t).1 ht).1, hbt⟩⟩
      · exact .inr ⟨j, by omega, hb⟩
    rcases (mem_upE v e ℓ a).1 ha with ⟨i, hi, ha⟩ | ha
    · rcases hb' with hb' | ⟨j, hj, hb'⟩
      · obtain ⟨t, ht, hbt⟩ := Level.mem_entries.1 hb'
        exact hw.ordered i ℓ hi a ha b (Level.mem_entries.2 ⟨t, hS0sub t ht, hbt⟩) hk
      · exact hw.ordered i j (by omega) a ha b hb' hk
    · obtain ⟨x, hx, hax⟩ := Level.mem_entries.1 ha
      obtain ⟨hxl, hxS⟩ := (hs0 x).1 hx
      rcases hb' with hb' | ⟨j, hj, hb'⟩
      · exact hsrc x hxl hxS a hax b hb' hk
      · exact hw.ordered ℓ j (by omega) a (Level.mem_entries.2 ⟨x, hxl, hax⟩) b hb' hk
  have hdown : NewerThan E (downE v e ℓ) := by
    intro a ha b hb hk
    rcases (mem_downE v e ℓ b).1 hb with hb | ⟨j, hj, hb⟩
    · -- same level or the level above; a surviving table shares no key with the merged ones
      obtain ⟨x, hx, hbx⟩ := Level.mem_entries.1 hb
      obtain ⟨hxl, hxS⟩ := (hs1 x).1 hx
      have hxb := Table.wf_bounds hl (hw.tables _ x hxl) b hbx
      obtain ⟨t, ht, hat⟩ := (mem_mergeAll (S0 ++ S1) a).1 ha
      exfalso
      rcases hside x hxl hxS with h | h
      · have := ult_of_ule_of_ult hl hxb.2 (h t ht a hat)
        rw [hk] at this; exact ult_irrefl hl _ this
      · have := ult_of_ult_of_ule hl (h t ht a hat) hxb.1
        rw [hk] at this; exact ult_irrefl hl _ this
    · rcases hElvl a ha with h | h
      · exact hw.ordered ℓ j (by omega) a h b hb hk
      · exact hw.ordered (ℓ + 1) j hj a h b hb hk
  have hbase' : ∀ x ∈ E, base x.ukey = true → ∀ r ∈ downE v e ℓ, r.ukey ≠ x.ukey := by
    intro x hx hbx r hr
    rcases (mem_downE v e ℓ r).1 hr with hr | ⟨j, hj, hr⟩
    · obtain ⟨y, hy, hry⟩ := Level.mem_entries.1 hr
      obtain ⟨hyl, hyS⟩ := (hs1 y).1 hy
      have hrb := Table.wf_bounds hl (hw.tables _ y hyl) r hry
      obtain ⟨t, ht, hxt⟩ := (mem_mergeAll (S0 ++ S1) x).1 hx
      intro hk
      rcases hside y hyl hyS with h | h
      · have := ult_of_ule_of_ult hl hrb.2 (h t ht x hxt)
        rw [hk] at this; exact ult_irrefl hl _ this
      · have := ult_of_ult_of_ule hl (h t ht x hxt) hrb.1
        rw [hk] at this; exact ult_irrefl hl _ this
    · exact hbase x.ukey hbx j (by omega) r hr
  -- put together
  have hsub : ∀ x ∈ (v.apply c e).entries, x ∈ v.entries := by
    intro x hx
    rw [hM1]
    have := (hM2 x).1 hx
    simp only [List.mem_append] at this ⊢
    rcases this with h | h | h
    · exact .inl h
    · exact .inr (.inl (hBE x h))
    · exact .inr (.inr h)
  refine ⟨hsub, ?_⟩
  intro k s hms
  have hu1 : UniqNum v.entries := hu.uniqNum
  have hu2 : UniqNum (v.apply c e).entries := hu1.of_subset hsub
  rw [view_congr hl hu2 hM2, view_congr hl hu1 hM1]
  exact build_view_between hl minSeq base (upE v e ℓ) E (downE v e ℓ) hsE hup hdown hbase' k s hms

/-- a trivial move leaves every view unchanged -/
theorem trivial_move_view (v : Version) (ℓ : Nat) (t : Table) (hu : UniqSeq v.entries)
    (hnum : ∀ i, ∀ x ∈ v.lvl i, ∀ y ∈ v.lvl i, x.num = y.num → x = y) (ht : t ∈ v.lvl ℓ)
    (k : Bytes) (s : Nat) :
    view c (v.apply c (replaceEdit ℓ [t] [] [t])).entries k s = view c v.entries k s := by
  have hmem := replace_entries_same c v ℓ [t] [] [t] hnum
    (fun s hs => by rw [List.mem_singleton.1 hs]; exact ht) (fun s hs => by cases hs)
    (fun x => by simp)
  have hu1 : UniqNum (v.apply c (replaceEdit ℓ [t] [] [t])).entries :=
    hu.uniqNum.of_subset (fun x hx => (hmem x).1 hx)
  exact view_congr hl hu1 hmem k s

end view

/-! ## the hypotheses a trace validator checks at a table compaction, bundled -/

/-- What must hold when `tableCompaction` commits the edit that replaces `S0 ⊆ level ℓ` and
`S1 ⊆ level ℓ+1` by the tables `nts` at level `ℓ+1`; `umin`/`umax` is the user-key range `expand` settled
on (`getRange` of `S0`), `minSeq` the smallest sequence number a live reader may hold. -/
structure CompactionOK (c : UCmp) (v : Version) (ℓ : Nat) (S0 S1 nts : List Table) (minSeq : Nat)
    (umin umax : Bytes) : Prop where
  src_sub : ∀ t ∈ S0, t ∈ v.lvl ℓ
  dst_sub : ∀ t ∈ S1, t ∈ v.lvl (ℓ + 1)
  /-- no internal key occurs twice in the input -/
  distinct : ((S0 ++ S1).flatMap (·.entries)).Pairwise (fun a b => a.key ≠ b.key)
  /-- (L2) the new tables are a legal cut of the builder output -/
  cut : legalCut c (build c minSeq (baseLevelForKey c v ℓ) {} (mergeAll c (S0 ++ S1)))
    (nts.map (·.entries)) = true
  new_wf : ∀ t ∈ nts, t.wfB c = true
  range : ∀ t ∈ S0, c.le umin t.imin.ukey ∧ c.le t.imax.ukey umax
  /-- (L1) `S1` is exactly the set of tables of level `ℓ+1` meeting the range under the user comparer -/
  dst_all : ∀ t ∈ v.lvl (ℓ + 1), t.overlapsRange c umin umax = true ↔ t ∈ S1
  /-- (L0) for a level-0 compaction `S0` is closed under user-key overlap within level 0 -/
  src_closed : ℓ = 0 → ∀ x ∈ v.lvl 0, x ∉ S0 → x.overlapsRange c umin umax = false

instance (c : UCmp) (v : Version) (ℓ : Nat) (S0 S1 nts : List Table) (minSeq : Nat) (umin umax : Bytes) :
    Decidable (CompactionOK c v ℓ S0 S1 nts minSeq umin umax) :=
  decidable_of_iff
    ((∀ t ∈ S0, t ∈ v.lvl ℓ) ∧ (∀ t ∈ S1, t ∈ v.lvl (ℓ + 1)) ∧
     ((S0 ++ S1).flatMap (·.entries)).Pairwise (fun a b => a.key ≠ b.key) ∧
     legalCut c (build c minSeq (baseLevelForKey c v ℓ) {} (mergeAll c (S0 ++ S1))) (nts.map (·.entries)) = true ∧
     (∀ t ∈ nts, t.wfB c = true) ∧ (∀ t ∈ S0, c.le umin t.imin.ukey ∧ c.le t.imax.ukey umax) ∧
     (∀ t ∈ v.lvl (ℓ + 1), t.overlapsRange c umin umax = true ↔ t ∈ S1) ∧
     (ℓ = 0 → ∀ x ∈ v.lvl 0, x ∉ S0 → x.overlapsRange c umin umax = false))
    ⟨fun ⟨a, b, c', d, e, f, g, h⟩ => ⟨a, b, c', d, e, f, g, h⟩,
     fun h => ⟨h.src_sub, h.dst_sub, h.distinct, h.cut, h.new_wf, h.range, h.dst_all, h.src_closed⟩⟩

theorem Version.headD_entries_subset (v : Version) :
    ∀ x ∈ Level.entries (v.levels.headD []), x ∈ v.entries := by
  intro x hx
  cases hv : v.levels with
  | nil => rw [hv] at hx; simp [Level.entries] at hx
  | cons l ls =>
    rw [hv] at hx
    simp only [Version.entries, hv, List.flatMap_cons, List.mem_append]
    exact .inl hx

section lookup
variable {c : UCmp} (hl : LawfulUCmp c)
include hl

/-- **Compaction, all in one**: the new version is well formed, holds a subset of the old entries, and
every reader at `s ≥ minSeq` sees the same `view` and gets the same answer from `version.get`. -/
theorem compaction_lookup (v : Version) (ℓ : Nat) (S0 S1 nts : List Table) (minSeq : Nat)
    (umin umax : Bytes) (hv : v.wfB c = true) (hu : UniqSeq v.entries)
    (hnum : ∀ i, ∀ x ∈ v.lvl i, ∀ y ∈ v.lvl i, x.num = y.num → x = y)
    (h : CompactionOK c v ℓ S0 S1 nts minSeq umin umax) :
    (v.apply c (replaceEdit ℓ S0 S1 nts)).wfB c = true ∧
    UniqSeq (v.apply c (replaceEdit ℓ S0 S1 nts)).entries ∧
    ∀ (k : Bytes) (s : Nat), minSeq ≤ s →
      view c (v.apply c (replaceEdit ℓ S0 S1 nts)).entries k s = view c v.entries k s ∧
      (versionGet c [] (v.apply c (replaceEdit ℓ S0 S1 nts)) k s).toOption
        = (versionGet c [] v k s).toOption := by
  have hw := (Version.wfB_iff_WFi hl v).1 hv
  have hwf' := compaction_wf hl v ℓ S0 S1 nts minSeq (baseLevelForKey c v ℓ) umin umax hv h.src_sub
    h.dst_sub h.distinct h.cut h.new_wf h.range h.dst_all h.src_closed
  obtain ⟨hsub, hview⟩ := compaction_view hl v ℓ S0 S1 nts minSeq (baseLevelForKey c v ℓ) umin umax hv hu
    hnum h.src_sub h.dst_sub h.distinct h.cut h.range h.dst_all h.src_closed
    (fun k hk => baseLevelForKey_sound hl v hw ℓ k hk)
  have hu' := hu.of_subset hsub
  refine ⟨hwf', hu', ?_⟩
  intro k s hms
  refine ⟨hview k s hms, ?_⟩
  have e1 := versionGet_eq hl [] (v.apply c (replaceEdit ℓ S0 S1 nts)) (by simp) (by simp [Level.entries, UniqSeq])
    hwf' (hu'.of_subset (Version.headD_entries_subset _)) (NewerThan.nil_left _) k s
  have e2 := versionGet_eq hl [] v (by simp) (by simp [Level.entries, UniqSeq]) hv
    (hu.of_subset (Version.headD_entries_subset _)) (NewerThan.nil_left _) k s
  rw [e1, e2, hitOf_toOption, hitOf_toOption]
  simpa [Level.entries] using hview k s hms

end lookup

/-- distinct table numbers (`Version.nums` has no duplicates) give the per-level injectivity used above -/
theorem nums_nodup_lvl (v : Version) (h : v.nums.Nodup) :
    ∀ i, ∀ x ∈ v.lvl i, ∀ y ∈ v.lvl i, x.num = y.num → x = y := by
  intro i x hx y hy hn
  rcases v.lvl_mem_or_nil i with hm | hm
  · have hp := (List.pairwise_flatMap.1 h).1 _ hm
    rw [List.pairwise_map] at hp
    apply Classical.byContradiction
    intro hne
    rcases pairwise_ne_cases hp hx hy hne with h' | h'
    · exact h' hn
    · exact h' hn.symm
  · rw [hm] at hx; cases hx

/-! ## a flush adds exactly the entries of the new table -/

theorem flush_entries (c : UCmp) (v : Version) (L : Nat) (t : Table) (x : Entry) :
    x ∈ (v.apply c (flushEdit L t)).entries ↔ x ∈ t.entries ∨ x ∈ v.entries := by
  simp only [Version.mem_entries, Level.mem_entries, Version.apply_lvl, Version.mem_newLevel,
    Version.mem_survivors, flushEdit, List.not_mem_nil, not_false_eq_true, and_true, List.mem_singleton,
    Prod.mk.injEq]
  constructor
  · rintro ⟨i, t', ht' | ⟨_, rfl⟩, hx⟩
    · exact .inr ⟨i, t', ht', hx⟩
    · exact .inl hx
  · rintro (hx | ⟨i, t', ht', hx⟩)
    · exact ⟨L, t, .inr ⟨rfl, rfl⟩, hx⟩
    · exact ⟨i, t', .inl ht', hx⟩

end GoLevel
