import GoLevel.Proofs.CacheQuiesce5
/-! The cache interleaving system never deadlocks (C17): in every reachable state that is not quiescent some thread
can take a step.  (`Close` is the only instruction that can be disabled — while a reader is inside, and, in the
guarded system, while a thread sits in the zero branch of `unRefExternal`; in both cases that other thread can
move.)  Together with `finalise_exactly_once` this is what "by the time the system is quiescent" rests on:
quiescence is not reached by getting stuck. -/
namespace GoLevel.CacheM

set_option linter.unusedSimpArgs false

def isCloseLock : Instr → Bool
  | .closeLock _ => true
  | _ => false

/-- `enter c` only for the calls that start with `r.mu.RLock()`. -/
def enterOK : Instr → Bool
  | .enter (.setCapacity _) => false
  | .enter (.close _) => false
  | .enter (.release _) => false
  | _ => true

/-- A thread is either about to take the write lock in `Close` (and has nothing else to do), or contains no
`closeLock` at all. -/
def WC (t : List Instr) : Prop :=
  (∃ f, t = [Instr.closeLock f]) ∨ ∀ j ∈ t, isCloseLock j = false ∧ enterOK j = true

theorem exec_push_plain {sh sh' : Shared} {i push evs} (he : exec sh i = some (sh', push, evs)) :
    ∀ j ∈ push, isCloseLock j = false ∧ enterOK j = true := by
  cases i <;> exec_split he
  all_goals (intro j hj)
  all_goals (simp only [List.mem_append, List.mem_cons, List.mem_map, List.mem_flatMap, List.not_mem_nil,
    or_false, false_or] at hj)
  all_goals first
    | (cases hj; done)
    | grind [isCloseLock, enterOK]

theorem exec_total (sh : Shared) {i : Instr} (h1 : isCloseLock i = false) (h2 : enterOK i = true) :
    ∃ r, exec sh i = some r := by
  cases i
  case closeLock f => simp [isCloseLock] at h1
  case enter c =>
    cases c <;> simp [enterOK] at h2 <;> simp only [exec, execEnter] <;> (repeat' split) <;> exact ⟨_, rfl⟩
  all_goals (simp only [exec, execBget, execSetv, execPromote, execBan, execLevict, execSetcap, execDelz,
    execUnref, execFin, execFinStale])
  all_goals (repeat' split)
  all_goals exact ⟨_, rfl⟩

theorem wc_reachable {g : Bool} {s : Sys} (hr : Reachable g s) : ∀ t ∈ s.threads, WC t := by
  induction hr with
  | init clr c n =>
    intro t ht
    simp only [Sys.initCfg, List.mem_replicate] at ht
    rw [ht.2]; exact Or.inr (fun j hj => by cases hj)
  | @step s s' a hr hs ih =>
    rcases sysStep_cases hs with ⟨t, c, rfl, ht, _, rfl⟩ | ⟨t, i, rest, sh', push, evs, rfl, ht, he, _, rfl⟩
    · intro t' ht'
      rcases List.mem_or_eq_of_mem_set ht' with h1 | h1
      · exact ih t' h1
      · rw [h1]
        cases c <;> simp [startCall, WC, isCloseLock, enterOK]
    · intro t' ht'
      rcases List.mem_or_eq_of_mem_set ht' with h1 | h1
      · exact ih t' h1
      · rw [h1]
        right
        have hp := exec_push_plain he
        rcases ih _ (List.mem_of_getElem? ht) with ⟨f, hf⟩ | hpl
        · injection hf with h2 h3; subst h3
          simpa using hp
        · intro j hj
          rcases List.mem_append.mp hj with hj | hj
          · exact hp j hj
          · exact hpl j (List.mem_cons_of_mem _ hj)

/-- **No deadlock**: a reachable state that is not quiescent has an enabled step. -/
theorem progress {g : Bool} {s : Sys} (hr : Reachable g s) (hnq : pending s ≠ []) :
    ∃ t s', sysStep g s (.step t) = some s' := by
  suffices h : ∃ t, (sysStep g s (.step t)).isSome = true by
    obtain ⟨t, ht⟩ := h
    exact ⟨t, Option.isSome_iff_exists.mp ht⟩
  have hwc := wc_reachable hr
  have hinv := inv_reachable hr
  -- some thread has something to do
  by_cases hex : ∃ (t : Nat) (i : Instr) (rest : List Instr), s.threads[t]? = some (i :: rest) ∧ isCloseLock i = false
  · obtain ⟨t, i, rest, ht, hcl⟩ := hex
    have hen : enterOK i = true := by
      rcases hwc _ (List.mem_of_getElem? ht) with ⟨f, hf⟩ | hpl
      · injection hf with h1 _; subst h1; simp [isCloseLock] at hcl
      · exact (hpl i List.mem_cons_self).2
    obtain ⟨⟨sh', push, evs⟩, he⟩ := exec_total s.sh hcl hen
    refine ⟨t, ?_⟩
    simp only [sysStep, ht]
    have hok : stepOK g s.threads i = true := by cases i <;> simp_all [stepOK, isCloseLock]
    rw [if_pos hok, he]; rfl
  · -- every non-empty thread is `[closeLock f]`
    have hall : ∀ t ∈ s.threads, t = [] ∨ ∃ f, t = [Instr.closeLock f] := by
      intro t ht
      cases t with
      | nil => exact Or.inl rfl
      | cons i rest =>
        right
        obtain ⟨k, hk⟩ := List.getElem?_of_mem ht
        rcases hwc _ ht with hf | hpl
        · exact hf
        · exact absurd ⟨k, i, rest, hk, (hpl i List.mem_cons_self).1⟩ hex
    have hpend : ∀ j ∈ pending s, ∃ f, j = Instr.closeLock f := by
      intro j hj
      obtain ⟨t, ht, hjt⟩ := List.mem_flatten.mp hj
      rcases hall t ht with rfl | ⟨f, rfl⟩
      · cases hjt
      · exact ⟨f, by simpa using hjt⟩
    -- pick a non-empty thread
    obtain ⟨j, hj⟩ := List.exists_mem_of_ne_nil _ hnq
    obtain ⟨t, ht, hjt⟩ := List.mem_flatten.mp hj
    obtain ⟨k, hk⟩ := List.getElem?_of_mem ht
    rcases hall t ht with rfl | ⟨f, rfl⟩
    · cases hjt
    · have hr0 : s.sh.rlock = 0 := by
        rw [hinv.core.rl, List.count_eq_zero]
        intro hm; obtain ⟨f', hf'⟩ := hpend _ hm; cases hf'
      have hne : noPendingExtz s.threads = true := by
        simp only [noPendingExtz, List.all_eq_true]
        intro t' ht' j' hj'
        obtain ⟨f', hf'⟩ := hpend j' (List.mem_flatten.mpr ⟨t', ht', hj'⟩)
        subst hf'; rfl
      refine ⟨k, ?_⟩
      simp only [sysStep, hk, stepOK, hne, Bool.or_true, if_true, exec, execCloseLock, hr0, ne_eq,
        not_true_eq_false, if_false]
      by_cases hc : s.sh.closed = true
      · simp [hc]
      · simp [hc]

end GoLevel.CacheM
