import GoLevel.Proofs.RefLoopFHist
/-! Messages that append an id to the history (`ref`, `abandon`, the closing `ref`): the loop's invariant (C07). -/
namespace GoLevel.RefLoop

/-- version `k` must keep its tables: it is unreleased (a live reader, the current version), or — until
`session.close` — it is released but the loop standing at `nx` has not passed it yet -/
def EnvF.needs (G : EnvF) (nx k : Nat) : Prop := k ∉ G.rel ∨ (G.closing = false ∧ G.cb nx ≤ k)

/-- Nothing in `rm` belongs to a version that must keep its tables. -/
def SafeF (G : EnvF) (nx : Nat) (rm : List Nat) : Prop := ∀ r ∈ rm, ∀ k, G.inst k → G.needs nx k → r ∉ G.T k

theorem safeF_nil (G : EnvF) (nx : Nat) : SafeF G nx [] := fun r hr => by cases hr

theorem safeF_append {G : EnvF} {nx : Nat} {a b : List Nat} (ha : SafeF G nx a) (hb : SafeF G nx b) :
    SafeF G nx (a ++ b) := by
  intro r hr
  rcases List.mem_append.mp hr with h | h
  · exact ha r h
  · exact hb r h

theorem EnvF.cb_mono (G : EnvF) {a b : Nat} (h : a ≤ b) : G.cb a ≤ G.cb b :=
  G.up_mono (by omega)

theorem safeF_mono {G : EnvF} {nx nx' : Nat} {rm : List Nat} (h : nx ≤ nx') (hs : SafeF G nx rm) :
    SafeF G nx' rm := by
  intro r hr k hik ha
  refine hs r hr k hik ?_
  rcases ha with h1 | ⟨h0, h1⟩
  · exact Or.inl h1
  · exact Or.inr ⟨h0, Nat.le_trans (G.cb_mono h) h1⟩

/-- `GL` for fewer versions -/
theorem gl_shrink {G G' : EnvF} {nx nx' : Nat} (h : GL G nx) (hvs : G'.vs = G.vs)
    (hrel : ∀ k, k ∈ G.rel → k ∈ G'.rel) (hcb : G.cb nx ≤ G'.cb nx') : GL G' nx' := by
  have hal : ∀ j, G'.alive nx' j → G.alive nx j := by
    intro j hj
    rcases hj with h1 | h1
    · exact Or.inl (fun h2 => h1 (hrel j h2))
    · exact Or.inr (Nat.le_trans hcb h1)
  have hT := EnvF.T_congr hvs
  have hL := EnvF.L_congr hvs
  have hi := EnvF.inst_congr hvs
  refine ⟨?_, ?_⟩
  · intro f j l m h1 h2 h3 h4
    rw [hT, hT, hT]; exact h.gone f j l m h1 h2 ((hi l).mp h3) (hal j h4)
  · intro f j k h1 h2 h3
    rw [hT, hL, hT]; exact h.left f j k h1 ((hi k).mp h2) (hal j h3)

theorem gl_next {G : EnvF} {nx nx' : Nat} (h : GL G nx) (hle : nx ≤ nx') : GL G nx' :=
  gl_shrink h rfl (fun _ h => h) (G.cb_mono hle)

theorem noReuse_congr {G G' : EnvF} (hvs : G'.vs = G.vs) (h : NoReuse G') : NoReuse G := by
  have hT := EnvF.T_congr hvs
  have hL := EnvF.L_congr hvs
  have hi := EnvF.inst_congr hvs
  refine ⟨?_, ?_⟩
  · intro f j l m h1 h2 h3
    rw [← hT, ← hT, ← hT]; exact h.gone f j l m h1 h2 ((hi l).mpr h3)
  · intro f j k h1 h2
    rw [← hT, ← hL, ← hT]; exact h.left f j k h1 ((hi k).mpr h2)

theorem noReuse_push {G : EnvF} {s : Slot} (h : NoReuse (G.push s)) : NoReuse G := by
  refine ⟨?_, ?_⟩
  · intro f j l m h1 h2 h3 h4 h5 h6
    have hm := EnvF.inst_lt (EnvF.mem_T_inst h6)
    have hl := EnvF.inst_lt h3
    refine h.gone f j l m h1 h2 ((EnvF.push_inst_lt hl).mpr h3) ?_ ?_ ?_
    · rw [EnvF.push_T_lt (by omega)]; exact h4
    · rw [EnvF.push_T_lt hl]; exact h5
    · rw [EnvF.push_T_lt hm]; exact h6
  · intro f j k h1 h2 h3 h4
    have hk := EnvF.inst_lt h2
    have := h.left f j k h1 ((EnvF.push_inst_lt hk).mpr h2)
    rw [EnvF.push_T_lt (by omega), EnvF.push_L_lt hk, EnvF.push_T_lt hk] at this
    exact this h3 h4

/-- the removal history, claimed until `session.close` and while no file number was used twice -/
def HistC (S : State) (G : EnvF) (R : List Nat) : Prop := G.closing = false → NoReuse G → HistF S G R

/-- the base view does not change when an id is appended -/
theorem base_pushF {S : State} {G : EnvF} (hI : InvF S G) {s : Slot}
    (h0 : G.N = 0 → s.isInst = true ∧ s.L = []) :
    (G.push s).L ((G.push s).cb S.next) = G.L (G.cb S.next) := by
  by_cases hN : 0 < G.N
  · obtain ⟨h1, h2⟩ := cb_pushF hI (s := s) hN S.next
    rw [h1, EnvF.push_L_lt h2]
  · have hN0 : G.N = 0 := by omega
    have hnx0 : S.next = 0 := by have := hI.nx; omega
    have hd0 : G.dn = 0 := by
      rcases hI.wf.dn with h | h
      · exact h.2
      · have := EnvF.inst_lt h; omega
    obtain ⟨hs1, hs2⟩ := h0 hN0
    have e1 : G.cb S.next = 0 := by
      unfold EnvF.cb; rw [hnx0, hd0]; exact EnvF.up_of_ge (by omega)
    have e2 : (G.push s).cb S.next = 0 := by
      unfold EnvF.cb; rw [EnvF.push_dn, hnx0, hd0, Nat.min_self, EnvF.push_up (by omega)]
      have : ¬ G.up 0 < G.N := by omega
      simp [hs1, hN0]
    rw [e1, e2]
    have := @EnvF.push_L_eq G s
    rw [hN0] at this
    rw [this, hs2, EnvF.L_not_inst]
    intro hi; have := EnvF.inst_lt hi; omega

/-- below `dn` the incoming delta of the next installed id is not affected by appending -/
theorem din_pushF {G : EnvF} (h : G.WF) {s : Slot} {k : Nat} (hk : k < G.dn) :
    (G.push s).din ((G.push s).up (k + 1)) = G.din (G.up (k + 1)) := by
  have hN : 0 < G.N := by rcases h.dn with h1 | h1; omega; have := EnvF.inst_lt h1; omega
  have hdn := h.dn_lt hN
  have hup := h.up_le_dn hk
  have hupN : G.up (k + 1) < G.N := by omega
  rw [EnvF.push_up (by omega)]
  simp only [hupN, if_true]
  exact EnvF.push_din_lt hupN

/-- The fields of the invariant that an appended id does not touch. -/
theorem inv_push_commonF {S : State} {G : EnvF} (hI : InvF S G) {s : Slot}
    (h0 : G.N = 0 → s.isInst = true ∧ s.L = []) :
    (∀ k, S.released.lookup k = if S.next ≤ k ∧ k ∈ G.rel then
      some (if k < G.dn then some ((G.push s).din ((G.push s).up (k + 1))) else none) else none) ∧
    (∀ k, S.deltas.lookup k = if S.next ≤ k ∧ k < G.dn ∧ (G.push s).inst k ∧ k ∉ G.rel then
      some ((G.push s).din ((G.push s).up (k + 1))) else none) ∧
    (∀ k, k ∈ S.referenced ↔ k < S.next ∧ (G.push s).inst k ∧ k ∉ G.rel) ∧
    (∀ f, S.fileRef.count f = ind (f ∈ (G.push s).L ((G.push s).cb S.next)) +
      (S.referenced.filter (fun k => decide (f ∈ (G.push s).T k))).length) := by
  refine ⟨?_, ?_, ?_, ?_⟩
  · intro k
    rw [hI.rld k]
    by_cases hk : k < G.dn
    · rw [din_pushF hI.wf hk]
    · simp [hk]
  · intro k
    rw [hI.dl k]
    by_cases hk : k < G.dn
    · have hN : 0 < G.N := by rcases hI.wf.dn with h1 | h1; omega; have := EnvF.inst_lt h1; omega
      have := hI.wf.dn_lt hN
      rw [din_pushF hI.wf hk]
      simp only [EnvF.push_inst_lt (show k < G.N by omega)]
    · simp [hk]
  · intro k
    rw [hI.rfd.2 k]
    by_cases hk : k < S.next
    · simp only [EnvF.push_inst_lt (show k < G.N by have := hI.nx; omega)]
    · simp [hk]
  · intro f
    rw [hI.cnt f, base_pushF hI h0]
    congr 2
    apply List.filter_congr
    intro k hk
    have := ((hI.rfd.2 k).mp hk).1
    rw [EnvF.push_T_lt (by have := hI.nx; omega)]

/-- the invariant does not read the `closing` flag (only `WF` does) -/
theorem invF_flag {S : State} {G : EnvF} (hI : InvF S G) {c : Bool} (hw : ({ G with closing := c } : EnvF).WF) :
    InvF S { G with closing := c } :=
  ⟨hw, hI.nx, hI.ab, hI.ref, hI.rld, hI.dl, hI.rfd, hI.cnt⟩

/-- `ref N fs` for a new installed id. -/
theorem inv_refF {S : State} {G : EnvF} (hI : InvF S G) {fs L : List Nat} {din : Delta}
    (hw : (G.push (.inst fs L din)).WF) (h0 : G.N = 0 → L = []) :
    (S.ref.lookup G.N).isSome = false ∧
    ∀ last, InvF { S with ref := (G.N, fs) :: S.ref, last := last } (G.push (.inst fs L din)) := by
  have hnr : G.N ∉ G.rel := fun h => by have := EnvF.inst_lt (hI.wf.rel _ h).1; omega
  have hni : ¬ G.inst G.N := fun h => by have := EnvF.inst_lt h; omega
  have hlook : (S.ref.lookup G.N).isSome = false := by rw [hI.ref]; simp [hni]
  refine ⟨hlook, fun last => ?_⟩
  obtain ⟨c1, c2, c3, c4⟩ := inv_push_commonF hI (s := .inst fs L din) (fun h => ⟨rfl, h0 h⟩)
  refine ⟨hw, by show S.next ≤ _; rw [EnvF.push_N]; have := hI.nx; omega, ⟨hI.ab.1, ?_⟩, ?_, c1, c2,
    ⟨hI.rfd.1, c3⟩, c4⟩
  · intro k
    rw [hI.ab.2 k, EnvF.push_N]
    by_cases hk : k < G.N
    · simp only [EnvF.push_inst_lt hk]
      constructor
      · rintro ⟨h1, h2, h3⟩; exact ⟨h1, by omega, h3⟩
      · rintro ⟨h1, h2, h3⟩; exact ⟨h1, hk, h3⟩
    · constructor
      · rintro ⟨_, h2, _⟩; omega
      · rintro ⟨h1, h2, h3⟩
        have : k = G.N := by omega
        subst this
        exact absurd (EnvF.push_inst_eq.mpr rfl) h3
  · intro k
    show ((G.N, fs) :: S.ref).lookup k = _
    rw [lookup_cons_eq]
    by_cases hk : k = G.N
    · subst hk
      have hi : (G.push (.inst fs L din)).inst G.N := EnvF.push_inst_eq.mpr rfl
      have ht : (G.push (.inst fs L din)).T G.N = fs := EnvF.push_T_eq
      simp [hI.nx, hi, ht, hnr]
    · simp only [hk, if_false, hI.ref k]
      by_cases hkn : k < G.N
      · simp only [EnvF.push_inst_lt hkn, EnvF.push_T_lt hkn]; rfl
      · have h1 : ¬ G.inst k := fun h => hkn (EnvF.inst_lt h)
        have h2 : ¬ (G.push (.inst fs L din)).inst k := fun h => by
          have := EnvF.inst_lt h; simp at this; omega
        simp [h1, h2]

/-- `abandon N`: the id of a failed commit. -/
theorem inv_abandonF {S : State} {G : EnvF} (hI : InvF S G) (hw : (G.push .failed).WF) (hN : 0 < G.N) :
    G.N ∉ S.abandoned ∧ InvF { S with abandoned := G.N :: S.abandoned } (G.push .failed) := by
  have hna : G.N ∉ S.abandoned := fun h => by have := ((hI.ab.2 _).mp h).2.1; omega
  refine ⟨hna, ?_⟩
  obtain ⟨c1, c2, c3, c4⟩ := inv_push_commonF hI (s := .failed) (fun h => by omega)
  have hni : ∀ k, (G.push .failed).inst k ↔ G.inst k := by
    intro k
    constructor
    · intro h
      rcases EnvF.push_inst_cases h with h1 | ⟨_, h2⟩
      · exact h1.2
      · cases h2
    · exact fun h => (EnvF.push_inst_lt (EnvF.inst_lt h)).mpr h
  have hT : ∀ k, (G.push .failed).T k = G.T k := by
    intro k
    by_cases hk : k < G.N
    · exact EnvF.push_T_lt hk
    · rw [EnvF.T_not_inst (fun hi => hk (EnvF.inst_lt ((hni k).mp hi))),
        EnvF.T_not_inst (fun hi => hk (EnvF.inst_lt hi))]
  refine ⟨hw, by show S.next ≤ _; rw [EnvF.push_N]; have := hI.nx; omega,
    ⟨List.nodup_cons.mpr ⟨hna, hI.ab.1⟩, ?_⟩, ?_, c1, c2, ⟨hI.rfd.1, c3⟩, c4⟩
  · intro k
    show k ∈ G.N :: S.abandoned ↔ _
    rw [List.mem_cons, hI.ab.2 k, EnvF.push_N]
    simp only [hni]
    have hnN : ¬ G.inst G.N := fun h => by have := EnvF.inst_lt h; omega
    constructor
    · rintro (rfl | ⟨h1, h2, h3⟩)
      · exact ⟨hI.nx, by omega, hnN⟩
      · exact ⟨h1, by omega, h3⟩
    · rintro ⟨h1, h2, h3⟩
      by_cases hk : k = G.N
      · exact Or.inl hk
      · exact Or.inr ⟨h1, by omega, h3⟩
  · intro k
    show S.ref.lookup k = _
    rw [hI.ref k]
    simp only [hni, hT]
    rfl

theorem alive_pushF {S : State} {G : EnvF} (hI : InvF S G) {s : Slot} (hN : 0 < G.N) {nx j : Nat} :
    (G.push s).alive nx j ↔ G.alive nx j := by
  unfold EnvF.alive
  rw [(cb_pushF hI (s := s) hN nx).1]; rfl

theorem gl_push_inst {S : State} {G : EnvF} (hI : InvF S G) {nx : Nat} (h : GL G nx) {fs L : List Nat} {din : Delta}
    (hmono : ∀ f ∈ fs, ∀ j l, j < l → G.inst l → G.alive nx j → f ∈ G.T j → f ∈ G.T l)
    (hleft : ∀ f ∈ fs, ∀ j, G.alive nx j → f ∈ G.T j → f ∈ L) : GL (G.push (.inst fs L din)) nx := by
  by_cases hN : 0 < G.N
  · refine ⟨?_, ?_⟩
    · intro f j l m hjl hlm hil hal hj hl
      rw [alive_pushF hI hN] at hal
      rcases EnvF.push_inst_cases hil with ⟨hlN, hil'⟩ | ⟨hlN, _⟩
      · rw [EnvF.push_T_lt (by omega)] at hj
        rw [EnvF.push_T_lt hlN] at hl
        by_cases hm : m < G.N
        · rw [EnvF.push_T_lt hm]; exact h.gone f j l m hjl hlm hil' hal hj hl
        · intro hfm
          rcases EnvF.push_T_mem hfm with ⟨h1, _⟩ | ⟨_, h2⟩
          · omega
          · exact hl (hmono f h2 j l hjl hil' hal hj)
      · intro hfm
        rcases EnvF.push_T_mem hfm with ⟨h1, _⟩ | ⟨h1, _⟩ <;> omega
    · intro f j k hjk hik hal hj hk
      rw [alive_pushF hI hN] at hal
      rcases EnvF.push_inst_cases hik with ⟨hkN, hik'⟩ | ⟨hkN, _⟩
      · rw [EnvF.push_T_lt (by omega)] at hj
        rw [EnvF.push_L_lt hkN] at hk
        rw [EnvF.push_T_lt hkN]
        exact h.left f j k hjk hik' hal hj hk
      · subst hkN
        rw [EnvF.push_T_lt hjk] at hj
        rw [EnvF.push_L_eq] at hk
        rw [EnvF.push_T_eq]
        exact fun hf => hk (hleft f hf j hal hj)
  · refine ⟨?_, ?_⟩
    · intro f j l m hjl hlm hil
      have := EnvF.inst_lt hil; simp at this; omega
    · intro f j k hjk hik
      have := EnvF.inst_lt hik; simp at this; omega

theorem gl_push_failed {S : State} {G : EnvF} (hI : InvF S G) {nx : Nat} (h : GL G nx) (hN : 0 < G.N) :
    GL (G.push .failed) nx := by
  have hni : ∀ k, (G.push .failed).inst k → k < G.N ∧ G.inst k := by
    intro k hk
    rcases EnvF.push_inst_cases hk with h1 | ⟨_, h2⟩
    · exact h1
    · cases h2
  have hT : ∀ k f, f ∈ (G.push .failed).T k → k < G.N ∧ f ∈ G.T k := by
    intro k f hf
    rcases EnvF.push_T_mem hf with h1 | ⟨_, h2⟩
    · exact h1
    · cases h2
  refine ⟨?_, ?_⟩
  · intro f j l m hjl hlm hil hal hj hl hm
    rw [alive_pushF hI hN] at hal
    obtain ⟨hlN, hil'⟩ := hni l hil
    rw [EnvF.push_T_lt hlN] at hl
    exact h.gone f j l m hjl hlm hil' hal (hT j f hj).2 hl (hT m f hm).2
  · intro f j k hjk hik hal hj hk hfk
    rw [alive_pushF hI hN] at hal
    obtain ⟨hkN, hik'⟩ := hni k hik
    rw [EnvF.push_L_lt hkN] at hk
    exact h.left f j k hjk hik' hal (hT j f hj).2 hk (hT k f hfk).2

end GoLevel.RefLoop
