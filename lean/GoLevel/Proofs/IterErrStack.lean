import GoLevel.Proofs.IterErrMergedC
import GoLevel.Proofs.IterErrIndexedOps
import GoLevel.Proofs.IterErrDBRun
import GoLevel.Proofs.IterStack
/-!
# The whole stack over children that fail (C02 / C08)

`ENode` (a memdb / level-0 table iterator that fails as a whole, or an indexed iterator whose blocks fail) is a
`FailSim` whose twin is the error-free `Node`; `ENodeSpec` describes such a child and its error-free
counterpart `NodeSpec`.  Core Lean only.
-/
namespace GoLevel

namespace ENode

def proj : ENode → Node
  | .arr a => .arr a.inner
  | .idx x => .idx (EIndexed.proj x)

def Healthy : ENode → Prop
  | .arr a => a.err = none
  | .idx x => EIndexed.Healthy x

def Failed (c : UCmp) : ENode → Err → Prop
  | .arr a, e => a.err = some e
  | .idx x, e => x.err = some e ∧ EIndexed.cur c x = none

theorem failSim (c : UCmp) : FailSim (ENode.ops c) (Node.ops c) proj Healthy (Failed c) := by
  have ha := FailChild.failSim (ArrIter.ops c)
  have hx := EIndexed.failSim c
  refine ⟨?_, ?_, ?_, ?_, ?_, ?_, ?_⟩
  · intro s h; cases s with
    | arr a => exact ha.herr a h
    | idx x => exact hx.herr x h
  · intro s h; cases s with
    | arr a => exact ha.hcur a h
    | idx x => exact hx.hcur x h
  · intro s cl h he; cases s with
    | arr a =>
      have := ha.hstep a cl h (by cases cl <;> exact he)
      cases cl <;> exact ⟨this.1, congrArg Node.arr this.2⟩
    | idx x =>
      have := hx.hstep x cl h (by cases cl <;> exact he)
      cases cl <;> exact ⟨this.1, congrArg Node.idx this.2⟩
  · intro s cl e h he; cases s with
    | arr a =>
      have := ha.hfail a cl e h (by cases cl <;> exact he)
      cases cl <;> exact this
    | idx x =>
      have := hx.hfail x cl e h (by cases cl <;> exact he)
      cases cl <;> exact this
  · intro s e h; cases s with
    | arr a => exact ha.ferr a e h
    | idx x => exact hx.ferr x e h
  · intro s e h; cases s with
    | arr a => exact ha.masked a e h
    | idx x => exact hx.masked x e h
  · intro s e cl h; cases s with
    | arr a =>
      have := ha.sticky a e cl h
      cases cl <;> exact this
    | idx x =>
      have := hx.sticky x e cl h
      cases cl <;> exact this

end ENode

/-- a child of the raw iterator together with how it fails -/
inductive ENodeSpec
  | arr (xs : List Entry) (plan : Option (Nat × Err))
  | idx (chs : List EIdxChild)

namespace ENodeSpec

/-- the same child without failures -/
def spec : ENodeSpec → NodeSpec
  | .arr xs _ => .arr xs
  | .idx chs => .idx (chs.map EIndexed.toIdx)

/-- the freshly created child; a nested indexed iterator has the `strict` of the whole stack -/
def fresh (strict : Bool) : ENodeSpec → ENode
  | .arr xs plan => .arr (FailChild.new ⟨xs, .soi⟩ plan)
  | .idx chs => .idx (EIndexed.new chs strict)

theorem proj_fresh (strict : Bool) (sp : ENodeSpec) : (sp.fresh strict).proj = sp.spec.fresh := by
  cases sp <;> rfl

theorem healthy_fresh (sp : ENodeSpec) : (sp.fresh true).Healthy := by
  cases sp with
  | arr xs plan => rfl
  | idx chs => exact ⟨rfl, rfl, fun a h => by cases h⟩

end ENodeSpec

/-- the strict raw iterator `DB.newRawIterator` builds, over children that fail -/
def eRaw (specs : List ENodeSpec) : EMerged ENode := EMerged.new (specs.map (·.fresh true)) true

theorem eRaw_healthy (specs : List ENodeSpec) : EMerged.Healthy ENode.Healthy (eRaw specs) := by
  refine ⟨rfl, rfl, ?_⟩
  intro s hs
  simp only [eRaw, EMerged.new, MergedIter.new, List.mem_map] at hs
  obtain ⟨sp, _, rfl⟩ := hs
  exact sp.healthy_fresh

theorem eRaw_proj (specs : List ENodeSpec) :
    EMerged.proj ENode.proj (eRaw specs) = MergedIter.new ((specs.map (·.spec)).map (·.fresh)) := by
  simp only [eRaw, EMerged.proj, EMerged.new, MergedIter.new, MergedIter.mapIters, List.map_map]
  congr 1
  apply List.map_congr_left
  intro sp _
  exact sp.proj_fresh true

end GoLevel
