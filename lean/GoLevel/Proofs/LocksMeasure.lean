import GoLevel.Proofs.LocksCount
/-! Every fault-free step strictly decreases the measure (any configuration). -/
namespace GoLevel.Locks
set_option linter.unusedSimpArgs false

@[simp] theorem bgWt_run (w : Option Nat) (ph : BPh) : bgWt (.run w ph) = bphWt ph := rfl
@[simp] theorem bgWt_idle : bgWt .idle = 1 := rfl
@[simp] theorem bgWt_exited : bgWt .exited = 0 := rfl
@[simp] theorem bgWt_parked : bgWt .parked = 1 := rfl
@[simp] theorem bgWt_afterCmd (cfg : Cfg) (s : St) (b : Bool) : bgWt (afterCmd cfg s b) = 1 := by
  rcases afterCmd_cases cfg s b with h | h <;> rw [h] <;> rfl

@[simp] theorem ehWt_noerr : ehWt .noerr = 3 := rfl
@[simp] theorem ehWt_haserr : ehWt .haserr = 3 := rfl
@[simp] theorem ehWt_hasperr : ehWt .hasperr = 3 := rfl
@[simp] theorem ehWt_exited : ehWt .exited = 0 := rfl
@[simp] theorem ehWt_closing : ehWt .closing = 2 := rfl

theorem ehWt_next (m : CompErr.MCfg) (e : Eh) (k : EK) (h : CompErr.recvs m e = true) :
    ehWt (CompErr.next m e k) = 3 ∧ ehWt e = 3 := by
  cases e <;> simp [CompErr.recvs] at h <;> cases k <;> simp [CompErr.next] <;> (repeat' split) <;> simp [ehWt]

theorem ehWt_onClose (m : CompErr.MCfg) (e : Eh) (w : Bool) (h : CompErr.closes m e = true) :
    ehWt (CompErr.onClose m e w) ≤ 2 ∧ ehWt e = 3 := by
  cases e <;> simp [CompErr.closes] at h <;> simp [CompErr.onClose] <;> (repeat' split) <;> simp [ehWt]

theorem bphWt_pos (ph : BPh) : 0 < bphWt ph := by
  cases ph <;> simp [bphWt] <;> (try (rename_i a b; cases a <;> cases b <;> simp))

@[simp] theorem bgWt_clearW (x : Bg) (i : Nat) : bgWt (clearW x i) = bgWt x := by
  unfold clearW; split
  · split <;> rfl
  · rfl

theorem wt_onErr_lt (site : Site) (lg : Bool) : wt (onErr site lg) < ackWt site := by
  cases site <;> cases lg <;> simp [onErr, wt, ackWt]

theorem tot_ackWs_wt (ws : List Pc) (w : Option Nat) (b : Bool) : tot wt (ackWs ws w b) ≤ tot wt ws := by
  unfold ackWs
  split
  · split
    · rename_i i _ b' site lg hw
      split
      · have := tot_set wt ws i _ (onOk site lg) hw
        have : wt (onOk site lg) ≤ wt (.cwAck b' site lg) := by
          cases site <;> cases lg <;> simp [onOk, wt, ackWt]
        omega
      · exact Nat.le_refl _
    · exact Nat.le_refl _
  · exact Nat.le_refl _

theorem step_measure (cfg : Cfg) (s t : St) (h : Step cfg false s t) : measure t < measure s := by
  unfold measure
  cases h with
  | startPut _ i hi =>
    have l1 := le_tot wt _ _ _ hi
    (try simp only [St.setDone, St.setBg, ↓reduceIte, Bool.false_eq_true, Bool.and_false, Bool.and_true, Bool.false_and, Bool.true_and]) <;> (repeat' split) <;> simp_all [tot_set_eq _ _ _ _ _ hi, bgWt_run, bgWt_idle, bgWt_exited, bgWt_parked, bgWt_afterCmd, ehWt_noerr, ehWt_haserr, ehWt_hasperr, ehWt_closing, ehWt_exited, wt, ackWt, bphWt, St.bg, onOk, onErr, selNext, afterSetErr] <;> (try omega)
  | startWrite _ i hi =>
    have l1 := le_tot wt _ _ _ hi
    (try simp only [St.setDone, St.setBg, ↓reduceIte, Bool.false_eq_true, Bool.and_false, Bool.and_true, Bool.false_and, Bool.true_and]) <;> (repeat' split) <;> simp_all [tot_set_eq _ _ _ _ _ hi, bgWt_run, bgWt_idle, bgWt_exited, bgWt_parked, bgWt_afterCmd, ehWt_noerr, ehWt_haserr, ehWt_hasperr, ehWt_closing, ehWt_exited, wt, ackWt, bphWt, St.bg, onOk, onErr, selNext, afterSetErr] <;> (try omega)
  | startOtx _ i hi =>
    have l1 := le_tot wt _ _ _ hi
    (try simp only [St.setDone, St.setBg, ↓reduceIte, Bool.false_eq_true, Bool.and_false, Bool.and_true, Bool.false_and, Bool.true_and]) <;> (repeat' split) <;> simp_all [tot_set_eq _ _ _ _ _ hi, bgWt_run, bgWt_idle, bgWt_exited, bgWt_parked, bgWt_afterCmd, ehWt_noerr, ehWt_haserr, ehWt_hasperr, ehWt_closing, ehWt_exited, wt, ackWt, bphWt, St.bg, onOk, onErr, selNext, afterSetErr] <;> (try omega)
  | startCommit _ i hi hu =>
    have l1 := le_tot wt _ _ _ hi
    (try simp only [St.setDone, St.setBg, ↓reduceIte, Bool.false_eq_true, Bool.and_false, Bool.and_true, Bool.false_and, Bool.true_and]) <;> (repeat' split) <;> simp_all [tot_set_eq _ _ _ _ _ hi, bgWt_run, bgWt_idle, bgWt_exited, bgWt_parked, bgWt_afterCmd, ehWt_noerr, ehWt_haserr, ehWt_hasperr, ehWt_closing, ehWt_exited, wt, ackWt, bphWt, St.bg, onOk, onErr, selNext, afterSetErr] <;> (try omega)
  | startDiscard _ i hi hu =>
    have l1 := le_tot wt _ _ _ hi
    (try simp only [St.setDone, St.setBg, ↓reduceIte, Bool.false_eq_true, Bool.and_false, Bool.and_true, Bool.false_and, Bool.true_and]) <;> (repeat' split) <;> simp_all [tot_set_eq _ _ _ _ _ hi, bgWt_run, bgWt_idle, bgWt_exited, bgWt_parked, bgWt_afterCmd, ehWt_noerr, ehWt_haserr, ehWt_hasperr, ehWt_closing, ehWt_exited, wt, ackWt, bphWt, St.bg, onOk, onErr, selNext, afterSetErr] <;> (try omega)
  | startCR _ i hi =>
    have l1 := le_tot wt _ _ _ hi
    (try simp only [St.setDone, St.setBg, ↓reduceIte, Bool.false_eq_true, Bool.and_false, Bool.and_true, Bool.false_and, Bool.true_and]) <;> (repeat' split) <;> simp_all [tot_set_eq _ _ _ _ _ hi, bgWt_run, bgWt_idle, bgWt_exited, bgWt_parked, bgWt_afterCmd, ehWt_noerr, ehWt_haserr, ehWt_hasperr, ehWt_closing, ehWt_exited, wt, ackWt, bphWt, St.bg, onOk, onErr, selNext, afterSetErr] <;> (try omega)
  | startSR _ i hi ha =>
    have l1 := le_tot wt _ _ _ hi
    (try simp only [St.setDone, St.setBg, ↓reduceIte, Bool.false_eq_true, Bool.and_false, Bool.and_true, Bool.false_and, Bool.true_and]) <;> (repeat' split) <;> simp_all [tot_set_eq _ _ _ _ _ hi, bgWt_run, bgWt_idle, bgWt_exited, bgWt_parked, bgWt_afterCmd, ehWt_noerr, ehWt_haserr, ehWt_hasperr, ehWt_closing, ehWt_exited, wt, ackWt, bphWt, St.bg, onOk, onErr, selNext, afterSetErr] <;> (try omega)
  | startClose _ i hi =>
    have l1 := le_tot wt _ _ _ hi
    (try simp only [St.setDone, St.setBg, ↓reduceIte, Bool.false_eq_true, Bool.and_false, Bool.and_true, Bool.false_and, Bool.true_and]) <;> (repeat' split) <;> simp_all [tot_set_eq _ _ _ _ _ hi, bgWt_run, bgWt_idle, bgWt_exited, bgWt_parked, bgWt_afterCmd, ehWt_noerr, ehWt_haserr, ehWt_hasperr, ehWt_closing, ehWt_exited, wt, ackWt, bphWt, St.bg, onOk, onErr, selNext, afterSetErr] <;> (try omega)
  | selTok _ i p q hi hq ht =>
    have l1 := le_tot wt _ _ _ hi
    cases p <;> simp only [selNext] at hq <;> (try contradiction) <;> cases hq <;> simp_all [tot_set_eq _ _ _ _ _ hi, bgWt_run, bgWt_idle, bgWt_exited, bgWt_parked, bgWt_afterCmd, ehWt_noerr, ehWt_haserr, ehWt_hasperr, ehWt_closing, ehWt_exited, wt, ackWt, bphWt, St.bg, onOk, onErr, selNext, afterSetErr] <;> (try omega)
  | selPerErr _ i p q hi hq he =>
    have l1 := le_tot wt _ _ _ hi
    cases p <;> simp only [selNext] at hq <;> (try contradiction) <;> cases hq <;> simp_all [tot_set_eq _ _ _ _ _ hi, bgWt_run, bgWt_idle, bgWt_exited, bgWt_parked, bgWt_afterCmd, ehWt_noerr, ehWt_haserr, ehWt_hasperr, ehWt_closing, ehWt_exited, wt, ackWt, bphWt, St.bg, onOk, onErr, selNext, afterSetErr] <;> (try omega)
  | selClosed _ i p q hi hq hc =>
    have l1 := le_tot wt _ _ _ hi
    cases p <;> simp only [selNext] at hq <;> (try contradiction) <;> cases hq <;> simp_all [tot_set_eq _ _ _ _ _ hi, bgWt_run, bgWt_idle, bgWt_exited, bgWt_parked, bgWt_afterCmd, ehWt_noerr, ehWt_haserr, ehWt_hasperr, ehWt_closing, ehWt_exited, wt, ackWt, bphWt, St.bg, onOk, onErr, selNext, afterSetErr] <;> (try omega)
  | putNoWait _ i hi =>
    have l1 := le_tot wt _ _ _ hi
    (try simp only [St.setDone, St.setBg, ↓reduceIte, Bool.false_eq_true, Bool.and_false, Bool.and_true, Bool.false_and, Bool.true_and]) <;> (repeat' split) <;> simp_all [tot_set_eq _ _ _ _ _ hi, bgWt_run, bgWt_idle, bgWt_exited, bgWt_parked, bgWt_afterCmd, ehWt_noerr, ehWt_haserr, ehWt_hasperr, ehWt_closing, ehWt_exited, wt, ackWt, bphWt, St.bg, onOk, onErr, selNext, afterSetErr] <;> (try omega)
  | putWait _ i b hi =>
    have l1 := le_tot wt _ _ _ hi
    cases b <;> (try simp only [St.setDone, St.setBg, ↓reduceIte, Bool.false_eq_true, Bool.and_false, Bool.and_true, Bool.false_and, Bool.true_and]) <;> (repeat' split) <;> simp_all [tot_set_eq _ _ _ _ _ hi, bgWt_run, bgWt_idle, bgWt_exited, bgWt_parked, bgWt_afterCmd, ehWt_noerr, ehWt_haserr, ehWt_hasperr, ehWt_closing, ehWt_exited, wt, ackWt, bphWt, St.bg, onOk, onErr, selNext, afterSetErr] <;> (try omega)
  | putJournalOk _ i hi =>
    have l1 := le_tot wt _ _ _ hi
    (try simp only [St.setDone, St.setBg, ↓reduceIte, Bool.false_eq_true, Bool.and_false, Bool.and_true, Bool.false_and, Bool.true_and]) <;> (repeat' split) <;> simp_all [tot_set_eq _ _ _ _ _ hi, bgWt_run, bgWt_idle, bgWt_exited, bgWt_parked, bgWt_afterCmd, ehWt_noerr, ehWt_haserr, ehWt_hasperr, ehWt_closing, ehWt_exited, wt, ackWt, bphWt, St.bg, onOk, onErr, selNext, afterSetErr] <;> (try omega)
  | putUnlock _ i r hi =>
    have l1 := le_tot wt _ _ _ hi
    cases r <;> (try simp only [St.setDone, St.setBg, ↓reduceIte, Bool.false_eq_true, Bool.and_false, Bool.and_true, Bool.false_and, Bool.true_and]) <;> (repeat' split) <;> simp_all [tot_set_eq _ _ _ _ _ hi, bgWt_run, bgWt_idle, bgWt_exited, bgWt_parked, bgWt_afterCmd, ehWt_noerr, ehWt_haserr, ehWt_hasperr, ehWt_closing, ehWt_exited, wt, ackWt, bphWt, St.bg, onOk, onErr, selNext, afterSetErr] <;> (try omega)
  | cwSendGo _ i b site lg hi hb hro =>
    have l1 := le_tot wt _ _ _ hi
    have l2 := wt_onErr_lt site lg
    cases b <;> (try simp only [St.setDone, St.setBg]) <;> (repeat' split) <;> simp_all [tot_set_eq _ _ _ _ _ hi, bgWt_run, bgWt_idle, bgWt_exited, bgWt_parked, bgWt_clearW, wt, bphWt, St.bg] <;> (try omega)
  | cwSendRO _ i site lg hi hb hp hro =>
    have l1 := le_tot wt _ _ _ hi
    have l2 := wt_onErr_lt site lg
    (repeat' split) <;> simp_all [tot_set_eq _ _ _ _ _ hi, bgWt_run, bgWt_idle, bgWt_exited, bgWt_parked, bgWt_clearW, wt, bphWt, St.bg] <;> (try omega)
  | cwSendErr _ i b site lg hi he =>
    have l1 := le_tot wt _ _ _ hi
    have l2 := wt_onErr_lt site lg
    cases b <;> (try simp only [St.setDone, St.setBg]) <;> (repeat' split) <;> simp_all [tot_set_eq _ _ _ _ _ hi, bgWt_run, bgWt_idle, bgWt_exited, bgWt_parked, bgWt_clearW, wt, bphWt, St.bg] <;> (try omega)
  | cwAckErr _ i b site lg hi he =>
    have l1 := le_tot wt _ _ _ hi
    have l2 := wt_onErr_lt site lg
    cases b <;> (try simp only [St.setDone, St.setBg]) <;> (repeat' split) <;> simp_all [tot_set_eq _ _ _ _ _ hi, bgWt_run, bgWt_idle, bgWt_exited, bgWt_parked, bgWt_clearW, wt, bphWt, St.bg] <;> (try omega)
  | otxRotate _ i lg hi =>
    have l1 := le_tot wt _ _ _ hi
    cases lg <;> (try simp only [St.setDone, St.setBg, ↓reduceIte, Bool.false_eq_true, Bool.and_false, Bool.and_true, Bool.false_and, Bool.true_and]) <;> (repeat' split) <;> simp_all [tot_set_eq _ _ _ _ _ hi, bgWt_run, bgWt_idle, bgWt_exited, bgWt_parked, bgWt_afterCmd, ehWt_noerr, ehWt_haserr, ehWt_hasperr, ehWt_closing, ehWt_exited, wt, ackWt, bphWt, St.bg, onOk, onErr, selNext, afterSetErr] <;> (try omega)
  | otxNoRotate _ i lg hi =>
    have l1 := le_tot wt _ _ _ hi
    cases lg <;> (try simp only [St.setDone, St.setBg, ↓reduceIte, Bool.false_eq_true, Bool.and_false, Bool.and_true, Bool.false_and, Bool.true_and]) <;> (repeat' split) <;> simp_all [tot_set_eq _ _ _ _ _ hi, bgWt_run, bgWt_idle, bgWt_exited, bgWt_parked, bgWt_afterCmd, ehWt_noerr, ehWt_haserr, ehWt_hasperr, ehWt_closing, ehWt_exited, wt, ackWt, bphWt, St.bg, onOk, onErr, selNext, afterSetErr] <;> (try omega)
  | otxNewMemOk _ i lg hi =>
    have l1 := le_tot wt _ _ _ hi
    cases lg <;> (try simp only [St.setDone, St.setBg, ↓reduceIte, Bool.false_eq_true, Bool.and_false, Bool.and_true, Bool.false_and, Bool.true_and]) <;> (repeat' split) <;> simp_all [tot_set_eq _ _ _ _ _ hi, bgWt_run, bgWt_idle, bgWt_exited, bgWt_parked, bgWt_afterCmd, ehWt_noerr, ehWt_haserr, ehWt_hasperr, ehWt_closing, ehWt_exited, wt, ackWt, bphWt, St.bg, onOk, onErr, selNext, afterSetErr] <;> (try omega)
  | otxNoWaitComp _ i lg hi =>
    have l1 := le_tot wt _ _ _ hi
    cases lg <;> (try simp only [St.setDone, St.setBg, ↓reduceIte, Bool.false_eq_true, Bool.and_false, Bool.and_true, Bool.false_and, Bool.true_and]) <;> (repeat' split) <;> simp_all [tot_set_eq _ _ _ _ _ hi, bgWt_run, bgWt_idle, bgWt_exited, bgWt_parked, bgWt_afterCmd, ehWt_noerr, ehWt_haserr, ehWt_hasperr, ehWt_closing, ehWt_exited, wt, ackWt, bphWt, St.bg, onOk, onErr, selNext, afterSetErr] <;> (try omega)
  | otxWaitComp _ i lg hi =>
    have l1 := le_tot wt _ _ _ hi
    cases lg <;> (try simp only [St.setDone, St.setBg, ↓reduceIte, Bool.false_eq_true, Bool.and_false, Bool.and_true, Bool.false_and, Bool.true_and]) <;> (repeat' split) <;> simp_all [tot_set_eq _ _ _ _ _ hi, bgWt_run, bgWt_idle, bgWt_exited, bgWt_parked, bgWt_afterCmd, ehWt_noerr, ehWt_haserr, ehWt_hasperr, ehWt_closing, ehWt_exited, wt, ackWt, bphWt, St.bg, onOk, onErr, selNext, afterSetErr] <;> (try omega)
  | otxFail _ i lg hi =>
    have l1 := le_tot wt _ _ _ hi
    cases lg <;> (try simp only [St.setDone, St.setBg, ↓reduceIte, Bool.false_eq_true, Bool.and_false, Bool.and_true, Bool.false_and, Bool.true_and]) <;> (repeat' split) <;> simp_all [tot_set_eq _ _ _ _ _ hi, bgWt_run, bgWt_idle, bgWt_exited, bgWt_parked, bgWt_afterCmd, ehWt_noerr, ehWt_haserr, ehWt_hasperr, ehWt_closing, ehWt_exited, wt, ackWt, bphWt, St.bg, onOk, onErr, selNext, afterSetErr] <;> (try omega)
  | otxRel _ i lg hi =>
    have l1 := le_tot wt _ _ _ hi
    cases lg <;> (try simp only [St.setDone, St.setBg, ↓reduceIte, Bool.false_eq_true, Bool.and_false, Bool.and_true, Bool.false_and, Bool.true_and]) <;> (repeat' split) <;> simp_all [tot_set_eq _ _ _ _ _ hi, bgWt_run, bgWt_idle, bgWt_exited, bgWt_parked, bgWt_afterCmd, ehWt_noerr, ehWt_haserr, ehWt_hasperr, ehWt_closing, ehWt_exited, wt, ackWt, bphWt, St.bg, onOk, onErr, selNext, afterSetErr] <;> (try omega)
  | otxDone _ i lg hi =>
    have l1 := le_tot wt _ _ _ hi
    cases lg <;> (try simp only [St.setDone, St.setBg, ↓reduceIte, Bool.false_eq_true, Bool.and_false, Bool.and_true, Bool.false_and, Bool.true_and]) <;> (repeat' split) <;> simp_all [tot_set_eq _ _ _ _ _ hi, bgWt_run, bgWt_idle, bgWt_exited, bgWt_parked, bgWt_afterCmd, ehWt_noerr, ehWt_haserr, ehWt_hasperr, ehWt_closing, ehWt_exited, wt, ackWt, bphWt, St.bg, onOk, onErr, selNext, afterSetErr] <;> (try omega)
  | lgWriteOk _ i hi =>
    have l1 := le_tot wt _ _ _ hi
    (try simp only [St.setDone, St.setBg, ↓reduceIte, Bool.false_eq_true, Bool.and_false, Bool.and_true, Bool.false_and, Bool.true_and]) <;> (repeat' split) <;> simp_all [tot_set_eq _ _ _ _ _ hi, bgWt_run, bgWt_idle, bgWt_exited, bgWt_parked, bgWt_afterCmd, ehWt_noerr, ehWt_haserr, ehWt_hasperr, ehWt_closing, ehWt_exited, wt, ackWt, bphWt, St.bg, onOk, onErr, selNext, afterSetErr] <;> (try omega)
  | cmLockTr _ i lg hi hl =>
    have l1 := le_tot wt _ _ _ hi
    cases lg <;> (try simp only [St.setDone, St.setBg, ↓reduceIte, Bool.false_eq_true, Bool.and_false, Bool.and_true, Bool.false_and, Bool.true_and]) <;> (repeat' split) <;> simp_all [tot_set_eq _ _ _ _ _ hi, bgWt_run, bgWt_idle, bgWt_exited, bgWt_parked, bgWt_afterCmd, ehWt_noerr, ehWt_haserr, ehWt_hasperr, ehWt_closing, ehWt_exited, wt, ackWt, bphWt, St.bg, onOk, onErr, selNext, afterSetErr] <;> (try omega)
  | cmFlushOk _ i lg hi =>
    have l1 := le_tot wt _ _ _ hi
    cases lg <;> (try simp only [St.setDone, St.setBg, ↓reduceIte, Bool.false_eq_true, Bool.and_false, Bool.and_true, Bool.false_and, Bool.true_and]) <;> (repeat' split) <;> simp_all [tot_set_eq _ _ _ _ _ hi, bgWt_run, bgWt_idle, bgWt_exited, bgWt_parked, bgWt_afterCmd, ehWt_noerr, ehWt_haserr, ehWt_hasperr, ehWt_closing, ehWt_exited, wt, ackWt, bphWt, St.bg, onOk, onErr, selNext, afterSetErr] <;> (try omega)
  | cmFlushEmpty _ i lg hi =>
    have l1 := le_tot wt _ _ _ hi
    cases lg <;> (try simp only [St.setDone, St.setBg, ↓reduceIte, Bool.false_eq_true, Bool.and_false, Bool.and_true, Bool.false_and, Bool.true_and]) <;> (repeat' split) <;> simp_all [tot_set_eq _ _ _ _ _ hi, bgWt_run, bgWt_idle, bgWt_exited, bgWt_parked, bgWt_afterCmd, ehWt_noerr, ehWt_haserr, ehWt_hasperr, ehWt_closing, ehWt_exited, wt, ackWt, bphWt, St.bg, onOk, onErr, selNext, afterSetErr] <;> (try omega)
  | cmLockClk _ i lg hi hl =>
    have l1 := le_tot wt _ _ _ hi
    cases lg <;> (try simp only [St.setDone, St.setBg, ↓reduceIte, Bool.false_eq_true, Bool.and_false, Bool.and_true, Bool.false_and, Bool.true_and]) <;> (repeat' split) <;> simp_all [tot_set_eq _ _ _ _ _ hi, bgWt_run, bgWt_idle, bgWt_exited, bgWt_parked, bgWt_afterCmd, ehWt_noerr, ehWt_haserr, ehWt_hasperr, ehWt_closing, ehWt_exited, wt, ackWt, bphWt, St.bg, onOk, onErr, selNext, afterSetErr] <;> (try omega)
  | cmTryOk _ i k lg hi =>
    have l1 := le_tot wt _ _ _ hi
    cases lg <;> (try simp only [St.setDone, St.setBg, ↓reduceIte, Bool.false_eq_true, Bool.and_false, Bool.and_true, Bool.false_and, Bool.true_and]) <;> (repeat' split) <;> simp_all [tot_set_eq _ _ _ _ _ hi, bgWt_run, bgWt_idle, bgWt_exited, bgWt_parked, bgWt_afterCmd, ehWt_noerr, ehWt_haserr, ehWt_hasperr, ehWt_closing, ehWt_exited, wt, ackWt, bphWt, St.bg, onOk, onErr, selNext, afterSetErr] <;> (try omega)
  | cmSleepTimer _ i k lg hi =>
    have l1 := le_tot wt _ _ _ hi
    cases lg <;> (try simp only [St.setDone, St.setBg, ↓reduceIte, Bool.false_eq_true, Bool.and_false, Bool.and_true, Bool.false_and, Bool.true_and]) <;> (repeat' split) <;> simp_all [tot_set_eq _ _ _ _ _ hi, bgWt_run, bgWt_idle, bgWt_exited, bgWt_parked, bgWt_afterCmd, ehWt_noerr, ehWt_haserr, ehWt_hasperr, ehWt_closing, ehWt_exited, wt, ackWt, bphWt, St.bg, onOk, onErr, selNext, afterSetErr] <;> (try omega)
  | cmSleepClosed _ i k lg hi hc =>
    have l1 := le_tot wt _ _ _ hi
    cases lg <;> (try simp only [St.setDone, St.setBg, ↓reduceIte, Bool.false_eq_true, Bool.and_false, Bool.and_true, Bool.false_and, Bool.true_and]) <;> (repeat' split) <;> simp_all [tot_set_eq _ _ _ _ _ hi, bgWt_run, bgWt_idle, bgWt_exited, bgWt_parked, bgWt_afterCmd, ehWt_noerr, ehWt_haserr, ehWt_hasperr, ehWt_closing, ehWt_exited, wt, ackWt, bphWt, St.bg, onOk, onErr, selNext, afterSetErr] <;> (try omega)
  | cmFail3 _ i lg hi =>
    have l1 := le_tot wt _ _ _ hi
    cases lg <;> (try simp only [St.setDone, St.setBg, ↓reduceIte, Bool.false_eq_true, Bool.and_false, Bool.and_true, Bool.false_and, Bool.true_and]) <;> (repeat' split) <;> simp_all [tot_set_eq _ _ _ _ _ hi, bgWt_run, bgWt_idle, bgWt_exited, bgWt_parked, bgWt_afterCmd, ehWt_noerr, ehWt_haserr, ehWt_hasperr, ehWt_closing, ehWt_exited, wt, ackWt, bphWt, St.bg, onOk, onErr, selNext, afterSetErr] <;> (try omega)
  | cmAfterOk _ i lg hi =>
    have l1 := le_tot wt _ _ _ hi
    cases lg <;> (try simp only [St.setDone, St.setBg, ↓reduceIte, Bool.false_eq_true, Bool.and_false, Bool.and_true, Bool.false_and, Bool.true_and]) <;> (repeat' split) <;> simp_all [tot_set_eq _ _ _ _ _ hi, bgWt_run, bgWt_idle, bgWt_exited, bgWt_parked, bgWt_afterCmd, ehWt_noerr, ehWt_haserr, ehWt_hasperr, ehWt_closing, ehWt_exited, wt, ackWt, bphWt, St.bg, onOk, onErr, selNext, afterSetErr] <;> (try omega)
  | cmNoWaitComp _ i lg hi =>
    have l1 := le_tot wt _ _ _ hi
    cases lg <;> (try simp only [St.setDone, St.setBg, ↓reduceIte, Bool.false_eq_true, Bool.and_false, Bool.and_true, Bool.false_and, Bool.true_and]) <;> (repeat' split) <;> simp_all [tot_set_eq _ _ _ _ _ hi, bgWt_run, bgWt_idle, bgWt_exited, bgWt_parked, bgWt_afterCmd, ehWt_noerr, ehWt_haserr, ehWt_hasperr, ehWt_closing, ehWt_exited, wt, ackWt, bphWt, St.bg, onOk, onErr, selNext, afterSetErr] <;> (try omega)
  | cmWaitComp _ i lg hi =>
    have l1 := le_tot wt _ _ _ hi
    cases lg <;> (try simp only [St.setDone, St.setBg, ↓reduceIte, Bool.false_eq_true, Bool.and_false, Bool.and_true, Bool.false_and, Bool.true_and]) <;> (repeat' split) <;> simp_all [tot_set_eq _ _ _ _ _ hi, bgWt_run, bgWt_idle, bgWt_exited, bgWt_parked, bgWt_afterCmd, ehWt_noerr, ehWt_haserr, ehWt_hasperr, ehWt_closing, ehWt_exited, wt, ackWt, bphWt, St.bg, onOk, onErr, selNext, afterSetErr] <;> (try omega)
  | cmDone _ i lg hi =>
    have l1 := le_tot wt _ _ _ hi
    cases lg <;> (try simp only [St.setDone, St.setBg, ↓reduceIte, Bool.false_eq_true, Bool.and_false, Bool.and_true, Bool.false_and, Bool.true_and]) <;> (repeat' split) <;> simp_all [tot_set_eq _ _ _ _ _ hi, bgWt_run, bgWt_idle, bgWt_exited, bgWt_parked, bgWt_afterCmd, ehWt_noerr, ehWt_haserr, ehWt_hasperr, ehWt_closing, ehWt_exited, wt, ackWt, bphWt, St.bg, onOk, onErr, selNext, afterSetErr] <;> (try omega)
  | cmRet _ i ok lg hi =>
    have l1 := le_tot wt _ _ _ hi
    cases ok <;> cases lg <;> (try simp only [St.setDone, St.setBg, ↓reduceIte, Bool.false_eq_true, Bool.and_false, Bool.and_true, Bool.false_and, Bool.true_and]) <;> (repeat' split) <;> simp_all [tot_set_eq _ _ _ _ _ hi, bgWt_run, bgWt_idle, bgWt_exited, bgWt_parked, bgWt_afterCmd, ehWt_noerr, ehWt_haserr, ehWt_hasperr, ehWt_closing, ehWt_exited, wt, ackWt, bphWt, St.bg, onOk, onErr, selNext, afterSetErr] <;> (try omega)
  | dcLockTr _ i lg hi hl =>
    have l1 := le_tot wt _ _ _ hi
    cases lg <;> (try simp only [St.setDone, St.setBg, ↓reduceIte, Bool.false_eq_true, Bool.and_false, Bool.and_true, Bool.false_and, Bool.true_and]) <;> (repeat' split) <;> simp_all [tot_set_eq _ _ _ _ _ hi, bgWt_run, bgWt_idle, bgWt_exited, bgWt_parked, bgWt_afterCmd, ehWt_noerr, ehWt_haserr, ehWt_hasperr, ehWt_closing, ehWt_exited, wt, ackWt, bphWt, St.bg, onOk, onErr, selNext, afterSetErr] <;> (try omega)
  | dcBody _ i lg hi =>
    have l1 := le_tot wt _ _ _ hi
    cases lg <;> (try simp only [St.setDone, St.setBg, ↓reduceIte, Bool.false_eq_true, Bool.and_false, Bool.and_true, Bool.false_and, Bool.true_and]) <;> (repeat' split) <;> simp_all [tot_set_eq _ _ _ _ _ hi, bgWt_run, bgWt_idle, bgWt_exited, bgWt_parked, bgWt_afterCmd, ehWt_noerr, ehWt_haserr, ehWt_hasperr, ehWt_closing, ehWt_exited, wt, ackWt, bphWt, St.bg, onOk, onErr, selNext, afterSetErr] <;> (try omega)
  | crNoOverlap _ i hi =>
    have l1 := le_tot wt _ _ _ hi
    (try simp only [St.setDone, St.setBg, ↓reduceIte, Bool.false_eq_true, Bool.and_false, Bool.and_true, Bool.false_and, Bool.true_and]) <;> (repeat' split) <;> simp_all [tot_set_eq _ _ _ _ _ hi, bgWt_run, bgWt_idle, bgWt_exited, bgWt_parked, bgWt_afterCmd, ehWt_noerr, ehWt_haserr, ehWt_hasperr, ehWt_closing, ehWt_exited, wt, ackWt, bphWt, St.bg, onOk, onErr, selNext, afterSetErr] <;> (try omega)
  | crOverlap _ i hi =>
    have l1 := le_tot wt _ _ _ hi
    (try simp only [St.setDone, St.setBg, ↓reduceIte, Bool.false_eq_true, Bool.and_false, Bool.and_true, Bool.false_and, Bool.true_and]) <;> (repeat' split) <;> simp_all [tot_set_eq _ _ _ _ _ hi, bgWt_run, bgWt_idle, bgWt_exited, bgWt_parked, bgWt_afterCmd, ehWt_noerr, ehWt_haserr, ehWt_hasperr, ehWt_closing, ehWt_exited, wt, ackWt, bphWt, St.bg, onOk, onErr, selNext, afterSetErr] <;> (try omega)
  | crNewMemOk _ i hi =>
    have l1 := le_tot wt _ _ _ hi
    (try simp only [St.setDone, St.setBg, ↓reduceIte, Bool.false_eq_true, Bool.and_false, Bool.and_true, Bool.false_and, Bool.true_and]) <;> (repeat' split) <;> simp_all [tot_set_eq _ _ _ _ _ hi, bgWt_run, bgWt_idle, bgWt_exited, bgWt_parked, bgWt_afterCmd, ehWt_noerr, ehWt_haserr, ehWt_hasperr, ehWt_closing, ehWt_exited, wt, ackWt, bphWt, St.bg, onOk, onErr, selNext, afterSetErr] <;> (try omega)
  | crRelM _ i hi =>
    have l1 := le_tot wt _ _ _ hi
    (try simp only [St.setDone, St.setBg, ↓reduceIte, Bool.false_eq_true, Bool.and_false, Bool.and_true, Bool.false_and, Bool.true_and]) <;> (repeat' split) <;> simp_all [tot_set_eq _ _ _ _ _ hi, bgWt_run, bgWt_idle, bgWt_exited, bgWt_parked, bgWt_afterCmd, ehWt_noerr, ehWt_haserr, ehWt_hasperr, ehWt_closing, ehWt_exited, wt, ackWt, bphWt, St.bg, onOk, onErr, selNext, afterSetErr] <;> (try omega)
  | crRelOk _ i hi =>
    have l1 := le_tot wt _ _ _ hi
    (try simp only [St.setDone, St.setBg, ↓reduceIte, Bool.false_eq_true, Bool.and_false, Bool.and_true, Bool.false_and, Bool.true_and]) <;> (repeat' split) <;> simp_all [tot_set_eq _ _ _ _ _ hi, bgWt_run, bgWt_idle, bgWt_exited, bgWt_parked, bgWt_afterCmd, ehWt_noerr, ehWt_haserr, ehWt_hasperr, ehWt_closing, ehWt_exited, wt, ackWt, bphWt, St.bg, onOk, onErr, selNext, afterSetErr] <;> (try omega)
  | crRelFail _ i hi =>
    have l1 := le_tot wt _ _ _ hi
    (try simp only [St.setDone, St.setBg, ↓reduceIte, Bool.false_eq_true, Bool.and_false, Bool.and_true, Bool.false_and, Bool.true_and]) <;> (repeat' split) <;> simp_all [tot_set_eq _ _ _ _ _ hi, bgWt_run, bgWt_idle, bgWt_exited, bgWt_parked, bgWt_afterCmd, ehWt_noerr, ehWt_haserr, ehWt_hasperr, ehWt_closing, ehWt_exited, wt, ackWt, bphWt, St.bg, onOk, onErr, selNext, afterSetErr] <;> (try omega)
  | srSend _ i hi he =>
    have l1 := le_tot wt _ _ _ hi
    have l3 := ehWt_next cfg.m s.eh .readonly he
    (repeat' split) <;> simp_all [tot_set_eq _ _ _ _ _ hi, bgWt_run, bgWt_idle, bgWt_exited, bgWt_parked, bgWt_afterCmd, ehWt_noerr, ehWt_haserr, ehWt_hasperr, ehWt_closing, ehWt_exited, wt, ackWt, bphWt, St.bg, onOk, onErr, selNext, afterSetErr] <;> (try omega)
  | srPerErr _ i hi he =>
    have l1 := le_tot wt _ _ _ hi
    (try simp only [St.setDone, St.setBg, ↓reduceIte, Bool.false_eq_true, Bool.and_false, Bool.and_true, Bool.false_and, Bool.true_and]) <;> (repeat' split) <;> simp_all [tot_set_eq _ _ _ _ _ hi, bgWt_run, bgWt_idle, bgWt_exited, bgWt_parked, bgWt_afterCmd, ehWt_noerr, ehWt_haserr, ehWt_hasperr, ehWt_closing, ehWt_exited, wt, ackWt, bphWt, St.bg, onOk, onErr, selNext, afterSetErr] <;> (try omega)
  | srClosed _ i hi hc =>
    have l1 := le_tot wt _ _ _ hi
    (try simp only [St.setDone, St.setBg, ↓reduceIte, Bool.false_eq_true, Bool.and_false, Bool.and_true, Bool.false_and, Bool.true_and]) <;> (repeat' split) <;> simp_all [tot_set_eq _ _ _ _ _ hi, bgWt_run, bgWt_idle, bgWt_exited, bgWt_parked, bgWt_afterCmd, ehWt_noerr, ehWt_haserr, ehWt_hasperr, ehWt_closing, ehWt_exited, wt, ackWt, bphWt, St.bg, onOk, onErr, selNext, afterSetErr] <;> (try omega)
  | clCheckTr _ i hi =>
    have l1 := le_tot wt _ _ _ hi
    (try simp only [St.setDone, St.setBg, ↓reduceIte, Bool.false_eq_true, Bool.and_false, Bool.and_true, Bool.false_and, Bool.true_and]) <;> (repeat' split) <;> simp_all [tot_set_eq _ _ _ _ _ hi, bgWt_run, bgWt_idle, bgWt_exited, bgWt_parked, bgWt_afterCmd, ehWt_noerr, ehWt_haserr, ehWt_hasperr, ehWt_closing, ehWt_exited, wt, ackWt, bphWt, St.bg, onOk, onErr, selNext, afterSetErr] <;> (try omega)
  | clLockTr _ i hi hl =>
    have l1 := le_tot wt _ _ _ hi
    (try simp only [St.setDone, St.setBg, ↓reduceIte, Bool.false_eq_true, Bool.and_false, Bool.and_true, Bool.false_and, Bool.true_and]) <;> (repeat' split) <;> simp_all [tot_set_eq _ _ _ _ _ hi, bgWt_run, bgWt_idle, bgWt_exited, bgWt_parked, bgWt_afterCmd, ehWt_noerr, ehWt_haserr, ehWt_hasperr, ehWt_closing, ehWt_exited, wt, ackWt, bphWt, St.bg, onOk, onErr, selNext, afterSetErr] <;> (try omega)
  | clBody _ i hi =>
    have l1 := le_tot wt _ _ _ hi
    (try simp only [St.setDone, St.setBg, ↓reduceIte, Bool.false_eq_true, Bool.and_false, Bool.and_true, Bool.false_and, Bool.true_and]) <;> (repeat' split) <;> simp_all [tot_set_eq _ _ _ _ _ hi, bgWt_run, bgWt_idle, bgWt_exited, bgWt_parked, bgWt_afterCmd, ehWt_noerr, ehWt_haserr, ehWt_hasperr, ehWt_closing, ehWt_exited, wt, ackWt, bphWt, St.bg, onOk, onErr, selNext, afterSetErr] <;> (try omega)
  | clAcq _ i hi ht =>
    have l1 := le_tot wt _ _ _ hi
    (try simp only [St.setDone, St.setBg, ↓reduceIte, Bool.false_eq_true, Bool.and_false, Bool.and_true, Bool.false_and, Bool.true_and]) <;> (repeat' split) <;> simp_all [tot_set_eq _ _ _ _ _ hi, bgWt_run, bgWt_idle, bgWt_exited, bgWt_parked, bgWt_afterCmd, ehWt_noerr, ehWt_haserr, ehWt_hasperr, ehWt_closing, ehWt_exited, wt, ackWt, bphWt, St.bg, onOk, onErr, selNext, afterSetErr] <;> (try omega)
  | clAcqKept _ i hi he hk hs =>
    have l1 := le_tot wt _ _ _ hi
    (try simp only [St.setDone, St.setBg, ↓reduceIte, Bool.false_eq_true, Bool.and_false, Bool.and_true, Bool.false_and, Bool.true_and]) <;> (repeat' split) <;> simp_all [tot_set_eq _ _ _ _ _ hi, bgWt_run, bgWt_idle, bgWt_exited, bgWt_parked, bgWt_afterCmd, ehWt_noerr, ehWt_haserr, ehWt_hasperr, ehWt_closing, ehWt_exited, wt, ackWt, bphWt, St.bg, onOk, onErr, selNext, afterSetErr] <;> (try omega)
  | clWait _ i hi hm ht =>
    have l1 := le_tot wt _ _ _ hi
    (try simp only [St.setDone, St.setBg, ↓reduceIte, Bool.false_eq_true, Bool.and_false, Bool.and_true, Bool.false_and, Bool.true_and]) <;> (repeat' split) <;> simp_all [tot_set_eq _ _ _ _ _ hi, bgWt_run, bgWt_idle, bgWt_exited, bgWt_parked, bgWt_afterCmd, ehWt_noerr, ehWt_haserr, ehWt_hasperr, ehWt_closing, ehWt_exited, wt, ackWt, bphWt, St.bg, onOk, onErr, selNext, afterSetErr] <;> (try omega)
  | ehAcquire _ he ht =>
    (try simp only [St.setDone, St.setBg, ↓reduceIte, Bool.false_eq_true, Bool.and_false, Bool.and_true, Bool.false_and, Bool.true_and]) <;> (repeat' split) <;> simp_all [bgWt_run, bgWt_idle, bgWt_exited, bgWt_parked, bgWt_afterCmd, ehWt_noerr, ehWt_haserr, ehWt_hasperr, ehWt_closing, ehWt_exited, wt, ackWt, bphWt, St.bg, onOk, onErr, selNext, afterSetErr] <;> (try omega)
  | ehClose _ he hc =>
    have l3 := ehWt_onClose cfg.m s.eh s.cwl he
    (repeat' split) <;> simp_all [bgWt_run, bgWt_idle, bgWt_exited, bgWt_parked, bgWt_afterCmd, ehWt_noerr, ehWt_haserr, ehWt_hasperr, ehWt_closing, ehWt_exited, wt, ackWt, bphWt, St.bg, onOk, onErr, selNext, afterSetErr] <;> (try omega)
  | ehTake _ he ht =>
    (try simp only [St.setDone, St.setBg, ↓reduceIte, Bool.false_eq_true, Bool.and_false, Bool.and_true, Bool.false_and, Bool.true_and]) <;> (repeat' split) <;> simp_all [bgWt_run, bgWt_idle, bgWt_exited, bgWt_parked, bgWt_afterCmd, ehWt_noerr, ehWt_haserr, ehWt_hasperr, ehWt_closing, ehWt_exited, wt, ackWt, bphWt, St.bg, onOk, onErr, selNext, afterSetErr] <;> (try omega)
  | bgExitIdle _ b hb hc =>
    cases b <;> (try simp only [St.setDone, St.setBg, ↓reduceIte, Bool.false_eq_true, Bool.and_false, Bool.and_true, Bool.false_and, Bool.true_and]) <;> (repeat' split) <;> simp_all [bgWt_run, bgWt_idle, bgWt_exited, bgWt_parked, bgWt_afterCmd, ehWt_noerr, ehWt_haserr, ehWt_hasperr, ehWt_closing, ehWt_exited, wt, ackWt, bphWt, St.bg, onOk, onErr, selNext, afterSetErr] <;> (try omega)
  | bgExitParked _ hb hc =>
    (try simp only [St.setDone, St.setBg, ↓reduceIte, Bool.false_eq_true, Bool.and_false, Bool.and_true, Bool.false_and, Bool.true_and]) <;> (repeat' split) <;> simp_all [bgWt_run, bgWt_idle, bgWt_exited, bgWt_parked, bgWt_afterCmd, ehWt_noerr, ehWt_haserr, ehWt_hasperr, ehWt_closing, ehWt_exited, wt, ackWt, bphWt, St.bg, onOk, onErr, selNext, afterSetErr] <;> (try omega)
  | bgSetErrCorrupt _ b w c hb he =>
    have l3 := ehWt_next cfg.m s.eh .corrupt he
    cases b <;> cases c <;> (try simp only [St.setDone, St.setBg, ↓reduceIte, Bool.false_eq_true, Bool.and_false, Bool.and_true, Bool.false_and, Bool.true_and]) <;> (repeat' split) <;> simp_all [bgWt_run, bgWt_idle, bgWt_exited, bgWt_parked, bgWt_afterCmd, ehWt_noerr, ehWt_haserr, ehWt_hasperr, ehWt_closing, ehWt_exited, wt, ackWt, bphWt, St.bg, onOk, onErr, selNext, afterSetErr] <;> (try omega)
  | bgWorkOk _ b w hb =>
    cases b <;> (try simp only [St.setDone, St.setBg, ↓reduceIte, Bool.false_eq_true, Bool.and_false, Bool.and_true, Bool.false_and, Bool.true_and]) <;> (repeat' split) <;> simp_all [bgWt_run, bgWt_idle, bgWt_exited, bgWt_parked, bgWt_afterCmd, ehWt_noerr, ehWt_haserr, ehWt_hasperr, ehWt_closing, ehWt_exited, wt, ackWt, bphWt, St.bg, onOk, onErr, selNext, afterSetErr] <;> (try omega)
  | bgCommitOk _ b w hb =>
    cases b <;> (try simp only [St.setDone, St.setBg, ↓reduceIte, Bool.false_eq_true, Bool.and_false, Bool.and_true, Bool.false_and, Bool.true_and]) <;> (repeat' split) <;> simp_all [bgWt_run, bgWt_idle, bgWt_exited, bgWt_parked, bgWt_afterCmd, ehWt_noerr, ehWt_haserr, ehWt_hasperr, ehWt_closing, ehWt_exited, wt, ackWt, bphWt, St.bg, onOk, onErr, selNext, afterSetErr] <;> (try omega)
  | bgSetErr _ b w ok c hb he =>
    have l3 := ehWt_next cfg.m s.eh (if ok then .nil else .transient) he
    cases b <;> cases ok <;> cases c <;> (try simp only [St.setDone, St.setBg, ↓reduceIte, Bool.false_eq_true, Bool.and_false, Bool.and_true, Bool.false_and, Bool.true_and]) <;> (repeat' split) <;> simp_all [bgWt_run, bgWt_idle, bgWt_exited, bgWt_parked, bgWt_afterCmd, ehWt_noerr, ehWt_haserr, ehWt_hasperr, ehWt_closing, ehWt_exited, wt, ackWt, bphWt, St.bg, onOk, onErr, selNext, afterSetErr] <;> (try omega)
  | bgSetErrPer _ b w c hb he =>
    cases b <;> cases c <;> (try simp only [St.setDone, St.setBg, ↓reduceIte, Bool.false_eq_true, Bool.and_false, Bool.and_true, Bool.false_and, Bool.true_and]) <;> (repeat' split) <;> simp_all [bgWt_run, bgWt_idle, bgWt_exited, bgWt_parked, bgWt_afterCmd, ehWt_noerr, ehWt_haserr, ehWt_hasperr, ehWt_closing, ehWt_exited, wt, ackWt, bphWt, St.bg, onOk, onErr, selNext, afterSetErr] <;> (try omega)
  | bgBackoff _ b w c hb =>
    cases b <;> cases c <;> (try simp only [St.setDone, St.setBg, ↓reduceIte, Bool.false_eq_true, Bool.and_false, Bool.and_true, Bool.false_and, Bool.true_and]) <;> (repeat' split) <;> simp_all [bgWt_run, bgWt_idle, bgWt_exited, bgWt_parked, bgWt_afterCmd, ehWt_noerr, ehWt_haserr, ehWt_hasperr, ehWt_closing, ehWt_exited, wt, ackWt, bphWt, St.bg, onOk, onErr, selNext, afterSetErr] <;> (try omega)
  | bgLockClk _ b w hb hl =>
    cases b <;> (try simp only [St.setDone, St.setBg, ↓reduceIte, Bool.false_eq_true, Bool.and_false, Bool.and_true, Bool.false_and, Bool.true_and]) <;> (repeat' split) <;> simp_all [bgWt_run, bgWt_idle, bgWt_exited, bgWt_parked, bgWt_afterCmd, ehWt_noerr, ehWt_haserr, ehWt_hasperr, ehWt_closing, ehWt_exited, wt, ackWt, bphWt, St.bg, onOk, onErr, selNext, afterSetErr] <;> (try omega)
  | bgAck _ b w hb =>
    have l1 := tot_ackWs_wt s.ws w b
    cases b <;> (try simp only [St.setDone, St.setBg]) <;> simp_all [bgWt_run, bgWt_idle, bgWt_exited, bgWt_parked, bgWt_afterCmd, ehWt_noerr, ehWt_haserr, ehWt_hasperr, ehWt_closing, ehWt_exited, wt, ackWt, bphWt, St.bg, onOk, onErr, selNext, afterSetErr] <;> (try omega)
  | bgExit _ b w ph hb hx =>
    have l0 := bphWt_pos ph
    cases b <;> (try simp only [St.setDone, St.setBg, ↓reduceIte, Bool.false_eq_true, Bool.and_false, Bool.and_true, Bool.false_and, Bool.true_and]) <;> (repeat' split) <;> simp_all [bgWt_run, bgWt_idle, bgWt_exited, bgWt_parked, bgWt_afterCmd, ehWt_noerr, ehWt_haserr, ehWt_hasperr, ehWt_closing, ehWt_exited, wt, ackWt, bphWt, St.bg, onOk, onErr, selNext, afterSetErr] <;> (try omega)

end GoLevel.Locks
