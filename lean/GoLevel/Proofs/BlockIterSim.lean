import GoLevel.Proofs.BlockIterPrev
/-!
# The simulation relation between a byte-level `blockIter` and the cursor; `Next`, `Prev`, `First`, `Last`

The iterator is sliced to the entries `[lo, hi)` (restart slots `[q0, q1)`, `SliceCfg`); the cursor runs over
`xs` with `xs.length = hi - lo`, position `.at i` standing for entry `lo + i`.
-/
namespace GoLevel.C13
open GoLevel

variable {b : BlockR} {kvs : List KV} {off : Nat → Nat} {R : Nat} {rs : Nat → Nat}

/-- the slice: entries `[lo, hi)`, restart slots `[q0, q1)`; slot `q0` is the last one at or before `lo`, slot
`q1 - 1` points at or before `hi` (it need not be the last such slot: `newBlockIter` sets `riLimit` from the
restart index `Seek` started at) -/
structure SliceCfg (kvs : List KV) (R : Nat) (rs : Nat → Nat) (lo hi q0 q1 : Nat) : Prop where
  lohi : lo ≤ hi
  hin : hi ≤ kvs.length
  q01 : q0 < q1
  q1R : q1 ≤ R
  q0lo : rs q0 ≤ lo
  q0max : ∀ q, q0 < q → q < R → lo < rs q
  q1hi : rs (q1 - 1) ≤ hi

/-- the five slice fields of the iterator -/
structure HasCfg (off rs : Nat → Nat) (it : BIter) (lo hi q0 q1 : Nat) : Prop where
  riStart : it.riStart = q0
  riLimit : it.riLimit = q1
  offsetStart : it.offsetStart = off (rs q0)
  real : it.offsetRealStart = off lo
  limit : it.offsetLimit = off hi

/-- on entry `c`, moving forward -/
structure Fwd (kvs : List KV) (off rs : Nat → Nat) (it : BIter) (q0 q1 c : Nat) : Prop where
  dir : it.dir = .forward
  prevOffset : it.prevOffset = off c
  offset : it.offset = off (c + 1)
  key : it.key = kAt kvs c
  value : it.value = some (vAt kvs c)
  rlo : q0 ≤ it.restartIndex
  rhi : it.restartIndex < q1
  rc : rs it.restartIndex ≤ c
  node : it.prevNode = []
  keys : it.prevKeys = []

/-- on entry `c`, moving backward, with the cache of the entries before `c` in the restart range -/
structure Bwd (kvs : List KV) (off rs : Nat → Nat) (it : BIter) (lo q0 q1 c : Nat) : Prop where
  dir : it.dir = .backward
  offset : it.offset = off (c + 1)
  key : it.key = kAt kvs c
  value : it.value = some (vAt kvs c)
  rlo : q0 ≤ it.restartIndex
  rhi : it.restartIndex < q1
  rc : rs it.restartIndex ≤ c
  node : it.prevNode = off (rs it.restartIndex) ::
    cNodes kvs off (max (rs it.restartIndex) lo) (c - max (rs it.restartIndex) lo)
  keys : it.prevKeys = cKeys kvs (max (rs it.restartIndex) lo) (c - max (rs it.restartIndex) lo)

def PosRel (kvs : List KV) (off rs : Nat → Nat) (it : BIter) (lo hi q0 q1 : Nat) : Pos → Prop
  | .soi => it.dir = .soi ∧ it.prevNode = [] ∧ it.prevKeys = []
  | .eoi => it.dir = .eoi ∧ it.prevNode = [] ∧ it.prevKeys = []
  | .at i => lo + i < hi ∧ (Fwd kvs off rs it q0 q1 (lo + i) ∨ Bwd kvs off rs it lo q0 q1 (lo + i))

structure Rel (kvs : List KV) (off rs : Nat → Nat) (lo hi q0 q1 : Nat) (it : BIter) (p : Pos) : Prop where
  cfg : HasCfg off rs it lo hi q0 q1
  err : it.err = none
  pos : PosRel kvs off rs it lo hi q0 q1 p

/-- the Boolean a seek method returns when the cursor ends at `p` -/
def posOk : Pos → Bool
  | .at _ => true
  | _ => false

/-! ## `Next` -/

section dropCache
variable (it : BIter)
@[simp] theorem dc_key : it.dropCache.key = it.key := by unfold BIter.dropCache; split <;> rfl
@[simp] theorem dc_value : it.dropCache.value = it.value := by unfold BIter.dropCache; split <;> rfl
@[simp] theorem dc_offset : it.dropCache.offset = it.offset := by unfold BIter.dropCache; split <;> rfl
@[simp] theorem dc_prevOffset : it.dropCache.prevOffset = it.prevOffset := by unfold BIter.dropCache; split <;> rfl
@[simp] theorem dc_restartIndex : it.dropCache.restartIndex = it.restartIndex := by
  unfold BIter.dropCache; split <;> rfl
@[simp] theorem dc_dir : it.dropCache.dir = it.dir := by unfold BIter.dropCache; split <;> rfl
@[simp] theorem dc_riStart : it.dropCache.riStart = it.riStart := by unfold BIter.dropCache; split <;> rfl
@[simp] theorem dc_riLimit : it.dropCache.riLimit = it.riLimit := by unfold BIter.dropCache; split <;> rfl
@[simp] theorem dc_offsetStart : it.dropCache.offsetStart = it.offsetStart := by
  unfold BIter.dropCache; split <;> rfl
@[simp] theorem dc_real : it.dropCache.offsetRealStart = it.offsetRealStart := by
  unfold BIter.dropCache; split <;> rfl
@[simp] theorem dc_limit : it.dropCache.offsetLimit = it.offsetLimit := by unfold BIter.dropCache; split <;> rfl
@[simp] theorem dc_err : it.dropCache.err = it.err := by unfold BIter.dropCache; split <;> rfl
theorem dc_node (h : it.dir = .backward ∨ it.prevNode = []) : it.dropCache.prevNode = [] := by
  unfold BIter.dropCache; split
  · rfl
  · rcases h with h | h
    · contradiction
    · exact h
theorem dc_keys (h : it.dir = .backward ∨ it.prevKeys = []) : it.dropCache.prevKeys = [] := by
  unfold BIter.dropCache; split
  · rfl
  · rcases h with h | h
    · contradiction
    · exact h
end dropCache

theorem HasCfg.dropCache {it : BIter} {lo hi q0 q1 : Nat} (h : HasCfg off rs it lo hi q0 q1) :
    HasCfg off rs it.dropCache lo hi q0 q1 :=
  ⟨by simp [h.riStart], by simp [h.riLimit], by simp [h.offsetStart], by simp [h.real], by simp [h.limit]⟩

/-- `Next` from a forward/backward iterator whose `offset` is the start of entry `j` -/
theorem next_ready (L : Layout b kvs off R rs) {lo hi q0 q1 : Nat} (S : SliceCfg kvs R rs lo hi q0 q1)
    {it : BIter} (hcfg : HasCfg off rs it lo hi q0 q1) (herr : it.err = none)
    (hdir : it.dir = .forward ∨ it.dir = .backward) {j : Nat} (hoff : it.offset = off j)
    (hk : KeyOK kvs R rs j it.key) (hj : j ≤ hi) :
    (max j lo < hi → BIter.next b it = (true,
      { it.dropCache with key := kAt kvs (max j lo), value := some (vAt kvs (max j lo))
                          prevOffset := off (max j lo), offset := off (max j lo + 1), dir := .forward })) ∧
    (max j lo = hi → ∃ kb val, BIter.next b it = (false,
      { it.dropCache with key := kb, value := val, offset := off hi, dir := .eoi })) := by
  have hne : ¬ (it.dir = .eoi ∨ it.err.isSome = true) := by
    rw [herr]; rcases hdir with h | h <;> simp [h]
  have hnr : ¬ (it.dir = .released) := by rcases hdir with h | h <;> simp [h]
  have hns : ¬ (it.dir = .soi) := by rcases hdir with h | h <;> simp [h]
  have hnext : BIter.next b it = BIter.nextBody b it.dropCache := by
    unfold BIter.next
    rw [if_neg hne, if_neg hnr, if_neg hns]
  have hc := hcfg.dropCache
  rw [hnext]
  constructor
  · intro hlt
    exact nextBody_hit L ⟨hc.real, hc.limit⟩ S.lohi S.hin (by simpa using hoff) (by simpa using hk) hlt
  · intro he
    exact nextBody_end L ⟨hc.real, hc.limit⟩ S.lohi S.hin (by simpa using hoff) (by simpa using hk) hj he

theorem Cursor.first_eq {α : Type} (xs : List α) : Cursor.first xs = if 0 < xs.length then .at 0 else .eoi := by
  cases xs <;> simp [Cursor.first]

theorem Cursor.last_eq {α : Type} (xs : List α) :
    Cursor.last xs = if 0 < xs.length then .at (xs.length - 1) else .soi := by
  cases xs <;> simp [Cursor.last]

/-- `Next` simulates `Cursor.next` -/
theorem rel_next (L : Layout b kvs off R rs) {lo hi q0 q1 : Nat} (S : SliceCfg kvs R rs lo hi q0 q1)
    {α : Type} (xs : List α) (hlen : xs.length = hi - lo) {it : BIter} {p : Pos}
    (h : Rel kvs off rs lo hi q0 q1 it p) :
    Rel kvs off rs lo hi q0 q1 (BIter.next b it).2 (Cursor.next xs p) ∧
      (BIter.next b it).1 = posOk (Cursor.next xs p) ∧ (BIter.next b it).2.dir ≠ .backward := by
  obtain ⟨hcfg, herr, hpos⟩ := h
  cases p with
  | soi =>
    obtain ⟨hd, hn, hk⟩ := hpos
    have hnext : BIter.next b it =
        BIter.nextBody b { it with restartIndex := it.riStart, offset := it.offsetStart } := by
      unfold BIter.next
      rw [if_neg (by rw [herr, hd]; simp), if_neg (by rw [hd]; simp), if_pos hd]
    have hkey : KeyOK kvs R rs (rs q0) it.key := Or.inl ⟨q0, by have := S.q01; have := S.q1R; omega, rfl⟩
    have hm : max (rs q0) lo = lo := by have := S.q0lo; omega
    simp only [Cursor.next, Cursor.first_eq, hlen]
    rw [hnext]
    by_cases hlt : lo < hi
    · have := nextBody_hit L (it := { it with restartIndex := it.riStart, offset := it.offsetStart })
        ⟨hcfg.real, hcfg.limit⟩ S.lohi S.hin hcfg.offsetStart hkey (by rw [hm]; exact hlt)
      rw [this, if_pos (by omega), hm]
      refine ⟨⟨⟨hcfg.riStart, hcfg.riLimit, hcfg.offsetStart, hcfg.real, hcfg.limit⟩, herr, ?_⟩, rfl,
        by show BDir.forward ≠ BDir.backward; simp⟩
      refine ⟨by omega, Or.inl ⟨rfl, rfl, rfl, rfl, rfl, ?_, ?_, ?_, hn, hk⟩⟩
      · show q0 ≤ it.riStart; rw [hcfg.riStart]; exact Nat.le_refl _
      · show it.riStart < q1; rw [hcfg.riStart]; exact S.q01
      · show rs it.riStart ≤ lo + 0; rw [hcfg.riStart]; exact S.q0lo
    · obtain ⟨kb, val, this⟩ := nextBody_end L (it := { it with restartIndex := it.riStart, offset := it.offsetStart })
        ⟨hcfg.real, hcfg.limit⟩ S.lohi S.hin hcfg.offsetStart hkey (by have := S.q0lo; have := S.lohi; omega)
        (by rw [hm]; have := S.lohi; omega)
      rw [this, if_neg (by omega)]
      exact ⟨⟨⟨hcfg.riStart, hcfg.riLimit, hcfg.offsetStart, hcfg.real, hcfg.limit⟩, herr, rfl, hn, hk⟩, rfl,
        by show BDir.eoi ≠ BDir.backward; simp⟩
  | eoi =>
    obtain ⟨hd, hn, hk⟩ := hpos
    have hnext : BIter.next b it = (false, it) := by
      unfold BIter.next
      rw [if_pos (Or.inl hd)]
    rw [hnext]
    exact ⟨⟨hcfg, herr, hd, hn, hk⟩, rfl, by show it.dir ≠ BDir.backward; rw [hd]; simp⟩
  | «at» i =>
    obtain ⟨hi', hfb⟩ := hpos
    have hready : (it.dir = .forward ∨ it.dir = .backward) ∧ it.offset = off (lo + i + 1) ∧
        it.key = kAt kvs (lo + i) ∧ (it.dir = .backward ∨ it.prevNode = []) ∧
        (it.dir = .backward ∨ it.prevKeys = []) ∧ q0 ≤ it.restartIndex ∧ it.restartIndex < q1 ∧
        rs it.restartIndex ≤ lo + i := by
      rcases hfb with f | f
      · exact ⟨Or.inl f.dir, f.offset, f.key, Or.inr f.node, Or.inr f.keys, f.rlo, f.rhi, f.rc⟩
      · exact ⟨Or.inr f.dir, f.offset, f.key, Or.inl f.dir, Or.inl f.dir, f.rlo, f.rhi, f.rc⟩
    obtain ⟨hdir, hoff, hkey, hn, hk, hr1, hr2, hr3⟩ := hready
    obtain ⟨hhit, hend⟩ := next_ready L S hcfg herr hdir hoff
      (Or.inr ⟨by omega, by rw [hkey]; congr 1⟩) (by omega)
    have hm : max (lo + i + 1) lo = lo + i + 1 := by omega
    simp only [Cursor.next, hlen]
    by_cases hlt : lo + i + 1 < hi
    · rw [hhit (by rw [hm]; exact hlt), if_pos (by omega), hm]
      have hc := hcfg.dropCache
      refine ⟨⟨⟨hc.riStart, hc.riLimit, hc.offsetStart, hc.real, hc.limit⟩, by simpa using herr, ?_⟩, rfl,
        by show BDir.forward ≠ BDir.backward; simp⟩
      refine ⟨by omega, Or.inl ⟨rfl, rfl, rfl, rfl, rfl, ?_, ?_, ?_, dc_node it hn, dc_keys it hk⟩⟩
      · show q0 ≤ it.dropCache.restartIndex; simpa using hr1
      · show it.dropCache.restartIndex < q1; simpa using hr2
      · show rs it.dropCache.restartIndex ≤ lo + (i + 1); simp; omega
    · obtain ⟨kb, val, this⟩ := hend (by rw [hm]; omega)
      rw [this, if_neg (by omega)]
      have hc := hcfg.dropCache
      exact ⟨⟨⟨hc.riStart, hc.riLimit, hc.offsetStart, hc.real, hc.limit⟩, by simpa using herr, rfl,
        dc_node it hn, dc_keys it hk⟩, rfl, by show BDir.eoi ≠ BDir.backward; simp⟩

/-! ## `Prev` -/

theorem pop_lists (pre : List Nat) (x y z : Nat) :
    (pre ++ [x, y, z]).drop ((pre ++ [x, y, z]).length - 3) = [x, y, z] ∧
    (pre ++ [x, y, z]).take ((pre ++ [x, y, z]).length - 3) = pre ∧
    ¬ ((pre ++ [x, y, z]).length < 3) := by
  have e : (pre ++ [x, y, z]).length - 3 = pre.length := by simp
  rw [e]
  exact ⟨List.drop_left' rfl, List.take_left' rfl, by simp⟩

/-- `Prev` in the middle of a restart range: the previous entry comes out of the cache -/
theorem prev_pop (L : Layout b kvs off R rs) {it : BIter} {lo q0 q1 c : Nat} (hc : c < kvs.length)
    (herr : it.err = none) (f : Bwd kvs off rs it lo q0 q1 c) (hs : max (rs it.restartIndex) lo < c) :
    BIter.prev b it = (true,
      { it with prevNode := off (rs it.restartIndex) ::
                  cNodes kvs off (max (rs it.restartIndex) lo) (c - 1 - max (rs it.restartIndex) lo)
                key := kAt kvs (c - 1)
                prevKeys := cKeys kvs (max (rs it.restartIndex) lo) (c - 1 - max (rs it.restartIndex) lo)
                value := some (vAt kvs (c - 1))
                offset := off c }) := by
  generalize hsd : max (rs it.restartIndex) lo = s at hs
  have e : c - s = (c - 1 - s) + 1 := by omega
  have e2 : s + (c - 1 - s) = c - 1 := by omega
  have e3 : c - 1 + 1 = c := by omega
  have hn : it.prevNode = (off (rs it.restartIndex) :: cNodes kvs off s (c - 1 - s)) ++
      [(cKeys kvs s (c - 1 - s)).length, off c - (vAt kvs (c - 1)).length, (vAt kvs (c - 1)).length] := by
    rw [f.node, hsd, e, cNodes, e2, e3]; rfl
  have hk : it.prevKeys = cKeys kvs s (c - 1 - s) ++ kAt kvs (c - 1) := by
    rw [f.keys, hsd, e, cKeys, e2]
  obtain ⟨hd, ht, hl3⟩ := pop_lists (off (rs it.restartIndex) :: cNodes kvs off s (c - 1 - s))
    (cKeys kvs s (c - 1 - s)).length (off c - (vAt kvs (c - 1)).length) (vAt kvs (c - 1)).length
  have hl1 : ¬ (it.prevNode.length = 1) := by rw [hn]; simp
  obtain ⟨hvl, hval⟩ := L.value (c - 1) (by omega)
  rw [e3] at hvl hval
  unfold BIter.prev
  rw [if_neg (by rw [herr, f.dir]; simp), if_neg (by rw [f.dir]; simp), if_neg (by rw [f.dir]; simp),
    if_neg (by rw [f.dir]; simp), if_neg hl1, if_neg (by rw [hn]; exact hl3)]
  simp only [hn, hd, ht, hk, List.getD_cons_zero, List.getD_cons_succ, List.drop_left, List.take_left]
  have e4 : off c - (vAt kvs (c - 1)).length + (vAt kvs (c - 1)).length = off c := by omega
  have e5 : off c - (off c - (vAt kvs (c - 1)).length) = (vAt kvs (c - 1)).length := by omega
  rw [e4, e5, hval]

/-- `Prev` simulates `Cursor.prev` -/
theorem rel_prev (L : Layout b kvs off R rs) {lo hi q0 q1 : Nat} (S : SliceCfg kvs R rs lo hi q0 q1)
    {α : Type} (xs : List α) (hlen : xs.length = hi - lo) {it : BIter} {p : Pos}
    (h : Rel kvs off rs lo hi q0 q1 it p) :
    Rel kvs off rs lo hi q0 q1 (BIter.prev b it).2 (Cursor.prev xs p) ∧
      (BIter.prev b it).1 = posOk (Cursor.prev xs p) := by
  obtain ⟨hcfg, herr, hpos⟩ := h
  have hq0R : q0 < R := by have := S.q01; have := S.q1R; omega
  have hcfg' : ∀ it' : BIter, it'.riStart = it.riStart → it'.riLimit = it.riLimit →
      it'.offsetStart = it.offsetStart → it'.offsetRealStart = it.offsetRealStart →
      it'.offsetLimit = it.offsetLimit → HasCfg off rs it' lo hi q0 q1 :=
    fun it' h1 h2 h3 h4 h5 => ⟨h1.trans hcfg.riStart, h2.trans hcfg.riLimit, h3.trans hcfg.offsetStart,
      h4.trans hcfg.real, h5.trans hcfg.limit⟩
  cases p with
  | soi =>
    obtain ⟨hd, hn, hk⟩ := hpos
    have : BIter.prev b it = (false, it) := by
      unfold BIter.prev; rw [if_pos (Or.inl hd)]
    rw [this]
    exact ⟨⟨hcfg, herr, hd, hn, hk⟩, rfl⟩
  | eoi =>
    obtain ⟨hd, hn, hk⟩ := hpos
    simp only [Cursor.prev, Cursor.last_eq, hlen]
    have hstep : BIter.prev b it =
        (if it.offsetLimit = it.offsetRealStart then
          (false, { it with restartIndex := it.riLimit, offset := it.offsetLimit, dir := .soi })
        else if it.riLimit = 0 then
          (false, BIter.sErr { it with restartIndex := it.riLimit, offset := it.offsetLimit } .corrupted)
        else BIter.prevBuild b (it.riLimit - 1)
          { it with restartIndex := it.riLimit, offset := it.offsetLimit, dir := .backward }) := by
      unfold BIter.prev
      rw [if_neg (by rw [herr, hd]; simp), if_neg (by rw [hd]; simp), if_neg (by rw [hd]; simp), if_pos hd]
    rw [hstep]
    by_cases hlt : lo < hi
    · have hne : ¬ (it.offsetLimit = it.offsetRealStart) := by
        rw [hcfg.limit, hcfg.real]; have := L.off_lt hlt S.hin; omega
      rw [if_neg hne, if_neg (by rw [hcfg.riLimit]; have := S.q01; omega), if_pos (by omega)]
      have hb := prevBuild_ok L
        (it := { it with restartIndex := it.riLimit, offset := it.offsetLimit, dir := .backward }) (lo := lo)
        (t := hi) (ri := it.riLimit - 1) hcfg.real hcfg.limit S.hin hlt
        (by rw [hcfg.riLimit]; have := S.q01; have := S.q1R; omega) (by rw [hcfg.riLimit]; exact S.q1hi) hn hk
      rw [hb]
      have hq : q0 ≤ (if rs (it.riLimit - 1) = hi then it.riLimit - 1 - 1 else it.riLimit - 1) ∧
          (if rs (it.riLimit - 1) = hi then it.riLimit - 1 - 1 else it.riLimit - 1) < q1 ∧
          rs (if rs (it.riLimit - 1) = hi then it.riLimit - 1 - 1 else it.riLimit - 1) < hi := by
        rw [hcfg.riLimit]
        have h01 := S.q01
        split
        · rename_i he
          have hne0 : q1 - 1 ≠ q0 := by intro h'; rw [h'] at he; have := S.q0lo; omega
          have := L.rs_lt (p := q1 - 1 - 1) (q := q1 - 1) (by omega) (by have := S.q1R; omega)
          exact ⟨by omega, by omega, by omega⟩
        · rename_i he
          have := S.q1hi
          exact ⟨by omega, by omega, by omega⟩
      have e : lo + (hi - lo - 1) = hi - 1 := by omega
      refine ⟨⟨hcfg' _ rfl rfl rfl rfl rfl, herr, ?_⟩, rfl⟩
      refine ⟨by omega, Or.inr ?_⟩
      rw [e]
      have hrc : rs (if rs (it.riLimit - 1) = hi then it.riLimit - 1 - 1 else it.riLimit - 1) ≤ hi - 1 := by
        have := hq.2.2; omega
      exact ⟨rfl, by show off hi = off (hi - 1 + 1); congr 1; omega, rfl, rfl, hq.1, hq.2.1, hrc, rfl, rfl⟩
    · have he : hi = lo := by have := S.lohi; omega
      rw [if_pos (by rw [hcfg.limit, hcfg.real, he]), if_neg (by omega)]
      exact ⟨⟨hcfg' _ rfl rfl rfl rfl rfl, herr, rfl, hn, hk⟩, rfl⟩
  | «at» i =>
    obtain ⟨hi', hfb⟩ := hpos
    simp only [Cursor.prev]
    rcases hfb with f | f
    · -- change of direction
      have hstep : BIter.prev b it =
          (if it.prevOffset = it.offsetRealStart then (false, { it with offset := it.prevOffset, dir := .soi })
          else
            match b.restartIndex it.restartIndex it.riLimit it.prevOffset with
            | none => (false, BIter.sErr { it with offset := it.prevOffset } .corrupted)
            | some ri => BIter.prevBuild b ri { it with offset := it.prevOffset, dir := .backward }) := by
        unfold BIter.prev
        rw [if_neg (by rw [herr, f.dir]; simp), if_neg (by rw [f.dir]; simp), if_pos f.dir]
        rfl
      rw [hstep]
      by_cases hi0 : i = 0
      · subst hi0
        rw [if_pos (by rw [f.prevOffset, hcfg.real]; rfl), if_pos rfl]
        exact ⟨⟨hcfg' _ rfl rfl rfl rfl rfl, herr, rfl, f.node, f.keys⟩, rfl⟩
      · have hne : ¬ (it.prevOffset = it.offsetRealStart) := by
          rw [f.prevOffset, hcfg.real]
          have := L.off_lt (i := lo) (j := lo + i) (by omega) (by have := S.hin; omega); omega
        obtain ⟨q, hq, hrq, hq1, hqc, _⟩ := restartIndex_spec L f.rhi S.q1R
          (by have := S.hin; omega : lo + i ≤ kvs.length) f.rc
        rw [← hcfg.riLimit, ← f.prevOffset] at hq
        rw [if_neg hne, if_neg hi0, hq]
        simp only
        have hb := prevBuild_ok L
          (it := { it with offset := it.prevOffset, dir := .backward }) (lo := lo) (t := lo + i)
          (ri := q) hcfg.real f.prevOffset (by have := S.hin; omega) (by omega) (by have := S.q1R; omega) hqc
          f.node f.keys
        rw [hb]
        have hq' : q0 ≤ (if rs q = lo + i then q - 1 else q) ∧ (if rs q = lo + i then q - 1 else q) < q1 ∧
            rs (if rs q = lo + i then q - 1 else q) < lo + i := by
          have hr0 := f.rlo
          split
          · rename_i he
            have hne0 : q ≠ q0 := by intro h'; rw [h'] at he; have := S.q0lo; omega
            have := L.rs_lt (p := q - 1) (q := q) (by omega) (by have := S.q1R; omega)
            exact ⟨by omega, by omega, by omega⟩
          · exact ⟨by omega, by omega, by omega⟩
        have e : lo + (i - 1) = lo + i - 1 := by omega
        refine ⟨⟨hcfg' _ rfl rfl rfl rfl rfl, herr, ?_⟩, rfl⟩
        refine ⟨by omega, Or.inr ?_⟩
        rw [e]
        have hrc : rs (if rs q = lo + i then q - 1 else q) ≤ lo + i - 1 := by have := hq'.2.2; omega
        exact ⟨rfl, by show off (lo + i) = off (lo + i - 1 + 1); congr 1; omega, rfl, rfl, hq'.1, hq'.2.1,
          hrc, rfl, rfl⟩
    · -- already moving backward
      have hrR : it.restartIndex < R := by have := f.rhi; have := S.q1R; omega
      by_cases hs : max (rs it.restartIndex) lo < lo + i
      · -- from the cache
        rw [prev_pop L (by have := S.hin; omega) herr f hs]
        have hi0 : i ≠ 0 := by omega
        rw [if_neg hi0]
        have e : lo + (i - 1) = lo + i - 1 := by omega
        refine ⟨⟨hcfg' _ rfl rfl rfl rfl rfl, herr, ?_⟩, rfl⟩
        refine ⟨by omega, Or.inr ?_⟩
        rw [e]
        exact ⟨f.dir, by show off (lo + i) = off (lo + i - 1 + 1); congr 1; omega, rfl, rfl, f.rlo, f.rhi,
          by show rs it.restartIndex ≤ lo + i - 1; omega, rfl, rfl⟩
      · -- the end of a restart range
        have hc : lo + i = max (rs it.restartIndex) lo := by have := f.rc; omega
        have hn1 : it.prevNode = [off (rs it.restartIndex)] := by
          rw [f.node]; have : lo + i - max (rs it.restartIndex) lo = 0 := by omega
          rw [this]; rfl
        have hk0 : it.prevKeys = [] := by
          rw [f.keys]; have : lo + i - max (rs it.restartIndex) lo = 0 := by omega
          rw [this]; rfl
        have hstep : BIter.prev b it =
            (if it.restartIndex = it.riStart then
              (false, { it with offset := it.prevNode.headD 0, prevNode := [], dir := .soi })
            else if it.restartIndex = 0 then
              (false, BIter.sErr { it with offset := it.prevNode.headD 0, prevNode := [] } .corrupted)
            else BIter.prevBuild b (it.restartIndex - 1)
              { it with offset := it.prevNode.headD 0, prevNode := [], restartIndex := it.restartIndex - 1 }) := by
          unfold BIter.prev
          rw [if_neg (by rw [herr, f.dir]; simp), if_neg (by rw [f.dir]; simp), if_neg (by rw [f.dir]; simp),
            if_neg (by rw [f.dir]; simp), if_pos (by rw [hn1]; rfl)]
        rw [hstep]
        by_cases hr0 : it.restartIndex = q0
        · have hi0 : i = 0 := by rw [hr0] at hc; have := S.q0lo; omega
          rw [if_pos (by rw [hcfg.riStart]; exact hr0), if_pos hi0]
          exact ⟨⟨hcfg' _ rfl rfl rfl rfl rfl, herr, rfl, rfl, hk0⟩, rfl⟩
        · have hgt : q0 < it.restartIndex := by have := f.rlo; omega
          have hlo := S.q0max _ hgt hrR
          have hi0 : i ≠ 0 := by omega
          rw [if_neg (by rw [hcfg.riStart]; exact hr0), if_neg (by omega), if_neg hi0]
          have hlt := L.rs_lt (p := it.restartIndex - 1) (q := it.restartIndex) (by omega) hrR
          have hb := prevBuild_ok L
            (it := { it with offset := it.prevNode.headD 0, prevNode := []
                             restartIndex := it.restartIndex - 1 }) (lo := lo) (t := rs it.restartIndex)
            (ri := it.restartIndex - 1) hcfg.real (by show it.prevNode.headD 0 = _; rw [hn1]; rfl)
            (L.rs_le_len hrR) hlo (by omega) (by omega) rfl hk0
          rw [hb, if_neg (by omega)]
          have e : lo + (i - 1) = rs it.restartIndex - 1 := by omega
          refine ⟨⟨hcfg' _ rfl rfl rfl rfl rfl, herr, ?_⟩, rfl⟩
          refine ⟨by omega, Or.inr ?_⟩
          rw [e]
          exact ⟨f.dir, by show off (rs it.restartIndex) = off (rs it.restartIndex - 1 + 1); congr 1; omega,
            rfl, rfl, by show q0 ≤ it.restartIndex - 1; omega,
            by show it.restartIndex - 1 < q1; have := f.rhi; omega,
            by show rs (it.restartIndex - 1) ≤ rs it.restartIndex - 1; omega, rfl, rfl⟩

end GoLevel.C13
