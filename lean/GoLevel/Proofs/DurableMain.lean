import GoLevel.Proofs.DurableStepR3
import GoLevel.Proofs.DurableStepTr
/-!
The invariant holds initially and is preserved by every fault-free step: it holds in every reachable state.
-/
namespace GoLevel.Dur

theorem inv_init (cfg : Cfg) : Inv cfg init.1 init.2 := by
  obtain ⟨a, b, c, e, f⟩ := cfg
  cases a <;> cases b <;> cases c <;> cases e <;> cases f <;> decide

theorem inv_step {cfg : Cfg} (hg : cfg.Good) {s : St} {d : Disk} (h : Inv cfg s d) {a : Act}
    (hff : a.faultFree = true) {s' : St} {d' : Disk} (hs : step cfg s d a = some (s', d')) : Inv cfg s' d' := by
  cases a with
  | wAppend recs sync o =>
    have : o = .ok := by simpa [Act.faultFree] using hff
    subst this
    exact inv_wAppend h hs
  | wSync o =>
    have : o = .ok := by simpa [Act.faultFree] using hff
    subst this
    exact inv_wSync h hs
  | wApply => exact inv_wApply h hs
  | wPublish => exact inv_wPublish h hs
  | wAck => exact inv_wAck h hs
  | rotate o =>
    have : o = .ok := by simpa [Act.faultFree] using hff
    subst this
    exact inv_rotate h hs
  | flushStart =>
    simp only [step, Option.map_eq_some_iff, Prod.mk.injEq] at hs
    obtain ⟨s1, hs1, rfl, rfl⟩ := hs
    exact inv_flushStart h hs1
  | job rot o =>
    have : o = .ok := by simpa [Act.faultFree] using hff
    subst this
    simp only [step] at hs
    cases hj : s.job with
    | none => rw [hj] at hs; cases hs
    | some j =>
      rw [hj] at hs
      exact inv_job_step hg h hj hs
  | crash ch =>
    simp only [step, Option.some.injEq, Prod.mk.injEq] at hs
    obtain ⟨rfl, rfl⟩ := hs
    exact inv_crash hg h ch
  | exit =>
    simp only [step, Option.some.injEq, Prod.mk.injEq] at hs
    obtain ⟨rfl, rfl⟩ := hs
    exact inv_exit h
  | recOpen =>
    simp only [step, Option.map_eq_some_iff, Prod.mk.injEq] at hs
    obtain ⟨s1, hs1, rfl, rfl⟩ := hs
    exact inv_recOpen h hs1
  | recStep =>
    simp only [step, Option.map_eq_some_iff, Prod.mk.injEq] at hs
    obtain ⟨s1, hs1, rfl, rfl⟩ := hs
    exact inv_recStep h hs1
  | compactStart inputs =>
    simp only [step, Option.map_eq_some_iff, Prod.mk.injEq] at hs
    obtain ⟨s1, hs1, rfl, rfl⟩ := hs
    exact inv_compactStart h hs1
  | trBegin =>
    simp only [step, Option.map_eq_some_iff, Prod.mk.injEq] at hs
    obtain ⟨s1, hs1, rfl, rfl⟩ := hs
    exact inv_stepTr h hs1
  | trPut _ =>
    simp only [step, Option.map_eq_some_iff, Prod.mk.injEq] at hs
    obtain ⟨s1, hs1, rfl, rfl⟩ := hs
    exact inv_stepTr h hs1
  | trCommit =>
    simp only [step, Option.map_eq_some_iff, Prod.mk.injEq] at hs
    obtain ⟨s1, hs1, rfl, rfl⟩ := hs
    exact inv_stepTr h hs1
  | trDiscard =>
    simp only [step, Option.map_eq_some_iff, Prod.mk.injEq] at hs
    obtain ⟨s1, hs1, rfl, rfl⟩ := hs
    exact inv_stepTr h hs1

theorem inv_run {cfg : Cfg} (hg : cfg.Good) {sd sd' : St × Disk} (h : Inv cfg sd.1 sd.2) (as : List Act)
    (hff : ∀ a ∈ as, a.faultFree = true) (hr : run cfg sd as = some sd') : Inv cfg sd'.1 sd'.2 := by
  induction as generalizing sd with
  | nil => simp only [run, Option.some.injEq] at hr; subst hr; exact h
  | cons a as ih =>
    obtain ⟨s, d⟩ := sd
    simp only [run] at hr
    cases hs : step cfg s d a with
    | none => rw [hs] at hr; cases hr
    | some sd1 =>
      rw [hs] at hr
      obtain ⟨s1, d1⟩ := sd1
      exact ih (sd := (s1, d1)) (inv_step hg h (hff a List.mem_cons_self) hs)
        (fun b hb => hff b (List.mem_cons_of_mem _ hb)) hr

theorem inv_reachable {cfg : Cfg} (hg : cfg.Good) {sd : St × Disk} (h : ReachableFF cfg sd) : Inv cfg sd.1 sd.2 := by
  obtain ⟨as, hff, hr⟩ := h
  exact inv_run hg (inv_init cfg) as hff hr

end GoLevel.Dur
