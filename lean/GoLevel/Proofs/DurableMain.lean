import GoLevel.Proofs.DurableStepR3
import GoLevel.Proofs.DurableStepTr
/-!
The invariant holds initially and is preserved by every fault-free step: it holds in every reachable state.
-/
namespace GoLevel.Dur

theorem inv_init (cfg : Cfg) : Inv cfg init.1 init.2 := by
  obtain ⟨a, b, c, e, f, g, h, i, k⟩ := cfg
  cases a <;> cases b <;> cases c <;> cases e <;> cases f <;> cases g <;> cases h <;> cases i <;> cases k <;> decide

theorem failTo_everFailed (s : St) (j : Job) (pc : JPc) : (failTo s j pc).everFailed = s.everFailed := by
  unfold failTo giveUp; split <;> rfl

theorem finishJob_everFailed (s : St) (j : Job) : (finishJob s j).everFailed = s.everFailed := by
  unfold finishJob
  split <;> try rfl
  split <;> rfl

/-- a job never touches the ghost flag -/
theorem stepJob_everFailed {cfg : Cfg} {s : St} {d : Disk} {j : Job} {rot : Bool} {o : Outcome}
    (hef : s.everFailed = false) {s' : St} {d' : Disk} (hs : stepJob cfg s d j rot o = some (s', d')) :
    s'.everFailed = false := by
  unfold stepJob at hs
  simp only at hs
  repeat' split at hs
  all_goals first
    | (simp only [Option.some.injEq, Prod.mk.injEq] at hs
       obtain ⟨rfl, _⟩ := hs
       first
         | exact hef
         | (rw [failTo_everFailed]; exact hef)
         | (rw [finishJob_everFailed]; exact hef)
         | (simp only [giveUp, install]; exact hef))
    | cases hs

theorem stepTr_everFailed {s : St} {a : Act} (hef : s.everFailed = false) {s' : St} (hs : stepTr s a = some s') :
    s'.everFailed = false := by
  unfold stepTr at hs
  repeat' split at hs
  all_goals first
    | (simp only [Option.some.injEq] at hs; subst hs; exact hef)
    | cases hs

/-- the steps outside the writer never touch the ghost flag -/
theorem stepOther_everFailed {s : St} (hef : s.everFailed = false) {s' : St} {d : Disk} {cfg : Cfg} {inputs : List Nat}
    (hs : flushStart s = some s' ∨ recOpen cfg s d = some s' ∨ recStep s d = some s' ∨
      compactStart s d inputs = some s') : s'.everFailed = false := by
  rcases hs with hs | hs | hs | hs
  · unfold flushStart at hs
    repeat' split at hs
    all_goals first
      | (simp only [Option.some.injEq] at hs; subst hs; exact hef)
      | cases hs
  · unfold recOpen at hs
    repeat' split at hs
    all_goals first
      | (simp only [Option.some.injEq] at hs; subst hs; exact hef)
      | cases hs
  · unfold recStep at hs
    repeat' split at hs
    all_goals first
      | (simp only [Option.some.injEq] at hs; subst hs; exact hef)
      | cases hs
  · unfold compactStart at hs
    repeat' split at hs
    all_goals first
      | (simp only [Option.some.injEq] at hs; subst hs; exact hef)
      | cases hs

/-- fault-free steps never set the ghost flag `everFailed` -/
theorem step_everFailed {cfg : Cfg} {s : St} {d : Disk} {a : Act} (hff : a.writerFaultFree = true)
    (hef : s.everFailed = false) {s' : St} {d' : Disk} (hs : step cfg s d a = some (s', d')) :
    s'.everFailed = false := by
  cases a with
  | wAppend recs sync o =>
    have ho : o = .ok := by simpa [Act.writerFaultFree] using hff
    subst ho
    simp only [step, stepWriter, Outcome.failed, Bool.false_eq_true, if_false] at hs
    repeat' split at hs
    all_goals first
      | (simp only [Option.some.injEq, Prod.mk.injEq] at hs; obtain ⟨rfl, _⟩ := hs; exact hef)
      | cases hs
  | wSync o =>
    have ho : o = .ok := by simpa [Act.writerFaultFree] using hff
    subst ho
    simp only [step, stepWriter, Outcome.failed, Bool.false_eq_true, if_false] at hs
    repeat' split at hs
    all_goals first
      | (simp only [Option.some.injEq, Prod.mk.injEq] at hs; obtain ⟨rfl, _⟩ := hs; exact hef)
      | cases hs
  | rotate o =>
    have ho : o = .ok := by simpa [Act.writerFaultFree] using hff
    subst ho
    simp only [step, stepWriter, Outcome.failed, Bool.false_eq_true, if_false] at hs
    repeat' split at hs
    all_goals first
      | (simp only [Option.some.injEq, Prod.mk.injEq] at hs; obtain ⟨rfl, _⟩ := hs; exact hef)
      | cases hs
  | wApply =>
    simp only [step, stepWriter] at hs
    repeat' split at hs
    all_goals first
      | (simp only [Option.some.injEq, Prod.mk.injEq] at hs; obtain ⟨rfl, _⟩ := hs; exact hef)
      | cases hs
  | wPublish =>
    simp only [step, stepWriter] at hs
    repeat' split at hs
    all_goals first
      | (simp only [Option.some.injEq, Prod.mk.injEq] at hs; obtain ⟨rfl, _⟩ := hs; exact hef)
      | cases hs
  | wAck =>
    simp only [step, stepWriter] at hs
    repeat' split at hs
    all_goals first
      | (simp only [Option.some.injEq, Prod.mk.injEq] at hs; obtain ⟨rfl, _⟩ := hs; exact hef)
      | cases hs
  | flushStart =>
    simp only [step, Option.map_eq_some_iff, Prod.mk.injEq] at hs
    obtain ⟨s1, hs1, rfl, rfl⟩ := hs
    exact stepOther_everFailed (cfg := cfg) (d := d) (inputs := []) hef (Or.inl hs1)
  | job rot o =>
    simp only [step] at hs
    cases hj : s.job with
    | none => rw [hj] at hs; cases hs
    | some j =>
      rw [hj] at hs
      exact stepJob_everFailed hef hs
  | crash ch =>
    simp only [step, Option.some.injEq, Prod.mk.injEq] at hs
    obtain ⟨rfl, rfl⟩ := hs
    exact hef
  | exit =>
    simp only [step, Option.some.injEq, Prod.mk.injEq] at hs
    obtain ⟨rfl, rfl⟩ := hs
    exact hef
  | recOpen =>
    simp only [step, Option.map_eq_some_iff, Prod.mk.injEq] at hs
    obtain ⟨s1, hs1, rfl, rfl⟩ := hs
    exact stepOther_everFailed (inputs := []) hef (Or.inr (Or.inl hs1))
  | recStep =>
    simp only [step, Option.map_eq_some_iff, Prod.mk.injEq] at hs
    obtain ⟨s1, hs1, rfl, rfl⟩ := hs
    exact stepOther_everFailed (cfg := cfg) (inputs := []) hef (Or.inr (Or.inr (Or.inl hs1)))
  | compactStart inputs =>
    simp only [step, Option.map_eq_some_iff, Prod.mk.injEq] at hs
    obtain ⟨s1, hs1, rfl, rfl⟩ := hs
    exact stepOther_everFailed (cfg := cfg) hef (Or.inr (Or.inr (Or.inr hs1)))
  | trBegin =>
    simp only [step, Option.map_eq_some_iff, Prod.mk.injEq] at hs
    obtain ⟨s1, hs1, rfl, rfl⟩ := hs
    exact stepTr_everFailed hef hs1
  | trPut r =>
    simp only [step, Option.map_eq_some_iff, Prod.mk.injEq] at hs
    obtain ⟨s1, hs1, rfl, rfl⟩ := hs
    exact stepTr_everFailed hef hs1
  | trCommit =>
    simp only [step, Option.map_eq_some_iff, Prod.mk.injEq] at hs
    obtain ⟨s1, hs1, rfl, rfl⟩ := hs
    exact stepTr_everFailed hef hs1
  | trDiscard =>
    simp only [step] at hs
    split at hs
    · simp only [Option.map_eq_some_iff, Prod.mk.injEq] at hs
      obtain ⟨s1, hs1, rfl, rfl⟩ := hs
      exact stepTr_everFailed hef hs1
    · unfold trDiscardJob at hs
      repeat' split at hs
      all_goals first
        | (simp only [Option.some.injEq, Prod.mk.injEq] at hs; obtain ⟨rfl, _⟩ := hs; exact hef)
        | cases hs



theorem failTo_limbo_none {s : St} (j : Job) (pc : JPc) (h : s.limbo = none) : (failTo s j pc).limbo = none := by
  unfold failTo giveUp; split <;> first | rfl | exact h

theorem finishJob_limbo (s : St) (j : Job) : (finishJob s j).limbo = s.limbo := by
  unfold finishJob
  split <;> try rfl
  split <;> rfl

/-- a job step outside the three shapes `noD10`/`noD26` exclude never puts the storage ahead of the session -/
theorem stepJob_limbo_none {cfg : Cfg} {s : St} {d : Disk} {j : Job} {rot : Bool} {o : Outcome}
    (hj : s.job = some j) (hl : s.limbo = none)
    (h10 : (Act.job rot o).noD10 s = true) (h26 : (Act.job rot o).noD26 s = true)
    {s' : St} {d' : Disk} (hs : stepJob cfg s d j rot o = some (s', d')) : s'.limbo = none := by
  simp only [Act.noD10, Act.noD26, hj] at h10 h26
  unfold stepJob at hs
  simp only at hs
  repeat' split at hs
  all_goals first
    | (simp only [Option.some.injEq, Prod.mk.injEq] at hs
       obtain ⟨rfl, _⟩ := hs
       first
         | exact hl
         | rfl
         | (rw [finishJob_limbo]; exact hl)
         | (apply failTo_limbo_none; first | exact hl | rfl | (simp_all; done))
         | (simp only [giveUp, install]; exact hl)
         | (simp_all; done)
         | (exfalso; cases o <;> simp_all [Outcome.failed]))
    | cases hs
theorem step_limbo_none {cfg : Cfg} {s : St} {d : Disk} {a : Act} (hok : a.faultsOK (s, d) = true)
    (hl : s.limbo = none) {s' : St} {d' : Disk} (hs : step cfg s d a = some (s', d')) : s'.limbo = none := by
  have h10 : a.noD10 s = true := by
    simp only [Act.faultsOK, Bool.and_eq_true] at hok; exact hok.1
  have h26 : a.noD26 s = true := by
    simp only [Act.faultsOK, Bool.and_eq_true] at hok; exact hok.2
  cases a with
  | job rot o =>
    simp only [step] at hs
    cases hj : s.job with
    | none => rw [hj] at hs; cases hs
    | some j =>
      rw [hj] at hs
      exact stepJob_limbo_none hj hl h10 h26 hs
  | crash ch =>
    simp only [step, Option.some.injEq, Prod.mk.injEq] at hs
    obtain ⟨rfl, rfl⟩ := hs
    rfl
  | exit =>
    simp only [step, Option.some.injEq, Prod.mk.injEq] at hs
    obtain ⟨rfl, rfl⟩ := hs
    rfl
  | trDiscard =>
    simp only [step] at hs
    split at hs
    · simp only [Option.map_eq_some_iff, Prod.mk.injEq] at hs
      obtain ⟨s1, hs1, rfl, rfl⟩ := hs
      unfold stepTr at hs1
      repeat' split at hs1
      all_goals first
        | (simp only [Option.some.injEq] at hs1; subst hs1; exact hl)
        | cases hs1
    · unfold trDiscardJob at hs
      repeat' split at hs
      all_goals first
        | (simp only [Option.some.injEq, Prod.mk.injEq] at hs; obtain ⟨rfl, _⟩ := hs; exact hl)
        | cases hs
  | wAppend recs sync o =>
    simp only [step, stepWriter] at hs
    repeat' split at hs
    all_goals first
      | (simp only [Option.some.injEq, Prod.mk.injEq] at hs; obtain ⟨rfl, _⟩ := hs; exact hl)
      | cases hs
  | wSync o =>
    simp only [step, stepWriter] at hs
    repeat' split at hs
    all_goals first
      | (simp only [Option.some.injEq, Prod.mk.injEq] at hs; obtain ⟨rfl, _⟩ := hs; exact hl)
      | cases hs
  | rotate o =>
    simp only [step, stepWriter] at hs
    repeat' split at hs
    all_goals first
      | (simp only [Option.some.injEq, Prod.mk.injEq] at hs; obtain ⟨rfl, _⟩ := hs; exact hl)
      | cases hs
  | wApply =>
    simp only [step, stepWriter] at hs
    repeat' split at hs
    all_goals first
      | (simp only [Option.some.injEq, Prod.mk.injEq] at hs; obtain ⟨rfl, _⟩ := hs; exact hl)
      | cases hs
  | wPublish =>
    simp only [step, stepWriter] at hs
    repeat' split at hs
    all_goals first
      | (simp only [Option.some.injEq, Prod.mk.injEq] at hs; obtain ⟨rfl, _⟩ := hs; exact hl)
      | cases hs
  | wAck =>
    simp only [step, stepWriter] at hs
    repeat' split at hs
    all_goals first
      | (simp only [Option.some.injEq, Prod.mk.injEq] at hs; obtain ⟨rfl, _⟩ := hs; exact hl)
      | cases hs
  | flushStart =>
    simp only [step, Option.map_eq_some_iff, Prod.mk.injEq] at hs
    obtain ⟨s1, hs1, rfl, rfl⟩ := hs
    unfold flushStart at hs1
    repeat' split at hs1
    all_goals first
      | (simp only [Option.some.injEq] at hs1; subst hs1; exact hl)
      | cases hs1
  | recOpen =>
    simp only [step, Option.map_eq_some_iff, Prod.mk.injEq] at hs
    obtain ⟨s1, hs1, rfl, rfl⟩ := hs
    unfold recOpen at hs1
    repeat' split at hs1
    all_goals first
      | (simp only [Option.some.injEq] at hs1; subst hs1; first | exact hl | rfl)
      | cases hs1
  | recStep =>
    simp only [step, Option.map_eq_some_iff, Prod.mk.injEq] at hs
    obtain ⟨s1, hs1, rfl, rfl⟩ := hs
    unfold recStep at hs1
    repeat' split at hs1
    all_goals first
      | (simp only [Option.some.injEq] at hs1; subst hs1; exact hl)
      | cases hs1
  | compactStart inputs =>
    simp only [step, Option.map_eq_some_iff, Prod.mk.injEq] at hs
    obtain ⟨s1, hs1, rfl, rfl⟩ := hs
    unfold compactStart at hs1
    repeat' split at hs1
    all_goals first
      | (simp only [Option.some.injEq] at hs1; subst hs1; exact hl)
      | cases hs1
  | trBegin =>
    simp only [step, Option.map_eq_some_iff, Prod.mk.injEq] at hs
    obtain ⟨s1, hs1, rfl, rfl⟩ := hs
    unfold stepTr at hs1
    repeat' split at hs1
    all_goals first
      | (simp only [Option.some.injEq] at hs1; subst hs1; exact hl)
      | cases hs1
  | trPut r =>
    simp only [step, Option.map_eq_some_iff, Prod.mk.injEq] at hs
    obtain ⟨s1, hs1, rfl, rfl⟩ := hs
    unfold stepTr at hs1
    repeat' split at hs1
    all_goals first
      | (simp only [Option.some.injEq] at hs1; subst hs1; exact hl)
      | cases hs1
  | trCommit =>
    simp only [step, Option.map_eq_some_iff, Prod.mk.injEq] at hs
    obtain ⟨s1, hs1, rfl, rfl⟩ := hs
    unfold stepTr at hs1
    repeat' split at hs1
    all_goals first
      | (simp only [Option.some.injEq] at hs1; subst hs1; exact hl)
      | cases hs1

theorem faultsOK_of_faultFree {a : Act} (hff : a.faultFree = true) (sd : St × Disk) : a.faultsOK sd = true := by
  cases a <;> simp_all [Act.faultFree, Act.faultsOK, Act.noD10, Act.noD26] <;> (repeat' split) <;> simp

/-- the standing condition of the state-machine proof: while the storage may be one edit ahead of the session
    (`St.limbo`), `Discard` must leave the tables of a failed commit alone (commit 5cf4e90) -/
def LimboSafe (cfg : Cfg) (s : St) : Prop := s.limbo = none ∨ cfg.discardKeepsTablesWhenUncertain = true

/-- the invariant together with its standing condition -/
def InvL (cfg : Cfg) (s : St) (d : Disk) : Prop := Inv cfg s d ∧ LimboSafe cfg s

theorem limboSafe_step {cfg : Cfg} {s : St} {d : Disk} {a : Act} (hl : LimboSafe cfg s)
    (ha : a.faultsOK (s, d) = true ∨ cfg.discardKeepsTablesWhenUncertain = true) {s' : St} {d' : Disk}
    (hs : step cfg s d a = some (s', d')) : LimboSafe cfg s' := by
  rcases ha with ha | ha
  · rcases hl with hl | hl
    · exact Or.inl (step_limbo_none ha hl hs)
    · exact Or.inr hl
  · exact Or.inr ha

theorem inv_step {cfg : Cfg} (hg : cfg.Good) {s : St} {d : Disk} (h : Inv cfg s d) {a : Act}
    (hff : a.faultFree = true) (hlim : LimboSafe cfg s)
    {s' : St} {d' : Disk} (hs : step cfg s d a = some (s', d')) : Inv cfg s' d' := by
  cases a with
  | wAppend recs sync o =>
    have : o = .ok := by simpa [Act.faultFree] using hff
    subst this
    exact inv_wAppend h hs
  | wSync o =>
    have : o = .ok := by simpa [Act.faultFree] using hff
    subst this
    exact inv_wSync h hs
  | wApply => exact inv_wApply h hs
  | wPublish => exact inv_wPublish h hs
  | wAck => exact inv_wAck h hs
  | rotate o =>
    have : o = .ok := by simpa [Act.faultFree] using hff
    subst this
    exact inv_rotate h hs
  | flushStart =>
    simp only [step, Option.map_eq_some_iff, Prod.mk.injEq] at hs
    obtain ⟨s1, hs1, rfl, rfl⟩ := hs
    exact inv_flushStart h hs1
  | job rot o =>
    have : o = .ok := by simpa [Act.faultFree] using hff
    subst this
    simp only [step] at hs
    cases hj : s.job with
    | none => rw [hj] at hs; cases hs
    | some j =>
      rw [hj] at hs
      exact inv_job_step hg h hj hs
  | crash ch =>
    simp only [step, Option.some.injEq, Prod.mk.injEq] at hs
    obtain ⟨rfl, rfl⟩ := hs
    exact inv_crash hg h ch
  | exit =>
    simp only [step, Option.some.injEq, Prod.mk.injEq] at hs
    obtain ⟨rfl, rfl⟩ := hs
    exact inv_exit h
  | recOpen =>
    simp only [step, Option.map_eq_some_iff, Prod.mk.injEq] at hs
    obtain ⟨s1, hs1, rfl, rfl⟩ := hs
    exact inv_recOpen h hs1
  | recStep =>
    simp only [step, Option.map_eq_some_iff, Prod.mk.injEq] at hs
    obtain ⟨s1, hs1, rfl, rfl⟩ := hs
    exact inv_recStep h hs1
  | compactStart inputs =>
    simp only [step, Option.map_eq_some_iff, Prod.mk.injEq] at hs
    obtain ⟨s1, hs1, rfl, rfl⟩ := hs
    exact inv_compactStart h hs1
  | trBegin =>
    simp only [step, Option.map_eq_some_iff, Prod.mk.injEq] at hs
    obtain ⟨s1, hs1, rfl, rfl⟩ := hs
    exact inv_stepTr h hs1
  | trPut _ =>
    simp only [step, Option.map_eq_some_iff, Prod.mk.injEq] at hs
    obtain ⟨s1, hs1, rfl, rfl⟩ := hs
    exact inv_stepTr h hs1
  | trCommit =>
    simp only [step, Option.map_eq_some_iff, Prod.mk.injEq] at hs
    obtain ⟨s1, hs1, rfl, rfl⟩ := hs
    exact inv_stepTr h hs1
  | trDiscard =>
    simp only [step] at hs
    split at hs
    · simp only [Option.map_eq_some_iff, Prod.mk.injEq] at hs
      obtain ⟨s1, hs1, rfl, rfl⟩ := hs
      exact inv_stepTr h hs1
    · exact inv_trDiscardJob h hlim hs

theorem inv_run {cfg : Cfg} (hg : cfg.Good) {sd sd' : St × Disk} (h : Inv cfg sd.1 sd.2)
    (hef : sd.1.everFailed = false) (as : List Act)
    (hff : ∀ a ∈ as, a.faultFree = true) (hr : run cfg sd as = some sd') (hl : sd.1.limbo = none := by rfl) :
    Inv cfg sd'.1 sd'.2 ∧ sd'.1.everFailed = false ∧ sd'.1.limbo = none := by
  induction as generalizing sd with
  | nil => simp only [run, Option.some.injEq] at hr; subst hr; exact ⟨h, hef, hl⟩
  | cons a as ih =>
    obtain ⟨s, d⟩ := sd
    simp only [run] at hr
    cases hs : step cfg s d a with
    | none => rw [hs] at hr; cases hr
    | some sd1 =>
      rw [hs] at hr
      obtain ⟨s1, d1⟩ := sd1
      exact ih (sd := (s1, d1)) (inv_step hg h (hff a List.mem_cons_self) (Or.inl hl) hs)
        (step_everFailed (by
          have := hff a List.mem_cons_self
          cases a <;> simp_all [Act.faultFree, Act.writerFaultFree]) hef hs)
        (fun b hb => hff b (List.mem_cons_of_mem _ hb)) hr
        (step_limbo_none (faultsOK_of_faultFree (hff a List.mem_cons_self) _) hl hs)

/-- in a fault-free run the storage is never ahead of the session -/
theorem limbo_none_reachable {cfg : Cfg} (hg : cfg.Good) {sd : St × Disk} (h : ReachableFF cfg sd) :
    sd.1.limbo = none := by
  obtain ⟨as, hff, hr⟩ := h
  exact (inv_run hg (inv_init cfg) rfl as hff hr).2.2

theorem invL_step {cfg : Cfg} (hg : cfg.Good) {s : St} {d : Disk} (h : InvL cfg s d) {a : Act}
    (hff : a.faultFree = true) {s' : St} {d' : Disk} (hs : step cfg s d a = some (s', d')) : InvL cfg s' d' :=
  ⟨inv_step hg h.1 hff h.2 hs, limboSafe_step h.2 (Or.inl (faultsOK_of_faultFree hff _)) hs⟩

theorem inv_reachable {cfg : Cfg} (hg : cfg.Good) {sd : St × Disk} (h : ReachableFF cfg sd) : Inv cfg sd.1 sd.2 := by
  obtain ⟨as, hff, hr⟩ := h
  exact (inv_run hg (inv_init cfg) rfl as hff hr).1

end GoLevel.Dur
