import GoLevel.Proofs.RefLoopFRel
/-! `next` passes an id (abandoned, converted or released): the bookkeeping fields of the invariant (C07). -/
namespace GoLevel.RefLoop

theorem lookup_pass_filter {β : Type} {l : List (Nat × β)} {n : Nat} {P : Nat → Prop} [DecidablePred P]
    {v : Nat → β} (h : ∀ k, l.lookup k = if n ≤ k ∧ P k then some (v k) else none) :
    ∀ k, (l.filter (fun p => p.1 != n)).lookup k = if n + 1 ≤ k ∧ P k then some (v k) else none := by
  intro k
  rw [lookup_filter_ne, h k]
  by_cases hk : k = n
  · subst hk; simp; omega
  · have : (n + 1 ≤ k) ↔ (n ≤ k) := by omega
    simp [hk, this]

theorem lookup_pass_keep {β : Type} {l : List (Nat × β)} {n : Nat} {P : Nat → Prop} [DecidablePred P]
    {v : Nat → β} (h : ∀ k, l.lookup k = if n ≤ k ∧ P k then some (v k) else none) (hn : ¬ P n) :
    ∀ k, l.lookup k = if n + 1 ≤ k ∧ P k then some (v k) else none := by
  intro k
  rw [h k]
  by_cases hk : k = n
  · subst hk; simp [hn]
  · have : (n + 1 ≤ k) ↔ (n ≤ k) := by omega
    simp [this]

/-- the base version when `next` moves over an id that is not installed, or is at or above `dn` -/
theorem cb_pass_sameF {G : EnvF} (_h : G.WF) {next : Nat} (hn : next < G.N)
    (hc : ¬ G.inst next ∨ G.dn ≤ next) : G.cb (next + 1) = G.cb next := by
  unfold EnvF.cb
  by_cases hd : G.dn ≤ next
  · rw [Nat.min_eq_left hd, Nat.min_eq_left (by omega)]
  · have hni : ¬ G.inst next := by rcases hc with h1 | h1; exact h1; omega
    rw [Nat.min_eq_right (by omega), Nat.min_eq_right (by omega), EnvF.up_failed hn hni]

/-- the base version when `next` moves over an installed id below `dn` -/
theorem cb_pass_instF {G : EnvF} {next : Nat} (hi : G.inst next) (hd : next < G.dn) :
    G.cb next = next ∧ G.cb (next + 1) = G.up (next + 1) := by
  unfold EnvF.cb
  rw [Nat.min_eq_right (by omega), Nat.min_eq_right (by omega)]
  exact ⟨EnvF.up_inst hi, rfl⟩

/-- `skipAbandoned` + `next++`. -/
theorem skip_abandonedF {S : State} {G : EnvF} {R : List Nat} (hI : InvF S G)
    (hH : HistC S G R) (hab : S.next ∈ S.abandoned) :
    InvF { S with abandoned := S.abandoned.erase S.next, next := S.next + 1 } G ∧
    HistC { S with abandoned := S.abandoned.erase S.next, next := S.next + 1 } G R := by
  obtain ⟨_, hn, hni⟩ := (hI.ab.2 _).mp hab
  have hnr : S.next ∉ G.rel := fun h => hni (hI.wf.rel _ h).1
  have hI' : InvF { S with abandoned := S.abandoned.erase S.next, next := S.next + 1 } G := by
    refine ⟨hI.wf, by show S.next + 1 ≤ G.N; omega, ⟨hI.ab.1.erase _, ?_⟩, ?_, ?_, ?_, ⟨hI.rfd.1, ?_⟩, ?_⟩
    · intro k
      show k ∈ S.abandoned.erase S.next ↔ S.next + 1 ≤ k ∧ _
      rw [hI.ab.1.mem_erase_iff, hI.ab.2 k]
      constructor
      · rintro ⟨h1, h2, h3⟩; exact ⟨by omega, h3⟩
      · rintro ⟨h1, h2⟩; exact ⟨by omega, by omega, h2⟩
    · exact lookup_pass_keep (P := fun k => G.inst k ∧ k ∉ G.rel) hI.ref (fun h => hni h.1)
    · exact lookup_pass_keep (P := fun k => k ∈ G.rel) hI.rld hnr
    · exact lookup_pass_keep (P := fun k => k < G.dn ∧ G.inst k ∧ k ∉ G.rel) hI.dl (fun h => hni h.2.1)
    · intro k
      rw [hI.rfd.2 k]
      show _ ↔ k < S.next + 1 ∧ _
      constructor
      · rintro ⟨h1, h2⟩; exact ⟨by omega, h2⟩
      · rintro ⟨h1, h2, h3⟩
        refine ⟨?_, h2, h3⟩
        by_cases hk : k = S.next
        · subst hk; exact absurd h2 hni
        · omega
    · intro f
      show S.fileRef.count f = ind (f ∈ G.L (G.cb (S.next + 1))) + _
      rw [cb_pass_sameF hI.wf hn (Or.inl hni)]
      exact hI.cnt f
  refine ⟨hI', fun hc hnu => ?_⟩
  have := hist_stepF hI hI' (hH hc hnu) hnu hc rfl (Nat.le_succ _) (Nat.le_refl _) (fun _ h => h)
    (fun _ => ⟨rfl, rfl, rfl, fun h => absurd h hnr⟩) List.nodup_nil (fun f => by
      simp only [List.not_mem_nil, false_iff, not_and]
      intro h1 h2; omega)
  simpa using this

end GoLevel.RefLoop
