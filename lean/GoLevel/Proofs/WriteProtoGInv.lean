import GoLevel.Proofs.WriteProtoGroup
import GoLevel.Proofs.WriteProtoInv2
/-! The thread-local group invariant `GLoc` holds in every reachable state (any configuration). -/
namespace GoLevel.WP

theorem gloc_set (c : Cfg) (ws : List Thread) (j : Nat) (l' : Thread)
    (hg : ∀ (i : Nat) (w : Thread), ws[i]? = some w → GLoc c w) (hl : GLoc c l') :
    ∀ (i : Nat) (w : Thread), (ws.set j l')[i]? = some w → GLoc c w := by
  intro i w h
  simp only [List.getElem?_set] at h
  split at h
  · split at h
    · cases h; exact hl
    · cases h
  · exact hg i w h

theorem gloc_set2 (c : Cfg) (ws : List Thread) (j i : Nat) (l' w' : Thread)
    (hg : ∀ (i : Nat) (w : Thread), ws[i]? = some w → GLoc c w) (hl : GLoc c l') (hw : GLoc c w') :
    ∀ (a : Nat) (x : Thread), (set2 ws j l' i w')[a]? = some x → GLoc c x :=
  gloc_set c _ i w' (gloc_set c ws j l' hg hl) hw

/-! thread-local steps -/

theorem unled_setPc (w : Thread) (p : Pc) : Unled (w.setPc p) = Unled w := rfl

theorem blank_of_loc (w : Thread) (h : Loc w)
    (hp : w.pc = .idle ∨ w.pc = .selecting ∨ w.pc = .waitMerged ∨ w.pc = .waitAck ∨ w.pc = .hold) : Blank w := by
  rcases hp with hp | hp | hp | hp | hp <;> simp only [Loc, hp] at h
  · exact h.2
  · exact h.2
  · exact h.2.2
  · exact h.2
  · exact h.2.2

theorem gloc_unled (c : Cfg) (w : Thread) (p : Pc) (h : Unled w) (hb : Blank w)
    (hp : p = .idle ∨ p = .selecting ∨ p = .waitMerged ∨ p = .waitAck ∨ p = .hold ∨ ∃ r, p = .returned r) :
    GLoc c (w.setPc p) := by
  rcases hp with rfl | rfl | rfl | rfl | rfl | ⟨r, rfl⟩ <;> simp only [GLoc, Thread.setPc]
  all_goals first | exact h | exact Or.inl ⟨h, hb.2.1⟩

theorem gloc_asLeader (c : Cfg) (w : Thread) (h : Unled w) : GLoc c w.asLeader := by
  obtain ⟨h1, h2, h3⟩ := h
  simp only [GLoc, Thread.asLeader, FlushShape]
  exact ⟨h2, h1, h3, rfl, trivial, trivial, trivial⟩

theorem objsOf_nil (b : Bool) : objsOf b [] = [] := by cases b <;> rfl

/-- close a thread-local goal: unfold everything down to the fields, let `grind` match them up -/
macro "gl" : tactic =>
  `(tactic| (simp only [GLoc, Shape, Post, Unled, FlushShape, Thread.flat, Thread.setPc, Thread.unlock,
               Thread.grouped, Thread.journalled, Thread.asLeader, Loc, Blank] at *; grind))

theorem shape_of_flush (c : Cfg) (l : Thread) (free : Nat) (h : FlushShape l) :
    Shape c { l with pc := .lead .merging 0 false, gfree := free, glimit := mergeLimitOf l.bsize free,
                     batches := [.own] } := by
  obtain ⟨h1, h2, h3, h4, h5, h6, h7⟩ := h
  simp [Shape, h1, objsOf_nil, h5, anyPut, pooled, putRecs, h4, h6, anySync, sizes, h7, putSizes, h3]

theorem step_gloc (s t : St) (h : Step s t) (h1 : ∀ (i : Nat) (w : Thread), s.ws[i]? = some w → Loc w)
    (hg : ∀ (i : Nat) (w : Thread), s.ws[i]? = some w → GLoc s.cfg w) :
    ∀ (i : Nat) (w : Thread), t.ws[i]? = some w → GLoc t.cfg w := by
  cases h with
  | call i w hi hp =>
    have hW := hg i w hi; simp only [GLoc, hp] at hW
    exact gloc_set _ _ _ _ hg (gloc_unled _ w _ hW (blank_of_loc w (h1 i w hi) (by simp [*])) (by simp))
  | retClosed i w hi hp hk hc =>
    have hW := hg i w hi; simp only [GLoc, hp] at hW
    exact gloc_set _ _ _ _ hg (gloc_unled _ w _ hW (blank_of_loc w (h1 i w hi) (by simp [*])) (by simp))
  | retPerErr i w hi hp hk hc =>
    have hW := hg i w hi; simp only [GLoc, hp] at hW
    exact gloc_set _ _ _ _ hg (gloc_unled _ w _ hW (blank_of_loc w (h1 i w hi) (by simp [*])) (by simp))
  | lock i w g hi hp hk ht =>
    have hW := hg i w hi; simp only [GLoc, hp] at hW
    exact gloc_set _ _ _ _ hg (gloc_asLeader _ w hW)
  | hAcquire i w hi hp hk ht =>
    have hW := hg i w hi; simp only [GLoc, hp] at hW
    exact gloc_set _ _ _ _ hg (gloc_unled _ w _ hW (blank_of_loc w (h1 i w hi) (by simp [*])) (by simp))
  | hRelease i w hi hp hk =>
    have hW := hg i w hi; simp only [GLoc, hp] at hW
    exact gloc_set _ _ _ _ hg (gloc_unled _ w _ hW (blank_of_loc w (h1 i w hi) (by simp [*])) (by simp))
  | flushOk j l m o free hj hp =>
    have hL := hg j l hj; simp only [GLoc, hp] at hL
    refine gloc_set _ _ _ _ hg ?_
    simp only [GLoc]
    exact ⟨shape_of_flush _ l free hL, by simp [hL.1]⟩
  | flushFail j l m o hj hp =>
    have hL := hg j l hj; simp only [GLoc, hp] at hL
    have hB := h1 j l hj; simp only [Loc, hp] at hB
    refine gloc_set _ _ _ _ hg ?_
    clear hg h1 hj; gl
  | recvAccept i j w l m g hj hi hp hm hl' hq hk hwm hsz =>
    have hL := hg j l hj
    have hW := hg i w hi
    simp only [GLoc, hp] at hL
    simp only [GLoc, hq] at hW
    obtain ⟨hsA, hmem⟩ := accept_shape s.cfg l i w (poolGet s.pool g).1 hL.1 hW.2.2 hsz hm
    refine gloc_set2 _ _ _ _ _ _ hg ?_ (gloc_unled _ w _ hW (blank_of_loc w (h1 i w hi) (by simp [*])) (by simp))
    simp only [GLoc, Thread.setPc]
    exact ⟨hsA, by rw [hmem, List.length_append, hL.2]; rfl⟩
  | reply i j w l m o hj hi hp hq =>
    have hL := hg j l hj
    have hW := hg i w hi
    simp only [GLoc, hp] at hL
    simp only [GLoc, hq] at hW
    refine gloc_set2 _ _ _ _ _ _ hg ?_ ?_
    · simp only [GLoc, Thread.setPc]; exact hL
    · simp only [GLoc]; exact hW
  | recvOverflow i j w l m hj hi hp hm hl' hq hk hwm hsz =>
    have hL := hg j l hj
    have hW := hg i w hi
    simp only [GLoc, hp] at hL
    simp only [GLoc, hq] at hW
    refine gloc_set2 _ _ _ _ _ _ hg ?_ (gloc_unled _ w _ hW (blank_of_loc w (h1 i w hi) (by simp [*])) (by simp))
    clear hg h1 hj hi; gl
  | mergeDone j l m o hj hp =>
    have hL := hg j l hj; simp only [GLoc, hp] at hL
    refine gloc_set _ _ _ _ hg ?_
    clear hg h1 hj; gl
  | journalOk j l m o hj hp =>
    have hL := hg j l hj; simp only [GLoc, hp] at hL
    refine gloc_set _ _ _ _ hg ?_
    clear hg h1 hj; gl
  | journalFail j l m o hj hp =>
    have hL := hg j l hj; simp only [GLoc, hp] at hL
    have hB := h1 j l hj; simp only [Loc, hp] at hB
    refine gloc_set _ _ _ _ hg ?_
    clear hg h1 hj; gl
  | apply j l m o hj hp =>
    have hL := hg j l hj; simp only [GLoc, hp] at hL
    refine gloc_set _ _ _ _ hg ?_
    clear hg h1 hj; gl
  | publish j l m o rot hj hp hrot =>
    have hL := hg j l hj; simp only [GLoc, hp] at hL
    refine gloc_set _ _ _ _ hg ?_
    clear hg h1 hj hrot
    cases rot <;> simp only [if_true, Bool.false_eq_true, if_false] <;> gl
  | rotateOk j l m o hj hp =>
    have hL := hg j l hj; simp only [GLoc, hp] at hL
    refine gloc_set _ _ _ _ hg ?_
    clear hg h1 hj; gl
  | rotateFail j l m o hj hp =>
    have hL := hg j l hj; simp only [GLoc, hp] at hL
    refine gloc_set _ _ _ _ hg ?_
    clear hg h1 hj; gl
  | ack i j w l k m o r hj hi hp hq =>
    have hL := hg j l hj
    have hW := hg i w hi
    simp only [GLoc, hp] at hL
    simp only [GLoc, hq] at hW
    refine gloc_set2 _ _ _ _ _ _ hg ?_ (gloc_unled _ w _ hW (blank_of_loc w (h1 i w hi) (by simp [*])) (by simp))
    simp only [GLoc, Thread.setPc]; exact hL
  | handoff i j w l m r g hj hi hp hq hc =>
    have hL := hg j l hj
    have hW := hg i w hi
    simp only [GLoc, hp] at hL
    simp only [GLoc, hq] at hW
    refine gloc_set2 _ _ _ _ _ _ hg ?_ (gloc_asLeader _ w hW)
    simp only [GLoc, Thread.setPc]
    rcases hL with hL | hL
    · exact Or.inl ⟨hL.1, hL.2.1⟩
    · exact Or.inr ⟨hL.1, hL.2.2⟩
  | release j l m r hj hp =>
    have hL := hg j l hj; simp only [GLoc, hp] at hL
    refine gloc_set _ _ _ _ hg ?_
    simp only [GLoc, Thread.setPc]
    rcases hL with hL | hL
    · exact Or.inl ⟨hL.1, hL.2.1⟩
    · exact Or.inr ⟨hL.1, hL.2.2⟩
  | releaseLost j l m r hj hp hc hr =>
    have hL := hg j l hj; simp only [GLoc, hp] at hL
    refine gloc_set _ _ _ _ hg ?_
    simp only [GLoc, Thread.setPc]
    rcases hL with hL | hL
    · exact Or.inl ⟨hL.1, hL.2.1⟩
    · exact Or.inr ⟨hL.1, hL.2.2⟩

end GoLevel.WP
