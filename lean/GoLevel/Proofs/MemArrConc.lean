import GoLevel.Proofs.MemArrIter
import GoLevel.Proofs.MemDBIter
/-! One writer (`Put`, `Delete`, `Reset`) interleaved with readers and iterators over the arrays: the invariant
(C14, `concurrent_readers`).  Beside the live structure (`Rep`) the arrays hold *dead* nodes — unlinked by `Delete`
since the last `Reset`, never written again — on which an iterator may still sit and through which `Next` may walk. -/
set_option linter.unusedSectionVars false
set_option linter.unusedSimpArgs false
set_option linter.unusedVariables false
namespace GoLevel.MemArr
open GoLevel.Gen (nKV nKey nVal nHeight nNext tMaxHeight)
open GoLevel.MemDB (Node LawfulCmp Sorted pred below ins Op Ans inR ps pl)

variable {cmp : Cmp}

/-- a node unlinked by `Delete` since the last `Reset` -/
structure Dead where
  idx : Nat
  key : Bytes
  ht : Nat

/-- node `i` carries key `k` and is live or dead -/
def Alloc (d : MemDB.DB) (ix : Bytes → Nat) (D : List Dead) (i : Nat) (k : Bytes) : Prop :=
  (k ∈ d.level0 ∧ i = ix k) ∨ ∃ r ∈ D, r.idx = i ∧ r.key = k

/-- what `fill` reads at node `i`: offsets inside the arrays, the key bytes are `k`, the value bytes were put for `k`
since the last `Reset` -/
structure NodeOK (a : DB) (puts : List (Bytes × Bytes)) (i : Nat) (k : Bytes) : Prop where
  ne : i ≠ 0
  fields : ∃ o v, a.nodeData[i]? = some o ∧ a.nodeData[i + nKey]? = some k.length ∧
    slice a.kvData o (o + k.length) = some k ∧ a.nodeData[i + nVal]? = some v.length ∧
    slice a.kvData (o + k.length) (o + k.length + v.length) = some v ∧ (k, v) ∈ puts

/-- a dead node: its fields are intact, its level-0 pointer leads to a live or dead node with a greater key (or
nowhere), and its index range is disjoint from those of the live nodes (nobody writes into it) -/
structure DeadOK (cmp : Cmp) (a : DB) (d : MemDB.DB) (ix : Bytes → Nat) (puts : List (Bytes × Bytes))
    (D : List Dead) (r : Dead) : Prop where
  lo : nNext + tMaxHeight ≤ r.idx
  hi : r.idx + nNext + r.ht ≤ a.nodeData.size
  pos : 1 ≤ r.ht
  node : NodeOK a puts r.idx r.key
  next : ∃ nx, a.nodeData[r.idx + nNext]? = some nx ∧ (nx = 0 ∨ ∃ k', Alloc d ix D nx k' ∧ cmp r.key k' = .lt)
  sep : ∀ k' ∈ d.level0, r.idx + nNext + r.ht ≤ ix k' ∨ ix k' + nNext + d.height k' ≤ r.idx

/-- the arrays: a representation of the ideal list `d`, every live pair was put since the last `Reset`, and the dead
nodes `D` are intact -/
structure World (cmp : Cmp) (a : DB) (d : MemDB.DB) (ix : Bytes → Nat) (D : List Dead)
    (puts : List (Bytes × Bytes)) : Prop where
  rep : Rep cmp a d ix
  allPut : ∀ k ∈ d.level0, (k, d.value k) ∈ puts
  dead : ∀ r ∈ D, DeadOK cmp a d ix puts D r

/-- the observed iterator: its bounds, its generation is not ahead of the table's, and when it is positioned in the
current generation its node is allocated, the key and value it holds are that node's key and a value put for it, inside
the range -/
structure ItOK (cmp : Cmp) (a : DB) (d : MemDB.DB) (ix : Bytes → Nat) (D : List Dead) (puts : List (Bytes × Bytes))
    (st lm : Option Bytes) (it : Iter) : Prop where
  start : it.start = st
  limit : it.limit = lm
  genle : it.gen ≤ a.gen
  cur : it.gen = a.gen → it.node ≠ 0 → ∃ k v, Alloc d ix D it.node k ∧ it.key = some k ∧ it.value = some v ∧
    (k, v) ∈ puts ∧ inR cmp st lm k = true

section
variable {a : DB} {d : MemDB.DB} {ix : Bytes → Nat} {D : List Dead} {puts : List (Bytes × Bytes)}

theorem World.nodeOK (w : World cmp a d ix D puts) {i : Nat} {k : Bytes} (h : Alloc d ix D i k) :
    NodeOK a puts i k := by
  rcases h with ⟨hk, rfl⟩ | ⟨r, hr, rfl, rfl⟩
  · have hn := w.rep.node k hk
    obtain ⟨o, o1, o2, o3⟩ := hn.off
    have := hn.lo; have := nNext_eq
    exact ⟨by omega, o, d.value k, o1, hn.klen, o2, hn.vlen, o3, w.allPut k hk⟩
  · exact (w.dead r hr).node

/-- following the level-0 pointer of an allocated node leads nowhere or to an allocated node with a greater key -/
theorem World.next (hc : LawfulCmp cmp) (w : World cmp a d ix D puts) {i : Nat} {k : Bytes} (h : Alloc d ix D i k) :
    ∃ nx, a.nodeData[i + nNext]? = some nx ∧ (nx = 0 ∨ ∃ k', Alloc d ix D nx k' ∧ cmp k k' = .lt) := by
  rcases h with ⟨hk, rfl⟩ | ⟨r, hr, rfl, rfl⟩
  · refine ⟨_, next_ptr hc w.rep hk, ?_⟩
    obtain ⟨pre, post, hl, h1, h2⟩ := MemDB.sorted_split hc w.rep.inv.sorted0 hk
    have haft : MemDB.after d.level0 (some k) = post := by
      rw [hl]; exact MemDB.after_append (MemDB.sorted_nodup_pre hc h1)
    rw [haft]
    cases post with
    | nil => exact .inl rfl
    | cons k' ps =>
      refine .inr ⟨k', .inl ⟨by rw [hl]; simp, rfl⟩, h2 k' (by simp)⟩
  · exact (w.dead r hr).next

/-- the address of a field or of the level-0 pointer of a dead node is not a pointer slot of the head or of a live
node -/
theorem DeadOK.addr_ne {r : Dead} (ok : DeadOK cmp a d ix puts D r) {z H j f : Nat} (o : Owner d ix z H)
    (hj : j < H) (hf : f ≤ nNext) : r.idx + f ≠ z + nNext + j := by
  have := ok.lo; have := ok.pos
  rcases o with ⟨rfl, rfl⟩ | ⟨k', hk', rfl, rfl⟩
  · omega
  · have := ok.sep k' hk'; omega

/-- a dead node survives a step that does not write into it -/
theorem DeadOK.transfer {a' : DB} {d' : MemDB.DB} {ix' : Bytes → Nat} {D' : List Dead}
    {puts' : List (Bytes × Bytes)} {r : Dead} (ok : DeadOK cmp a d ix puts D r)
    (hnd : ∀ f, f ≤ nNext → a'.nodeData[r.idx + f]? = a.nodeData[r.idx + f]?)
    (hkv : ∃ ext, a'.kvData = a.kvData ++ ext) (hsz : a.nodeData.size ≤ a'.nodeData.size)
    (hputs : ∀ p ∈ puts, p ∈ puts') (halloc : ∀ i k, Alloc d ix D i k → Alloc d' ix' D' i k)
    (hsep : ∀ k' ∈ d'.level0, r.idx + nNext + r.ht ≤ ix' k' ∨ ix' k' + nNext + d'.height k' ≤ r.idx) :
    DeadOK cmp a' d' ix' puts' D' r := by
  have e4 := nNext_eq; have e1 := nKey_eq; have e2 := nVal_eq
  obtain ⟨ext, hext⟩ := hkv
  obtain ⟨o, v, f0, f1, f2, f3, f4, f5⟩ := ok.node.fields
  obtain ⟨nx, n1, n2⟩ := ok.next
  refine ⟨ok.lo, by have := ok.hi; omega, ok.pos, ⟨ok.node.ne, o, v, ?_, ?_, ?_, ?_, ?_, hputs _ f5⟩, ⟨nx, ?_, ?_⟩, hsep⟩
  · have := hnd 0 (by omega); simp only [Nat.add_zero] at this; rw [this]; exact f0
  · rw [hnd nKey (by omega)]; exact f1
  · rw [hext]; exact slice_append _ f2
  · rw [hnd nVal (by omega)]; exact f3
  · rw [hext]; exact slice_append _ f4
  · rw [hnd nNext (by omega)]; exact n1
  · rcases n2 with h | ⟨k', hk', hlt⟩
    · exact .inl h
    · exact .inr ⟨k', halloc _ _ hk', hlt⟩

theorem World.setPrev (w : World cmp a d ix D puts) (pn : List Nat) (hpn : pn.length = a.prevNode.length) :
    World cmp { a with prevNode := pn } d ix D puts :=
  ⟨w.rep.setPrev pn hpn, w.allPut, fun r hr =>
    (w.dead r hr).transfer (fun _ _ => rfl) ⟨#[], by simp⟩ (Nat.le_refl _) (fun _ h => h) (fun _ _ h => h)
      (w.dead r hr).sep⟩

/-! ## the writer's steps -/

theorem World.new (ix : Bytes → Nat) : World cmp DB.new MemDB.DB.empty ix [] [] :=
  ⟨rep_new ix, by intro k hk; simp [MemDB.DB.empty, MemDB.DB.level0] at hk, by intro r hr; simp at hr⟩

theorem World.stepReset (w : World cmp a d ix D puts) :
    ∃ a', MemArr.reset a = some a' ∧ World cmp a' MemDB.DB.empty ix [] [] ∧ a'.gen = a.gen + 1 := by
  obtain ⟨a', e, r', hg⟩ := reset_sim w.rep
  exact ⟨a', e, ⟨r', by intro k hk; simp [MemDB.DB.empty, MemDB.DB.level0] at hk, by intro r hr; simp at hr⟩, hg⟩

theorem World.stepPutOld (hc : LawfulCmp cmp) (w : World cmp a d ix D puts) {key : Bytes} (hk : key ∈ d.level0)
    (v : Bytes) (h : Nat) :
    ∃ a', put cmp a key v h = some a' ∧ World cmp a' (MemDB.put cmp d key v h) ix D ((key, v) :: puts) ∧
      a'.gen = a.gen ∧ ∀ i k, Alloc d ix D i k → Alloc (MemDB.put cmp d key v h) ix D i k := by
  have e4 := nNext_eq; have e2 := nVal_eq
  obtain ⟨a', e, r', f1, f2, f3, f4⟩ := put_old_sim hc w.rep hk v h
  have hd : MemDB.put cmp d key v h = putOld d key v := MemDB.put_old hc w.rep.inv hk v h
  have hal : ∀ i k, Alloc d ix D i k → Alloc (MemDB.put cmp d key v h) ix D i k := by
    intro i k hh; rw [hd]; exact hh
  refine ⟨a', e, ⟨r', ?_, ?_⟩, f1, hal⟩
  · rw [hd]
    intro k hk'
    have hk0 : k ∈ d.level0 := hk'
    by_cases hkk : k = key
    · subst hkk
      have : (putOld d k v).value k = v := MemDB.value_put_self d k v _ _ _ _
      rw [this]; simp
    · have : (putOld d key v).value k = d.value k := MemDB.value_put_other d hkk v _ _ _ _
      rw [this]; exact List.mem_cons_of_mem _ (w.allPut k hk0)
  · intro r hr
    have ok := w.dead r hr
    have hs := ok.sep key hk
    have := ok.pos
    refine ok.transfer ?_ ⟨key.toArray ++ v.toArray, by rw [f2, Array.append_assoc]⟩ (by omega)
      (fun p hp => List.mem_cons_of_mem _ hp) hal (by rw [hd]; exact ok.sep)
    intro f hf
    exact f4 _ (by omega) (by omega)

theorem World.stepPutNew (hc : LawfulCmp cmp) (w : World cmp a d ix D puts) {key : Bytes} (hk : key ∉ d.level0)
    (v : Bytes) {h : Nat} (h1 : 1 ≤ h) (h2 : h ≤ tMaxHeight) :
    ∃ a' ix', put cmp a key v h = some a' ∧ World cmp a' (MemDB.put cmp d key v h) ix' D ((key, v) :: puts) ∧
      a'.gen = a.gen ∧ ∀ i k, Alloc d ix D i k → Alloc (MemDB.put cmp d key v h) ix' D i k := by
  obtain ⟨a', e, r', f1, f2, I⟩ := put_new_sim hc w.rep hk v h1 h2
  have hd : MemDB.put cmp d key v h = putNew cmp d key v h := MemDB.put_new hc w.rep.inv hk v h
  have hix : ∀ k, k ∈ d.level0 → (if k = key then a.nodeData.size else ix k) = ix k := by
    intro k hk0
    have : k ≠ key := fun e => hk (e ▸ hk0)
    simp [this]
  have hal : ∀ i k, Alloc d ix D i k →
      Alloc (MemDB.put cmp d key v h) (fun k => if k = key then a.nodeData.size else ix k) D i k := by
    intro i k hh
    rcases hh with ⟨hk0, rfl⟩ | hdead
    · refine .inl ⟨?_, (hix k hk0).symm⟩
      rw [hd]; exact (putNew_level0 hc w.rep hk v h1 h2 k).2 (.inr hk0)
    · exact .inr hdead
  refine ⟨a', _, e, ⟨r', ?_, ?_⟩, f1, hal⟩
  · rw [hd]
    intro k hk'
    rcases (putNew_level0 hc w.rep hk v h1 h2 k).1 hk' with rfl | hk0
    · have : (putNew cmp d k v h).value k = v := MemDB.value_put_self d k v _ _ _ _
      rw [this]; simp
    · have hne : k ≠ key := fun e => hk (e ▸ hk0)
      have : (putNew cmp d key v h).value k = d.value k := MemDB.value_put_other d hne v _ _ _ _
      rw [this]; exact List.mem_cons_of_mem _ (w.allPut k hk0)
  · intro r hr
    have ok := w.dead r hr
    refine ok.transfer ?_ ⟨key.toArray ++ v.toArray, by rw [f2, Array.append_assoc]⟩ (by rw [I.size]; omega)
      (fun p hp => List.mem_cons_of_mem _ hp) hal ?_
    · intro f hf
      refine I.same _ (by have := ok.hi; have := ok.pos; omega) ?_
      intro j hj
      obtain ⟨H', o', hH'⟩ := w.rep.pth_owner (cmp := cmp) key (i := j) (by omega)
      exact ok.addr_ne o' hH' hf
    · rw [hd]
      intro k' hk'
      rcases (putNew_level0 hc w.rep hk v h1 h2 k').1 hk' with rfl | hk0
      · have : (if k' = k' then a.nodeData.size else ix k') = a.nodeData.size := by simp
        rw [this]; exact .inl ok.hi
      · rw [hix k' hk0, putNew_height_other hc w.rep hk v h1 h2 hk0]
        exact ok.sep k' hk0

theorem World.stepDelete (hc : LawfulCmp cmp) (w : World cmp a d ix D puts) {key : Bytes} (hk : key ∈ d.level0) :
    ∃ a' D', delete cmp a key = some (a', true) ∧ World cmp a' (MemDB.delete cmp d key).1 ix D' puts ∧
      a'.gen = a.gen ∧ ∀ i k, Alloc d ix D i k → Alloc (MemDB.delete cmp d key).1 ix D' i k := by
  have e4 := nNext_eq; have e1 := nKey_eq; have e2 := nVal_eq
  obtain ⟨a', e, r', f1, f2, U⟩ := delete_present_sim hc w.rep hk
  have hd : (MemDB.delete cmp d key).1 = delOld d key := by rw [MemDB.delete_present hc w.rep.inv hk]; rfl
  have hHle := height_le_length d key
  have hLle := w.rep.inv.height
  have okey : Owner d ix (ix key) (d.height key) := .inr ⟨key, hk, rfl, rfl⟩
  have h0 : 0 < d.levels.length := by have := w.rep.mh_pos; rw [w.rep.mh] at this; omega
  have hpos : 0 < d.height key :=
    w.rep.lt_height h0 (by rw [← level0_eq_getElem d h0]; exact hk)
  let D' : List Dead := ⟨ix key, key, d.height key⟩ :: D
  have hal : ∀ i k, Alloc d ix D i k → Alloc (MemDB.delete cmp d key).1 ix D' i k := by
    intro i k hh
    rw [hd]
    rcases hh with ⟨hk0, rfl⟩ | ⟨r, hr, h1, h2⟩
    · by_cases hkk : k = key
      · subst hkk; exact .inr ⟨⟨ix k, k, d.height k⟩, by simp [D'], rfl, rfl⟩
      · exact .inl ⟨(delOld_level0 hc w.rep hk k).2 ⟨hk0, hkk⟩, rfl⟩
    · exact .inr ⟨r, by simp [D', hr], h1, h2⟩
  have same_dead : ∀ {r : Dead}, DeadOK cmp a d ix puts D r → ∀ f, f ≤ nNext →
      a'.nodeData[r.idx + f]? = a.nodeData[r.idx + f]? := by
    intro r ok f hf
    refine U.same _ ?_
    intro j hj
    obtain ⟨H', o', hH'⟩ := w.rep.pth_owner (cmp := cmp) key (i := j) (by omega)
    exact ok.addr_ne o' hH' hf
  have hfk : ∀ f, f ≤ nNext → a'.nodeData[ix key + f]? = a.nodeData[ix key + f]? := by
    intro f hf
    refine U.same _ ?_
    intro j hj
    obtain ⟨H', o', hH'⟩ := w.rep.pth_owner (cmp := cmp) key (i := j) (by omega)
    by_cases hf4 : f < nNext
    · exact w.rep.field_ne_slot hk hf4 o' hH'
    · have : f = nNext := by omega
      subst this
      intro e
      have := (w.rep.slot_inj okey o' hpos hH' (by omega)).1
      exact pth_ne_key hc w.rep hk j this.symm
  refine ⟨a', D', e, ⟨by rw [hd]; exact r', ?_, ?_⟩, f1, hal⟩
  · rw [hd]
    intro k hk'
    obtain ⟨hk0, hne⟩ := (delOld_level0 hc w.rep hk k).1 hk'
    have : (delOld d key).value k = d.value k := MemDB.value_filter_other d hne _ _ _ _
    rw [this]; exact w.allPut k hk0
  · have hsepOld : ∀ {r : Dead}, DeadOK cmp a d ix puts D r → ∀ k' ∈ (MemDB.delete cmp d key).1.level0,
        r.idx + nNext + r.ht ≤ ix k' ∨ ix k' + nNext + (MemDB.delete cmp d key).1.height k' ≤ r.idx := by
      intro r ok k' hk'
      rw [hd] at hk' ⊢
      obtain ⟨hk0, hne⟩ := (delOld_level0 hc w.rep hk k').1 hk'
      rw [delOld_height hc w.rep hk hne]
      exact ok.sep k' hk0
    intro r hr
    simp only [D', List.mem_cons] at hr
    rcases hr with rfl | hr
    · -- the node that has just died
      have hnk := w.rep.node key hk
      obtain ⟨o, o1, o2, o3⟩ := hnk.off
      obtain ⟨nx, n1, n2⟩ := w.next hc (.inl ⟨hk, rfl⟩ : Alloc d ix D (ix key) key)
      refine ⟨hnk.lo, by rw [U.size]; exact hnk.hi, hpos, ⟨by show ix key ≠ 0; have := hnk.lo; omega, o, d.value key, ?_, ?_, ?_, ?_, ?_,
        w.allPut key hk⟩, ⟨nx, ?_, ?_⟩, ?_⟩
      · have := hfk 0 (by omega); simp only [Nat.add_zero] at this; rw [this]; exact o1
      · rw [hfk nKey (by omega)]; exact hnk.klen
      · rw [f2]; exact o2
      · rw [hfk nVal (by omega)]; exact hnk.vlen
      · rw [f2]; exact o3
      · rw [hfk nNext (by omega)]; exact n1
      · rcases n2 with h | ⟨k', hk', hlt⟩
        · exact .inl h
        · exact .inr ⟨k', hal _ _ hk', hlt⟩
      · intro k' hk'
        rw [hd] at hk' ⊢
        obtain ⟨hk0, hne⟩ := (delOld_level0 hc w.rep hk k').1 hk'
        rw [delOld_height hc w.rep hk hne]
        exact w.rep.sep key hk k' hk0 (fun e => hne e.symm)
    · have ok := w.dead r hr
      exact ok.transfer (same_dead ok) ⟨#[], by rw [f2]; simp⟩ (Nat.le_of_eq U.size.symm) (fun _ h => h) hal (hsepOld ok)

/-- any operation of the writer (or `Get`/`Find`/`Contains`/`Len`/`Size` of a reader): no panic, the world stays
intact; unless it is a `Reset` the generation stays, allocated nodes stay allocated and the pairs put stay put -/
theorem World.op (hc : LawfulCmp cmp) (w : World cmp a d ix D puts) (o : Op) (hv : o.valid) :
    ∃ a' d' ix' D' ans, step cmp a o = some (a', ans) ∧ World cmp a' d' ix' D' (putsStep puts (.op o)) ∧
      ((o = .reset ∧ a'.gen = a.gen + 1) ∨
       (o ≠ .reset ∧ a'.gen = a.gen ∧ (∀ i k, Alloc d ix D i k → Alloc d' ix' D' i k) ∧
         ∀ p ∈ puts, p ∈ putsStep puts (.op o))) := by
  cases o with
  | put k v h =>
    obtain ⟨h1, h2⟩ := hv
    by_cases hk : k ∈ d.level0
    · obtain ⟨a', e, w', g, hal⟩ := w.stepPutOld hc hk v h
      exact ⟨a', _, ix, D, .ok, by simp [step, e], w', .inr ⟨by simp, g, hal, fun p hp => List.mem_cons_of_mem _ hp⟩⟩
    · obtain ⟨a', ix', e, w', g, hal⟩ := w.stepPutNew hc hk v h1 h2
      exact ⟨a', _, ix', D, .ok, by simp [step, e], w', .inr ⟨by simp, g, hal, fun p hp => List.mem_cons_of_mem _ hp⟩⟩
  | delete k =>
    by_cases hk : k ∈ d.level0
    · obtain ⟨a', D', e, w', g, hal⟩ := w.stepDelete hc hk
      exact ⟨a', _, ix, D', .ok, by simp [step, e], w', .inr ⟨by simp, g, hal, fun p hp => hp⟩⟩
    · obtain ⟨pn', e, hl⟩ := delete_absent_sim hc w.rep hk
      exact ⟨_, d, ix, D, .notFound, by simp [step, e], w.setPrev pn' hl, .inr ⟨by simp, rfl, fun _ _ h => h, fun p hp => hp⟩⟩
  | reset =>
    obtain ⟨a', e, w', g⟩ := w.stepReset
    exact ⟨a', _, ix, [], .ok, by simp [step, e], w', .inl ⟨rfl, g⟩⟩
  | get k =>
    exact ⟨a, d, ix, D, _, by simp only [step, get_sim hc w.rep k, Option.map_some]; rfl, w,
      .inr ⟨by simp, rfl, fun _ _ h => h, fun p hp => hp⟩⟩
  | find k =>
    exact ⟨a, d, ix, D, _, by simp only [step, find_sim hc w.rep k, Option.map_some]; rfl, w,
      .inr ⟨by simp, rfl, fun _ _ h => h, fun p hp => hp⟩⟩
  | contains k =>
    exact ⟨a, d, ix, D, _, by simp only [step, contains_sim w.rep k, Option.map_some]; rfl, w,
      .inr ⟨by simp, rfl, fun _ _ h => h, fun p hp => hp⟩⟩
  | len => exact ⟨a, d, ix, D, _, rfl, w, .inr ⟨by simp, rfl, fun _ _ h => h, fun p hp => hp⟩⟩
  | size => exact ⟨a, d, ix, D, _, rfl, w, .inr ⟨by simp, rfl, fun _ _ h => h, fun p hp => hp⟩⟩

end

end GoLevel.MemArr
