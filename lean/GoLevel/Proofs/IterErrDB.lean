import GoLevel.Proofs.IterErrBasic
import GoLevel.Proofs.IterDBOps
/-!
# `EDBIter` over a raw iterator that may fail (C02 / C08)

`DBIter.step_couple`: one call of the error-free `DBIter` over the raw iterator `o` (a `FailSim`, seen
through its masked `cur`) either leaves the raw iterator healthy and did what the same call does over the
twin, or leaves it failed — and then, unless the call ended in `prev()`, it returned `false`.

`EDBIter.run_reported`: with the D40 repair (`chk = true`) the answers of the DB iterator are the cursor's
while `Error()` is nil; the call during which the raw iterator failed returns `false` with that error, and so
does every later call.  `EDBIter.run_reported_late`: without it (`chk = false`) the failing call may still
serve a pair; every later call reports the error.  Core Lean only.
-/
namespace GoLevel

/-- the same DB-iterator state over the projected raw iterator -/
def DBIter.mapRaw {σ τ : Type} (π : σ → τ) (d : DBIter σ) : DBIter τ :=
  ⟨π d.raw, d.seq, d.dir, d.key, d.value, d.fuel⟩

namespace DBIter
variable {σ τ : Type} {o : EIterOps σ} {sh : IterOps τ} {π : σ → τ} {H : σ → Prop} {F : σ → Err → Prop}

/-- the end of `prev()`: `if del { dir = SOI; return false }; return true` -/
def finScan {α : Type} (r : DBIter α × Bool) : DBIter α := if r.2 then { r.1 with dir := .soi } else r.1

theorem prevScan_eq' {α : Type} (p : IterOps α) (c : UCmp) (d : DBIter α) :
    prevScan p c d = finScan (if p.ok d.raw then prevLoop p c d.fuel true { d with dir := .backward }
      else ({ d with dir := .backward }, true)) := rfl

theorem backLoop_succ (p : IterOps σ) (c : UCmp) (n : Nat) (d : DBIter σ) :
    backLoop p c (n + 1) d =
      match p.cur (p.prev d.raw) with
      | none => ({ d with raw := p.prev d.raw }, false)
      | some e =>
        if c.cmp e.ukey d.key = .lt then ({ d with raw := p.prev d.raw }, true)
        else backLoop p c n { d with raw := p.prev d.raw } := rfl

section
variable (hf : FailSim o sh π H F) (c : UCmp)
include hf

theorem nextCont_couple (n : Nat)
    (ih : ∀ d : DBIter σ, H d.raw →
      (H (nextLoop o.toIterOps c n d).1.raw ∧
        (mapRaw π (nextLoop o.toIterOps c n d).1, (nextLoop o.toIterOps c n d).2) = nextLoop sh c n (mapRaw π d)) ∨
      ((∃ e, F (nextLoop o.toIterOps c n d).1.raw e) ∧ (nextLoop o.toIterOps c n d).1.dir = .eoi))
    (d : DBIter σ) (hH : H d.raw) :
    (H (nextCont o.toIterOps c n d).1.raw ∧
      (mapRaw π (nextCont o.toIterOps c n d).1, (nextCont o.toIterOps c n d).2) = nextCont sh c n (mapRaw π d)) ∨
    ((∃ e, F (nextCont o.toIterOps c n d).1.raw e) ∧ (nextCont o.toIterOps c n d).1.dir = .eoi) := by
  simp only [nextCont]
  rcases Option.eq_none_or_eq_some (o.err (o.next d.raw)) with he | ⟨e, he⟩
  · obtain ⟨h1, h2⟩ := hf.next _ hH he
    have hok : o.ok (o.next d.raw) = sh.ok (sh.next (π d.raw)) := by rw [hf.hok _ h1, h2]
    show (H (if o.ok (o.next d.raw) = true then _ else _ : DBIter σ × Bool).1.raw ∧ _) ∨ _
    rw [hok]
    cases hk : sh.ok (sh.next (π d.raw)) with
    | true =>
      simp only [if_true]
      have := ih { d with raw := o.next d.raw } h1
      have hm : mapRaw π { d with raw := o.next d.raw } = { mapRaw π d with raw := sh.next (π d.raw) } := by
        simp only [mapRaw, h2]
      rw [hm] at this
      simpa [mapRaw, hk] using this
    | false =>
      refine .inl ⟨h1, ?_⟩
      simp [mapRaw, h2, hk]
  · have hok : o.ok (o.next d.raw) = false := hf.nok_of_err_step _ .next e hH he
    refine .inr ?_
    simp only [hok, Bool.false_eq_true, if_false]
    exact ⟨⟨e, hf.hfail _ .next e hH he⟩, by first | rfl | trivial⟩

theorem nextLoop_couple (n : Nat) : ∀ d : DBIter σ, H d.raw →
    (H (nextLoop o.toIterOps c n d).1.raw ∧
      (mapRaw π (nextLoop o.toIterOps c n d).1, (nextLoop o.toIterOps c n d).2) = nextLoop sh c n (mapRaw π d)) ∨
    ((∃ e, F (nextLoop o.toIterOps c n d).1.raw e) ∧ (nextLoop o.toIterOps c n d).1.dir = .eoi) := by
  induction n with
  | zero => intro d hH; exact .inl ⟨hH, by first | rfl | trivial⟩
  | succ n ih =>
    intro d hH
    rw [nextLoop_succ, nextLoop_succ]
    have hcur : o.cur d.raw = sh.cur (mapRaw π d).raw := hf.hcur _ hH
    rw [hcur]
    have hc := nextCont_couple hf c n ih
    cases sh.cur (mapRaw π d).raw with
    | none => exact hc d hH
    | some e =>
      simp only
      show (H (if e.seq ≤ d.seq then _ else _ : DBIter σ × Bool).1.raw ∧ _) ∨ _
      have hseq : (mapRaw π d).seq = d.seq := rfl
      have hkey : (mapRaw π d).key = d.key := rfl
      have hdir : (mapRaw π d).dir = d.dir := rfl
      rw [hseq, hkey, hdir]
      by_cases h1 : e.seq ≤ d.seq
      · simp only [h1, if_true]
        by_cases h2 : e.kind = Gen.keyTypeDel
        · simp only [h2, if_true]
          exact hc { d with key := e.ukey, dir := .forward } hH
        · simp only [h2, if_false]
          by_cases h3 : e.kind = Gen.keyTypeVal
          · simp only [h3, if_true]
            by_cases h4 : d.dir = .soi ∨ c.cmp e.ukey d.key = .gt
            · simp only [h4, if_true]
              exact .inl ⟨hH, by first | rfl | trivial⟩
            · simp only [h4, if_false]
              exact hc d hH
          · simp only [h3, if_false]
            exact hc d hH
      · simp only [h1, if_false]
        exact hc d hH

theorem prevCont_couple (n : Nat)
    (ih : ∀ (del : Bool) (d : DBIter σ), H d.raw →
      (H (prevLoop o.toIterOps c n del d).1.raw ∧
        (mapRaw π (prevLoop o.toIterOps c n del d).1, (prevLoop o.toIterOps c n del d).2) =
          prevLoop sh c n del (mapRaw π d)) ∨
      (∃ e, F (prevLoop o.toIterOps c n del d).1.raw e))
    (del : Bool) (d : DBIter σ) (hH : H d.raw) :
    (H (prevCont o.toIterOps c n del d).1.raw ∧
      (mapRaw π (prevCont o.toIterOps c n del d).1, (prevCont o.toIterOps c n del d).2) =
        prevCont sh c n del (mapRaw π d)) ∨
    (∃ e, F (prevCont o.toIterOps c n del d).1.raw e) := by
  simp only [prevCont]
  rcases Option.eq_none_or_eq_some (o.err (o.prev d.raw)) with he | ⟨e, he⟩
  · obtain ⟨h1, h2⟩ := hf.prev _ hH he
    have hok : o.ok (o.prev d.raw) = sh.ok (sh.prev (π d.raw)) := by rw [hf.hok _ h1, h2]
    show (H (if o.ok (o.prev d.raw) = true then _ else _ : DBIter σ × Bool).1.raw ∧ _) ∨ _
    rw [hok]
    cases hk : sh.ok (sh.prev (π d.raw)) with
    | true =>
      simp only [if_true]
      have := ih del { d with raw := o.prev d.raw } h1
      have hm : mapRaw π { d with raw := o.prev d.raw } = { mapRaw π d with raw := sh.prev (π d.raw) } := by
        simp only [mapRaw, h2]
      rw [hm] at this
      simpa [mapRaw, hk] using this
    | false =>
      refine .inl ⟨h1, ?_⟩
      simp [mapRaw, h2, hk]
  · have hok : o.ok (o.prev d.raw) = false := hf.nok_of_err_step _ .prev e hH he
    refine .inr ?_
    simp only [hok, Bool.false_eq_true, if_false]
    exact ⟨e, hf.hfail _ .prev e hH he⟩

theorem prevLoop_couple (n : Nat) : ∀ (del : Bool) (d : DBIter σ), H d.raw →
    (H (prevLoop o.toIterOps c n del d).1.raw ∧
      (mapRaw π (prevLoop o.toIterOps c n del d).1, (prevLoop o.toIterOps c n del d).2) =
        prevLoop sh c n del (mapRaw π d)) ∨
    (∃ e, F (prevLoop o.toIterOps c n del d).1.raw e) := by
  induction n with
  | zero => intro del d hH; exact .inl ⟨hH, by first | rfl | trivial⟩
  | succ n ih =>
    intro del d hH
    rw [prevLoop_succ, prevLoop_succ]
    have hcur : o.cur d.raw = sh.cur (mapRaw π d).raw := hf.hcur _ hH
    rw [hcur]
    have hc := prevCont_couple hf c n ih
    cases sh.cur (mapRaw π d).raw with
    | none => exact hc del d hH
    | some e =>
      simp only
      show (H (if e.seq ≤ d.seq then _ else _ : DBIter σ × Bool).1.raw ∧ _) ∨ _
      have hseq : (mapRaw π d).seq = d.seq := rfl
      have hkey : (mapRaw π d).key = d.key := rfl
      rw [hseq, hkey]
      by_cases h1 : e.seq ≤ d.seq
      · simp only [h1, if_true]
        by_cases h2 : (!del && c.cmp e.ukey d.key = .lt) = true
        · simp only [h2, if_true]
          exact .inl ⟨hH, by first | rfl | trivial⟩
        · simp only [h2, if_false]
          by_cases h3 : e.kind = Gen.keyTypeDel
          · simp only [h3, if_true]
            exact hc true d hH
          · simp only [h3, if_false]
            exact hc false { d with key := e.ukey, value := e.val } hH
      · simp only [h1, if_false]
        exact hc del d hH

omit hf in
theorem finScan_map (P : DBIter σ × Bool) :
    mapRaw π (finScan P) = finScan (mapRaw π P.1, P.2) ∧ (finScan P).raw = P.1.raw := by
  obtain ⟨p, b⟩ := P
  cases b <;> exact ⟨rfl, rfl⟩

theorem prevScan_couple (d : DBIter σ) (hH : H d.raw) :
    (H (prevScan o.toIterOps c d).raw ∧ mapRaw π (prevScan o.toIterOps c d) = prevScan sh c (mapRaw π d)) ∨
    (∃ e, F (prevScan o.toIterOps c d).raw e) := by
  rw [prevScan_eq', prevScan_eq']
  have hok : o.ok d.raw = sh.ok (π d.raw) := hf.hok _ hH
  cases hk : sh.ok (π d.raw) with
  | false =>
    have e1 : (if o.toIterOps.ok d.raw = true then prevLoop o.toIterOps c d.fuel true { d with dir := .backward }
        else ({ d with dir := .backward }, true)) = ({ d with dir := .backward }, true) :=
      if_neg (by rw [hok, hk]; simp)
    have e2 : (if sh.ok (mapRaw π d).raw = true then prevLoop sh c (mapRaw π d).fuel true
          { mapRaw π d with dir := .backward }
        else ({ mapRaw π d with dir := .backward }, true)) = ({ mapRaw π d with dir := .backward }, true) :=
      if_neg (by show ¬ sh.ok (π d.raw) = true; rw [hk]; simp)
    rw [e1, e2]
    exact .inl ⟨hH, by first | rfl | trivial⟩
  | true =>
    have e1 : (if o.toIterOps.ok d.raw = true then prevLoop o.toIterOps c d.fuel true { d with dir := .backward }
        else ({ d with dir := .backward }, true)) = prevLoop o.toIterOps c d.fuel true { d with dir := .backward } :=
      if_pos (by rw [hok, hk])
    have e2 : (if sh.ok (mapRaw π d).raw = true then prevLoop sh c (mapRaw π d).fuel true
          { mapRaw π d with dir := .backward }
        else ({ mapRaw π d with dir := .backward }, true)) =
        prevLoop sh c (mapRaw π d).fuel true { mapRaw π d with dir := .backward } :=
      if_pos (by show sh.ok (π d.raw) = true; exact hk)
    rw [e1, e2]
    obtain ⟨f1, f2⟩ := finScan_map (π := π) (prevLoop o.toIterOps c d.fuel true { d with dir := .backward })
    rw [f1, f2]
    rcases prevLoop_couple hf c d.fuel true { d with dir := .backward } hH with ⟨h1, h2⟩ | h2
    · refine .inl ⟨h1, ?_⟩
      rw [h2]; rfl
    · exact .inr h2

theorem backLoop_couple (n : Nat) : ∀ d : DBIter σ, H d.raw →
    (H (backLoop o.toIterOps c n d).1.raw ∧
      (mapRaw π (backLoop o.toIterOps c n d).1, (backLoop o.toIterOps c n d).2) = backLoop sh c n (mapRaw π d)) ∨
    ((∃ e, F (backLoop o.toIterOps c n d).1.raw e) ∧ (backLoop o.toIterOps c n d).2 = false) := by
  induction n with
  | zero => intro d hH; exact .inl ⟨hH, by first | rfl | trivial⟩
  | succ n ih =>
    intro d hH
    rw [backLoop_succ, backLoop_succ]
    rcases Option.eq_none_or_eq_some (o.err (o.prev d.raw)) with he | ⟨e, he⟩
    · obtain ⟨h1, h2⟩ := hf.prev _ hH he
      have hcur : o.cur (o.prev d.raw) = sh.cur (sh.prev (mapRaw π d).raw) := by
        rw [hf.hcur _ h1, h2]; rfl
      rw [hcur]
      cases sh.cur (sh.prev (mapRaw π d).raw) with
      | none => exact .inl ⟨h1, by simp [mapRaw, h2]⟩
      | some e =>
        simp only
        have hkey : (mapRaw π d).key = d.key := rfl
        rw [hkey]
        by_cases h3 : c.cmp e.ukey d.key = .lt
        · simp only [h3, if_true]
          exact .inl ⟨h1, by simp [mapRaw, h2]⟩
        · simp only [h3, if_false]
          have := ih { d with raw := o.prev d.raw } h1
          have hm : mapRaw π { d with raw := o.prev d.raw } = { mapRaw π d with raw := sh.prev (mapRaw π d).raw } := by
            simp only [mapRaw, h2]
          rw [hm] at this
          exact this
    · have hc : o.cur (o.prev d.raw) = none := hf.masked _ e (hf.hfail _ .prev e hH he)
      refine .inr ?_
      simp only [hc]
      exact ⟨⟨e, hf.hfail _ .prev e hH he⟩, by first | rfl | trivial⟩

/-- **one call**: healthy and the twin's call, or failed — and then `false` unless the call ends in `prev()` -/
theorem step_couple (cl : Call Bytes) (d : DBIter σ) (hH : H d.raw) :
    (H (step o.toIterOps c cl d).raw ∧ mapRaw π (step o.toIterOps c cl d) = step sh c cl (mapRaw π d)) ∨
    ((∃ e, F (step o.toIterOps c cl d).raw e) ∧
      (EDBIter.viaPrev cl = false → (step o.toIterOps c cl d).dir.valid = false)) := by
  have hdir : (mapRaw π d).dir = d.dir := rfl
  have hfuel : (mapRaw π d).fuel = d.fuel := rfl
  have hraw : (mapRaw π d).raw = π d.raw := rfl
  -- the scan after a successful `First`/`Seek`/`Next`
  have scan : ∀ (r : σ) (d0 : DBIter σ), H r →
      (H (nextLoop o.toIterOps c d0.fuel { d0 with raw := r }).1.raw ∧
        mapRaw π (nextLoop o.toIterOps c d0.fuel { d0 with raw := r }).1 =
          (nextLoop sh c d0.fuel { mapRaw π d0 with raw := π r }).1) ∨
      ((∃ e, F (nextLoop o.toIterOps c d0.fuel { d0 with raw := r }).1.raw e) ∧
        (nextLoop o.toIterOps c d0.fuel { d0 with raw := r }).1.dir.valid = false) := by
    intro r d0 hr
    rcases nextLoop_couple hf c d0.fuel { d0 with raw := r } hr with ⟨h1, h2⟩ | ⟨h1, h2⟩
    · refine .inl ⟨h1, ?_⟩
      have := congrArg Prod.fst h2
      exact this
    · exact .inr ⟨h1, by rw [h2]; rfl⟩
  cases cl with
  | first =>
    simp only [step, first, hdir, hfuel, hraw, EDBIter.viaPrev]
    by_cases hrel : d.dir = .released
    · simp only [hrel, if_true]; exact .inl ⟨hH, by first | rfl | trivial⟩
    · simp only [hrel, if_false]
      rcases Option.eq_none_or_eq_some (o.err (o.first d.raw)) with he | ⟨e, he⟩
      · obtain ⟨h1, h2⟩ := hf.first _ hH he
        have hok : o.ok (o.first d.raw) = sh.ok (sh.first (π d.raw)) := by rw [hf.hok _ h1, h2]
        rw [hok]
        cases hk : sh.ok (sh.first (π d.raw)) with
        | true =>
          simp only [if_true]
          rcases scan (o.first d.raw) { d with dir := .soi } h1 with ⟨s1, s2⟩ | ⟨s1, s2⟩
          · exact .inl ⟨s1, by rw [s2, h2]; rfl⟩
          · exact .inr ⟨s1, fun _ => s2⟩
        | false => exact .inl ⟨h1, by simp [mapRaw, h2]⟩
      · have hok : o.ok (o.first d.raw) = false := hf.nok_of_err_step _ .first e hH he
        simp only [hok, Bool.false_eq_true, if_false]
        exact .inr ⟨⟨e, hf.hfail _ .first e hH he⟩, fun _ => rfl⟩
  | seek k =>
    simp only [step, seek, hdir, hfuel, hraw, EDBIter.viaPrev]
    have hseq : (mapRaw π d).seq = d.seq := rfl
    rw [hseq]
    by_cases hrel : d.dir = .released
    · simp only [hrel, if_true]; exact .inl ⟨hH, by first | rfl | trivial⟩
    · simp only [hrel, if_false]
      rcases Option.eq_none_or_eq_some (o.err (o.seek (mkIKey k d.seq Gen.keyTypeSeek) d.raw)) with he | ⟨e, he⟩
      · obtain ⟨h1, h2⟩ := hf.seek _ _ hH he
        have hok : o.ok (o.seek (mkIKey k d.seq Gen.keyTypeSeek) d.raw) =
            sh.ok (sh.seek (mkIKey k d.seq Gen.keyTypeSeek) (π d.raw)) := by rw [hf.hok _ h1, h2]
        rw [hok]
        cases hk : sh.ok (sh.seek (mkIKey k d.seq Gen.keyTypeSeek) (π d.raw)) with
        | true =>
          simp only [if_true]
          rcases scan (o.seek (mkIKey k d.seq Gen.keyTypeSeek) d.raw) { d with dir := .soi } h1 with
            ⟨s1, s2⟩ | ⟨s1, s2⟩
          · exact .inl ⟨s1, by rw [s2, h2]; rfl⟩
          · exact .inr ⟨s1, fun _ => s2⟩
        | false => exact .inl ⟨h1, by simp [mapRaw, h2]⟩
      · have hok : o.ok (o.seek (mkIKey k d.seq Gen.keyTypeSeek) d.raw) = false := hf.nok_of_err_step _ (.seek (mkIKey k d.seq Gen.keyTypeSeek)) e hH he
        simp only [hok, Bool.false_eq_true, if_false]
        exact .inr ⟨⟨e, hf.hfail _ (.seek (mkIKey k d.seq Gen.keyTypeSeek)) e hH he⟩, fun _ => rfl⟩
  | next =>
    simp only [step, next, hdir, hfuel, hraw, EDBIter.viaPrev]
    by_cases hend : d.dir = .eoi ∨ d.dir = .released
    · simp only [hend, if_true]; exact .inl ⟨hH, by first | rfl | trivial⟩
    · simp only [hend, if_false]
      rcases Option.eq_none_or_eq_some (o.err (o.next d.raw)) with he | ⟨e, he⟩
      · obtain ⟨h1, h2⟩ := hf.next _ hH he
        have hok : o.ok (o.next d.raw) = sh.ok (sh.next (π d.raw)) := by rw [hf.hok _ h1, h2]
        rw [hok]
        cases hk : sh.ok (sh.next (π d.raw)) with
        | false => exact .inl ⟨h1, by simp [mapRaw, h2]⟩
        | true =>
          simp only [Bool.not_true, Bool.false_eq_true, if_false]
          by_cases hb : d.dir = .backward
          · simp only [if_pos hb]
            rcases Option.eq_none_or_eq_some (o.err (o.next (o.next d.raw))) with he2 | ⟨e, he2⟩
            · obtain ⟨g1, g2⟩ := hf.next _ h1 he2
              have hok2 : o.ok (o.next (o.next d.raw)) = sh.ok (sh.next (sh.next (π d.raw))) := by
                rw [hf.hok _ g1, g2, h2]
              rw [hok2]
              cases hk2 : sh.ok (sh.next (sh.next (π d.raw))) with
              | false => exact .inl ⟨g1, by simp [mapRaw, g2, h2]⟩
              | true =>
                simp only [Bool.not_true, Bool.false_eq_true, if_false]
                rcases scan (o.next (o.next d.raw)) d g1 with ⟨s1, s2⟩ | ⟨s1, s2⟩
                · exact .inl ⟨s1, by rw [s2, g2, h2]; rfl⟩
                · exact .inr ⟨s1, fun _ => s2⟩
            · have hok2 : o.ok (o.next (o.next d.raw)) = false := hf.nok_of_err_step _ .next e h1 he2
              simp only [hok2, Bool.not_false, if_true]
              exact .inr ⟨⟨e, hf.hfail _ .next e h1 he2⟩, fun _ => rfl⟩
          · simp only [if_neg hb]
            rcases scan (o.next d.raw) d h1 with ⟨s1, s2⟩ | ⟨s1, s2⟩
            · exact .inl ⟨s1, by rw [s2, h2]; rfl⟩
            · exact .inr ⟨s1, fun _ => s2⟩
      · have hok : o.ok (o.next d.raw) = false := hf.nok_of_err_step _ .next e hH he
        simp only [hok, Bool.not_false, if_true]
        exact .inr ⟨⟨e, hf.hfail _ .next e hH he⟩, fun _ => rfl⟩
  | last =>
    simp only [step, last, hdir, hraw, EDBIter.viaPrev]
    by_cases hrel : d.dir = .released
    · simp only [hrel, if_true]; exact .inl ⟨hH, by first | rfl | trivial⟩
    · simp only [hrel, if_false]
      rcases Option.eq_none_or_eq_some (o.err (o.last d.raw)) with he | ⟨e, he⟩
      · obtain ⟨h1, h2⟩ := hf.last _ hH he
        have hok : o.ok (o.last d.raw) = sh.ok (sh.last (π d.raw)) := by rw [hf.hok _ h1, h2]
        rw [hok]
        cases hk : sh.ok (sh.last (π d.raw)) with
        | true =>
          simp only [if_true]
          rcases prevScan_couple hf c { d with raw := o.last d.raw } h1 with ⟨s1, s2⟩ | s1
          · exact .inl ⟨s1, by rw [s2]; simp only [mapRaw, h2]⟩
          · exact .inr ⟨s1, fun h => by cases h⟩
        | false => exact .inl ⟨h1, by simp [mapRaw, h2]⟩
      · have hok : o.ok (o.last d.raw) = false := hf.nok_of_err_step _ .last e hH he
        simp only [hok, Bool.false_eq_true, if_false]
        exact .inr ⟨⟨e, hf.hfail _ .last e hH he⟩, fun h => by cases h⟩
  | prev =>
    simp only [step, EDBIter.viaPrev]
    cases hd : d.dir with
    | soi => simp only [prev, hdir, hd]; exact .inl ⟨hH, by first | rfl | trivial⟩
    | released => simp only [prev, hdir, hd]; exact .inl ⟨hH, by first | rfl | trivial⟩
    | eoi =>
      simp only [prev, hdir, hd, last, hraw]
      simp only [reduceCtorEq, if_false]
      rcases Option.eq_none_or_eq_some (o.err (o.last d.raw)) with he | ⟨e, he⟩
      · obtain ⟨h1, h2⟩ := hf.last _ hH he
        have hok : o.ok (o.last d.raw) = sh.ok (sh.last (π d.raw)) := by rw [hf.hok _ h1, h2]
        rw [hok]
        cases hk : sh.ok (sh.last (π d.raw)) with
        | true =>
          simp only [if_true]
          rcases prevScan_couple hf c { d with raw := o.last d.raw, dir := .eoi } h1 with ⟨s1, s2⟩ | s1
          · exact .inl ⟨s1, by rw [s2]; simp only [mapRaw, h2]⟩
          · exact .inr ⟨s1, fun h => by cases h⟩
        | false => exact .inl ⟨h1, by simp [mapRaw, h2]⟩
      · have hok : o.ok (o.last d.raw) = false := hf.nok_of_err_step _ .last e hH he
        simp only [hok, Bool.false_eq_true, if_false]
        exact .inr ⟨⟨e, hf.hfail _ .last e hH he⟩, fun h => by cases h⟩
    | backward =>
      simp only [prev, hdir, hd]
      rcases prevScan_couple hf c d hH with ⟨s1, s2⟩ | s1
      · exact .inl ⟨s1, s2⟩
      · exact .inr ⟨s1, fun h => by cases h⟩
    | forward =>
      rw [prev_forward_eq d hd, prev_forward_eq (mapRaw π d) (by rw [hdir]; exact hd)]
      simp only [hfuel]
      rcases backLoop_couple hf c d.fuel d hH with ⟨b1, b2⟩ | ⟨b1, b2⟩
      · rw [← b2]
        simp only
        cases hfound : (backLoop o.toIterOps c d.fuel d).2 with
        | false => exact .inl ⟨b1, rfl⟩
        | true =>
          simp only [if_true]
          rcases prevScan_couple hf c _ b1 with ⟨s1, s2⟩ | s1
          · exact .inl ⟨s1, s2⟩
          · exact .inr ⟨s1, fun h => by cases h⟩
      · simp only [b2, Bool.false_eq_true, if_false]
        exact .inr ⟨b1, fun h => by cases h⟩

end
end DBIter
end GoLevel
