import GoLevel.Proofs.BlockIterLayout
/-!
# `blockIter.Next` over a well-formed block

`nextBody_hit` / `nextBody_end`: from an iterator whose `offset` is the start of entry `j` and whose key buffer
is usable there (`KeyOK`: `j` is a restart point or the buffer holds the previous key), the body of `Next`
skips to the slice start `lo`, then yields entry `max j lo`, or reports the end of the slice.
-/
namespace GoLevel.C13
open GoLevel

variable {b : BlockR} {kvs : List KV} {off : Nat → Nat} {R : Nat} {rs : Nat → Nat}

/-- the key buffer `kb` lets entry `j` be decoded -/
def KeyOK (kvs : List KV) (R : Nat) (rs : Nat → Nat) (j : Nat) (kb : Bytes) : Prop :=
  IsRestart R rs j ∨ (0 < j ∧ kb = kAt kvs (j - 1))

/-- decoding entry `j` with a usable key buffer rebuilds its key -/
theorem Layout.decode (L : Layout b kvs off R rs) {j : Nat} (hj : j < kvs.length) {kb : Bytes}
    (hk : KeyOK kvs R rs j kb) :
    ∃ sh, b.entryAt (off j) = .ok sh ((kAt kvs j).drop sh) (vAt kvs j) (off (j + 1) - off j) ∧
      ¬ (sh > kb.length) ∧ kb.take sh ++ (kAt kvs j).drop sh = kAt kvs j := by
  obtain ⟨sh, he, hsh, hr, hp⟩ := L.entry j hj
  refine ⟨sh, he, ?_, ?_⟩
  · rcases hk with hk | ⟨h0, hk⟩
    · have := hr hk; omega
    · have := (hp h0).1; subst hk; omega
  · rcases hk with hk | ⟨h0, hk⟩
    · have := hr hk; subst this; simp
    · subst hk; rw [(hp h0).2, List.take_append_drop]

theorem Layout.off_succ (L : Layout b kvs off R rs) {j : Nat} (hj : j < kvs.length) :
    off j + (off (j + 1) - off j) = off (j + 1) := by
  have := L.mono j hj; omega

/-- the skip loop of `Next` -/
theorem nextSkip_ok (L : Layout b kvs off R rs) (lo : Nat) (hlo : lo ≤ kvs.length) :
    ∀ (d : Nat) (it : BIter) (j fuel : Nat), lo - j = d → j ≤ lo → it.offsetRealStart = off lo →
      it.offset = off j → KeyOK kvs R rs j it.key → d < fuel →
      ∃ kb val, BIter.nextSkip b fuel it = (true, { it with key := kb, value := val, offset := off lo }) ∧
        KeyOK kvs R rs lo kb := by
  intro d
  induction d with
  | zero =>
    intro it j fuel hd hj hreal hoff hk hf
    have hjl : j = lo := by omega
    subst hjl
    cases fuel with
    | zero => omega
    | succ fuel =>
      refine ⟨it.key, it.value, ?_, hk⟩
      have : ¬ (it.offset < it.offsetRealStart) := by omega
      simp only [BIter.nextSkip, this, if_false]
      rw [← hoff]
  | succ d ih =>
    intro it j fuel hd hj hreal hoff hk hf
    have hjl : j < lo := by omega
    cases fuel with
    | zero => omega
    | succ fuel =>
      have hlt : it.offset < it.offsetRealStart := by
        rw [hoff, hreal]; exact L.off_lt hjl hlo
      obtain ⟨sh, he, hsh, hkey⟩ := L.decode (by omega : j < kvs.length) hk
      obtain ⟨kb, val, hres, hkb⟩ := ih
        { it with key := kAt kvs j, value := some (vAt kvs j), offset := off (j + 1) } (j + 1) fuel
        (by omega) (by omega) hreal rfl (Or.inr ⟨by omega, by simp⟩) (by omega)
      refine ⟨kb, val, ?_, hkb⟩
      rw [← hoff] at he
      rw [BIter.nextSkip, if_pos hlt, he]
      simp only [if_neg hsh, hkey]
      rw [hoff, L.off_succ (by omega), hres]

/-- the configuration `Next` reads: the slice `[lo, hi)` in offsets -/
structure OffCfg (off : Nat → Nat) (it : BIter) (lo hi : Nat) : Prop where
  real : it.offsetRealStart = off lo
  limit : it.offsetLimit = off hi

/-- `Next` yields entry `max j lo` -/
theorem nextBody_hit (L : Layout b kvs off R rs) {it : BIter} {lo hi j : Nat} (hc : OffCfg off it lo hi)
    (hlh : lo ≤ hi) (hhi : hi ≤ kvs.length) (hoff : it.offset = off j) (hk : KeyOK kvs R rs j it.key)
    (hlt : max j lo < hi) :
    BIter.nextBody b it = (true, { it with key := kAt kvs (max j lo), value := some (vAt kvs (max j lo)),
                                           prevOffset := off (max j lo), offset := off (max j lo + 1),
                                           dir := .forward }) := by
  have hjn : j < kvs.length := by omega
  by_cases hjl : j ≤ lo
  · have hm : max j lo = lo := by omega
    rw [hm] at hlt ⊢
    obtain ⟨kb, val, hs, hkb⟩ := nextSkip_ok L lo (by omega) (lo - j) it j (b.restartsOffset + 1) rfl hjl hc.real
      hoff hk (by have := L.fuel_ok (j := lo) (by omega); omega)
    obtain ⟨sh, he, hsh, hkey⟩ := L.decode (by omega : lo < kvs.length) hkb
    have hnl : ¬ (off lo ≥ off hi) := by have := L.off_lt hlt hhi; omega
    simp only [BIter.nextBody, hs, hc.limit, hnl, if_false, he, hsh]
    rw [hkey, L.off_succ (by omega)]
  · have hm : max j lo = j := by omega
    rw [hm] at hlt ⊢
    have hns : BIter.nextSkip b (b.restartsOffset + 1) it = (true, it) := by
      have : ¬ (it.offset < it.offsetRealStart) := by
        rw [hoff, hc.real]; have := L.off_le (i := lo) (j := j) (by omega) (by omega); omega
      simp only [BIter.nextSkip, this, if_false]
    obtain ⟨sh, he, hsh, hkey⟩ := L.decode hjn hk
    have hnl : ¬ (off j ≥ off hi) := by have := L.off_lt hlt hhi; omega
    simp only [BIter.nextBody, hns, hc.limit, hoff, hnl, if_false, he, hsh]
    rw [hkey, L.off_succ hjn]

/-- `Next` reports the end of the slice -/
theorem nextBody_end (L : Layout b kvs off R rs) {it : BIter} {lo hi j : Nat} (hc : OffCfg off it lo hi)
    (hlh : lo ≤ hi) (hhi : hi ≤ kvs.length) (hoff : it.offset = off j) (hk : KeyOK kvs R rs j it.key)
    (hj : j ≤ hi) (hge : max j lo = hi) :
    ∃ kb val, BIter.nextBody b it = (false, { it with key := kb, value := val, offset := off hi, dir := .eoi }) := by
  by_cases hjl : j ≤ lo
  · have hm : lo = hi := by omega
    obtain ⟨kb, val, hs, _⟩ := nextSkip_ok L lo (by omega) (lo - j) it j (b.restartsOffset + 1) rfl hjl hc.real
      hoff hk (by have := L.fuel_ok (j := lo) (by omega); omega)
    refine ⟨kb, val, ?_⟩
    simp only [BIter.nextBody, hs, hc.limit, hm]
    simp
  · have hm : j = hi := by omega
    have hns : BIter.nextSkip b (b.restartsOffset + 1) it = (true, it) := by
      have : ¬ (it.offset < it.offsetRealStart) := by
        rw [hoff, hc.real]; have := L.off_le (i := lo) (j := j) (by omega) (by omega); omega
      simp only [BIter.nextSkip, this, if_false]
    refine ⟨it.key, it.value, ?_⟩
    simp only [BIter.nextBody, hns, hc.limit, hoff, hm]
    simp

end GoLevel.C13
