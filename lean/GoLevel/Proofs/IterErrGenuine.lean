import GoLevel.Proofs.IterErrMergedD
/-!
# Whatever its children do, the merged iterator only shows a child's current pair (C02 / C08)

`MergedIter.Gen`: for ANY child operations (no sortedness, no simulation: the children may drop out at any
time, as failed children do in non-strict mode) every call of the error-free `MergedIter` keeps
"`keys[x]` is the key under the valid child `x`" for the children in the heap and for the current one, so
`Key()`/`Value()` is the pair under one of the children.  `EMerged.nonstrict_run`: in non-strict mode over
children whose errors are all corruptions the merged iterator never reports an error and every pair it shows is
the current pair of one of its children.  Core Lean only.
-/
namespace GoLevel
namespace MergedIter
variable {σ : Type}

/-- `keys[x]` is the key under child `x`, which is valid -/
def KeyOK (o : IterOps σ) (m : MergedIter σ) (x : Nat) : Prop :=
  ∃ s e, m.iters[x]? = some s ∧ o.cur s = some e ∧ keyAt m.keys x = some e.key

structure Gen (o : IterOps σ) (m : MergedIter σ) : Prop where
  klen  : m.keys.length = m.iters.length
  heap  : ∀ x ∈ m.heap, KeyOK o m x
  nodup : m.heap.Nodup
  index : m.dir.valid = true → KeyOK o m m.index ∧ m.index ∉ m.heap
  nrel  : m.dir ≠ .released

theorem argBest_mem (lt : Nat → Nat → Bool) : ∀ (ys : List Nat) (b : Nat), argBest lt b ys ∈ b :: ys := by
  intro ys
  induction ys with
  | nil => intro b; simp [argBest]
  | cons y ys ih =>
    intro b
    simp only [argBest]
    split
    · have := ih y
      rcases List.mem_cons.1 this with h | h
      · rw [h]; simp
      · simp [h]
    · have := ih b
      rcases List.mem_cons.1 this with h | h
      · rw [h]; simp
      · simp [h]

theorem gen_new (o : IterOps σ) (iters : List σ) : Gen o (new iters) where
  klen := by simp [new]
  heap := fun x hx => by simp [new] at hx
  nodup := by simp [new]
  index := fun h => by simp [new, Dir.valid] at h
  nrel := by simp [new]

/-- `next()`/`prev()`: pop a child off the heap; `dv`/`di` are the directions for "found"/"empty" -/
theorem gen_pop (o : IterOps σ) (c : UCmp) (m : MergedIter σ) (dv di : Dir) (hdv : dv.valid = true)
    (hdi : di.valid = false) (hdi' : di ≠ .released)
    (hk : m.keys.length = m.iters.length) (hh : ∀ x ∈ m.heap, KeyOK o m x) (hn : m.heap.Nodup) :
    Gen o (match pop c m with
      | none => { m with dir := di }
      | some (x, h) => { m with index := x, heap := h, dir := dv }) := by
  unfold pop
  cases hheap : m.heap with
  | nil =>
    simp only
    refine ⟨hk, ?_, ?_, ?_, hdi'⟩
    · intro x hx; cases hx
    · simp
    · intro h; rw [hdi] at h; cases h
  | cons x xs =>
    simp only
    have hb : argBest (less c m.reverse m.keys) x xs ∈ m.heap := by rw [hheap]; exact argBest_mem _ xs x
    rw [hheap] at hn hh hb
    refine ⟨hk, ?_, ?_, ?_, ?_⟩
    · intro y hy
      have hy' : y ∈ (x :: xs).erase (argBest (less c m.reverse m.keys) x xs) := hy
      exact hh y (List.mem_of_mem_erase hy')
    · exact hn.erase _
    · intro _
      exact ⟨hh _ hb, List.Nodup.not_mem_erase hn⟩
    · intro h
      have h' : dv = .released := h
      rw [h'] at hdv; cases hdv

theorem gen_popNext (o : IterOps σ) (c : UCmp) (m : MergedIter σ)
    (hk : m.keys.length = m.iters.length) (hh : ∀ x ∈ m.heap, KeyOK o m x) (hn : m.heap.Nodup) :
    Gen o (popNext c m) :=
  gen_pop o c m .forward .eoi rfl rfl (by simp) hk hh hn

theorem gen_popPrev (o : IterOps σ) (c : UCmp) (m : MergedIter σ)
    (hk : m.keys.length = m.iters.length) (hh : ∀ x ∈ m.heap, KeyOK o m x) (hn : m.heap.Nodup) :
    Gen o (popPrev c m) :=
  gen_pop o c m .backward .soi rfl rfl (by simp) hk hh hn

/-- after `First`/`Last`/`Seek`'s loop -/
theorem resetAll_facts (o : IterOps σ) (rev : Bool) (f : σ → σ) (m : MergedIter σ) (d : Dir) :
    ({ resetAll o rev f m with dir := d } : MergedIter σ).keys.length =
      ({ resetAll o rev f m with dir := d } : MergedIter σ).iters.length ∧
    (∀ x ∈ ({ resetAll o rev f m with dir := d } : MergedIter σ).heap,
      KeyOK o { resetAll o rev f m with dir := d } x) ∧
    ({ resetAll o rev f m with dir := d } : MergedIter σ).heap.Nodup := by
  refine ⟨by simp [resetAll], ?_, ?_⟩
  · intro x hx
    simp only [resetAll, List.mem_filter, List.mem_range, List.length_map] at hx
    obtain ⟨hlt, hsome⟩ := hx
    have hs : m.iters[x]? = some m.iters[x] := List.getElem?_eq_getElem hlt
    simp only [keyAt, List.getElem?_map, hs, Option.map_some, Option.join_some, keyOf] at hsome
    cases hc : o.cur (f m.iters[x]) with
    | none => rw [hc] at hsome; cases hsome
    | some e =>
      refine ⟨f m.iters[x], e, by simp [resetAll, hs], hc, ?_⟩
      simp [resetAll, keyAt, hs, keyOf, hc]
  · exact List.Nodup.sublist List.filter_sublist List.nodup_range

theorem keyOK_set_other (o : IterOps σ) (m : MergedIter σ) (i x : Nat) (s' : σ) (k : Option IKey)
    (hne : x ≠ i) (h : KeyOK o m x) (heap : List Nat) :
    KeyOK o { m with iters := m.iters.set i s', keys := m.keys.set i k, heap := heap } x := by
  obtain ⟨s, e, h1, h2, h3⟩ := h
  refine ⟨s, e, ?_, h2, ?_⟩
  · simp only [List.getElem?_set]
    rw [if_neg (Ne.symm hne)]; exact h1
  · simp only [keyAt, List.getElem?_set]
    rw [if_neg (Ne.symm hne)]; exact h3

/-- the tail of `Next`/`Prev` before the pop -/
theorem stepIndex_facts (o : IterOps σ) (f : σ → σ) (m : MergedIter σ) (hg : Gen o m)
    (hv : m.dir.valid = true) :
    (stepIndex o f m).keys.length = (stepIndex o f m).iters.length ∧
    (∀ x ∈ (stepIndex o f m).heap, KeyOK o (stepIndex o f m) x) ∧ (stepIndex o f m).heap.Nodup := by
  obtain ⟨⟨s0, e0, hs0, _, _⟩, hni⟩ := hg.index hv
  have hlt : m.index < m.iters.length := (List.getElem?_eq_some_iff.1 hs0).1
  have hltk : m.index < m.keys.length := by rw [hg.klen]; exact hlt
  unfold stepIndex
  simp only [hs0]
  cases hc : o.cur (f s0) with
  | none =>
    simp only
    refine ⟨by simp [hg.klen], ?_, hg.nodup⟩
    intro x hx
    have hne : x ≠ m.index := fun h => hni (h ▸ hx)
    exact keyOK_set_other o m m.index x (f s0) none hne (hg.heap x hx) m.heap
  | some e =>
    simp only
    refine ⟨by simp [hg.klen], ?_, ?_⟩
    · intro x hx
      rcases List.mem_append.1 hx with hx | hx
      · have hne : x ≠ m.index := fun h => hni (h ▸ hx)
        exact keyOK_set_other o m m.index x (f s0) (some e.key) hne (hg.heap x hx) _
      · have : x = m.index := by simpa using hx
        subst this
        refine ⟨f s0, e, by simp [List.getElem?_set, hlt], hc, ?_⟩
        simp [keyAt, List.getElem?_set, hltk]
    · exact List.nodup_append.2 ⟨hg.nodup, by simp, by
        intro a ha b hb; have : b = m.index := by simpa using hb
        subst this; intro h; exact hni (h ▸ ha)⟩

/-- the direction change of `Prev` -/
theorem turnBack_gen (o : IterOps σ) (key : IKey) (m : MergedIter σ) (hg : Gen o m) (hv : m.dir.valid = true) :
    Gen o (turnBack o key m) := by
  obtain ⟨⟨s0, e0, hs0, hc0, hk0⟩, _⟩ := hg.index hv
  have hlt : m.index < m.iters.length := (List.getElem?_eq_some_iff.1 hs0).1
  have hkey : ∀ x, x < m.iters.length →
      KeyOK o (turnBack o key m) x ∨ keyAt (turnBack o key m).keys x = none := by
    intro x hx
    have hs : m.iters[x]? = some m.iters[x] := List.getElem?_eq_getElem hx
    by_cases hxi : x = m.index
    · rw [hxi]
      refine .inl ⟨s0, e0, ?_, hc0, ?_⟩
      · simp [turnBack, List.getElem?_mapIdx, hs0]
      · simp only [turnBack, keyAt, List.getElem?_mapIdx, hs0, Option.map_some, if_true, Option.join_some]
        exact hk0
    · cases hc : o.cur (if o.ok (o.seek key m.iters[x]) then o.prev (o.seek key m.iters[x])
          else o.last (o.seek key m.iters[x])) with
      | none =>
        refine .inr ?_
        simp [turnBack, keyAt, List.getElem?_mapIdx, hs, hxi, keyOf, hc]
      | some e =>
        refine .inl ⟨_, e, ?_, hc, ?_⟩
        · simp [turnBack, List.getElem?_mapIdx, hs, hxi]
        · simp [turnBack, keyAt, List.getElem?_mapIdx, hs, hxi, keyOf, hc]
  refine ⟨by simp [turnBack], ?_, ?_, ?_, ?_⟩
  · intro x hx
    unfold turnBack at hx
    simp only [List.mem_filter, List.mem_range, List.length_mapIdx, Bool.and_eq_true] at hx
    obtain ⟨hlt', _, hsome⟩ := hx
    rcases hkey x hlt' with h | h
    · exact h
    · unfold turnBack at h
      simp only at h
      rw [h] at hsome; cases hsome
  · exact List.Nodup.sublist List.filter_sublist List.nodup_range
  · intro _
    refine ⟨?_, ?_⟩
    · rcases hkey m.index hlt with h | h
      · exact h
      · exfalso
        simp only [turnBack, keyAt, List.getElem?_mapIdx, hs0, Option.map_some, if_true, Option.join_some] at h
        simp only [keyAt] at hk0
        rw [h] at hk0; cases hk0
    · simp [turnBack]
  · exact hg.nrel

section
variable (o : IterOps σ) (c : UCmp)

theorem gen_first (m : MergedIter σ) (hg : Gen o m) : Gen o (first o c m) := by
  unfold first
  rw [if_neg hg.nrel]
  obtain ⟨h1, h2, h3⟩ := resetAll_facts o false o.first m .soi
  exact gen_popNext o c _ h1 h2 h3

theorem gen_last (m : MergedIter σ) (hg : Gen o m) : Gen o (last o c m) := by
  unfold last
  rw [if_neg hg.nrel]
  obtain ⟨h1, h2, h3⟩ := resetAll_facts o true o.last m .eoi
  exact gen_popPrev o c _ h1 h2 h3

theorem gen_seek (k : IKey) (m : MergedIter σ) (hg : Gen o m) : Gen o (seek o c k m) := by
  unfold seek
  rw [if_neg hg.nrel]
  obtain ⟨h1, h2, h3⟩ := resetAll_facts o false (o.seek k) m .soi
  exact gen_popNext o c _ h1 h2 h3

theorem gen_next (m : MergedIter σ) (hg : Gen o m) : Gen o (next o c m) := by
  unfold next
  cases hd : m.dir with
  | eoi => exact hg
  | released => exact hg
  | soi => exact gen_first o c m hg
  | forward =>
    obtain ⟨h1, h2, h3⟩ := stepIndex_facts o o.next m hg (by rw [hd]; rfl)
    exact gen_popNext o c _ h1 h2 h3
  | backward =>
    simp only
    cases hkey : keyAt m.keys m.index with
    | none => exact hg
    | some key =>
      simp only
      have hs := gen_seek o c key m hg
      cases hv : (seek o c key m).dir.valid with
      | false => simp only [Bool.not_false, if_true]; exact hs
      | true =>
        simp only [Bool.not_true, Bool.false_eq_true, if_false]
        obtain ⟨h1, h2, h3⟩ := stepIndex_facts o o.next _ hs hv
        exact gen_popNext o c _ h1 h2 h3

theorem gen_prev (m : MergedIter σ) (hg : Gen o m) : Gen o (prev o c m) := by
  unfold prev
  cases hd : m.dir with
  | soi => exact hg
  | released => exact hg
  | eoi => exact gen_last o c m hg
  | backward =>
    obtain ⟨h1, h2, h3⟩ := stepIndex_facts o o.prev m hg (by rw [hd]; rfl)
    exact gen_popPrev o c _ h1 h2 h3
  | forward =>
    simp only
    cases hkey : keyAt m.keys m.index with
    | none => exact hg
    | some key =>
      simp only
      have hv : m.dir.valid = true := by rw [hd]; rfl
      have ht := turnBack_gen o key m hg hv
      have hv' : (turnBack o key m).dir.valid = true := hv
      obtain ⟨h1, h2, h3⟩ := stepIndex_facts o o.prev _ ht hv'
      exact gen_popPrev o c _ h1 h2 h3

theorem gen_step (cl : Call IKey) (m : MergedIter σ) (hg : Gen o m) : Gen o ((ops o c).step cl m) := by
  cases cl with
  | first => exact gen_first o c m hg
  | last => exact gen_last o c m hg
  | seek k => exact gen_seek o c k m hg
  | next => exact gen_next o c m hg
  | prev => exact gen_prev o c m hg

end

/-- **what the merged iterator shows is the pair under one of its children** -/
theorem gen_cur (o : IterOps σ) (m : MergedIter σ) (hg : Gen o m) (e : Entry) (h : cur o m = some e) :
    ∃ s ∈ m.iters, o.cur s = some e := by
  unfold cur at h
  cases hv : m.dir.valid with
  | false => simp [hv] at h
  | true =>
    obtain ⟨⟨s, e0, hs, hc, hk⟩, _⟩ := hg.index hv
    simp only [hv, if_true, hk, hs, hc, Option.map_some, Option.getD_some, Option.some.injEq] at h
    refine ⟨s, List.mem_of_getElem? hs, ?_⟩
    rw [hc, ← h]

end MergedIter

namespace EMerged
variable {σ : Type}

/-- the state after a call sequence -/
def after (o : EIterOps σ) (c : UCmp) (m : EMerged σ) (cs : List (Call IKey)) : EMerged σ :=
  cs.foldl (fun m cl => (ops o c).toIterOps.step cl m) m

/-- **non-strict mode over children that fail with corruption errors only**: never an error, and every call
is the error-free call over the children as they appear (a failed child appears exhausted) -/
theorem nonstrict_step (o : EIterOps σ) (c : UCmp) (hcorr : ∀ s e, o.err s = some e → e.isCorrupted = true)
    (cl : Call IKey) (m : EMerged σ) (hm : m.err = none) (hs : m.strict = false)
    (hg : MergedIter.Gen o.toIterOps m.base) :
    ((ops o c).toIterOps.step cl m).err = none ∧ ((ops o c).toIterOps.step cl m).strict = false ∧
    ((ops o c).toIterOps.step cl m).base = (MergedIter.ops o.toIterOps c).step cl m.base := by
  obtain ⟨h1, h2⟩ := step_spec o c cl m hm
  rcases Option.eq_none_or_eq_some ((ops o c).toIterOps.step cl m).err with he | ⟨e, he⟩
  · obtain ⟨b1, b2⟩ := h1 he
    exact ⟨he, by rw [b2]; exact hs, b1⟩
  · exfalso
    rcases h2 e he with ⟨_, hr⟩ | ⟨⟨s, hse⟩, hst⟩
    · exact hg.nrel hr
    · rcases hst with hst | hst
      · rw [hs] at hst; cases hst
      · rw [hcorr s e hse] at hst; cases hst

theorem nonstrict_run (o : EIterOps σ) (c : UCmp) (hcorr : ∀ s e, o.err s = some e → e.isCorrupted = true)
    (cs : List (Call IKey)) (m : EMerged σ) (hm : m.err = none) (hs : m.strict = false)
    (hg : MergedIter.Gen o.toIterOps m.base) :
    (after o c m cs).err = none ∧ MergedIter.Gen o.toIterOps (after o c m cs).base ∧
    ∀ e, cur o (after o c m cs) = some e → ∃ s ∈ (after o c m cs).base.iters, o.cur s = some e := by
  induction cs generalizing m with
  | nil =>
    refine ⟨hm, hg, ?_⟩
    intro e he
    rw [show after o c m [] = m from rfl, cur_base o m hm] at he
    exact MergedIter.gen_cur _ _ hg e he
  | cons cl cs ih =>
    obtain ⟨h1, h2, h3⟩ := nonstrict_step o c hcorr cl m hm hs hg
    have hg' : MergedIter.Gen o.toIterOps ((ops o c).toIterOps.step cl m).base := by
      rw [h3]; exact MergedIter.gen_step _ c cl _ hg
    exact ih _ h1 h2 hg'

end EMerged
end GoLevel
