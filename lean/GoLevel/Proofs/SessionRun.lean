import GoLevel.Proofs.SessionClose
/-! Every operation keeps the simulation; whole operation sequences (C07). -/
namespace GoLevel.Session
open GoLevel GoLevel.RefLoop

theorem sim_step {y : Sys} {G : EnvF} {U : List Nat} (h : Sim y G U) (o : Op) (hok : OpOK y.sess U o) :
    StepOK y U o := by
  cases o with
  | recover v => exact step_recover h v hok
  | create =>
    refine step_create h (fun hc hm => ?_)
    have hv := h.view hc
    rw [hm] at hv
    have hT : G.T y.sess.cur = [] := by rw [← h.lsm hc]; exact hok hm
    rw [hT]; simpa using hv
  | commit c r => exact step_commit h c r hok
  | commitFail c r => exact step_commitFail h c r
  | pin => exact step_pin h
  | unpin id d => exact step_unpin h id d
  | close => exact step_close h
  | expire v => exact step_expire h v

/-- `newSession`. -/
theorem sim_init : ∃ y G, Sys.init = some y ∧ Sim y G [] ∧ y.requests = [] := by
  have hs : EnvStepF State.init.next EnvF.init (.ref EnvF.init.N []) (EnvF.init.push (.inst [] [] ⟨[], []⟩)) :=
    EnvStepF.ref EnvF.init [] [] ⟨[], []⟩ rfl List.nodup_nil List.nodup_nil (fun _ h => h) (fun _ => rfl)
      (fun h => by simp [EnvF.init, EnvF.N] at h) (fun f hf => by cases hf) (fun f hf => by cases hf)
  obtain ⟨l, rm, e1, ok1, _, sf1⟩ := single_chain loopOK_init hs
  have e1' : deliver State.init Sess.init.2 = some (l, rm) := e1
  have hrm : rm = [] := by
    have h1 : run State.init [Msg.ref 0 []] = some (l, rm) := e1
    have h2 : (run State.init [Msg.ref 0 []]).map (·.2) = some [] := by decide
    rw [h1] at h2; simpa using h2
  subst hrm
  refine ⟨⟨Sess.init.1, l, []⟩, EnvF.init.push (.inst [] [] ⟨[], []⟩), by simp [Sys.init, e1'], ?_, rfl⟩
  have hI : ∀ k, (EnvF.init.push (.inst [] [] ⟨[], []⟩)).inst k ↔ k = 0 := by
    intro k
    constructor
    · intro hk; have := EnvF.inst_lt hk; rw [EnvF.push_N] at this; simp [EnvF.init, EnvF.N] at this; exact this
    · rintro rfl; exact (EnvF.push_inst_eq (G := EnvF.init)).mpr rfl
  have hT : ∀ k, (EnvF.init.push (.inst [] [] ⟨[], []⟩)).T k = [] := by
    intro k
    by_cases hk : k = 0
    · subst hk; exact (EnvF.push_T_eq (G := EnvF.init))
    · exact EnvF.T_not_inst (fun h => hk ((hI k).mp h))
  refine ⟨by simpa using ok1, rfl, Nat.one_pos, rfl, fun _ => ⟨rfl, ?_⟩, by simp [Sess.init], ?_, ?_, ?_,
    fun _ => (hT 0).symm, ?_, ?_, fun hc => by cases hc⟩
  · show 1 ≤ (EnvF.init.push _).up 1
    exact EnvF.up_ge_self _ 1
  · intro o ho
    simp only [Sess.init, List.mem_singleton] at ho
    subst ho
    exact ⟨(hI 0).mpr rfl, by simp [EnvF.init, EnvF.push]⟩
  · intro _ k hk _
    exact ⟨⟨0, [], 0⟩, by simp [Sess.init], ((hI k).mp hk).symm⟩
  · intro o ho
    simp only [Sess.init, List.mem_singleton] at ho
    subst ho
    exact (hT 0).symm
  · intro _
    show (EnvF.init.push _).L 0 = _
    exact (EnvF.push_L_eq (G := EnvF.init))
  · intro _ k _ _ f hf
    rw [hT k] at hf; cases hf

/-- The states a session reaches, with the table numbers in use (`nextUsed`). -/
inductive Reachable : Sys → List Nat → Prop
  | init {y : Sys} : Sys.init = some y → Reachable y []
  | step {y y' : Sys} {U rm : List Nat} {o : Op} : Reachable y U → OpOK y.sess U o →
      y.step o = some (y', rm) → Reachable y' (nextUsed U y.sess o rm)

/-- One operation on a simulated state: the loop does not panic; what it removes; the simulation goes on. -/
theorem sim_sys_step {y : Sys} {G : EnvF} {U : List Nat} (h : Sim y G U) {o : Op} (hok : OpOK y.sess U o)
    (hen : (y.sess.op o).isSome) :
    ∃ y' rm G', y.step o = some (y', rm) ∧ Sim y' G' (nextUsed U y.sess o rm) ∧ SafeF G' y'.loop.next rm := by
  cases hop : y.sess.op o with
  | none => rw [hop] at hen; cases hen
  | some p =>
    obtain ⟨s', ms⟩ := p
    obtain ⟨l', rm, G', e1, hs, sf⟩ := sim_step h o hok s' ms hop
    exact ⟨⟨s', l', y.requests ++ rm⟩, rm, G', by simp [Sys.step, hop, e1], hs, sf⟩

theorem reachable_sim {y : Sys} {U : List Nat} (h : Reachable y U) : ∃ G, Sim y G U := by
  induction h with
  | init h0 =>
    obtain ⟨y0, G, e, hs, _⟩ := sim_init
    rw [e] at h0
    simp only [Option.some.injEq] at h0
    subst h0
    exact ⟨G, hs⟩
  | @step y y' U rm o _ hok hst ih =>
    obtain ⟨G, hs⟩ := ih
    have hen : (y.sess.op o).isSome := by
      cases hop : y.sess.op o with
      | none => simp [Sys.step, hop] at hst
      | some _ => rfl
    obtain ⟨y2, rm2, G', e, hs', _⟩ := sim_sys_step hs hok hen
    rw [e] at hst
    simp only [Option.some.injEq, Prod.mk.injEq] at hst
    obtain ⟨rfl, rfl⟩ := hst
    exact ⟨G', hs'⟩

/-- a held version object is protected by `SafeF` -/
theorem safe_objs {y : Sys} {G : EnvF} {U rm : List Nat} (h : Sim y G U) (sf : SafeF G y.loop.next rm) :
    ∀ f ∈ rm, ∀ v ∈ y.sess.objs, f ∉ v.files := by
  intro f hf v hv
  obtain ⟨h1, h2⟩ := h.objs v hv
  rw [h.files v hv]
  exact sf f hf v.id h1 (Or.inl h2)

/-- `processTasks` ran to completion: `next` is neither abandoned nor released -/
def Settled (S : State) : Prop := S.released.lookup S.next = none ∧ S.next ∉ S.abandoned

theorem run_settled {S S' : State} {ms : List Msg} {rm : List Nat} (h0 : Settled S)
    (h : run S ms = some (S', rm)) : Settled S' := by
  induction ms generalizing S rm with
  | nil =>
    simp only [run, Option.some.injEq, Prod.mk.injEq] at h
    rw [← h.1]; exact h0
  | cons m ms ih =>
    simp only [run] at h
    split at h
    · cases h
    · rename_i S1 rm1 h1
      split at h
      · cases h
      · rename_i S2 rm2 h2
        simp only [Option.some.injEq, Prod.mk.injEq] at h
        obtain ⟨rfl, _⟩ := h
        exact ih (step_settledF h1) h2

theorem reachable_settled {y : Sys} {U : List Nat} (h : Reachable y U) : Settled y.loop := by
  induction h with
  | init h0 =>
    simp only [Sys.init] at h0
    split at h0
    · rename_i l rm e
      simp only [Option.some.injEq] at h0
      rw [← h0]
      exact run_settled ⟨rfl, by simp [State.init]⟩ e
    · cases h0
  | @step y y' U rm o _ _ hst ih =>
    simp only [Sys.step] at hst
    split at hst
    · cases hst
    · split at hst
      · cases hst
      · rename_i l' rm' e
        simp only [Option.some.injEq, Prod.mk.injEq] at hst
        rw [← hst.1]
        exact run_settled ih e

/-- Quiescence at the session level: nobody holds a version other than the current one. -/
theorem quiescent_sess {y : Sys} {G : EnvF} {U : List Nat} (h : Sim y G U) (hs : Settled y.loop)
    (hc : y.sess.closed = false) (hq : ∀ o ∈ y.sess.objs, o.id = y.sess.cur) :
    G.dn ≤ y.loop.next ∧ (∀ f, f ∈ G.L G.dn → f ∈ y.loop.fileRef) ∧
      (∀ f, f ∈ y.loop.fileRef → f ∈ y.sess.lsm.nums) ∧
      (y.sess.manifest = true → ∀ f, f ∈ y.sess.lsm.nums → f ∈ y.loop.fileRef) := by
  obtain ⟨hdn, hcur⟩ := h.cur hc
  have hrel : ∀ k, k < G.dn → G.inst k → k ∈ G.rel := by
    intro k hk hik
    apply Classical.byContradiction
    intro hnr
    obtain ⟨o, ho, hoid⟩ := h.objs' hc k hik hnr
    have := hq o ho
    omega
  obtain ⟨h1, h2, h3⟩ := quiescentF h.ok.inv hs h.N_pos hcur hrel
  refine ⟨h1, h2, fun f hf => by rw [h.lsm hc, ← hdn]; exact h3 f hf, fun hm f hf => ?_⟩
  apply h2
  have hv := h.view hc
  rw [hm] at hv
  rw [hdn]; simp only [if_true] at hv
  rw [hv, ← h.lsm hc]; exact hf

end GoLevel.Session
