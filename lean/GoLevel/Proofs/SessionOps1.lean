import GoLevel.Proofs.SessionSim
/-! The operations that do not install a version: `create`, `pin`, the timer, a failed commit (C07). -/
namespace GoLevel.Session
open GoLevel GoLevel.RefLoop

/-- What one operation must establish. -/
def StepOK (y : Sys) (U : List Nat) (o : Op) : Prop :=
  ∀ s' ms, y.sess.op o = some (s', ms) →
    ∃ l' rm G', deliver y.loop ms = some (l', rm) ∧
      Sim ⟨s', l', y.requests ++ rm⟩ G' (nextUsed U y.sess o rm) ∧ SafeF G' l'.next rm

theorem nextUsed_nil {U : List Nat} {s : Sess} {o : Op} (h : newNums s o = []) : nextUsed U s o [] = U := by
  unfold nextUsed; rw [h, List.append_nil]
  apply List.filter_eq_self.mpr; intro a _; simp

theorem step_create {y : Sys} {G : EnvF} {U : List Nat} (h : Sim y G U)
    (hm : y.sess.closed = false → y.sess.manifest = false → G.L y.sess.cur = G.T y.sess.cur) :
    StepOK y U .create := by
  intro s' ms hop
  simp only [Sess.op] at hop
  split at hop
  · cases hop
  · simp only [Option.some.injEq, Prod.mk.injEq] at hop
    obtain ⟨rfl, rfl⟩ := hop
    refine ⟨y.loop, [], G, rfl, ?_, safeF_nil _ _⟩
    rw [nextUsed_nil rfl, List.append_nil]
    have := sim_pins h (fun o => o.pins) true (fun _ _ _ => Nat.le_refl _) (fun _ => rfl) (fun hc _ hmf => hm hc hmf)
    have e : (y.sess.objs.map fun o => ({ o with pins := o.pins } : VObj)) = y.sess.objs := by
      exact List.map_id' _
    rw [e] at this
    exact this

theorem step_pin {y : Sys} {G : EnvF} {U : List Nat} (h : Sim y G U) : StepOK y U .pin := by
  intro s' ms hop
  simp only [Sess.op] at hop
  split at hop
  · cases hop
  · simp only [Option.some.injEq, Prod.mk.injEq] at hop
    obtain ⟨rfl, rfl⟩ := hop
    refine ⟨y.loop, [], G, rfl, ?_, safeF_nil _ _⟩
    rw [nextUsed_nil rfl, List.append_nil]
    rename_i hcl
    have := sim_pins h (fun o => if o.id = y.sess.cur then o.pins + 1 else o.pins) y.sess.manifest
      (fun hc => absurd hc hcl) (fun hm => hm) (fun _ h1 h2 => by rw [h1] at h2; cases h2)
    have e : (y.sess.objs.map fun o =>
        ({ o with pins := if o.id = y.sess.cur then o.pins + 1 else o.pins } : VObj)) =
        y.sess.objs.map fun o => if o.id = y.sess.cur then { o with pins := o.pins + 1 } else o := by
      apply List.map_congr_left; intro o _
      by_cases hc : o.id = y.sess.cur <;> simp [hc]
    rw [e] at this
    exact this

theorem step_expire {y : Sys} {G : EnvF} {U : List Nat} (h : Sim y G U) (v : Nat) : StepOK y U (.expire v) := by
  intro s' ms hop
  simp only [Sess.op, Option.some.injEq, Prod.mk.injEq] at hop
  obtain ⟨rfl, rfl⟩ := hop
  obtain ⟨l', rm, e1, ok1, le1, sf1⟩ := single_chain h.ok (EnvStepF.expire G v)
  refine ⟨l', rm, G, e1, ⟨ok1, h.nt, h.ntpos, h.closing, h.cur, h.idsnd, h.objs, h.objs', h.files, h.lsm, h.view, ?_, h.clsobj⟩, sf1⟩
  intro hc
  have hcl : G.closing = false := by rw [h.closing]; exact hc
  have := used_step (new := []) (h.used hc) (G' := G) (nx' := l'.next) (fun k hik hal => Or.inl ⟨hik, by
    rcases hal with h1 | h1
    · exact Or.inl h1
    · exact Or.inr (Nat.le_trans (G.cb_mono le1) h1), rfl⟩) sf1 hcl
  exact this

theorem step_commitFail {y : Sys} {G : EnvF} {U : List Nat} (h : Sim y G U) (c : UCmp) (r : Edit) :
    StepOK y U (.commitFail c r) := by
  intro s' ms hop
  simp only [Sess.op] at hop
  split at hop
  · cases hop
  · rename_i hcl
    have hcl' : y.sess.closed = false := by simpa using hcl
    simp only [Option.some.injEq, Prod.mk.injEq] at hop
    obtain ⟨rfl, rfl⟩ := hop
    have hGc : G.closing = false := by rw [h.closing]; exact hcl'
    have hN : G.N = y.sess.nt := by have := h.nt; rw [hcl'] at this; simpa using this
    have hs : EnvStepF y.loop.next G (.abandon G.N) (G.push .failed) := EnvStepF.abandon G hGc h.N_pos
    rw [hN] at hs
    obtain ⟨l', rm, e1, ok1, le1, sf1⟩ := single_chain h.ok hs
    obtain ⟨hdn, hcur⟩ := h.cur hcl'
    have hdnN := h.ok.inv.wf.dn_lt h.N_pos
    have hni : ∀ k, (G.push .failed).inst k ↔ G.inst k := by
      intro k
      constructor
      · intro hk
        rcases EnvF.push_inst_cases hk with h1 | ⟨_, h2⟩
        · exact h1.2
        · cases h2
      · exact fun hk => (EnvF.push_inst_lt (EnvF.inst_lt hk)).mpr hk
    have hT : ∀ k, G.inst k → (G.push .failed).T k = G.T k := fun k hk => EnvF.push_T_lt (EnvF.inst_lt hk)
    refine ⟨l', rm, G.push .failed, e1, ⟨ok1, ?_, Nat.succ_pos _, h.closing, ?_, h.idsnd, ?_, ?_, ?_, ?_, ?_, ?_, fun hc => by rw [hcl'] at hc; cases hc⟩, sf1⟩
    · show (G.push .failed).N = (y.sess.nt + 1) + _
      rw [EnvF.push_N, h.nt]; simp only [hcl']; simp
    · intro _
      refine ⟨hdn, ?_⟩
      show (G.push .failed).N ≤ (G.push .failed).up (G.dn + 1)
      rw [EnvF.push_up (by omega), EnvF.push_N]
      have : ¬ G.up (G.dn + 1) < G.N := by omega
      simp [this, Slot.isInst]
    · intro o ho
      obtain ⟨h1, h2⟩ := h.objs o ho
      exact ⟨(hni _).mpr h1, h2⟩
    · intro hc k h1 h2
      exact h.objs' hc k ((hni k).mp h1) h2
    · intro o ho
      rw [h.files o ho]
      exact (hT _ (h.objs o ho).1).symm
    · intro hc
      show y.sess.lsm.nums = (G.push .failed).T y.sess.cur
      rw [h.lsm hc, EnvF.push_T_lt (by omega)]
    · intro hc
      show (G.push .failed).L y.sess.cur = if y.sess.manifest then (G.push .failed).T y.sess.cur else []
      rw [EnvF.push_L_lt (by omega), EnvF.push_T_lt (by omega)]; exact h.view hc
    · intro hc
      refine used_step (new := []) (h.used hc) (fun k hik hal => Or.inl ?_) sf1 (by rw [EnvF.push_closing]; exact hGc)
      have hik' := (hni k).mp hik
      refine ⟨hik', ?_, hT k hik'⟩
      rw [alive_pushF h.ok.inv h.N_pos] at hal
      rcases hal with h1 | h1
      · exact Or.inl h1
      · exact Or.inr (Nat.le_trans (G.cb_mono le1) h1)

end GoLevel.Session
