import GoLevel.Proofs.SessionOps3
/-! `session.close`: the closing version is referenced, the current version released without a delta (C07). -/
namespace GoLevel.Session
open GoLevel GoLevel.RefLoop

/-- the session after `setVersion(nil, closingVersion)` and `close(s.closeC)`, before the release of the old
current version is accounted for -/
def closedSess (s : Sess) : Sess :=
  { s with objs := s.objs ++ [⟨s.nt, [], 0⟩], cur := s.nt, lsm := ⟨[]⟩, closed := true }

def envClosing (G : EnvF) : EnvF := { G.push (.inst [] [] ⟨[], []⟩) with closing := true }

theorem sim_closing {y : Sys} {G : EnvF} {U : List Nat} (h : Sim y G U) (hc : y.sess.closed = false) :
    ∃ l1 rm1, run y.loop [.ref y.sess.nt []] = some (l1, rm1) ∧
      Sim ⟨closedSess y.sess, l1, y.requests ++ rm1⟩ (envClosing G) (U.filter (fun f => decide (f ∉ rm1))) ∧
      SafeF (envClosing G) l1.next rm1 := by
  have hGc : G.closing = false := by rw [h.closing]; exact hc
  have hN : G.N = y.sess.nt := by have := h.nt; rw [hc] at this; simpa using this
  obtain ⟨hdn, hcur⟩ := h.cur hc
  have hs : EnvStepF y.loop.next G (.ref G.N []) (envClosing G) := EnvStepF.refClose G hGc h.N_pos hcur
  rw [hN] at hs
  obtain ⟨l1, rm1, e1, ok1, le1, sf1⟩ := single_chain h.ok hs
  have hlt : ∀ o ∈ y.sess.objs, o.id < G.N := fun o ho => EnvF.inst_lt (h.objs o ho).1
  have hnr : G.N ∉ G.rel := fun hm => by have := EnvF.inst_lt (h.ok.inv.wf.rel _ hm).1; omega
  have hinst : ∀ k, (envClosing G).inst k ↔ (G.push (.inst [] [] ⟨[], []⟩)).inst k := fun k => Iff.rfl
  have hT : ∀ k, (envClosing G).T k = (G.push (.inst [] [] ⟨[], []⟩)).T k := fun k => rfl
  have nc : ∀ {P : Prop}, (closedSess y.sess).closed = false → P := fun hc' => by cases hc'
  refine ⟨l1, rm1, e1, ⟨ok1, ?_, h.ntpos, rfl, nc, ?_, ?_, nc, ?_, nc, nc, nc, ?_⟩, sf1⟩
  · show (G.push _).N = y.sess.nt + _
    rw [EnvF.push_N, hN]; rfl
  · show ((y.sess.objs ++ [(⟨y.sess.nt, [], 0⟩ : VObj)]).map VObj.id).Nodup
    rw [List.map_append, List.nodup_append]
    refine ⟨h.idsnd, by simp, ?_⟩
    intro a ha b hb
    obtain ⟨o, ho, rfl⟩ := List.mem_map.mp ha
    simp only [List.map_cons, List.map_nil, List.mem_singleton] at hb
    have := hlt o ho
    omega
  · intro o ho
    rcases List.mem_append.mp ho with ho | ho
    · obtain ⟨h1, h2⟩ := h.objs o ho
      exact ⟨(hinst _).mpr ((EnvF.push_inst_lt (hlt o ho)).mpr h1), h2⟩
    · simp only [List.mem_singleton] at ho
      subst ho
      refine ⟨(hinst _).mpr ?_, by rw [← hN]; exact hnr⟩
      rw [← hN]; exact EnvF.push_inst_eq.mpr rfl
  · intro o ho
    rcases List.mem_append.mp ho with ho | ho
    · rw [h.files o ho, hT, EnvF.push_T_lt (hlt o ho)]
    · simp only [List.mem_singleton] at ho
      subst ho
      rw [hT]
      show [] = (G.push _).T y.sess.nt
      rw [← hN, EnvF.push_T_eq]; rfl
  · intro _ o ho hid
    have hid' : o.id + 1 = G.N + 1 := by rw [hid]; show (G.push _).N = _; rw [EnvF.push_N]
    rcases List.mem_append.mp ho with ho | ho
    · have := hlt o ho; omega
    · simp only [List.mem_singleton] at ho
      subst ho; rfl

theorem step_close {y : Sys} {G : EnvF} {U : List Nat} (h : Sim y G U) : StepOK y U .close := by
  intro s' ms hop
  simp only [Sess.op] at hop
  split at hop
  · cases hop
  · rename_i hcl
    have hc : y.sess.closed = false := by simpa using hcl
    have hGc : G.closing = false := by rw [h.closing]; exact hc
    obtain ⟨hdn, hcur⟩ := h.cur hc
    obtain ⟨l1, rm1, e1, hs1, sf1⟩ := sim_closing h hc
    -- the old current version's object
    have hdi : G.inst G.dn := by rcases h.ok.inv.wf.dn with h1 | h1; have := h.N_pos; omega; exact h1
    have hdnr : G.dn ∉ G.rel := fun hm => by
      rcases (h.ok.inv.wf.rel _ hm).2 with h1 | ⟨h1, _⟩
      · omega
      · rw [hGc] at h1; cases h1
    obtain ⟨o, ho, hoid⟩ := h.objs' hc G.dn hdi hdnr
    have ho1 : o ∈ (closedSess y.sess).objs := List.mem_append_left _ ho
    let s1 : Sess := { y.sess with objs := y.sess.objs ++ [⟨y.sess.nt, [], 0⟩], cur := y.sess.nt, lsm := ⟨[]⟩ }
    have hobj : s1.obj y.sess.cur = some o := by
      rw [← hdn, ← hoid]
      exact obj_eq (s := s1) hs1.idsnd ho1
    have hsv : y.sess.setVersion none y.sess.nt ⟨[]⟩ =
        ((s1.drop y.sess.cur).1, [.ref y.sess.nt []] ++ [] ++ (s1.drop y.sess.cur).2) := rfl
    rw [hsv, drop_eq hobj] at hop
    have hne : ¬ (y.sess.cur = s1.cur ∧ ¬ s1.closed) := by
      intro hh
      have : y.sess.cur = y.sess.nt := hh.1
      have h1 := h.ok.inv.wf.dn_lt h.N_pos
      have h2 : G.N = y.sess.nt := by have := h.nt; rw [hc] at this; simpa using this
      omega
    simp only [hne, if_false, Nat.add_zero, Option.some.injEq, Prod.mk.injEq] at hop
    have hU : nextUsed U y.sess .close = fun rm => U.filter (fun f => decide (f ∉ rm)) := by
      funext rm; simp [nextUsed, newNums]
    by_cases hp : o.pins > 0
    · simp only [hp, if_true, List.append_nil] at hop
      obtain ⟨rfl, rfl⟩ := hop
      rw [hU]
      exact ⟨l1, rm1, _, e1, hs1, sf1⟩
    · simp only [hp, if_false] at hop
      obtain ⟨rfl, rfl⟩ := hop
      have hk : (envClosing G).closing = true ∧ o.id = (envClosing G).dn := ⟨rfl, hoid⟩
      obtain ⟨l2, rm2, e2, hs2, sf2⟩ := sim_release hs1 ho1 (Or.inr hk)
      rw [hoid, hdn] at e2 hs2 sf2
      rw [filter_filter_notin, List.append_assoc] at hs2
      rw [hU]
      refine ⟨l2, rm1 ++ rm2, _, run_append e1 e2, hs2, safeF_append ?_ sf2⟩
      -- what was safe when the closing version was referenced stays safe
      intro r hr k hik hn
      refine sf1 r hr k hik ?_
      rcases hn with h1 | ⟨h0, _⟩
      · exact Or.inl (fun h2 => h1 (List.mem_cons_of_mem _ h2))
      · cases h0

end GoLevel.Session
