import GoLevel.Proofs.ConcTr
/-!
# Consulting the sources in order (`DB.get`) equals the view of their union, for every reachable reader
-/
namespace GoLevel.Conc

variable {c : UCmp} {k : Bytes} {s : Nat}

theorem newest_leF (L : List Entry) : newest c L k s = newest c (leF s L) k s := by
  simp only [newest_eq_foldl]; exact fold_leF L none

theorem scView3 (A B V : List Entry) :
    scView c [A, B, V] k s =
      match newest c A k s with
      | some e => e.hit.toOption
      | none => match newest c B k s with
        | some e => e.hit.toOption
        | none => view c V k s := by
  simp only [scView, view]
  cases newest c A k s <;> cases newest c B k s <;> cases newest c V k s <;> rfl

theorem sc_eq_view_sub {H A B V : List Entry} (hU : Uniq H) (hA : ∀ e ∈ A, e ∈ H) (hB : ∀ e ∈ B, e ∈ H)
    (hV : ∀ e ∈ V, e ∈ H) (hord : ∀ a ∈ B, ∀ b ∈ A, a.seq < b.seq) (hint : Intact H (A ++ B) s) :
    scView c [A, B, V] k s = view c (A ++ B ++ V) k s := by
  have hL : ∀ e ∈ A ++ B ++ V, e ∈ H := by
    intro e he
    rcases List.mem_append.1 he with he | he
    · rcases List.mem_append.1 he with he | he
      · exact hA e he
      · exact hB e he
    · exact hV e he
  rw [scView3]
  cases hnA : newest c A k s with
  | some a =>
    have ba := newest_some_spec hnA
    have : newest c (A ++ B ++ V) k s = some a := by
      apply newest_of_best (hU.sub hL)
      refine ⟨List.mem_append_left _ (List.mem_append_left _ ba.1), ba.2.1, ?_⟩
      intro x hx hm
      rcases List.mem_append.1 hx with hx | hx
      · rcases List.mem_append.1 hx with hx | hx
        · exact ba.2.2 x hx hm
        · exact Nat.le_of_lt (num_lt_of_seq_lt (hord x hx a ba.1))
      · rcases hint x (hV x hx) hm.2 with h1 | h1
        · rcases List.mem_append.1 h1 with h1 | h1
          · exact ba.2.2 x h1 hm
          · exact Nat.le_of_lt (num_lt_of_seq_lt (hord x h1 a ba.1))
        · exact Nat.le_of_lt (num_lt_of_seq_lt (h1 a (List.mem_append_left _ ba.1)))
    simp only [view, this]
  | none =>
    have hnoA := (newest_none_iff A).1 hnA
    cases hnB : newest c B k s with
    | some b =>
      have bb := newest_some_spec hnB
      have : newest c (A ++ B ++ V) k s = some b := by
        apply newest_of_best (hU.sub hL)
        refine ⟨List.mem_append_left _ (List.mem_append_right _ bb.1), bb.2.1, ?_⟩
        intro x hx hm
        rcases List.mem_append.1 hx with hx | hx
        · rcases List.mem_append.1 hx with hx | hx
          · exact absurd hm (hnoA x hx)
          · exact bb.2.2 x hx hm
        · rcases hint x (hV x hx) hm.2 with h1 | h1
          · rcases List.mem_append.1 h1 with h1 | h1
            · exact absurd hm (hnoA x h1)
            · exact bb.2.2 x h1 hm
          · exact Nat.le_of_lt (num_lt_of_seq_lt (h1 b (List.mem_append_right _ bb.1)))
      simp only [view, this]
    | none =>
      have hnoB := (newest_none_iff B).1 hnB
      symm
      apply view_congr hU hL hV
      intro e hm
      simp only [List.mem_append]
      constructor
      · rintro ((h | h) | h)
        · exact absurd hm (hnoA e h)
        · exact absurd hm (hnoB e h)
        · exact h
      · exact Or.inr

/-- the same when only what is at or below `s` is known to be history -/
theorem sc_eq_view {H A B V : List Entry} (hU : Uniq H) (hA : ∀ e ∈ A, e ∈ H) (hB : ∀ e ∈ B, e ∈ H)
    (hV : ∀ e ∈ V, e.seq ≤ s → e ∈ H) (hord : ∀ a ∈ B, ∀ b ∈ A, a.seq < b.seq) (hint : Intact H (A ++ B) s) :
    scView c [A, B, V] k s = view c (A ++ B ++ V) k s := by
  have hmem : ∀ (L : List Entry) e, e ∈ leF s L ↔ e ∈ L ∧ e.seq ≤ s := by
    intro L e; simp [leF]
  have e1 : scView c [A, B, V] k s = scView c [leF s A, leF s B, leF s V] k s := by
    rw [scView3, scView3, newest_leF A, newest_leF B, view_leF V]
  have e2 : view c (A ++ B ++ V) k s = view c (leF s A ++ leF s B ++ leF s V) k s := by
    rw [view_leF, leF_append, leF_append]
  rw [e1, e2]
  apply sc_eq_view_sub hU
  · intro e he; exact hA e ((hmem A e).1 he).1
  · intro e he; exact hB e ((hmem B e).1 he).1
  · intro e he; exact hV e ((hmem V e).1 he).1 ((hmem V e).1 he).2
  · intro a ha b hb; exact hord a ((hmem B a).1 ha).1 b ((hmem A b).1 hb).1
  · intro h hh hle
    rcases hint h hh hle with h1 | h1
    · left
      rcases List.mem_append.1 h1 with h1 | h1
      · exact List.mem_append_left _ ((hmem A h).2 ⟨h1, hle⟩)
      · exact List.mem_append_right _ ((hmem B h).2 ⟨h1, hle⟩)
    · right
      intro x hx
      rcases List.mem_append.1 hx with hx | hx
      · exact h1 x (List.mem_append_left _ ((hmem A x).1 hx).1)
      · exact h1 x (List.mem_append_right _ ((hmem B x).1 hx).1)

/-- for a reachable reader the order of consultation does not matter -/
theorem reader_sc {σ : State} (hi : Inv c σ) (i : Nat) (r : Reader) (hr : σ.readers[i]? = some r)
    (s : Nat) (mf : Nat × Option Nat) (v : List Entry)
    (hs : r.seq? = some s) (hm : r.mems? = some mf) (hv : r.ver? = some v) (k : Bytes) :
    scView c [getBuf σ mf.1, optBuf σ mf.2, v] k s = view c (readSrc σ mf v) k s := by
  have ri := hi.readers i r hr
  have hb := hi.basic
  exact sc_eq_view (hb.uniq.sub (fun e he => List.mem_append_left _ he))
    (hb.bufSub mf.1) (hb.optBuf_hist mf.2) (ri.verHist s v hs hv) (ri.rorder mf hm) (ri.intact s mf hs hm)

end GoLevel.Conc
