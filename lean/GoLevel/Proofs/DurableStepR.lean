import GoLevel.Proofs.DurableStepJ14
/-!
Crash, process exit, and the steps of recovery (`recOpen`, `recStep`) preserve the invariant.
-/
namespace GoLevel.Dur

theorem inv_crash {cfg : Cfg} (hg : cfg.Good) {s : St} {d : Disk} (h : Inv cfg s d) (ch : CrashChoice) :
    Inv cfg (crashSt s) (crashWith ch d) := by
  constructor
  · apply (h.disk.crash hg.noTrace ch).mono
    · intro x hx
      rw [must_eq] at hx ⊢
      simp only [crashSt, List.append_nil] at hx
      exact List.mem_append_left _ (mem_ackedSync_downgrade hx)
    · intro x hx
      simp only [issuedGrps, crashSt, issuedGrps_downgrade] at hx ⊢
      exact hx
  · exact h.mm.crash hg.noTrace ⟨_, _, h.disk⟩ ch
  · intro hc; exact absurd rfl hc
  · intro hc; cases hc
  · intro hc; cases hc
  · intro _; exact ⟨rfl, rfl, rfl, rfl, rfl⟩
  · trivial

theorem inv_exit {cfg : Cfg} {s : St} {d : Disk} (h : Inv cfg s d) : Inv cfg (exitSt s) d := by
  constructor
  · apply h.disk.mono _ (fun _ hx => hx)
    intro x hx
    rw [must_eq] at hx ⊢
    simp only [exitSt, List.append_nil] at hx
    exact List.mem_append_left _ hx
  · exact h.mm
  · intro hc; exact absurd rfl hc
  · intro hc; cases hc
  · intro hc; cases hc
  · intro _; exact ⟨rfl, rfl, rfl, rfl, rfl⟩
  · trivial

/-- `recoverR` reads the last view -/
theorem recoverR_view {cfg : Cfg} {d : Disk} {r : RState} (h : recoverR cfg d = .ok r)
    (hc : ∃ mf, curManifest d = some mf) : lastView cfg d = some r.mv := by
  obtain ⟨mf, hmf⟩ := hc
  rw [lastView_eq hmf, viewAt_all]
  unfold curManifest at hmf
  unfold recoverR at h
  cases hcc : d.current with
  | none => rw [hcc] at hmf; simp at hmf
  | some m =>
    rw [hcc] at hmf h
    simp only [Option.bind_some] at hmf
    simp only [hmf] at h
    cases hv : (replayM cfg mf.all).view? with
    | none => rw [hv] at h; cases h
    | some v =>
      rw [hv] at h
      simp only at h
      cases ht : tableGroups d v.live with
      | error e => rw [ht] at h; cases h
      | ok tg =>
        rw [ht] at h
        simp only at h
        cases h
        rfl

theorem maxNum_ge (l : List Nat) : ∀ x ∈ l, x ≤ maxNum l := by
  unfold maxNum
  have : ∀ (l : List Nat) (a : Nat), a ≤ l.foldl max a ∧ ∀ x ∈ l, x ≤ l.foldl max a := by
    intro l
    induction l with
    | nil => intro a; exact ⟨Nat.le_refl _, fun x hx => by cases hx⟩
    | cons y ys ih =>
      intro a
      simp only [List.foldl_cons]
      obtain ⟨i1, i2⟩ := ih (max a y)
      refine ⟨Nat.le_trans (Nat.le_max_left _ _) i1, fun x hx => ?_⟩
      rcases List.mem_cons.1 hx with rfl | hx'
      · exact Nat.le_trans (Nat.le_max_right _ _) i1
      · exact i2 x hx'
  exact (this l 0).2


theorem mem_journalsFrom {d : Disk} (hs : d.journals.Pairwise (fun p q => p.1 < q.1)) {jn n : Nat} :
    n ∈ journalsFrom d jn ↔ ∃ p ∈ d.journals, p.1 = n ∧ jn ≤ n := by
  rw [journalsFrom_eq hs]
  simp only [List.mem_map, mem_relJournals]
  constructor
  · rintro ⟨p, ⟨hp, hge⟩, rfl⟩; exact ⟨p, hp, rfl, hge⟩
  · rintro ⟨p, hp, rfl, hge⟩; exact ⟨p, ⟨hp, hge⟩, rfl⟩

theorem inv_recOpen {cfg : Cfg} {s : St} {d : Disk} (h : Inv cfg s d) {s' : St}
    (hs : recOpen cfg s d = some s') : Inv cfg s' d := by
  unfold recOpen at hs
  split at hs
  · rename_i hph
    obtain ⟨hjob, hw, hfz, htr⟩ := h.crashed hph
    obtain ⟨mf, v0, v, hparts, hlv, hvl, hvok, hmono⟩ := h.disk.last
    have hcur := hparts.cur
    split at hs
    · cases hs
    · rename_i r hr
      simp only [Option.some.injEq] at hs
      subst hs
      have hrv : r.mv = v := by
        have := recoverR_view hr ⟨mf, hcur⟩
        rw [hlv] at this
        exact (Option.some.inj this).symm
      have hsorted := h.disk.jsorted
      have hcm := hcur
      unfold curManifest at hcm
      cases hc : d.current with
      | none => rw [hc] at hcm; simp at hcm
      | some m =>
        have hmg := h.mm.get hcur hc (Nat.le_refl _) hvl
        -- the new next-file number dominates everything
        have hjs : ∀ n ∈ journalsFrom d r.mv.jn,
            n < max r.mv.nf (if (journalsFrom d r.mv.jn).isEmpty then 0 else maxNum (journalsFrom d r.mv.jn) + 1) := by
          intro n hn
          have hne : (journalsFrom d r.mv.jn).isEmpty = false := by
            cases hh : journalsFrom d r.mv.jn with
            | nil => rw [hh] at hn; cases hn
            | cons a b => rfl
          rw [hne]
          simp only [Bool.false_eq_true, if_false]
          have := maxNum_ge _ n hn
          omega
        have hnf : r.mv.nf ≤
            max r.mv.nf (if (journalsFrom d r.mv.jn).isEmpty then 0 else maxNum (journalsFrom d r.mv.jn) + 1) :=
          Nat.le_max_left _ _
        constructor
        · apply h.disk.mono _ (fun _ hx => hx)
          intro x hx
          rw [must_eq] at hx ⊢
          exact hx
        · exact h.mm
        · intro _
          unfold ViewBounds
          rw [hcur]
          simp only [Holds]
          intro k hk
          obtain ⟨vk, hvk, _, _⟩ := hparts.views k hk
          rw [hvk]
          have := hmg.2 k hk vk hvk
          refine ⟨(by
            rw [seqHi_eq (not_trWindow_of_nojob (by exact hjob))]
            show vk.sq ≤ r.mv.sq; rw [hrv]; exact this.1), ?_, (fun hr' => by cases hr')⟩
          show vk.nf ≤ max r.mv.nf _
          rw [hrv] at hnf ⊢
          exact Nat.le_trans this.2 hnf
        · intro hr'; cases hr'
        · intro _
          show Holds (some _) _
          simp only [Holds]
          refine ⟨?_, ⟨hw, hfz, htr⟩, ?_, (fun o ho => by cases ho), ⟨?_, ?_, hjs⟩, ?_, rfl, fun _ => ?_, ?_,
            (fun o ho => by cases ho)⟩
          · exact MfdOK.nojob hjob hc.symm
          · rw [journalsFrom_eq hsorted, List.pairwise_map]
            exact hsorted.filter _
          · intro p hp
            by_cases hge : r.mv.jn ≤ p.1
            · exact hjs p.1 ((mem_journalsFrom hsorted).2 ⟨p, hp, rfl, hge⟩)
            · have := hvok.jnf
              rw [hrv] at hge hnf
              show p.1 < max r.mv.nf _
              rw [hrv]
              omega
          · rw [hc]
            show m < max r.mv.nf _
            rw [hrv] at hnf ⊢
            exact Nat.lt_of_lt_of_le hmg.1 hnf
          · intro p hp hpt g hg
            obtain ⟨q, _, hq1, hge⟩ := (mem_journalsFrom hsorted).1 hpt
            rw [hrv] at hge
            rcases (hvok.jseq p (mem_relJournals.2 ⟨hp, hge⟩) g hg).1 with h1 | h1
            · left
              show r.mv.sq ≤ g.seq
              rw [hrv]
              exact h1
            · right
              intro hx
              apply h1
              rw [must_eq] at hx ⊢
              exact hx
          · unfold Settled
            rw [hcur]
            simp only [Holds]
            refine ⟨(fun hx => by cases hx), ?_⟩
            rw [hlv]
            refine ⟨⟨?_, ?_, ?_⟩, (fun o ho => by cases ho)⟩
            · show v.live = r.mv.live; rw [hrv]
            · show v.jn = r.mv.jn; rw [hrv]
            · show v.sq = r.mv.sq; rw [hrv]
          · rw [hlv]
            simp only [Holds]
            refine ⟨fun p hp hge => Or.inl ?_, fun n hn => ?_⟩
            · show p.1 ∈ journalsFrom d r.mv.jn
              rw [hrv]
              exact (mem_journalsFrom hsorted).2 ⟨p, hp, rfl, hge⟩
            · have hn' : n ∈ journalsFrom d r.mv.jn := hn
              rw [hrv] at hn'
              exact ((mem_journalsFrom hsorted).1 hn').choose_spec.2.2
        · intro hr'; cases hr'
        · show Holds' s.job _
          rw [hjob]; trivial
  · cases hs

end GoLevel.Dur
