import GoLevel.Proofs.DurableBytesFile
import GoLevel.Proofs.DurableFiles
/-!
The whole byte-level disk: a crash image of the encoded disk decodes to (the physical part of) a record-level
crash image, and the record-level recovery does not look at ghost state.
-/
namespace GoLevel.Dur
open GoLevel GoLevel.Manifest

/-! ## files -/

theorem lookup_map_snd' {α β : Type} (m : Files α) (g : Nat → α → β) (n : Nat) :
    lookup (m.map fun p => (p.1, g p.1 p.2)) n = (lookup m n).map (g n) := by
  induction m with
  | nil => rfl
  | cons p m ih =>
    simp only [List.map_cons, lookup_cons]
    by_cases h : p.1 = n
    · subst h; simp
    · simp [h, ih]

theorem nums_map_snd {α β : Type} (m : Files α) (g : Nat → α → β) :
    Files.nums (m.map fun p => (p.1, g p.1 p.2)) = m.nums := by
  simp [Files.nums, List.map_map, Function.comp_def]

/-- per-file existential choices, keyed by file number, glued into one choice function -/
theorem map_choice {α β : Type} (l : Files α) (hn : l.Pairwise (fun p q => p.1 ≠ q.1)) (F : Nat → α → β)
    (G : Nat → Nat → α → β) (h : ∀ p ∈ l, ∃ j, F p.1 p.2 = G j p.1 p.2) :
    ∃ c : Nat → Nat, l.map (fun p => (p.1, F p.1 p.2)) = l.map (fun p => (p.1, G (c p.1) p.1 p.2)) := by
  induction l with
  | nil => exact ⟨fun _ => 0, rfl⟩
  | cons p l ih =>
    obtain ⟨hp, hl⟩ := List.pairwise_cons.1 hn
    obtain ⟨c, hc⟩ := ih hl fun q hq => h q (List.mem_cons_of_mem _ hq)
    obtain ⟨j, hj⟩ := h p List.mem_cons_self
    refine ⟨fun n => if n = p.1 then j else c n, ?_⟩
    simp only [List.map_cons, if_true, hj, List.cons.injEq, true_and]
    rw [hc]
    apply List.map_congr_left
    intro q hq
    have : q.1 ≠ p.1 := fun e => hp q hq e.symm
    simp [this]

/-! ## the simulation -/

theorem crashManifest_false (k : Nat) (f : LogFile MRec) : crashManifest k false f = crashLog k f := by
  unfold crashManifest; rfl

/-- **(b) Simulation.**  Every byte-level crash image of the encoded disk — per file: synced bytes kept, any number
    of bytes of the unsynced tail, silent junk — decodes, with the real readers, to the physical part of a
    record-level crash image of the disk (`crashWith`; a record that was cut is lost). -/
theorem crash_image_decodes_aux (x : EncCtx) (hx : x.Valid) (d : Disk) (hd : d.Encodable)
    (hm : d.manifests.Pairwise (fun p q => p.1 ≠ q.1)) (hj : d.journals.Pairwise (fun p q => p.1 ≠ q.1))
    (ch : ByteCrashChoice) (ha : ch.Admissible (encodeDisk x d)) :
    ∃ ch' : CrashChoice, (∀ n, ch'.tornM n = false) ∧ ch'.keepT = ch.keepT ∧
      decodeDisk (crashWithB ch (encodeDisk x d)) = (crashWith ch' d).onDisk := by
  obtain ⟨cM, hcM⟩ := map_choice d.manifests hm
    (fun n f => (⟨decManifest (crashFile (ch.cutM n) (ch.junkM n) (encManifest x f)).all, []⟩ : LogFile MRec))
    (fun j _ f => ⟨(crashLog j f).all.filter (fun r => !r.torn), []⟩) (by
      intro p hp
      obtain ⟨j, e⟩ := decManifest_image x hx p.2 (hd.1 p hp) (ch.cutM p.1) (ch.junkM p.1)
        (ha.1 (p.1, encManifest x p.2) (List.mem_map.2 ⟨p, hp, rfl⟩))
      exact ⟨j, by rw [e]⟩)
  obtain ⟨cJ, hcJ⟩ := map_choice d.journals hj
    (fun n f => (⟨decJournal (crashFile (ch.cutJ n) (ch.junkJ n) (encJournal f)).all, []⟩ : LogFile Grp))
    (fun j _ f => ⟨(crashLog j f).all.map Grp.onDisk, []⟩) (by
      intro p hp
      exact ⟨_, by rw [decJournal_image p.2 (hd.2 p hp) (ch.cutJ p.1) (ch.junkJ p.1)
        (ha.2 (p.1, encJournal p.2) (List.mem_map.2 ⟨p, hp, rfl⟩))]⟩)
  refine ⟨{ cutM := cM, cutJ := cJ, tornM := fun _ => false, keepT := ch.keepT }, fun _ => rfl, rfl, ?_⟩
  simp only [decodeDisk, crashWithB, encodeDisk, Disk.onDisk, crashWith, List.map_map, Function.comp_def,
    crashManifest_false]
  rw [hcM, hcJ]

/-- **(a) No crash.**  The readers get back what the writers wrote. -/
theorem decode_encodeDisk (x : EncCtx) (hx : x.Valid) (d : Disk) (hd : d.Encodable) :
    decodeDisk (encodeDisk x d) = d.onDisk := by
  simp only [decodeDisk, encodeDisk, Disk.onDisk, List.map_map, Function.comp_def]
  congr 1
  · apply List.map_congr_left
    intro p hp
    rw [decManifest_whole x hx p.2 (hd.1 p hp)]
  · apply List.map_congr_left
    intro p hp
    rw [decJournal_whole p.2 (hd.2 p hp)]

/-! ## the checks of `session.recover` beyond the records pass -/

theorem manifestCheck_image (x : EncCtx) (hx : x.Valid) (d : Disk) (hd : d.Encodable)
    (ch : ByteCrashChoice) (ha : ch.Admissible (encodeDisk x d)) :
    ((crashWithB ch (encodeDisk x d)).current.bind (lookup (crashWithB ch (encodeDisk x d)).manifests)).bind
      (fun f => manifestCheck x.cmpName f.all) = none := by
  simp only [crashWithB, encodeDisk, List.map_map, Function.comp_def]
  cases d.current with
  | none => rfl
  | some m =>
    simp only [Option.bind_some]
    rw [lookup_map_snd' d.manifests (fun n f => crashFile (ch.cutM n) (ch.junkM n) (encManifest x f)) m]
    cases hl : lookup d.manifests m with
    | none => rfl
    | some f =>
      have hmem := lookup_some_mem hl
      simp only [Option.map_some, Option.bind_some]
      obtain ⟨j, hj⟩ := crash_manifest_records x f (ch.cutM m) (ch.junkM m)
        (ha.1 (m, encManifest x f) (List.mem_map.2 ⟨(m, f), hmem, rfl⟩))
      refine manifestCheck_ok x hx _ ?_ _ hj
      intro r hr
      simp only [List.mem_filter, Bool.not_eq_eq_eq_not, Bool.not_true] at hr
      exact hd.1 (m, f) hmem r (mem_crashLog_all hr.1) hr.2

theorem manifestCheck_whole (x : EncCtx) (hx : x.Valid) (d : Disk) (hd : d.Encodable) :
    ((encodeDisk x d).current.bind (lookup (encodeDisk x d).manifests)).bind
      (fun f => manifestCheck x.cmpName f.all) = none := by
  simp only [encodeDisk]
  cases d.current with
  | none => rfl
  | some m =>
    simp only [Option.bind_some]
    rw [lookup_map_snd' d.manifests (fun _ f => encManifest x f) m]
    cases hl : lookup d.manifests m with
    | none => rfl
    | some f =>
      have hmem := lookup_some_mem hl
      simp only [Option.map_some, Option.bind_some]
      refine manifestCheck_ok x hx (f.all.filter fun r => !r.torn) ?_ _ ?_
      · intro r hr
        simp only [List.mem_filter, Bool.not_eq_eq_eq_not, Bool.not_true] at hr
        exact hd.1 (m, f) hmem r hr.1 hr.2
      · unfold encManifest
        rw [whole_file_records, ← List.map_append, ← List.filter_append]
        rfl

/-! ## `recoverR` does not look at ghost state -/

theorem replayM_filter (cfg : Cfg) (h : cfg.failedRecordLeavesNoTrace = true) (l : List MRec) (a : MAcc) :
    (l.filter fun r => !r.torn).foldl (MAcc.step cfg) a = l.foldl (MAcc.step cfg) a := by
  induction l generalizing a with
  | nil => rfl
  | cons r l ih =>
    by_cases ht : r.torn = true
    · have : MAcc.step cfg a r = a := by simp [MAcc.step, ht, h]
      simp [ht, this, ih]
    · simp [ht, ih]

theorem Grp.onDisk_fin (g : Grp) : g.onDisk.fin = g.fin := rfl
theorem Grp.onDisk_seq (g : Grp) : g.onDisk.seq = g.seq := rfl
theorem Grp.onDisk_ents (g : Grp) : g.onDisk.ents = g.ents := rfl

theorem replayJ_onDisk (seq : Nat) (gs : List Grp) :
    replayJ seq (gs.map Grp.onDisk) = ((replayJ seq gs).1.map Grp.onDisk, (replayJ seq gs).2) := by
  induction gs generalizing seq with
  | nil => rfl
  | cons g gs ih =>
    simp only [List.map_cons, replayJ, Grp.onDisk_seq, Grp.onDisk_fin]
    by_cases hlt : g.seq < seq
    · simp [hlt, ih]
    · simp [hlt, ih]

theorem journalRecs_onDisk (d : Disk) (nums : List Nat) :
    journalRecs d.onDisk nums = (journalRecs d nums).map Grp.onDisk := by
  unfold journalRecs
  rw [List.map_flatMap]
  congr 1
  funext n
  simp only [Disk.onDisk]
  rw [lookup_map_snd' d.journals (fun _ f => (⟨f.all.map Grp.onDisk, []⟩ : LogFile Grp)) n]
  cases lookup d.journals n <;> simp [LogFile.all]

theorem tableGroups_onDisk (d : Disk) (l : List Nat) : tableGroups d.onDisk l = tableGroups d l := by
  induction l with
  | nil => rfl
  | cons n l ih =>
    simp only [tableGroups, ih]
    rfl

theorem journalsFrom_onDisk (d : Disk) (jn : Nat) : journalsFrom d.onDisk jn = journalsFrom d jn := by
  unfold journalsFrom
  simp only [Disk.onDisk]
  rw [nums_map_snd d.journals (fun _ f => (⟨f.all.map Grp.onDisk, []⟩ : LogFile Grp))]

/-- The record-level `Open` on the physical part of a disk gives the same result up to the ghost flags of the
    groups replayed from journals (with the repair of D22: a torn manifest record leaves no trace). -/
theorem recoverR_onDisk (cfg : Cfg) (h : cfg.failedRecordLeavesNoTrace = true) (d : Disk) :
    recoverR cfg d.onDisk = (recoverR cfg d).map RState.onDisk := by
  unfold recoverR
  simp only [journalsFrom_onDisk, journalRecs_onDisk, tableGroups_onDisk, replayJ_onDisk]
  have e1 : d.onDisk.current = d.current := rfl
  have e2 : d.onDisk.manifests.isEmpty = d.manifests.isEmpty := by simp [Disk.onDisk]
  have e3 : d.onDisk.journals.isEmpty = d.journals.isEmpty := by simp [Disk.onDisk]
  have e4 : d.onDisk.tables = d.tables := rfl
  have e5 : ∀ m, lookup d.onDisk.manifests m =
      (lookup d.manifests m).map fun f => (⟨f.all.filter (fun r => !r.torn), []⟩ : LogFile MRec) := fun m =>
    lookup_map_snd' d.manifests (fun _ f => (⟨f.all.filter (fun r => !r.torn), []⟩ : LogFile MRec)) m
  rw [e1, e2, e3, e4]
  cases d.current with
  | none => simp only; split <;> split <;> rfl
  | some m =>
    simp only [e5]
    cases lookup d.manifests m with
    | none => simp only [Option.map_none]; split <;> rfl
    | some mf =>
      simp only [Option.map_some]
      have : replayM cfg (LogFile.all ⟨mf.all.filter (fun r => !r.torn), []⟩) = replayM cfg mf.all := by
        simp only [LogFile.all, List.append_nil, replayM]
        exact replayM_filter cfg h _ _
      rw [this]
      cases (replayM cfg mf.all).view? with
      | none => rfl
      | some v =>
        simp only
        cases tableGroups d v.live with
        | error e => rfl
        | ok tg => rfl

theorem RState.onDisk_entries (r : RState) : r.onDisk.entries = r.entries := by
  simp [RState.entries, RState.grps, RState.onDisk, List.flatMap_append, List.flatMap_map, Grp.onDisk_ents]

theorem RState.onDisk_seq (r : RState) : r.onDisk.seq = r.seq := rfl

theorem RState.onDisk_get (c : UCmp) (r : RState) (k : Bytes) : r.onDisk.get c k = r.get c k := by
  simp [RState.get, RState.onDisk_entries, RState.onDisk_seq]

/-! ## tables handed over as entry lists -/

/-- the one-record group of a table entry holds exactly that entry -/
theorem grpOfEntry_ents (e : Entry) : (grpOfEntry e).ents = [e] := by
  obtain ⟨⟨uk, num⟩, v⟩ := e
  simp only [grpOfEntry, Grp.ents, Batch.entries, Batch.entriesFrom, Batch.entryOf, mkIKey, Entry.seq, Entry.kind,
    Entry.ukey, IKey.seq, IKey.kind, Nat.add_zero, List.cons.injEq, and_true, Entry.mk.injEq, IKey.mk.injEq,
    true_and]
  omega

/-- … so a table of the image contributes its entries, in order -/
theorem tableOfEntries_ents (es : List Entry) : (es.map grpOfEntry).flatMap Grp.ents = es := by
  induction es with
  | nil => rfl
  | cons e es ih => simp [grpOfEntry_ents, ih]

end GoLevel.Dur
