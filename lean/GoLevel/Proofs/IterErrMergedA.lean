import GoLevel.Proofs.IterErrBasic
/-!
# `EMerged`: a call that leaves `Error()` nil did what the error-free `MergedIter` does (C02 / C08)

Stage A of the error-path proofs: for ANY children and either value of `strict`,
`EMerged.step_base`: if `Error()` is nil before and after a call, the state after it is the error-free
`MergedIter` step over the same children (seen through `cur`, which a failed child masks).  Also: what the
early-return loop `moveLoop` does (`moveLoop_none`, `moveLoop_some`).  Core Lean only.
-/
namespace GoLevel
namespace EMerged
variable {σ : Type}
open MergedIter (keyAt keyOf)

/-- the children after a loop that was not left early: every one moved by `g` (or skipped) -/
def applyFrom (g : Nat → σ → Option σ) : Nat → List σ → List σ
  | _, [] => []
  | x, s :: rest => (g x s).getD s :: applyFrom g (x + 1) rest

theorem applyFrom_map (f : σ → σ) (x : Nat) (ss : List σ) :
    applyFrom (fun _ s => some (f s)) x ss = ss.map f := by
  induction ss generalizing x with
  | nil => rfl
  | cons s rest ih => simp [applyFrom, ih]

theorem applyFrom_mapIdx (g : Nat → σ → Option σ) (x : Nat) (ss : List σ) :
    applyFrom g x ss = ss.mapIdx fun i s => (g (x + i) s).getD s := by
  induction ss generalizing x with
  | nil => rfl
  | cons s rest ih =>
    rw [applyFrom, List.mapIdx_cons, ih]
    simp only [Nat.add_zero, List.cons.injEq, true_and]
    congr 1
    funext i s
    rw [Nat.add_assoc, Nat.add_comm 1 i]

theorem applyFrom_length (g : Nat → σ → Option σ) (x : Nat) (ss : List σ) :
    (applyFrom g x ss).length = ss.length := by
  rw [applyFrom_mapIdx, List.length_mapIdx]

/-- the moved children of a loop (for statements about each of them) -/
def movedBy (g : Nat → σ → Option σ) (x : Nat) (ss : List σ) (s' : σ) : Prop :=
  ∃ i s, ss[i]? = some s ∧ g (x + i) s = some s'

theorem movedBy_cons_head {g : Nat → σ → Option σ} {x : Nat} {s : σ} {rest : List σ} {s' : σ}
    (h : g x s = some s') : movedBy g x (s :: rest) s' := ⟨0, s, rfl, h⟩

theorem movedBy_cons_tail {g : Nat → σ → Option σ} {x : Nat} {s : σ} {rest : List σ} {s' : σ}
    (h : movedBy g (x + 1) rest s') : movedBy g x (s :: rest) s' := by
  obtain ⟨i, s0, h1, h2⟩ := h
  refine ⟨i + 1, s0, by simpa using h1, ?_⟩
  rw [← h2]; congr 1; omega

/-- a loop that was not left early moved every child; every failed child it met was a corrupted one in
non-strict mode, reported to `errf` -/
theorem moveLoop_none (o : EIterOps σ) (strict : Bool) (g : Nat → σ → Option σ) (x : Nat) (ss : List σ)
    (h : (moveLoop o strict g x ss).2.2 = none) :
    (moveLoop o strict g x ss).1 = applyFrom g x ss ∧
    (∀ s', movedBy g x ss s' → ∀ e, o.ok s' = false → o.err s' = some e →
      strict = false ∧ e.isCorrupted = true) ∧
    (strict = true → (moveLoop o strict g x ss).2.1 = []) := by
  induction ss generalizing x with
  | nil => exact ⟨rfl, fun s' ⟨i, s, h1, _⟩ => by simp at h1, fun _ => rfl⟩
  | cons s rest ih =>
    unfold moveLoop at h ⊢
    simp only at h ⊢
    cases hg : g x s with
    | none =>
      simp only [hg] at h ⊢
      obtain ⟨h1, h2, h3⟩ := ih (x + 1) h
      refine ⟨by simp [applyFrom, hg, h1], ?_, h3⟩
      rintro s' ⟨i, s0, hi, hgi⟩ e hok he
      cases i with
      | zero => simp only [List.getElem?_cons_zero, Option.some.injEq] at hi; subst hi; simp [hg] at hgi
      | succ i =>
        refine h2 s' ⟨i, s0, by simpa using hi, ?_⟩ e hok he
        rw [← hgi]; congr 1; omega
    | some s1 =>
      simp only [hg] at h ⊢
      have tail : ∀ (hr : (moveLoop o strict g (x + 1) rest).2.2 = none) (hhead : ∀ e, o.ok s1 = false →
          o.err s1 = some e → strict = false ∧ e.isCorrupted = true),
          (s1 :: (moveLoop o strict g (x + 1) rest).1 = applyFrom g x (s :: rest)) ∧
          (∀ s', movedBy g x (s :: rest) s' → ∀ e, o.ok s' = false → o.err s' = some e →
            strict = false ∧ e.isCorrupted = true) := by
        intro hr hhead
        obtain ⟨h1, h2, _⟩ := ih (x + 1) hr
        refine ⟨by simp [applyFrom, hg, h1], ?_⟩
        rintro s' ⟨i, s0, hi, hgi⟩ e hok he
        cases i with
        | zero =>
          simp only [List.getElem?_cons_zero, Option.some.injEq] at hi; subst hi
          simp only [Nat.add_zero, hg, Option.some.injEq] at hgi; subst hgi
          exact hhead e hok he
        | succ i =>
          refine h2 s' ⟨i, s0, by simpa using hi, ?_⟩ e hok he
          rw [← hgi]; congr 1; omega
      by_cases hok : o.ok s1 = true
      · simp only [hok, if_true] at h ⊢
        obtain ⟨t1, t2⟩ := tail h (fun e h0 _ => by rw [hok] at h0; cases h0)
        exact ⟨t1, t2, (ih (x + 1) h).2.2⟩
      · simp only [hok, Bool.false_eq_true, if_false] at h ⊢
        cases he : o.err s1 with
        | none =>
          simp only [he] at h ⊢
          obtain ⟨t1, t2⟩ := tail h (fun e _ h0 => by rw [he] at h0; cases h0)
          exact ⟨t1, t2, (ih (x + 1) h).2.2⟩
        | some e =>
          simp only [he] at h ⊢
          by_cases hs : (strict || !e.isCorrupted) = true
          · simp [hs] at h
          · simp only [hs, Bool.false_eq_true, if_false] at h ⊢
            have hs' : strict = false ∧ e.isCorrupted = true := by
              cases strict <;> cases hc : e.isCorrupted <;> simp_all
            obtain ⟨t1, t2⟩ := tail h (fun e' _ h0 => by rw [he] at h0; cases h0; exact hs')
            refine ⟨t1, t2, fun h0 => ?_⟩
            rw [hs'.1] at h0; cases h0

/-- a loop that was left early met a child that failed with that error, which is fatal in this mode -/
theorem moveLoop_some (o : EIterOps σ) (strict : Bool) (g : Nat → σ → Option σ) (x : Nat) (ss : List σ)
    (e : Err) (h : (moveLoop o strict g x ss).2.2 = some e) :
    (∃ s', movedBy g x ss s' ∧ o.err s' = some e) ∧ (strict = true ∨ e.isCorrupted = false) := by
  induction ss generalizing x with
  | nil => simp [moveLoop] at h
  | cons s rest ih =>
    unfold moveLoop at h
    simp only at h
    have tl : (moveLoop o strict g (x + 1) rest).2.2 = some e →
        (∃ s', movedBy g x (s :: rest) s' ∧ o.err s' = some e) ∧ (strict = true ∨ e.isCorrupted = false) := by
      intro hr
      obtain ⟨⟨s', hm, he⟩, h2⟩ := ih (x + 1) hr
      exact ⟨⟨s', movedBy_cons_tail hm, he⟩, h2⟩
    cases hg : g x s with
    | none => simp only [hg] at h; exact tl h
    | some s1 =>
      simp only [hg] at h
      by_cases hok : o.ok s1 = true
      · simp only [hok, if_true] at h; exact tl h
      · simp only [hok, Bool.false_eq_true, if_false] at h
        cases he : o.err s1 with
        | none => simp only [he] at h; exact tl h
        | some e1 =>
          simp only [he] at h
          by_cases hs : (strict || !e1.isCorrupted) = true
          · simp only [hs, if_true, Option.some.injEq] at h
            subst h
            refine ⟨⟨s1, movedBy_cons_head hg, he⟩, ?_⟩
            cases strict <;> cases hc : e1.isCorrupted <;> simp_all
          · simp only [hs, Bool.false_eq_true, if_false] at h; exact tl h

/-! ### stage A for the pieces -/

theorem resetAllE_strict (o : EIterOps σ) (rev : Bool) (f : σ → σ) (m : EMerged σ) :
    (resetAllE o rev f m).strict = m.strict := by
  unfold resetAllE; simp only; split <;> rfl

theorem resetAllE_base (o : EIterOps σ) (rev : Bool) (f : σ → σ) (m : EMerged σ) (hm : m.err = none)
    (h : (resetAllE o rev f m).err = none) :
    (resetAllE o rev f m).base = MergedIter.resetAll o.toIterOps rev f m.base ∧
    (moveLoop o m.strict (fun _ s => some (f s)) 0 m.base.iters).2.2 = none := by
  unfold resetAllE at h ⊢
  simp only at h ⊢
  cases hr : (moveLoop o m.strict (fun _ s => some (f s)) 0 m.base.iters).2.2 with
  | some e => simp [hr] at h
  | none =>
    simp only [hr]
    obtain ⟨h1, _, _⟩ := moveLoop_none o m.strict _ 0 m.base.iters hr
    rw [h1, applyFrom_map]
    exact ⟨rfl, trivial⟩

theorem stepIndexE_strict (o : EIterOps σ) (f : σ → σ) (m : EMerged σ) :
    (stepIndexE o f m).strict = m.strict := by
  unfold stepIndexE; simp only
  split
  · rfl
  · split
    · rfl
    · split
      · rfl
      · split <;> rfl

/-- the child moved by the tail of `Next`/`Prev` -/
def movedIndex (f : σ → σ) (m : EMerged σ) (s' : σ) : Prop := ∃ s, m.base.iters[m.base.index]? = some s ∧ s' = f s

theorem stepIndexE_base (o : EIterOps σ) (f : σ → σ) (m : EMerged σ) (hm : m.err = none)
    (h : (stepIndexE o f m).err = none) :
    (stepIndexE o f m).base = MergedIter.stepIndex o.toIterOps f m.base ∧
    (∀ s', movedIndex f m s' → ∀ e, o.ok s' = false → o.err s' = some e →
      m.strict = false ∧ e.isCorrupted = true) := by
  unfold stepIndexE at h ⊢
  simp only at h ⊢
  cases hs : m.base.iters[m.base.index]? with
  | none =>
    simp only [hs] at h ⊢
    refine ⟨by simp [MergedIter.stepIndex, hs], ?_⟩
    rintro s' ⟨s, h1, _⟩; rw [hs] at h1; cases h1
  | some s =>
    simp only [hs] at h ⊢
    by_cases hok : o.ok (f s) = true
    · simp only [hok, if_true] at h ⊢
      refine ⟨by first | rfl | trivial, ?_⟩
      rintro s' ⟨s0, h1, rfl⟩ e h0 _
      rw [hs] at h1; cases h1; rw [hok] at h0; cases h0
    · simp only [hok, Bool.false_eq_true, if_false] at h ⊢
      cases he : o.err (f s) with
      | none =>
        simp only [he] at h ⊢
        refine ⟨by first | rfl | trivial, ?_⟩
        rintro s' ⟨s0, h1, rfl⟩ e _ h0
        rw [hs] at h1; cases h1; rw [he] at h0; cases h0
      | some e =>
        simp only [he] at h ⊢
        by_cases hst : (m.strict || !e.isCorrupted) = true
        · simp [hst] at h
        · simp only [hst, Bool.false_eq_true, if_false] at h ⊢
          refine ⟨by first | rfl | trivial, ?_⟩
          rintro s' ⟨s0, h1, rfl⟩ e' _ h0
          rw [hs] at h1; cases h1; rw [he] at h0; cases h0
          cases hm' : m.strict <;> cases hc : e.isCorrupted <;> simp_all

theorem turnBackE_strict (o : EIterOps σ) (key : IKey) (m : EMerged σ) :
    (turnBackE o key m).strict = m.strict := by
  unfold turnBackE; simp only; split <;> rfl

theorem turnBackE_base (o : EIterOps σ) (key : IKey) (m : EMerged σ) (hm : m.err = none)
    (h : (turnBackE o key m).err = none) :
    (turnBackE o key m).base = MergedIter.turnBack o.toIterOps key m.base ∧
    (moveLoop o m.strict (turnG o.toIterOps key m.base.index) 0 m.base.iters).2.2 = none := by
  unfold turnBackE at h ⊢
  simp only at h ⊢
  cases hr : (moveLoop o m.strict (turnG o.toIterOps key m.base.index) 0 m.base.iters).2.2 with
  | some e => simp [hr] at h
  | none =>
    simp only [hr]
    obtain ⟨h1, _, _⟩ := moveLoop_none o m.strict _ 0 m.base.iters hr
    have h2 : (moveLoop o m.strict (turnG o.toIterOps key m.base.index) 0 m.base.iters).1 =
        m.base.iters.mapIdx fun x s =>
          if x = m.base.index then s
          else
            let s1 := o.seek key s
            if o.ok s1 then o.prev s1 else o.last s1 := by
      rw [h1, applyFrom_mapIdx]
      apply List.ext_getElem?
      intro i
      simp only [List.getElem?_mapIdx, Nat.zero_add]
      cases m.base.iters[i]? with
      | none => rfl
      | some s =>
        simp only [Option.map_some, turnG]
        split <;> rfl
    refine ⟨?_, trivial⟩
    simp only [MergedIter.turnBack]
    rw [h2]

end EMerged
end GoLevel
