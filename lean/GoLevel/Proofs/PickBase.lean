import GoLevel.Proofs.PickOverlap
import GoLevel.Proofs.LSMCompactView
/-!
# (P2) `compaction.baseLevelForKey` with its cursor `tPtrs`

`CursorInv … ptrs k`: in every level `≥ src+2` every table before the cursor ends strictly before `k`
(and the cursor is within the level).  It holds for the zero cursor `newCompaction` creates and for every key;
it is monotone in `k`; one call `baseLevelForKey(k)` under `CursorInv … k` preserves it *and answers exactly
what the cursor-free specification `GoLevel.baseLevelForKey` answers* ("no table of a level `≥ src+2` has `k`
within `[imin.ukey, imax.ukey]`").  Hence on a non-decreasing key sequence every answer is right
(`baseRun_eq`), and `tableCompactionBuilder.run` with the stateful function builds what the model builder
`GoLevel.build` builds with the pure one (`buildC_eq_build`) — this is hypothesis (H2) of
`C03.build_preserves_view`, derived from the code.  Out of order the answer can be a wrong `true`
(`baseLevelForKey_out_of_order`).
Core Lean only.
-/
namespace GoLevel.Pick

/-- the invariant of `c.tPtrs` relative to a key `k` -/
structure CursorInv (c : UCmp) (v : Version) (src : Nat) (ptrs : List Nat) (k : Bytes) : Prop where
  len : ptrs.length = v.levels.length
  bound : ∀ level, ptrs.getD level 0 ≤ (v.lvl level).length
  skipped : ∀ level, src + 2 ≤ level → ∀ t ∈ (v.lvl level).take (ptrs.getD level 0), c.lt t.imax.ukey k

theorem getD_replicate_zero (n i : Nat) : (List.replicate n 0).getD i 0 = 0 := by
  rw [List.getD_eq_getElem?_getD, List.getElem?_replicate]
  split <;> rfl

/-- the cursor `newCompaction` creates (`make([]int, len(v.levels))`) satisfies the invariant for every key -/
theorem cursorInv_init (c : UCmp) (v : Version) (src : Nat) (k : Bytes) :
    CursorInv c v src (List.replicate v.levels.length 0) k := by
  refine ⟨by simp, ?_, ?_⟩
  · intro level; rw [getD_replicate_zero]; exact Nat.zero_le _
  · intro level _ t ht
    rw [getD_replicate_zero, List.take_zero] at ht
    cases ht

theorem getD_set (ptrs : List Nat) (i j x : Nat) (hi : i < ptrs.length) :
    (ptrs.set i x).getD j 0 = if j = i then x else ptrs.getD j 0 := by
  rw [List.getD_eq_getElem?_getD, List.getD_eq_getElem?_getD, List.getElem?_set]
  by_cases h : i = j
  · subst h; simp [hi]
  · rw [if_neg h, if_neg (fun e => h e.symm)]

section
variable {c : UCmp} (hl : LawfulUCmp c)
include hl

/-- the invariant is monotone in the key: that is why keys must come in non-decreasing order -/
theorem CursorInv.mono {v : Version} {src : Nat} {ptrs : List Nat} {k k' : Bytes}
    (h : CursorInv c v src ptrs k) (hk : c.le k k') : CursorInv c v src ptrs k' :=
  ⟨h.len, h.bound, fun level hlv t ht => ult_of_ult_of_ule hl (h.skipped level hlv t ht) hk⟩

/-- a table ending before `k` does not hold `k` -/
theorem not_overlapsKey_of_before {t : Table} {k : Bytes} (h : c.lt t.imax.ukey k) :
    t.overlapsKey c k = false := by
  unfold Table.overlapsKey
  have : c.cmp k t.imax.ukey = .gt := (cmp_gt_iff hl _ _).2 h
  rw [this]; rfl

omit hl in
/-- a table starting after `k` does not hold `k` -/
theorem not_overlapsKey_of_after {t : Table} {k : Bytes} (h : c.lt k t.imin.ukey) :
    t.overlapsKey c k = false := by
  unfold Table.overlapsKey
  have : c.cmp k t.imin.ukey = .lt := h
  rw [this]; simp

/-- **the inner loop**: started behind tables that all end before `k`, it stops behind tables that all end
before `k` and reports whether some table of the level holds `k` -/
theorem scanLevel_spec (k : Bytes) (ts pre : List Table) (hp : (pre ++ ts).Pairwise (tlt c))
    (hle : ∀ t ∈ pre ++ ts, c.le t.imin.ukey t.imax.ukey) (hpre : ∀ t ∈ pre, c.lt t.imax.ukey k) :
    pre.length ≤ (scanLevel c k ts pre.length).1 ∧ (scanLevel c k ts pre.length).1 ≤ (pre ++ ts).length ∧
    (∀ t ∈ (pre ++ ts).take (scanLevel c k ts pre.length).1, c.lt t.imax.ukey k) ∧
    (scanLevel c k ts pre.length).2 = (pre ++ ts).any (·.overlapsKey c k) := by
  induction ts generalizing pre with
  | nil =>
    simp only [scanLevel, List.append_nil, List.take_length]
    refine ⟨Nat.le_refl _, Nat.le_refl _, hpre, ?_⟩
    symm
    rw [List.any_eq_false]
    intro t ht
    rw [not_overlapsKey_of_before hl (hpre t ht)]; simp
  | cons t ts ih =>
    rw [scanLevel]
    by_cases hA : (c.cmp k t.imax.ukey != .gt) = true
    · rw [if_pos hA]
      have htake : (pre ++ t :: ts).take pre.length = pre := by
        rw [List.take_append_of_le_length (Nat.le_refl _), List.take_length]
      by_cases hB : (c.cmp k t.imin.ukey != .lt) = true
      · rw [if_pos hB]
        refine ⟨Nat.le_refl _, by simp, by rw [htake]; exact hpre, ?_⟩
        symm
        rw [List.any_eq_true]
        exact ⟨t, by simp, by unfold Table.overlapsKey; rw [hA, hB]; rfl⟩
      · rw [if_neg hB]
        refine ⟨Nat.le_refl _, by simp, by rw [htake]; exact hpre, ?_⟩
        symm
        rw [List.any_eq_false]
        intro x hx
        have hkt : c.lt k t.imin.ukey := by
          rw [bne_lt_iff hl, not_ule_iff hl] at hB; exact hB
        have : x.overlapsKey c k = false := by
          rcases List.mem_append.1 hx with hx | hx
          · exact not_overlapsKey_of_before hl (hpre x hx)
          · rcases List.mem_cons.1 hx with rfl | hx
            · exact not_overlapsKey_of_after hkt
            · have htx : tlt c t x := by
                have := (List.pairwise_append.1 hp).2.1
                exact (List.pairwise_cons.1 this).1 x hx
              have htle := hle t (by simp)
              exact not_overlapsKey_of_after (ult_trans hl (ult_of_ult_of_ule hl hkt htle) htx)
        rw [this]; simp
    · rw [if_neg hA]
      have hkt : c.lt t.imax.ukey k := by
        rw [bne_gt_iff, not_ule_iff hl] at hA; exact hA
      have happ : pre ++ t :: ts = (pre ++ [t]) ++ ts := by simp
      have hlen : (pre ++ [t]).length = pre.length + 1 := by simp
      have := ih (pre ++ [t]) (by rw [← happ]; exact hp) (by rw [← happ]; exact hle)
        (by
          intro x hx
          rcases List.mem_append.1 hx with hx | hx
          · exact hpre x hx
          · rw [List.mem_singleton.1 hx]; exact hkt)
      rw [hlen, ← happ] at this
      exact ⟨by omega, this.2.1, this.2.2.1, this.2.2.2⟩

end

theorem all_not_eq_not_any {α : Type} (p : α → Bool) (l : List α) : (l.all fun t => !p t) = !l.any p := by
  induction l with
  | nil => rfl
  | cons x xs ih => simp [List.all_cons, List.any_cons, ih]

theorem lvl_of_drop {v : Version} {level : Nat} {tables : Level} {rest : List Level}
    (h : v.levels.drop level = tables :: rest) :
    v.lvl level = tables ∧ v.levels.drop (level + 1) = rest ∧ level < v.levels.length := by
  have hlt : level < v.levels.length := by
    apply Classical.byContradiction
    intro hn
    rw [List.drop_eq_nil_of_le (by omega)] at h
    cases h
  have h0 : (v.levels.drop level)[0]? = some tables := by rw [h]; rfl
  rw [List.getElem?_drop] at h0
  refine ⟨?_, ?_, hlt⟩
  · unfold Version.lvl
    simp only [Nat.add_zero] at h0
    rw [h0]; rfl
  · have : v.levels.drop (level + 1) = (v.levels.drop level).drop 1 := by
      rw [List.drop_drop]
    rw [this, h]; rfl

section
variable {c : UCmp} (hl : LawfulUCmp c)
include hl

/-- **the outer loop**: under the invariant for `k` it answers like the cursor-free specification and
re-establishes the invariant for `k` -/
theorem baseLoop_spec (v : Version) (hw : v.WFi c) (src : Nat) (k : Bytes) :
    ∀ (ls : List Level) (level : Nat) (ptrs : List Nat), v.levels.drop level = ls → src + 2 ≤ level →
      CursorInv c v src ptrs k →
      CursorInv c v src (baseLoop c k ls level ptrs).2 k ∧
      (baseLoop c k ls level ptrs).1 = ls.all (fun l => l.all fun t => !(t.overlapsKey c k)) := by
  intro ls
  induction ls with
  | nil => intro level ptrs _ _ hinv; exact ⟨hinv, rfl⟩
  | cons tables rest ih =>
    intro level ptrs hdrop hlv hinv
    obtain ⟨hlvl, hrest, hlt⟩ := lvl_of_drop hdrop
    have hpl : level < ptrs.length := by rw [hinv.len]; exact hlt
    have hb := hinv.bound level
    rw [hlvl] at hb
    have hsplit : tables.take (ptrs.getD level 0) ++ tables.drop (ptrs.getD level 0) = tables :=
      List.take_append_drop _ _
    have hpw : tables.Pairwise (tlt c) := by rw [← hlvl]; exact hw.disjoint level (by omega)
    have hle : ∀ t ∈ tables, c.le t.imin.ukey t.imax.ukey := by
      intro t ht
      exact Table.wf_imin_le_imax hl (hw.tables level t (by rw [hlvl]; exact ht))
    have hprelen : (tables.take (ptrs.getD level 0)).length = ptrs.getD level 0 := by
      rw [List.length_take]; omega
    have hsc := scanLevel_spec hl k (tables.drop (ptrs.getD level 0)) (tables.take (ptrs.getD level 0))
      (by rw [hsplit]; exact hpw) (by rw [hsplit]; exact hle)
      (by
        have := hinv.skipped level hlv
        rw [hlvl] at this
        exact this)
    rw [hprelen, hsplit] at hsc
    obtain ⟨_, hs2, hs3, hs4⟩ := hsc
    -- the invariant with the advanced cursor of this level
    have hinv' : CursorInv c v src
        (ptrs.set level (scanLevel c k (tables.drop (ptrs.getD level 0)) (ptrs.getD level 0)).1) k := by
      refine ⟨by rw [List.length_set]; exact hinv.len, ?_, ?_⟩
      · intro j
        rw [getD_set _ _ _ _ hpl]
        split
        · rename_i hj; subst hj; rw [hlvl]; exact hs2
        · exact hinv.bound j
      · intro j hj t ht
        rw [getD_set _ _ _ _ hpl] at ht
        split at ht
        · rename_i hj'; subst hj'
          rw [hlvl] at ht
          exact hs3 t ht
        · exact hinv.skipped j hj t ht
    rw [baseLoop]
    by_cases hf : (scanLevel c k (tables.drop (ptrs.getD level 0)) (ptrs.getD level 0)).2 = true
    · rw [if_pos hf]
      refine ⟨hinv', ?_⟩
      rw [List.all_cons, all_not_eq_not_any, ← hs4, hf]
      rfl
    · rw [if_neg hf]
      obtain ⟨h1, h2⟩ := ih (level + 1) _ hrest (by omega) hinv'
      refine ⟨h1, ?_⟩
      rw [h2, List.all_cons, all_not_eq_not_any, ← hs4]
      have : (scanLevel c k (tables.drop (ptrs.getD level 0)) (ptrs.getD level 0)).2 = false := by
        simpa using hf
      rw [this]; rfl

/-- **one call** of `baseLevelForKey` under the invariant -/
theorem baseLevelForKey_spec (cm : Compaction) (hw : cm.v.WFi c) (k : Bytes)
    (hinv : CursorInv c cm.v cm.sourceLevel cm.tPtrs k) :
    (cm.baseLevelForKey c k).1 = GoLevel.baseLevelForKey c cm.v cm.sourceLevel k ∧
    CursorInv c cm.v cm.sourceLevel (cm.baseLevelForKey c k).2.tPtrs k := by
  obtain ⟨h1, h2⟩ := baseLoop_spec hl cm.v hw cm.sourceLevel k _ (cm.sourceLevel + 2) cm.tPtrs rfl
    (Nat.le_refl _) hinv
  exact ⟨h2, h1⟩

end

theorem baseLevelForKey_v (c : UCmp) (cm : Compaction) (k : Bytes) :
    (cm.baseLevelForKey c k).2.v = cm.v ∧ (cm.baseLevelForKey c k).2.sourceLevel = cm.sourceLevel := ⟨rfl, rfl⟩

section
variable {c : UCmp} (hl : LawfulUCmp c)
include hl

/-- **a non-decreasing sequence of calls**: every answer is the specification's -/
theorem baseRun_eq (cm : Compaction) (hw : cm.v.WFi c) (ks : List Bytes) (hs : ks.Pairwise c.le)
    (hinv : ∀ k ∈ ks, CursorInv c cm.v cm.sourceLevel cm.tPtrs k) :
    (baseRun c cm ks).1 = ks.map (GoLevel.baseLevelForKey c cm.v cm.sourceLevel) := by
  induction ks generalizing cm with
  | nil => rfl
  | cons k ks ih =>
    obtain ⟨hk, hks⟩ := List.pairwise_cons.1 hs
    obtain ⟨h1, h2⟩ := baseLevelForKey_spec hl cm hw k (hinv k (by simp))
    rw [baseRun]
    simp only [List.map_cons]
    rw [h1]
    congr 1
    exact ih (cm.baseLevelForKey c k).2 hw hks (fun k' hk' => h2.mono hl (hk k' hk'))

end

/-! ## the builder with the stateful function -/

theorem bstep_eq (c : UCmp) (minSeq : Nat) (base : Bytes → Bool) (st : BState) (e : Entry) :
    bstep c minSeq base st e = ({ lastKey := some e.ukey, lastSeq := some e.seq },
      !(shadowedB c minSeq st e || (decide (e.kind = Gen.keyTypeDel) && decide (e.seq ≤ minSeq) && base e.ukey))) :=
  rfl

theorem bstepC_v (c : UCmp) (minSeq : Nat) (cm : Compaction) (st : BState) (e : Entry) :
    (bstepC c minSeq cm st e).2.2.v = cm.v ∧ (bstepC c minSeq cm st e).2.2.sourceLevel = cm.sourceLevel := by
  unfold bstepC
  split
  · exact ⟨rfl, rfl⟩
  · split
    · exact ⟨rfl, rfl⟩
    · exact ⟨rfl, rfl⟩

section
variable {c : UCmp} (hl : LawfulUCmp c)
include hl

/-- one iteration: same new state and same keep/drop decision as `GoLevel.bstep` with the pure predicate, and
the invariant holds again for this entry's user key -/
theorem bstepC_spec (minSeq : Nat) (cm : Compaction) (hw : cm.v.WFi c) (st : BState) (e : Entry)
    (hinv : CursorInv c cm.v cm.sourceLevel cm.tPtrs e.ukey) :
    (bstepC c minSeq cm st e).1 = (bstep c minSeq (GoLevel.baseLevelForKey c cm.v cm.sourceLevel) st e).1 ∧
    (bstepC c minSeq cm st e).2.1 = (bstep c minSeq (GoLevel.baseLevelForKey c cm.v cm.sourceLevel) st e).2 ∧
    CursorInv c cm.v cm.sourceLevel (bstepC c minSeq cm st e).2.2.tPtrs e.ukey := by
  obtain ⟨h1, h2⟩ := baseLevelForKey_spec hl cm hw e.ukey hinv
  rw [bstep_eq]
  unfold bstepC
  by_cases hsh : shadowedB c minSeq st e = true
  · rw [if_pos hsh, hsh]
    exact ⟨rfl, rfl, hinv⟩
  · rw [if_neg hsh]
    have hsh' : shadowedB c minSeq st e = false := by simpa using hsh
    rw [hsh']
    by_cases hdel : (decide (e.kind = Gen.keyTypeDel) && decide (e.seq ≤ minSeq)) = true
    · rw [if_pos hdel, hdel]
      refine ⟨rfl, ?_, h2⟩
      simp only [h1, Bool.false_or, Bool.true_and]
    · rw [if_neg hdel]
      have hdel' : (decide (e.kind = Gen.keyTypeDel) && decide (e.seq ≤ minSeq)) = false := by simpa using hdel
      rw [hdel']
      exact ⟨rfl, rfl, hinv⟩

/-- **(H2) derived from the code.**  On an input whose user keys are non-decreasing (the merged iterator:
`C03.mergeAll_sorted_perm`), `tableCompactionBuilder.run` with the stateful `baseLevelForKey` keeps exactly
the entries the model builder keeps with the cursor-free specification. -/
theorem buildC_eq_build (minSeq : Nat) (cm : Compaction) (hw : cm.v.WFi c) (es : List Entry)
    (hs : es.Pairwise (fun a b => c.le a.ukey b.ukey))
    (hinv : ∀ e ∈ es, CursorInv c cm.v cm.sourceLevel cm.tPtrs e.ukey) (st : BState) :
    (buildC c minSeq cm st es).1 = build c minSeq (GoLevel.baseLevelForKey c cm.v cm.sourceLevel) st es := by
  induction es generalizing cm st with
  | nil => rfl
  | cons e es ih =>
    obtain ⟨he, hes⟩ := List.pairwise_cons.1 hs
    obtain ⟨h1, h2, h3⟩ := bstepC_spec hl minSeq cm hw st e (hinv e (by simp))
    obtain ⟨hv, hsl⟩ := bstepC_v c minSeq cm st e
    have hrec := ih (bstepC c minSeq cm st e).2.2 (by rw [hv]; exact hw) hes
      (by
        intro e' he'
        rw [hv, hsl]
        exact h3.mono hl (he e' he'))
      (bstepC c minSeq cm st e).1
    rw [hv, hsl] at hrec
    rw [buildC, build]
    rw [← h2, ← h1, ← hrec]
    split <;> rfl

end

/-- an `icmp`-sorted entry list has non-decreasing user keys -/
theorem ukeys_sorted_of_ESorted {c : UCmp} (hl : LawfulUCmp c) (es : List Entry) (hs : ESorted c es) :
    es.Pairwise (fun a b => c.le a.ukey b.ukey) :=
  hs.imp (fun h => ecmp_ule hl h)

/-! ## why the order matters -/

/-- a table with one-byte bounds and no content -/
def bT (n : Nat) (a b : UInt8) : Table := ⟨n, 10, [], mkIKey [a] 1 1, mkIKey [b] 1 1⟩

/-- three levels; level 2 holds `[4]..[6]` and `[8]..[9]` -/
def bV : Version := ⟨[[bT 5 1 9], [bT 4 1 3], [bT 1 4 6, bT 2 8 9]]⟩

def bCm : Compaction :=
  { v := bV, sourceLevel := 0, s0 := [bT 5 1 9], s1 := [bT 4 1 3], maxGPOverlaps := 100, gp := [bT 1 4 6, bT 2 8 9],
    gpi := 0, seenKey := false, gpOverlappedBytes := 0, imin := mkIKey [1] 1 1, imax := mkIKey [9] 1 1,
    tPtrs := [0, 0, 0], snapGPI := 0, snapSeenKey := false, snapGPOverlappedBytes := 0, snapTPtrs := [] }

/-- in order: `[3]` base level, `[5]` not (table 1 holds it), `[7]` base level, `[8]` not -/
example : (baseRun bytewise bCm [[3], [5], [7], [8]]).1 = [true, false, true, false] ∧
    (baseRun bytewise bCm [[3], [5], [7], [8]]).2.tPtrs = [0, 0, 1] := by decide

/-- **Out of order the answer is wrong.**  Asking for `[7]` first moves the level-2 cursor past table 1
(`[4]..[6]`); asking for `[5]` afterwards answers `true` ("no deeper level can hold `[5]`") although table 1
holds `[5]`: a deletion marker of `[5]` would be dropped and the old value in level 2 resurrected. -/
theorem baseLevelForKey_out_of_order :
    (baseRun bytewise bCm [[7], [5]]).1 = [true, true] ∧
    GoLevel.baseLevelForKey bytewise bV 0 [5] = false ∧
    ¬ CursorInv bytewise bV 0 (bCm.baseLevelForKey bytewise [7]).2.tPtrs [5] := by
  refine ⟨by decide, by decide, ?_⟩
  intro h
  have := h.skipped 2 (by decide) (bT 1 4 6) (by decide)
  revert this
  decide

end GoLevel.Pick
